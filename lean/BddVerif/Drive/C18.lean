import BddVerif.Drive.Tables
import BddVerif.Model.Valuation
/-!
Driver for C18. The model side replays every history on `PartialVal` (the vector, with its growth and
padding); the predicate side interprets the same history as a *map* (last write per variable wins, no
vector) and checks the observed `==`, hash equality, `extends`, `get`, conversions against the relation
on the maps, and the observed comparator results against truth tables / sizes / order laws.
-/
namespace B.Drive.C18
open B B.Drive B.Count B.Val B.Cmp

inductive HOp where
  | set (x : Nat) (b : Bool)
  | unset (x : Nat)
  | idx (x : Nat) (c : Option Bool)
  | rebuild
  | total (bits : List Bool)

def parseCell (s : String) : Option Bool := if s == "1" then some true else if s == "0" then some false else none

def parseOp? (s : String) : Option HOp :=
  let kind := s.take 1 |>.toString
  let rest := s.drop 1 |>.toString
  if kind == "s" then
    match rest.splitOn "=" with
    | [x, b] => x.toNat?.map fun x => HOp.set x (b == "1")
    | _ => none
  else if kind == "u" then rest.toNat?.map HOp.unset
  else if kind == "i" then
    match rest.splitOn "=" with
    | [x, c] => x.toNat?.map fun x => HOp.idx x (parseCell c)
    | _ => none
  else if kind == "r" then some HOp.rebuild
  else if kind == "T" then some (HOp.total (parseBits rest))
  else none

def parseHistory? (s : String) : Option (List HOp) :=
  if s == "~" then some [] else (s.splitOn ".").mapM parseOp?

/-- model side: the vector -/
def runModel (h : List HOp) : PartialVal :=
  h.foldl (fun p op => match op with
    | .set x b => PartialVal.set p x b
    | .unset x => PartialVal.unset p x
    | .idx x c => PartialVal.setCell p x c
    | .rebuild => PartialVal.fromValues (PartialVal.toValues p)
    | .total bits => PartialVal.ofTotal bits) PartialVal.empty

/-- predicate side: the list of writes since the last total assignment, newest first -/
def runMap (h : List HOp) : List (Nat × Option Bool) :=
  h.foldl (fun w op => match op with
    | .set x b => (x, some b) :: w
    | .unset x => (x, none) :: w
    | .idx x c => (x, c) :: w
    | .rebuild => w
    | .total bits => (bits.zipIdx.map fun (b, i) => (i, some b)).reverse) []

def mapGet (w : List (Nat × Option Bool)) (x : Nat) : Option Bool :=
  match w.find? (·.1 == x) with
  | some (_, c) => c
  | none => none

def insNat (x : Nat) : List Nat → List Nat
  | [] => [x]
  | y :: ys => if x < y then x :: y :: ys else if x == y then y :: ys else y :: insNat x ys

/-- the variables mentioned by a write list, increasing -/
def mapVars (w : List (Nat × Option Bool)) : List Nat := w.foldl (fun acc p => insNat p.1 acc) []

def mapFixed (w : List (Nat × Option Bool)) : List (Nat × Bool) :=
  (mapVars w).filterMap fun x => (mapGet w x).map fun b => (x, b)

def cellChar : Option Bool → Char
  | some true => '1' | some false => '0' | none => '-'
def showCells (f : Nat → Option Bool) (k : Nat) : String := String.ofList ((List.range k).map fun i => cellChar (f i))
def showVals (v : List (Nat × Bool)) : String :=
  if v.isEmpty then "~" else ",".intercalate (v.map fun (x, b) => s!"{x}={if b then 1 else 0}")
def b01 (b : Bool) : String := if b then "1" else "0"
def showOptNat' : Option Nat → String | some x => toString x | none => "-"

def modelOne (p : PartialVal) (k : Nat) : List String :=
  [ showCells (PartialVal.get p) k, showCells (PartialVal.get p) k, showVals (PartialVal.toValues p),
    (match PartialVal.cardinality p with | .ok c => toString c | _ => "panic"),
    showOptNat' (PartialVal.lastFixed p), b01 (PartialVal.isEmpty p),
    (match PartialVal.toTotal p with | some v => showBits v | none => "err") ]

def modelBack (p : PartialVal) : String :=
  match PartialVal.toTotal p with
  | some v => b01 (PartialVal.eq (PartialVal.ofTotal v) p)
  | none => "-"

def firstFail (xs : List (Option String)) : Option String := xs.findSome? id
def chk (b : Bool) (msg : String) : Option String := if b then none else some msg

/-- the clauses about one valuation, on the observed fields `[get, idx, vals, card, last, empty, try]` -/
def predOne (tag : String) (w : List (Nat × Option Bool)) (k : Nat) (o : List String) : Option String :=
  match o with
  | [get, idx, vals, _card, _last, _empty, try_] =>
    let fixed := mapFixed w
    firstFail [
      chk (get == showCells (mapGet w) k) s!"get{tag}≠last-write",
      chk (idx == get) s!"index{tag}≠get",
      chk (vals == showVals fixed) s!"to_values{tag}",
      -- `cardinality`, `last_fixed_variable`, `is_empty` are not part of the property's statement:
      -- they are compared with the model only (agreement), never a FAIL clause
      if try_ == "err" then none
      else
        let v := parseBits try_
        chk (try_ != "panic" && fixed == v.zipIdx.map (fun (b, i) => (i, b))) s!"try_from{tag}-not-the-map" ]
  | _ => some "fields"

def ordLetter : Option Ordering → Char
  | some .lt => 'L' | some .eq => 'E' | some .gt => 'G' | none => 'N'

def model5 (a b : Arr) : String :=
  String.ofList [
    ordLetter (some (cmpSize a b)),
    (match cmpCardinality a b with | .ok o => ordLetter (some o) | _ => 'P'),
    (match cmpCardinalityStrict a b with | .ok o => ordLetter o | _ => 'P'),
    ordLetter (cmpImplies a b),
    ordLetter (some (cmpStructural a b)) ]

def popcount (tt : Array Bool) : Nat := tt.foldl (fun acc b => if b then acc + 1 else acc) 0
def flipLetter (c : Char) : Char := if c == 'L' then 'G' else if c == 'G' then 'L' else c
def le (c : Char) : Bool := c == 'L' || c == 'E'
def ge (c : Char) : Bool := c == 'G' || c == 'E'
def natLetter (x y : Nat) : Char := if x < y then 'L' else if x == y then 'E' else 'G'

/-- specification of the lexicographic order on node lists, written independently of the model:
    the first position where the arrays differ decides; a proper prefix is smaller -/
def specStructural (a b : Arr) : Char := Id.run do
  for i in [0:min a.size b.size] do
    let x := a[i]!; let y := b[i]!
    if x != y then
      return if x.var != y.var then natLetter x.var y.var
        else if x.low != y.low then natLetter x.low y.low else natLetter x.high y.high
  return natLetter a.size b.size

/-- plain enumeration of the root-to-one paths: state = (budget, Σ 2^(n − length), paths as literal lists) -/
def bruteGo (A : Arr) (n : Nat) : Nat → Nat → List (Nat × Bool) → (Nat × Nat × List (List (Nat × Bool))) →
    Option (Nat × Nat × List (List (Nat × Bool)))
  | 0, _, _, _ => none
  | f + 1, p, lits, (bud, cnt, paths) =>
    if bud = 0 then none
    else if p = 0 then some (bud - 1, cnt, paths)
    else if p = 1 then some (bud - 1, cnt + 2 ^ (n - lits.length), lits :: paths)
    else
      let nd := nodeAt A p
      match bruteGo A n f nd.low ((nd.var, false) :: lits) (bud - 1, cnt, paths) with
      | none => none
      | some st => bruteGo A n f nd.high ((nd.var, true) :: lits) st

/-- `(exact model count, root-to-one paths)` by path enumeration — independent of the cached level-gap
    arithmetic of `exact_cardinality`; `none` beyond 200 000 steps -/
def brute (A : Arr) : Option (Nat × List (List (Nat × Bool))) :=
  if A.size = 1 then some (0, []) else
  (bruteGo A (numVars A) (A.size + 1) (root A) [] (200000, 0, [])).map fun (_, c, ps) => (c, ps)

/-- is the cube `lits` contained in the function of `B` below pointer `p`? (free variables: both branches) -/
def cubeIn (B : Arr) (lits : Array (Option Bool)) : Nat → Nat → Nat → Option (Nat × Bool)
  | 0, _, _ => none
  | f + 1, p, bud =>
    if bud = 0 then none
    else if p = 0 then some (bud - 1, false)
    else if p = 1 then some (bud - 1, true)
    else
      let nd := nodeAt B p
      match lits.getD nd.var none with
      | some b => cubeIn B lits f (if b then nd.high else nd.low) (bud - 1)
      | none =>
        match cubeIn B lits f nd.low (bud - 1) with
        | none => none
        | some (bud1, false) => some (bud1, false)
        | some (bud1, true) => cubeIn B lits f nd.high bud1

/-- pointwise implication `A ⇒ B` (same variable count) by cubes; `none` if too expensive -/
def impliesBrute (A B : Arr) (pathsA : List (List (Nat × Bool))) : Option Bool :=
  if B.size = 1 then some pathsA.isEmpty else
  pathsA.foldl (fun acc lits => match acc with
    | some (bud, true) =>
      let cube := lits.foldl (fun (c : Array (Option Bool)) (x, b) => c.setIfInBounds x (some b)) (Array.replicate (numVars B) none)
      cubeIn B cube (B.size + 1) (root B) bud
    | other => other) (some (2000000, true)) |>.map (·.2)

/-- the clauses about one ordered pair of WIDE operands (more than 12 variables): exact counts by path
    enumeration (falling back to the proved model `exactCard` when that is too expensive), implication
    by cube containment; everything in `Nat`, never a float -/
def predPairWide (tag : String) (a b : Arr) (cs : List Char) : Option String :=
  match cs with
  | [sz, cd, st, im, sr] =>
    let na := numVars a; let nb := numVars b
    let ba := brute a; let bb := brute b
    let ca := match ba with | some (c, _) => c | none => exactCard a
    let cb := match bb with | some (c, _) => c | none => exactCard b
    let impSpec : Option Char :=
      if na != nb then some 'N' else
      match ba, bb with
      | some (_, pa), some (_, pb) =>
        match impliesBrute a b pa, impliesBrute b a pb with
        | some sub, some sup => some (if sub && sup then 'E' else if sub then 'L' else if sup then 'G' else 'N')
        | _, _ => none
      | _, _ => none
    firstFail [
      chk (ca == exactCard a && cb == exactCard b) s!"harness/model:exact-count{tag}",
      chk (sz == natLetter a.size b.size) s!"cmp_size{tag}",
      chk (cd == natLetter ca cb) s!"cmp_cardinality{tag}",
      chk (st == (if na == nb then natLetter ca cb else 'N')) s!"cmp_cardinality_strict{tag}",
      match impSpec with | some c => chk (im == c) s!"cmp_implies{tag}" | none => none,
      chk ((sr == 'E') == (a == b)) s!"cmp_structural-Equal≠=={tag}" ]
  | _ => some "fields"

/-- `∀ i < n, f i` as a loop (no list of 2^20 indices) -/
def allBelow (n : Nat) (f : Nat → Bool) : Bool := Id.run do
  for i in [0:n] do
    if !f i then return false
  return true

/-- truth table of an operand when the truth-table predicate applies: at most 12 variables, or a BIG
    diagram (more than 4096 nodes) over at most 20 variables (2^20 evaluations are affordable once per operand) -/
def tableOf? (a : Arr) : Option (Array Bool) :=
  let n := numVars a
  if n ≤ 12 ∨ (n ≤ 20 ∧ a.size > 4096) then some (ttOf a n) else none

/-- the clauses about one ordered pair, `o` = the five observed letters; `ta`, `tb` = the operands'
    truth tables when `tableOf?` provides them (computed once per case) -/
def predPair (tag : String) (a b : Arr) (ta tb : Option (Array Bool)) (o : String) : Option String :=
  let cs := o.toList
  match cs with
  | [sz, cd, st, im, sr] =>
    let na := numVars a; let nb := numVars b
    match ta, tb with
    | some ta, some tb =>
      let ca := popcount ta; let cb := popcount tb
      let sub := na == nb && allBelow (2 ^ na) fun i => !ta[i]! || tb[i]!
      let sup := na == nb && allBelow (2 ^ na) fun i => !tb[i]! || ta[i]!
      let impSpec := if na != nb then 'N' else if sub && sup then 'E' else if sub then 'L' else if sup then 'G' else 'N'
      firstFail [
        chk (sz == natLetter a.size b.size) s!"cmp_size{tag}",
        chk (cd == natLetter ca cb) s!"cmp_cardinality{tag}",
        chk (st == (if na == nb then natLetter ca cb else 'N')) s!"cmp_cardinality_strict{tag}",
        chk (im == impSpec) s!"cmp_implies{tag}",
          chk ((sr == 'E') == (a == b)) s!"cmp_structural-Equal≠=={tag}",
        -- the exact counts of the proved model are the popcounts of the tables
        chk (na > 12 → (exactCard a == ca && exactCard b == cb)) s!"model:exactCard≠popcount{tag}" ]
    | _, _ => predPairWide tag a b cs
  | _ => some "fields"

/-- a valid diagram (what `validate()` accepts, the property's quantifier "all Bdds"): terminals exact, every
    decision node with links inside the array, a variable below `num_vars` and strictly below its children's.
    On anything else the predicate is not evaluated (agreement with the model only). -/
def validArr (A : Arr) : Bool :=
  let n := numVars A
  A.size > 0 && A[0]! == ⟨n, 0, 0⟩ && (A.size == 1 || A[1]! == ⟨n, 1, 1⟩) &&
  (List.range A.size).all fun p => p < 2 ||
    (let nd := A[p]!
     nd.var < n && nd.low < A.size && nd.high < A.size && nd.var < (A[nd.low]!).var && nd.var < (A[nd.high]!).var)

def handle (key : String) (ins obs : List String) : Verdict :=
  -- an observation `hang` (the runner's watchdog) is a plain disagreement: nothing can be evaluated on it
  if obs == ["hang"] then { agree := false, model := "returns", fail := none, nontrivial := false, tags := ["hang"] } else
  match key, ins with
  | "C18.pv", [ks, h1, h2] =>
    match ks.toNat?, parseHistory? h1, parseHistory? h2 with
    | some k, some H1, some H2 =>
      let p := runModel H1; let q := runModel H2
      let modelL := modelOne p k ++ modelOne q k ++
        [ b01 (PartialVal.eq p q), b01 (PartialVal.eq q p),
          b01 (PartialVal.hashWrites p == PartialVal.hashWrites q),
          b01 (PartialVal.extends_ p q), b01 (PartialVal.extends_ q p), modelBack p, modelBack q ]
      let model := " ".intercalate modelL
      let w1 := runMap H1; let w2 := runMap H2
      let vars := (mapVars (w1 ++ w2))
      let same := vars.all fun x => mapGet w1 x == mapGet w2 x
      let ext (wa wb : List (Nat × Option Bool)) : Bool :=
        vars.all fun x => match mapGet wb x with | some b => mapGet wa x == some b | none => true
      let fail : Option String :=
        if obs.length != 21 then some "fields" else
        let o1 := obs.take 7; let o2 := (obs.drop 7).take 7
        match obs.drop 14 with
        | [eq12, eq21, hasheq, ext12, ext21, back1, back2] =>
          firstFail [
            predOne "1" w1 k o1, predOne "2" w2 k o2,
            chk (eq12 == b01 same) "eq≠same-map", chk (eq21 == b01 same) "eq≠same-map(q==p)",
            chk (!same || hasheq == "1") "equal-but-hash-differs",
            chk (same || hasheq == "0") "hash-collision-on-different-maps",
            chk (ext12 == b01 (ext w1 w2)) "extends12", chk (ext21 == b01 (ext w2 w1)) "extends21",
            chk (back1 == "-" || back1 == "1") "from(try_from(p))≠p", chk (back2 == "-" || back2 == "1") "from(try_from(q))≠q" ]
        | _ => some "fields"
      let tight : Nat := match (mapFixed w1).getLast? with | some (x, _) => x + 1 | none => 0
      let padded : Bool := p.length != tight
      { agree := model == " ".intercalate obs, model, fail,
        nontrivial := !(mapFixed w1).isEmpty || !(mapFixed w2).isEmpty,
        tags := [ if same then "same-map" else "diff-map", if padded then "padded" else "tight",
                  if (obs.getD 6 "") != "err" then "total" else "not-total",
                  if vars.any (· ≥ 256) then "bigvar" else "smallvar" ] }
    | _, _, _ => Verdict.bad "args"
  | "C18.conv", [bits] =>
    let v := parseBits bits
    let n := v.length
    let mA := TotalVal.toBdd v
    let tryS := match PartialVal.toTotal (PartialVal.ofTotal v) with | some w => b01 (w == v) | none => "err"
    let modelL := [ showVals (PartialVal.toValues (PartialVal.ofTotal v)), tryS, showArr mA,
                    b01 (evalArr mA (valOfBits v)), (match exactCardO mA with | .ok c => toString c | _ => "panic") ]
    let model := " ".intercalate modelL
    match obs with
    | [vals, try_, bdd, eval, card, wit, isv] =>
      let fail : Option String :=
        match parseArr? bdd with
        | none => some ("outcome:" ++ bdd)
        | some A =>
          firstFail [
            chk (vals == showVals (v.zipIdx.map fun (b, i) => (i, b))) "from(v).to_values≠v",
            chk (try_ == "1") "try_from(from(v))≠v",
            chk (numVars A == n) "bdd-num_vars",
            if n ≤ 12 then
              chk ((List.range (2 ^ n)).all fun i => (ttOf A n)[i]! == ((List.range n).all fun k => valOfIndex n i k == v.getD k false)) "bdd≠{v}"
            else chk (A.size == n + 2 && evalArr A (valOfBits v)) "bdd≠{v}(large)",
            chk (eval == "1") "eval_in(v)", chk (card == "1") "cardinality≠1",
            chk (wit == "1") "sat_witness≠v", chk (isv == "1") "is_valuation" ]
      { agree := model == " ".intercalate [vals, try_, bdd, eval, card], model, fail, nontrivial := n > 0,
        tags := ["conv", if n ≤ 12 then "n≤12" else "n>12"] }
    | _ => Verdict.bad "fields"
  | "C18.ext", [bits, h] =>
    match parseHistory? h, obs with
    | some H, [o] =>
      let v := parseBits bits
      let p := runModel H
      let model := b01 (TotalVal.extends_ v p)
      let fixed := mapFixed (runMap H)
      let inRange := fixed.all fun (x, _) => x < v.length
      let spec := fixed.all fun (x, b) => v.getD x false == b
      { agree := model == o, model,
        fail := if inRange then chk (o == b01 spec) "extends≠all-fixed-values-agree" else none,
        nontrivial := !fixed.isEmpty, tags := ["ext", if inRange then "in-range" else "partial-beyond-total"] }
    | _, _ => Verdict.bad "args"
  | "C18.cmp", [a, b, c] =>
    match parseArr? a, parseArr? b, parseArr? c, obs with
    | some A, some B, some C, [ab, ba, bc, ac, aa, eab, ebc, eac] =>
      let model := " ".intercalate [model5 A B, model5 B A, model5 B C, model5 A C, model5 A A, b01 (A == B), b01 (B == C), b01 (A == C)]
      let col (s : String) (i : Nat) : Char := s.toList.getD i '?'
      -- order laws per comparator column: 0 size, 1 cardinality, 4 structural are total preorders;
      -- 2 strict / 3 implies are partial (N = incomparable)
      let laws (i : Nat) (total : Bool) : Option String :=
        firstFail [
          chk (col ba i == flipLetter (col ab i)) s!"antisymmetry/flip[{i}]",
          chk (col aa i == 'E') s!"reflexivity[{i}]",
          chk (!(le (col ab i) && le (col bc i)) || le (col ac i)) s!"transitivity≤[{i}]",
          chk (!(ge (col ab i) && ge (col bc i)) || ge (col ac i)) s!"transitivity≥[{i}]",
          chk (!(col ab i == 'E' && col bc i == 'E') || col ac i == 'E') s!"transitivity=[{i}]",
          chk (!total || (col ab i != 'N' && col bc i != 'N' && col ac i != 'N')) s!"totality[{i}]" ]
      let tA := tableOf? A; let tB := tableOf? B; let tC := tableOf? C
      let valid := validArr A && validArr B && validArr C
      let fail := if !valid then none else firstFail [
        predPair "(a,b)" A B tA tB ab, predPair "(b,a)" B A tB tA ba, predPair "(b,c)" B C tB tC bc,
        predPair "(a,c)" A C tA tC ac, predPair "(a,a)" A A tA tA aa,
        laws 0 true, laws 1 true, laws 2 false, laws 3 false, laws 4 true,
        chk ((col ab 4 == 'E') == (eab == "1") && (col bc 4 == 'E') == (ebc == "1") && (col ac 4 == 'E') == (eac == "1")) "structural-Equal≠==" ]
      { agree := model == " ".intercalate obs, model, fail,
        nontrivial := A.size > 1 || B.size > 1 || C.size > 1,
        tags := [ "cmp", if valid then "valid" else "invalid-operand(agreement-only)", if numVars A == numVars B && numVars B == numVars C then "same-n" else "mixed-n",
                  if isCanon A && isCanon B && isCanon C then "canon" else "noncanon",
                  s!"imp{col ab 3}", if numVars A > 12 then "wide" else "narrow",
                  if A.size > 65536 || B.size > 65536 || C.size > 65536 then "big>65536" else "small",
                  if numVars A ≥ 52 && col ab 1 != 'E' && (exactCard A + 1 == exactCard B || exactCard B + 1 == exactCard A) then "count±1" else "count-far" ] }
    | _, _, _, _ => Verdict.bad "args"
  | _, _ => Verdict.bad ("key " ++ key)

end B.Drive.C18
