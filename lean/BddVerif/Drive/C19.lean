import BddVerif.Drive.Util
import BddVerif.Model.Ternary
import BddVerif.Model.Sched
import BddVerif.Gen.OpTables
import BddVerif.Model.Expr
import BddVerif.Model.Rename
import BddVerif.Model.Select
import BddVerif.Model.Relation
/-!
Driver for C19. One case `C19.run n pool progs => seq thr again child after` is one multi-threaded
run of the harness: `seq` = result texts of every thread's program run sequentially in the main
thread, `thr`/`again`/`child` = FNV-1a hashes of the results of the same programs run by real
concurrent threads / a second time / in a child process, `after` = the pool printed after all runs.

PREDICATE (evaluated here on the observed output):
  * shape: one result list per program, one result per instruction;
  * the hashes of `seq` are identical to `thr`, to `again` and to `child`;
  * `after` is identical to the pool given as input, no result carries `!operand-changed`;
  * functionality: within the case (across all threads) the same operation on operands with the same
    values always has the same result — the modelling assumption of `Model/Sched.lean`, observed.
MODEL: the programs are run through `B.Sched.run` (round-robin interleaving of all threads) with the
operation function `opFn`: the Lean models `applyWithFlip` (regenerated tables), `bddNot`,
`ternaryApply Gen.ite_` for and/or/xor/imp/iff/and_not/not/ite, the outcome `stuck` for operands
that are not Bdds, `panic` for operands over different variable counts, and — for the operations this
driver has no model of — the observed result of the same operation on the same operand values.
`agree` = the model's result lists equal `seq`.

`C19.run` also carries `iso`: the hashes of every single operation evaluated once more, on the same
operand values, by a freshly spawned thread (the result of an operation must not depend on what its
thread computed before) — identical to `seq` required.
`C19.rep n pool prog reps => first inproc threads child`: every operation of `prog` (operations whose
result is not a Bdd: clause lists in the order returned, sorted support, expression text, dot text,
witnesses, counts) evaluated `reps` times in one thread, on `reps` fresh threads, and `reps` times in
a child process: all hashes identical to those of the first evaluation required.
`C19.names k namesA namesB queries => distinct builds`: two variable sets with groups of SIMILAR names are
built fresh `k` times in one thread (`new`, builder, clone, `From<Vec<String>>`), `k` times inside `k`
threads, and once shared by all threads; every query (`var_by_name`, `mk_(not_)var_by_name`,
`safe_eval_expression`, `eval_expression_string`, `transfer_from` in both directions, over known and
similar-but-unknown names) is asked of every build; observed = the DISTINCT results per query.
Predicate: exactly one distinct result per query. Model: exact-match lookup in the name list
(`ExprM.indexOfName`), `ExprM.evalExpr`, `Ren.transferFrom`; unknown name ⇒ `-` / `none` / `panic`.
`C19.rng bdd vars r seed coins => det other`: everything that takes a caller-supplied generator
(`random_valuation`, `random_clause`, `var_pick_random`, `pick_random`) on a diagram with long runs of free
variables, each with a `StdRng::seed_from_u64(seed)` and with the recorded-coin generator, behind a wrapper that
counts the draws; `det` = per (operation, generator) the distinct `result@draws` over `r` runs in one thread and `r`
runs in threads, all identically seeded; `other` = per operation the `result@draws` of `r` runs with other seeds.
Predicate (FAIL): one distinct `result@draws` per (operation, generator) — a deterministic function of the generator
returns AND consumes identically in identically seeded repetitions; every result (any seed) is a satisfying
valuation / a path to one fixing only its own variables / a subset of the operand that is empty only if the operand
is. Model agreement (DIS only, never FAIL): the coin runs give `Select.randomValuation`, `Select.randomClause`,
`varPickRandom`, `pickRandom` with the same coins; the number of draws of every run equals the number of free and
branching positions of the result (valuation), of branching nodes on the path (clause), 1, resp. the number of
distinct variables; a pick is one of the model's 2^d picks. An implementation that consumes the caller's generator
differently (but deterministically) therefore yields at most a broken tie.
`C19.hist n pool disturbance panel => ref after twice here hereAfter outcomes`: purity w.r.t. HISTORY. A fixed
panel of reference operations (serialisers, also into accepting sinks; readers of good input; Boolean and
relational operators; counts; normal forms; enumeration; parser + evaluation; dot export) is evaluated on a fresh
thread (`ref`, texts), on a fresh thread after a DISTURBANCE — calls that fail: writers into sinks refusing at
byte 0 / in the middle / with WriteZero / Interrupted-then-error, readers on truncated, malformed and failing
input, operations that panic by design, limited operators giving up, partially consumed iterators, a builder
that panicked — (`after`), twice in disturbance-panel-disturbance-panel (`twice`), on the harness's long-lived
main thread before and after the disturbance (`here`, `hereAfter`). Predicate: all digests identical to `ref`.
Model: the serialisers (`to_string`/`write_as_string` = the node text, `to_bytes`/`write_as_bytes` = 10
little-endian bytes per node, the readers of good input = identity) and the Boolean operators are recomputed.
-/
namespace B.Drive.C19
open B B.Drive Std

def fnv (s : String) : UInt64 :=
  s.toUTF8.foldl (fun h b => (h ^^^ b.toUInt64) * 0x100000001b3) 0xcbf29ce484222325

def splitList (sep : String) (s : String) : List String := if s == "~" then [] else s.splitOn sep

def isRef (a : String) : Bool :=
  a.length ≥ 2 && (a.front == 'p' || a.front == 'l') && (a.drop 1).all Char.isDigit

def parseRef (a : String) : Sched.Ref :=
  let i := ((a.drop 1).toString.toNat?).getD 0
  if a.front == 'p' then .pool i else .loc i

/-- `name:arg,…` → the operation (the text with every operand reference blanked) and the references -/
def parseInstr (ins : String) : Sched.Instr String :=
  match ins.splitOn ":" with
  | name :: rest =>
    let args := if rest.isEmpty then [] else (":".intercalate rest).splitOn ","
    let refs := (args.filter isRef).map parseRef
    let blanked := args.map fun a => if isRef a then "_" else a
    ⟨name ++ ":" ++ ",".intercalate blanked, refs⟩
  | [] => ⟨ins, []⟩

def opName (op : String) : String := (op.splitOn ":").headD ""

def isBddText (v : String) : Bool := v.front == '|' && !(v.endsWith "!operand-changed")

/-- the operations this driver recomputes with a Lean model -/
def modelled (name : String) : Bool :=
  ["and", "or", "xor", "imp", "iff", "and_not", "not", "ite",
   "to_string", "wstring", "to_bytes", "wbytes", "rbytes", "rstring", "bytes_rt", "str_rt"].contains name

def hex2 (b : Nat) : String :=
  let d := fun (x : Nat) => Char.ofNat (if x < 10 then 48 + x else 87 + x)
  String.ofList [d (b / 16 % 16), d (b % 16)]

/-- little-endian bytes of `x`, `w` of them, as hex -/
def leHex (x w : Nat) : String := String.join ((List.range w).map fun i => hex2 (x / 256 ^ i % 256))

/-- `write_as_bytes`: per node 2 bytes variable, 4 bytes low link, 4 bytes high link, little-endian -/
def bytesHex (A : Arr) : String := String.join (A.toList.map fun nd => leHex nd.var 2 ++ leHex nd.low 4 ++ leHex nd.high 4)

def modelOp (name : String) (vs : List String) : Option String :=
  match name, vs.map parseArr? with
  | "not", [some A] => some (showArr (bddNot A))
  | "to_string", [some A] => some (showArr A)
  | "wstring", [some A] => some (showArr A)
  | "to_bytes", [some A] => some (bytesHex A)
  | "wbytes", [some A] => some (bytesHex A)
  | "rbytes", [some A] => some (showArr A)
  | "rstring", [some A] => some (showArr A)
  | "bytes_rt", [some A] => some (showArr A)
  | "str_rt", [some A] => some (showArr A)
  | "ite", [some A, some B, some C] =>
    if numVars A != numVars B || numVars B != numVars C then some "panic"
    else some (showArr (ternaryApply A B C Gen.ite_ none none none none))
  | _, [some L, some R] =>
    match Gen.builtin2.lookup name with
    | some op => if numVars L != numVars R then some "panic" else some (showArr (applyWithFlip L R op none none none))
    | none => none
  | _, _ => none

def opKey (op : String) (vs : List String) : String := op ++ " " ++ " ".intercalate vs

/-- the operation function handed to the scheduling model -/
def opFn (table : HashMap String String) (op : String) (vs : List String) : String :=
  if !(vs.all isBddText) then "stuck"
  else
    let name := opName op
    if modelled name then (modelOp name vs).getD "unmodelled"
    else (table[opKey op vs]?).getD "unobserved"

def showRes : Option String → String
  | some r => r
  | none => "stuck"

/-- per thread: (operation, operand values as observed, observed result); `none` operands = dangling -/
def observedCalls (pool : List String) (prog : List (Sched.Instr String)) (res : List String) :
    List (String × Option (List String) × String) :=
  let locs : List (Option String) := res.map some
  (prog.zip res).mapIdx fun i (ins, r) => (ins.op, Sched.operands pool (locs.take i) ins, r)

structure Fold where
  table : HashMap String String := {}
  conflict : Option String := none

def buildTable (calls : List (String × Option (List String) × String)) : Fold :=
  calls.foldl (init := {}) fun st (op, vs?, r) =>
    match vs? with
    | none => if r == "stuck" then st else { st with conflict := st.conflict <|> some ("dangling-not-stuck:" ++ op) }
    | some vs =>
      if !(vs.all isBddText) then
        if r == "stuck" then st else { st with conflict := st.conflict <|> some ("non-bdd-operand-not-stuck:" ++ op) }
      else
        let k := opKey op vs
        match st.table[k]? with
        | some r0 => if r0 == r then st else { st with conflict := st.conflict <|> some ("not-a-function:" ++ op) }
        | none => { st with table := st.table.insert k r }

/-- sorted list of the decision variables of a node array -/
def supportOf (A : Arr) : List Nat :=
  let vars := ((A.toList.drop 2).map (·.var)).eraseDups
  (vars.toArray.qsort (· < ·)).toList

/-! ### caller-supplied generators (`C19.rng`) -/

def rngOpName : Nat → String
  | 0 => "random_valuation" | 1 => "random_clause" | 2 => "var_pick_random" | _ => "pick_random"

def splitDraws (x : String) : String × String :=
  match (x.splitOn "@").reverse with
  | d :: rest => ("@".intercalate rest.reverse, d)
  | [] => (x, "")

def showSelVal : Select.Sel Select.Val → String
  | .panic => "panic" | .none => "none" | .some v => showBits v

def clauseText (n : Nat) (c : Select.Clause) : String :=
  if n == 0 then "~" else String.ofList ((List.range n).map fun i =>
    match Select.getC c i with | some true => '1' | some false => '0' | none => '-')

def showSelClause (n : Nat) : Select.Sel Select.Clause → String
  | .panic => "panic" | .none => "none" | .some c => clauseText n c

/-- walk along a valuation: (reached terminal, draws = free positions + branching nodes met) -/
def walkVal (A : Arr) (v : List Bool) : Nat → Nat → Nat → Nat → Nat × Nat
  | 0, _, p, d => (p, d)
  | k + 1, i, p, d =>
    let nd := nodeAt A p
    if nd.var != i then walkVal A v k (i + 1) p (d + 1)
    else
      let b := v.getD i false
      walkVal A v k (i + 1) (if b then nd.high else nd.low) (if nd.low != 0 && nd.high != 0 then d + 1 else d)

/-- walk along a clause from the root: (reached pointer or `none` if a tested variable is not fixed, nodes met,
    branching nodes met) -/
def walkClause (A : Arr) (c : List Char) : Nat → Nat → Nat → Nat → Option (Nat × Nat × Nat)
  | 0, p, m, d => some (p, m, d)
  | fuel + 1, p, m, d =>
    if p < 2 then some (p, m, d) else
    let nd := nodeAt A p
    let br := if nd.low != 0 && nd.high != 0 then d + 1 else d
    match c.getD nd.var '-' with
    | '1' => walkClause A c fuel nd.high (m + 1) br
    | '0' => walkClause A c fuel nd.low (m + 1) br
    | _ => none

def allCoinLists : Nat → List (List Bool)
  | 0 => [[]]
  | k + 1 => (allCoinLists k).flatMap fun l => [false :: l, true :: l]

def pickCandidates (A : Arr) (vars : List Nat) : List String :=
  if !(vars.all (· < numVars A)) then ["panic"] else
  (allCoinLists (min (pickRandomDraws vars) 6)).map fun fl => showArr (pickRandom A vars fl)

def varPickCandidates (A : Arr) (vars : List Nat) : List String :=
  match vars with
  | [] => ["novar"]
  | x :: _ => if x < numVars A then [showArr (varPickRandom A x false), showArr (varPickRandom A x true)] else ["panic"]

/-- the model's `result@draws` for the recorded coins -/
def rngModel (A : Arr) (n : Nat) (vars : List Nat) (coins : List Bool) (op : Nat) : String :=
  match op with
  | 0 =>
    let res := showSelVal (Select.randomValuation A coins)
    res ++ "@" ++ toString (if A.size ≤ 1 then 0 else (walkVal A (parseBits res) n 0 (root A) 0).2)
  | 1 =>
    let res := showSelClause n (Select.randomClause A coins)
    res ++ "@" ++ toString (((walkClause A res.toList (A.size + 1) (root A) 0 0).map (·.2.2)).getD 0)
  | 2 =>
    match vars with
    | [] => "novar@0"
    | x :: _ => if x < n then showArr (varPickRandom A x (coins.headD false)) ++ "@1" else "panic@1"
  | _ => if vars.all (· < n) then showArr (pickRandom A vars coins) ++ s!"@{pickRandomDraws vars}" else "panic@0"

/-- the PROPERTY's validity clause on one observed `result@draws` of operation `op` (any generator, any seed): the
    result satisfies the Bdd / is a path to one / is a non-empty subset of the operand. Nothing here compares with
    the model's choice of result or with a number of draws: how an implementation consumes the caller's generator is
    its own business as long as it is a deterministic function of it (the cross-repetition clause). -/
def rngCheck (A : Arr) (n : Nat) (op : Nat) (x : String) : Option String :=
  let res := (splitDraws x).1
  let nm := rngOpName op
  match op with
  | 0 =>
    if A.size ≤ 1 then (if res == "none" then none else some s!"{nm}:false-diagram") else
    let v := parseBits res
    if res.length != n && !(n == 0 && res == "~") then some s!"{nm}:not-a-valuation" else
    if (walkVal A v n 0 (root A) 0).1 != 1 then some s!"{nm}:result-does-not-satisfy-the-Bdd" else none
  | 1 =>
    if A.size ≤ 1 then (if res == "none" then none else some s!"{nm}:false-diagram") else
    match walkClause A res.toList (A.size + 1) (root A) 0 0 with
    | some (p, met, _) =>
      let fixed := (res.toList.filter fun c => c == '0' || c == '1').length
      if p != 1 then some s!"{nm}:result-is-not-a-path-to-one"
      else if fixed != met then some s!"{nm}:fixes-variables-off-the-path"
      else none
    | none => some s!"{nm}:result-is-not-a-path-to-one"
  | _ =>
    if res == "novar" then none else
    match parseArr? res with
    | none => some s!"{nm}:outcome-{res}"
    | some R =>
      -- a pick is a subset of the operand, empty only if the operand is (`applyWithFlip` = canon of the pointwise
      -- connective is a theorem, so this is a semantic test, not a comparison with the model of the pick)
      if numVars R != numVars A then some s!"{nm}:variable-count-changed"
      else if (applyWithFlip R A Gen.and_not_ none none none).size != 1 then some s!"{nm}:result-is-not-a-subset-of-the-operand"
      else if (R.size == 1) != ((applyWithFlip A A Gen.and_ none none none).size == 1) then some s!"{nm}:emptiness-differs-from-the-operand"
      else none

/-- MODEL agreement on one observed `result@draws` (not part of the property): the number of draws is the number of
    free plus branching positions of the result (valuation), of branching nodes on the path (clause), 1, the number of
    distinct variables; a pick is one of the model's two / 2^d picks. `none` = agrees. -/
def rngModelCheck (A : Arr) (n : Nat) (vars : List Nat) (picks vpicks : List String) (op : Nat) (x : String) : Option String :=
  let (res, drawsS) := splitDraws x
  let draws := drawsS.toNat?.getD 1000000000
  let nm := rngOpName op
  match op with
  | 0 =>
    if A.size ≤ 1 then (if draws == 0 then none else some s!"{nm}:draws-{draws}-expected-0") else
    let w := walkVal A (parseBits res) n 0 (root A) 0
    if w.2 != draws then some s!"{nm}:draws-{draws}-but-{w.2}-free-or-branching-positions" else none
  | 1 =>
    if A.size ≤ 1 then (if draws == 0 then none else some s!"{nm}:draws-{draws}-expected-0") else
    match walkClause A res.toList (A.size + 1) (root A) 0 0 with
    | some (_, _, br) => if br != draws then some s!"{nm}:draws-{draws}-but-{br}-branching-nodes" else none
    | none => none
  | 2 =>
    if !(vpicks.contains res) then some s!"{nm}:result-is-not-one-of-the-model's-two-picks"
    else if draws != (if vars.isEmpty then 0 else 1) then some s!"{nm}:draws-{draws}-expected-1"
    else none
  | _ =>
    if !(picks.contains res) then some s!"{nm}:result-is-not-a-model-pick-for-any-coins"
    else if res != "panic" && draws != pickRandomDraws vars then some s!"{nm}:draws-{draws}-expected-{pickRandomDraws vars}"
    else none

/-- longest run of consecutive variables that no node tests -/
def longestFreeRun (A : Arr) (n : Nat) : Nat :=
  let tested := ((A.toList.drop 2).map (·.var)).eraseDups
  let sorted := (tested.toArray.qsort (· < ·)).toList
  let rec go (prev : Nat) (best : Nat) : List Nat → Nat
    | [] => max best (n - prev)
    | x :: rest => go (x + 1) (max best (x - prev)) rest
  go 0 0 sorted

/-! ### name resolution (`C19.names`) -/

def hexVal (c : Char) : Nat :=
  if c.isDigit then c.toNat - '0'.toNat else if 'a' ≤ c && c ≤ 'f' then c.toNat - 'a'.toNat + 10
  else if 'A' ≤ c && c ≤ 'F' then c.toNat - 'A'.toNat + 10 else 0

/-- `%<hex code point>.` escapes of the case line: (output so far reversed, code point being read) -/
def unescStep (st : List Char × Option Nat) (c : Char) : List Char × Option Nat :=
  match st.2 with
  | some v => if c == '.' then (Char.ofNat v :: st.1, none) else (st.1, some (16 * v + hexVal c))
  | none => if c == '%' then (st.1, some 0) else (c :: st.1, none)

def unescL (l : List Char) : List Char := (l.foldl unescStep ([], none)).1.reverse

def unesc (s : String) : String := String.ofList (unescL s.toList)

/-- re-escape for printing inside a verdict line (no spaces) -/
def esc (s : String) : String :=
  String.join (s.toList.map fun c =>
    if Parser.isWs c || c.toNat < 32 || ",;%#/~".toList.contains c then "%" ++ String.ofList (Nat.toDigits 16 c.toNat) ++ "." else c.toString)

def showOutcomeArr : Outcome Arr → String
  | .ok A => showArr A
  | .err _ => "none"
  | .panic _ => "panic"

/-- the model's answer to one query: exact-match lookup in the list of names -/
def nameQuery (namesA namesB : List String) (q : String) : String :=
  let (kind, arg) := match q.splitOn ":" with
    | k :: rest => (k, ":".intercalate rest)
    | [] => (q, "")
  let la := namesA.map String.toList
  let lb := namesB.map String.toList
  let n := namesA.length
  match kind with
  | "v" => match ExprM.indexOfName la arg.toList with | some i => toString i | none => "-"
  | "mk" => match ExprM.indexOfName la arg.toList with | some i => showArr (ExprM.mkVar n i) | none => "panic"
  | "nmk" => match ExprM.indexOfName la arg.toList with | some i => showArr ((mkTrue n).push ⟨i, 1, 0⟩) | none => "panic"
  | "safe" =>
    match Parser.parse arg.toList with
    | .ok e => match ExprM.evalExpr la e with | some A => showArr A | none => "none"
    | .err _ => "parse-err"
    | .panic _ => "parse-err"
  | "evs" => showOutcomeArr (ExprM.evalStringO la arg.toList)
  | "tr" | "trb" =>
    let (src, tgt, lsrc) := if kind == "tr" then (namesB, namesA, lb) else (namesA, namesB, la)
    match Parser.parse arg.toList with
    | .ok e =>
      match ExprM.evalExpr lsrc e with
      | some A => showOutcomeArr (Ren.transferFrom tgt A src)
      | none => "src-none"
    | _ => "parse-err"
  | _ => "unknown-query"

def hashesOf (rs : List String) : String :=
  if rs.isEmpty then "~" else ".".intercalate (rs.map fun r => toString (fnv r).toNat)

def firstFail (xs : List (Option String)) : Option String := xs.findSome? id

def bucket (t : Nat) : String :=
  if t ≤ 2 then "t2" else if t ≤ 4 then "t3-4" else if t ≤ 8 then "t5-8" else "t9-16"

def handle (key : String) (ins obs : List String) : Verdict :=
  match key, ins, obs with
  | "C19.types", _, res :: _ =>
    { agree := res == "ok", model := "ok", nontrivial := true, tags := ["send-sync"] }
  | "C19.run", [_n, poolS, progsS], [seqS, thrS, againS, childS, afterS, isoS] =>
    let pool := splitList "/" poolS
    let progTexts := progsS.splitOn "/"
    let progs : List (List (Sched.Instr String)) := progTexts.map fun p => (splitList ";" p).map parseInstr
    let seq : List (List String) := (seqS.splitOn "/").map (splitList ";")
    let nThreads := progs.length
    -- shape
    let shapeOk := seq.length == nThreads && (progs.zip seq).all fun (p, r) => p.length == r.length
    if !shapeOk then { agree := false, model := "shape", fail := some "shape", nontrivial := false } else
    let seqHashes := "/".intercalate (seq.map hashesOf)
    let calls := (progs.zip seq).flatMap fun (p, r) => observedCalls pool p r
    let fold := buildTable calls
    -- the model: all threads interleaved round-robin by `Sched.run`
    let progFn : Nat → Sched.Prog String := fun i => progs.getD i []
    let maxLen := progs.foldl (fun m p => max m p.length) 0
    let w := Sched.run (Sched.Sem.pure (opFn fold.table)) (Sched.roundRobin nThreads maxLen) progFn pool ()
    let modelRes : List (List String) := (List.range nThreads).map fun i => (Sched.results w i).map showRes
    let agree := modelRes == seq && w.pool == pool
    let model :=
      if agree then "" else
        match ((List.range nThreads).zip (modelRes.zip seq)).find? fun (_, m, s) => m != s with
        | some (t, m, s) =>
          let i := ((m.zip s).takeWhile fun (a, b) => a == b).length
          s!"thread{t}.instr{i}:{m.getD i "-"}"
        | none => "?"
    let fail := firstFail [
      if thrS == seqHashes then none else some "threads-differ-from-sequential",
      if againS == seqHashes then none else some "second-run-differs",
      if childS == seqHashes then none else some "child-process-differs",
      (let isoT := isoS.splitOn "/"
       if isoT.length == nThreads && (isoT.zip (seq.map hashesOf)).all (fun (i, h) => i == "-" || i == h) && isoT.any (· != "-")
       then none else some "isolated-evaluation-on-fresh-thread-differs"),
      if afterS == poolS then none else some "pool-changed",
      if seq.any (·.any (·.endsWith "!operand-changed")) then some "operand-changed" else none,
      fold.conflict]
    let all := seq.flatten
    let nontrivial := nThreads ≥ 2 && all.any fun r => isBddText r && !(pool.contains r) && (r.splitOn "|").length > 4
    { agree, model, fail, nontrivial,
      tags := [bucket nThreads,
        if progTexts.eraseDups.length < nThreads then "shared-program" else "distinct-programs"] ++
        (if all.contains "panic" then ["has-panic"] else []) ++ (if all.contains "stuck" then ["has-stuck"] else []) ++
        (if calls.any (fun c => modelled (opName c.1)) then ["has-modelled-op"] else []) }
  | "C19.hist", [_n, poolS, distS, panelS], [refS, afterS, twiceS, hereS, hereAfterS, outcomesS] =>
    -- the panel on a fresh thread = after a disturbance = after disturbance, panel, disturbance = on the harness's
    -- main thread (whatever it did before) = there after the disturbance
    let pool := splitList "/" poolS
    let prog := (splitList ";" panelS).map parseInstr
    let ref := splitList ";" refS
    if ref.length != prog.length then { agree := false, model := "shape", fail := some "shape", nontrivial := false } else
    let calls := observedCalls pool prog ref
    let fold := buildTable calls
    let modelRes := (Sched.runSeq (opFn fold.table) prog pool).map showRes
    let agree := modelRes == ref
    let model := if agree then "" else
      let i := ((modelRes.zip ref).takeWhile fun (a, b) => a == b).length
      s!"instr{i}:{(prog.getD i ⟨"?", []⟩).op}:{(modelRes.getD i "-").take 100}"
    let h := hashesOf ref
    let firstDiff (obsS : String) : String :=
      -- name of the first panel operation whose digest differs
      let hs := ref.map fun r => toString (fnv r).toNat
      let os := (obsS.splitOn "/").map (splitList ".")
      match (List.range ref.length).find? fun i => os.any fun o => o.getD i "" != hs.getD i "-" with
      | some i => opName ((prog.getD i ⟨"?", []⟩).op) ++ s!"@{i}"
      | none => "shape"
    let clause (what obsS want : String) : Option String :=
      if obsS == want then none else some s!"result-depends-on-history:{what}:{firstDiff obsS}"
    let fail := firstFail [
      clause "after-disturbance" afterS h,
      clause "after-disturbance-panel-disturbance" twiceS (h ++ "/" ++ h),
      clause "on-the-long-lived-thread" hereS h,
      clause "on-the-long-lived-thread-after-disturbance" hereAfterS h,
      if ref.any (·.endsWith "!operand-changed") then some "operand-changed" else none,
      fold.conflict]
    let kinds := ((splitList ";" distS).map fun d => (d.splitOn ":").headD "").eraseDups
    let outs := (splitList "." outcomesS)
    { agree, model, fail, nontrivial := true,
      tags := ["hist"] ++ kinds.map (fun k => "d-" ++ k) ++
        (if outs.contains "panic" then ["d-panicked"] else []) ++ (if outs.contains "err" then ["d-err"] else []) }
  | "C19.rep", [_n, poolS, progS, repsS], [firstS, inprocS, threadsS, childS] =>
    -- every operation of `progS` evaluated `reps` times in one thread / on fresh threads / in a child process
    let pool := splitList "/" poolS
    let prog := (splitList ";" progS).map parseInstr
    let first := splitList ";" firstS
    let reps := repsS.toNat?.getD 0
    if first.length != prog.length || reps == 0 then
      { agree := false, model := "shape", fail := some "shape", nontrivial := false } else
    let want := "/".intercalate (List.replicate reps (hashesOf first))
    -- model: the operations this driver can recompute from the node array alone
    let modelRes : List String := (prog.zip first).map fun (ins, r) =>
      match Sched.operands pool [] ins with
      | some [v] =>
        match opName ins.op, parseArr? v with
        | "support", some A =>
          let sup := supportOf A
          if sup.isEmpty then "[~]" else "[" ++ ",".intercalate (sup.map toString) ++ "]"
        | "size_per_var", some A =>
          "[" ++ ".".intercalate ((supportOf A).map fun x => s!"{x}={((A.toList.drop 2).filter (·.var == x)).length}") ++ "]"
        | "to_string", some A => showArr A
        | _, _ => r
      | _ => r
    let agree := modelRes == first
    let model := if agree then "" else
      ((modelRes.zip first).find? fun (m, r) => m != r).elim "?" (·.1)
    let differs (obsS : String) : Option Nat :=
      -- index of the first operation whose hash differs in some repetition
      let runs := (obsS.splitOn "/").map (splitList ".")
      let h := first.map fun r => toString (fnv r).toNat
      (List.range first.length).find? fun i => runs.any fun run => run.getD i "" != h.getD i "-"
    let clause (what : String) (obsS : String) : Option String :=
      if obsS == want then none else
        some (what ++ ":" ++ ((differs obsS).elim "shape" fun i => opName ((prog.getD i ⟨"?", []⟩).op)))
    let fail := firstFail [
      clause "repetition-in-thread-differs" inprocS,
      clause "fresh-threads-differ" threadsS,
      clause "child-process-differs" childS,
      if first.any (·.endsWith "!operand-changed") then some "operand-changed" else none]
    let sz := ((pool.headD "").splitOn "|").length - 2
    { agree, model, fail, nontrivial := sz > 2, tags := ["rep", s!"rep-n{_n}"] }
  | "C19.names", [kS, aS, bS, qS], [obsS, buildsS] =>
    let namesA := (splitList "," aS).map unesc
    let namesB := (splitList "," bS).map unesc
    let queries := (splitList ";" qS).map unesc
    let obs := (splitList ";" obsS).map (·.splitOn "#")
    let k := kS.toNat?.getD 0
    if obs.length != queries.length then
      { agree := false, model := "shape", fail := some "shape", nontrivial := false } else
    let modelRes := queries.map (nameQuery namesA namesB)
    let agree := (modelRes.zip obs).all fun (m, o) => o == [m]
    let model := if agree then "" else
      match (queries.zip (modelRes.zip obs)).find? fun (_, m, o) => o != [m] with
      | some (q, m, _) => (esc q) ++ "->" ++ m
      | none => "?"
    let fail := firstFail [
      match (queries.zip obs).find? fun (_, o) => o.length != 1 with
      | some (q, o) => some s!"name-resolution-not-deterministic:{esc q}:{o.length}-distinct-results"
      | none => none,
      if buildsS.toNat?.getD 0 ≥ 3 * k + 0 && k ≥ 16 then none else some "too-few-fresh-builds"]
    let similarGroups := namesA.any fun x => namesA.any fun y => x != y && (x.toLower == y.toLower || x.startsWith y)
    { agree, model, fail, nontrivial := namesA.length ≥ 2,
      tags := ["names", if similarGroups then "case-or-prefix-similar" else "other-similar",
        if modelRes.any (· == "-") then "has-unknown" else "all-known"] }
  | "C19.rng", [bddS, varsS, rS, _seedS, coinsS], [detS, otherS] =>
    match parseArr? bddS with
    | none => Verdict.bad "args"
    | some A =>
      let n := numVars A
      let vars := (splitList "." varsS).filterMap (·.toNat?)
      let coins := parseBits coinsS
      let r := rS.toNat?.getD 0
      let det := (detS.splitOn ";").map (·.splitOn "#")
      let other := (otherS.splitOn ";").map (·.splitOn "#")
      if det.length != 8 || other.length != 4 || r < 8 || other.any (·.length != r) then
        { agree := false, model := "shape", fail := some "shape", nontrivial := false } else
      -- MODEL agreement: the coin runs give the model's result and draw count; every observed result (any generator,
      -- any seed) consumes the model's number of draws and, for picks, is one of the model's picks
      let modelCoin : List String := (List.range 4).map (rngModel A n vars coins)
      let coinObs := (List.range 4).map fun op => det.getD (2 * op + 1) []
      let picks := pickCandidates A vars
      let vpicks := varPickCandidates A vars
      let modelAll (op : Nat) (xs : List String) : Option String := xs.findSome? (rngModelCheck A n vars picks vpicks op)
      let modelIssue : Option String := firstFail (
        ((List.range 4).map fun op =>
          let o := coinObs.getD op []
          let m := modelCoin.getD op ""
          if o == [m] then none else some s!"{rngOpName op}:CoinRng:{m.take 120}") ++
        ((List.range 8).map fun i => modelAll (i / 2) (det.getD i [])) ++
        ((List.range 4).map fun op => modelAll op (other.getD op [])))
      let agree := modelIssue.isNone
      let model := modelIssue.getD ""
      -- PROPERTY: a deterministic function of the generator (one distinct result AND one distinct consumption per
      -- operation and generator over all identically seeded repetitions and threads), and valid results for every seed
      let checkAll (op : Nat) (xs : List String) : Option String := xs.findSome? (rngCheck A n op)
      let fail := firstFail (
        ((List.range 8).map fun i =>
          let o := det.getD i []
          if o.length == 1 then none
          else some s!"rng-not-deterministic:{rngOpName (i / 2)}:{if i % 2 == 0 then "StdRng" else "CoinRng"}:{o.length}-distinct-results-or-draw-counts") ++
        ((List.range 4).map fun op =>
          if (other.getD op []).any (fun x => (x.splitOn "!=").length > 1)
          then some s!"rng-not-deterministic:{rngOpName op}:StdRng-other-seed:2-distinct-results-or-draw-counts" else none) ++
        ((List.range 8).map fun i => checkAll (i / 2) (det.getD i [])) ++
        ((List.range 4).map fun op => checkAll op (other.getD op [])))
      let maxGap := longestFreeRun A n
      { agree, model, fail, nontrivial := n > 0,
        tags := ["rng", if maxGap ≥ 64 then "gap>=64" else if maxGap == 63 then "gap63" else "gap<63", s!"levels{A.size - 2}"] }
  | _, _, _ => Verdict.bad ("key " ++ key)

end B.Drive.C19
