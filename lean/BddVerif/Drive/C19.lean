import BddVerif.Drive.Util
import BddVerif.Model.Ternary
import BddVerif.Model.Sched
import BddVerif.Gen.OpTables
/-!
Driver for C19. One case `C19.run n pool progs => seq thr again child after` is one multi-threaded
run of the harness: `seq` = result texts of every thread's program run sequentially in the main
thread, `thr`/`again`/`child` = FNV-1a hashes of the results of the same programs run by real
concurrent threads / a second time / in a child process, `after` = the pool printed after all runs.

PREDICATE (evaluated here on the observed output):
  * shape: one result list per program, one result per instruction;
  * the hashes of `seq` are identical to `thr`, to `again` and to `child`;
  * `after` is identical to the pool given as input, no result carries `!operand-changed`;
  * functionality: within the case (across all threads) the same operation on operands with the same
    values always has the same result — the modelling assumption of `Model/Sched.lean`, observed.
MODEL: the programs are run through `B.Sched.run` (round-robin interleaving of all threads) with the
operation function `opFn`: the Lean models `applyWithFlip` (regenerated tables), `bddNot`,
`ternaryApply Gen.ite_` for and/or/xor/imp/iff/and_not/not/ite, the outcome `stuck` for operands
that are not Bdds, `panic` for operands over different variable counts, and — for the operations this
driver has no model of — the observed result of the same operation on the same operand values.
`agree` = the model's result lists equal `seq`.
-/
namespace B.Drive.C19
open B B.Drive Std

def fnv (s : String) : UInt64 :=
  s.toUTF8.foldl (fun h b => (h ^^^ b.toUInt64) * 0x100000001b3) 0xcbf29ce484222325

def splitList (sep : String) (s : String) : List String := if s == "~" then [] else s.splitOn sep

def isRef (a : String) : Bool :=
  a.length ≥ 2 && (a.front == 'p' || a.front == 'l') && (a.drop 1).all Char.isDigit

def parseRef (a : String) : Sched.Ref :=
  let i := ((a.drop 1).toString.toNat?).getD 0
  if a.front == 'p' then .pool i else .loc i

/-- `name:arg,…` → the operation (the text with every operand reference blanked) and the references -/
def parseInstr (ins : String) : Sched.Instr String :=
  match ins.splitOn ":" with
  | name :: rest =>
    let args := if rest.isEmpty then [] else (":".intercalate rest).splitOn ","
    let refs := (args.filter isRef).map parseRef
    let blanked := args.map fun a => if isRef a then "_" else a
    ⟨name ++ ":" ++ ",".intercalate blanked, refs⟩
  | [] => ⟨ins, []⟩

def opName (op : String) : String := (op.splitOn ":").headD ""

def isBddText (v : String) : Bool := v.front == '|' && !(v.endsWith "!operand-changed")

/-- the operations this driver recomputes with a Lean model -/
def modelled (name : String) : Bool :=
  ["and", "or", "xor", "imp", "iff", "and_not", "not", "ite"].contains name

def modelOp (name : String) (vs : List String) : Option String :=
  match name, vs.map parseArr? with
  | "not", [some A] => some (showArr (bddNot A))
  | "ite", [some A, some B, some C] =>
    if numVars A != numVars B || numVars B != numVars C then some "panic"
    else some (showArr (ternaryApply A B C Gen.ite_ none none none none))
  | _, [some L, some R] =>
    match Gen.builtin2.lookup name with
    | some op => if numVars L != numVars R then some "panic" else some (showArr (applyWithFlip L R op none none none))
    | none => none
  | _, _ => none

def opKey (op : String) (vs : List String) : String := op ++ " " ++ " ".intercalate vs

/-- the operation function handed to the scheduling model -/
def opFn (table : HashMap String String) (op : String) (vs : List String) : String :=
  if !(vs.all isBddText) then "stuck"
  else
    let name := opName op
    if modelled name then (modelOp name vs).getD "unmodelled"
    else (table[opKey op vs]?).getD "unobserved"

def showRes : Option String → String
  | some r => r
  | none => "stuck"

/-- per thread: (operation, operand values as observed, observed result); `none` operands = dangling -/
def observedCalls (pool : List String) (prog : List (Sched.Instr String)) (res : List String) :
    List (String × Option (List String) × String) :=
  let locs : List (Option String) := res.map some
  (prog.zip res).mapIdx fun i (ins, r) => (ins.op, Sched.operands pool (locs.take i) ins, r)

structure Fold where
  table : HashMap String String := {}
  conflict : Option String := none

def buildTable (calls : List (String × Option (List String) × String)) : Fold :=
  calls.foldl (init := {}) fun st (op, vs?, r) =>
    match vs? with
    | none => if r == "stuck" then st else { st with conflict := st.conflict <|> some ("dangling-not-stuck:" ++ op) }
    | some vs =>
      if !(vs.all isBddText) then
        if r == "stuck" then st else { st with conflict := st.conflict <|> some ("non-bdd-operand-not-stuck:" ++ op) }
      else
        let k := opKey op vs
        match st.table[k]? with
        | some r0 => if r0 == r then st else { st with conflict := st.conflict <|> some ("not-a-function:" ++ op) }
        | none => { st with table := st.table.insert k r }

def hashesOf (rs : List String) : String :=
  if rs.isEmpty then "~" else ".".intercalate (rs.map fun r => toString (fnv r).toNat)

def firstFail (xs : List (Option String)) : Option String := xs.findSome? id

def bucket (t : Nat) : String :=
  if t ≤ 2 then "t2" else if t ≤ 4 then "t3-4" else if t ≤ 8 then "t5-8" else "t9-16"

def handle (key : String) (ins obs : List String) : Verdict :=
  match key, ins, obs with
  | "C19.types", _, res :: _ =>
    { agree := res == "ok", model := "ok", nontrivial := true, tags := ["send-sync"] }
  | "C19.run", [_n, poolS, progsS], [seqS, thrS, againS, childS, afterS] =>
    let pool := splitList "/" poolS
    let progTexts := progsS.splitOn "/"
    let progs : List (List (Sched.Instr String)) := progTexts.map fun p => (splitList ";" p).map parseInstr
    let seq : List (List String) := (seqS.splitOn "/").map (splitList ";")
    let nThreads := progs.length
    -- shape
    let shapeOk := seq.length == nThreads && (progs.zip seq).all fun (p, r) => p.length == r.length
    if !shapeOk then { agree := false, model := "shape", fail := some "shape", nontrivial := false } else
    let seqHashes := "/".intercalate (seq.map hashesOf)
    let calls := (progs.zip seq).flatMap fun (p, r) => observedCalls pool p r
    let fold := buildTable calls
    -- the model: all threads interleaved round-robin by `Sched.run`
    let progFn : Nat → Sched.Prog String := fun i => progs.getD i []
    let maxLen := progs.foldl (fun m p => max m p.length) 0
    let w := Sched.run (Sched.Sem.pure (opFn fold.table)) (Sched.roundRobin nThreads maxLen) progFn pool ()
    let modelRes : List (List String) := (List.range nThreads).map fun i => (Sched.results w i).map showRes
    let agree := modelRes == seq && w.pool == pool
    let model :=
      if agree then "" else
        match ((List.range nThreads).zip (modelRes.zip seq)).find? fun (_, m, s) => m != s with
        | some (t, m, s) =>
          let i := ((m.zip s).takeWhile fun (a, b) => a == b).length
          s!"thread{t}.instr{i}:{m.getD i "-"}"
        | none => "?"
    let fail := firstFail [
      if thrS == seqHashes then none else some "threads-differ-from-sequential",
      if againS == seqHashes then none else some "second-run-differs",
      if childS == seqHashes then none else some "child-process-differs",
      if afterS == poolS then none else some "pool-changed",
      if seq.any (·.any (·.endsWith "!operand-changed")) then some "operand-changed" else none,
      fold.conflict]
    let all := seq.flatten
    let nontrivial := nThreads ≥ 2 && all.any fun r => isBddText r && !(pool.contains r) && (r.splitOn "|").length > 4
    { agree, model, fail, nontrivial,
      tags := [bucket nThreads,
        if progTexts.eraseDups.length < nThreads then "shared-program" else "distinct-programs"] ++
        (if all.contains "panic" then ["has-panic"] else []) ++ (if all.contains "stuck" then ["has-stuck"] else []) ++
        (if calls.any (fun c => modelled (opName c.1)) then ["has-modelled-op"] else []) }
  | _, _, _ => Verdict.bad ("key " ++ key)

end B.Drive.C19
