import BddVerif.Drive.Util
import BddVerif.Model.Ternary
import BddVerif.Model.Sched
import BddVerif.Gen.OpTables
import BddVerif.Model.Expr
import BddVerif.Model.Rename
/-!
Driver for C19. One case `C19.run n pool progs => seq thr again child after` is one multi-threaded
run of the harness: `seq` = result texts of every thread's program run sequentially in the main
thread, `thr`/`again`/`child` = FNV-1a hashes of the results of the same programs run by real
concurrent threads / a second time / in a child process, `after` = the pool printed after all runs.

PREDICATE (evaluated here on the observed output):
  * shape: one result list per program, one result per instruction;
  * the hashes of `seq` are identical to `thr`, to `again` and to `child`;
  * `after` is identical to the pool given as input, no result carries `!operand-changed`;
  * functionality: within the case (across all threads) the same operation on operands with the same
    values always has the same result — the modelling assumption of `Model/Sched.lean`, observed.
MODEL: the programs are run through `B.Sched.run` (round-robin interleaving of all threads) with the
operation function `opFn`: the Lean models `applyWithFlip` (regenerated tables), `bddNot`,
`ternaryApply Gen.ite_` for and/or/xor/imp/iff/and_not/not/ite, the outcome `stuck` for operands
that are not Bdds, `panic` for operands over different variable counts, and — for the operations this
driver has no model of — the observed result of the same operation on the same operand values.
`agree` = the model's result lists equal `seq`.

`C19.run` also carries `iso`: the hashes of every single operation evaluated once more, on the same
operand values, by a freshly spawned thread (the result of an operation must not depend on what its
thread computed before) — identical to `seq` required.
`C19.rep n pool prog reps => first inproc threads child`: every operation of `prog` (operations whose
result is not a Bdd: clause lists in the order returned, sorted support, expression text, dot text,
witnesses, counts) evaluated `reps` times in one thread, on `reps` fresh threads, and `reps` times in
a child process: all hashes identical to those of the first evaluation required.
`C19.names k namesA namesB queries => distinct builds`: two variable sets with groups of SIMILAR names are
built fresh `k` times in one thread (`new`, builder, clone, `From<Vec<String>>`), `k` times inside `k`
threads, and once shared by all threads; every query (`var_by_name`, `mk_(not_)var_by_name`,
`safe_eval_expression`, `eval_expression_string`, `transfer_from` in both directions, over known and
similar-but-unknown names) is asked of every build; observed = the DISTINCT results per query.
Predicate: exactly one distinct result per query. Model: exact-match lookup in the name list
(`ExprM.indexOfName`), `ExprM.evalExpr`, `Ren.transferFrom`; unknown name ⇒ `-` / `none` / `panic`.
-/
namespace B.Drive.C19
open B B.Drive Std

def fnv (s : String) : UInt64 :=
  s.toUTF8.foldl (fun h b => (h ^^^ b.toUInt64) * 0x100000001b3) 0xcbf29ce484222325

def splitList (sep : String) (s : String) : List String := if s == "~" then [] else s.splitOn sep

def isRef (a : String) : Bool :=
  a.length ≥ 2 && (a.front == 'p' || a.front == 'l') && (a.drop 1).all Char.isDigit

def parseRef (a : String) : Sched.Ref :=
  let i := ((a.drop 1).toString.toNat?).getD 0
  if a.front == 'p' then .pool i else .loc i

/-- `name:arg,…` → the operation (the text with every operand reference blanked) and the references -/
def parseInstr (ins : String) : Sched.Instr String :=
  match ins.splitOn ":" with
  | name :: rest =>
    let args := if rest.isEmpty then [] else (":".intercalate rest).splitOn ","
    let refs := (args.filter isRef).map parseRef
    let blanked := args.map fun a => if isRef a then "_" else a
    ⟨name ++ ":" ++ ",".intercalate blanked, refs⟩
  | [] => ⟨ins, []⟩

def opName (op : String) : String := (op.splitOn ":").headD ""

def isBddText (v : String) : Bool := v.front == '|' && !(v.endsWith "!operand-changed")

/-- the operations this driver recomputes with a Lean model -/
def modelled (name : String) : Bool :=
  ["and", "or", "xor", "imp", "iff", "and_not", "not", "ite"].contains name

def modelOp (name : String) (vs : List String) : Option String :=
  match name, vs.map parseArr? with
  | "not", [some A] => some (showArr (bddNot A))
  | "ite", [some A, some B, some C] =>
    if numVars A != numVars B || numVars B != numVars C then some "panic"
    else some (showArr (ternaryApply A B C Gen.ite_ none none none none))
  | _, [some L, some R] =>
    match Gen.builtin2.lookup name with
    | some op => if numVars L != numVars R then some "panic" else some (showArr (applyWithFlip L R op none none none))
    | none => none
  | _, _ => none

def opKey (op : String) (vs : List String) : String := op ++ " " ++ " ".intercalate vs

/-- the operation function handed to the scheduling model -/
def opFn (table : HashMap String String) (op : String) (vs : List String) : String :=
  if !(vs.all isBddText) then "stuck"
  else
    let name := opName op
    if modelled name then (modelOp name vs).getD "unmodelled"
    else (table[opKey op vs]?).getD "unobserved"

def showRes : Option String → String
  | some r => r
  | none => "stuck"

/-- per thread: (operation, operand values as observed, observed result); `none` operands = dangling -/
def observedCalls (pool : List String) (prog : List (Sched.Instr String)) (res : List String) :
    List (String × Option (List String) × String) :=
  let locs : List (Option String) := res.map some
  (prog.zip res).mapIdx fun i (ins, r) => (ins.op, Sched.operands pool (locs.take i) ins, r)

structure Fold where
  table : HashMap String String := {}
  conflict : Option String := none

def buildTable (calls : List (String × Option (List String) × String)) : Fold :=
  calls.foldl (init := {}) fun st (op, vs?, r) =>
    match vs? with
    | none => if r == "stuck" then st else { st with conflict := st.conflict <|> some ("dangling-not-stuck:" ++ op) }
    | some vs =>
      if !(vs.all isBddText) then
        if r == "stuck" then st else { st with conflict := st.conflict <|> some ("non-bdd-operand-not-stuck:" ++ op) }
      else
        let k := opKey op vs
        match st.table[k]? with
        | some r0 => if r0 == r then st else { st with conflict := st.conflict <|> some ("not-a-function:" ++ op) }
        | none => { st with table := st.table.insert k r }

/-- sorted list of the decision variables of a node array -/
def supportOf (A : Arr) : List Nat :=
  let vars := ((A.toList.drop 2).map (·.var)).eraseDups
  (vars.toArray.qsort (· < ·)).toList

/-! ### name resolution (`C19.names`) -/

def hexVal (c : Char) : Nat :=
  if c.isDigit then c.toNat - '0'.toNat else if 'a' ≤ c && c ≤ 'f' then c.toNat - 'a'.toNat + 10
  else if 'A' ≤ c && c ≤ 'F' then c.toNat - 'A'.toNat + 10 else 0

/-- `%<hex code point>.` escapes of the case line: (output so far reversed, code point being read) -/
def unescStep (st : List Char × Option Nat) (c : Char) : List Char × Option Nat :=
  match st.2 with
  | some v => if c == '.' then (Char.ofNat v :: st.1, none) else (st.1, some (16 * v + hexVal c))
  | none => if c == '%' then (st.1, some 0) else (c :: st.1, none)

def unescL (l : List Char) : List Char := (l.foldl unescStep ([], none)).1.reverse

def unesc (s : String) : String := String.ofList (unescL s.toList)

/-- re-escape for printing inside a verdict line (no spaces) -/
def esc (s : String) : String :=
  String.join (s.toList.map fun c =>
    if Parser.isWs c || c.toNat < 32 || ",;%#/~".toList.contains c then "%" ++ String.ofList (Nat.toDigits 16 c.toNat) ++ "." else c.toString)

def showOutcomeArr : Outcome Arr → String
  | .ok A => showArr A
  | .err _ => "none"
  | .panic _ => "panic"

/-- the model's answer to one query: exact-match lookup in the list of names -/
def nameQuery (namesA namesB : List String) (q : String) : String :=
  let (kind, arg) := match q.splitOn ":" with
    | k :: rest => (k, ":".intercalate rest)
    | [] => (q, "")
  let la := namesA.map String.toList
  let lb := namesB.map String.toList
  let n := namesA.length
  match kind with
  | "v" => match ExprM.indexOfName la arg.toList with | some i => toString i | none => "-"
  | "mk" => match ExprM.indexOfName la arg.toList with | some i => showArr (ExprM.mkVar n i) | none => "panic"
  | "nmk" => match ExprM.indexOfName la arg.toList with | some i => showArr ((mkTrue n).push ⟨i, 1, 0⟩) | none => "panic"
  | "safe" =>
    match Parser.parse arg.toList with
    | .ok e => match ExprM.evalExpr la e with | some A => showArr A | none => "none"
    | .err _ => "parse-err"
    | .panic _ => "parse-err"
  | "evs" => showOutcomeArr (ExprM.evalStringO la arg.toList)
  | "tr" | "trb" =>
    let (src, tgt, lsrc) := if kind == "tr" then (namesB, namesA, lb) else (namesA, namesB, la)
    match Parser.parse arg.toList with
    | .ok e =>
      match ExprM.evalExpr lsrc e with
      | some A => showOutcomeArr (Ren.transferFrom tgt A src)
      | none => "src-none"
    | _ => "parse-err"
  | _ => "unknown-query"

def hashesOf (rs : List String) : String :=
  if rs.isEmpty then "~" else ".".intercalate (rs.map fun r => toString (fnv r).toNat)

def firstFail (xs : List (Option String)) : Option String := xs.findSome? id

def bucket (t : Nat) : String :=
  if t ≤ 2 then "t2" else if t ≤ 4 then "t3-4" else if t ≤ 8 then "t5-8" else "t9-16"

def handle (key : String) (ins obs : List String) : Verdict :=
  match key, ins, obs with
  | "C19.types", _, res :: _ =>
    { agree := res == "ok", model := "ok", nontrivial := true, tags := ["send-sync"] }
  | "C19.run", [_n, poolS, progsS], [seqS, thrS, againS, childS, afterS, isoS] =>
    let pool := splitList "/" poolS
    let progTexts := progsS.splitOn "/"
    let progs : List (List (Sched.Instr String)) := progTexts.map fun p => (splitList ";" p).map parseInstr
    let seq : List (List String) := (seqS.splitOn "/").map (splitList ";")
    let nThreads := progs.length
    -- shape
    let shapeOk := seq.length == nThreads && (progs.zip seq).all fun (p, r) => p.length == r.length
    if !shapeOk then { agree := false, model := "shape", fail := some "shape", nontrivial := false } else
    let seqHashes := "/".intercalate (seq.map hashesOf)
    let calls := (progs.zip seq).flatMap fun (p, r) => observedCalls pool p r
    let fold := buildTable calls
    -- the model: all threads interleaved round-robin by `Sched.run`
    let progFn : Nat → Sched.Prog String := fun i => progs.getD i []
    let maxLen := progs.foldl (fun m p => max m p.length) 0
    let w := Sched.run (Sched.Sem.pure (opFn fold.table)) (Sched.roundRobin nThreads maxLen) progFn pool ()
    let modelRes : List (List String) := (List.range nThreads).map fun i => (Sched.results w i).map showRes
    let agree := modelRes == seq && w.pool == pool
    let model :=
      if agree then "" else
        match ((List.range nThreads).zip (modelRes.zip seq)).find? fun (_, m, s) => m != s with
        | some (t, m, s) =>
          let i := ((m.zip s).takeWhile fun (a, b) => a == b).length
          s!"thread{t}.instr{i}:{m.getD i "-"}"
        | none => "?"
    let fail := firstFail [
      if thrS == seqHashes then none else some "threads-differ-from-sequential",
      if againS == seqHashes then none else some "second-run-differs",
      if childS == seqHashes then none else some "child-process-differs",
      (let isoT := isoS.splitOn "/"
       if isoT.length == nThreads && (isoT.zip (seq.map hashesOf)).all (fun (i, h) => i == "-" || i == h) && isoT.any (· != "-")
       then none else some "isolated-evaluation-on-fresh-thread-differs"),
      if afterS == poolS then none else some "pool-changed",
      if seq.any (·.any (·.endsWith "!operand-changed")) then some "operand-changed" else none,
      fold.conflict]
    let all := seq.flatten
    let nontrivial := nThreads ≥ 2 && all.any fun r => isBddText r && !(pool.contains r) && (r.splitOn "|").length > 4
    { agree, model, fail, nontrivial,
      tags := [bucket nThreads,
        if progTexts.eraseDups.length < nThreads then "shared-program" else "distinct-programs"] ++
        (if all.contains "panic" then ["has-panic"] else []) ++ (if all.contains "stuck" then ["has-stuck"] else []) ++
        (if calls.any (fun c => modelled (opName c.1)) then ["has-modelled-op"] else []) }
  | "C19.rep", [_n, poolS, progS, repsS], [firstS, inprocS, threadsS, childS] =>
    -- every operation of `progS` evaluated `reps` times in one thread / on fresh threads / in a child process
    let pool := splitList "/" poolS
    let prog := (splitList ";" progS).map parseInstr
    let first := splitList ";" firstS
    let reps := repsS.toNat?.getD 0
    if first.length != prog.length || reps == 0 then
      { agree := false, model := "shape", fail := some "shape", nontrivial := false } else
    let want := "/".intercalate (List.replicate reps (hashesOf first))
    -- model: the operations this driver can recompute from the node array alone
    let modelRes : List String := (prog.zip first).map fun (ins, r) =>
      match Sched.operands pool [] ins with
      | some [v] =>
        match opName ins.op, parseArr? v with
        | "support", some A =>
          let sup := supportOf A
          if sup.isEmpty then "[~]" else "[" ++ ",".intercalate (sup.map toString) ++ "]"
        | "size_per_var", some A =>
          "[" ++ ".".intercalate ((supportOf A).map fun x => s!"{x}={((A.toList.drop 2).filter (·.var == x)).length}") ++ "]"
        | "to_string", some A => showArr A
        | _, _ => r
      | _ => r
    let agree := modelRes == first
    let model := if agree then "" else
      ((modelRes.zip first).find? fun (m, r) => m != r).elim "?" (·.1)
    let differs (obsS : String) : Option Nat :=
      -- index of the first operation whose hash differs in some repetition
      let runs := (obsS.splitOn "/").map (splitList ".")
      let h := first.map fun r => toString (fnv r).toNat
      (List.range first.length).find? fun i => runs.any fun run => run.getD i "" != h.getD i "-"
    let clause (what : String) (obsS : String) : Option String :=
      if obsS == want then none else
        some (what ++ ":" ++ ((differs obsS).elim "shape" fun i => opName ((prog.getD i ⟨"?", []⟩).op)))
    let fail := firstFail [
      clause "repetition-in-thread-differs" inprocS,
      clause "fresh-threads-differ" threadsS,
      clause "child-process-differs" childS,
      if first.any (·.endsWith "!operand-changed") then some "operand-changed" else none]
    let sz := ((pool.headD "").splitOn "|").length - 2
    { agree, model, fail, nontrivial := sz > 2, tags := ["rep", s!"rep-n{_n}"] }
  | "C19.names", [kS, aS, bS, qS], [obsS, buildsS] =>
    let namesA := (splitList "," aS).map unesc
    let namesB := (splitList "," bS).map unesc
    let queries := (splitList ";" qS).map unesc
    let obs := (splitList ";" obsS).map (·.splitOn "#")
    let k := kS.toNat?.getD 0
    if obs.length != queries.length then
      { agree := false, model := "shape", fail := some "shape", nontrivial := false } else
    let modelRes := queries.map (nameQuery namesA namesB)
    let agree := (modelRes.zip obs).all fun (m, o) => o == [m]
    let model := if agree then "" else
      match (queries.zip (modelRes.zip obs)).find? fun (_, m, o) => o != [m] with
      | some (q, m, _) => (esc q) ++ "->" ++ m
      | none => "?"
    let fail := firstFail [
      match (queries.zip obs).find? fun (_, o) => o.length != 1 with
      | some (q, o) => some s!"name-resolution-not-deterministic:{esc q}:{o.length}-distinct-results"
      | none => none,
      if buildsS.toNat?.getD 0 ≥ 3 * k + 0 && k ≥ 16 then none else some "too-few-fresh-builds"]
    let similarGroups := namesA.any fun x => namesA.any fun y => x != y && (x.toLower == y.toLower || x.startsWith y)
    { agree, model, fail, nontrivial := namesA.length ≥ 2,
      tags := ["names", if similarGroups then "case-or-prefix-similar" else "other-similar",
        if modelRes.any (· == "-") then "has-unknown" else "all-known"] }
  | _, _, _ => Verdict.bad ("key " ++ key)

end B.Drive.C19
