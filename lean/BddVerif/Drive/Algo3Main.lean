import BddVerif.Drive.Algo3
def main : IO Unit := B.Drive.runLoop B.Drive.Algo3.handle
