import BddVerif.Drive.Util
/-! Driver for C02 — stub, to be written. -/
namespace B.Drive.C02
open B B.Drive

def handle (key : String) (_ins _obs : List String) : Verdict := Verdict.bad ("key " ++ key)

end B.Drive.C02
