import BddVerif.Drive.Tables
import BddVerif.Gen.OpTables
import BddVerif.Model.Nested
import BddVerif.Model.Relation
import BddVerif.Model.VarSet
import BddVerif.Model.NormalForm
import BddVerif.Model.Substitute
import BddVerif.Model.Rename
import Std.Data.HashMap
/-!
Driver for C02 (canonical form through any history).

Predicate on the OBSERVED results of a program (independent of the model):
  * every produced Bdd is canonical (`isCanon`: reduced, ordered, children before parents, root last,
    no unreachable node, high-first post-order) and has the program's variable count,
  * any two values of the history (initial or produced) with equal truth tables have equal node arrays,
  * `is_false`/`is_true` as reported by the library are exact (one node ⇔ contradiction, two ⇔ tautology),
  * `==`, hash, text and bytes agree with node-array equality (reported by the harness).
Model agreement: the program is replayed with the Lean models of the operations (those modelled).
-/
namespace B.Drive.C02
open B B.Drive Std

def parseOptVar (s : String) : Option Nat := if s == "-" then none else s.toNat?

def parseVars (s : String) : List Nat :=
  if s == "~" || s == "" then [] else (s.splitOn ".").filterMap (·.toNat?)

def parseLits (s : String) : List (Nat × Bool) :=
  if s == "~" || s == "" then [] else (s.splitOn ".").filterMap fun x =>
    match x.splitOn "=" with
    | [a, b] => a.toNat?.map fun a => (a, b == "1")
    | _ => none

/-- the model of one operation; `none` = operation not modelled (yet), `some none` = panic -/
def modelOp (pool : Array Arr) (f : List String) : Option (Option Arr) :=
  let p (s : String) : Arr := pool.getD (s.toNat?.getD 0) #[]
  let builtin (name : String) (a b : String) : Option (Option Arr) :=
    (Gen.builtin2.lookup name).map fun op => some (applyWithFlip (p a) (p b) op none none none)
  match f with
  | ["not", i] => some (some (bddNot (p i)))
  | ["and", i, j] => builtin "and" i j
  | ["or", i, j] => builtin "or" i j
  | ["xor", i, j] => builtin "xor" i j
  | ["imp", i, j] => builtin "imp" i j
  | ["iff", i, j] => builtin "iff" i j
  | ["andnot", i, j] => builtin "and_not" i j
  | ["ite", i, j, k] => some (some (ternaryApply (p i) (p j) (p k) Gen.ite_ none none none none))
  | ["bin", t, i, j] => some (some (applyWithFlip (p i) (p j) (op2OfTable t) none none none))
  | ["limit", t, i, j] => some (some (applyWithFlip (p i) (p j) (op2OfTable t) none none none))
  | ["fused", t, i, fl, j, fr, fo] =>
    some (some (applyWithFlip (p i) (p j) (op2OfTable t) (parseOptVar fl) (parseOptVar fr) (parseOptVar fo)))
  | ["ter", t, i, j, k] => some (some (ternaryApply (p i) (p j) (p k) (op3OfTable t) none none none none))
  | ["fused3", t, i, fa, j, fb, k, fc, fo] =>
    some (some (ternaryApply (p i) (p j) (p k) (op3OfTable t) (parseOptVar fa) (parseOptVar fb) (parseOptVar fc) (parseOptVar fo)))
  | ["exists", i, vs] => some (some (bddExists (p i) (parseVars vs)))
  | ["forall", i, vs] => some (some (bddForAll (p i) (parseVars vs)))
  | ["varexists", i, x] => some ((Rel.varExistsO (p i) (x.toNat?.getD 0)).toOption)
  | ["varforall", i, x] => some ((Rel.varForAllO (p i) (x.toNat?.getD 0)).toOption)
  | ["bexists", t, i, j, vs] => some (some (binaryOpWithExists (p i) (p j) (op2OfTable t) (parseVars vs)))
  | ["bforall", t, i, j, vs] => some (some (binaryOpWithForAll (p i) (p j) (op2OfTable t) (parseVars vs)))
  | ["nested", t, i, j, mask, inner] =>
    let m := mask.toNat?.getD 0
    some (some (nestedApply (p i) (p j) (fun v => (m >>> v) % 2 == 1) (op2OfTable t)
      (if inner == "or" then Gen.or_ else Gen.and_)))
  | ["select", i, ls] => some (some (select (p i) (parseLits ls)))
  | ["restrict", i, ls] => some (some (restrict (p i) (parseLits ls)))
  | ["varselect", i, x, b] => some (some (varSelect (p i) (x.toNat?.getD 0) (b == "1")))
  | ["varrestrict", i, x, b] => some (some (varRestrict (p i) (x.toNat?.getD 0) (b == "1")))
  | ["pick", i, vs] => some ((pickO (p i) (parseVars vs)).toOption)
  | ["varpick", i, x] => some ((varPickO (p i) (x.toNat?.getD 0)).toOption)
  | ["pickrandom", i, vs, fl] => some ((pickRandomO (p i) (parseVars vs) (parseBits fl)).toOption)
  | ["substitute", i, x, j] => some ((Ren.Subst.substitute (p i) (x.toNat?.getD 0) (p j)).toOption)
  | ["renamevar", i, o, nw] => some ((Ren.renameVariable (p i) (o.toNat?.getD 0) (nw.toNat?.getD 0)).toOption)
  | ["mkvar", x] => some (some (mkVar (numVars (pool.getD 0 #[])) (x.toNat?.getD 0)))
  | ["mknotvar", x] => some (some (mkNotVar (numVars (pool.getD 0 #[])) (x.toNat?.getD 0)))
  | ["mktrue"] => some (some (mkTrue (numVars (pool.getD 0 #[]))))
  | ["mkfalse"] => some (some (mkFalse (numVars (pool.getD 0 #[]))))
  | ["clause", ls] => some ((NF.mkConjClause (numVars (pool.getD 0 #[])) (fromValues (parseLits ls))).toOption)
  | ["dclause", ls] => some ((NF.mkDisjClause (numVars (pool.getD 0 #[])) (fromValues (parseLits ls))).toOption)
  | ["satk", k, vs] => some ((VS.mkSatExactlyK (numVars (pool.getD 0 #[])) (k.toNat?.getD 0) (parseVars vs)).toOption)
  | ["satupk", k, vs] => some ((VS.mkSatUpToK (numVars (pool.getD 0 #[])) (k.toNat?.getD 0) (parseVars vs)).toOption)
  | ["valuation", bs] => some (some (VS.valuationBdd (parseBits bs)))
  | ["dnf", i] => some (((NF.toDnf (p i)).bind fun cs => NF.mkDnf (numVars (p i)) cs).toOption)
  | ["cnf", i] => some (((NF.toCnf (p i)).bind fun cs => NF.mkCnf (numVars (p i)) cs).toOption)
  | ["optdnf", i] => some (((NF.toOptimizedDnf (p i)).bind fun cs => NF.mkDnf (numVars (p i)) cs).toOption)
  | _ => none

structure Acc where
  pool : Array Arr            -- observed pool (model replays use the OBSERVED operands)
  fails : List String := []
  disagree : List String := []
  modelled : Nat := 0
  unmodelled : Nat := 0
  nontrivial : Nat := 0

def checkProgram (n : Nat) (inits : List Arr) (ops results : List String) (eqhash flags : String) : Verdict := Id.run do
  let mut acc : Acc := { pool := inits.toArray }
  let mut byTT : HashMap (List Bool) String := {}
  let useTT := n ≤ 10
  for a in inits do
    if useTT then byTT := byTT.insert (ttOf a n).toList (showArr a)
  let flagArr := flags.toList.toArray
  let mut idx := 0
  for (op, res) in ops.zip results do
    let f := op.splitOn ":"
    let name := f.headD ""
    let isNc := name.startsWith "nc"
    -- model agreement (operands are the observed pool values)
    match modelOp acc.pool f with
    | none => acc := { acc with unmodelled := acc.unmodelled + 1 }
    | some m =>
      let ms := match m with | some a => showArr a | none => "panic"
      acc := { acc with modelled := acc.modelled + 1 }
      if ms != res then acc := { acc with disagree := s!"{op}->{ms}" :: acc.disagree }
    -- predicate on the observed value
    if res == "panic" then
      acc := { acc with pool := acc.pool.push (acc.pool.getD 0 #[]) }
    else
      match parseArr? res with
      | none => acc := { acc with fails := s!"unparsable:{op}" :: acc.fails, pool := acc.pool.push #[] }
      | some a =>
        if !isCanon a then acc := { acc with fails := s!"not-canonical:{op}" :: acc.fails }
        if numVars a != n then acc := { acc with fails := s!"num-vars:{op}" :: acc.fails }
        if useTT then
          let tt := (ttOf a n).toList
          match byTT[tt]? with
          | some prev => if prev != res then acc := { acc with fails := s!"same-function-different-array:{op}" :: acc.fails }
          | none => byTT := byTT.insert tt res
          let isF := tt.all (· == false); let isT := tt.all (· == true)
          if (a.size == 1) != isF || (a.size == 2) != isT then
            acc := { acc with fails := s!"constant-size:{op}" :: acc.fails }
          let fl := flagArr.getD idx '?'
          if (fl == 'F') != isF || (fl == 'T') != isT then
            acc := { acc with fails := s!"is_true/is_false:{op}" :: acc.fails }
        if a.size > 2 && !isNc then acc := { acc with nontrivial := acc.nontrivial + 1 }
        acc := { acc with pool := acc.pool.push a }
    idx := idx + 1
  if eqhash != "eqhash-ok" then acc := { acc with fails := "eq/hash/text/bytes-vs-node-equality" :: acc.fails }
  return { agree := acc.disagree.isEmpty, model := ";".intercalate acc.disagree.reverse,
           fail := if acc.fails.isEmpty then none else some (";".intercalate acc.fails.reverse),
           nontrivial := acc.nontrivial ≥ 2,
           tags := [s!"n{n}", s!"len{ops.length / 4 * 4}", s!"modelled{if acc.unmodelled == 0 then "All" else "Part"}"] }

def handle (key : String) (ins obs : List String) : Verdict :=
  match key, ins, obs with
  | "C02.prog", [n, inits, ops], [results, eqhash, flags] =>
    match n.toNat?, (inits.splitOn ";").mapM parseArr? with
    | some n, some is => checkProgram n is (ops.splitOn ";") (results.splitOn ";") eqhash flags
    | _, _ => Verdict.bad "args"
  | _, _, _ => Verdict.bad ("key " ++ key)

end B.Drive.C02
