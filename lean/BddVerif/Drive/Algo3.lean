import BddVerif.Drive.Algo2
import BddVerif.Gen.Algo3
import BddVerif.Drive.C14
import BddVerif.Drive.C15
/-!
Driver for the third batch of GENERATED definitions (`Gen/Algo3.lean`: expression parser, printer, evaluator, export, …).
Handles the additional case kinds and passes every other line on to `B.Drive.Algo2.handle` (`drv_algo3` ⊇ `drv_algo2`).
-/
namespace B.Drive.Algo3
open B B.Drive B.Drive.Algo B.Drive.Algo2 B.Gen.Algo B.Gen.Algo2 B.Gen.Algo3

abbrev GE := B.Gen.Algo3.BooleanExpression

/-- generated `BooleanExpression` ↦ the hand model's `Expr` (only to reuse the s-expression printer of Drive/C14) -/
def toE : GE → Expr
  | .Const b => .const b
  | .Variable s => .var s.toList
  | .Not e => .not (toE e)
  | .And l r => .and (toE l) (toE r)
  | .Or l r => .or (toE l) (toE r)
  | .Xor l r => .xor (toE l) (toE r)
  | .Imp l r => .imp (toE l) (toE r)
  | .Iff l r => .iff (toE l) (toE r)
  | .Cond c t e => .cond (toE c) (toE t) (toE e)

def ofE : Expr → GE
  | .const b => .Const b
  | .var s => .Variable (String.ofList s)
  | .not e => .Not (ofE e)
  | .and l r => .And (ofE l) (ofE r)
  | .or l r => .Or (ofE l) (ofE r)
  | .xor l r => .Xor (ofE l) (ofE r)
  | .imp l r => .Imp (ofE l) (ofE r)
  | .iff l r => .Iff (ofE l) (ofE r)
  | .cond c t e => .Cond (ofE c) (ofE t) (ofE e)

def sizeE : Expr → Nat
  | .const _ => 1 | .var _ => 1
  | .not e => 1 + sizeE e
  | .and l r => 1 + sizeE l + sizeE r | .or l r => 1 + sizeE l + sizeE r | .xor l r => 1 + sizeE l + sizeE r
  | .imp l r => 1 + sizeE l + sizeE r | .iff l r => 1 + sizeE l + sizeE r
  | .cond c t e => 1 + sizeE c + sizeE t + sizeE e

def fuelParse (cs : List Char) : Nat := 8 * cs.length + 64

/-- `BooleanExpression::try_from(&str)` through the generated parser, as an `Outcome Expr` (Err = `.err`) -/
def genParse (cs : List Char) : Outcome Expr :=
  match BooleanExpression_try_from (fuelParse cs) (String.ofList cs) with
  | .ok (.ok e) => .ok (toE e)
  | .ok (.error m) => .err m
  | .err m => .err m
  | .panic m => .panic (if isFuel m then "FUEL" else m)

/-- `format!("{}", e)` through the generated `Display` impl -/
def genDisplay (e : Expr) : Outcome (List Char) :=
  match BooleanExpression_fmt (sizeE e + 8) (ofE e) "" with
  | .ok (.ok _, s) => .ok s.toList
  | .ok (.error _, _) => .panic "fmt error"
  | .err m => .err m
  | .panic m => .panic (if isFuel m then "FUEL" else m)

def showOut (o : Outcome Expr) : String :=
  match o with
  | .panic "FUEL" => "panic:fuel"
  | _ => C14.showOutcome o
def showShortG (o : Outcome Expr) : String :=
  match o with
  | .panic "FUEL" => "F"
  | _ => C14.showShort o

def varSetOfNameList (vars : List Name) : Option (Nat × Array String × Std.HashMap String Nat) :=
  varSetOfNames (vars.map String.ofList)

def fuelEval (n : Nat) (e : Expr) : Nat := 64 * (sizeE e + 4) * (4 ^ (min n 12) + 64) + 4096

def showOptOA : Outcome (Option Arr) → String
  | .ok (some A) => showArr A
  | .ok none => "none"
  | .err _ => "err"
  | .panic m => if isFuel m then "panic:fuel" else "panic"

/-! ### C16: variable sets -/
abbrev VSet := Nat × Array String × Std.HashMap String Nat

def decName (h : String) : String :=
  match Gen.Rust.stringFromUtf8 (unhexNats (h.drop 1).toString) with | .ok s => s | .error _ => ""
def decNames (f : String) : List String := if f == "~" then [] else (f.splitOn ",").map decName
def hexByte (b : Nat) : String := String.ofList [hexDigit (b / 16), hexDigit (b % 16)]
def encName (n : String) : String := "h" ++ String.join ((Gen.Rust.utf8Bytes n).toList.map hexByte)
def encNames (ns : List String) : String := if ns.isEmpty then "~" else ",".intercalate (ns.map encName)

/-- harness `observe_set` through the generated accessors -/
def observeSet (vs : VSet) (probes : List String) : Outcome (List String) := do
  let vars := BddVariableSet_variables vs
  let mut namesOf : List String := []
  for v in vars do
    namesOf := namesOf ++ [← BddVariableSet_name_of vs v]
  let byName := probes.map fun p => match BddVariableSet_var_by_name vs p with | some v => toString v | none => "-"
  return [toString (BddVariableSet_num_vars vs), showNats vars.toList, encNames namesOf, encNames (BddVariableSet_variable_names vs).toList,
    if byName.isEmpty then "~" else ",".intercalate byName]

def okOrPanic : Outcome (List String) → String
  | .ok xs => " ".intercalate ("ok" :: xs)
  | .err _ => "err"
  | .panic m => if isFuel m then "panic:fuel" else "panic"

def hexOfNats' (bs : Array Nat) : String := String.ofList (bs.toList.flatMap fun b => [hexDigit (b / 16), hexDigit (b % 16)])

/-! ### C20: .dot export; C08.vals: satisfying valuations -/
def parseSinkScript (sc : String) (len : Nat) : List Gen.Rust.IoEv :=
  if sc == "~" then [] else
  (sc.splitOn ".").flatMap fun tok =>
    if tok.startsWith "*" then List.replicate (len + 2) (.give ((tok.drop 1).toString.toNat?.getD 0))
    else if tok == "i" then [.interrupted] else if tok == "e" then [.fail]
    else [.give ((tok.drop 1).toString.toNat?.getD 0)]

def fuelVals (A : Arr) : Nat := 8 * (A.size + numVars A + 8)

/-- `b.sat_valuations().collect()` through the generated constructor and `next` -/
def genSatVals (A : Arr) (limit : Nat) : Outcome (List (Array Bool)) := do
  let mut it ← Bdd_sat_valuations (fuelVals A) A
  let mut acc : List (Array Bool) := []
  let mut fin := false
  for _ in [0:limit + 1] do
    let (item, it') ← BddSatisfyingValuations_next (fuelVals A) it
    it := it'
    match item with
    | none =>
      fin := true
      break
    | some v => acc := v :: acc
  if !fin then Outcome.panic "fuel"
  return acc.reverse

def handle (key : String) (ins obs : List String) : Verdict :=
  match key, ins, obs with
  -- ------------------------------------------------------------------ C12 / C13: text serialisation
  | "C12.wtext", [b, sc], [kind, out, consumed, _] =>
    match parseArrE? b, parseIoScript? sc with
    | some A, some script =>
      let g := match Bdd_write_as_string A { script := script } with
        | .ok (r, w) => s!"{match r with | .ok _ => "ok" | .error _ => "err"} {hexOfNats w.out} {w.sp}"
        | _ => "panic"
      mk g s!"{kind} {out} {consumed}" none ["write_as_string"]
    | _, _ => Verdict.bad "args"
  | "C12.rtext", [_, data, sc], [kind, res, consumed, wants] =>
    match parseIoScript? sc with
    | some script =>
      let bytes := unhexNats data
      -- the sizes std's `read_to_end` asks for are an environment parameter: taken from the observation
      let plan := if wants == "~" then [] else (wants.splitOn ",").filterMap (·.toNat?)
      let g := match Bdd_read_as_string { data := bytes.toList, script := script, plan := plan } with
        | .ok (.ok A, r) => s!"ok {showArrE A} {r.sp} {showNats r.wants}"
        | .ok (.error _, r) => s!"err ~ {r.sp} {showNats r.wants}"
        | .err _ => "err"
        | .panic m => s!"panic:{m}"
      mk g s!"{kind} {res} {consumed} {wants}" none ["read_as_string"]
    | none => Verdict.bad "args"
  | "C12.mem", [b], [text, _, rtT, _, _] =>
    match parseArrE? b with
    | some A =>
      let v2 := Algo2.handle key ins obs
      let t := Bdd_fmt A ""
      let g1 := match t with | .ok (_, s) => s | _ => "panic"
      let g2 := match t with
        | .ok (_, s) => (match Bdd_from_string s with | .ok A' => if A' == A then "1" else "0" | _ => "panic")
        | _ => "panic"
      let v3 := mk s!"{g1} {g2}" s!"{text} {rtT}" none ["Display", "from_string"]
      { v2 with agree := v2.agree && v3.agree, model := v2.model ++ " | " ++ v3.model, tags := v2.tags ++ v3.tags }
    | none => Verdict.bad "args"
  | "C12.parse", [ty, hex], [res] =>
    let st := match Gen.Rust.stringFromUtf8 (unhexNats hex) with | .ok s => s | .error _ => ""
    let r := if ty == "u16" then Gen.Rust.parseU16 st else Gen.Rust.parseU32 st
    mk (match r with | .ok v => s!"ok:{v}" | .error _ => "err") res none ["str_parse(shim)"]
  | "C12.wschars", [], [res] =>
    let g := showNats ((List.range 0x110000).filter fun cp => !(0xD800 ≤ cp && cp ≤ 0xDFFF) && Gen.Rust.charIsWhitespace (Char.ofNat cp))
    mk g res none ["char_is_whitespace(shim)"]
  | "C13.text", [data], kind :: bdd :: reser :: v :: _ =>
    let bytes := unhexNats data
    let g := match Bdd_read_as_string (Gen.Rust.Reader.ofSlice bytes) with
      | .ok (.ok A, _) =>
        let rs := match Bdd_fmt A "" with | .ok (_, s) => s | _ => "panic"
        s!"ok {showArrE A} {rs} {if v == "noeval" then v else genValidate A}"
      | .ok (.error _, _) => "err ~ ~ -"
      | .err _ => "err ~ ~ -"
      | .panic m => s!"panic:{m} ~ ~ -"
    mk g s!"{kind} {bdd} {reser} {v}" none ["read_as_string", "Display", "validate"]
  -- ------------------------------------------------------------------ C16: constructors of variable sets
  | "C16.new", [ns, ps], _ =>
    let g : Outcome (List String) := do
      let vs ← BddVariableSet_new (decNames ns).toArray
      observeSet vs (decNames ps)
    mk (okOrPanic g) (" ".intercalate obs) none ["BddVariableSet_new"]
  | "C16.builder", [ns, ps], _ =>
    let g : Outcome (List String) := do
      let mut b := BddVariableSetBuilder_new
      let mut ret : List Nat := []
      for n in decNames ns do
        let (v, b') ← BddVariableSetBuilder_make_variable b n
        b := b'
        ret := ret ++ [v]
      let vs ← BddVariableSetBuilder_build b
      let o ← observeSet vs (decNames ps)
      return showNats ret :: o
    mk (okOrPanic g) (" ".intercalate obs) none ["BddVariableSetBuilder"]
  | "C16.batch", [ns, ps], _ =>
    let g : Outcome (List String) := do
      let (ret, b) ← BddVariableSetBuilder_make_variables BddVariableSetBuilder_new (decNames ns).toArray
      let vs ← BddVariableSetBuilder_build b
      let o ← observeSet vs (decNames ps)
      return showNats ret.toList :: o
    mk (okOrPanic g) (" ".intercalate obs) none ["BddVariableSetBuilder"]
  | "C16.anon", [ks, ps], _ =>
    match ks.toNat? with
    | some k =>
      let g : Outcome (List String) := do
        let vs ← BddVariableSet_new_anonymous k
        observeSet vs (decNames ps)
      mk (okOrPanic g) (" ".intercalate obs) none ["new_anonymous"]
    | none => Verdict.bad "args"
  | "C16.litname", [ns, nm], [a, b] =>
    let name := decName nm
    let g := match BddVariableSet_new (decNames ns).toArray with
      | .ok vs => s!"{showOA (BddVariableSet_mk_var_by_name vs name)} {showOA (BddVariableSet_mk_not_var_by_name vs name)}"
      | _ => "panic panic"
    mk g s!"{a} {b}" none ["mk_var_by_name"]
  | "C16.val", [bits], [res] =>
    let v := if bits == "~" then #[] else (bits.toList.map (· == '1')).toArray
    mk (showOA (Bdd_from v)) res none ["Bdd_from_valuation"]
  -- ------------------------------------------------------------------ C20 / C08.vals
  | "C20.dot", [b, ns, pr], o =>
    match parseArr? b with
    | some A =>
      match BddVariableSet_new (decNames ns).toArray with
      | .ok vs =>
        let pruned := pr == "1"
        let text := Bdd_to_dot_string A vs pruned
        let written := Bdd_write_as_dot_string A (Gen.Rust.Writer.ofVec #[]) vs pruned
        let f1 := match text with | .ok t => "x" ++ hexOfNats' (Gen.Rust.utf8Bytes t) | _ => "panic"
        let f2 := match text, written with
          | .ok t, .ok (.ok _, w) => if Gen.Rust.utf8Bytes t == w.out then "=" else "x" ++ hexOfNats' w.out
          | _, .ok (.ok _, w) => "x" ++ hexOfNats' w.out
          | _, .ok (.error _, _) => "err"
          | _, _ => "panic"
        mk s!"{f1} {f2}" (" ".intercalate o) none ["to_dot_string", "write_as_dot_string"]
      | _ => mk "badset" (" ".intercalate o) none ["BddVariableSet_new"]
    | none => Verdict.bad "args"
  | "C20.write", [b, ns, pr, sc], o =>
    match parseArr? b with
    | some A =>
      match BddVariableSet_new (decNames ns).toArray with
      | .ok vs =>
        let pruned := pr == "1"
        match Bdd_to_dot_string A vs pruned with
        | .ok t =>
          let bytes := Gen.Rust.utf8Bytes t
          let script := parseSinkScript sc bytes.size
          let g := match Bdd_write_as_dot_string A { script := script } vs pruned with
            | .ok (r, w) => s!"{match r with | .ok _ => "ok" | .error _ => "err"} {if w.out == bytes then "=" else "x" ++ hexOfNats' w.out}"
            | _ => "panic ~"
          mk s!"x{hexOfNats' bytes} {g}" (" ".intercalate o) none ["write_as_dot_string"]
        | _ => mk "panic panic ~" (" ".intercalate o) none ["to_dot_string"]
      | _ => mk "badset" (" ".intercalate o) none ["BddVariableSet_new"]
    | none => Verdict.bad "args"
  | "C08.vals", [a], [res] =>
    match parseArr? a with
    | some A => mk (fmtVals (genSatVals A (if res == "panic" then 2 ^ (min (numVars A) 16) + 2 else countSeq res + 2))) res none ["sat_valuations"]
    | none => Verdict.bad "args"
  -- ------------------------------------------------------------------ C14: parser and printer
  | "C14.tok", [x], o | "C14.chr", [x], o | "C14.rnd", [x], o =>
    match C14.dec x with
    | none => Verdict.bad "encoding"
    | some cs => mk (showOut (genParse cs)) (" ".intercalate o) (some (C14.showOutcome (B.Parser.parse cs))) ["parse_boolean_expression"]
  | "C14.tokb", [p, k], [res] =>
    match k.toNat? with
    | none => Verdict.bad "args"
    | some k =>
      let prefixIds := C14.parseIds p
      let strs := (List.range (14 ^ k)).map fun j => C14.render (prefixIds ++ C14.completion k j)
      let g := ";".intercalate (strs.map fun cs => showShortG (genParse cs))
      let h := ";".intercalate (strs.map fun cs => C14.showShort (B.Parser.parse cs))
      let v := mk g res (some h) ["parse_boolean_expression", "batch"]
      { v with model := if v.agree then "-" else "batch differs" }
  | "C14.wsb", [st, cnt], [res] =>
    match st.toNat?, cnt.toNat? with
    | some st, some cnt =>
      let cls (cp : Nat) : Char :=
        if (0xD800 ≤ cp ∧ cp ≤ 0xDFFF) ∨ cp > 0x10FFFF then '-' else
        let c := Char.ofNat cp
        match genParse ['a', c] with
        | .panic _ => 'p'
        | .err _ => 'e'
        | .ok (.var n) => if n = ['a'] then 'w' else if n = ['a', c] then 'i' else 'o'
        | .ok _ => 'o'
      let g := String.ofList ((List.range cnt).map fun i => cls (st + i))
      let v := mk g res none ["tokenize_group", "whitespace"]
      { v with model := if v.agree then "-" else "class string differs" }
    | _, _ => Verdict.bad "args"
  | k, [t], printed :: rest =>
    if k != "C14.rt" && k != "C14.rtu" then Algo2.handle key ins obs else
    match C14.unsexp t with
    | none => Verdict.bad "sexp"
    | some e =>
      let observed := " ".intercalate rest
      let g := match genDisplay e with
        | .ok shown => C14.enc shown ++ " " ++ showOut (genParse shown)
        | _ => "panic -"
      let shown := B.Parser.display e
      mk g (printed ++ " " ++ observed) (some (C14.enc shown ++ " " ++ C14.showOutcome (B.Parser.parse shown))) ["Display", "parse_boolean_expression"]
  -- ------------------------------------------------------------------ C15: evaluation and export
  | "C15.eval", [ns, t], [r, r2] =>
    match C15.parseNames ns, C14.unsexp t with
    | some vars, some e =>
      match varSetOfNameList vars with
      | none => Algo2.handle key ins obs
      | some set =>
        let f := fuelEval vars.length e
        let g1 := showOptOA (BddVariableSet_safe_eval_expression f set (ofE e))
        let g2 := showOA (BddVariableSet_eval_expression f set (ofE e))
        let h := C15.showOptArr (B.ExprM.evalExpr vars e) ++ " " ++ (match B.ExprM.evalExprO vars e with | .ok A => showArr A | _ => "panic")
        mk s!"{g1} {g2}" s!"{r} {r2}" (some h) ["safe_eval_expression", "eval_expression"]
    | _, _ => Verdict.bad "args"
  | "C15.evals", [ns, x], [r] =>
    match C15.parseNames ns, C14.dec x with
    | some vars, some cs =>
      match varSetOfNameList vars with
      | none => Algo2.handle key ins obs
      | some set =>
        let f := 64 * (cs.length + 4) * (4 ^ (min vars.length 12) + 64) + 8 * cs.length + 4096
        let g := showOA (BddVariableSet_eval_expression_string f set (String.ofList cs))
        let h := match B.ExprM.evalStringO vars cs with | .ok A => showArr A | _ => "panic"
        mk g r (some h) ["eval_expression_string"]
    | _, _ => Verdict.bad "args"
  | k, [ns, b], [ex, direct, reparsed] =>
    if k != "C15.export" && k != "C15.exportbad" then Algo2.handle key ins obs else
    match C15.parseNames ns, parseArr? b with
    | some vars, some A =>
      match varSetOfNameList vars with
      | none => Algo2.handle key ins obs
      | some set =>
        let g := match Bdd_to_boolean_expression A set with
          | .ok ge =>
            let e := toE ge
            let f := fuelEval vars.length e
            let d := showOptOA (BddVariableSet_safe_eval_expression f set ge)
            let rp := match genDisplay e with
              | .ok shown => (match genParse shown with
                | .ok e2 => showOptOA (BddVariableSet_safe_eval_expression (fuelEval vars.length e2) set (ofE e2))
                | .err _ => "none"
                | .panic _ => "panic")
              | _ => "panic"
            s!"{C14.sexp e} {d} {rp}"
          | .panic m => if isFuel m then "panic:fuel - -" else "panic - -"
          | .err _ => "err - -"
        let h := match B.ExprM.toExpr vars A with
          | .ok e => C14.sexp e ++ " " ++ C15.showOptArr (B.ExprM.evalExpr vars e) ++ " " ++
              (match B.Parser.parse (B.Parser.display e) with | .ok e2 => C15.showOptArr (B.ExprM.evalExpr vars e2) | _ => "none")
          | _ => "panic - -"
        mk g s!"{ex} {direct} {reparsed}" (some h) ["to_boolean_expression", "safe_eval_expression", "Display", "parse_boolean_expression"]
    | _, _ => Verdict.bad "args"
  | _, _, _ => Algo2.handle key ins obs

end B.Drive.Algo3
