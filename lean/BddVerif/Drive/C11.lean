import BddVerif.Drive.Util
import BddVerif.Model.Select
import BddVerif.Drive.C11Wide
/-!
Driver for C11: replays each observed case through the model of the selectors (`Model/Select.lean`) and
evaluates the property's own predicate on what the Rust code returned, by brute force and independently of
the model: the satisfying set from the truth table (`ttOf`, n ≤ 12; index order = the derived `Ord` of
`BddValuation`, variable 0 most significant, `false < true`), the list of all root-to-one paths of the array
(any n), single evaluations for n > 12.
-/
namespace B.Drive.C11
open B B.Drive B.Select

def maxTT : Nat := 12

/-! ### rendering of model results in the harness's text forms -/

def showVal : Sel Val → String
  | .panic => "panic"
  | .none => "none"
  | .some v => showBits v

def clauseChar : Option Bool → Char
  | some true => '1'
  | some false => '0'
  | none => '-'

/-- `fmt_partial`: `01-` over `n` variables, then `;idx=val` for fixed variables `≥ n` -/
def showClauseN (n : Nat) (c : Clause) : String :=
  let head := String.ofList ((List.range n).map fun i => clauseChar (getC c i))
  let head := if head.isEmpty then "~" else head
  let extra := (List.range (c.length - n)).map fun j =>
    match getC c (n + j) with
    | some b => s!";{n + j}={if b then 1 else 0}"
    | none => ""
  head ++ String.join extra

def showClause (n : Nat) : Sel Clause → String
  | .panic => "panic"
  | .none => "none"
  | .some c => showClauseN n c

def showOB : Option Bool → String
  | none => "panic"
  | some true => "1"
  | some false => "0"

def modelSelN (A : Arr) (n : Nat) : List String :=
  [showVal (satWitness A), showVal (firstValuation A), showVal (lastValuation A),
   showVal (mostPositiveValuation A), showVal (mostNegativeValuation A),
   showClause n (firstClause A), showClause n (lastClause A),
   showClause n (mostFixedClause A), showClause n (mostFreeClause A),
   showClause n (necessaryClause A), showOB (isClause A), showOB (isValuation A)]

def modelSel (A : Arr) : List String := modelSelN A (numVars A)

def modelRandN (A : Arr) (n : Nat) (fl : List Bool) : List String :=
  [showVal (randomValuation A fl), showClause n (randomClause A fl)]

def modelRand (A : Arr) (fl : List Bool) : List String := modelRandN A (numVars A) fl

/-! ### brute-force oracles (independent of the model) -/

/-- all root-to-one paths as `01-` strings over `n` variables, low branch first; `fuel` bounds the depth -/
def pathsFrom (A : Arr) (n : Nat) : Nat → Nat → List (Nat × Bool) → List String
  | 0, _, _ => []
  | fuel + 1, p, acc =>
    if p == 0 then []
    else if p == 1 then
      [String.ofList ((List.range n).map fun i =>
        match acc.find? (·.1 == i) with
        | some (_, true) => '1'
        | some (_, false) => '0'
        | none => '-')]
    else
      let nd := A[p]?.getD default
      pathsFrom A n fuel nd.low ((nd.var, false) :: acc) ++ pathsFrom A n fuel nd.high ((nd.var, true) :: acc)

def allPathsN (A : Arr) (n : Nat) : List String :=
  if A.size < 2 then [] else
  (pathsFrom A n (n + 2) (root A) []).map fun s => if s.isEmpty then "~" else s

/-- value of the diagram under `v`, for a declared variable count `n` (does not read the terminal entries) -/
def evalN (A : Arr) (n : Nat) (v : Nat → Bool) : Bool := evalF A v (n + 2) (root A)

def fixedCount (s : String) : Nat := (s.toList.filter fun c => c == '0' || c == '1').length

/-- first position where two equally long clause strings differ -/
def firstDiff : List Char → List Char → Option (Char × Char)
  | a :: as, b :: bs => if a == b then firstDiff as bs else some (a, b)
  | _, _ => none

/-- `c` is a path and takes branch `want` wherever it diverges from another path -/
def extremalPath (paths : List String) (c : String) (want : Char) : Bool :=
  paths.contains c && paths.all fun d =>
    match firstDiff c.toList d.toList with
    | none => true
    | some (x, y) => x == want && (y == '0' || y == '1') && y != want

def popcount (n i : Nat) : Nat := ((List.range n).filter fun k => valOfIndex n i k).length

def bitsOfIndex (n i : Nat) : String := showBits ((List.range n).map (valOfIndex n i))

structure Oracle where
  n : Nat
  sat : List Nat          -- indices of the satisfying valuations, increasing
  paths : List String

def argBest (xs : List Nat) (score : Nat → Nat) : Option Nat :=
  -- the FIRST element with the maximal score
  xs.foldl (fun best i => match best with
    | none => some i
    | some j => if score i > score j then some i else some j) none

def expectOpt (got : String) (want : Option String) (clause : String) : Option String :=
  match want with
  | none => if got == "none" then none else some (clause ++ ":not-none-on-contradiction")
  | some w => if got == w then none else some clause

def firstFail (xs : List (Option String)) : Option String := xs.findSome? id

/-- the literals shared by all satisfying valuations, as a `01-` string -/
def necessaryOf (n : Nat) (sat : List Nat) : String :=
  let s := String.ofList ((List.range n).map fun k =>
    if sat.all (fun i => valOfIndex n i k) then '1'
    else if sat.all (fun i => !valOfIndex n i k) then '0' else '-')
  if s.isEmpty then "~" else s

/-- predicate on the deterministic selectors, truth-table part (n ≤ 12) -/
def checkSelTT (o : Oracle) (obs : List String) : Option String :=
  match obs with
  | [wit, fv, lv, mp, mn, _fc, _lc, _mfx, _mfr, nec, isc, isv] =>
    let n := o.n
    let sat := o.sat
    if sat.isEmpty then
      firstFail ([wit, fv, lv, mp, mn, nec].map fun x => if x == "none" then none else some "none-on-contradiction") |>.orElse fun _ =>
      firstFail [if isc == "0" then none else some "is_clause-on-contradiction",
                 if isv == "0" then none else some "is_valuation-on-contradiction"]
    else
      let satBits := sat.map (bitsOfIndex n)
      let nFixed := fixedCount (necessaryOf n sat)
      firstFail [
        if satBits.contains wit then none else some "sat_witness-not-satisfying",
        expectOpt fv (sat.head?.map (bitsOfIndex n)) "first_valuation-not-least",
        expectOpt lv (sat.getLast?.map (bitsOfIndex n)) "last_valuation-not-greatest",
        expectOpt mp ((argBest sat (popcount n)).map (bitsOfIndex n)) "most_positive-not-max-or-not-least",
        expectOpt mn ((argBest sat (fun i => n - popcount n i)).map (bitsOfIndex n)) "most_negative-not-max-or-not-least",
        expectOpt nec (some (necessaryOf n sat)) "necessary_clause-not-exact",
        if isc == (if sat.length == 2 ^ (n - nFixed) then "1" else "0") then none else some "is_clause-wrong",
        if isv == (if sat.length == 1 then "1" else "0") then none else some "is_valuation-wrong"]
  | _ => some "arity"

/-- predicate on the deterministic selectors, path part (any n) and single evaluations -/
def checkSelPaths (A : Arr) (o : Oracle) (obs : List String) : Option String :=
  match obs with
  | [wit, fv, lv, mp, mn, fc, lc, mfx, mfr, nec, _isc, _isv] =>
    if o.paths.isEmpty then
      firstFail ([wit, fv, lv, mp, mn, fc, lc, mfx, mfr, nec].map fun x =>
        if x == "none" then none else some "none-on-contradiction")
    else
      let counts := o.paths.map fixedCount
      let maxF := counts.foldl max 0
      let minF := counts.foldl min o.n
      let satisfies (x : String) (what : String) : Option String :=
        if x == "none" || x == "panic" then some (what ++ "-missing")
        else if (parseBits x).length == o.n && evalN A o.n (valOfBits (parseBits x)) then none
        else some (what ++ "-not-satisfying")
      firstFail [
        satisfies wit "sat_witness", satisfies fv "first_valuation", satisfies lv "last_valuation",
        satisfies mp "most_positive", satisfies mn "most_negative",
        if extremalPath o.paths fc '0' then none else some "first_clause-not-a-path-or-not-first",
        if extremalPath o.paths lc '1' then none else some "last_clause-not-a-path-or-not-last",
        if o.paths.contains mfx && fixedCount mfx == maxF then none else some "most_fixed-not-a-path-or-not-max",
        if o.paths.contains mfr && fixedCount mfr == minF then none else some "most_free-not-a-path-or-not-min"]
  | _ => some "arity"

def checkRand (A : Arr) (o : Oracle) (obs : List String) : Option String :=
  match obs with
  | [rv, rc] =>
    if o.paths.isEmpty then
      firstFail ([rv, rc].map fun x => if x == "none" then none else some "none-on-contradiction")
    else
      firstFail [
        if rv != "none" && rv != "panic" && (parseBits rv).length == o.n && evalN A o.n (valOfBits (parseBits rv)) then none
          else some "random_valuation-not-satisfying",
        if o.paths.contains rc then none else some "random_clause-not-a-path"]
  | _ => some "arity"

def oracleOfN (A : Arr) (n : Nat) : Oracle :=
  let sat := if n ≤ maxTT then (List.range (2 ^ n)).filter fun i => evalN A n (valOfIndex n i) else []
  { n, sat, paths := allPathsN A n }

def oracleOf (A : Arr) : Oracle := oracleOfN A (numVars A)

/-- the terminal entries of a result are exactly `(n,0,0)` and `(n,1,1)` -/
def terminalsExact (A : Arr) (n : Nat) : Bool :=
  A[0]? == some ⟨n, 0, 0⟩ && (A.size < 2 || A[1]? == some ⟨n, 1, 1⟩)

def hasGap (A : Arr) : Bool :=
  A.size > 2 && ((A[root A]?.getD default).var > 0 ||
    (List.range A.size).any fun p => p ≥ 2 &&
      let nd := A[p]?.getD default
      ((A[nd.low]?.getD default).var > nd.var + 1 && nd.low != 0) ||
      ((A[nd.high]?.getD default).var > nd.var + 1 && nd.high != 0))

def tagsOf (key : String) (A : Arr) : List String :=
  let n := numVars A
  [key, if A.size ≤ 2 then "const" else "nonconst", if n ≤ maxTT then "tt" else "big",
   if hasGap A then "gap" else "nogap", s!"sz{Nat.log2 (A.size + 1)}"]

/-- The runner reports a case that did not finish as the observation `hang`. On the oracle-built canonical
    operands (`sel`, `rand`, `wide`, `widerand`) not returning violates the statement; where the operand is the
    result of another operation or is not canonical the property claims nothing about the case as a whole
    (the operation itself may be what hangs): a plain disagreement. -/
def hangVerdict (key : String) : Verdict :=
  if key == "C11.sel" || key == "C11.rand" || key == "C11.wide" || key == "C11.widerand" then
    { agree := false, model := "returns", fail := some "selector-does-not-return", nontrivial := false, tags := ["hang"] }
  else
    { agree := false, model := "returns", fail := none, nontrivial := false, tags := ["hang"] }

def handle (key : String) (ins obs : List String) : Verdict :=
  if obs == ["hang"] then hangVerdict key else
  match key, ins with
  | "C11.sel", [a] =>
    match parseArr? a with
    | some A =>
      if !isCanon A then Verdict.bad "input not canonical (harness bug)" else
      let model := modelSel A
      let o := oracleOf A
      let fail := firstFail [checkSelPaths A o obs, if o.n ≤ maxTT then checkSelTT o obs else none]
      { agree := model == obs, model := " ".intercalate model, fail, nontrivial := A.size > 2,
        tags := tagsOf "sel" A ++ (match obs with
          | [_, _, _, _, _, _, _, _, _, _, isc, isv] => [if isc == "1" then "cube" else "noncube", if isv == "1" then "single" else "nonsingle"]
          | _ => []) }
    | none => Verdict.bad "args"
  | "C11.rand", [a, f] =>
    match parseArr? a with
    | some A =>
      if !isCanon A then Verdict.bad "input not canonical (harness bug)" else
      let fl := parseBits f
      let model := modelRand A fl
      let o : Oracle := { n := numVars A, sat := [], paths := allPathsN A (numVars A) }
      { agree := model == obs, model := " ".intercalate model, fail := checkRand A o obs, nontrivial := A.size > 2,
        tags := tagsOf "rand" A ++ [if fl.length < numVars A then "shortflips" else "flips"] }
    | none => Verdict.bad "args"
  | "C11.op", n :: op :: _ =>
    -- the selectors ran on the RESULT of a library operation; `n` is the variable count that result must have
    match n.toNat?, obs with
    | some _, ["oppanic"] =>
      { agree := true, model := "", fail := none, nontrivial := false, tags := ["op", op, "oppanic"] }
    | some n, res :: sel =>
      match parseArr? res with
      | some A =>
        let model := modelSelN A n
        let o := oracleOfN A n
        -- Exact terminal entries are a validity property of the OPERATION's result (C02 / C07 / C17), not part of
        -- this property's statement: they are recorded as a tag. What C11 claims is evaluated below from the truth
        -- table of the printed result with the variable count given by the inputs.
        let fail := firstFail [
          if sel.contains "panic" then some "selector-panics" else none,
          checkSelPaths A o sel, if n ≤ maxTT then checkSelTT o sel else none]
        { agree := model == sel, model := " ".intercalate model, fail, nontrivial := A.size > 2,
          tags := ["op", op, if A.size ≤ 2 then "const" else "nonconst", if isCanon A then "canon" else "noncanon",
                   if terminalsExact A n then "terminals-exact" else "terminals-inexact"] ++
            (match sel with
             | [_, _, _, _, _, _, _, _, _, _, isc, isv] => [if isc == "1" then "cube" else "noncube", if isv == "1" then "single" else "nonsingle"]
             | _ => []) }
      | none => Verdict.bad "result"
    | _, _ => Verdict.bad "args"
  | "C11.oprand", n :: op :: rest =>
    match n.toNat?, obs with
    | some _, ["oppanic"] =>
      { agree := true, model := "", fail := none, nontrivial := false, tags := ["oprand", op, "oppanic"] }
    | some n, res :: sel =>
      match parseArr? res with
      | some A =>
        let fl := parseBits (rest.getLast?.getD "~")
        let model := modelRandN A n fl
        let o : Oracle := { n, sat := [], paths := allPathsN A n }
        let fail := firstFail [
          if sel.contains "panic" then some "selector-panics" else none,
          checkRand A o sel]
        { agree := model == sel, model := " ".intercalate model, fail, nontrivial := A.size > 2,
          tags := ["oprand", op, if fl.length < n then "shortflips" else "flips",
                   if terminalsExact A n then "terminals-exact" else "terminals-inexact"] }
      | none => Verdict.bad "result"
    | _, _ => Verdict.bad "args"
  | "C11.wide", _ => C11Wide.handleWide key ins obs
  | "C11.widerand", _ => C11Wide.handleWide key ins obs
  | "C11.nc", [a] =>
    -- non-canonical input: the property makes no claim, only the model must follow the code (panics included)
    match parseArr? a with
    | some A =>
      let model := modelSel A
      { agree := model == obs, model := " ".intercalate model, fail := none, nontrivial := false,
        tags := ["nc", if obs.contains "panic" then "panic" else "nopanic"] }
    | none => Verdict.bad "args"
  | "C11.ncrand", [a, f] =>
    match parseArr? a with
    | some A =>
      let model := modelRand A (parseBits f)
      { agree := model == obs, model := " ".intercalate model, fail := none, nontrivial := false, tags := ["ncrand"] }
    | none => Verdict.bad "args"
  | _, _ => Verdict.bad ("key " ++ key)

end B.Drive.C11
