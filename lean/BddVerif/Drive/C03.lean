import BddVerif.Drive.Tables
import BddVerif.Model.Nested
/-!
Driver for C03: replays each observed case through the model (`Model/Nested.lean`) and evaluates the
property's own predicate on the implementation's output, by brute force over truth tables:
  * truth table of the observed result = projection (∃ = or, ∀ = and) over the quantified / triggered
    variables of the outer connective applied pointwise to the operands' truth tables,
  * no decision node of the result tests a quantified variable (support disjoint from the set),
  * two orderings (with duplicates) of the same variable set, the deprecated aliases (`project`, `var_project`),
    `exists([x])` / `var_exists(x)`, `for_all([x])` / `var_for_all(x)`, and the very same object passed twice
    (`alias`) or a clone (`clone`): every one of these results must denote the SAME projection (judged
    semantically, field by field),
  * for canonical operands only (structural clauses): no node tests a quantified variable, the tested variables
    are exactly those the projected function depends on, and the result is canonical (`isCanon`).
Inputs OUTSIDE the statement's quantifier — `var_exists`/`var_for_all` on a non-variable, lists containing a
non-variable, operands with different variable counts — get no predicate clause at all: such a case is `OK`
iff the observation equals the model's outcome and a plain disagreement otherwise (also for `hang`).
Nothing is claimed about panic messages.
Diagrams over more than `maxTT` variables with a small support (the wide stream) are checked by brute force
over the valuations of the union of the supports of operands and result, under several fixed background
patterns for all other variables; only when that union exceeds `maxTT` variables (the big-operand stream) is
the projection clause sampled.
-/
namespace B.Drive.C03
open B B.Drive

def maxTT : Nat := 12

/-- project variable `k` out of a truth table over `n` variables with the connective `d` -/
def projVar (n : Nat) (d : Bool → Bool → Bool) (t : Array Bool) (k : Nat) : Array Bool :=
  let bit := 2 ^ (n - 1 - k)
  (Array.range (2 ^ n)).map fun i =>
    let i0 := if (i / bit) % 2 == 1 then i - bit else i
    d (t.getD i0 false) (t.getD (i0 + bit) false)

/-- the oracle: outer connective pointwise, then fold `d` over both values of every variable `k < n`
    with `q k` -/
def oracle (n : Nat) (L R : Arr) (c : Bool → Bool → Bool) (d : Bool → Bool → Bool) (q : Nat → Bool) : Array Bool :=
  let tl := ttOf L n; let tr := ttOf R n
  let o : Array Bool := (Array.range (2 ^ n)).map fun i => c (tl.getD i false) (tr.getD i false)
  (List.range n).foldl (fun t k => if q k then projVar n d t k else t) o

def firstFail (xs : List (Option String)) : Option String := xs.findSome? id

/-- SplitMix-style mixing of a sample index into 64 pseudo-random bits -/
def mix (k : Nat) : UInt64 :=
  let z : UInt64 := (k + 1).toUInt64 * 0x9E3779B97F4A7C15
  let z := (z ^^^ (z >>> 29)) * 0xBF58476D1CE4E5B9
  z ^^^ (z >>> 32)

/-- pseudo-random valuation for diagrams with a support too large for a full truth table: the bits `z` are
    computed once per sample (`mix`), the projection clause is then checked on `samples` valuations -/
def sampleVal (n : Nat) (z : UInt64) : Nat → Bool := fun j =>
  j < n && ((z >>> (j % 60).toUInt64) &&& 1) == 1

def samples : Nat := 32768

/-- at most this many quantified variables are re-assigned exhaustively in the sampled oracle -/
def maxQuant : Nat := 8

/-- the oracle at one valuation: fold `d` over `c (L v') (R v')` for every re-assignment `v'` of the
    quantified variables `qs` (for `or`/`and` the order of the fold is irrelevant) -/
def oracleAt (L R : Arr) (c d : Bool → Bool → Bool) (qs : List Nat) (v : Nat → Bool) : Bool :=
  let vals := (List.range (2 ^ qs.length)).map fun a =>
    let v' : Nat → Bool := fun j =>
      match qs.idxOf? j with
      | some i => (a >>> i) % 2 == 1
      | none => v j
    c (evalArr L v') (evalArr R v')
  match vals with
  | [] => false
  | x :: xs => xs.foldl d x

/-- projection clause on pseudo-random valuations (wide diagrams) -/
def checkSampled (n : Nat) (res L R : Arr) (c d : Bool → Bool → Bool) (q : Nat → Bool) : Option String :=
  let qs := (List.range n).filter q
  if qs.length > maxQuant then none else
  if (List.range samples).all fun k =>
      let v := sampleVal n (mix k)
      evalArr res v == oracleAt L R c d qs v then none else some "projection(sampled)"

/-- variables tested by decision nodes, increasing, without repetition (variables ≥ `numVars` ignored) -/
def supportOf (A : Arr) : List Nat :=
  let n := numVars A
  let marks := (A.toList.drop 2).foldl
    (fun (m : Array Bool) nd => if nd.var < n then m.set! nd.var true else m) (Array.replicate n false)
  (List.range n).filter fun i => marks[i]!

def mergeSorted : List Nat → List Nat → List Nat
  | [], ys => ys
  | xs, [] => xs
  | x :: xs, y :: ys =>
    if x < y then x :: mergeSorted xs (y :: ys)
    else if y < x then y :: mergeSorted (x :: xs) ys
    else x :: mergeSorted xs ys
termination_by xs ys => xs.length + ys.length

/-- valuation number `i` of the variables `U` (first variable most significant), `bg` elsewhere -/
def valOn (U : List Nat) (i : Nat) (bg : Nat → Bool) : Nat → Bool := fun j =>
  match U.idxOf? j with
  | some k => (i >>> (U.length - 1 - k)) % 2 == 1
  | none => bg j

/-- fixed background patterns for the variables outside the compressed support -/
def backgrounds : List (Nat → Bool) :=
  [fun _ => false, fun _ => true, fun j => j % 2 == 1, fun j => (j / 64) % 2 == 0, fun j => j % 64 < 32]

/-- variables (positions in a table over `m` variables) the table depends on -/
def depsOf (m : Nat) (t : Array Bool) : List Nat :=
  (List.range m).filter fun k =>
    let bit := 2 ^ (m - 1 - k)
    (List.range (2 ^ m)).any fun i => t.getD i false != t.getD (i ^^^ bit) false

/-- brute force over the union `U` of the supports: projection under every background, and exactness of
    the result's support -/
def checkCompressed (U : List Nat) (res L R : Arr) (c d : Bool → Bool → Bool) (q : Nat → Bool)
    (structural : Bool) : List (Option String) :=
  let m := U.length
  let table := fun (A : Arr) (bg : Nat → Bool) => (Array.range (2 ^ m)).map fun i => evalArr A (valOn U i bg)
  let want := fun (bg : Nat → Bool) =>
    let tl := table L bg; let tr := table R bg
    let o : Array Bool := (Array.range (2 ^ m)).map fun i => c (tl.getD i false) (tr.getD i false)
    (List.range m).foldl (fun t k => if q (U.getD k 0) then projVar m d t k else t) o
  let bg0 : Nat → Bool := fun _ => false
  [ if backgrounds.all (fun bg => (table res bg).toList == (want bg).toList) then none else some "projection",
    if !structural || (depsOf m (want bg0)).map (fun k => U.getD k 0) == supportOf res then none
    else some "support-not-exact" ]

/-- the predicate on one observed result, for inputs the statement covers.
    Always: the result is a diagram over the same `n` variables and denotes the projection.
    `structural` (all operands canonical): additionally no node tests a quantified variable, the tested
    variables are exactly those the function depends on, and the array is canonical — for operands that are
    merely valid (not canonical) only the semantic clauses are claimed. -/
def checkRes (n : Nat) (res L R : Arr) (c d : Bool → Bool → Bool) (q : Nat → Bool) (structural : Bool) : Option String :=
  let U := if n ≤ maxTT then List.range n else mergeSorted (supportOf res) (mergeSorted (supportOf L) (supportOf R))
  firstFail (
    [if numVars res == n then none else some "num-vars"] ++
    (if U.length ≤ maxTT then checkCompressed U res L R c d q structural else [checkSampled n res L R c d q]) ++
    (if structural then [
      if (res.toList.drop 2).all (fun nd => !(q nd.var)) then none else some "support-not-disjoint",
      if isCanon res then none else some "not-canonical"] else []))

def parseVars? (s : String) : Option (List Nat) :=
  if s == "~" then some [] else (s.splitOn ",").mapM (·.toNat?)

def sameSet (a b : List Nat) : Bool := a.all b.contains && b.all a.contains

def supportVars (A : Arr) : List Nat := (A.toList.drop 2).map (·.var)

def qTag (n : Nat) (q : Nat → Bool) : String :=
  let k := ((List.range n).filter q).length
  if n > 0 && k == n then "q-all" else if k == 0 then "q-none" else if k == 1 then "q-one" else "q-some"

def tagsOf (kind : String) (n : Nat) (ops : List Arr) (q : Nat → Bool) : List String :=
  [kind, if n ≤ 20 then s!"n{n}" else if n ≤ 64 then "n21-64" else if n ≤ 128 then "n65-128" else if n ≤ 300 then "n129-300"
     else if n ≤ 2000 then "n301-2000" else "n>2000",
   qTag n q, if ops.any (·.size > 65536) then "big>65536" else "small",
   if ops.any (·.size ≤ 2) then "const-operand" else "nonconst",
   if ops.all isCanon then "canon-operands" else "noncanon-operand"]

/-- non-trivial: the result is not a constant, not an operand, and some quantified variable occurs
    in an operand -/
def nontriv (res : Option Arr) (ops : List Arr) (q : Nat → Bool) : Bool :=
  match res with
  | some A => A.size > 2 && !(ops.contains A) && ops.any (fun o => (supportVars o).any q)
  | none => false

def innerOf (name : String) : Op2 :=
  if name == "or" then Gen.or_ else if name == "and" then Gen.and_ else op2OfTable name

def showO : Option Arr → String
  | some A => showArr A
  | none => "panic"

/-- one group of observed fields that must all be the projection `Q_q^d (c L R)`, for inputs INSIDE the
    property's quantifier: `models` are the model's outputs, `obs` the observed fields (the text `panic`,
    `hang` or anything unparsable is an outcome the statement does not allow there).
    Order / repetition / alias invariance is judged semantically: every field must denote the projection over
    the same variable set (nothing is claimed about internal details of semantically equal results, except
    through the structural clauses for canonical operands).
    Returns the model text, the failed clause (if any) and the first parsed result. -/
def checkGroup (n : Nat) (L R : Arr) (c d : Bool → Bool → Bool) (q : Nat → Bool)
    (models : List (Option Arr)) (obs : List String) : String × Option String × Option Arr :=
  let modelS := " ".intercalate (models.map showO)
  let parsed := obs.map parseArr?
  let structural := isCanon L && isCanon R
  let perField := (parsed.zip obs).map fun (p, o) =>
    match p with
    | some A => checkRes n A L R c d q structural
    | none => some ("outcome:" ++ o)
  (modelS, firstFail perField, parsed.headD none)

/-- verdict for inputs OUTSIDE the property's quantifier (decided from the inputs alone: a variable argument
    or list element that is not a variable of the operands, operands with different variable counts): the
    statement claims nothing, every predicate clause is off; the case only records whether the
    implementation still does what the model says (`panic`, a value, …; also for the observation `hang`) -/
def outsideVerdict (kind : String) (models : List (Option Arr)) (obs : List String) : Verdict :=
  let modelS := " ".intercalate (models.map showO)
  { agree := modelS == " ".intercalate obs, model := modelS, fail := none, nontrivial := false,
    tags := ["outside-quantifier", kind] }

/-- common part of the single-group kinds; `outside` = the inputs are outside the quantifier -/
def verdict (kind : String) (n : Nat) (L R : Arr) (c d : Bool → Bool → Bool) (q : Nat → Bool)
    (models : List (Option Arr)) (obs : List String) (outside : Bool := false) : Verdict :=
  if outside || numVars L != numVars R || numVars L != n then outsideVerdict kind models obs else
  if obs != ["hang"] && models.length != obs.length then Verdict.bad "field count (harness bug)" else
  let (modelS, fail, first) := checkGroup n L R c d q models obs
  { agree := modelS == " ".intercalate obs, model := modelS, fail,
    nontrivial := nontriv first [L, R] q, tags := tagsOf kind n [L, R] q }

/-- some element of the list is not a variable of a diagram over `n` variables -/
def hasNonVar (n : Nat) (vs : List Nat) : Bool := vs.any (· ≥ n)

def formOk (form l r : String) : Bool := form == "sep" || ((form == "alias" || form == "clone") && l == r)

def handle (key : String) (ins obs : List String) : Verdict :=
  match key, ins with
  | "C03.nested", [n, table, conn, l, r, mask, inner, iconn] =>
    match n.toNat?, conn.toNat?, parseArr? l, parseArr? r, mask.toNat?, iconn.toNat? with
    | some n, some c, some L, some R, some mask, some ic =>
      let op := op2OfTable table
      let iop := innerOf inner
      if !consistent2 op c then Verdict.bad "inconsistent outer table (harness bug)" else
      if !(consistent2 iop ic && (ic == 14 || ic == 8)) then Verdict.bad "inner table is not or/and (harness bug)" else
      let trig : Nat → Bool := fun x => (mask >>> (x % 64)) % 2 == 1
      let v := verdict "nested" n L R (conn2 c) (conn2 ic) trig [nestedApplyO L R trig op iop] obs
      { v with tags := (if ic == 14 then "inner-or" else "inner-and") ::
          (if inner == "or" || inner == "and" then "inner-builtin" else "inner-table") :: v.tags }
    | _, _, _, _, _, _ => Verdict.bad "args"
  | "C03.chain", [n, table, conn, a, b, vs, form] =>
    match n.toNat?, conn.toNat?, parseArr? a, parseArr? b, parseVars? vs, obs with
    | some n, some c, some A, some B, some vs, [o1, o2, o3] =>
      let op := op2OfTable table
      if !consistent2 op c then Verdict.bad "inconsistent outer table (harness bug)" else
      if !(form == "alias" || form == "clone") then Verdict.bad "form (harness bug)" else
      let trig := trigOfList vs
      let m1 := nestedApplyO A B trig op Gen.or_
      let m2 := m1.bind fun r => nestedApplyO r A trig op Gen.and_
      let m3 := m1.bind fun r => nestedApplyO r r trig op Gen.or_
      if numVars A != numVars B || numVars A != n || hasNonVar n vs then outsideVerdict "chain" [m1, m2, m3] obs else
      let (s1, f1, first) := checkGroup n A B (conn2 c) (· || ·) trig [m1] [o1]
      -- the later steps are judged relative to the OBSERVED intermediate result
      let (f2, f3) := match first with
        | some r => if numVars r != n then (none, none) else
                    ((checkGroup n r A (conn2 c) (· && ·) trig [m2] [o2]).2.1,
                     (checkGroup n r r (conn2 c) (· || ·) trig [m3] [o3]).2.1)
        | none => (none, none)
      let modelS := s!"{s1} {showO m2} {showO m3}"
      { agree := modelS == " ".intercalate obs, model := modelS,
        fail := firstFail [f1, f2.map ("step2:" ++ ·), f3.map ("step3:" ++ ·)],
        nontrivial := nontriv first [A, B] trig, tags := form :: s!"conn{c}" :: tagsOf "chain" n [A, B] trig }
    | some n, some _, some A, some B, some vs, _ =>
      -- e.g. the single observation `hang`
      if numVars A != numVars B || numVars A != n || hasNonVar n vs then outsideVerdict "chain" [] obs
      else { agree := false, model := "three results", fail := some ("outcome:" ++ " ".intercalate obs), tags := ["chain"] }
    | _, _, _, _, _, _ => Verdict.bad "args"
  | k, [n, table, conn, l, r, vs1, vs2] =>
    if k != "C03.exq" && k != "C03.allq" then Verdict.bad ("key " ++ key) else
    match n.toNat?, conn.toNat?, parseArr? l, parseArr? r, parseVars? vs1, parseVars? vs2 with
    | some n, some c, some L, some R, some v1, some v2 =>
      let op := op2OfTable table
      if !consistent2 op c then Verdict.bad "inconsistent outer table (harness bug)" else
      if !sameSet v1 v2 then Verdict.bad "lists are not the same set (harness bug)" else
      let ex := k == "C03.exq"
      let f := fun vs => nestedApplyO L R (trigOfList vs) op (if ex then Gen.or_ else Gen.and_)
      verdict (if ex then "exq" else "allq") n L R (conn2 c) (if ex then (· || ·) else (· && ·))
        (trigOfList v1) [f v1, f v2] obs (hasNonVar n (v1 ++ v2))
    | _, _, _, _, _, _ => Verdict.bad "args"
  | "C03.exists", [l, vs1, vs2] =>
    match parseArr? l, parseVars? vs1, parseVars? vs2 with
    | some L, some v1, some v2 =>
      if !sameSet v1 v2 then Verdict.bad "lists are not the same set (harness bug)" else
      verdict "exists" (numVars L) L L (· && ·) (· || ·) (trigOfList v1)
        (let m := some (bddExists L v1); [m, some (bddExists L v2), m]) obs (hasNonVar (numVars L) (v1 ++ v2))
    | _, _, _ => Verdict.bad "args"
  | "C03.forall", [l, vs1, vs2] =>
    match parseArr? l, parseVars? vs1, parseVars? vs2 with
    | some L, some v1, some v2 =>
      if !sameSet v1 v2 then Verdict.bad "lists are not the same set (harness bug)" else
      verdict "forall" (numVars L) L L (· && ·) (· && ·) (trigOfList v1)
        [some (bddForAll L v1), some (bddForAll L v2)] obs (hasNonVar (numVars L) (v1 ++ v2))
    | _, _, _ => Verdict.bad "args"
  | "C03.varex", [l, x] =>
    match parseArr? l, x.toNat? with
    | some L, some x =>
      let m := varExistsO L x
      -- optional third observation: `exists([x])` (never panics; equals `var_exists(x)` when `x` is a variable)
      let models := if obs.length == 3 then [m, m, some (bddExists L [x])] else [m, m]
      verdict "varex" (numVars L) L L (· && ·) (· || ·) (· == x) models obs (x ≥ numVars L)
    | _, _ => Verdict.bad "args"
  | "C03.varall", [l, x] =>
    match parseArr? l, x.toNat? with
    | some L, some x =>
      let m := varForAllO L x
      let models := if obs.length == 2 then [m, some (bddForAll L [x])] else [m]
      verdict "varall" (numVars L) L L (· && ·) (· && ·) (· == x) models obs (x ≥ numVars L)
    | _, _ => Verdict.bad "args"
  | "C03.nestl", [n, table, conn, l, r, vs, inner, iconn, form] =>
    match n.toNat?, conn.toNat?, parseArr? l, parseArr? r, parseVars? vs, iconn.toNat? with
    | some n, some c, some L, some R, some vs, some ic =>
      let op := op2OfTable table
      let iop := innerOf inner
      if !consistent2 op c then Verdict.bad "inconsistent outer table (harness bug)" else
      if !(consistent2 iop ic && (ic == 14 || ic == 8)) then Verdict.bad "inner table is not or/and (harness bug)" else
      if !formOk form l r then Verdict.bad "form does not fit the operands (harness bug)" else
      let trig := trigOfList vs
      let v := verdict "nestl" n L R (conn2 c) (conn2 ic) trig [nestedApplyO L R trig op iop] obs
      { v with tags := form :: (if ic == 14 then "inner-or" else "inner-and") :: s!"conn{c}" :: v.tags }
    | _, _, _, _, _, _ => Verdict.bad "args"
  | k, [n, table, conn, l, r, vs1, vs2, form] =>
    if k != "C03.exqf" && k != "C03.allqf" then Verdict.bad ("key " ++ key) else
    match n.toNat?, conn.toNat?, parseArr? l, parseArr? r, parseVars? vs1, parseVars? vs2 with
    | some n, some c, some L, some R, some v1, some v2 =>
      let op := op2OfTable table
      if !consistent2 op c then Verdict.bad "inconsistent outer table (harness bug)" else
      if !sameSet v1 v2 then Verdict.bad "lists are not the same set (harness bug)" else
      if !formOk form l r then Verdict.bad "form does not fit the operands (harness bug)" else
      let ex := k == "C03.exqf"
      let f := fun vs => nestedApplyO L R (trigOfList vs) op (if ex then Gen.or_ else Gen.and_)
      let v := verdict (if ex then "exqf" else "allqf") n L R (conn2 c) (if ex then (· || ·) else (· && ·))
        (trigOfList v1) [f v1, f v2] obs (hasNonVar n (v1 ++ v2))
      { v with tags := form :: s!"conn{c}" :: v.tags }
    | _, _, _, _, _, _ => Verdict.bad "args"
  | _, _ => Verdict.bad ("key " ++ key)

end B.Drive.C03
