import BddVerif.Drive.Tables
import BddVerif.Model.Nested
/-!
Driver for C03: replays each observed case through the model (`Model/Nested.lean`) and evaluates the
property's own predicate on the implementation's output, by brute force over truth tables:
  * truth table of the observed result = projection (∃ = or, ∀ = and) over the quantified / triggered
    variables of the outer connective applied pointwise to the operands' truth tables,
  * no decision node of the result tests a quantified variable (support disjoint from the set),
  * the result is canonical (`isCanon`),
  * two orderings (with duplicates) of the same variable set give the identical array,
  * deprecated aliases (`project`, `var_project`) give the identical array.
-/
namespace B.Drive.C03
open B B.Drive

def maxTT : Nat := 12

/-- project variable `k` out of a truth table over `n` variables with the connective `d` -/
def projVar (n : Nat) (d : Bool → Bool → Bool) (t : Array Bool) (k : Nat) : Array Bool :=
  let bit := 2 ^ (n - 1 - k)
  (Array.range (2 ^ n)).map fun i =>
    let i0 := if (i / bit) % 2 == 1 then i - bit else i
    d (t.getD i0 false) (t.getD (i0 + bit) false)

/-- the oracle: outer connective pointwise, then fold `d` over both values of every variable `k < n`
    with `q k` -/
def oracle (n : Nat) (L R : Arr) (c : Bool → Bool → Bool) (d : Bool → Bool → Bool) (q : Nat → Bool) : Array Bool :=
  let tl := ttOf L n; let tr := ttOf R n
  let o : Array Bool := (Array.range (2 ^ n)).map fun i => c (tl.getD i false) (tr.getD i false)
  (List.range n).foldl (fun t k => if q k then projVar n d t k else t) o

def firstFail (xs : List (Option String)) : Option String := xs.findSome? id

/-- pseudo-random valuations for diagrams too wide for a full truth table (SplitMix-style mixing of the
    index); the projection clause is then checked on `samples` valuations instead of all 2^n -/
def sampleVal (n k : Nat) : Nat → Bool := fun j =>
  let z := (k + 1) * 0x9E3779B97F4A7C15 % 2 ^ 64
  let z := (z ^^^ (z >>> 29)) * 0xBF58476D1CE4E5B9 % 2 ^ 64
  let z := (z ^^^ (z >>> 32))
  j < n && (z >>> (j % 60)) % 2 == 1

def samples : Nat := 16384

/-- at most this many quantified variables are re-assigned exhaustively in the sampled oracle -/
def maxQuant : Nat := 8

/-- the oracle at one valuation: fold `d` over `c (L v') (R v')` for every re-assignment `v'` of the
    quantified variables `qs` (for `or`/`and` the order of the fold is irrelevant) -/
def oracleAt (L R : Arr) (c d : Bool → Bool → Bool) (qs : List Nat) (v : Nat → Bool) : Bool :=
  let vals := (List.range (2 ^ qs.length)).map fun a =>
    let v' : Nat → Bool := fun j =>
      match qs.idxOf? j with
      | some i => (a >>> i) % 2 == 1
      | none => v j
    c (evalArr L v') (evalArr R v')
  match vals with
  | [] => false
  | x :: xs => xs.foldl d x

/-- projection clause on pseudo-random valuations (wide diagrams) -/
def checkSampled (n : Nat) (res L R : Arr) (c d : Bool → Bool → Bool) (q : Nat → Bool) : Option String :=
  let qs := (List.range n).filter q
  if qs.length > maxQuant then none else
  if (List.range samples).all fun k =>
      let v := sampleVal n k
      evalArr res v == oracleAt L R c d qs v then none else some "projection(sampled)"

/-- the predicate on one observed result; `want` is the full oracle table (n ≤ maxTT) -/
def checkRes (n : Nat) (res L R : Arr) (c d : Bool → Bool → Bool) (want : Array Bool) (q : Nat → Bool) : Option String :=
  firstFail [
    if n > maxTT then checkSampled n res L R c d q
    else if (ttOf res n).toList == want.toList then none else some "projection",
    if (res.toList.drop 2).all (fun nd => !(q nd.var)) then none else some "support-not-disjoint",
    if numVars res == n then none else some "num-vars",
    if isCanon res then none else some "not-canonical"]

def parseVars? (s : String) : Option (List Nat) :=
  if s == "~" then some [] else (s.splitOn ",").mapM (·.toNat?)

def sameSet (a b : List Nat) : Bool := a.all b.contains && b.all a.contains

def supportVars (A : Arr) : List Nat := (A.toList.drop 2).map (·.var)

def qTag (n : Nat) (q : Nat → Bool) : String :=
  let k := ((List.range n).filter q).length
  if n > 0 && k == n then "q-all" else if k == 0 then "q-none" else if k == 1 then "q-one" else "q-some"

def tagsOf (kind : String) (n : Nat) (ops : List Arr) (q : Nat → Bool) : List String :=
  [kind, s!"n{n}", qTag n q, if ops.any (·.size > 65536) then "big>65536" else "small",
   if ops.any (·.size ≤ 2) then "const-operand" else "nonconst",
   if ops.all isCanon then "canon-operands" else "noncanon-operand"]

/-- non-trivial: the result is not a constant, not an operand, and some quantified variable occurs
    in an operand -/
def nontriv (res : Option Arr) (ops : List Arr) (q : Nat → Bool) : Bool :=
  match res with
  | some A => A.size > 2 && !(ops.contains A) && ops.any (fun o => (supportVars o).any q)
  | none => false

def innerOf (name : String) : Op2 :=
  if name == "or" then Gen.or_ else if name == "and" then Gen.and_ else op2OfTable name

def showO : Option Arr → String
  | some A => showArr A
  | none => "panic"

/-- common part of all kinds: `results` are the observed fields that must all be the projection -/
def verdict (kind : String) (n : Nat) (L R : Arr) (c d : Bool → Bool → Bool) (q : Nat → Bool)
    (models : List (Option Arr)) (obs : List String) : Verdict :=
  let modelS := " ".intercalate (models.map showO)
  let obsS := " ".intercalate obs
  let expectPanic := models.all (·.isNone)
  let want := if n > maxTT then #[] else oracle n L R c d q
  let parsed := obs.map parseArr?
  let fail :=
    if expectPanic then (if obs.all (· == "panic") then none else some "outcome:expected-panic")
    else firstFail ((parsed.zip obs).map (fun (p, o) => match p with
        | some A => checkRes n A L R c d want q
        | none => some ("outcome:" ++ o))
      ++ [if obs.all (· == obs.headD "") then none else some "order-or-alias-dependent"])
  { agree := modelS == obsS, model := modelS, fail,
    nontrivial := nontriv (parsed.headD none) [L, R] q, tags := tagsOf kind n [L, R] q }

def handle (key : String) (ins obs : List String) : Verdict :=
  match key, ins with
  | "C03.nested", [n, table, conn, l, r, mask, inner, iconn] =>
    match n.toNat?, conn.toNat?, parseArr? l, parseArr? r, mask.toNat?, iconn.toNat? with
    | some n, some c, some L, some R, some mask, some ic =>
      let op := op2OfTable table
      let iop := innerOf inner
      if !consistent2 op c then Verdict.bad "inconsistent outer table (harness bug)" else
      if !(consistent2 iop ic && (ic == 14 || ic == 8)) then Verdict.bad "inner table is not or/and (harness bug)" else
      let trig : Nat → Bool := fun x => (mask >>> (x % 64)) % 2 == 1
      let v := verdict "nested" n L R (conn2 c) (conn2 ic) trig [nestedApplyO L R trig op iop] obs
      { v with tags := (if ic == 14 then "inner-or" else "inner-and") ::
          (if inner == "or" || inner == "and" then "inner-builtin" else "inner-table") :: v.tags }
    | _, _, _, _, _, _ => Verdict.bad "args"
  | k, [n, table, conn, l, r, vs1, vs2] =>
    if k != "C03.exq" && k != "C03.allq" then Verdict.bad ("key " ++ key) else
    match n.toNat?, conn.toNat?, parseArr? l, parseArr? r, parseVars? vs1, parseVars? vs2 with
    | some n, some c, some L, some R, some v1, some v2 =>
      let op := op2OfTable table
      if !consistent2 op c then Verdict.bad "inconsistent outer table (harness bug)" else
      if !sameSet v1 v2 then Verdict.bad "lists are not the same set (harness bug)" else
      let ex := k == "C03.exq"
      let f := fun vs => nestedApplyO L R (trigOfList vs) op (if ex then Gen.or_ else Gen.and_)
      verdict (if ex then "exq" else "allq") n L R (conn2 c) (if ex then (· || ·) else (· && ·))
        (trigOfList v1) [f v1, f v2] obs
    | _, _, _, _, _, _ => Verdict.bad "args"
  | "C03.exists", [l, vs1, vs2] =>
    match parseArr? l, parseVars? vs1, parseVars? vs2 with
    | some L, some v1, some v2 =>
      if !sameSet v1 v2 then Verdict.bad "lists are not the same set (harness bug)" else
      verdict "exists" (numVars L) L L (· && ·) (· || ·) (trigOfList v1)
        (let m := some (bddExists L v1); [m, some (bddExists L v2), m]) obs
    | _, _, _ => Verdict.bad "args"
  | "C03.forall", [l, vs1, vs2] =>
    match parseArr? l, parseVars? vs1, parseVars? vs2 with
    | some L, some v1, some v2 =>
      if !sameSet v1 v2 then Verdict.bad "lists are not the same set (harness bug)" else
      verdict "forall" (numVars L) L L (· && ·) (· && ·) (trigOfList v1)
        [some (bddForAll L v1), some (bddForAll L v2)] obs
    | _, _, _ => Verdict.bad "args"
  | "C03.varex", [l, x] =>
    match parseArr? l, x.toNat? with
    | some L, some x =>
      let m := varExistsO L x
      verdict "varex" (numVars L) L L (· && ·) (· || ·) (· == x) [m, m] obs
    | _, _ => Verdict.bad "args"
  | "C03.varall", [l, x] =>
    match parseArr? l, x.toNat? with
    | some L, some x =>
      let m := varForAllO L x
      verdict "varall" (numVars L) L L (· && ·) (· && ·) (· == x) [m] obs
    | _, _ => Verdict.bad "args"
  | _, _ => Verdict.bad ("key " ++ key)

end B.Drive.C03
