import BddVerif.Drive.Tables
import BddVerif.Model.Limit
/-!
Driver for C04: replays each observed fused operation through the model (`fusedBinaryFlipOp`,
`fusedTernaryFlipOp`, panics included) and evaluates the property's own predicate on the implementation's
output:
  * truth table: `r(v) = g(v with the output-flip variable inverted)`, `g(u) = op` applied to each operand's
    truth table at `u` with that operand's flip variable inverted (absent flip = identity) — computed on
    truth-table indices by bit inversion, independently of the model;
  * the observed result is canonical (`isCanon`);
  * the observed fused result is identical to the observed result of the separately performed steps;
  * a panic is observed exactly when the variable counts differ or some flip variable is `≥ num_vars`.
-/
namespace B.Drive.C04
open B B.Lim B.Drive

def maxTT : Nat := 12

/-- bit mask on truth-table indices of the inversion of variable `x` (variable 0 = most significant bit) -/
def flipMask (n : Nat) : Option Nat → Nat
  | none => 0
  | some x => if x < n then 1 <<< (n - 1 - x) else 0

def showOut : Outcome Arr → String
  | .ok a => showArr a
  | .err _ => "err"
  | .panic _ => "panic"

def firstFail (xs : List (Option String)) : Option String := xs.findSome? id

def flipTag (fs : List (Option Nat)) : String :=
  let k := (fs.filter Option.isSome).length
  let distinct := (fs.filterMap id).eraseDups.length
  s!"flips{k}d{distinct}"

def checkBin (n : Nat) (X L R : Arr) (c : Bool → Bool → Bool) (fl fr fo : Option Nat) : Option String :=
  if n > maxTT then none else
  let tx := ttOf X n; let tl := ttOf L n; let tr := ttOf R n
  let mo := flipMask n fo; let ml := flipMask n fl; let mr := flipMask n fr
  if (List.range (2 ^ n)).all fun i => tx[i]! == c tl[(i ^^^ mo) ^^^ ml]! tr[(i ^^^ mo) ^^^ mr]!
  then none else some "bit-inversion"

def checkTer (n : Nat) (X A B C : Arr) (c : Bool → Bool → Bool → Bool) (fa fb fc fo : Option Nat) : Option String :=
  if n > maxTT then none else
  let tx := ttOf X n; let ta := ttOf A n; let tb := ttOf B n; let tc := ttOf C n
  let mo := flipMask n fo
  if (List.range (2 ^ n)).all fun i =>
    tx[i]! == c ta[(i ^^^ mo) ^^^ flipMask n fa]! tb[(i ^^^ mo) ^^^ flipMask n fb]! tc[(i ^^^ mo) ^^^ flipMask n fc]!
  then none else some "bit-inversion"

/-- does the operand mention variable `x`? -/
def mentions (A : Arr) (f : Option Nat) : Bool :=
  match f with
  | none => false
  | some x => (A.toList.drop 2).any (·.var == x)

def handle (key : String) (ins obs : List String) : Verdict :=
  match key, ins, obs with
  | "C04.bin", [table, conn, l, r, fl, fr, fo], [fused, sep] =>
    match conn.toNat?, parseArr? l, parseArr? r, parseOptNat? fl, parseOptNat? fr, parseOptNat? fo with
    | some c, some L, some R, some fl, some fr, some fo =>
      let n := numVars L
      let op := op2OfTable table
      if !consistent2 op c then Verdict.bad "inconsistent table (harness bug)" else
      let model := showOut (fusedBinaryFlipOp L R op fl fr fo)
      -- independent statement of when the Rust code must panic
      let mustPanic := numVars R != n || [fl, fr, fo].any fun f => match f with | some x => x ≥ n | none => false
      let fail :=
        if mustPanic then
          (if fused == "panic" && sep == "panic" then none else some "flip-bounds:panic-expected")
        else match parseArr? fused, parseArr? sep with
          | some X, some S => firstFail [checkBin n X L R (conn2 c) fl fr fo,
              if isCanon X then none else some "not-canonical",
              if X == S then none else some "fused-vs-separate"]
          | _, _ => some ("flip-bounds:unexpected-outcome:" ++ fused ++ "/" ++ sep)
      let unused := [(fl, L), (fr, R)].any (fun p => p.1.isSome && !mentions p.2 p.1) ||
        (fo.isSome && !mentions L fo && !mentions R fo)
      { agree := model == fused, model, fail,
        nontrivial := !mustPanic && (parseArr? fused).any (·.size > 2) && [fl, fr, fo].any Option.isSome,
        tags := ["bin", flipTag [fl, fr, fo], if mustPanic then "panic" else "ok", s!"n{n}"] ++
          (if unused then ["flip-unused-var"] else []) }
    | _, _, _, _, _, _ => Verdict.bad "args"
  | "C04.ter", [table, conn, a, b, c, fa, fb, fc, fo], [fused, sep] =>
    match conn.toNat?, parseArr? a, parseArr? b, parseArr? c,
        parseOptNat? fa, parseOptNat? fb, parseOptNat? fc, parseOptNat? fo with
    | some cn, some A, some B, some C, some fa, some fb, some fc, some fo =>
      let n := numVars A
      let op := op3OfTable table
      if !consistent3 op cn then Verdict.bad "inconsistent table (harness bug)" else
      let model := showOut (fusedTernaryFlipOp A B C op fa fb fc fo)
      let mustPanic := numVars B != n || numVars C != n ||
        [fa, fb, fc, fo].any fun f => match f with | some x => x ≥ n | none => false
      let fail :=
        if mustPanic then
          (if fused == "panic" && sep == "panic" then none else some "flip-bounds:panic-expected")
        else match parseArr? fused, parseArr? sep with
          | some X, some S => firstFail [checkTer n X A B C (conn3 cn) fa fb fc fo,
              if isCanon X then none else some "not-canonical",
              if X == S then none else some "fused-vs-separate"]
          | _, _ => some ("flip-bounds:unexpected-outcome:" ++ fused ++ "/" ++ sep)
      { agree := model == fused, model, fail,
        nontrivial := !mustPanic && (parseArr? fused).any (·.size > 2) && [fa, fb, fc, fo].any Option.isSome,
        tags := ["ter", flipTag [fa, fb, fc, fo], if mustPanic then "panic" else "ok", s!"n{n}"] }
    | _, _, _, _, _, _, _, _ => Verdict.bad "args"
  | _, _, _ => Verdict.bad ("key " ++ key)

end B.Drive.C04
