import BddVerif.Drive.Util
/-! Driver for C04 — stub, to be written. -/
namespace B.Drive.C04
open B B.Drive

def handle (key : String) (_ins _obs : List String) : Verdict := Verdict.bad ("key " ++ key)

end B.Drive.C04
