import BddVerif.Drive.Tables
import BddVerif.Model.Limit
/-!
Driver for C04: replays each observed fused operation through the model (`fusedBinaryFlipOp`,
`fusedTernaryFlipOp`, panics included) and evaluates the property's own predicate on the implementation's
output:
  * truth table: `r(v) = g(v with the output-flip variable inverted)`, `g(u) = op` applied to each operand's
    truth table at `u` with that operand's flip variable inverted (absent flip = identity) — computed on
    truth-table indices by bit inversion, independently of the model;
  * the observed result is canonical (`isCanon`);
  * the observed fused result is identical to the observed result of the separately performed steps;
  * inputs outside the quantifier (different variable counts, a flip variable `≥ num_vars`): no clause; the
    verdict is agreement with the model's outcome (`panic`) only.
-/
namespace B.Drive.C04
open B B.Lim B.Drive

def maxTT : Nat := 12

/-- bit mask on truth-table indices of the inversion of variable `x` (variable 0 = most significant bit) -/
def flipMask (n : Nat) : Option Nat → Nat
  | none => 0
  | some x => if x < n then 1 <<< (n - 1 - x) else 0

def showOut : Outcome Arr → String
  | .ok a => showArr a
  | .err _ => "err"
  | .panic _ => "panic"

def firstFail (xs : List (Option String)) : Option String := xs.findSome? id

def flipTag (fs : List (Option Nat)) : String :=
  let k := (fs.filter Option.isSome).length
  let distinct := (fs.filterMap id).eraseDups.length
  s!"flips{k}d{distinct}"

/-- pseudo-random valuations for diagrams too wide for a full truth table (SplitMix-style mixing of the index) -/
def sampleVal (n k : Nat) : Nat → Bool := fun j =>
  let z := (k + 1) * 0x9E3779B97F4A7C15 % 2 ^ 64
  let z := (z ^^^ (z >>> 29)) * 0xBF58476D1CE4E5B9 % 2 ^ 64
  let z := (z ^^^ (z >>> 32))
  j < n && (z >>> (j % 60)) % 2 == 1

def samples : Nat := 4096

/-- `v` with the bit of the flip variable inverted -/
def invV (f : Option Nat) (v : Nat → Bool) : Nat → Bool :=
  match f with
  | none => v
  | some x => fun j => if j == x then !(v j) else v j

/-- cofactor of pointer `p` on variable `d` -/
def cof (A : Arr) (n p d : Nat) (b : Bool) : Nat :=
  if varOf A n p == d then (let nd := nodeAt A p; if b then nd.high else nd.low) else p

def isF (f : Option Nat) (d : Nat) : Bool := f == some d

/-- exact check for wide operands, independent of the apply model: side-by-side walk of (result, L, R) down to
    terminal triples; on decision variable `d` with value `b` the result follows `b`, the operands follow `b`
    inverted once for the output flip and once more for their own flip -/
def walk2 (X L R : Arr) (n : Nat) (c : Bool → Bool → Bool) (fl fr fo : Option Nat) :
    Nat → Nat → Nat → Nat → Std.HashSet (Nat × Nat × Nat) → Bool × Std.HashSet (Nat × Nat × Nat)
  | 0, _, _, _, seen => (false, seen)
  | fuel + 1, x, l, r, seen =>
    if x < 2 && l < 2 && r < 2 then ((x == 1) == c (l == 1) (r == 1), seen)
    else if seen.contains (x, l, r) then (true, seen)
    else
      let d := min (varOf X n x) (min (varOf L n l) (varOf R n r))
      if d ≥ n then (false, seen) else
      let step := fun (b : Bool) (sn : Std.HashSet (Nat × Nat × Nat)) =>
        let u := b != isF fo d
        walk2 X L R n c fl fr fo fuel (cof X n x d b) (cof L n l d (u != isF fl d)) (cof R n r d (u != isF fr d)) sn
      let r1 := step true (seen.insert (x, l, r))
      if !r1.1 then r1 else step false r1.2

def walk3 (X A B C : Arr) (n : Nat) (c : Bool → Bool → Bool → Bool) (fa fb fc fo : Option Nat) :
    Nat → Nat → Nat → Nat → Nat → Std.HashSet (Nat × Nat × Nat × Nat) → Bool × Std.HashSet (Nat × Nat × Nat × Nat)
  | 0, _, _, _, _, seen => (false, seen)
  | fuel + 1, x, p, q, r, seen =>
    if x < 2 && p < 2 && q < 2 && r < 2 then ((x == 1) == c (p == 1) (q == 1) (r == 1), seen)
    else if seen.contains (x, p, q, r) then (true, seen)
    else
      let d := min (min (varOf X n x) (varOf A n p)) (min (varOf B n q) (varOf C n r))
      if d ≥ n then (false, seen) else
      let step := fun (b : Bool) (sn : Std.HashSet (Nat × Nat × Nat × Nat)) =>
        let u := b != isF fo d
        walk3 X A B C n c fa fb fc fo fuel (cof X n x d b) (cof A n p d (u != isF fa d)) (cof B n q d (u != isF fb d))
          (cof C n r d (u != isF fc d)) sn
      let r1 := step true (seen.insert (x, p, q, r))
      if !r1.1 then r1 else step false r1.2

def checkBin (n : Nat) (X L R : Arr) (c : Bool → Bool → Bool) (fl fr fo : Option Nat) : Option String :=
  if n > maxTT then
    -- wide operands: 4 096 pseudo-random valuations, then the exact walk
    if !((List.range samples).all fun k =>
        let v := sampleVal n k
        let u := invV fo v
        evalArr X v == c (evalArr L (invV fl u)) (evalArr R (invV fr u))) then some "bit-inversion(sampled)"
    else if !(walk2 X L R n c fl fr fo (n + 2) (root X) (root L) (root R) {}).1 then some "bit-inversion(exact-walk)"
    else none
  else
  let tx := ttOf X n; let tl := ttOf L n; let tr := ttOf R n
  let mo := flipMask n fo; let ml := flipMask n fl; let mr := flipMask n fr
  if (List.range (2 ^ n)).all fun i => tx[i]! == c tl[(i ^^^ mo) ^^^ ml]! tr[(i ^^^ mo) ^^^ mr]!
  then none else some "bit-inversion"

def checkTer (n : Nat) (X A B C : Arr) (c : Bool → Bool → Bool → Bool) (fa fb fc fo : Option Nat) : Option String :=
  if n > maxTT then
    if !((List.range samples).all fun k =>
        let v := sampleVal n k
        let u := invV fo v
        evalArr X v == c (evalArr A (invV fa u)) (evalArr B (invV fb u)) (evalArr C (invV fc u))) then
      some "bit-inversion(sampled)"
    else if !(walk3 X A B C n c fa fb fc fo (n + 2) (root X) (root A) (root B) (root C) {}).1 then
      some "bit-inversion(exact-walk)"
    else none
  else
  let tx := ttOf X n; let ta := ttOf A n; let tb := ttOf B n; let tc := ttOf C n
  let mo := flipMask n fo
  if (List.range (2 ^ n)).all fun i =>
    tx[i]! == c ta[(i ^^^ mo) ^^^ flipMask n fa]! tb[(i ^^^ mo) ^^^ flipMask n fb]! tc[(i ^^^ mo) ^^^ flipMask n fc]!
  then none else some "bit-inversion"

/-- does the operand mention variable `x`? -/
def mentions (A : Arr) (f : Option Nat) : Bool :=
  match f with
  | none => false
  | some x => (A.toList.drop 2).any (·.var == x)

def handleBase (key : String) (ins obs : List String) : Verdict :=
  match key, ins, obs with
  | "C04.bin", [table, conn, l, r, fl, fr, fo], [fused, sep] =>
    match conn.toNat?, parseArr? l, parseArr? r, parseOptNat? fl, parseOptNat? fr, parseOptNat? fo with
    | some c, some L, some R, some fl, some fr, some fo =>
      let n := numVars L
      let op := op2OfTable table
      if !consistent2 op c then Verdict.bad "inconsistent table (harness bug)" else
      let model := showOut (fusedBinaryFlipOp L R op fl fr fo)
      -- independent statement of when the Rust code must panic
      let mustPanic := numVars R != n || [fl, fr, fo].any fun f => match f with | some x => x ≥ n | none => false
      -- inputs outside the property's quantifier (flip variable out of range, different variable counts): the
      -- property says nothing, every clause is off; the verdict is agreement with the model outcome only
      let fail :=
        if mustPanic then none
        else match parseArr? fused, parseArr? sep with
          | some X, some S => firstFail [checkBin n X L R (conn2 c) fl fr fo,
              if isCanon X then none else some "not-canonical",
              if X == S then none else some "fused-vs-separate"]
          | _, _ => some ("outcome:" ++ fused ++ "/" ++ sep)
      let unused := [(fl, L), (fr, R)].any (fun p => p.1.isSome && !mentions p.2 p.1) ||
        (fo.isSome && !mentions L fo && !mentions R fo)
      { agree := model == fused, model, fail,
        nontrivial := !mustPanic && (parseArr? fused).any (·.size > 2) && [fl, fr, fo].any Option.isSome,
        tags := ["bin", flipTag [fl, fr, fo], if mustPanic then "outside-quantifier" else "ok", s!"n{n}"] ++
          (if unused then ["flip-unused-var"] else []) ++
          (if L.size > 65536 || R.size > 65536 then ["big-operand"] else []) }
    | _, _, _, _, _, _ => Verdict.bad "args"
  | "C04.ter", [table, conn, a, b, c, fa, fb, fc, fo], [fused, sep] =>
    match conn.toNat?, parseArr? a, parseArr? b, parseArr? c,
        parseOptNat? fa, parseOptNat? fb, parseOptNat? fc, parseOptNat? fo with
    | some cn, some A, some B, some C, some fa, some fb, some fc, some fo =>
      let n := numVars A
      let op := op3OfTable table
      if !consistent3 op cn then Verdict.bad "inconsistent table (harness bug)" else
      let model := showOut (fusedTernaryFlipOp A B C op fa fb fc fo)
      let mustPanic := numVars B != n || numVars C != n ||
        [fa, fb, fc, fo].any fun f => match f with | some x => x ≥ n | none => false
      let fail :=
        if mustPanic then none
        else match parseArr? fused, parseArr? sep with
          | some X, some S => firstFail [checkTer n X A B C (conn3 cn) fa fb fc fo,
              if isCanon X then none else some "not-canonical",
              if X == S then none else some "fused-vs-separate"]
          | _, _ => some ("outcome:" ++ fused ++ "/" ++ sep)
      { agree := model == fused, model, fail,
        nontrivial := !mustPanic && (parseArr? fused).any (·.size > 2) && [fa, fb, fc, fo].any Option.isSome,
        tags := ["ter", flipTag [fa, fb, fc, fo], if mustPanic then "outside-quantifier" else "ok", s!"n{n}"] ++
          (if A.size > 65536 || B.size > 65536 || C.size > 65536 then ["big-operand"] else []) }
    | _, _, _, _, _, _, _, _ => Verdict.bad "args"
  | _, _, _ => Verdict.bad ("key " ++ key)

/-- Aliasing cases: the same function in several operand positions, passed by the harness either as the SAME
    object (`alias`) or as equal clones (`clone`). Values have no identity in the model and in the property, so
    both modes are judged exactly like the plain case with the operand repeated. -/
def handle (key : String) (ins obs0 : List String) : Verdict :=
  -- the runner reports a call that did not return as the single observation `hang`: inside the quantifier that
  -- is a failed clause (`outcome:hang/hang`), outside it is a plain disagreement with the model outcome
  let obs := if obs0 == ["hang"] then ["hang", "hang"] else obs0
  match key, ins with
  | "C04.binA", mode :: table :: conn :: a :: rest =>
    if mode != "alias" && mode != "clone" then Verdict.bad "mode" else
    let v := handleBase "C04.bin" (table :: conn :: a :: a :: rest) obs
    { v with tags := v.tags ++ [mode] }
  | "C04.terA", mode :: pat :: table :: conn :: a :: b :: rest =>
    if mode != "alias" && mode != "clone" then Verdict.bad "mode" else
    match pat.toList.map (fun ch => if ch == 'b' then b else a) with
    | [x, y, z] =>
      let v := handleBase "C04.ter" (table :: conn :: x :: y :: z :: rest) obs
      { v with tags := v.tags ++ [mode, "pat-" ++ pat] }
    | _ => Verdict.bad "pattern"
  | _, _ => handleBase key ins obs

end B.Drive.C04
