import BddVerif.Drive.Util
import BddVerif.Model.Iter
/-!
Driver for C08: replays each observed enumeration through the model (`Model/Iter.lean`) and evaluates
the property's own predicate on the implementation's output, independently of the model:

* valuations: every item has `num_vars` bits, no item twice, every item satisfies the diagram
  (`evalArr`), the number of items is the number of satisfying rows of the truth table (n ≤ 12) or
  the recursive model count (larger n);
* clauses: every valuation is matched by exactly one clause if it satisfies the diagram and by none
  otherwise (n ≤ 12: row by row; larger n: pairwise syntactic disjointness, each clause implies the
  diagram, the clause sizes add up to the model count); `sat_clauses` and `to_dnf` list the same set;
* clause valuations: exactly 2^k items, each extends the clause, none twice (the order is not part of the
  property: it is compared with the model only);
* owned iterators: same sequences, `Bdd::from(iterator)` is the input diagram, also after k items;
* iterator protocol: after j calls of `next()` every provided method (`count`, `last`, `nth`, `size_hint`,
  `collect`, `take`, `fold`, `min`, `max`, `clone`, `skip`, `step_by`) returns what the remaining items of
  the implementation's own fresh `collect()` imply, the iterator is fused, `exact_cardinality` /
  `exact_clause_cardinality` = `count()` + j.
-/
namespace B.Drive.C08
open B B.Drive B.Iter Std

def bigFuel : Nat := 1000000000
def maxTT : Nat := 12

/-! ### text forms -/

/-- `count:item,item,…` -/
def showSeq (items : List String) : String := s!"{items.length}:" ++ ",".intercalate items

def parseSeq? (s : String) : Option (List String) :=
  match s.splitOn ":" with
  | [c, body] =>
    let items := if body == "" then [] else body.splitOn ","
    if c.toNat? == some items.length then some items else none
  | _ => none

/-- mirror of the harness's `fmt_partial` -/
def showPartial (n : Nat) (c : PV) : String :=
  let head := String.ofList ((List.range n).map fun i =>
    match pvGet c i with | some true => '1' | some false => '0' | none => '-')
  let head := if head.isEmpty then "~" else head
  let extra := (toValues c).filter (·.1 ≥ n) |>.map fun (i, b) => s!";{i}={if b then 1 else 0}"
  head ++ String.join extra

def parsePartial (s : String) : PV :=
  if s == "~" then [] else s.toList.map fun ch => if ch == '1' then some true else if ch == '0' then some false else none

def showVals : Outcome (List Valn) → String
  | .ok l => showSeq (l.map showBits)
  | .err _ => "err"
  | .panic _ => "panic"

def showClauses (n : Nat) : Outcome (List PV) → String
  | .ok l => showSeq (l.map (showPartial n))
  | .err _ => "err"
  | .panic _ => "panic"

/-! ### oracles that do not use the enumeration model -/

/-- number of satisfying assignments of the variables `≥ var p`, by the counting recursion -/
def cntFrom (A : Arr) (n : Nat) : Nat → Nat → Nat
  | _, 0 => 0
  | _, 1 => 1
  | 0, _ => 0
  | f + 1, p =>
    let nd := nodeAt A p
    let lv := if nd.low < 2 then n else (nodeAt A nd.low).var
    let hv := if nd.high < 2 then n else (nodeAt A nd.high).var
    cntFrom A n f nd.low * 2 ^ (lv - nd.var - 1) + cntFrom A n f nd.high * 2 ^ (hv - nd.var - 1)

def cardOf (A : Arr) : Nat :=
  let n := numVars A
  let r := root A
  let rv := if r < 2 then n else (nodeAt A r).var
  cntFrom A n (n + 2) r * 2 ^ rv

/-- number of satisfying valuations: truth table for n ≤ 12, counting recursion above -/
def satCount (A : Arr) : Nat :=
  let n := numVars A
  if n ≤ maxTT then ((ttOf A n).toList.filter id).length else cardOf A

/-- every total valuation extending the clause satisfies the diagram (below pointer `p`) -/
def impliesB (A : Arr) (c : List Char) : Nat → Nat → Bool
  | _, 0 => false
  | _, 1 => true
  | 0, _ => false
  | f + 1, p =>
    let nd := nodeAt A p
    match c.getD nd.var '-' with
    | '0' => impliesB A c f nd.low
    | '1' => impliesB A c f nd.high
    | _ => impliesB A c f nd.low && impliesB A c f nd.high

def clauseMatches (c : List Char) (v : Nat → Bool) : Bool :=
  (c.zipIdx).all fun (ch, i) => ch == '-' || (ch == '1') == v i

def clausesDisjoint (c d : List Char) : Bool :=
  (c.zip d).any fun (x, y) => (x == '0' && y == '1') || (x == '1' && y == '0')

def firstFail (xs : List (Option String)) : Option String := xs.findSome? id

def hasDup (xs : List String) : Bool :=
  (xs.foldl (fun (acc : HashSet String × Bool) x => (acc.1.insert x, acc.2 || acc.1.contains x)) ({}, false)).2

/-- predicate on an observed sequence of valuations -/
def checkVals (A : Arr) (items : List String) : Option String :=
  let n := numVars A
  firstFail [
    if items.all (fun s => (parseBits s).length == n && (s == "~" || s.toList.all fun c => c == '0' || c == '1')) then none else some "valuation-length",
    if hasDup items then some "valuation-twice" else none,
    if items.all (fun s => evalArr A (valOfBits (parseBits s))) then none else some "valuation-not-satisfying",
    if items.length == satCount A then none else some "valuation-count"]

/-- predicate on an observed sequence of clauses -/
def checkClauses (A : Arr) (items : List String) : Option String :=
  let n := numVars A
  let cs := items.map fun s => if s == "~" then [] else s.toList
  firstFail [
    if cs.all (fun c => c.length == n && c.all fun ch => ch == '0' || ch == '1' || ch == '-') then none else some "clause-shape",
    if n ≤ maxTT then
      let tt := ttOf A n
      (List.range (2 ^ n)).findSome? fun i =>
        let v := valOfIndex n i
        let k := (cs.filter (clauseMatches · v)).length
        if tt[i]! then (if k == 1 then none else if k == 0 then some "clauses-do-not-cover" else some "clauses-overlap")
        else if k == 0 then none else some "clause-outside-the-function"
    else
      firstFail [
        if cs.all (fun c => impliesB A c (n + 2) (root A)) then none else some "clause-outside-the-function",
        if (List.range cs.length).all (fun i => (List.range i).all fun j => clausesDisjoint (cs.getD i []) (cs.getD j [])) then none else some "clauses-overlap",
        if (cs.map fun c => 2 ^ (c.filter (· == '-')).length).sum == cardOf A then none else some "clauses-do-not-cover"]]

def sameSet (xs ys : List String) : Bool :=
  let a : HashSet String := HashSet.ofList xs
  let b : HashSet String := HashSet.ofList ys
  xs.all b.contains && ys.all a.contains

/-- predicate on the observed valuations of a clause over `n` variables (clause inside the range):
    exactly `2^k` items, each a total valuation of `n` variables extending the clause, none twice — i.e. the
    set of extensions, each once. The ORDER of the items is not part of the property (model agreement only). -/
def checkClauseVals (clause : List Char) (n : Nat) (items : List String) : Option String :=
  let k := ((List.range n).filter fun i => clause.getD i '-' == '-').length
  firstFail [
    if items.length == 2 ^ k then none else some "clause-valuations-count",
    if items.all (fun s => (parseBits s).length == n && clauseMatches clause (valOfBits (parseBits s))) then none else some "clause-valuation-does-not-extend",
    if hasDup items then some "clause-valuation-twice" else none]

/-- replay of a history of `sK=b` / `uK` / `iK=b` / `iK=-` operations on the model's raw vector -/
def parseOp? (op : String) : Option (Nat × Option Bool) :=
  let kind := op.take 1
  let rest := (op.drop 1).toString
  match rest.splitOn "=" with
  | [k] => if kind.toString == "u" then k.toNat?.map (·, none) else none
  | [k, v] =>
    if kind.toString == "s" || kind.toString == "i" then
      match k.toNat? with
      | some k => if v == "1" then some (k, some true) else if v == "0" then some (k, some false)
                  else if v == "-" && kind.toString == "i" then some (k, none) else none
      | none => none
    else none
  | _ => none

def parseHistory? (h : String) : Option (List (Nat × Option Bool)) :=
  if h == "~" then some [] else (h.splitOn ".").mapM parseOp?

/-- `<count>/<clause>><seq>/…` -/
def parseClauseVals? (s : String) : Option (List (String × String)) :=
  match s.splitOn "/" with
  | c :: items =>
    if c.toNat? != some items.length then none else
    items.mapM fun it => match it.splitOn ">" with
      | [cl, sq] => some (cl, sq)
      | _ => none
  | [] => none

def showClauseVals (n : Nat) : Outcome (List PV) → String
  | .ok cs => s!"{cs.length}" ++ String.join (cs.map fun c =>
      "/" ++ showPartial n c ++ ">" ++
        (match cvNew c n with
         | .ok st => showVals (collect cvNext bigFuel st)
         | _ => "panic"))
  | .err _ => "err"
  | .panic _ => "panic"

/-- a panic is a failure of the property only on reduced diagrams (the path iterator refuses
    diagrams with a redundant test by design) -/
def panicFail (A : Arr) (what : String) : Option String :=
  if isReduced A then some ("outcome:" ++ what) else none

/-- every clause's valuations are exactly its extensions; all of them together are the satisfying set -/
def checkClauseValsAll (A : Arr) (field : String) (needUnion : Bool) : Option String :=
  let n := numVars A
  match parseClauseVals? field with
  | none => if needUnion then some ("outcome:" ++ field) else panicFail A field
  | some items =>
    firstFail [
      items.findSome? fun (cl, sq) =>
        let chars := if cl == "~" then [] else cl.toList
        if chars.length != n then some "clause-shape" else
        match parseSeq? sq with
        | some vs => checkClauseVals chars n vs
        | none => some ("outcome:" ++ sq),
      checkVals A (items.flatMap fun (_, sq) => (parseSeq? sq).getD [])]

def sizeTag (A : Arr) : List String :=
  [s!"n{numVars A}", if A.size ≤ 2 then "const" else s!"sz{Nat.log2 (A.size + 1)}"] ++
  (if isCanon A then [] else ["noncanon"]) ++
  (if numVars A ≥ 10 then ["gap"] else [])

/-! ### iterator protocol: what `next()` j times followed by one provided method must return, given the
    full list of items of a fresh iterator -/

def showOptItem : Option String → String
  | some x => "some:" ++ x
  | none => "none"

def stepBy (k : Nat) : Nat → List String → List String
  | _, [] => []
  | 0, x :: xs => x :: stepBy k (k - 1) xs
  | i + 1, _ :: xs => stepBy k i xs

/-- smallest / largest item (items of one sequence have equal length, `0 < 1`: the derived `Ord` of
    `BddValuation`); `min` keeps the first of equal items, `max` the last -/
def minItem (xs : List String) : Option String :=
  xs.foldl (fun acc x => match acc with | none => some x | some m => if x < m then some x else some m) none
def maxItem (xs : List String) : Option String :=
  xs.foldl (fun acc x => match acc with | none => some x | some m => if x < m then some m else some x) none

/-- expected `[result, rest, fused, back]`; `hint` is the expected `size_hint` text (model only) -/
def protoExpect (items : List String) (j : Nat) (method : String) (k : Nat) (hasOrd hasClone : Bool)
    (back : String) : List String :=
  let rem := items.drop j
  let survives (res : String) (rest : List String) := [res, showSeq rest, "NNN", back]
  let consumed (res : String) := [res, "-", "-", "-"]
  match method with
  | "count" => consumed (toString rem.length)
  | "last" => consumed (showOptItem rem.getLast?)
  | "nth" => survives (showOptItem rem[k]?) (rem.drop (k + 1))
  | "size_hint" => survives "0/-" rem
  | "collect" => consumed (showSeq rem)
  | "take" => survives (showSeq (rem.take k)) (rem.drop k)
  | "fold" => consumed (showSeq rem)
  | "min" => consumed (if hasOrd then showOptItem (minItem rem) else "n/a")
  | "max" => consumed (if hasOrd then showOptItem (maxItem rem) else "n/a")
  | "clone" => consumed (if hasClone then showSeq rem ++ "/" ++ showSeq rem else "n/a")
  | "skip" => consumed (showSeq (rem.drop k))
  | "step_by" => consumed (showSeq (stepBy k 0 rem))
  | "next" => survives "-" rem
  | _ => consumed "?"

/-- number of root-to-one paths (for the cross-check with `exact_clause_cardinality`) -/
def cntPaths (A : Arr) : Nat → Nat → Nat
  | _, 0 => 0
  | _, 1 => 1
  | 0, _ => 0
  | f + 1, p => let nd := nodeAt A p; cntPaths A f nd.low + cntPaths A f nd.high

def handle (key : String) (ins obs : List String) : Verdict :=
  match key, ins, obs with
  | "C08.vals", [b], [res] =>
    match parseArr? b with
    | some A =>
      let model := showVals (satList A bigFuel)
      let fail := match parseSeq? res with
        | some items => checkVals A items
        | none => panicFail A res
      { agree := model == res, model, fail, nontrivial := A.size > 2, tags := "vals" :: sizeTag A }
    | none => Verdict.bad "args"
  | "C08.clauses", [b], [it, dnf] =>
    match parseArr? b with
    | some A =>
      let n := numVars A
      let model := showClauses n (pathList A bigFuel) ++ " " ++ showClauses n (toDnf A bigFuel)
      let fail := match parseSeq? it, parseSeq? dnf with
        | some xs, some ys => firstFail [checkClauses A xs, checkClauses A ys,
            if hasDup xs || hasDup ys then some "clause-twice" else none,
            if sameSet xs ys then none else some "sat_clauses-vs-to_dnf"]
        | none, some ys => firstFail [panicFail A it, checkClauses A ys]
        | _, none => some ("outcome:" ++ dnf)
      { agree := model == it ++ " " ++ dnf, model, fail, nontrivial := A.size > 2, tags := "clauses" :: sizeTag A }
    | none => Verdict.bad "args"
  | "C08.owned", [b, k], [vals, cls, backV, backC, takenV, takenC] =>
    match parseArr? b, k.toNat? with
    | some A, some k =>
      let n := numVars A
      let mVals := match ownedSatInit A with
        | .ok st => collect ownedSatNext bigFuel st | .err m => .err m | .panic m => .panic m
      let mCls := match ownedPathInit A with
        | .ok st => collect ownedPathNext bigFuel st | .err m => .err m | .panic m => .panic m
      let (mBackV, mTakenV) := match ownedSatInit A with
        | .ok st => (match takeK ownedSatNext k st with
            | .ok (l, st') => (showArr st'.intoBdd, showVals (.ok l))
            | _ => ("panic", "panic"))
        | _ => ("panic", "panic")
      let (mBackC, mTakenC) := match ownedPathInit A with
        | .ok st => (match takeK ownedPathNext k st with
            | .ok (l, st') => (showArr st'.intoBdd, showClauses n (.ok l))
            | _ => ("panic", "panic"))
        | _ => ("panic", "panic")
      let model := " ".intercalate [showVals mVals, showClauses n mCls, mBackV, mBackC, mTakenV, mTakenC]
      let isPrefix (t all : String) : Bool := match parseSeq? t, parseSeq? all with
        | some t, some all => t == all.take (min k all.length)
        | some _, none => true   -- the full run panicked (non-reduced input): nothing to compare with
        | none, _ => false
      let fail := firstFail [
        match parseSeq? vals with | some xs => checkVals A xs | none => panicFail A vals,
        match parseSeq? cls with | some xs => checkClauses A xs | none => panicFail A cls,
        if backV == "panic" then panicFail A "panic" else if backV == b then none else some "owned-valuations-give-back-another-bdd",
        if backC == "panic" then panicFail A "panic" else if backC == b then none else some "owned-clauses-give-back-another-bdd",
        if takenV == "panic" || isPrefix takenV vals then none else some "owned-prefix",
        if takenC == "panic" || isPrefix takenC cls then none else some "owned-prefix"]
      { agree := model == " ".intercalate obs, model, fail, nontrivial := A.size > 2,
        tags := "owned" :: (if k == 0 then "k0" else if k ≥ 100000 then "kall" else "kmid") :: sizeTag A }
    | _, _ => Verdict.bad "args"
  | "C08.dnfvals", [b], [dnf, it] =>
    match parseArr? b with
    | some A =>
      let n := numVars A
      let model := showClauseVals n (toDnf A bigFuel) ++ " " ++ showClauseVals n (pathList A bigFuel)
      let fail := firstFail [checkClauseValsAll A dnf true, checkClauseValsAll A it false]
      { agree := model == dnf ++ " " ++ it, model, fail, nontrivial := A.size > 2, tags := "dnfvals" :: sizeTag A }
    | none => Verdict.bad "args"
  | "C08.hvals", [hist, n], [res, seen] =>
    match parseHistory? hist, n.toNat? with
    | some ops, some n =>
      let c : PV := ops.foldl (fun c (k, x) => pvSet c k x) []
      let w := max n 6
      let model := (match cvNew c n with
        | .ok st => showVals (collect cvNext bigFuel st)
        | _ => "panic") ++ " " ++ showPartial w c
      -- the clause as the implementation itself reports it through `get_value` (observed field `seen`); that
      -- set/unset/index-assignment leave "the last operation on each variable" is not part of C08: the
      -- model prints its own view, so a difference there is a disagreement, not a failure of this property
      let seenParts := seen.splitOn ";"
      let chars := (seenParts.headD "").toList
      let inside := seenParts.length == 1 && (chars.drop n).all (· == '-')
      let fail := firstFail [
        if !inside then none else
          match parseSeq? res with
          | some items => checkClauseVals chars n items
          | none => some ("outcome:" ++ res)]
      let free := ((List.range n).filter fun i => chars.getD i '-' == '-').length
      { agree := model == res ++ " " ++ seen, model, fail, nontrivial := inside && !ops.isEmpty,
        tags := ["hvals", s!"n{n}", if inside then "inside" else "beyond", s!"free{free}",
          if c.length > n then "longer" else if c.length == n && pvGet c (n - 1) == none && n > 0 then "trailing-unset" else "plain"] }
    | _, _ => Verdict.bad "args"
  | "C08.proto", [kind, src, j, method, k], [all, res, rest, fused, back] =>
    match j.toNat?, k.toNat? with
    | some j, some k =>
      let isBdd := kind == "pc" || kind == "pv" || kind == "oc" || kind == "ov"
      let owned := kind == "oc" || kind == "ov"
      let hasOrd := kind != "pc" && kind != "oc"
      let hasClone := kind == "cv" || kind == "uv" || kind == "ev"
      let modelAll : Option (List String) :=
        if isBdd then
          match parseArr? src with
          | some A =>
            if kind == "pc" || kind == "oc" then
              (match pathList A bigFuel with | .ok l => some (l.map (showPartial (numVars A))) | _ => none)
            else (match satList A bigFuel with | .ok l => some (l.map showBits) | _ => none)
          | none => none
        else if kind == "cv" then
          match src.splitOn "@" with
          | [c, n] => (match n.toNat? with
            | some n => (match cvNew (parsePartial c) n with
              | .ok st => (match collect cvNext bigFuel st with | .ok l => some (l.map showBits) | _ => none)
              | _ => none)
            | none => none)
          | _ => none
        else if kind == "uv" || kind == "bv" then
          match src.toNat? with
          | some n => (match collect cvNext bigFuel (cvUnconstrained n) with | .ok l => some (l.map showBits) | _ => none)
          | none => none
        else some []
      let backText := if owned then src else "-"
      let model := match modelAll with
        | some items => " ".intercalate (showSeq items :: protoExpect items j method k hasOrd hasClone backText)
        | none => "panic panic panic panic panic"
      -- the predicate: what the implementation's own fresh `collect()` implies for the rest of the protocol
      let fail := match parseSeq? all with
        | none => some ("outcome:" ++ all)
        | some items =>
          let exp := protoExpect items j method k hasOrd hasClone backText
          let remN := (items.drop j).length
          firstFail [
            if method == "size_hint" then
              (match res.splitOn "/" with
               | [lo, hi] =>
                 (match lo.toNat? with
                  | some lo => if lo ≤ remN && (hi == "-" || (hi.toNat?.map (fun h => decide (remN ≤ h))).getD false) then none
                               else some "iterator-protocol:size_hint"
                  | none => some ("outcome:" ++ res))
               | _ => some ("outcome:" ++ res))
            else if res == exp.getD 0 "" then none else some ("iterator-protocol:" ++ method),
            if rest == exp.getD 1 "" then none else some ("iterator-protocol:items-after-" ++ method),
            if fused == exp.getD 2 "" then none else some "iterator-protocol:not-fused",
            if back == exp.getD 3 "" then none else some "owned-iterator-gives-back-another-bdd"]
      { agree := model == " ".intercalate obs, model, fail,
        nontrivial := (parseSeq? all).any fun items => items.length ≥ 2 && j ≥ 1,
        tags := ["proto", kind, method, if j == 0 then "j0" else
          (match parseSeq? all with | some items => if j < items.length then "jmid" else if j == items.length then "jN" else "jN+" | none => "j?")] }
    | _, _ => Verdict.bad "args"
  | "C08.card", [b, j], [ec, cv, ecc, cc] =>
    match parseArr? b, j.toNat? with
    | some A, some j =>
      let mv := match satList A bigFuel with | .ok l => some l.length | _ => none
      let mc := match pathList A bigFuel with | .ok l => some l.length | _ => none
      let model := match mv, mc with
        | some v, some c => s!"{v} {v - min j v} {c} {c - min j c}"
        | _, _ => "panic"
      let nV := satCount A
      let nC := if A.size == 1 then 0 else cntPaths A (numVars A + 2) (root A)
      let fail := firstFail [
        if ec.toNat? == some nV then none else some "exact_cardinality",
        if cv.toNat? == some (nV - min j nV) then none else some "iterator-protocol:count(sat_valuations)",
        if ecc.toNat? == some nC then none else some "exact_clause_cardinality",
        if cc.toNat? == some (nC - min j nC) then none else some "iterator-protocol:count(sat_clauses)"]
      { agree := model == " ".intercalate obs, model, fail, nontrivial := A.size > 2 && j ≥ 1,
        tags := "card" :: (if j == 0 then "j0" else "j+") :: sizeTag A }
    | _, _ => Verdict.bad "args"
  | "C08.cvals", [clause, n], [res] =>
    match n.toNat? with
    | some n =>
      let c := parsePartial clause
      let model := match cvNew c n with
        | .ok st => showVals (collect cvNext bigFuel st)
        | _ => "panic"
      let chars := if clause == "~" then [] else clause.toList
      let inside := (chars.drop n).all (· == '-')
      let fail := if !inside then none else
        match parseSeq? res with
        | some items => checkClauseVals chars n items
        | none => some ("outcome:" ++ res)
      let free := ((List.range n).filter fun i => chars.getD i '-' == '-').length
      { agree := model == res, model, fail, nontrivial := inside && free ≥ 1 && free < n,
        tags := ["cvals", s!"n{n}", if inside then "inside" else "beyond", s!"free{free}"] }
    | none => Verdict.bad "args"
  | "C08.uvals", [n], [u, d, e] =>
    match n.toNat? with
    | some n =>
      let mu := showVals (collect cvNext bigFuel (cvUnconstrained n))
      let me := showVals (collect cvNext bigFuel cvEmpty)
      let model := " ".intercalate [mu, mu, me]
      let fail := firstFail [
        match parseSeq? u with | some items => checkClauseVals [] n items | none => some ("outcome:" ++ u),
        match parseSeq? d with | some items => checkClauseVals [] n items | none => some ("outcome:" ++ d),
        if e == "0:" then none else some "empty-iterator-yields"]
      { agree := model == " ".intercalate obs, model, fail, nontrivial := n > 0, tags := ["uvals", s!"n{n}"] }
    | none => Verdict.bad "args"
  | _, _, _ => Verdict.bad ("key " ++ key)

end B.Drive.C08
