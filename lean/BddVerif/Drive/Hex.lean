/-! Hex transport of text fields of the line protocol (names, `.dot` text): `h<utf8 bytes in hex>` for a name,
    `x<…>` for a text, lists joined by `,`, the empty list is `~`. Core only. -/
namespace B.Drive.Hex

def hexVal (c : Char) : Nat :=
  if c.isDigit then c.toNat - 48 else if 'a' ≤ c ∧ c ≤ 'f' then c.toNat - 87 else 0

def hexDigit (d : Nat) : Char := if d < 10 then Char.ofNat (48 + d) else Char.ofNat (87 + d)

def decBytes : List Char → ByteArray → ByteArray
  | a :: b :: rest, acc => decBytes rest (acc.push (UInt8.ofNat (16 * hexVal a + hexVal b)))
  | _, acc => acc

/-- the text after the one-character prefix, decoded as UTF-8 -/
def decText? (pre : Char) (f : String) : Option String :=
  match f.toList with
  | c :: rest => if c == pre then String.fromUTF8? (decBytes rest ByteArray.empty) else none
  | [] => none

def encText (pre : Char) (s : String) : String :=
  String.ofList (pre :: s.toUTF8.toList.flatMap fun b => [hexDigit (b.toNat / 16), hexDigit (b.toNat % 16)])

/-- `h6162` ↦ `"ab"` -/
def decName? (f : String) : Option String := decText? 'h' f
def encName (s : String) : String := encText 'h' s

def decNames? (f : String) : Option (List String) :=
  if f == "~" then some [] else (f.splitOn ",").mapM decName?

def encNames (ns : List String) : String :=
  if ns.isEmpty then "~" else ",".intercalate (ns.map encName)

end B.Drive.Hex
