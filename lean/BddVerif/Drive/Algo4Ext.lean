import BddVerif.Drive.Algo4
/-!
Extension of the translated-model replay (`drv_algo4`) to the line kinds that the property owners added after the four
batches were written. No new generated code: every handler calls functions of `Gen/Algo.lean … Gen/Algo4.lean`.

* aliasing streams (`C03.exqf/allqf/nestl/chain`, `C04.binA/terA`, `C05.limA/dryA/cmpA`): in Lean an operand passed twice
  IS the same value, `alias` and `clone` lines are replayed alike;
* iterator protocol (`C08.proto`, `C08.card`, the count fields of `C09.cnt`): the translated `next` is called j times, the
  provided method of `std::iter::Iterator` (all of them are defined through `next`; none of the library's iterators overrides
  one — an obligation of the regenerated trait-impl table) is then computed from further translated `next` calls;
* `C09.cnt` / `C09.res` (every field but the f64 bits: `cardinality` is not translated), `C11.op/oprand/wide/widerand`,
  `C14.wsm/deep`, `C15.big`, `C16.limit/exactlyB/uptoB`, `C19.rng/names`, `C20.budget`.
* `C12.wtext/wbytes` with the field `rt` (the sink of a successful call read back by the translated plain reader) and
  `C12.rtext/rbytes` with the field `libform` (the harness's `bdd_exact` + own-form test through the translated
  `from_nodes` / `read_as_string` / `to_bytes` / `Display`); `x:`+hex text fields are decoded (`textFieldDecode`).
Everything else goes to `B.Drive.Algo4.handle`.
-/
namespace B.Drive.Algo4Ext
open B B.Drive B.Drive.Algo B.Drive.Algo2 B.Drive.Algo3 B.Drive.Algo4 B.Gen.Algo B.Gen.Algo2 B.Gen.Algo3 B.Gen.Algo4

def showOSt : Outcome String → String
  | .ok s => s
  | .err _ => "err"
  | .panic m => if isFuel m then "panic:fuel" else "panic"

def commaVars (s : String) : Array Nat := if s == "~" then #[] else ((s.splitOn ",").filterMap (·.toNat?)).toArray

/-! ### the iterator protocol -/

/-- an iterator of the library as the translated code sees it: a state and the translated `next` -/
structure It (σ ι : Type) where
  next : σ → Outcome (Option ι × σ)
  fmt : ι → String
  /-- strict order of the items (`Ord`), for `min` / `max` -/
  lt : Option (ι → ι → Bool) := none
  clonable : Bool := false
  /-- `Bdd::from(iterator)` of the owned kinds -/
  back : Option (σ → Outcome String) := none

/-- `for _ in 0..j { it.next(); }` -/
def nextN {σ ι} (I : It σ ι) (s : σ) (j : Nat) : Outcome σ := do
  let mut s := s
  for _ in [0:j] do
    let (_, s') ← I.next s
    s := s'
  return s

/-- `while let Some(x) = it.next()`: the items and the state after the call that returned `None` -/
def drain {σ ι} (I : It σ ι) (s : σ) (limit : Nat) : Outcome (List ι × σ) := do
  let mut s := s
  let mut acc : List ι := []
  let mut fin := false
  for _ in [0:limit + 1] do
    let (x, s') ← I.next s
    s := s'
    match x with
    | none =>
      fin := true
      break
    | some v => acc := v :: acc
  if !fin then Outcome.panic "fuel"
  return (acc.reverse, s)

def seqOf (xs : List String) : String := s!"{xs.length}:" ++ ",".intercalate xs
def optItem {ι} (f : ι → String) : Option ι → String
  | some v => "some:" ++ f v
  | none => "none"

/-- the observation of harness `proto_case` after the fresh `collect`: result, rest, fused, back -/
def protoRun {σ ι} (I : It σ ι) (mk : Outcome σ) (j : Nat) (method : String) (k limit : Nat) : Outcome (List String) := do
  let s0 ← mk
  let s ← nextN I s0 j
  let fmtAll := fun (xs : List ι) => seqOf (xs.map I.fmt)
  -- methods after which the iterator is still there: the remaining items, three more `next()`, the Bdd given back
  let rem := fun (res : String) (s : σ) => (do
    let (rest, s1) ← drain I s limit
    let mut s2 := s1
    let mut fused := ""
    for _ in [0:3] do
      let (x, s') ← I.next s2
      s2 := s'
      fused := fused ++ (if x.isNone then "N" else "S")
    let back ← match I.back with
      | some b => b s2
      | none => pure "-"
    pure [res, fmtAll rest, fused, back] : Outcome (List String))
  let gone := fun (res : String) => (pure [res, "-", "-", "-"] : Outcome (List String))
  if method == "next" then rem "-" s
  else if method == "size_hint" then rem "0/-" s      -- the default `size_hint`: `(0, None)`
  else if method == "nth" then
    -- `advance_by(k)` stops at the first `None`, then one more `next()`
    let mut s := s
    let mut dead := false
    for _ in [0:k] do
      let (x, s') ← I.next s
      s := s'
      if x.isNone then
        dead := true
        break
    if dead then rem "none" s
    else
      let (x, s') ← I.next s
      rem (optItem I.fmt x) s'
  else if method == "take" then
    let mut s := s
    let mut got : List ι := []
    for _ in [0:k] do
      let (x, s') ← I.next s
      s := s'
      match x with
      | none => break
      | some v => got := got ++ [v]
    rem (fmtAll got) s
  else
    let (r, _) ← drain I s limit
    if method == "count" then gone (toString r.length)
    else if method == "last" then gone (optItem I.fmt r.getLast?)
    else if method == "collect" || method == "fold" then gone (fmtAll r)
    else if method == "skip" then gone (fmtAll (r.drop k))
    else if method == "step_by" then
      if k == 0 then Outcome.panic "assertion failed: step != 0"
      else gone (fmtAll ((r.zipIdx.filter fun (_, i) => i % k == 0).map (·.1)))
    else if method == "clone" then
      if I.clonable then gone (fmtAll r ++ "/" ++ fmtAll r) else gone "n/a"
    else if method == "min" then
      match I.lt with
      | some lt => gone (optItem I.fmt (r.foldl (fun acc x => match acc with | none => some x | some m => if lt x m then some x else some m) none))
      | none => gone "n/a"
    else if method == "max" then
      match I.lt with
      -- `Iterator::max` returns the LAST of several maximal elements
      | some lt => gone (optItem I.fmt (r.foldl (fun acc x => match acc with | none => some x | some m => if lt x m then some m else some x) none))
      | none => gone "n/a"
    else Outcome.panic s!"unknown method {method}"

/-- derived `Ord` of `BddValuation(Vec<bool>)`: lexicographic, `false < true`, a proper prefix is smaller -/
def ltVal (a b : Array Bool) : Bool :=
  let rec go : List Bool → List Bool → Bool
    | [], [] => false
    | [], _ :: _ => true
    | _ :: _, [] => false
    | x :: xs, y :: ys => if x == y then go xs ys else (!x && y)
  go a.toList b.toList

def fmtV (v : Array Bool) : String := if v.isEmpty then "~" else showBits v.toList

def protoLine (kind src : String) (j : Nat) (method : String) (k : Nat) : List String :=
  let limit := 200000
  let fin := fun {σ ι : Type} (I : It σ ι) (mk : Outcome σ) =>
    let all := match (do let s ← mk; let (r, _) ← drain I s limit; pure r : Outcome (List ι)) with
      | .ok r => seqOf (r.map I.fmt)
      | .panic m => if isFuel m then "panic:fuel" else "panic"
      | .err _ => "err"
    let r := match protoRun I mk j method k limit with
      | .ok xs => xs
      | .panic m => if isFuel m then ["panic:fuel", "panic:fuel", "panic:fuel", "panic:fuel"] else ["panic", "panic", "panic", "panic"]
      | .err _ => ["err", "err", "err", "err"]
    all :: r
  match kind with
  | "pc" | "pv" | "oc" | "ov" =>
    match parseArr? src with
    | none => ["unparsable"]
    | some A =>
      let n := numVars A
      let f := fuelVals A
      if kind == "pc" then
        fin (I := ({ next := BddPathIterator_next f, fmt := (fmtPartial · n) } : It (Arr × Array Nat) (Array (Option Bool)))) (Bdd_sat_clauses f A)
      else if kind == "pv" then
        fin (I := ({ next := BddSatisfyingValuations_next f, fmt := fmtV, lt := some ltVal } : It _ (Array Bool))) (Bdd_sat_valuations f A)
      else if kind == "oc" then
        fin (I := ({ next := OwnedBddPathIterator_next f, fmt := (fmtPartial · n),
                     back := some fun s => pure (showArr (bdd_path_iterator__Bdd_from s)) } : It (Arr × Array Nat) (Array (Option Bool))))
          (Bdd_into_sat_clauses f A)
      else
        fin (I := ({ next := OwnedBddSatisfyingValuations_next f, fmt := fmtV, lt := some ltVal,
                     back := some fun s => (bdd_satisfying_valuations__Bdd_from f s).map showArr } : It OwnedVals (Array Bool)))
          (Bdd_into_sat_valuations f A)
  | "cv" =>
    match src.splitOn "@" with
    | [c, ns] =>
      let n := ns.toNat?.getD 0
      fin (I := ({ next := ValuationsOfClauseIterator_next, fmt := fmtV, lt := some ltVal, clonable := true } : It _ (Array Bool)))
        (do let clause ← BddPartialValuation_from_values (parsePartial c); ValuationsOfClauseIterator_new clause n)
    | _ => ["unparsable"]
  | "uv" =>
    fin (I := ({ next := ValuationsOfClauseIterator_next, fmt := fmtV, lt := some ltVal, clonable := true } : It _ (Array Bool)))
      (pure (ValuationsOfClauseIterator_new_unconstrained (src.toNat?.getD 0)))
  | "bv" =>
    fin (I := ({ next := BddValuationIterator_next, fmt := fmtV, lt := some ltVal } : It _ (Array Bool)))
      (pure (BddValuationIterator_new (src.toNat?.getD 0)))
  | "ev" =>
    fin (I := ({ next := ValuationsOfClauseIterator_next, fmt := fmtV, lt := some ltVal, clonable := true } : It _ (Array Bool)))
      (pure ValuationsOfClauseIterator_empty)
  | _ => ["unknown-kind"]

/-- `let mut it = …; for _ in 0..j { it.next(); } it.count()` -/
def countAfter {σ ι} (I : It σ ι) (mk : Outcome σ) (j limit : Nat) : Outcome Nat := do
  let s ← nextN I (← mk) j
  let (r, _) ← drain I s limit
  return r.length

def pathsIt (A : Arr) : It (Arr × Array Nat) (Array (Option Bool)) := { next := BddPathIterator_next (fuelVals A), fmt := fun _ => "" }
def valsIt (A : Arr) : It (Arr × (Arr × Array Nat) × (Option (Array Bool) × Array (Option Bool))) (Array Bool) :=
  { next := BddSatisfyingValuations_next (fuelVals A), fmt := fun _ => "" }

/-- harness `js(n)`: `[0, 1, 2, n-1, n]`, entries above n dropped, then `dedup()` (ADJACENT duplicates only) -/
def jsOf (n : Nat) : List Nat :=
  let v := [0, 1, 2, n - 1, n].filter (· ≤ n)
  v.foldl (fun acc x => if acc.getLast? == some x then acc else acc ++ [x]) []

def showSup (A : Arr) : String := match Bdd_support_set A with
  | .ok s => showNats (s.toList.mergeSort (fun x y => decide (x ≤ y)))
  | _ => "panic"
def showSpv (A : Arr) : String := match Bdd_size_per_variable A with
  | .ok m => showPairsSorted m
  | _ => "panic"

/-! ### C11: operations followed by the selectors; wide diagrams (run-length encoded observations) -/
def rle {α} [BEq α] (xs : List α) (sym : α → Char) : String :=
  if xs.isEmpty then "~" else
  let groups := xs.foldl (fun (acc : List (α × Nat)) x => match acc with
    | (y, k) :: rest => if x == y then (y, k + 1) :: rest else (x, 1) :: (y, k) :: rest
    | [] => [(x, 1)]) []
  ",".intercalate (groups.reverse.map fun (y, k) => s!"{sym y}x{k}")

def unrleBools (x : String) : List Bool :=
  if x == "~" then [] else (x.splitOn ",").flatMap fun run => List.replicate ((run.drop 2).toString.toNat?.getD 0) (run.startsWith "1")

def showValRle : Outcome (Option (Array Bool)) → String
  | .ok (some v) => rle v.toList (fun b => if b then '1' else '0')
  | .ok none => "none"
  | .err _ => "err"
  | .panic m => if isFuel m then "panic:fuel" else "panic"

def showClauseRle (n : Nat) : Outcome (Option (Array (Option Bool))) → String
  | .ok (some c) =>
    let cells := (List.range n).map fun i => Gen.Rust.pvalIndex c i
    let extra := (List.range c.size).foldl (fun acc i => if i < n then acc else match Gen.Rust.pvalIndex c i with
      | some b => acc ++ s!";{i}={if b then 1 else 0}" | none => acc) ""
    rle cells (fun o => match o with | some true => '1' | some false => '0' | none => '-') ++ extra
  | .ok none => "none"
  | .err _ => "err"
  | .panic m => if isFuel m then "panic:fuel" else "panic"

/-- harness `observe_sel` through the translated selectors -/
def observeSel (A : Arr) (n : Nat) : List String :=
  let f := fuel1 A
  [showWitness (Bdd_sat_witness A), showVal (Bdd_first_valuation f A), showVal (Bdd_last_valuation f A),
   showVal (Bdd_most_positive_valuation f A), showVal (Bdd_most_negative_valuation f A),
   showClause n (Bdd_first_clause f A), showClause n (Bdd_last_clause f A),
   showClause n (Bdd_most_fixed_clause f A), showClause n (Bdd_most_free_clause f A),
   showClause n (Bdd_necessary_clause A), showOB (Bdd_is_clause f A), showOB (Bdd_is_valuation f A)]

def litsEq (s : String) : Array (Nat × Bool) :=
  if s == "~" then #[] else ((s.splitOn ",").filterMap fun t => match t.splitOn "=" with
    | [x, b] => x.toNat?.map fun x => (x, b == "1")
    | _ => none).toArray

def permOf (s : String) : Std.HashMap Nat Nat :=
  if s == "~" then {} else Gen.Rust.hashMapFromArr ((s.splitOn ",").filterMap fun t => match t.splitOn ">" with
    | [a, b] => match a.toNat?, b.toNat? with
      | some a, some b => some (a, b)
      | _, _ => none
    | _ => none).toArray

/-- harness c11 `apply_op` through the translated functions -/
def applyOp (op : String) (a : List String) : Option (Outcome Arr) :=
  let F := c02Fuel
  let bdd := fun (i : Nat) => (parseArr? (a.getD i "")).getD #[]
  let nat := fun (i : Nat) => (a.getD i "").toNat?.getD 0
  match op with
  | "subst" => some (Bdd_substitute F (bdd 0) (nat 1) (bdd 2))
  | "setnv" => some (do
      let mut b := bdd 0
      for m in (a.getD 1 "").splitOn "," do
        b ← Bdd_set_num_vars b (m.toNat?.getD 0)
      pure b)
  | "rename" => some (Bdd_rename_variable (bdd 0) (nat 1) (nat 2))
  | "renames" => some (Bdd_rename_variables (bdd 0) (permOf (a.getD 1 "~")))
  | "exists" => some (Bdd_exists F (bdd 0) (commaVars (a.getD 1 "~")))
  | "forall" => some (Bdd_for_all F (bdd 0) (commaVars (a.getD 1 "~")))
  | "varexists" => some (Bdd_var_exists F (bdd 0) (nat 1))
  | "varforall" => some (Bdd_var_for_all F (bdd 0) (nat 1))
  | "restrict" => some (Bdd_restrict F (bdd 0) (litsEq (a.getD 1 "~")))
  | "select" => some (Bdd_select F (bdd 0) (litsEq (a.getD 1 "~")))
  | "pick" => some (Bdd_pick F (bdd 0) (commaVars (a.getD 1 "~")))
  | "not" => some (Bdd_not (bdd 0))
  | "and" => some (Bdd_and F (bdd 0) (bdd 1))
  | "or" => some (Bdd_or F (bdd 0) (bdd 1))
  | "xor" => some (Bdd_xor F (bdd 0) (bdd 1))
  | "imp" => some (Bdd_imp F (bdd 0) (bdd 1))
  | "iff" => some (Bdd_iff F (bdd 0) (bdd 1))
  | "and_not" => some (Bdd_and_not F (bdd 0) (bdd 1))
  | "ite" => some (Bdd_if_then_else F (bdd 0) (bdd 1) (bdd 2))
  | "fromval" => some (Bdd_from (BddValuation_new (if a.getD 0 "~" == "~" then #[] else ((a.getD 0 "").toList.map (· == '1')).toArray)))
  | "exactlyk" => some (do BddVariableSet_mk_sat_exactly_k F (← BddVariableSet_new_anonymous (nat 0)) (nat 1) (commaVars (a.getD 2 "~")))
  | "uptok" => some (do BddVariableSet_mk_sat_up_to_k F (← BddVariableSet_new_anonymous (nat 0)) (nat 1) (commaVars (a.getD 2 "~")))
  | _ => none

/-! ### C19 helpers -/
def unesc (x : String) : String :=
  let rec go : Nat → List Char → List Char
    | 0, _ => []
    | _, [] => []
    | f + 1, '%' :: rest =>
      let hex := rest.takeWhile (· != '.')
      let after := (rest.dropWhile (· != '.')).drop 1
      Char.ofNat (hex.foldl (fun acc c => acc * 16 + hexVal c) 0) :: go f after
    | f + 1, c :: rest => c :: go f rest
  String.ofList (go (x.length + 1) x.toList)

def escList (x : String) : List String := if x == "~" then [] else (x.splitOn ",").map unesc

def showOptOA' : Outcome (Option Arr) → String
  | .ok (some A) => showArr A
  | .ok none => "none"
  | .err _ => "err"
  | .panic _ => "panic"

/-- harness `build_set`: 0 `new`, 1 builder `make_variables` + `build`, 2 a clone of a fresh `new`, 3 `From<Vec<String>>` -/
def buildSet (names : List String) (method : Nat) : Outcome VSet :=
  match method % 4 with
  | 1 => do
    let (_, b) ← BddVariableSetBuilder_make_variables BddVariableSetBuilder_new names.toArray
    BddVariableSetBuilder_build b
  | 3 => BddVariableSet_from names.toArray
  | _ => BddVariableSet_new names.toArray

def nameQuery (sa sb : VSet) (q : String) : String :=
  let (kind, arg) := match q.splitOn ":" with
    | k :: rest => (k, ":".intercalate rest)
    | [] => (q, "")
  let F := 1000000
  let parse := fun (x : String) => match BooleanExpression_try_from (8 * x.length + 64) x with
    | .ok (.ok e) => some (some e)
    | .ok (.error _) => some none
    | _ => none
  match kind with
  | "v" => match BddVariableSet_var_by_name sa arg with | some v => toString v | none => "-"
  | "mk" => showOA (BddVariableSet_mk_var_by_name sa arg)
  | "nmk" => showOA (BddVariableSet_mk_not_var_by_name sa arg)
  | "safe" => match parse arg with
    | none => "panic"
    | some none => "parse-err"
    | some (some e) => showOptOA' (BddVariableSet_safe_eval_expression F sa e)
  | "evs" => showOA (BddVariableSet_eval_expression_string F sa arg)
  | "tr" | "trb" =>
    let (src, to) := if kind == "tr" then (sb, sa) else (sa, sb)
    match parse arg with
    | none => "panic"
    | some none => "parse-err"
    | some (some e) => match BddVariableSet_safe_eval_expression F src e with
      | .ok none => "src-none"
      | .ok (some b) => showOptOA' (BddVariableSet_transfer_from to b src)
      | _ => "panic"
  | _ => "unknown-query"

def sortDedup (xs : List String) : List String :=
  (xs.mergeSort (fun a b => decide (a ≤ b))).foldl (fun acc x => if acc.getLast? == some x then acc else acc ++ [x]) []

/-! ### C19.run / C19.rep / C19.hist: the harness' instruction language, executed by the translated functions -/
inductive V19 where
  | B (a : Arr)
  | T (t : String)

def fnv64 (text : String) : Nat :=
  (Gen.Rust.utf8Bytes text).foldl (fun h b => ((h ^^^ b) * 0x100000001b3) % 18446744073709551616) 0xcbf29ce484222325

def dotVars (s : String) : Array Nat := if s == "~" then #[] else ((s.splitOn ".").filterMap (·.toNat?)).toArray
def dotLits (s : String) : Array (Nat × Bool) :=
  if s == "~" then #[] else ((s.splitOn ".").filterMap fun t => match t.splitOn "=" with
    | [x, b] => x.toNat?.map fun x => (x, b == "1")
    | _ => none).toArray
def bitsArr (s : String) : Array Bool := if s == "~" then #[] else (s.toList.map (· == '1')).toArray
def opByName (name : String) : Op2 :=
  match name with
  | "and" => op_function__and | "or" => op_function__or | "xor" => op_function__xor
  | "imp" => op_function__imp | "iff" => op_function__iff | _ => op_function__and_not

def fmtPvPlus (c : Array (Option Bool)) (n : Nat) : String := (fmtPartial c n).replace ";" "+"
def fmtPvList (xs : List (Array (Option Bool))) (n : Nat) : String :=
  let all := xs.map (fmtPvPlus · n)
  s!"{xs.length}#" ++ ".".intercalate (all.take 24) ++ (if all.length > 24 then s!"+h{fnv64 (".".intercalate all)}" else "")
def fmtOptVal19 : Option (Array Bool) → String | some v => fmtV v | none => "none"
def fmtOptPv19 (n : Nat) : Option (Array (Option Bool)) → String | some c => fmtPvPlus c n | none => "none"
def fmtCheck19 : Option (Bool × Nat) → String | some (f, c) => s!"{if f then 1 else 0}.{c}" | none => "none"
def hex2 (b : Nat) : String := String.ofList [hexDigit (b / 16), hexDigit (b % 16)]
def ordName : Ordering → String | .lt => "Less" | .eq => "Equal" | .gt => "Greater"

/-- the panic of `Rust.sub`: an unsigned subtraction below zero. The harness is a release build without overflow checks, where
    the same subtraction WRAPS; the translated functions follow the convention "underflow = panic" (a debug build). -/
def wrapMsg : String := "attempt to subtract with overflow"

/-- a predicted text with `?WRAP` components against an observed text: such a component stands for any VALUE the wrapped
    arithmetic of the release build produced (an ordering or a number), never for `panic` -/
def matchesWrap (g obs : String) : Bool :=
  let gs := g.splitOn "."
  let os := obs.splitOn "."
  gs.length == os.length && (gs.zip os).all fun (a, b) =>
    if a == "?WRAP" then b == "Less" || b == "Equal" || b == "Greater" || (b.length > 0 && b.toList.all Char.isDigit) else a == b

/-- `none` = an instruction that is not replayed (`fcard`: f64); `some none` = `stuck` (an operand reference dangles or is
    not a Bdd); otherwise the outcome of the translated functions -/
def exec19 (vs : VSet) (pool : Array Arr) (locals : Array V19) (ins : String) : Option (Option (Outcome V19)) :=
  let (name, rest) := match ins.splitOn ":" with
    | nm :: r => (nm, ":".intercalate r)
    | [] => (ins, "")
  let a : Array String := if rest.isEmpty then #[] else (rest.splitOn ",").toArray
  let arg := fun (i : Nat) => a.getD i ""
  let nat := fun (i : Nat) => (arg i).toNat?.getD 0
  let ov := fun (i : Nat) => if arg i == "-" then none else (arg i).toNat?
  let bdd : Nat → Option Arr := fun i =>
    let r := arg i
    let k := (r.drop 1).toString.toNat?
    match (r.take 1).toString, k with
    | "p", some k => pool[k]?
    | "l", some k => (match locals[k]? with | some (.B x) => some x | _ => none)
    | _, _ => none
  let F := c02Fuel
  let n := BddVariableSet_num_vars vs
  let B := fun (o : Outcome Arr) => some (some (o.map V19.B))
  let T := fun (o : Outcome String) => some (some (o.map V19.T))
  let OB := fun (o : Outcome (Option Arr)) => some (some (o.map fun x => match x with | some x => V19.B x | none => V19.T "none"))
  -- operands are resolved first: a dangling one makes the instruction `stuck`
  let with1 := fun (i : Nat) (f : Arr → Option (Option (Outcome V19))) => match bdd i with | some x => f x | none => some none
  let with2 := fun (i j : Nat) (f : Arr → Arr → Option (Option (Outcome V19))) => match bdd i, bdd j with | some x, some y => f x y | _, _ => some none
  let toStr := fun (x : Arr) => (do
    let (r, s) ← Bdd_fmt x ""
    if let .error _ := r then Outcome.panic "a Display implementation returned an error unexpectedly"
    pure s : Outcome String)
  let exprText := fun (x : Arr) => (do
    let e ← Bdd_to_boolean_expression x vs
    let (r, s) ← BooleanExpression_fmt F e ""
    if let .error _ := r then Outcome.panic "a Display implementation returned an error unexpectedly"
    pure (e, s) : Outcome (_ × String))
  let dotText := fun (x : Arr) (pr : Bool) => (Bdd_to_dot_string x vs pr).map fun t => s!"dot{fnv64 t}"
  let pathsOf := fun (x : Arr) => (do
    let it ← Bdd_sat_clauses (fuelVals x) x
    let (r, _) ← drain (pathsIt x) it (2 ^ 20)
    pure r : Outcome (List (Array (Option Bool))))
  match name with
  | "and" => with2 0 1 fun x y => B (Bdd_and F x y)
  | "or" => with2 0 1 fun x y => B (Bdd_or F x y)
  | "xor" => with2 0 1 fun x y => B (Bdd_xor F x y)
  | "imp" => with2 0 1 fun x y => B (Bdd_imp F x y)
  | "iff" => with2 0 1 fun x y => B (Bdd_iff F x y)
  | "and_not" => with2 0 1 fun x y => B (Bdd_and_not F x y)
  | "not" => with1 0 fun x => B (Bdd_not x)
  | "ite" => with2 0 1 fun x y => with1 2 fun z => B (Bdd_if_then_else F x y z)
  | "exists" => with1 0 fun x => B (Bdd_exists F x (dotVars (arg 1)))
  | "for_all" => with1 0 fun x => B (Bdd_for_all F x (dotVars (arg 1)))
  | "project" => with1 0 fun x => B (Bdd_project F x (dotVars (arg 1)))
  | "var_exists" => with1 0 fun x => B (Bdd_var_exists F x (nat 1))
  | "var_for_all" => with1 0 fun x => B (Bdd_var_for_all F x (nat 1))
  | "var_project" => with1 0 fun x => B (Bdd_var_project F x (nat 1))
  | "and_exists" => with2 0 1 fun x y => B (Bdd_binary_op_with_exists F x y op_function__and (dotVars (arg 2)))
  | "imp_for_all" => with2 0 1 fun x y => B (Bdd_binary_op_with_for_all F x y op_function__imp (dotVars (arg 2)))
  | "select" => with1 0 fun x => B (Bdd_select F x (dotLits (arg 1)))
  | "restrict" => with1 0 fun x => B (Bdd_restrict F x (dotLits (arg 1)))
  | "var_select" => with1 0 fun x => B (Bdd_var_select F x (nat 1) (arg 2 == "1"))
  | "var_restrict" => with1 0 fun x => B (Bdd_var_restrict F x (nat 1) (arg 2 == "1"))
  | "pick" => with1 0 fun x => B (Bdd_pick F x (dotVars (arg 1)))
  | "var_pick" => with1 0 fun x => B (Bdd_var_pick F x (nat 1))
  | "pick_random" => with1 0 fun x => B ((Bdd_pick_random F x (dotVars (arg 1)) (padFlips (bitsArr (arg 2)).toList)).map (·.1))
  | "substitute" => with2 0 2 fun x y => B (Bdd_substitute F x (nat 1) y)
  | "dnf_rt" => with1 0 fun x => B (do BddVariableSet_mk_dnf F vs (← Bdd_to_dnf F x))
  | "odnf_rt" => with1 0 fun x => B (do BddVariableSet_mk_dnf F vs (← Bdd_to_optimized_dnf F x))
  | "cnf_rt" => with1 0 fun x => B (do BddVariableSet_mk_cnf F vs (← Bdd_to_cnf F x))
  | "str_rt" => with1 0 fun x => B (do Bdd_from_string (← toStr x))
  | "bytes_rt" => with1 0 fun x => B (do let (b, _) ← Bdd_from_bytes F (← Bdd_to_bytes x); pure b)
  | "expr_rt" => with1 0 fun x => OB (do BddVariableSet_safe_eval_expression F vs (← Bdd_to_boolean_expression x vs))
  | "evalstr" => B (BddVariableSet_eval_expression_string F vs (arg 0))
  | "mk_var" => B (BddVariableSet_mk_var_by_name vs s!"x{arg 0}")
  | "mk_exactly_k" => B (BddVariableSet_mk_sat_exactly_k F vs (nat 0) (dotVars (arg 1)))
  | "mk_up_to_k" => B (BddVariableSet_mk_sat_up_to_k F vs (nat 0) (dotVars (arg 1)))
  | "mk_clause" => B (do BddVariableSet_mk_conjunctive_clause vs (← BddPartialValuation_from_values (dotLits (arg 0))))
  | "transfer" => with1 0 fun x => OB (BddVariableSet_transfer_from vs x vs)
  | "of_valuation" => B (Bdd_from (BddValuation_new (bitsArr (arg 0))))
  | "to_dnf" => with1 0 fun x => T ((Bdd_to_dnf F x).map fun cs => fmtPvList cs.toList n)
  | "to_cnf" => with1 0 fun x => T ((Bdd_to_cnf F x).map fun cs => fmtPvList cs.toList n)
  | "to_odnf" => with1 0 fun x => T ((Bdd_to_optimized_dnf F x).map fun cs => fmtPvList cs.toList n)
  | "sat_clauses" => with1 0 fun x => T ((pathsOf x).map fun cs => fmtPvList cs n)
  | "sat_vals" => with1 0 fun x => T (do
      let it ← Bdd_sat_valuations (fuelVals x) x
      let (r, _) ← drain (valsIt x) it (2 ^ 20)
      let all := r.map fmtV
      pure (s!"{all.length}#" ++ ".".intercalate (all.take 24)))
  | "to_string" => with1 0 fun x => T (toStr x)
  | "to_bytes" => with1 0 fun x => T ((Bdd_to_bytes x).map fun bs => String.join (bs.toList.map hex2))
  | "expr_text" => with1 0 fun x => T ((exprText x).map fun r => r.2.replace " " "_")
  | "expr_support" => with1 0 fun x => T (do
      let (e, _) ← exprText x
      let set ← BooleanExpression_support_set F e
      pure ("[" ++ ".".intercalate (set.toList.mergeSort (fun p q => decide (p ≤ q))) ++ "]"))
  | "dot" => with1 0 fun x => T (dotText x (arg 1 == "1"))
  | "card" => with1 0 fun x => T (match Bdd_exact_cardinality F x with
      | .panic m => if m == wrapMsg then .ok "?WRAP" else .panic m
      | o => o.map toString)
  | "clause_card" => with1 0 fun x => T ((Bdd_exact_clause_cardinality F x).map toString)
  | "fcard" => none
  | "witness" => with1 0 fun x => T ((Bdd_sat_witness x).map fmtOptVal19)
  | "first_val" => with1 0 fun x => T ((Bdd_first_valuation F x).map fmtOptVal19)
  | "last_val" => with1 0 fun x => T ((Bdd_last_valuation F x).map fmtOptVal19)
  | "most_pos" => with1 0 fun x => T ((Bdd_most_positive_valuation F x).map fmtOptVal19)
  | "most_neg" => with1 0 fun x => T ((Bdd_most_negative_valuation F x).map fmtOptVal19)
  | "random_val" => with1 0 fun x => T ((Bdd_random_valuation x (padFlips (bitsArr (arg 1)).toList)).map fun r => fmtOptVal19 r.1)
  | "first_clause" => with1 0 fun x => T ((Bdd_first_clause F x).map (fmtOptPv19 n))
  | "last_clause" => with1 0 fun x => T ((Bdd_last_clause F x).map (fmtOptPv19 n))
  | "most_fixed" => with1 0 fun x => T ((Bdd_most_fixed_clause F x).map (fmtOptPv19 n))
  | "most_free" => with1 0 fun x => T ((Bdd_most_free_clause F x).map (fmtOptPv19 n))
  | "necessary" => with1 0 fun x => T ((Bdd_necessary_clause x).map (fmtOptPv19 n))
  | "random_clause" => with1 0 fun x => T ((Bdd_random_clause F x (padFlips (bitsArr (arg 1)).toList)).map fun r => fmtOptPv19 n r.1)
  | "support" => with1 0 fun x => T ((Bdd_support_set x).map fun s => "[" ++ showNats (s.toList.mergeSort (fun p q => decide (p ≤ q))) ++ "]")
  | "size_per_var" => with1 0 fun x => T ((Bdd_size_per_variable x).map fun m =>
      "[" ++ ".".intercalate ((m.toList.mergeSort (fun p q => decide (p.1 ≤ q.1))).map fun (v, c) => s!"{v}={c}") ++ "]")
  | "names" =>
    let asg := (BddVariableSet_variable_name_assignment vs).toList.mergeSort (fun p q => decide (p.1 ≤ q.1))
    let byName := match BddVariableSet_var_by_name vs s!"x{arg 0}" with | some v => toString v | none => "-"
    T (.ok ("[" ++ ".".intercalate (asg.map fun (v, c) => s!"{v}={c}") ++ "]" ++ byName))
  | "props" => with1 0 fun x => T (do
      let c ← Bdd_is_clause F x
      let v ← Bdd_is_valuation F x
      let valid ← Bdd_validate F x
      let bit := fun (b : Bool) => if b then "1" else "0"
      pure s!"sz{Bdd_size x}.{bit (Bdd_is_true x)}{bit (Bdd_is_false x)}{bit c}{bit v}.{match valid with | .ok _ => "valid" | .error _ => "invalid"}")
  | "eval" => with1 0 fun x => T ((Bdd_eval_in F x (bitsArr (arg 1))).map fun b => if b then "1" else "0")
  | "check" => with2 2 3 fun x y => T ((Bdd_check_binary_op F (nat 1) x y (opByName (arg 0))).map fmtCheck19)
  | "check_flip" => with2 2 4 fun x y => T ((Bdd_check_fused_binary_flip_op F (nat 1) (x, ov 3) (y, ov 5) (ov 6) (opByName (arg 0))).map fmtCheck19)
  | "lim" => with2 2 3 fun x y => OB (Bdd_binary_op_with_limit F (nat 1) x y (opByName (arg 0)))
  | "lim_flip" => with2 2 4 fun x y => OB (Bdd_fused_binary_flip_op_with_limit F (nat 1) (x, ov 3) (y, ov 5) (ov 6) (opByName (arg 0)))
  | "flip" => with2 1 3 fun x y => B (Bdd_fused_binary_flip_op F (x, ov 2) (y, ov 4) (ov 5) (opByName (arg 0)))
  | "wbytes" => with1 0 fun x => T (do
      let (r, w) ← Bdd_write_as_bytes x (Gen.Rust.Writer.ofVec #[])
      let _ ← Gen.Rust.unwrapR r
      pure (String.join (w.out.toList.map hex2)))
  | "wstring" => with1 0 fun x => T (do
      let (r, w) ← Bdd_write_as_string x (Gen.Rust.Writer.ofVec #[])
      let _ ← Gen.Rust.unwrapR r
      Gen.Rust.unwrapR (Gen.Rust.stringFromUtf8 w.out))
  | "wdot" => with1 0 fun x => T (do
      let (r, w) ← Bdd_write_as_dot_string x (Gen.Rust.Writer.ofVec #[]) vs (arg 1 == "1")
      let _ ← Gen.Rust.unwrapR r
      let t ← Gen.Rust.unwrapR (Gen.Rust.stringFromUtf8 w.out)
      pure s!"dot{fnv64 t}")
  | "rbytes" => with1 0 fun x => OB (do
      let bs ← Bdd_to_bytes x
      let (r, _) ← Bdd_read_as_bytes F (Gen.Rust.Reader.ofSlice bs)
      pure (match r with | .ok b => some b | .error _ => none))
  | "rstring" => with1 0 fun x => OB (do
      let t ← toStr x
      let (r, _) ← Bdd_read_as_string (Gen.Rust.Reader.ofSlice (Gen.Rust.utf8Bytes t))
      pure (match r with | .ok b => some b | .error _ => none))
  | "cmp" => with2 0 1 fun x y => T (do
      -- `exact_cardinality` of an INVALID diagram (a decision variable ≥ num_vars, e.g. what `mk_dnf` builds from clauses over
      -- foreign variables) subtracts below zero: the translation panics there (as a debug build does), the harness' release
      -- build wraps the u16 and shifts by up to 65535 bits. That component is then not predicted (`?WRAP`); the others are.
      let c : String ← match Bdd_cmp_cardinality F x y with
        | .ok o => pure (ordName o)
        | .panic m => if m == wrapMsg then pure "?WRAP" else Outcome.panic m
        | .err m => Outcome.err m
      pure s!"{ordName (Bdd_cmp_size x y)}.{c}.{ordName (Bdd_cmp_structural x y)}.{if x == y then 1 else 0}")
  | _ => none

/-- instructions whose result is always a text (an observed `|…|` text of theirs is NOT a Bdd operand) -/
def textInstr (name : String) : Bool :=
  ["to_dnf", "to_cnf", "to_odnf", "sat_clauses", "sat_vals", "to_string", "to_bytes", "expr_text", "expr_support", "dot", "card",
   "clause_card", "fcard", "witness", "first_val", "last_val", "most_pos", "most_neg", "random_val", "first_clause", "last_clause",
   "most_fixed", "most_free", "necessary", "random_clause", "support", "size_per_var", "names", "props", "eval", "check", "check_flip",
   "wbytes", "wstring", "wdot", "cmp"].contains name

/-- replays programs (`prog/prog/…`, instructions separated by `;`) against the observed result texts; every instruction works
    on the OBSERVED values of its operands. Returns (replayed, not replayed, disagreements). -/
def replay19 (vs : VSet) (pool : Array Arr) (progs texts : String) : Nat × Nat × Nat × List String := Id.run do
  let mut replayed := 0
  let mut unre := 0
  let mut wraps := 0
  let mut dis : List String := []
  for (prog, text) in (progs.splitOn "/").zip (texts.splitOn "/") do
    if prog == "~" then continue
    let mut locals : Array V19 := #[]
    for (ins, res) in (prog.splitOn ";").zip (text.splitOn ";") do
      let name := (ins.splitOn ":").headD ""
      match exec19 vs pool locals ins with
      | none => unre := unre + 1
      | some r =>
        replayed := replayed + 1
        let g := match r with
          | none => "stuck"
          | some (.ok (.B x)) => showArr x
          | some (.ok (.T t)) => if t.isEmpty then "~" else t
          -- an unsigned subtraction below zero anywhere in the translated function (e.g. `most_positive_valuation` of an
          -- invalid diagram): the release build wraps and goes on — the outcome of this instruction is not predicted
          | some (.panic m) => if isFuel m then "panic:fuel" else if m == wrapMsg then "?WRAPALL" else "panic"
          | some (.err _) => "err"
        if g != res && !(g == "?WRAPALL" && res == "panic") then
          if g == "?WRAPALL" then wraps := wraps + 1
          else if (g.splitOn "?WRAP").length > 1 && matchesWrap g res then wraps := wraps + 1
          else dis := dis ++ [s!"{ins}->{(g.take 120).toString}"]
      -- the local of this instruction, as observed
      locals := locals.push (if textInstr name || res == "panic" || res == "stuck" || res == "none" then .T res
        else match parseArr? res with | some x => .B x | none => .T res)
  return (replayed, unre, wraps, dis)

def verdict19 (n : Nat) (poolS progs texts : String) (tag : String) : Verdict :=
  let pool : Option (List Arr) := if poolS == "~" then some [] else (poolS.splitOn "/").mapM parseArr?
  match pool, BddVariableSet_new ((List.range n).map fun i => s!"x{i}").toArray with
  | some pool, .ok vs =>
    let (rep, unre, wraps, dis) := replay19 vs pool.toArray progs texts
    { agree := dis.isEmpty, model := if dis.isEmpty then "" else "gen:" ++ ";".intercalate (dis.take 3),
      nontrivial := rep > 0, tags := [tag, s!"replayed{rep}", s!"unreplayed{unre}"] ++ (if wraps > 0 then [s!"wrapped{wraps}"] else []) }
  | _, _ => Verdict.bad "args"

/-! ### C20.budget: a sink that accepts `budget` bytes in total, then fails -/
/-- lengths of the complete `write` calls of a run into an accepting sink (`none`: the run panics or is inconsistent) -/
def pieceLens (A : Arr) (names : Array String) (pruned : Bool) : Option (List Nat) := Id.run do
  match runDot A names pruned [] with
  | .ok total =>
    let mut prev := 0
    let mut lens : List Nat := []
    for j in [1:32 * A.size + 64] do
      match afterCalls A names pruned j with
      | .err out =>
        lens := lens ++ [out.size - prev]
        prev := out.size
      | .ok out =>
        if out.size != total.size then return none
        if out.size > prev then lens := lens ++ [out.size - prev]
        return some lens
      | _ => return none
    return none
  | _ => return none

/-- the script under which the scripted writer behaves like the budget sink, given the lengths of the `write_all` buffers -/
def budgetScript (lens : List Nat) (budget : Nat) : List Gen.Rust.IoEv := Id.run do
  let mut left := budget
  let mut sc : List Gen.Rust.IoEv := []
  for l in lens do
    if l ≤ left then
      sc := sc ++ [bigGive]
      left := left - l
    else
      -- a short write of what is left (nothing if the budget ended at a call boundary), then the hard error
      return sc ++ (if left > 0 then [.give left] else []) ++ [.fail]
  return sc ++ [.fail]

/-! ### C12: the fields added by the predicate audit (`rt` of the writer lines, `libform` of the reader lines, `x:` text fields) -/

/-- a text field of the harness (`text_field` in harness/src/serial_io.rs): verbatim, or `x:` + hex of its UTF-8 bytes -/
def textFieldDecode (f : String) : String :=
  if f.startsWith "x:" then
    (match Gen.Rust.stringFromUtf8 (unhexNats (String.ofList (f.toList.drop 2))) with | .ok s => s | .error _ => f)
  else f

/-- `bdd_exact(parse_triples(t))` of the harness through the translated constructors: `from_nodes`, when that refuses the
    translated text reader, and the result must be the given nodes -/
def exact12? (t : String) : Option Arr :=
  match parseArrE? t with
  | none => none
  | some A =>
    let b : Option Arr := match Bdd_from_nodes A with
      | .ok (.ok b) => some b
      | .ok (.error _) => (match Bdd_read_as_string (Gen.Rust.Reader.ofSlice (Gen.Rust.utf8Bytes t)) with
          | .ok (.ok b, _) => some b
          | _ => none)
      | _ => none
    match b with
    | some b => if b == A then some b else none
    | none => none

def stripWs12 (s : String) : List Char := s.toList.filter fun c => !Gen.Rust.charIsWhitespace c

/-- `libform`: is the data the library's own (translated) form of `orig` — bytes exactly, text modulo whitespace -/
def libform12 (isText : Bool) (orig : String) (bytes : Array Nat) : String :=
  if orig == "~" then "-" else
  match exact12? orig with
  | none => "0"
  | some O =>
    if isText then
      (match Gen.Rust.stringFromUtf8 bytes, Bdd_fmt O "" with
       | .ok d, .ok (_, t) => if stripWs12 d == stripWs12 t then "1" else "0"
       | _, _ => "0")
    else (match Bdd_to_bytes O with | .ok bs => if bs == bytes then "1" else "0" | _ => "0")

/-- `rt`: the sink of a successful writer call read back with the translated plain reader -/
def rt12 (isText : Bool) (A : Arr) (sink : Array Nat) : String :=
  if isText then
    (match Bdd_read_as_string (Gen.Rust.Reader.ofSlice sink) with
     | .ok (.ok A', _) => if A' == A then "1" else "0"
     | .ok (.error _, _) => "err"
     | .err _ => "err"
     | .panic _ => "panic")
  else
    (match Bdd_read_as_bytes (fuelBytes sink.size) (Gen.Rust.Reader.ofSlice sink) with
     | .ok (.ok A', _) => if A' == A then "1" else "0"
     | .ok (.error _, _) => "err"
     | .err _ => "err"
     | .panic _ => "panic")

def handle (key : String) (ins obs : List String) : Verdict :=
  match key, ins, obs with
  -- ------------------------------------------------------------------ C12: writer lines with `rt`, reader lines with `libform`
  | "C12.wtext", [b, sc], [kind, out, consumed, _flushes, rt] =>
    match parseArrE? b, parseIoScript? sc with
    | some A, some script =>
      let g := match Bdd_write_as_string A { script := script } with
        | .ok (r, w) => (match r with
          | .ok _ => s!"ok {hexOfNats w.out} {w.sp} {rt12 true A w.out}"
          | .error _ => s!"err {hexOfNats w.out} {w.sp} -")
        | _ => "panic"
      mk g s!"{kind} {out} {consumed} {rt}" none ["write_as_string", "read_as_string(rt)"]
    | _, _ => Verdict.bad "args"
  | "C12.wbytes", [b, sc], [kind, out, consumed, _flushes, rt] =>
    match parseArrE? b, parseIoScript? sc with
    | some A, some script =>
      let g := match Bdd_write_as_bytes A { script := script } with
        | .ok (r, w) => (match r with
          | .ok _ => s!"ok {hexOfNats w.out} {w.sp} {rt12 false A w.out}"
          | .error _ => s!"err {hexOfNats w.out} {w.sp} -")
        | _ => "panic"
      mk g s!"{kind} {out} {consumed} {rt}" none ["write_as_bytes", "read_as_bytes(rt)"]
    | _, _ => Verdict.bad "args"
  | "C12.rtext", [orig, data, sc], [kind, res, consumed, wants, libform] =>
    let v := Algo4.handle key [orig, data, sc] [kind, res, consumed, wants]
    let g := libform12 true orig (unhexNats data)
    { v with agree := v.agree && g == libform, model := v.model ++ " " ++ g, tags := v.tags ++ ["libform"] }
  | "C12.rbytes", [orig, data, sc], [kind, res, consumed, wants, libform] =>
    let v := Algo4.handle key [orig, data, sc] [kind, res, consumed, wants]
    let g := libform12 false orig (unhexNats data)
    { v with agree := v.agree && g == libform, model := v.model ++ " " ++ g, tags := v.tags ++ ["libform"] }
  | "C12.mem", [b], text :: rest =>
    -- the text field is `x:`+hex when the library's text is not printable ASCII without blanks
    Algo4.handle key [b] (textFieldDecode text :: rest)
  -- ------------------------------------------------------------------ C03: aliasing / wide lists
  | "C03.exqf", [_, table, _, l, r, vs1, vs2, _form], [r1, r2] =>
    let k := key
    match parseArr? l, parseArr? r with
    | some L, some R =>
      let op := op2OfTable table
      let g := fun (vs : String) => if k == "C03.exqf" then showOA (Bdd_binary_op_with_exists (fuelN L R) L R op (commaVars vs))
        else showOA (Bdd_binary_op_with_for_all (fuelN L R) L R op (commaVars vs))
      mk s!"{g vs1} {g vs2}" s!"{r1} {r2}" none ["binary_op_with_quantifier", "aliasing"]
    | _, _ => Verdict.bad "args"
  | "C03.allqf", [_, table, _, l, r, vs1, vs2, _form], [r1, r2] =>
    let k := key
    match parseArr? l, parseArr? r with
    | some L, some R =>
      let op := op2OfTable table
      let g := fun (vs : String) => if k == "C03.exqf" then showOA (Bdd_binary_op_with_exists (fuelN L R) L R op (commaVars vs))
        else showOA (Bdd_binary_op_with_for_all (fuelN L R) L R op (commaVars vs))
      mk s!"{g vs1} {g vs2}" s!"{r1} {r2}" none ["binary_op_with_quantifier", "aliasing"]
    | _, _ => Verdict.bad "args"
  | "C03.nestl", [_, table, _, l, r, vs, inner, _, _form], [res] =>
    match parseArr? l, parseArr? r with
    | some L, some R =>
      let set := commaVars vs
      let iop : Op2 := if inner == "or" then op_function__or else if inner == "and" then op_function__and else op2OfTable inner
      mk (showOA (Bdd_binary_op_nested (fuelN L R) L R (fun v => set.contains v) (op2OfTable table) iop)) res none ["binary_op_nested", "aliasing"]
    | _, _ => Verdict.bad "args"
  | "C03.chain", [_, table, _, x, y, vs, _form], [r1, r2, r3] =>
    match parseArr? x, parseArr? y with
    | some X, some Y =>
      let op := op2OfTable table
      let vars := commaVars vs
      let g : String := match Bdd_binary_op_with_exists (fuelN X Y) X Y op vars with
        | .ok R =>
          let f2 := fuelN R X
          let f3 := fuelN R R
          s!"{showArr R} {showOA (Bdd_binary_op_with_for_all f2 R X op vars)} {showOA (Bdd_binary_op_with_exists f3 R R op vars)}"
        | .panic m => if isFuel m then "panic:fuel panic panic" else "panic panic panic"
        | .err _ => "err"
      mk g s!"{r1} {r2} {r3}" none ["binary_op_with_quantifier", "chain"]
    | _, _ => Verdict.bad "args"
  -- ------------------------------------------------------------------ C04: the same operand twice
  | "C04.binA", [_mode, table, _, a, fl, fr, fo], [fused, _] =>
    match parseArr? a, parseOptNat? fl, parseOptNat? fr, parseOptNat? fo with
    | some A, some fl, some fr, some fo =>
      mk (showOA (Bdd_fused_binary_flip_op (fuel2 A A) (A, fl) (A, fr) fo (op2OfTable table))) fused none ["apply_with_flip", "aliasing"]
    | _, _, _, _ => Verdict.bad "args"
  | "C04.terA", [_mode, pat, table, _, a, b, fa, fb, fc, fo], [fused, _] =>
    match parseArr? a, parseArr? b, parseOptNat? fa, parseOptNat? fb, parseOptNat? fc, parseOptNat? fo with
    | some A, some B, some fa, some fb, some fc, some fo =>
      let pick := fun (i : Nat) => if pat.toList.getD i 'a' == 'b' then B else A
      let (X, Y, Z) := (pick 0, pick 1, pick 2)
      mk (showOA (Bdd_fused_ternary_flip_op (fuel3 X Y Z) (X, fa) (Y, fb) (Z, fc) fo (op3OfTable table))) fused none ["ternary_apply", "aliasing"]
    | _, _, _, _, _, _ => Verdict.bad "args"
  -- ------------------------------------------------------------------ C05: the same operand twice
  | "C05.limA", [_mode, table, _, a, fl, fr, fo, limit], [lim, unres] =>
    match parseArr? a, parseOptNat? fl, parseOptNat? fr, parseOptNat? fo, limit.toNat? with
    | some A, some fl, some fr, some fo, some k =>
      let op := op2OfTable table
      let f := fuel2 A A
      let noflip := fl.isNone && fr.isNone && fo.isNone
      let g1 := if noflip then showOOA (Bdd_binary_op_with_limit f k A A op) else showOOA (Bdd_fused_binary_flip_op_with_limit f k (A, fl) (A, fr) fo op)
      let g2 := if noflip then showOA (Bdd_binary_op f A A op) else showOA (Bdd_fused_binary_flip_op f (A, fl) (A, fr) fo op)
      mk s!"{g1} {g2}" s!"{lim} {unres}" none ["apply_with_flip_and_limit", "aliasing"]
    | _, _, _, _, _ => Verdict.bad "args"
  | "C05.dryA", [_mode, table, _, a, fl, fr, fo, limit], [dry, full, unres] =>
    match parseArr? a, parseOptNat? fl, parseOptNat? fr, parseOptNat? fo, limit.toNat? with
    | some A, some fl, some fr, some fo, some k =>
      let op := op2OfTable table
      let f := fuel2 A A
      let big := 18446744073709551615
      let noflip := fl.isNone && fr.isNone && fo.isNone
      let d := fun (lim : Nat) => if noflip then showDry (Bdd_check_binary_op f lim A A op) else showDry (Bdd_check_fused_binary_flip_op f lim (A, fl) (A, fr) fo op)
      let g3 := if noflip then showOA (Bdd_binary_op f A A op) else showOA (Bdd_fused_binary_flip_op f (A, fl) (A, fr) fo op)
      mk s!"{d k} {d big} {g3}" s!"{dry} {full} {unres}" none ["estimated_apply_complexity", "aliasing"]
    | _, _, _, _, _ => Verdict.bad "args"
  | "C05.cmpA", [_mode, a], [res] =>
    match parseArr? a with
    | some A =>
      let g := match Bdd_cmp_implies (fuel2 A A) A A with
        | .ok (some .lt) => "less" | .ok (some .eq) => "equal" | .ok (some .gt) => "greater" | .ok none => "none"
        | .err _ => "err" | .panic m => if isFuel m then "panic:fuel" else "panic"
      mk g res none ["cmp_implies", "aliasing"]
    | none => Verdict.bad "args"
  -- ------------------------------------------------------------------ C08: iterator protocol, counts
  | "C08.proto", [kind, src, js, method, ks], o =>
    mk (" ".intercalate (protoLine kind src (js.toNat?.getD 0) method (ks.toNat?.getD 0))) (" ".intercalate o) none ["iterator_protocol", kind, method]
  | "C08.card", [b, js], [ec, cv, ecc, cc] =>
    match parseArr? b, js.toNat? with
    | some A, some j =>
      let f := fuelVals A
      let lim := 2 ^ (min (numVars A) 18) + 8
      let g := [showON (Bdd_exact_cardinality (fuel1 A) A), showON (countAfter (valsIt A) (Bdd_sat_valuations f A) j lim),
                showON (Bdd_exact_clause_cardinality (fuel1 A) A), showON (countAfter (pathsIt A) (Bdd_sat_clauses f A) j lim)]
      mk (" ".intercalate g) (" ".intercalate [ec, cv, ecc, cc]) none ["exact_cardinality", "iterator_protocol"]
    | _, _ => Verdict.bad "args"
  -- ------------------------------------------------------------------ C09: counts (all fields but the f64 bits)
  | "C09.cnt", [a], [oExact, oClause, _f64, oSup, oSpv, oSize, oPaths, oPc, oVc] =>
    match parseArr? a with
    | some A =>
      let f := fuelVals A
      let lim := 2 ^ 18 + 8
      let np : String := if oPaths == "-" then "-" else showON (countAfter (pathsIt A) (Bdd_sat_clauses f A) 0 lim)
      let pc : String := match np.toNat? with
        | some n => if oPc == "-" then "-" else ",".intercalate ((jsOf n).map fun j => s!"{j}:{showON (countAfter (pathsIt A) (Bdd_sat_clauses f A) j lim)}")
        | none => if oPc == "-" then "-" else "panic"
      let vc : String := if oVc == "-" then "-" else
        match countAfter (valsIt A) (Bdd_sat_valuations f A) 0 lim with
        | .ok n => s!"{n};" ++ ",".intercalate ((jsOf n).map fun j => s!"{j}:{showON (countAfter (valsIt A) (Bdd_sat_valuations f A) j lim)}")
        | .panic m => if isFuel m then "panic:fuel" else "panic"
        | .err _ => "err"
      let g := [showON (Bdd_exact_cardinality (fuel1 A) A), showON (Bdd_exact_clause_cardinality (fuel1 A) A), showSup A, showSpv A,
                toString (Bdd_size A), np, pc, vc]
      mk (" ".intercalate g) (" ".intercalate [oExact, oClause, oSup, oSpv, oSize, oPaths, oPc, oVc])
        (some (" ".intercalate [showON (B.Count.exactCardO A), showON (B.Count.clauseCardO A), showNats (supportSet A), oSpv, oSize, oPaths, oPc, oVc]))
        ["exact_cardinality", "exact_clause_cardinality", "support_set", "size_per_variable", "iterator_counts"]
    | none => Verdict.bad "args"
  | "C09.res", [op, fs, vs, arg], o =>
    match parseArr? fs with
    | some Fd =>
      let F := c02Fuel
      let vars := commaVars vs
      let bits : List Bool := if arg == "~" || arg.startsWith "|" then [] else arg.toList.map (· == '1')
      let lits := (vars.toList.zip bits).toArray
      let G := (parseArr? arg).getD #[]
      let r : Option (Outcome Arr) := match op with
        | "exists" => some (Bdd_exists F Fd vars) | "for_all" => some (Bdd_for_all F Fd vars) | "project" => some (Bdd_project F Fd vars)
        | "var_exists" => some (do Bdd_var_exists F Fd (← Gen.Rust.idx vars 0)) | "var_for_all" => some (do Bdd_var_for_all F Fd (← Gen.Rust.idx vars 0))
        | "restrict" => some (Bdd_restrict F Fd lits)
        | "var_restrict" => some (do Bdd_var_restrict F Fd (← Gen.Rust.idx vars 0) (← Gen.Rust.idx bits.toArray 0))
        | "select" => some (Bdd_select F Fd lits) | "pick" => some (Bdd_pick F Fd vars)
        | "var_pick" => some (do Bdd_var_pick F Fd (← Gen.Rust.idx vars 0))
        | "substitute" => some (do Bdd_substitute F Fd (← Gen.Rust.idx vars 0) G)
        | "and_not" => some (Bdd_and_not F Fd G) | "not" => some (Bdd_not Fd)
        | _ => none
      match r, o with
      | some (.ok R), [ob, oe, oc, _f64, osup, ospv, osize] =>
        let g := [showArr R, showON (Bdd_exact_cardinality (fuel1 R) R), showON (Bdd_exact_clause_cardinality (fuel1 R) R), showSup R, showSpv R, toString (Bdd_size R)]
        mk (" ".intercalate g) (" ".intercalate [ob, oe, oc, osup, ospv, osize]) none ["derived_counts", op]
      | some (.ok R), _ => mk (showArr R) (" ".intercalate o) none ["derived_counts", op]
      | some other, _ => mk (showOA other) (" ".intercalate o) none ["derived_counts", op]
      | none, _ => skip
    | none => Verdict.bad "args"
  -- ------------------------------------------------------------------ C11: selectors on results of operations, wide diagrams
  | "C11.op", ns :: op :: args, o =>
    match applyOp op args with
    | none => skip
    | some (.ok R) => mk (" ".intercalate (showArr R :: observeSel R (ns.toNat?.getD 0))) (" ".intercalate o) none ["selectors_after", op]
    | some (.panic m) => mk (if isFuel m then "panic:fuel" else "oppanic") (" ".intercalate o) none ["selectors_after", op]
    | some (.err _) => mk "err" (" ".intercalate o) none ["selectors_after", op]
  | "C11.oprand", ns :: op :: rest, o =>
    let args := rest.dropLast
    let flips := parseBits (rest.getLast?.getD "~")
    let n := ns.toNat?.getD 0
    match applyOp op args with
    | none => skip
    | some (.ok R) =>
      let g1 := showVal ((Bdd_random_valuation R (padFlips flips)).map (·.1))
      let g2 := showClause n ((Bdd_random_clause (fuel1 R) R (padFlips flips)).map (·.1))
      mk s!"{showArr R} {g1} {g2}" (" ".intercalate o) none ["random_after", op]
    | some (.panic m) => mk (if isFuel m then "panic:fuel" else "oppanic") (" ".intercalate o) none ["random_after", op]
    | some (.err _) => mk "err" (" ".intercalate o) none ["random_after", op]
  | "C11.wide", [b], [w, fv, lv, mp, mn, fc, lc, mfx, mfr, nec, isC, isV] =>
    match parseArr? b with
    | some A =>
      let n := numVars A
      let f := fuel1 A
      let g := [showValRle (Bdd_sat_witness A), showValRle (Bdd_first_valuation f A), showValRle (Bdd_last_valuation f A),
        showValRle (Bdd_most_positive_valuation f A), showValRle (Bdd_most_negative_valuation f A),
        showClauseRle n (Bdd_first_clause f A), showClauseRle n (Bdd_last_clause f A),
        showClauseRle n (Bdd_most_fixed_clause f A), showClauseRle n (Bdd_most_free_clause f A),
        (if nec == "skipped" then nec else showClauseRle n (Bdd_necessary_clause A)),
        showOB (Bdd_is_clause f A), showOB (Bdd_is_valuation f A)]
      mk (" ".intercalate g) (" ".intercalate [w, fv, lv, mp, mn, fc, lc, mfx, mfr, nec, isC, isV]) none ["valuation_utils", "wide"]
    | none => Verdict.bad "args"
  | "C11.widerand", [b, fl], [rv, rc] =>
    match parseArr? b with
    | some A =>
      let flips := unrleBools fl
      let coins := flips ++ List.replicate 4096 false
      let g1 := showValRle ((Bdd_random_valuation A coins).map (·.1))
      let g2 := showClauseRle (numVars A) ((Bdd_random_clause (fuel1 A) A coins).map (·.1))
      mk s!"{g1} {g2}" s!"{rv} {rc}" none ["random_valuation", "random_clause", "wide"]
    | none => Verdict.bad "args"
  -- ------------------------------------------------------------------ C14: `a<c>b`, deep nesting
  | "C14.wsm", [st, cnt], [res] =>
    match st.toNat?, cnt.toNat? with
    | some st, some cnt =>
      let cls (cp : Nat) : Char :=
        if (0xD800 ≤ cp ∧ cp ≤ 0xDFFF) ∨ cp > 0x10FFFF then '-' else
        let c := Char.ofNat cp
        match genParse ['a', c, 'b'] with
        | .panic _ => 'p'
        | .err _ => 'e'
        | .ok (.var n) => if n = ['a'] then 'w' else if n = ['a', c, 'b'] then 'i' else 'o'
        | .ok _ => 'o'
      let g := String.ofList ((List.range cnt).map fun i => cls (st + i))
      let v := mk g res none ["tokenize_group", "whitespace"]
      { v with model := if v.agree then "-" else "class string differs" }
    | _, _ => Verdict.bad "args"
  | "C14.deep", [_shape, depth], text :: _ =>
    -- the observed input text is parsed by the translated parser; a native stack overflow of the Rust process (`crash`)
    -- has no counterpart in the translated code, and very deep inputs would overflow THIS driver's stack: both skipped
    let outcome := " ".intercalate (obs.drop 1)
    if outcome == "crash" || text == "-" || depth.toNat?.getD 0 > 1000 then skip else
    match C14.dec text with
    | some cs => mk (showOut (genParse cs)) outcome none ["parse_boolean_expression", "deep"]
    | none => Verdict.bad "encoding"
  -- ------------------------------------------------------------------ C15.big
  | "C15.big", [_fam, _p, ns, text], [first, _second, third, fourth] =>
    match ns.toNat?, C14.dec text with
    | some n, some cs =>
      match BddVariableSet_new_anonymous n with
      | .ok vars =>
        let F := c02Fuel
        let src := String.ofList cs
        let g1 := BddVariableSet_eval_expression_string F vars src
        let same := fun (o : Outcome Arr) => match o, g1 with
          | .ok X, .ok Y => if X == Y then "=" else showArr X
          | .panic _, .panic _ => "="
          | o, _ => showOA o
        let g3 : Outcome Arr := do
          let parsed ← Gen.Rust.unwrapR (← BooleanExpression_try_from F src)
          let (_, printed) ← BooleanExpression_fmt F parsed ""
          let reparsed ← Gen.Rust.unwrapR (← BooleanExpression_try_from F printed)
          BddVariableSet_eval_expression F vars reparsed
        let g4 : String := if fourth == "skip" then "skip" else match g1 with
          | .ok b => same (do
              let ex ← Bdd_to_boolean_expression b vars
              let (_, printed) ← BooleanExpression_fmt F ex ""
              BddVariableSet_eval_expression_string F vars printed)
          | _ => "panic"
        mk s!"{showOA g1} {same g3} {g4}" s!"{first} {third} {fourth}" none ["eval_expression_string", "big"]
      | _ => Verdict.bad "variable set"
    | _, _ => Verdict.bad "args"
  -- ------------------------------------------------------------------ C16: constructors at the u16 boundary, large thresholds
  | "C16.limit", [ctor, cs], o =>
    match cs.toNat? with
    | some count =>
      let names := (List.range count).map fun i => s!"v{i}"
      let vs : Outcome VSet := match ctor with
        | "new" => BddVariableSet_new names.toArray
        | "builder" => (do
            let mut b := BddVariableSetBuilder_new
            for n in names do
              let (_, b') ← BddVariableSetBuilder_make_variable b n
              b := b'
            BddVariableSetBuilder_build b)
        | _ => BddVariableSet_new_anonymous (count % 65536)
      let g : Outcome (List String) := do
        let vs ← vs
        let last := if ctor == "anon" then s!"x_{count - 1}" else s!"v{count - 1}"
        let nm ← BddVariableSet_name_of vs (count - 1)
        pure [toString (BddVariableSet_num_vars vs), (match BddVariableSet_var_by_name vs last with | some v => toString v | none => "-"), encName nm]
      mk (okOrPanic g) (" ".intercalate o) none ["BddVariableSet_constructors", "limit"]
    | none => Verdict.bad "args"
  | k, [ns, ks, vars], [res] =>
    if k != "C16.exactlyB" && k != "C16.uptoB" then Algo4.handle key ins obs else
    match ns.toNat?, ks.toNat?, Algo.parseVars? vars with
    | some n, some kk, some vs =>
      -- the translated loop really runs k rounds of |vars| applications: replayed when that is affordable here
      if kk * (vs.length + 1) > 330000 then skip else
      let g : Outcome Arr := do
        let set ← anonSet n
        if k == "C16.exactlyB" then BddVariableSet_mk_sat_exactly_k c02Fuel set kk vs.toArray
        else BddVariableSet_mk_sat_up_to_k c02Fuel set kk vs.toArray
      mk (showOA g) res none ["mk_sat_k", "large-k"]
    | _, _, _ => Verdict.bad "args"
  -- ------------------------------------------------------------------ C19: recorded coins, name resolution
  | "C19.run", [ns, pool, progs], texts :: _ => verdict19 (ns.toNat?.getD 0) pool progs texts "sched_run"
  | "C19.rep", [ns, pool, prog, _reps], texts :: _ => verdict19 (ns.toNat?.getD 0) pool prog texts "sched_rep"
  | "C19.hist", [ns, pool, _dist, panel], texts :: _ => verdict19 (ns.toNat?.getD 0) pool panel texts "sched_hist"
  | "C19.rng", [b, vs, _r, _seed, coins], [det, _other] =>
    match parseArr? b with
    | some A =>
      let vars : Array Nat := if vs == "~" then #[] else ((vs.splitOn ".").filterMap (·.toNat?)).toArray
      let fl := parseBits coins
      let n := numVars A
      let F := c02Fuel
      let withDraws := fun {α} (o : Outcome (α × List Bool)) (f : α → String) => match o with
        | .ok (x, rest) => s!"{f x}@{draws fl rest}"
        | .panic m => if isFuel m then "panic:fuel" else "panic@?"
        | .err _ => "err"
      -- the four operations with the recorded-coin generator (`CoinRng`): entries 1, 3, 5, 7 of the observation
      let g0 := withDraws (Bdd_random_valuation A (padFlips fl)) (fun o => match o with | some v => fmtV v | none => "none")
      let g1 := withDraws (Bdd_random_clause (fuel1 A) A (padFlips fl)) (fun o => match o with | some c => (fmtPartial c n).replace ";" "+" | none => "none")
      let g2 := match vars[0]? with
        | some v => withDraws (Bdd_var_pick_random F A v (padFlips fl)) showArr
        | none => "novar@0"
      let g3 := withDraws (Bdd_pick_random F A vars (padFlips fl)) showArr
      let entries := det.splitOn ";"
      let pickOdd := [entries.getD 1 "?", entries.getD 3 "?", entries.getD 5 "?", entries.getD 7 "?"]
      -- a panicking run: the number of draws before the panic is not reproduced
      let norm := fun (g o : String) => if g == "panic@?" && o.startsWith "panic@" then o else g
      mk (";".intercalate (List.zipWith norm [g0, g1, g2, g3] pickOdd)) (";".intercalate pickOdd) none ["random_with_recorded_coins"]
    | none => Verdict.bad "args"
  | "C19.names", [ks, na, nb, qs], [res, _builds] =>
    match ks.toNat? with
    | some k =>
      let namesA := escList na
      let namesB := escList nb
      let queries := if qs == "~" then [] else (qs.splitOn ";").map unesc
      let runs : List (List String) := (List.range k).map fun rep =>
        match buildSet namesA (rep % 4), buildSet namesB ((rep / 4) % 4) with
        | .ok sa, .ok sb => queries.map (nameQuery sa sb)
        | _, _ => queries.map fun _ => "build-panic"
      let g := if queries.isEmpty then "~" else
        ";".intercalate ((List.range queries.length).map fun i => "#".intercalate (sortDedup (runs.map fun r => r.getD i "?")))
      mk g res none ["name_resolution"]
    | none => Verdict.bad "args"
  -- ------------------------------------------------------------------ C20.budget
  | "C20.budget", [b, ns, pr, bs], o =>
    match parseArr? b, bs.toNat? with
    | some A, some budget =>
      match BddVariableSet_new (decNames ns).toArray with
      | .ok vs =>
        let pruned := pr == "1"
        let names := vs.2.1
        let text := Bdd_to_dot_string A vs pruned
        let f1 := match text with | .ok t => "x" ++ hexOfNats' (Gen.Rust.utf8Bytes t) | _ => "panic"
        let same := fun (out : Array Nat) => match text with
          | .ok t => if out == Gen.Rust.utf8Bytes t then "=" else "x" ++ hexOfNats' out
          | _ => "x" ++ hexOfNats' out
        match pieceLens A names pruned with
        | some lens =>
          match runDot A names pruned (budgetScript lens budget) with
          | .ok out => mk s!"{f1} ok {same out}" (" ".intercalate o) none ["write_bdd_as_dot", "budget"]
          | .err out => mk s!"{f1} err {same out}" (" ".intercalate o) none ["write_bdd_as_dot", "budget"]
          | _ => mk s!"{f1} ?" (" ".intercalate o) none ["write_bdd_as_dot", "budget"]
        | none => skip
      | _ => mk "badset" (" ".intercalate o) none ["BddVariableSet_new"]
    | _, _ => Verdict.bad "args"
  | _, _, _ => Algo4.handle key ins obs

end B.Drive.Algo4Ext
