import BddVerif.Drive.Algo4Ext
def main : IO Unit := B.Drive.runLoop B.Drive.Algo4Ext.handle
