import BddVerif.Drive.Algo4
def main : IO Unit := B.Drive.runLoop B.Drive.Algo4.handle
