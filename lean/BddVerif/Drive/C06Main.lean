import BddVerif.Drive.C06
def main : IO Unit := B.Drive.runLoop B.Drive.C06.handle
