import BddVerif.Drive.Util
import BddVerif.Model.VarSet
import BddVerif.Drive.Hex
/-!
Driver for C16: replays each observed case through the model (`Model/VarSet.lean`) and evaluates the
property's own predicate on the implementation's output:
  * variable sets: a list of names is rejected (panic) exactly when it has a duplicate, a name with a character
    of `NOT_IN_VAR_NAME`, or too many names; an accepted set has `num_vars = len`, `variables() = 0 … len-1`,
    `name_of(v) = names[v]`, `variable_names() = names`, `var_by_name(p)` = the position of `p` in the list or
    `None` — computed here with plain list functions, not with the model's hash map;
  * constants, literals, single valuations, thresholds: the truth table of the observed array (by `evalF`) is
    the constant / the literal / the single valuation / "exactly (at most) k of the DISTINCT listed variables are
    true". Canonicity of the arrays is NOT part of this property's statement (it is C02's): a non-canonical array
    with the right function is a model disagreement only.
Clauses follow the statement strictly; outside it (agreement with the model only): the limit on the number of names,
the naming scheme `x_i` of `new_anonymous`, the panic of `mk_*_by_name` on unknown names, foreign variables, canonical
form, and the observation `hang`.
Names travel hex-encoded (`h<utf8 bytes>`).
-/
namespace B.Drive.C16
open B B.Drive B.VS B.Drive.Hex

def showNats (xs : List Nat) : String :=
  if xs.isEmpty then "~" else ",".intercalate (xs.map toString)

def parseNats? (f : String) : Option (List Nat) :=
  if f == "~" then some [] else (f.splitOn ",").mapM String.toNat?

def showOpts (xs : List (Option Nat)) : String :=
  if xs.isEmpty then "~" else ",".intercalate (xs.map showOptNat)

/-! ### model side -/

/-- what the harness prints for a set (`observe_set`) -/
def observeSet (vs : VarSet) (probes : List String) : List String :=
  let vars := vs.variables
  let namesOf := vars.map fun x => match vs.nameOf x with | .ok s => encName s | _ => "panic"
  [toString vs.numVars, showNats vars, if namesOf.isEmpty then "~" else ",".intercalate namesOf,
   encNames vs.variableNames, showOpts (probes.map vs.varByName)]

def showOutcomeArr : Outcome Arr → String
  | .ok A => showArr A
  | .err _ => "err"
  | .panic _ => "panic"

/-! ### predicate side (independent of the model's maps) -/

def forbidden (s : String) : Bool := s.toList.any fun c => Gen.notInVarName.elem c

def hasDup : List String → Bool
  | [] => false
  | s :: rest => rest.elem s || hasDup rest

/-- position of the first occurrence -/
def posOf (names : List String) (p : String) : Option Nat :=
  let i := names.idxOf p
  if i < names.length then some i else none

/-- clauses of "the set maps names to variables bijectively in declaration order" on the observed fields -/
def checkSet (names probes : List String) (fields : List String) : Option String :=
  match fields with
  | [n, vars, namesOf, varNames, byName] =>
    if n != toString names.length then some "num_vars"
    else if vars != showNats (List.range names.length) then some "variables"
    else if namesOf != encNames names then some "name_of"
    else if varNames != encNames names then some "variable_names"
    else if byName != showOpts (probes.map (posOf names)) then some "var_by_name"
    else none
  | _ => some "fields"

/-- "duplicate or forbidden names are rejected" (any panic counts); an accepted list maps bijectively. The limit on
    the number of names is not in the statement: lists longer than `maxLen` are compared with the model only. -/
def checkCtor (names probes : List String) (maxLen : Nat) (obs : List String) (skip : Nat) : Option String :=
  let bad := hasDup names || names.any forbidden
  if names.length > maxLen then none else
  match obs with
  | ["hang"] => none
  | ["panic"] => if bad then none else some "valid-names-rejected"
  | "ok" :: fields =>
    if bad then some "invalid-names-accepted"
    else
      let retOk := skip == 0 || fields.head? == some (showNats (List.range names.length))
      if !retOk then some "returned-variables" else checkSet names probes (fields.drop skip)
  | _ => some "outcome"

def maxTT : Nat := 12

/-- truth table of `A` (over `n` variables) is `f` -/
def ttIs (A : Arr) (n : Nat) (f : (Nat → Bool) → Bool) : Bool :=
  let t := ttOf A n
  (List.range (2 ^ n)).all fun i => t[i]! == f (valOfIndex n i)

/-- sampled valuations for large `n`: all false, all true, the indicator of `x` and its complement, and some
    pseudo-random ones -/
def samples (n x : Nat) : List (Nat → Bool) :=
  [fun _ => false, fun _ => true, fun i => i == x, fun i => i != x,
   fun i => i % 2 == 0, fun i => (i * 7 + x) % 3 == 0, fun i => i < x, fun i => i ≤ x] ++
  -- every number of true variables 0 … n, in three arrangements (thresholds over many variables)
  (if n ≤ 64 then (List.range (n + 1)).flatMap fun j =>
    ([fun i => decide (i < j), fun i => decide (i + j ≥ n), fun i => decide ((i * 7) % n < j)] : List (Nat → Bool)) else [])

def semIs (A : Arr) (n x : Nat) (f : (Nat → Bool) → Bool) : Bool :=
  if numVars A != n then false
  else if n ≤ maxTT then ttIs A n f
  else (samples n x).all fun v => evalArr A v == f v

def checkBdd (field : String) (n x : Nat) (f : (Nat → Bool) → Bool) (what : String) : Option String :=
  match parseArr? field with
  | none => some (what ++ ":outcome:" ++ field)
  | some A =>
    if !semIs A n x f then some (what ++ ":function")
    else none

def firstFail (xs : List (Option String)) : Option String := xs.findSome? id

/-- number of distinct listed variables that are true -/
def countTrue (vars : List Nat) (v : Nat → Bool) : Nat :=
  (vars.eraseDups.filter v).length

def limitNames (ctor : String) (count : Nat) : List String :=
  (List.range count).map fun i => if ctor == "anon" then anonName i else "v" ++ toString i

def handle (key : String) (ins obs : List String) : Verdict :=
  match key, ins with
  | "C16.new", [names, probes] =>
    match decNames? names, decNames? probes with
    | some names, some probes =>
      let model := match VS.new names with
        | .ok vs => " ".intercalate ("ok" :: observeSet vs probes)
        | _ => "panic"
      { agree := model == " ".intercalate obs, model, fail := checkCtor names probes 65533 obs 0,
        nontrivial := names.length ≥ 2,
        tags := ["new", if obs == ["panic"] then "rejected" else "accepted", s!"len{names.length}"] }
    | _, _ => Verdict.bad "args"
  | "C16.builder", [names, probes] | "C16.batch", [names, probes] =>
    match decNames? names, decNames? probes with
    | some names, some probes =>
      let model := match viaBuilder names with
        | .ok (vs, ret) => " ".intercalate ("ok" :: showNats ret :: observeSet vs probes)
        | _ => "panic"
      { agree := model == " ".intercalate obs, model, fail := checkCtor names probes 65534 obs 1,
        nontrivial := names.length ≥ 2,
        tags := ["builder", if obs == ["panic"] then "rejected" else "accepted", s!"len{names.length}"] }
    | _, _ => Verdict.bad "args"
  | "C16.anon", [k, probes] =>
    match k.toNat?, decNames? probes with
    | some k, some probes =>
      let names := (List.range k).map anonName
      let model := match newAnonymous k with
        | .ok vs => " ".intercalate ("ok" :: observeSet vs probes)
        | _ => "panic"
      -- the naming scheme `x_i` is not in the statement: the bijection clauses are evaluated on the names the set
      -- itself reports (pairwise distinct, as many as variables)
      let fail := match obs with
        | ["ok", _, _, _, varNames, _] =>
          match decNames? varNames with
          | some reported =>
            if reported.length != k then some "num_vars" else if hasDup reported then some "names-not-distinct"
            else checkSet reported probes (obs.drop 1)
          | none => some "fields"
        | _ => none
      let _ := names
      { agree := model == " ".intercalate obs, model, fail,
        nontrivial := k ≥ 2, tags := ["anon", s!"len{k}"] }
    | _, _ => Verdict.bad "args"
  | "C16.limit", [ctor, count] =>
    match count.toNat? with
    | some count =>
      let names := limitNames ctor count
      let res : Outcome VarSet := match ctor with
        | "new" => VS.new names
        | "builder" => (viaBuilder names).map (·.1)
        | _ => newAnonymous count
      let last := names.getLastD ""
      let model := match res with
        | .ok vs => " ".intercalate ["ok", toString vs.numVars, showOptNat (vs.varByName last),
            match vs.nameOf (count - 1) with | .ok s => encName s | _ => "panic"]
        | _ => "panic"
      -- predicate: an accepted set is faithful on the probed variable; where the limit lies (and whether a long list
      -- is rejected at all) is not in the statement: compared with the model only
      let fail := match obs with
        | ["ok", n, idx, nm] =>
          if n != toString count then some "num_vars"
          else if ctor == "anon" then none
          else if idx != toString (count - 1) then some "var_by_name"
          else if nm != encName last then some "name_of" else none
        | _ => none
      { agree := model == " ".intercalate obs, model, fail, nontrivial := true, tags := ["limit", ctor] }
    | none => Verdict.bad "args"
  | "C16.const", [n] =>
    match n.toNat?, obs with
    | some n, [t, f] =>
      let model := showArr (B.mkTrue n) ++ " " ++ showArr (B.mkFalse n)
      { agree := model == " ".intercalate obs, model,
        fail := firstFail [checkBdd t n 0 (fun _ => true) "mk_true", checkBdd f n 0 (fun _ => false) "mk_false"],
        nontrivial := false, tags := ["const"] }
    | _, _ => Verdict.bad "args"
  | "C16.lit", [n, x] =>
    match n.toNat?, x.toNat?, obs with
    | some n, some x, [a, b, c, d, e, g] =>
      let byName := match newAnonymous n with
        | .ok vs => [showOutcomeArr (vs.mkVarByName (anonName x)), showOutcomeArr (vs.mkNotVarByName (anonName x))]
        | _ => ["panic", "panic"]
      let model := " ".intercalate ([showArr (B.mkVar n x), showArr (B.mkNotVar n x), showArr (B.mkLiteral n x true),
        showArr (B.mkLiteral n x false)] ++ byName)
      { agree := model == " ".intercalate obs, model,
        fail := firstFail [checkBdd a n x (fun v => v x) "mk_var", checkBdd b n x (fun v => !v x) "mk_not_var",
          checkBdd c n x (fun v => v x) "mk_literal_true", checkBdd d n x (fun v => !v x) "mk_literal_false",
          checkBdd e n x (fun v => v x) "mk_var_by_name", checkBdd g n x (fun v => !v x) "mk_not_var_by_name"],
        nontrivial := true, tags := ["lit", if n ≤ maxTT then "tt" else "sampled"] }
    | _, _, _ => Verdict.bad "args"
  | "C16.litname", [names, name] =>
    match decNames? names, decName? name, obs with
    | some names, some name, [a, b] =>
      let model := match VS.new names with
        | .ok vs => showOutcomeArr (vs.mkVarByName name) ++ " " ++ showOutcomeArr (vs.mkNotVarByName name)
        | _ => "panic panic"
      let valid := !(hasDup names || names.any forbidden)
      let fail := match valid, posOf names name with
        | true, some x => firstFail [checkBdd a names.length x (fun v => v x) "mk_var_by_name",
            checkBdd b names.length x (fun v => !v x) "mk_not_var_by_name"]
        | _, _ => none  -- the panic on an unknown name is documented, but not part of the statement
      { agree := model == " ".intercalate obs, model, fail, nontrivial := (posOf names name).isSome,
        tags := ["litname", if (posOf names name).isSome then "known" else "unknown"] }
    | _, _, _ => Verdict.bad "args"
  | "C16.val", [bits] =>
    match obs with
    | [r] =>
      let bs := parseBits bits
      let n := bs.length
      let model := showArr (valuationBdd bs)
      let agrees : (Nat → Bool) → Bool := fun v => (List.range n).all fun i => v i == bs.getD i false
      let fail := match parseArr? r with
        | none => some ("outcome:" ++ r)
        | some A =>
          if numVars A != n then some "num_vars"
          else if n ≤ maxTT then (if ttIs A n agrees then none else some "function")
          else
            let w := valOfBits bs
            if !evalArr A w then some "function:own-valuation"
            else if (List.range n).any fun j => evalArr A (fun i => if i == j then !w i else w i) then some "function:neighbour"
            else if evalArr A (fun i => !w i) then some "function:complement" else none
      { agree := model == r, model, fail, nontrivial := n ≥ 1, tags := ["val", if n ≤ maxTT then "tt" else "sampled"] }
    | _ => Verdict.bad "args"
  | "C16.exactly", [n, k, vars] | "C16.upto", [n, k, vars]
  | "C16.exactlyB", [n, k, vars] | "C16.uptoB", [n, k, vars] =>
    match n.toNat?, k.toNat?, parseNats? vars, obs with
    | some n, some k, some vars, [r] =>
      let exact := key == "C16.exactly" || key == "C16.exactlyB"
      -- `k` rounds beyond `len + 1` change nothing (theorem `Props.C16.sat_k_beyond_length`): replay `min k (len+1)`
      let kk := min k (vars.length + 1)
      let model := showOutcomeArr (if exact then mkSatExactlyK n kk vars else mkSatUpToK n kk vars)
      let inRange := vars.all (· < n)
      let spec : (Nat → Bool) → Bool := fun v => if exact then countTrue vars v == k else countTrue vars v ≤ k
      let fail := if !inRange then none else checkBdd r n 0 spec (if exact then "exactly" else "up_to")
      { agree := model == r, model, fail,
        nontrivial := inRange && vars.length ≥ 1,
        tags := [if exact then "exactly" else "upto",
          if !inRange then "out-of-range" else if hasDup (vars.map toString) then "dup" else "nodup",
          if k ≥ 65536 then "k>=2^16" else if k > vars.eraseDups.length then "k>len" else if k == 0 then "k=0" else "k-mid"] }
    | _, _, _, _ => Verdict.bad "args"
  | _, _ => Verdict.bad ("key " ++ key)

end B.Drive.C16
