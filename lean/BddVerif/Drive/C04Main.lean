import BddVerif.Drive.C04
def main : IO Unit := B.Drive.runLoop B.Drive.C04.handle
