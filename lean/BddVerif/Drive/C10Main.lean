import BddVerif.Drive.C10
def main : IO Unit := B.Drive.runLoop B.Drive.C10.handle
