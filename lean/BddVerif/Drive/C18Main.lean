import BddVerif.Drive.C18
def main : IO Unit := B.Drive.runLoop B.Drive.C18.handle
