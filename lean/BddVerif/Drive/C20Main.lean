import BddVerif.Drive.C20
def main : IO Unit := B.Drive.runLoop B.Drive.C20.handle
