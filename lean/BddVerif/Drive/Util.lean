import BddVerif.Model.Apply
import Std.Data.HashSet
/-!
Line-protocol plumbing shared by all per-property drivers: parsing of the harness's text forms,
truth tables by the model's own evaluator, the executable canonicity test, the verdict type and
the read-eval-print loop. Core + Std only.
-/
namespace B.Drive
open Std

def parseNat? (s : String) : Option Nat := s.toNat?

/-- `|v,l,h|v,l,h|…|` -/
def parseArr? (s : String) : Option Arr := Id.run do
  let segs := (s.splitOn "|").filter (· ≠ "")
  let mut acc : Arr := #[]
  for seg in segs do
    match seg.splitOn "," with
    | [a, b, c] =>
      match a.toNat?, b.toNat?, c.toNat? with
      | some a, some b, some c => acc := acc.push ⟨a, b, c⟩
      | _, _, _ => return none
    | _ => return none
  if acc.size = 0 then return none
  return some acc

def showArr (A : Arr) : String :=
  "|" ++ String.join (A.toList.map fun nd => s!"{nd.var},{nd.low},{nd.high}|")

def parseOptNat? (s : String) : Option (Option Nat) :=
  if s == "-" then some none else (s.toNat?).map some

def showOptNat : Option Nat → String
  | none => "-"
  | some x => toString x

/-- bit string over `0`/`1` (`~` is the empty string) -/
def parseBits (s : String) : List Bool :=
  if s == "~" then [] else s.toList.map (· == '1')

def showBits (bs : List Bool) : String :=
  if bs.isEmpty then "~" else String.ofList (bs.map fun b => if b then '1' else '0')

/-- valuation number `i` over `n` variables: variable 0 is the most significant bit -/
def valOfIndex (n i : Nat) : Nat → Bool := fun k => (i >>> (n - 1 - k)) % 2 == 1

def valOfBits (bs : List Bool) : Nat → Bool := fun k => bs.getD k false

/-- the model's evaluator on a whole array (a one-element array is the constant false) -/
def evalArr (A : Arr) (v : Nat → Bool) : Bool :=
  evalF A v (numVars A + 1) (root A)

/-- truth table of an array over `n` variables, by `evalF` -/
def ttOf (A : Arr) (n : Nat) : Array Bool :=
  (Array.range (2 ^ n)).map fun i => evalArr A (valOfIndex n i)

/-- structural part of canonicity: terminals exact, every decision node has a variable below `n`,
    children with smaller indices and larger variables, distinct children, no duplicate node -/
def isReduced (A : Arr) : Bool := Id.run do
  let n := numVars A
  if A.size = 0 then return false
  if A[0]! != ⟨n, 0, 0⟩ then return false
  if A.size = 1 then return true
  if A[1]! != ⟨n, 1, 1⟩ then return false
  let mut seen : HashSet Node := {}
  for i in [2:A.size] do
    let nd := A[i]!
    if !(nd.var < n && nd.low < i && nd.high < i && nd.low != nd.high) then return false
    if !(nd.var < (A[nd.low]!).var && nd.var < (A[nd.high]!).var) then return false
    if seen.contains nd then return false
    seen := seen.insert nd
  return true

/-- DFS post-order taking the high child first, from pointer `p`; `next` is the index the next
    finished node must have. Returns `none` if some node is finished out of place. -/
def postOrder (A : Arr) : Nat → Nat → (Array Bool × Nat) → Option (Array Bool × Nat)
  | 0, _, st => some st
  | fuel + 1, p, st =>
    if p < 2 then some st
    else if st.1.getD p true then some st
    else
      let nd := A[p]?.getD default
      match postOrder A fuel nd.high st with
      | none => none
      | some st1 =>
        match postOrder A fuel nd.low st1 with
        | none => none
        | some st2 =>
          if p = st2.2 then some (st2.1.setIfInBounds p true, st2.2 + 1) else none

/-- executable canonicity test: reduced, and the high-first post-order numbering from the root is
    the identity on all decision nodes (so there is no unreachable node either) -/
def isCanon (A : Arr) : Bool :=
  isReduced A &&
  (A.size ≤ 2 ||
    match postOrder A (numVars A + 2) (root A) (Array.replicate A.size false, 2) with
    | some st => st.2 == A.size
    | none => false)

/-- what the driver reports for one case -/
structure Verdict where
  /-- model output equals the implementation's observed output -/
  agree : Bool
  /-- the model's output, printed on disagreement -/
  model : String
  /-- failed clause of the property predicate evaluated on the OBSERVED output; `none` = holds -/
  fail : Option String := none
  /-- the case is non-trivial by the property's rule -/
  nontrivial : Bool := true
  /-- feature tags for the input-distribution histogram -/
  tags : List String := []

def Verdict.bad (why : String) : Verdict := { agree := false, model := "unparsable:" ++ why, fail := none, nontrivial := false }

def Verdict.render (v : Verdict) : String :=
  let st := match v.agree, v.fail with
    | true, none => "OK"
    | false, none => "DIS"
    | true, some _ => "FAIL"
    | false, some _ => "DISFAIL"
  let nt := if v.nontrivial then "1" else "0"
  let tg := if v.tags.isEmpty then "-" else ",".intercalate v.tags
  let extra := (if v.agree then "" else " model=" ++ v.model) ++
    (match v.fail with | some c => " clause=" ++ c | none => "")
  s!"{st} {nt} {tg}{extra}"

/-- split a case line into key, inputs, observed -/
def splitCase (line : String) : String × List String × List String :=
  match line.splitOn " =>" with
  | [lhs, rhs] =>
    let l := lhs.splitOn " "
    let r := (rhs.splitOn " ").filter (· ≠ "")
    (l.headD "", l.tail, r)
  | _ => ("", [], [])

partial def loop (h : IO.FS.Stream) (out : IO.FS.Stream)
    (handle : String → List String → List String → Verdict) : IO Unit := do
  let line ← h.getLine
  if line.isEmpty then return ()
  let (key, ins, obs) := splitCase line.trimAscii.toString
  let v := if key == "" then Verdict.bad "line" else handle key ins obs
  out.putStrLn v.render
  loop h out handle

def runLoop (handle : String → List String → List String → Verdict) : IO Unit := do
  let stdin ← IO.getStdin
  let stdout ← IO.getStdout
  loop stdin stdout handle
  stdout.flush

end B.Drive
