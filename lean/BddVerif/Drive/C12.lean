import BddVerif.Drive.Util
import BddVerif.Model.SerialStd
import BddVerif.Core.ApplyCanon
/-!
Driver for C12 (serialisation round trips under any I/O chunking). For every observed case the model
of `Model/Serial.lean` is run on the same inputs (`agree`), and the property's own clauses are evaluated on
the OBSERVED output with encoders/decoders written here independently of the model (`fail`):

FAIL clauses are exactly the clauses of the statement of C12:
* round trips: what `to_string`/`to_bytes`/`to_nodes` produced reads back equal to `b`; what a writer put into the
  sink under a faultless script (no `e`, no `g0`: partial writes, interruptions) reads back equal to `b`; data that IS the
  library's own serialisation of `b` (text: modulo whitespace, i.e. whitespace tolerance of the reader) reads back equal to
  `b` under every faultless reader script;
* exactly 10 bytes per node in the binary form;
* a consumed hard error ⇒ outcome `err`; the outcome is never `panic`.
Everything else is AGREEMENT ONLY (a difference is a `DIS`, i.e. "the model no longer follows the code", never a `FAIL`):
the exact text layout and byte layout, how the data is cut into `read`/`write` calls (events consumed, buffer sizes asked),
the partial content of the sink after an error, the decimal grammar of `str::parse`, the White_Space table, a diagram the
library's constructors refuse, a panic of the harness while constructing a value.
-/
namespace B.Drive.C12
open B B.Drive B.Serial

/-! ### line-protocol helpers (shared with the C13 driver) -/

def hexVal (c : Char) : Nat :=
  if '0' ≤ c ∧ c ≤ '9' then c.toNat - 48 else if 'a' ≤ c ∧ c ≤ 'f' then c.toNat - 87 else 0

def unhexL : List Char → List UInt8
  | a :: b :: rest => (hexVal a * 16 + hexVal b).toUInt8 :: unhexL rest
  | _ => []

def unhex (s : String) : List UInt8 := if s == "~" then [] else unhexL s.toList

def hexDigit (n : Nat) : Char := if n < 10 then Char.ofNat (48 + n) else Char.ofNat (87 + n)

def hexOf (bs : List UInt8) : String :=
  if bs.isEmpty then "~" else String.ofList (bs.flatMap fun b => [hexDigit (b.toNat / 16), hexDigit (b.toNat % 16)])

/-- a text field of the harness: verbatim, or `x:` + hex when it contains blanks (`text_field` in serial_io.rs) -/
def textFieldBytes (f : String) : List UInt8 :=
  if f.startsWith "x:" then unhexL (f.toList.drop 2) else f.toList.map fun c => c.toNat.toUInt8

def parseEv? (t : String) : Option Ev :=
  if t == "i" then some .interrupted else if t == "e" then some .fail
  else match t.toList with
    | 'g' :: ds => (String.ofList ds).toNat?.map Ev.give
    | _ => none

def parseScript? (s : String) : Option (List Ev) :=
  if s == "~" then some [] else (s.splitOn ".").mapM parseEv?

def parseNats (s : String) : List Nat :=
  if s == "~" then [] else (s.splitOn ",").filterMap (·.toNat?)

def showNats (l : List Nat) : String := if l.isEmpty then "~" else ",".intercalate (l.map toString)

/-- like `parseArr?` but the empty array `|` is a value too (the text reader produces it) -/
def parseArrE? (s : String) : Option Arr :=
  if s == "|" then some #[] else parseArr? s

def showArrE (A : Arr) : String := showArr A

def kindOf {α} (o : Outcome α) : String := o.kind

/-! ### independent encoders for the predicate -/

def leI (w x : Nat) : List UInt8 := (List.range w).map fun i => ((x >>> (8 * i)) % 256).toUInt8

def expBytes (A : Arr) : List UInt8 := A.toList.flatMap fun nd => leI 2 nd.var ++ leI 4 nd.low ++ leI 4 nd.high

def expTextBytes (A : Arr) : List UInt8 := (showArr A).toList.map fun c => c.toNat.toUInt8

/-- ASCII whitespace removed: the text form is compared modulo whitespace (the property lets the writer lay the text
    out as it likes as long as the reader, which ignores whitespace, gets the same diagram back) -/
def stripWs (bs : List UInt8) : List UInt8 := bs.filter fun b => !(b.toNat == 0x20 || (9 ≤ b.toNat && b.toNat ≤ 13))

def isFault : Ev → Bool
  | .fail => true
  | .give 0 => true
  | _ => false

def faultless (sc : List Ev) : Bool := !sc.any isFault

def isPrefix : List UInt8 → List UInt8 → Bool
  | [], _ => true
  | _ :: _, [] => false
  | a :: as, b :: bs => a == b && isPrefix as bs

def firstFail (xs : List (Option String)) : Option String := xs.findSome? id

def req (b : Bool) (clause : String) : Option String := if b then none else some clause

def scriptTags (sc : List Ev) : List String :=
  (if sc.isEmpty then ["plain"] else ["chunked"]) ++ (if sc.contains .interrupted then ["intr"] else []) ++
  (if sc.contains .fail then ["fail"] else []) ++ (if sc.contains (.give 0) then ["give0"] else [])

def sizeTag (A : Arr) : String :=
  if A.size > 65536 then "nodes>65536" else if A.size > 256 then "nodes>256" else if A.size > 2 then "nodes>2" else "const"

def varTag (A : Arr) : List String := if A.any (fun nd => nd.var ≥ 256) then ["var16"] else []

/-- the sequence of buffer sizes `read_exact` must ask for (tie of the byte reader's call pattern) -/
def exactWants (recLen : Nat) : Nat → Reader → Nat → List Nat → List Nat
  | 0, _, _, acc => acc.reverse
  | fuel + 1, r, need, acc =>
    let (res, r') := r.read need
    match res with
    | .bytes bs =>
      if bs.length = 0 then (need :: acc).reverse
      else if need - bs.length = 0 then exactWants recLen fuel r' recLen (need :: acc)
      else exactWants recLen fuel r' (need - bs.length) (need :: acc)
    | .interrupted => exactWants recLen fuel r' need (need :: acc)
    | .failed => (need :: acc).reverse

def independentDigits (s : List Char) (max : Nat) : Option Nat :=
  let body := match s with | '+' :: rest => rest | _ => s
  if body.isEmpty then none
  else if !body.all (fun c => '0' ≤ c ∧ c ≤ '9') then none
  else
    let v := body.foldl (fun a c => a * 10 + (c.toNat - 48)) 0
    if v ≤ max then some v else none


/-! ### big diagrams built from parameters (the harness builds the same arrays: `family_triples` in c12.rs) -/

/-- parity of `n` variables (2n + 1 nodes) preceded by `e` unreachable copies of `(n-1, 0, 1)` -/
def parityArr (n e : Nat) : Arr := Id.run do
  let mut t : Arr := #[⟨n, 0, 0⟩, ⟨n, 1, 1⟩]
  for _ in [0:e] do t := t.push ⟨n - 1, 0, 1⟩
  let mut ev := 0
  let mut od := 0
  for j in [0:n] do
    let i := n - 1 - j
    let (ne, no) : Node × Node := if i == n - 1 then (⟨i, 0, 1⟩, ⟨i, 1, 0⟩) else (⟨i, ev, od⟩, ⟨i, od, ev⟩)
    t := t.push ne
    ev := t.size - 1
    if i > 0 then
      t := t.push no
      od := t.size - 1
  return t

/-- "exactly k of n" as a layered counter diagram -/
def counterArr (n k : Nat) : Arr := Id.run do
  let mut t : Arr := #[⟨n, 0, 0⟩, ⟨n, 1, 1⟩]
  let mut prev : Array Nat := Array.replicate (k + 2) 0
  for j in [0:n] do
    let i := n - 1 - j
    let mut cur : Array Nat := Array.replicate (k + 2) 0
    for c in [0:min k i + 1] do
      if k - c > n - i then continue
      let child := fun (c2 : Nat) =>
        if c2 > k || k - c2 > n - (i + 1) then 0
        else if i + 1 == n then (if c2 == k then 1 else 0) else prev[c2]!
      t := t.push ⟨i, child c, child (c + 1)⟩
      cur := cur.set! c (t.size - 1)
    prev := cur
  return t

def familyArr (fam : String) (p1 p2 : Nat) : Option Arr :=
  if fam == "par" then (if p1 ≥ 1 then some (parityArr p1 p2) else none)
  else if fam == "cnt" then some (counterArr p1 p2) else none

/-- FNV-1a, 64 bit -/
def fnv (bs : List UInt8) : UInt64 :=
  bs.foldl (fun h b => (h ^^^ b.toUInt64) * 0x100000001b3) 0xcbf29ce484222325

def hex64 (x : UInt64) : String :=
  String.ofList ((List.range 16).map fun i => hexDigit ((x.toNat >>> (4 * (15 - i))) % 16))

def writtenField (kind : String) (bs : List UInt8) : String := s!"{kind}:{bs.length}:{hex64 (fnv bs)}"

def rereadField (A : Arr) (o : Outcome Arr) (unwraps : Bool) : String :=
  match o with
  | .ok A' => s!"ok:{if A' == A then 1 else 0}:{A'.size}:{hex64 (fnv (expBytes A'))}"
  | .err _ => if unwraps then "panic:0:0:0" else "err:0:0:0"
  | .panic _ => "panic:0:0:0"

/-- buffer sizes for the model's `read_to_end` on big inputs (irrelevant for the outcome:
    `chunking_irrelevant_read_text`; large ones keep the replay linear) -/
def bigWants : List Nat := List.replicate 256 (2 ^ 30)

def withFail (sc : List Ev) (pos : Nat) : List Ev := sc.take pos ++ [.fail]

def handle (key : String) (ins obs : List String) : Verdict :=
  match key, ins, obs with
  | _, _, ["harness-panic"] =>
    { agree := false, model := "no-panic", fail := none, nontrivial := false, tags := ["harness-panic"] }
  | _, _, ["unbuildable"] =>
    -- neither `from_nodes` nor the text reader produces the value from the harness's own normal forms: no `b` to talk about
    { agree := false, model := "buildable", fail := none, nontrivial := false, tags := ["unbuildable"] }
  | "C12.mem", [b], [_text, bytes, rtT, rtB, rtN] =>
    match parseArrE? b with
    | some A =>
      let mBytes := writeBytesS A
      let mRtT := match readText (asciiBytes (writeText A)) with
        | .ok A' => if A' == A then "1" else "0"
        | _ => "panic"           -- `from_string` unwraps
      let mRtB := match readBytesS mBytes with
        | .ok A' => if A' == A then "1" else "0"
        | _ => "panic"
      let mRtN := match fromNodes (toNodes A) with
        | .ok A' => if A' == A then "1" else "0"
        | .err _ => "err"
        | .panic _ => "panic"
      let model := s!"{String.ofList (writeText A)} {hexOf mBytes} {mRtT} {mRtB} {mRtN}"
      let wf := A.size > 0 && wfoB A (numVars A)
      let fail := firstFail [
        req ((unhex bytes).length == 10 * A.size) "ten-bytes-per-node",
        req (rtT == "1") "text-roundtrip", req (rtB == "1") "bytes-roundtrip",
        req (!wf || rtN == "1") "nodes-roundtrip"]
      { agree := model == " ".intercalate obs, model, fail, nontrivial := A.size > 2,
        tags := ["mem", sizeTag A, if wf then "wf" else "raw"] ++ varTag A }
    | none => Verdict.bad "args"
  | "C12.wtext", [b, sc], [kind, out, consumed, flushes, rt] | "C12.wbytes", [b, sc], [kind, out, consumed, flushes, rt] =>
    match parseArrE? b, parseScript? sc with
    | some A, some script =>
      let isText := key == "C12.wtext"
      let (ok, mo, s') := if isText then writeTextIO A script else writeBytesIOS A script
      let mRt := if !ok then "-" else
        match (if isText then readText mo else readBytesS mo) with
        | .ok A' => if A' == A then "1" else "0"
        | .err _ => "err"
        | .panic _ => "panic"
      let model := s!"{if ok then "ok" else "err"} {hexOf mo} {script.length - s'.length} 0 {mRt}"
      let o := unhex out
      let used := script.take (consumed.toNat?.getD 0)
      let fail := firstFail [
        req (kind == "ok" || kind == "err") ("outcome:" ++ kind),
        req (!faultless script || kind == "ok") "faultless-script-must-succeed",
        req (kind != "ok" || rt == "1") ("written-data-does-not-read-back:" ++ rt),
        req (isText || kind != "ok" || o.length == 10 * A.size) "ten-bytes-per-node",
        req (!used.contains .fail || kind == "err") "io-error-not-propagated"]
      { agree := model == " ".intercalate [kind, out, consumed, flushes, rt], model, fail,
        nontrivial := A.size > 2 && !script.isEmpty,
        tags := [if isText then "wtext" else "wbytes", sizeTag A] ++ scriptTags script ++ varTag A }
    | _, _ => Verdict.bad "args"
  | "C12.rtext", [orig, data, sc], [kind, res, consumed, wants, libform] | "C12.rbytes", [orig, data, sc], [kind, res, consumed, wants, libform] =>
    match parseScript? sc with
    | some script =>
      let isText := key == "C12.rtext"
      let bytes := unhex data
      let ws := parseNats wants
      let (mo, r') := if isText then readTextIO ⟨bytes, script⟩ ws else readBytesIOS ⟨bytes, script⟩ #[]
      let mRes := match mo with | .ok A => showArr A | _ => "~"
      let mWants := if isText then wants else showNats (exactWants recordLenS (bytes.length + script.length + 2) ⟨bytes, script⟩ recordLenS [])
      -- is the data the (model) writer's own form of `orig`? text: modulo whitespace
      let mLib := if orig == "~" then "-" else
        match parseArrE? orig with
        | none => "0"
        | some O =>
          if isText then
            (match utf8Decode bytes with
             | some cs => if cs.filter (fun c => !isWhitespace c) == writeText O then "1" else "0"
             | none => "0")
          else if writeBytesS O == bytes then "1" else "0"
      let model := s!"{kindOf mo} {mRes} {script.length - r'.script.length} {mWants} {mLib}"
      let used := script.take (consumed.toNat?.getD 0)
      let hasWs := isText && bytes.any (fun b => b.toNat ≥ 0x80 || b.toNat ≤ 0x20)
      let fail := firstFail [
        req (kind == "ok" || kind == "err") ("outcome:" ++ kind),
        req (!used.contains .fail || kind == "err") "io-error-not-propagated",
        req (libform != "1" || !faultless script || (kind == "ok" && res == orig)) "roundtrip-under-chunking"]
      { agree := model == " ".intercalate [kind, res, consumed, wants, libform], model, fail,
        nontrivial := orig.length > 14 && !script.isEmpty,
        tags := [if isText then "rtext" else "rbytes", if orig == "~" then "noorig" else "orig"] ++ scriptTags script ++
          (if hasWs then ["whitespace"] else []) ++ (if isText && bytes.any (fun b => b.toNat ≥ 0x80) then ["non-ascii-ws"] else []) ++
          (if libform == "1" then ["libform"] else []) ++ (if ws.all (· ≥ 1) then [] else ["empty-buffer-offered"]) }
    | none => Verdict.bad "args"
  | "C12.big", [_n, _k, _seed], [size, blen, tlen, flags] =>
    match size.toNat?, blen.toNat? with
    | some sz, some bl =>
      let model := s!"{sz} {recordLenS * sz} {tlen} 1111111111111"
      let fail := firstFail [req (bl == 10 * sz) "ten-bytes-per-node", req (String.ofList ((flags.toList.set 0 '1').set 1 '1') == "1111111111111") ("big-flags:" ++ flags)]
      { agree := model == " ".intercalate obs, model, fail, nontrivial := sz > 256,
        tags := ["big", if sz > 65536 then "nodes>65536" else if sz > 256 then "nodes>256" else "small"] }
    | _, _ => Verdict.bad "args"
  | "C12.huge", [fam, p1, p2, wsc, rsc, fpos], obs =>
    match p1.toNat?, p2.toNat?, parseScript? wsc, parseScript? rsc, fpos.toNat? with
    | some p1, some p2, some wscript, some rscript, some failpos =>
      match familyArr fam p1 p2 with
      | none => Verdict.bad "family"
      | some A =>
        if obs == ["unbuildable"] then
          { agree := false, model := "buildable", fail := none, nontrivial := true, tags := ["huge", "unbuildable"] }
        else if !(faultless wscript && faultless rscript) then Verdict.bad "huge cases take faultless scripts"
        else
        -- model: the instance `SerialStd`; a faultless script is replayed where the replay is cheap (readers), for the
        -- writers of big diagrams the prediction is the plain output (`chunking_irrelevant_write_*`)
        let mB := writeBytesS A
        let mT := asciiBytes (writeText A)
        let small := A.size ≤ 3000
        let mBw := if small then (let (ok, o, _) := writeBytesIOS A wscript; writtenField (if ok then "ok" else "err") o) else writtenField "ok" mB
        let mTw := if small then (let (ok, o, _) := writeTextIO A wscript; writtenField (if ok then "ok" else "err") o) else writtenField "ok" mT
        let mE := String.ofList [
          (if (readBytesIOS ⟨mB, withFail rscript failpos⟩ #[]).1.isErr then 'e' else 'o'),
          (if (writeBytesIOS A (withFail wscript failpos)).1 then 'o' else 'e'),
          (if (readTextIO ⟨mT, withFail rscript failpos⟩ bigWants).1.isErr then 'e' else 'o'),
          (if (writeTextIO A (withFail wscript failpos)).1 then 'o' else 'e')]
        let model := " ".intercalate [toString A.size, "1",
          writtenField "ok" mB, rereadField A (readBytesS mB) true, mBw, rereadField A (readBytesIOS ⟨mB, rscript⟩ #[]).1 false,
          writtenField "ok" mT, rereadField A (readText mT) true, mTw, rereadField A (readTextIO ⟨mT, rscript⟩ bigWants).1 false, mE]
        -- predicate on the observed fields, with encoders independent of the model
        let eB := expBytes A
        let good := s!"ok:1:{A.size}:{hex64 (fnv eB)}"
        let fail := match obs with
          | [size, built, b, br, bw, brc, t, tr, tw, trc, e] => firstFail [
              req (size == toString A.size && built == "1") "from_nodes-alters-the-diagram",
              req (b.startsWith "ok:") ("to_bytes:" ++ b),
              req ((b.splitOn ":").getD 1 "" == toString (10 * A.size)) "ten-bytes-per-node",
              req (br == good) ("bytes-roundtrip:" ++ br),
              req (bw.startsWith "ok:") ("write_as_bytes-chunked:" ++ bw),
              req ((bw.splitOn ":").getD 1 "" == toString (10 * A.size)) "ten-bytes-per-node-chunked",
              req (brc == good) ("bytes-roundtrip-chunked:" ++ brc),
              req (t.startsWith "ok:") ("to_string:" ++ t),
              req (tr == good) ("text-roundtrip:" ++ tr),
              req (tw.startsWith "ok:") ("write_as_string-chunked:" ++ tw),
              req (trc == good) ("text-roundtrip-chunked:" ++ trc),
              req (e == "eeee") ("io-error-not-propagated:" ++ e)]
          | _ => some "observation-shape"
        { agree := model == " ".intercalate obs, model, fail, nontrivial := A.size > 256,
          tags := ["huge", fam, sizeTag A] ++ (if A.size > 4096 then ["nodes>4096"] else []) }
    | _, _, _, _, _ => Verdict.bad "args"
  | "C12.wschars", [], [l] =>
    let model := showNats whiteSpace
    { agree := model == l, model, fail := none, nontrivial := true, tags := ["wschars"] }
  | "C12.parse", [ty, data], [res] =>
    let max := if ty == "u16" then u16Max else u32Max
    match utf8Decode (unhex data) with
    | some s =>
      let model := match parseUInt max s with | some v => s!"ok:{v}" | none => "err"
      let indep := match independentDigits s max with | some v => s!"ok:{v}" | none => "err"
      { agree := model == res, model, fail := none, nontrivial := s.length > 1,
        tags := ["parse", ty, if res == "err" then "err" else "ok"] ++ (if res == indep then [] else ["differs-from-independent-grammar"]) }
    | none => Verdict.bad "utf8"
  | _, _, _ => Verdict.bad ("key " ++ key)

end B.Drive.C12
