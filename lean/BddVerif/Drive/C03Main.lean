import BddVerif.Drive.C03
def main : IO Unit := B.Drive.runLoop B.Drive.C03.handle
