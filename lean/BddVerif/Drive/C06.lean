import BddVerif.Drive.Util
import BddVerif.Model.Relation
/-!
Driver for C06: replays each observed case through the model of `Model/Relation.lean` and evaluates the
property's own predicate on the implementation's output, by brute force on truth tables:
  select    : result(v) = operand(v) ∧ v agrees with the literals (the LAST literal of a variable counts)
  restrict  : result(v) = operand(v overridden with the literals)
  var_pick  : result ⊆ operand; of the two valuations differing only in x the preferred (false) one is kept
              when both are in the operand, the only one when one is
  pick      : result ⊆ operand and every non-empty class of operand valuations agreeing outside `vars`
              has exactly one member in the result (same for pick_random, for every coin list)
  every result is a canonical array (`isCanon`) — also for valid but non-canonical operands (theorems
  `restrict_canon`, `select_canon`, … hold for all operands well formed by level); the only exception is
  `pick(&[])`, which is `clone()`.
The predicates do not use the model.
-/
namespace B.Drive.C06
open B B.Drive

def maxTT : Nat := 10

/-- value of variable `k` in valuation number `i` over `n` variables (variable 0 most significant) -/
def bitOf (n i k : Nat) : Bool := (i >>> (n - 1 - k)) % 2 == 1
def setBit (n i k : Nat) (b : Bool) : Nat :=
  let w := 2 ^ (n - 1 - k)
  if bitOf n i k == b then i else if b then i + w else i - w

/-! #### operands too wide for a full truth table: the predicates run on `samples` pseudo-random valuations -/

def samples : Nat := 4096

/-- pseudo-random valuation number `k` over `n` variables (SplitMix-style mixing of the index), materialised -/
def sampleVal (n k : Nat) : Array Bool :=
  let z := (k + 1) * 0x9E3779B97F4A7C15 % 2 ^ 64
  let z := (z ^^^ (z >>> 29)) * 0xBF58476D1CE4E5B9 % 2 ^ 64
  let z := (z ^^^ (z >>> 32))
  (Array.range n).map fun j => (z >>> (j % 60)) % 2 == 1

def asVal (bits : Array Bool) : Nat → Bool := fun j => bits.getD j false
def setV (bits : Array Bool) (k : Nat) (b : Bool) : Array Bool := bits.setIfInBounds k b

def parseLits? (s : String) : Option (List (Nat × Bool)) :=
  if s == "~" then some [] else
  (s.splitOn ",").mapM fun p =>
    match p.splitOn ":" with
    | [x, b] => (x.toNat?).map fun x => (x, b == "1")
    | _ => none

def parseVars? (s : String) : Option (List Nat) :=
  if s == "~" then some [] else (s.splitOn ",").mapM (·.toNat?)

/-- the literal that counts for variable `x`: the last one in the list (independent of `fromValues`) -/
def lastLit (lits : List (Nat × Bool)) (x : Nat) : Option Bool :=
  (lits.reverse.find? (·.1 == x)).map (·.2)

def agreesWith (n : Nat) (lits : List (Nat × Bool)) (i : Nat) : Bool :=
  (List.range n).all fun k => match lastLit lits k with | some b => bitOf n i k == b | none => true

def overrideIx (n : Nat) (lits : List (Nat × Bool)) (i : Nat) : Nat :=
  (List.range n).foldl (fun j k => match lastLit lits k with | some b => setBit n j k b | none => j) i

def firstFail (xs : List (Option String)) : Option String := xs.findSome? id

def agreesV (n : Nat) (lits : List (Nat × Bool)) (v : Array Bool) : Bool :=
  (List.range n).all fun k => match lastLit lits k with | some b => v.getD k false == b | none => true

def overrideV (n : Nat) (lits : List (Nat × Bool)) (v : Array Bool) : Array Bool :=
  (List.range n).foldl (fun w k => match lastLit lits k with | some b => setV w k b | none => w) v

/-- all re-assignments of the listed variables of `v` -/
def reassign (vars : List Nat) (v : Array Bool) : List (Array Bool) :=
  vars.eraseDups.foldl (fun acc x => acc.flatMap fun w => [setV w x false, setV w x true]) [v]

def canonClause (res : Arr) : Option String := if isCanon res then none else some "not-canonical"

def checkSelect (n : Nat) (res A : Arr) (lits : List (Nat × Bool)) : Option String :=
  if n > maxTT then
    -- sampled: at the sample itself and at the sample forced to agree with the literals
    if (List.range samples).all fun k =>
        let v := sampleVal n k; let w := overrideV n lits v
        evalArr res (asVal v) == (evalArr A (asVal v) && agreesV n lits v) &&
        evalArr res (asVal w) == evalArr A (asVal w) then none else some "select-filter(sampled)"
  else
  let tr := ttOf res n; let ta := ttOf A n
  if (List.range (2 ^ n)).all fun i => tr[i]! == (ta[i]! && agreesWith n lits i) then none else some "select-filter"

def checkRestrict (n : Nat) (res A : Arr) (lits : List (Nat × Bool)) : Option String :=
  if n > maxTT then
    if (List.range samples).all fun k =>
        let v := sampleVal n k
        evalArr res (asVal v) == evalArr A (asVal (overrideV n lits v)) then none else some "restrict-override(sampled)"
  else
  let tr := ttOf res n; let ta := ttOf A n
  if (List.range (2 ^ n)).all fun i => tr[i]! == ta[overrideIx n lits i]! then none else some "restrict-override"

/-- class representative: the listed variables cleared -/
def classKey (n : Nat) (vars : List Nat) (i : Nat) : Nat := vars.foldl (fun j k => if k < n then setBit n j k false else j) i

def checkPick (n : Nat) (res A : Arr) (vars : List Nat) : Option String :=
  if n > maxTT then
    -- sampled classes: all re-assignments of the picked variables of every sample
    (List.range samples).findSome? fun k =>
      let cls := reassign (vars.filter (· < n)) (sampleVal n k)
      let inA := cls.filter fun w => evalArr A (asVal w)
      let inR := cls.filter fun w => evalArr res (asVal w)
      if !(inR.all fun w => evalArr A (asVal w)) then some "pick-subset(sampled)"
      else if (if inA.isEmpty then inR.length == 0 else inR.length == 1) then none
      else some "pick-exactly-one(sampled)"
  else
  let tr := ttOf res n; let ta := ttOf A n
  let idx := List.range (2 ^ n)
  if !(idx.all fun i => !tr[i]! || ta[i]!) then some "pick-subset" else
  let cntA := idx.foldl (fun (c : Array Nat) i => if ta[i]! then c.modify (classKey n vars i) (· + 1) else c) (Array.replicate (2 ^ n) 0)
  let cntR := idx.foldl (fun (c : Array Nat) i => if tr[i]! then c.modify (classKey n vars i) (· + 1) else c) (Array.replicate (2 ^ n) 0)
  if idx.all fun k => if cntA[k]! > 0 then cntR[k]! == 1 else cntR[k]! == 0 then none else some "pick-exactly-one"

/-- `var_pick` with preferred value `pref` -/
def checkVarPick (n : Nat) (res A : Arr) (x : Nat) (pref : Bool) : Option String :=
  if n > maxTT then
    if (List.range samples).all fun k =>
        [false, true].all fun b =>
          let w := setV (sampleVal n k) x b; let tw := setV w x (!b)
          evalArr res (asVal w) == (evalArr A (asVal w) && (b == pref || !evalArr A (asVal tw)))
      then none else some "var-pick-preferred(sampled)"
  else
  let tr := ttOf res n; let ta := ttOf A n
  let ok := (List.range (2 ^ n)).all fun i =>
    let j := setBit n i x (!bitOf n i x)
    tr[i]! == (ta[i]! && (bitOf n i x == pref || !ta[j]!))
  if ok then none else some "var-pick-preferred"

def checkQuant (n : Nat) (res A : Arr) (x : Nat) (isEx : Bool) : Option String :=
  if n > maxTT then
    if (List.range samples).all fun k =>
        let v := sampleVal n k
        let a := evalArr A (asVal (setV v x false)); let b := evalArr A (asVal (setV v x true))
        evalArr res (asVal v) == (if isEx then a || b else a && b) then none else some "projection(sampled)"
  else
  let tr := ttOf res n; let ta := ttOf A n
  let ok := (List.range (2 ^ n)).all fun i =>
    let a := ta[setBit n i x false]!; let b := ta[setBit n i x true]!
    tr[i]! == (if isEx then a || b else a && b)
  if ok then none else some "projection"

def showO : Outcome Arr → String
  | .ok a => showArr a
  | .err _ => "err"
  | .panic _ => "panic"

def nontrivial (res : Option Arr) (A : Arr) : Bool := res.any fun r => r.size > 2 && r != A

def hasDup (vars : List Nat) : Bool := vars.eraseDups.length != vars.length

/-- assembling a verdict: `claim` = the operand and the variables are within the property (valid operand,
    variables below `num_vars`); outside of it only the outcome kind and the model agreement are reported -/
def verdict (model res : String) (A : Arr) (inScope : Bool) (pred : Arr → Option String) (tags : List String) : Verdict :=
  let obs := parseArr? res
  let fail := if !inScope then none else
    match obs with
    | some R => pred R
    | none => some ("outcome:" ++ res)
  { agree := model == res, model, fail, nontrivial := nontrivial obs A, tags }

def szTag (A : Arr) : String := if A.size > 65536 then s!"n{numVars A},big" else s!"n{numVars A}"

def handle (key : String) (ins obs : List String) : Verdict :=
  match key, ins, obs with
  | "C06.coin", [flips], [got, pos] =>
    let fl := parseBits flips
    let model := showBits fl
    { agree := model == got && pos == toString fl.length, model,
      fail := if got == model then none else some "coin-convention", nontrivial := false, tags := ["coin"] }
  | "C06.vsel", [a, x, b], [res] =>
    match parseArr? a, x.toNat? with
    | some A, some x =>
      let n := numVars A; let b := b == "1"
      let canonIn := isCanon A
      verdict (showArr (varSelect A x b)) res A (x < n)
        (fun R => firstFail [checkSelect n R A [(x, b)], canonClause R])
        ["vsel", szTag A, if canonIn then "canon" else "noncanon"]
    | _, _ => Verdict.bad "args"
  | "C06.select", [a, lits], [res] =>
    match parseArr? a, parseLits? lits with
    | some A, some ls =>
      let n := numVars A
      let canonIn := isCanon A
      verdict (showArr (select A ls)) res A (ls.all (·.1 < n))
        (fun R => firstFail [checkSelect n R A ls, canonClause R])
        ["select", szTag A, s!"lits{ls.length}", if hasDup (ls.map (·.1)) then "rep" else "norep",
          if canonIn then "canon" else "noncanon"]
    | _, _ => Verdict.bad "args"
  | "C06.vres", [a, x, b], [res] =>
    match parseArr? a, x.toNat? with
    | some A, some x =>
      let n := numVars A; let b := b == "1"
      let canonIn := isCanon A
      verdict (showArr (varRestrict A x b)) res A true
        (fun R => firstFail [checkRestrict n R A [(x, b)], canonClause R])
        ["vres", szTag A, if canonIn then "canon" else "noncanon", if x < n then "inrange" else "oor"]
    | _, _ => Verdict.bad "args"
  | "C06.restrict", [a, lits], [res] =>
    match parseArr? a, parseLits? lits with
    | some A, some ls =>
      let n := numVars A
      let canonIn := isCanon A
      verdict (showArr (restrict A ls)) res A true
        (fun R => firstFail [checkRestrict n R A ls, canonClause R])
        ["restrict", szTag A, s!"lits{ls.length}", if hasDup (ls.map (·.1)) then "rep" else "norep",
          if canonIn then "canon" else "noncanon", if ls.all (·.1 < n) then "inrange" else "oor"]
    | _, _ => Verdict.bad "args"
  | "C06.vpick", [a, x], [res] =>
    match parseArr? a, x.toNat? with
    | some A, some x =>
      let n := numVars A
      if x < n then
        verdict (showO (varPickO A x)) res A true
          (fun R => firstFail [checkVarPick n R A x false, checkPick n R A [x], canonClause R]) ["vpick", szTag A]
      else
        -- out of range: the only claim is the outcome (a refusal by panic, never a value)
        let model := showO (varPickO A x)
        { agree := model == res, model, fail := if res == "panic" then none else some "oor-not-refused",
          nontrivial := false, tags := ["vpick", "oor"] }
    | _, _ => Verdict.bad "args"
  | "C06.vpickr", [a, x, flips], [res, pos] =>
    match parseArr? a, x.toNat? with
    | some A, some x =>
      let n := numVars A
      let coin := (drawCoin (parseBits flips)).1
      if x < n then
        let v := verdict (showO (varPickRandomO A x coin)) res A true
          (fun R => firstFail [checkVarPick n R A x coin, checkPick n R A [x], canonClause R,
            if pos == "1" then none else some "draws"]) ["vpickr", szTag A]
        { v with agree := v.agree && pos == "1" }
      else
        let model := showO (varPickRandomO A x coin)
        { agree := model == res, model, fail := if res == "panic" then none else some "oor-not-refused",
          nontrivial := false, tags := ["vpickr", "oor"] }
    | _, _ => Verdict.bad "args"
  | "C06.pick", [a, vars], [res] =>
    match parseArr? a, parseVars? vars with
    | some A, some vs =>
      let n := numVars A
      if vs.all (· < n) then
        -- `pick(&[])` is `clone()`: canonical only if the operand is
        verdict (showO (pickO A vs)) res A true
          (fun R => firstFail [checkPick n R A vs, if vs.isEmpty && !isCanon A then none else canonClause R])
          ["pick", szTag A, s!"vars{vs.length}", if hasDup vs then "dup" else "nodup"]
      else
        let model := showO (pickO A vs)
        { agree := model == res, model, fail := if res == "panic" then none else some "oor-not-refused",
          nontrivial := false, tags := ["pick", "oor"] }
    | _, _ => Verdict.bad "args"
  | "C06.pickr", [a, vars, flips], [res, pos] =>
    match parseArr? a, parseVars? vars with
    | some A, some vs =>
      let n := numVars A
      let fl := parseBits flips
      if vs.all (· < n) then
        let draws := toString (pickRandomDraws vs)
        let v := verdict (showO (pickRandomO A vs fl)) res A true
          (fun R => firstFail [checkPick n R A vs, if vs.isEmpty && !isCanon A then none else canonClause R])
          ["pickr", szTag A, s!"vars{vs.length}", if hasDup vs then "dup" else "nodup"]
        { v with agree := v.agree && pos == draws }
      else
        let model := showO (pickRandomO A vs fl)
        { agree := model == res, model, fail := if res == "panic" then none else some "oor-not-refused",
          nontrivial := false, tags := ["pickr", "oor"] }
    | _, _ => Verdict.bad "args"
  | "C06.vex", [a, x], [res] =>
    match parseArr? a, x.toNat? with
    | some A, some x =>
      let n := numVars A
      if x < n then
        verdict (showO (Rel.varExistsO A x)) res A true
          (fun R => firstFail [checkQuant n R A x true, canonClause R]) ["vex", szTag A]
      else
        let model := showO (Rel.varExistsO A x)
        { agree := model == res, model, fail := if res == "panic" then none else some "oor-not-refused",
          nontrivial := false, tags := ["vex", "oor"] }
    | _, _ => Verdict.bad "args"
  | "C06.vall", [a, x], [res] =>
    match parseArr? a, x.toNat? with
    | some A, some x =>
      let n := numVars A
      if x < n then
        verdict (showO (Rel.varForAllO A x)) res A true
          (fun R => firstFail [checkQuant n R A x false, canonClause R]) ["vall", szTag A]
      else
        let model := showO (Rel.varForAllO A x)
        { agree := model == res, model, fail := if res == "panic" then none else some "oor-not-refused",
          nontrivial := false, tags := ["vall", "oor"] }
    | _, _ => Verdict.bad "args"
  | _, _, _ => Verdict.bad ("key " ++ key)

end B.Drive.C06
