import BddVerif.Drive.Util
import BddVerif.Model.Relation
import BddVerif.Model.Count
/-!
Driver for C06: replays each observed case through the model of `Model/Relation.lean` and evaluates the
property's own predicate on the implementation's output, by brute force on truth tables:
  select    : result(v) = operand(v) ∧ v agrees with the literals (the LAST literal of a variable counts)
  restrict  : result(v) = operand(v overridden with the literals)
  var_pick  : result ⊆ operand; of the two valuations differing only in x the preferred (false) one is kept
              when both are in the operand, the only one when one is
  pick      : result ⊆ operand and every non-empty class of operand valuations agreeing outside `vars`
              has exactly one member in the result (same for pick_random, for every coin list)
  every result is a canonical array (`isCanon`) — also for valid but non-canonical operands (theorems
  `restrict_canon`, `select_canon`, … hold for all operands well formed by level); the only exception is
  `pick(&[])`, which is `clone()`.
The predicates do not use the model.
-/
namespace B.Drive.C06
open B B.Drive

def maxTT : Nat := 10

/-- value of variable `k` in valuation number `i` over `n` variables (variable 0 most significant) -/
def bitOf (n i k : Nat) : Bool := (i >>> (n - 1 - k)) % 2 == 1
def setBit (n i k : Nat) (b : Bool) : Nat :=
  let w := 2 ^ (n - 1 - k)
  if bitOf n i k == b then i else if b then i + w else i - w

/-! #### operands too wide for a full truth table: the predicates run on `samples` pseudo-random valuations -/

def samples : Nat := 4096

/-- pseudo-random valuation number `k` over `n` variables (SplitMix-style mixing of the index), materialised -/
def sampleVal (n k : Nat) : Array Bool :=
  let z := (k + 1) * 0x9E3779B97F4A7C15 % 2 ^ 64
  let z := (z ^^^ (z >>> 29)) * 0xBF58476D1CE4E5B9 % 2 ^ 64
  let z := (z ^^^ (z >>> 32))
  (Array.range n).map fun j => (z >>> (j % 60)) % 2 == 1

def asVal (bits : Array Bool) : Nat → Bool := fun j => bits.getD j false
def setV (bits : Array Bool) (k : Nat) (b : Bool) : Array Bool := bits.setIfInBounds k b

def parseLits? (s : String) : Option (List (Nat × Bool)) :=
  if s == "~" then some [] else
  (s.splitOn ",").mapM fun p =>
    match p.splitOn ":" with
    | [x, b] => (x.toNat?).map fun x => (x, b == "1")
    | _ => none

def parseVars? (s : String) : Option (List Nat) :=
  if s == "~" then some [] else (s.splitOn ",").mapM (·.toNat?)

/-- the literal that counts for variable `x`: the last one in the list (independent of `fromValues`) -/
def lastLit (lits : List (Nat × Bool)) (x : Nat) : Option Bool :=
  (lits.reverse.find? (·.1 == x)).map (·.2)

def agreesWith (n : Nat) (lits : List (Nat × Bool)) (i : Nat) : Bool :=
  (List.range n).all fun k => match lastLit lits k with | some b => bitOf n i k == b | none => true

def overrideIx (n : Nat) (lits : List (Nat × Bool)) (i : Nat) : Nat :=
  (List.range n).foldl (fun j k => match lastLit lits k with | some b => setBit n j k b | none => j) i

def firstFail (xs : List (Option String)) : Option String := xs.findSome? id

/-- the literals that count: for every mentioned variable its LAST literal -/
def effLits (lits : List (Nat × Bool)) : List (Nat × Bool) :=
  lits.reverse.foldl (fun acc l => if acc.any (·.1 == l.1) then acc else l :: acc) []

def agreesV (n : Nat) (lits : List (Nat × Bool)) (v : Array Bool) : Bool :=
  (effLits lits).all fun l => l.1 ≥ n || v.getD l.1 false == l.2

def overrideV (n : Nat) (lits : List (Nat × Bool)) (v : Array Bool) : Array Bool :=
  (effLits lits).foldl (fun w l => if l.1 < n then setV w l.1 l.2 else w) v

/-- all re-assignments of the listed variables of `v` -/
def reassign (vars : List Nat) (v : Array Bool) : List (Array Bool) :=
  vars.eraseDups.foldl (fun acc x => acc.flatMap fun w => [setV w x false, setV w x true]) [v]

def canonClause (res : Arr) : Option String := if isCanon res then none else some "not-canonical"

/-! #### wide operands: compression to the relevant variables

A variable that occurs in no decision node of the operand, none of the result, and is not mentioned by the
operation is free in both functions, so every clause of the property is decided by the valuations of the
RELEVANT variables (support of the operand ∪ support of the observed result ∪ mentioned variables): if there
are at most `maxRel` of them the predicate is evaluated exhaustively on their 2^m valuations (all other
variables `false`), whatever `num_vars` is. -/

def maxRel : Nat := 12

/-- marks of the variables `< n` that occur in a decision node -/
def markSupport (n : Nat) (X : Arr) (m : Array Bool) : Array Bool :=
  (List.range (X.size - 2)).foldl (fun m i => let v := (X[i + 2]?.getD default).var; if v < n then m.setIfInBounds v true else m) m

def relevant (n : Nat) (A res : Arr) (mention : List Nat) : Array Nat :=
  let m := markSupport n res (markSupport n A (Array.replicate n false))
  let m := mention.foldl (fun m x => m.setIfInBounds x true) m
  (Array.range n).filter fun x => m.getD x false

def posIn (R : Array Nat) (x : Nat) : Option Nat := R.findIdx? (· == x)

/-- truth table over the relevant variables `R` (position k of `R` plays the role of variable k) -/
def ttC (X : Arr) (R : Array Nat) : Array Bool :=
  let m := R.size
  (Array.range (2 ^ m)).map fun i => evalArr X fun x => match posIn R x with | some k => bitOf m i k | none => false

/-- `(m, table of the result, table of the operand, variable ↦ position)`: the full tables for narrow operands,
    the compressed ones for wide operands with few relevant variables, `none` otherwise (then: sampling) -/
def tables (n : Nat) (res A : Arr) (mention : List Nat) : Option (Nat × Array Bool × Array Bool × (Nat → Option Nat)) :=
  if n ≤ maxTT then some (n, ttOf res n, ttOf A n, fun x => if x < n then some x else none)
  else
    let R := relevant n A res mention
    if R.size ≤ maxRel then some (R.size, ttC res R, ttC A R, posIn R) else none

def mapLits (pos : Nat → Option Nat) (lits : List (Nat × Bool)) : List (Nat × Bool) :=
  lits.filterMap fun l => (pos l.1).map fun k => (k, l.2)

/-! #### sampled valuations (operands with many relevant variables) -/

/-- 64-bit mixer (SplitMix64 finaliser) -/
def mix64 (z : UInt64) : UInt64 :=
  let z := (z ^^^ (z >>> 30)) * 0xBF58476D1CE4E5B9
  let z := (z ^^^ (z >>> 27)) * 0x94D049BB133111EB
  z ^^^ (z >>> 31)

/-- pseudo-random valuation number `k`; beyond 60 variables every block of 64 variables gets its own word -/
def sampleValW (n k : Nat) : Array Bool :=
  if n ≤ 40 then sampleVal n k else
  let words : Array UInt64 := (Array.range (n / 64 + 1)).map fun b =>
    mix64 (UInt64.ofNat (k + 1) * 0x9E3779B97F4A7C15 + UInt64.ofNat (b + 1) * 0xD1B54A32D192ED03)
  (Array.range n).map fun j => ((words.getD (j / 64) 0) >>> UInt64.ofNat (j % 64)) &&& 1 == 1

/-- up to `cap` paths from pointer `p` to the terminal 1, as literal lists; `hiFirst` = branch order -/
def pathsGo (X : Arr) (hiFirst : Bool) : Nat → Nat → List (Nat × Bool) → List (List (Nat × Bool)) × Nat → List (List (Nat × Bool)) × Nat
  | 0, _, _, acc => acc
  | fuel + 1, p, lits, (out, cap) =>
    if cap = 0 then (out, cap) else
    if p = 0 then (out, cap) else if p = 1 then (lits :: out, cap - 1) else
    let nd := nodeAt X p
    if hiFirst then
      pathsGo X hiFirst fuel nd.low ((nd.var, false) :: lits) (pathsGo X hiFirst fuel nd.high ((nd.var, true) :: lits) (out, cap))
    else
      pathsGo X hiFirst fuel nd.high ((nd.var, true) :: lits) (pathsGo X hiFirst fuel nd.low ((nd.var, false) :: lits) (out, cap))

/-- valuations on satisfying paths of `X` (the other variables pseudo-random): they reach the rare members of
    sets like "one long cube or …" that random valuations never hit -/
def pathVals (n : Nat) (X : Arr) : List (Array Bool) :=
  let fuel := numVars X + 2
  let ps := (pathsGo X true fuel (root X) [] ([], 24)).1 ++ (pathsGo X false fuel (root X) [] ([], 24)).1
  (ps.zipIdx).map fun (lits, k) => lits.foldl (fun v l => setV v l.1 l.2) (sampleValW n (1000003 + k))

def sampleVals (n : Nat) (A res : Arr) : List (Array Bool) :=
  let m := max 32 (min samples (300000 / (n + 1)))
  pathVals n A ++ pathVals n res ++ (List.range m).map (sampleValW n)

/-! #### the clauses -/

def checkSelect (n : Nat) (res A : Arr) (lits : List (Nat × Bool)) : Option String :=
  match tables n res A ((lits.map (·.1)).filter (· < n)) with
  | some (m, tr, ta, pos) =>
    let ls := mapLits pos lits
    if (List.range (2 ^ m)).all fun i => tr[i]! == (ta[i]! && agreesWith m ls i) then none else some "select-filter"
  | none =>
    -- sampled: at the sample itself and at the sample forced to agree with the literals
    if (sampleVals n A res).all fun v =>
        let w := overrideV n lits v
        evalArr res (asVal v) == (evalArr A (asVal v) && agreesV n lits v) &&
        evalArr res (asVal w) == evalArr A (asVal w) then none else some "select-filter(sampled)"

def checkRestrict (n : Nat) (res A : Arr) (lits : List (Nat × Bool)) : Option String :=
  match tables n res A ((lits.map (·.1)).filter (· < n)) with
  | some (m, tr, ta, pos) =>
    let ls := mapLits pos lits
    if (List.range (2 ^ m)).all fun i => tr[i]! == ta[overrideIx m ls i]! then none else some "restrict-override"
  | none =>
    if (sampleVals n A res).all fun v =>
        evalArr res (asVal v) == evalArr A (asVal (overrideV n lits v)) then none else some "restrict-override(sampled)"

/-- class representative: the listed variables cleared -/
def classKey (n : Nat) (vars : List Nat) (i : Nat) : Nat := vars.foldl (fun j k => if k < n then setBit n j k false else j) i

/-- exact count: every non-empty class contributes exactly one valuation, and `∃ vars. S` contains each non-empty
    class 2^|vars| times: `|result| · 2^|vars| = |∃ vars. S|` (distinct variables; `exactCard` and the model of
    `var_exists` are the proved ones) -/
def pickCount (n : Nat) (res A : Arr) (vars : List Nat) : Option String :=
  let vs := (vars.filter (· < n)).eraseDups
  if A.size > 4096 && vs.length > 2 then none else
  let E := vs.foldl (fun E x => Rel.varExists E x) A
  if exactCard res * 2 ^ vs.length == exactCard E then none else some "pick-count"

def checkPick (n : Nat) (res A : Arr) (vars : List Nat) : Option String :=
  firstFail [
    (match tables n res A (vars.filter (· < n)) with
    | some (m, tr, ta, pos) =>
      let vs := vars.filterMap pos
      let idx := List.range (2 ^ m)
      if !(idx.all fun i => !tr[i]! || ta[i]!) then some "pick-subset" else
      let cntA := idx.foldl (fun (c : Array Nat) i => if ta[i]! then c.modify (classKey m vs i) (· + 1) else c) (Array.replicate (2 ^ m) 0)
      let cntR := idx.foldl (fun (c : Array Nat) i => if tr[i]! then c.modify (classKey m vs i) (· + 1) else c) (Array.replicate (2 ^ m) 0)
      if idx.all fun k => if cntA[k]! > 0 then cntR[k]! == 1 else cntR[k]! == 0 then none else some "pick-exactly-one"
    | none =>
      -- sampled classes: all re-assignments of the picked variables of every sample (if there are at most 2^12)
      let vs := (vars.filter (· < n)).eraseDups
      -- (the path samples come first; the number of samples is bounded so that samples × 2^|vars| stays small)
      ((sampleVals n A res).take (max 100 (65536 >>> vs.length))).findSome? fun v =>
        if vs.length > maxRel then
          if evalArr res (asVal v) && !evalArr A (asVal v) then some "pick-subset(sampled)" else none
        else
        let cls := reassign vs v
        let inA := cls.filter fun w => evalArr A (asVal w)
        let inR := cls.filter fun w => evalArr res (asVal w)
        if !(inR.all fun w => evalArr A (asVal w)) then some "pick-subset(sampled)"
        else if (if inA.isEmpty then inR.length == 0 else inR.length == 1) then none
        else some "pick-exactly-one(sampled)"),
    pickCount n res A vars]

/-- `var_pick` with preferred value `pref` -/
def checkVarPick (n : Nat) (res A : Arr) (x : Nat) (pref : Bool) : Option String :=
  match tables n res A [x] with
  | some (m, tr, ta, pos) =>
    let x := (pos x).getD 0
    let ok := (List.range (2 ^ m)).all fun i =>
      let j := setBit m i x (!bitOf m i x)
      tr[i]! == (ta[i]! && (bitOf m i x == pref || !ta[j]!))
    if ok then none else some "var-pick-preferred"
  | none =>
    if (sampleVals n A res).all fun v =>
        [false, true].all fun b =>
          let w := setV v x b; let tw := setV w x (!b)
          evalArr res (asVal w) == (evalArr A (asVal w) && (b == pref || !evalArr A (asVal tw)))
      then none else some "var-pick-preferred(sampled)"

def checkQuant (n : Nat) (res A : Arr) (x : Nat) (isEx : Bool) : Option String :=
  match tables n res A [x] with
  | some (m, tr, ta, pos) =>
    let x := (pos x).getD 0
    let ok := (List.range (2 ^ m)).all fun i =>
      let a := ta[setBit m i x false]!; let b := ta[setBit m i x true]!
      tr[i]! == (if isEx then a || b else a && b)
    if ok then none else some "projection"
  | none =>
    if (sampleVals n A res).all fun v =>
        let a := evalArr A (asVal (setV v x false)); let b := evalArr A (asVal (setV v x true))
        evalArr res (asVal v) == (if isEx then a || b else a && b) then none else some "projection(sampled)"

def showO : Outcome Arr → String
  | .ok a => showArr a
  | .err _ => "err"
  | .panic _ => "panic"

def nontrivial (res : Option Arr) (A : Arr) : Bool := res.any fun r => r.size > 2 && r != A

def hasDup (vars : List Nat) : Bool := vars.eraseDups.length != vars.length

/-- assembling a verdict: `claim` = the operand and the variables are within the property (valid operand,
    variables below `num_vars`); outside of it only the outcome kind and the model agreement are reported -/
def verdict (model res : String) (A : Arr) (inScope : Bool) (pred : Arr → Option String) (tags : List String) : Verdict :=
  let obs := parseArr? res
  let fail := if !inScope then none else
    match obs with
    | some R => pred R
    | none => some ("outcome:" ++ res)
  { agree := model == res, model, fail, nontrivial := nontrivial obs A, tags }

/-- inputs with a variable OUTSIDE the variable set (`≥ num_vars`) are outside the property's quantifier: no clause
    is evaluated, whatever was observed (a panic, a value, or `hang` = the call did not return within the per-case
    limit); the verdict only says whether the observation is the model's outcome (`OK`) or not (`DIS`) -/
def oorVerdict (model res : String) (tags : List String) : Verdict :=
  { agree := model == res, model, fail := none, nontrivial := false, tags := tags ++ ["oor"] }

def szTag (A : Arr) : String :=
  let n := numVars A
  if A.size > 65536 then s!"n{n},big" else if n ≥ 54 then s!"wide{Nat.log2 n}" else s!"n{n}"

def handle (key : String) (ins obs0 : List String) : Verdict :=
  -- the watchdog's observation is the single field `hang`; the kinds with two observed fields get an empty second one
  let obs := if obs0 == ["hang"] && (key == "C06.vpickr" || key == "C06.pickr" || key == "C06.coin") then ["hang", "~"] else obs0
  match key, ins, obs with
  | "C06.coin", [flips], [got, pos] =>
    let fl := parseBits flips
    let model := showBits fl
    { agree := model == got && pos == toString fl.length, model,
      fail := if got == model then none else some "coin-convention", nontrivial := false, tags := ["coin"] }
  | "C06.vsel", [a, x, b], [res] =>
    match parseArr? a, x.toNat? with
    | some A, some x =>
      let n := numVars A; let b := b == "1"
      let canonIn := isCanon A
      if !(x < n) then oorVerdict (showArr (varSelect A x b)) res ["vsel"] else
      verdict (showArr (varSelect A x b)) res A true
        (fun R => firstFail [checkSelect n R A [(x, b)], canonClause R])
        ["vsel", szTag A, if canonIn then "canon" else "noncanon"]
    | _, _ => Verdict.bad "args"
  | "C06.select", [a, lits], [res] =>
    match parseArr? a, parseLits? lits with
    | some A, some ls =>
      let n := numVars A
      let canonIn := isCanon A
      if !(ls.all (·.1 < n)) then oorVerdict (showArr (select A ls)) res ["select"] else
      verdict (showArr (select A ls)) res A true
        (fun R => firstFail [checkSelect n R A ls, canonClause R])
        ["select", szTag A, s!"lits{ls.length}", if hasDup (ls.map (·.1)) then "rep" else "norep",
          if canonIn then "canon" else "noncanon"]
    | _, _ => Verdict.bad "args"
  | "C06.vres", [a, x, b], [res] =>
    match parseArr? a, x.toNat? with
    | some A, some x =>
      let n := numVars A; let b := b == "1"
      let canonIn := isCanon A
      if !(x < n) then oorVerdict (showArr (varRestrict A x b)) res ["vres"] else
      verdict (showArr (varRestrict A x b)) res A true
        (fun R => firstFail [checkRestrict n R A [(x, b)], canonClause R])
        ["vres", szTag A, if canonIn then "canon" else "noncanon", "inrange"]
    | _, _ => Verdict.bad "args"
  | "C06.restrict", [a, lits], [res] =>
    match parseArr? a, parseLits? lits with
    | some A, some ls =>
      let n := numVars A
      let canonIn := isCanon A
      if !(ls.all (·.1 < n)) then oorVerdict (showArr (restrict A ls)) res ["restrict"] else
      verdict (showArr (restrict A ls)) res A true
        (fun R => firstFail [checkRestrict n R A ls, canonClause R])
        ["restrict", szTag A, s!"lits{ls.length}", if hasDup (ls.map (·.1)) then "rep" else "norep",
          if canonIn then "canon" else "noncanon", "inrange"]
    | _, _ => Verdict.bad "args"
  | "C06.vpick", [a, x], [res] =>
    match parseArr? a, x.toNat? with
    | some A, some x =>
      let n := numVars A
      if x < n then
        verdict (showO (varPickO A x)) res A true
          (fun R => firstFail [checkVarPick n R A x false, checkPick n R A [x], canonClause R]) ["vpick", szTag A]
      else
        oorVerdict (showO (varPickO A x)) res ["vpick"]
    | _, _ => Verdict.bad "args"
  | "C06.vpickr", [a, x, flips], [res, pos] =>
    match parseArr? a, x.toNat? with
    | some A, some x =>
      let n := numVars A
      let coin := (drawCoin (parseBits flips)).1
      if x < n then
        let v := verdict (showO (varPickRandomO A x coin)) res A true
          (fun R => firstFail [checkVarPick n R A x coin, checkPick n R A [x], canonClause R,
            if pos == "1" then none else some "draws"]) ["vpickr", szTag A]
        { v with agree := v.agree && pos == "1" }
      else
        oorVerdict (showO (varPickRandomO A x coin)) res ["vpickr"]
    | _, _ => Verdict.bad "args"
  | "C06.pick", [a, vars], [res] =>
    match parseArr? a, parseVars? vars with
    | some A, some vs =>
      let n := numVars A
      if vs.all (· < n) then
        -- `pick(&[])` is `clone()`: canonical only if the operand is
        verdict (showO (pickO A vs)) res A true
          (fun R => firstFail [checkPick n R A vs, if vs.isEmpty && !isCanon A then none else canonClause R])
          ["pick", szTag A, s!"vars{vs.length}", if hasDup vs then "dup" else "nodup"]
      else
        oorVerdict (showO (pickO A vs)) res ["pick"]
    | _, _ => Verdict.bad "args"
  | "C06.pickr", [a, vars, flips], [res, pos] =>
    match parseArr? a, parseVars? vars with
    | some A, some vs =>
      let n := numVars A
      let fl := parseBits flips
      if vs.all (· < n) then
        let draws := toString (pickRandomDraws vs)
        let v := verdict (showO (pickRandomO A vs fl)) res A true
          (fun R => firstFail [checkPick n R A vs, if vs.isEmpty && !isCanon A then none else canonClause R])
          ["pickr", szTag A, s!"vars{vs.length}", if hasDup vs then "dup" else "nodup"]
        { v with agree := v.agree && pos == draws }
      else
        oorVerdict (showO (pickRandomO A vs fl)) res ["pickr"]
    | _, _ => Verdict.bad "args"
  | "C06.vex", [a, x], [res] =>
    match parseArr? a, x.toNat? with
    | some A, some x =>
      let n := numVars A
      if x < n then
        verdict (showO (Rel.varExistsO A x)) res A true
          (fun R => firstFail [checkQuant n R A x true, canonClause R]) ["vex", szTag A]
      else
        oorVerdict (showO (Rel.varExistsO A x)) res ["vex"]
    | _, _ => Verdict.bad "args"
  | "C06.vall", [a, x], [res] =>
    match parseArr? a, x.toNat? with
    | some A, some x =>
      let n := numVars A
      if x < n then
        verdict (showO (Rel.varForAllO A x)) res A true
          (fun R => firstFail [checkQuant n R A x false, canonClause R]) ["vall", szTag A]
      else
        oorVerdict (showO (Rel.varForAllO A x)) res ["vall"]
    | _, _ => Verdict.bad "args"
  | _, _, _ => Verdict.bad ("key " ++ key)

end B.Drive.C06
