import BddVerif.Drive.Util
import BddVerif.Model.Parser
import BddVerif.Model.ParserRef
/-!
Driver for C14. For every observed case it
* recomputes the outcome with the MODEL (`Parser.parse`, `Parser.display`) — correspondence, and
* evaluates the property's own predicate on the OBSERVED outcome with an INDEPENDENT reference
  parser: a flat lexer (no token tree, parentheses are ordinary tokens) followed by a classical
  recursive-descent parser for the declarative grammar
    iff ::= imp '<=>' iff | imp      imp ::= cond '=>' imp | cond     cond ::= or '?' or ':' or | or
    or ::= and '|' or | and          and ::= xor '&' and | xor        xor ::= term '^' xor | term
    term ::= '!' term | id | true | false | '(' iff ')'
  which shares no code and no strategy with the model (the model splits at the first occurrence of an
  operator in a token tree, the reference parser reads left to right with one token of look-ahead).
-/
namespace B.Drive.C14
open B B.Drive B.Parser B.ParserRef

/-! ### text plumbing -/

def hexVal (c : Char) : Nat :=
  if '0' ≤ c ∧ c ≤ '9' then c.toNat - '0'.toNat
  else if 'A' ≤ c ∧ c ≤ 'F' then c.toNat - 'A'.toNat + 10
  else if 'a' ≤ c ∧ c ≤ 'f' then c.toNat - 'a'.toNat + 10 else 0

def pctBytes : List Char → ByteArray → ByteArray
  | '%' :: a :: b :: tl, acc => pctBytes tl (acc.push (UInt8.ofNat (16 * hexVal a + hexVal b)))
  | c :: tl, acc => pctBytes tl (acc.push (UInt8.ofNat c.toNat))
  | [], acc => acc

/-- percent-decoding without the `~` convention -/
def decRaw (s : String) : Option (List Char) :=
  (String.fromUTF8? (pctBytes s.toList ByteArray.empty)).map (·.toList)

/-- a string field: `~` is the empty string -/
def dec (s : String) : Option (List Char) := if s == "~" then some [] else decRaw s

def hexDigit (n : Nat) : Char := if n < 10 then Char.ofNat (48 + n) else Char.ofNat (55 + n)

def pctByte (b : UInt8) : String := String.ofList ['%', hexDigit (b.toNat / 16), hexDigit (b.toNat % 16)]

def enc (cs : List Char) : String :=
  let bytes := (String.ofList cs).toUTF8
  let o := bytes.foldl (fun (acc : String) b =>
    if 0x21 ≤ b.toNat ∧ b.toNat ≤ 0x7e ∧ b.toNat ≠ 0x25 ∧ b.toNat ≠ 0x7e ∧ b.toNat ≠ 0x3b ∧
        ¬(acc.isEmpty ∧ b.toNat = 0x3d)   -- a leading `=` is escaped (field separator is ` =>`)
    then acc.push (Char.ofNat b.toNat) else acc ++ pctByte b) ""
  if o.isEmpty then "~" else o

def encName (cs : List Char) : String :=
  (String.ofList cs).toUTF8.foldl (fun (acc : String) b =>
    let c := Char.ofNat b.toNat
    if c.isAlphanum || c == '_' then acc.push c else acc ++ pctByte b) ""

def sexp : Expr → String
  | .const true => "c1"
  | .const false => "c0"
  | .var n => "v(" ++ encName n ++ ")"
  | .not e => "not(" ++ sexp e ++ ")"
  | .and l r => "and(" ++ sexp l ++ "," ++ sexp r ++ ")"
  | .or l r => "or(" ++ sexp l ++ "," ++ sexp r ++ ")"
  | .xor l r => "xor(" ++ sexp l ++ "," ++ sexp r ++ ")"
  | .imp l r => "imp(" ++ sexp l ++ "," ++ sexp r ++ ")"
  | .iff l r => "iff(" ++ sexp l ++ "," ++ sexp r ++ ")"
  | .cond c t e => "ite(" ++ sexp c ++ "," ++ sexp t ++ "," ++ sexp e ++ ")"

/-- reader of the S-expression form; fuel = length of the text -/
def unsexpGo : Nat → List Char → Option (Expr × List Char)
  | 0, _ => none
  | fuel + 1, cs =>
    let head := cs.takeWhile (fun c => c != '(' && c != ',' && c != ')')
    let rest := cs.dropWhile (fun c => c != '(' && c != ',' && c != ')')
    let h := String.ofList head
    if h == "c1" then some (.const true, rest)
    else if h == "c0" then some (.const false, rest)
    else match rest with
      | '(' :: r1 =>
        if h == "v" then
          let nm := r1.takeWhile (· != ')')
          match r1.dropWhile (· != ')'), decRaw (String.ofList nm) with
          | ')' :: r2, some name => some (.var name, r2)
          | _, _ => none
        else
          let un (k : Expr → Expr) : Option (Expr × List Char) :=
            match unsexpGo fuel r1 with
            | some (a, ')' :: r2) => some (k a, r2)
            | _ => none
          let bin (k : Expr → Expr → Expr) : Option (Expr × List Char) :=
            match unsexpGo fuel r1 with
            | some (a, ',' :: r2) =>
              match unsexpGo fuel r2 with
              | some (b, ')' :: r3) => some (k a b, r3)
              | _ => none
            | _ => none
          if h == "not" then un .not
          else if h == "and" then bin .and
          else if h == "or" then bin .or
          else if h == "xor" then bin .xor
          else if h == "imp" then bin .imp
          else if h == "iff" then bin .iff
          else if h == "ite" then
            match unsexpGo fuel r1 with
            | some (a, ',' :: r2) =>
              match unsexpGo fuel r2 with
              | some (b, ',' :: r3) =>
                match unsexpGo fuel r3 with
                | some (c, ')' :: r4) => some (.cond a b c, r4)
                | _ => none
              | _ => none
            | _ => none
          else none
      | _ => none

def unsexp (s : String) : Option Expr :=
  match unsexpGo (s.length + 1) s.toList with
  | some (e, []) => some e
  | _ => none

def showOutcome : Outcome Expr → String
  | .ok e => "ok " ++ sexp e
  | .err _ => "err"
  | .panic _ => "panic"

def showShort : Outcome Expr → String
  | .ok e => "o" ++ sexp e
  | .err _ => "e"
  | .panic _ => "p"

def showRef : Option Expr → String
  | some e => "ok " ++ sexp e
  | none => "err"

def showRefShort : Option Expr → String
  | some e => "o" ++ sexp e
  | none => "e"

/-! ### batches -/

def tokens : Array String := #["a", "b", "true", "false", "!", "&", "|", "^", "=>", "<=>", "?", ":", "(", ")"]

def render (ids : List Nat) : List Char := (" ".intercalate (ids.map fun i => tokens[i]!)).toList

def parseIds (s : String) : List Nat := if s == "~" then [] else s.toList.map hexVal

/-- completion number `j` of `k` more tokens, first added token most significant -/
def completion (k j : Nat) : List Nat := (List.range k).map fun i => (j / 14 ^ (k - 1 - i)) % 14

/-- parser-safe name: non-empty, no whitespace, no `NOT_IN_VAR_NAME` character, not a keyword
    (independent formulation used by the round-trip predicate) -/
def safeName (s : List Char) : Bool :=
  !s.isEmpty && s.all (fun c => !refWs c && !refSpecial c) && s != "true".toList && s != "false".toList

def safeNames : Expr → Bool
  | .const _ => true
  | .var s => safeName s
  | .not e => safeNames e
  | .and l r | .or l r | .xor l r | .imp l r | .iff l r => safeNames l && safeNames r
  | .cond c t e => safeNames c && safeNames t && safeNames e

def Expr.size : Expr → Nat
  | .const _ | .var _ => 1
  | .not e => 1 + Expr.size e
  | .and l r | .or l r | .xor l r | .imp l r | .iff l r => 1 + Expr.size l + Expr.size r
  | .cond c t e => 1 + Expr.size c + Expr.size t + Expr.size e

def firstMismatch (xs ys : List String) (i : Nat := 0) : Option Nat :=
  match xs, ys with
  | [], [] => none
  | x :: xs, y :: ys => if x == y then firstMismatch xs ys (i + 1) else some i
  | _, _ => some i


/-! ### depth boundaries: the shapes of `harness/src/bin/c14.rs: deep_string / deep_tree` -/

def rep (d : Nat) (s : String) : List Char := (List.replicate d s.toList).flatten

def deepString (shape : String) (d : Nat) : Option (List Char) :=
  match shape with
  | "paren" => some (rep d "(" ++ "a".toList ++ rep d ")")
  | "parenop" => some (rep d "(" ++ "a & b".toList ++ rep d ")")
  | "rightand" => some (rep d "(a & " ++ "a".toList ++ rep d ")")
  | "leftand" => some (rep d "(" ++ "a".toList ++ rep d " & a)")
  | "flatand" => some ("a".toList ++ rep d " & a")
  | "flatimp" => some ("a".toList ++ rep d "=>b")
  | "notchain" => some (rep d "!" ++ "a".toList)
  | "notparen" => some (rep d "!(" ++ "a".toList ++ rep d ")")
  | "condright" => some (rep d "(a ? b : " ++ "c".toList ++ rep d ")")
  | "condleft" => some (rep d "(" ++ "a".toList ++ rep d " ? b : c)")
  | "condmid" => some (rep d "(a ? " ++ "b".toList ++ rep d " : c)")
  | "mixed" =>
    let ops : Array String := #["=>", "<=>", "|", "^", "&"]
    some (((List.range d).map fun i => ("(a " ++ ops[i % 5]! ++ " ").toList).flatten ++ "a".toList ++ rep d ")")
  | "unbalopen" => some (rep d "(" ++ "a".toList ++ rep (d - 1) ")")
  | "unbalclose" => some (rep (d - 1) "(" ++ "a".toList ++ rep d ")")
  | _ => none

def deepTree (shape : String) (d : Nat) : Option Expr :=
  let va := Expr.var ['a']
  let step (i : Nat) (acc : Expr) : Option Expr :=
    match shape with
    | "t-right" => some (.and va acc)
    | "t-left" => some (.or acc va)
    | "t-not" => some (.not acc)
    | "t-condelse" => some (.cond va (.var ['b']) acc)
    | "t-condcond" => some (.cond acc va (.const false))
    | "t-mixed" => some (match i % 6 with
        | 0 => .imp va acc | 1 => .iff acc va | 2 => .xor va acc | 3 => .not acc
        | 4 => .cond va acc (.const true) | _ => .or acc va)
    | _ => none
  (List.range d).foldl (fun acc i => acc.bind (step i)) (some va)

/-- nesting depth up to which the real parser must not exhaust an 8 MB native stack (observed limit of the
    release build: between 9 000 and 11 000 levels) -/
def safeDepth : Nat := 5000

/-- a native stack overflow (`crash`) or a hang is reported as a violation only up to this depth: a factor 10
    below the observed limit, so that a harmless change of the parser's frame sizes cannot trip it -/
def crashClaimDepth : Nat := 1000

def handle (key : String) (ins obs : List String) : Verdict :=
  match key, ins, obs with
  | k, ins', ["hang"] =>
    -- the runner's observation for a case that did not return. Returning Ok/Err for every string is part of
    -- the statement; printing/round trip only for parser-safe trees; depth only up to `crashClaimDepth`.
    let inQuantifier :=
      if k == "C14.rtu" then false
      else if k == "C14.rt" then (ins'.head?.bind unsexp).any safeNames
      else if k == "C14.deep" then (ins'.getD 1 "").toNat?.any (· ≤ crashClaimDepth)
      else true
    { agree := false, model := "returns", nontrivial := false, tags := ["hang", k],
      fail := if inQuantifier then some "did-not-return" else none }
  | "C14.tok", [x], o | "C14.chr", [x], o | "C14.rnd", [x], o =>
    match dec x with
    | none => Verdict.bad "encoding"
    | some cs =>
      let observed := " ".intercalate o
      let model := showOutcome (parse cs)
      let want := showRef (reference cs)
      let fail := if observed == "panic" then some "never-panics"
        else if observed == want then none
        else if want == "err" then some ("accepted-outside-grammar:expected=err")
        else if observed == "err" then some ("rejected-grammar-string:expected=" ++ want)
        else some ("wrong-tree:expected=" ++ want)
      { agree := model == observed, model, fail,
        nontrivial := cs.length > 0,
        tags := [(o.headD "?"), s!"len{Nat.log2 (cs.length + 1)}"] ++
          (if cs.contains '(' then ["paren"] else []) ++ (if cs.contains '?' then ["cond"] else []) }
  | "C14.deep", [shape, d], (text :: o) =>
    match d.toNat? with
    | none => Verdict.bad "args"
    | some d =>
      let tree := deepTree shape d
      let observed := " ".intercalate o
      if observed == "crash" then
        { agree := true, model := "-",
          fail := if d ≤ crashClaimDepth then some s!"native-stack-exhausted-at-depth-{d}" else none,
          nontrivial := true, tags := ["deep", shape, "crash", if d ≤ safeDepth then "withinSafeDepth" else "beyond"] }
      else match tree with
      | some e =>
        -- tree shapes: the OBSERVED printed text decides (its exact spelling is agreement only)
        match dec text with
        | none => Verdict.bad "encoding"
        | some ps =>
          let shown := display e
          let model := showOutcome (parse shown)
          let fail := if text == "panic" || observed == "panic" then some "never-panics"
            else if reference ps != some e then some "printed-form-is-not-a-grammar-string-for-the-tree"
            else if observed != "ok " ++ sexp e then some s!"round-trip:depth-{d}:observed={observed.take 60}"
            else none
          { agree := enc shown == text && model == observed, model := (model.take 200).toString, fail,
            nontrivial := true, tags := ["deep", shape, s!"depth{d}", o.headD "?"] }
      | none =>
        match deepString shape d with
        | none => Verdict.bad "shape"
        | some cs =>
          if enc cs != text then Verdict.bad "harness and driver build different texts for this shape" else
          let model := showOutcome (parse cs)
          let want := showRef (reference cs)
          let fail := if observed == "panic" then some "never-panics"
            else if observed == want then none
            else some s!"depth-{d}:expected={want.take 60}:observed={observed.take 60}"
          { agree := model == observed, model := (model.take 200).toString, fail, nontrivial := true,
            tags := ["deep", shape, s!"depth{d}", o.headD "?"] }
  | "C14.tokb", [p, k], [res] =>
    match k.toNat? with
    | none => Verdict.bad "args"
    | some k =>
      let prefixIds := parseIds p
      let items := res.splitOn ";"
      let total := 14 ^ k
      let strs := (List.range total).map fun j => render (prefixIds ++ completion k j)
      let modelItems := strs.map fun cs => showShort (parse cs)
      let wantItems := strs.map fun cs => showRefShort (reference cs)
      let fail :=
        if items.any (· == "p") then
          some ("never-panics:" ++ enc (strs.getD ((items.findIdx? (· == "p")).getD 0) []))
        else match firstMismatch items wantItems with
          | none => none
          | some i => some (s!"grammar:input={enc (strs.getD i [])}:expected={wantItems.getD i "?"}:observed={items.getD i "?"}")
      let agree := items == modelItems
      let oks := (items.filter (·.startsWith "o")).length
      { agree, model := (match firstMismatch items modelItems with
          | some i => s!"input={enc (strs.getD i [])}:model={modelItems.getD i "?"}"
          | none => "-"),
        fail, nontrivial := true, tags := ["batch", s!"batchOk{Nat.log2 (oks + 1)}"] }
  | "C14.wsb", [st, cnt], [res] | "C14.wsm", [st, cnt], [res] =>
    match st.toNat?, cnt.toNat? with
    | some st, some cnt =>
      let middle := key == "C14.wsm"
      let cls (f : List Char → Option (Option Expr)) (cp : Nat) : Char :=
        if (0xD800 ≤ cp ∧ cp ≤ 0xDFFF) ∨ cp > 0x10FFFF then '-' else
        let c := Char.ofNat cp
        let text := if middle then ['a', c, 'b'] else ['a', c]
        match f text with
        | none => 'p'
        | some none => 'e'
        | some (some (.var n)) => if n = ['a'] then 'w' else if n = text then 'i' else 'o'
        | some (some _) => 'o'
      let viaModel := fun cs => match parse cs with | .ok e => some (some e) | .err _ => some none | .panic _ => none
      let viaRef := fun cs => some (reference cs)
      let model := String.ofList ((List.range cnt).map fun i => cls viaModel (st + i))
      let want := String.ofList ((List.range cnt).map fun i => cls viaRef (st + i))
      let fail := if res.contains 'p' then some "never-panics"
        else if res == want then none
        else
          let i := (firstMismatch (res.toList.map toString) (want.toList.map toString)).getD 0
          some s!"whitespace-or-identifier-class:codepoint={st + i}"
      { agree := model == res, model := (if model == res then "-" else
          s!"codepoint={st + (firstMismatch (res.toList.map toString) (model.toList.map toString)).getD 0}"),
        fail, nontrivial := res.contains 'w' || res.contains 'e', tags := [if middle then "wsm" else "wsb"] }
    | _, _ => Verdict.bad "args"
  | "C14.rt", [t], [printed, k, _tree] | "C14.rt", [t], [printed, k] | "C14.rtu", [t], [printed, k, _tree] | "C14.rtu", [t], [printed, k] =>
    match unsexp t with
    | none => Verdict.bad "sexp"
    | some e =>
      let observed := if obs.length == 3 then k ++ " " ++ (obs.getD 2 "") else k
      let shown := display e
      let model := enc shown ++ " " ++ showOutcome (parse shown)
      let claimed := key == "C14.rt"
      if claimed && !safeNames e then Verdict.bad "harness: unsafe name in the safe stream" else
      let fail :=
        -- parsing any string must return (also the printed form of a tree over unsafe names) …
        if observed == "panic" then some "never-panics"
        -- … everything about printing is claimed for parser-safe trees only
        else if !claimed then none
        else if printed == "panic" then some "never-panics(Display)"
        else match dec printed with
          | none => some "encoding"
          | some ps =>
            if reference ps != some e then some "printed-form-is-not-a-grammar-string-for-the-tree"
            else if observed != "ok " ++ sexp e then some ("round-trip:parse(display(e))=" ++ observed)
            else none
      { agree := model == printed ++ " " ++ observed, model, fail,
        nontrivial := Expr.size e > 1,
        tags := [if claimed then "rt" else "rt-unsafe", s!"size{Nat.log2 (Expr.size e)}", k] }
  | _, _, _ => Verdict.bad ("key " ++ key)

end B.Drive.C14
