import BddVerif.Drive.C11
def main : IO Unit := B.Drive.runLoop B.Drive.C11.handle
