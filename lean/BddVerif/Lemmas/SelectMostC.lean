import BddVerif.Lemmas.SelectMost
/-!
C11, bottom-up tables for clauses: `most_fixed_clause` (longest path) and `most_free_clause` (shortest path),
one proof parameterised by the direction `mx` (`true` = maximise).
-/
namespace B.Select
open B

/-- `R mx other chosen`: the chosen branch is at least as good as the other one -/
def R (mx : Bool) (other chosen : Nat) : Prop := if mx then other ≤ chosen else chosen ≤ other

theorem R_refl (mx : Bool) (a : Nat) : R mx a a := by cases mx <;> simp [R]
theorem R_trans {mx : Bool} {a b c : Nat} (h1 : R mx a b) (h2 : R mx b c) : R mx a c := by
  cases mx <;> simp [R] at * <;> omega
theorem R_succ {mx : Bool} {a b : Nat} (h : R mx a b) : R mx (a + 1) (b + 1) := by
  cases mx <;> simp [R] at * <;> omega

theorem pairLt_le {a b : Nat × Bool} (h : pairLt a b = true) : a.1 ≤ b.1 := by
  simp [pairLt] at h; omega
theorem not_pairLt_le {a b : Nat × Bool} (h : ¬ pairLt a b = true) : b.1 ≤ a.1 := by
  simp [pairLt] at h; omega

/-- the common shape of `stepFixed` (`mx = true`) and `stepFree` (`mx = false`) -/
def stepC (mx : Bool) (c : Cache) (nd : Node) : Option (Nat × Bool) := if mx then stepFixed c nd else stepFree c nd

/-- what the table records for the decision node `q` -/
def EntryC (A : Arr) (mx : Bool) (c : Cache) (q : Nat) : Prop :=
  ∃ nd m ch, A[q]? = some nd ∧ c[q]? = some (m, ch) ∧ (if ch then nd.high else nd.low) ≠ 0 ∧
    m = score c (if ch then nd.high else nd.low) + 1 ∧
    (ch = true → nd.low = 0 ∨ R mx (score c nd.low) (score c nd.high)) ∧
    (ch = false → nd.high = 0 ∨ R mx (score c nd.high) (score c nd.low))

theorem entryC_mono {A : Arr} {n : Nat} (h : Can A n) (mx : Bool) (c : Cache) (r : Nat × Bool) (q : Nat)
    (hq2 : 2 ≤ q) (hq : q < c.size) (hE : EntryC A mx c q) : EntryC A mx (c.push r) q := by
  obtain ⟨nd, m, ch, hnd, hc, hne, hm, ht, hf⟩ := hE
  obtain ⟨_, hl, hh, _, _, _, _⟩ := h.node hq2 hnd
  have sl : score (c.push r) nd.low = score c nd.low := score_push (by omega)
  have sh : score (c.push r) nd.high = score c nd.high := score_push (by omega)
  have sc : score (c.push r) (if ch then nd.high else nd.low) = score c (if ch then nd.high else nd.low) := by
    cases ch <;> simp [sl, sh]
  refine ⟨nd, m, ch, hnd, ?_, hne, by rw [sc]; exact hm, by rw [sl, sh]; exact ht, by rw [sl, sh]; exact hf⟩
  rw [Array.getElem?_push]
  have : ¬ (q = c.size) := by omega
  simp [this, hc]

theorem stepC_entry {A : Arr} {n : Nat} (h : Can A n) (mx : Bool) (c : Cache) (i : Nat) (nd : Node)
    (hi2 : 2 ≤ i) (hcs : c.size = i) (hnd : A[i]? = some nd) :
    ∃ r, stepC mx c nd = some r ∧ EntryC A mx (c.push r) i := by
  obtain ⟨_, hl, hh, hne, _, _, _⟩ := h.node hi2 hnd
  obtain ⟨el, hel⟩ : ∃ e, c[nd.low]? = some e := ⟨c[nd.low]'(by omega), by simp⟩
  obtain ⟨eh, heh⟩ : ∃ e, c[nd.high]? = some e := ⟨c[nd.high]'(by omega), by simp⟩
  have sl : score c nd.low = el.1 := by simp [score, hel]
  have sh : score c nd.high = eh.1 := by simp [score, heh]
  have psl : ∀ r, score (c.push r) nd.low = el.1 := fun r => by rw [score_push (by omega), sl]
  have psh : ∀ r, score (c.push r) nd.high = eh.1 := fun r => by rw [score_push (by omega), sh]
  have hget : ∀ r : Nat × Bool, (c.push r)[i]? = some r := by
    intro r; rw [Array.getElem?_push]; simp [hcs]
  by_cases hl0 : nd.low = 0
  · have hh0 : nd.high ≠ 0 := by omega
    refine ⟨(eh.1 + 1, true), by cases mx <;> simp [stepC, stepFixed, stepFree, hl0, hh0, heh], nd, _, true, hnd, hget _,
      by simpa using hh0, by simp [psh], fun _ => Or.inl hl0, by simp⟩
  · by_cases hh0 : nd.high = 0
    · refine ⟨(el.1 + 1, false), by cases mx <;> simp [stepC, stepFixed, stepFree, hl0, hh0, hel], nd, _, false, hnd, hget _,
        by simpa using hl0, by simp [psl], by simp, fun _ => Or.inl hh0⟩
    · cases mx
      · -- most_free: high iff `cache[high] < cache[low]`
        by_cases hlt : pairLt eh el = true
        · refine ⟨(eh.1 + 1, true), by simp [stepC, stepFree, hl0, hh0, hel, heh, hlt], nd, _, true, hnd, hget _,
            by simpa using hh0, by simp [psh], fun _ => Or.inr ?_, by simp⟩
          rw [psl, psh]; simpa [R] using pairLt_le hlt
        · refine ⟨(el.1 + 1, false), by simp [stepC, stepFree, hl0, hh0, hel, heh, hlt], nd, _, false, hnd, hget _,
            by simpa using hl0, by simp [psl], by simp, fun _ => Or.inr ?_⟩
          rw [psl, psh]; simpa [R] using not_pairLt_le hlt
      · -- most_fixed: high iff `cache[high] > cache[low]`
        by_cases hlt : pairLt el eh = true
        · refine ⟨(eh.1 + 1, true), by simp [stepC, stepFixed, hl0, hh0, hel, heh, hlt], nd, _, true, hnd, hget _,
            by simpa using hh0, by simp [psh], fun _ => Or.inr ?_, by simp⟩
          rw [psl, psh]; simpa [R] using pairLt_le hlt
        · refine ⟨(el.1 + 1, false), by simp [stepC, stepFixed, hl0, hh0, hel, heh, hlt], nd, _, false, hnd, hget _,
            by simpa using hl0, by simp [psl], by simp, fun _ => Or.inr ?_⟩
          rw [psl, psh]; simpa [R] using not_pairLt_le hlt

structure TableC (A : Arr) (mx : Bool) (c : Cache) : Prop where
  size : c.size = A.size
  one : c[1]? = some (0, true)
  entry : ∀ q, 2 ≤ q → q < A.size → EntryC A mx c q

theorem buildTable_C {A : Arr} {n : Nat} (h : Can A n) (mx : Bool) :
    ∃ c, buildTable A (stepC mx) = some c ∧ TableC A mx c := by
  obtain ⟨c, hc, h1, h2, h3⟩ := buildTable_spec h (stepC mx) (EntryC A mx)
    (fun c r q hq2 hq hE => entryC_mono h mx c r q hq2 hq hE)
    (fun c i nd hi2 hcs hnd _ _ => stepC_entry h mx c i nd hi2 hcs hnd)
  exact ⟨c, hc, h1, h2, h3⟩

/-- every path to the one terminal is no better than the recorded length -/
theorem tableC_bound {A : Arr} {n : Nat} {mx : Bool} {c : Cache} (h : Can A n) (T : TableC A mx c) :
    ∀ p, p < A.size → ∀ ds', IsPath A p ds' 1 → R mx ds'.length (score c p) := by
  intro p
  induction p using Nat.strongRecOn with
  | _ p ih =>
    intro hps ds' hp'
    by_cases hp2 : 2 ≤ p
    · obtain ⟨nd, m, ch, hnd, hc, hne, hm, ht, hf⟩ := T.entry p hp2 hps
      obtain ⟨_, hl, hh, _, _, _, _⟩ := h.node hp2 hnd
      obtain ⟨b', r, rfl, hr⟩ := path_from_node hp2 hnd hp'
      have hk0 : (if b' then nd.high else nd.low) ≠ 0 := by
        intro e; rw [e] at hr; exact no_path_from_zero A r hr
      have hkp : (if b' then nd.high else nd.low) < p := by cases b' <;> simp <;> omega
      have hih := ih _ hkp (by omega) r hr
      rw [score_of_entry hc, hm]
      simp only [List.length_cons]
      apply R_succ
      apply R_trans hih
      cases b' <;> cases ch
      · exact R_refl ..
      · rcases ht rfl with e | e
        · simp at hk0; omega
        · simpa using e
      · rcases hf rfl with e | e
        · simp at hk0; omega
        · simpa using e
      · exact R_refl ..
    · cases ds' with
      | nil =>
        simp only [IsPath] at hp'
        subst hp'
        simp [score, T.one, R_refl]
      | cons d r => obtain ⟨h2, _⟩ := hp'; omega

theorem goodChoice_tableC {A : Arr} {mx : Bool} {c : Cache} (T : TableC A mx c) :
    GoodChoice A (chooseTable c) := by
  intro p nd hp2 hnd
  obtain ⟨nd', m, ch, hnd', hc, hne, _⟩ := T.entry p hp2 (getElem?_lt hnd)
  rw [hnd] at hnd'; cases hnd'
  exact ⟨ch, by simp [chooseTable, hc], hne⟩

theorem tableC_walk {A : Arr} {n : Nat} {mx : Bool} {c : Cache} (h : Can A n) (T : TableC A mx c)
    (fuel p : Nat) (hp1 : 1 ≤ p) (hpf : p ≤ fuel) (hps : p < A.size) :
    ∃ ds, descend A isTerminal (chooseTable c) fuel p = some ds ∧ IsPath A p ds 1 ∧ ds.length = score c p := by
  apply descend_ind h (goodChoice_tableC T) (fun p ds => IsPath A p ds 1 ∧ ds.length = score c p) _ _ fuel p hp1 hpf hps
  · exact ⟨rfl, by simp [score, T.one]⟩
  · intro p nd ch ds hp2 hnd hb _ hP
    obtain ⟨nd', m, ch', hnd', hc, _, hm, _, _⟩ := T.entry p hp2 (getElem?_lt hnd)
    rw [hnd] at hnd'; cases hnd'
    have : ch' = ch := by simpa [chooseTable, hc] using hb
    subst this
    refine ⟨⟨hp2, nd, hnd, rfl, hP.1⟩, ?_⟩
    rw [score_of_entry hc, hm, ← hP.2]
    rfl

theorem tableClause_spec {A : Arr} {n : Nat} (h : Can A n) (mx : Bool) :
    ∃ c ds, tableClause A (stepC mx) = Sel.some c ∧ IsPath A (root A) ds 1 ∧ (∀ k, getC c k = ds.lookup k) ∧
      ∀ ds', IsPath A (root A) ds' 1 → R mx ds'.length ds.length := by
  obtain ⟨t, ht, T⟩ := buildTable_C h mx
  obtain ⟨ds, hd, hpath, hlen⟩ := tableC_walk h T A.size (root A) h.root_pos (by unfold root; omega) h.root_lt
  obtain ⟨c, hc, hget⟩ := walkClause_spec h hd hpath
  refine ⟨c, ds, ?_, hpath, hget, ?_⟩
  · simp [tableClause, h.isFalse, ht, hc]
  · intro ds' hp'
    rw [hlen]
    exact tableC_bound h T (root A) h.root_lt ds' hp'

theorem most_fixed_clause_spec {A : Arr} {n : Nat} (h : Can A n) :
    ∃ c ds, mostFixedClause A = Sel.some c ∧ IsPath A (root A) ds 1 ∧ (∀ k, getC c k = ds.lookup k) ∧
      ∀ ds', IsPath A (root A) ds' 1 → ds'.length ≤ ds.length := by
  obtain ⟨c, ds, h1, h2, h3, h4⟩ := tableClause_spec h true
  exact ⟨c, ds, h1, h2, h3, fun ds' hp' => by simpa [R] using h4 ds' hp'⟩

theorem most_free_clause_spec {A : Arr} {n : Nat} (h : Can A n) :
    ∃ c ds, mostFreeClause A = Sel.some c ∧ IsPath A (root A) ds 1 ∧ (∀ k, getC c k = ds.lookup k) ∧
      ∀ ds', IsPath A (root A) ds' 1 → ds.length ≤ ds'.length := by
  obtain ⟨c, ds, h1, h2, h3, h4⟩ := tableClause_spec h false
  exact ⟨c, ds, h1, h2, h3, fun ds' hp' => by simpa [R] using h4 ds' hp'⟩

/-! ### the number of fixed variables of a path clause is the number of decisions of the path -/

/-- number of fixed variables (`Some` entries) of a clause -/
def numFixed : Clause → Nat
  | [] => 0
  | none :: t => numFixed t
  | some _ :: t => numFixed t + 1

theorem getC_cons_zero (a : Option Bool) (t : Clause) : getC (a :: t) 0 = a := by simp [getC]
theorem getC_cons_succ (a : Option Bool) (t : Clause) (k : Nat) : getC (a :: t) (k + 1) = getC t k := by simp [getC]

theorem numFixed_shift : ∀ (c : Clause) (off : Nat) (ds : List (Nat × Bool)),
    ds.Pairwise (fun a b => a.1 < b.1) → (∀ d ∈ ds, off ≤ d.1) → (∀ k, getC c k = ds.lookup (k + off)) →
    numFixed c = ds.length := by
  intro c
  induction c with
  | nil =>
    intro off ds hs hoff hget
    cases ds with
    | nil => rfl
    | cons d ds =>
      exfalso
      have hd := hoff d (List.mem_cons_self ..)
      have := hget (d.1 - off)
      have e : d.1 - off + off = d.1 := by omega
      rw [e, lookup_of_mem hs (List.mem_cons_self ..)] at this
      simp [getC] at this
  | cons a t ih =>
    intro off ds hs hoff hget
    have h0 := hget 0
    rw [getC_cons_zero, Nat.zero_add] at h0
    have hsucc : ∀ k, getC t k = ds.lookup (k + (off + 1)) := by
      intro k
      have := hget (k + 1)
      rw [getC_cons_succ] at this
      rw [this]
      congr 1; omega
    cases ds with
    | nil =>
      simp [List.lookup] at h0
      subst h0
      simp only [numFixed]
      exact ih (off + 1) [] hs (by intro d hd; cases hd) hsucc
    | cons d ds' =>
      obtain ⟨x, b⟩ := d
      have hx : off ≤ x := hoff (x, b) (List.mem_cons_self ..)
      rw [List.pairwise_cons] at hs
      by_cases hxo : x = off
      · subst hxo
        simp [List.lookup] at h0
        subst h0
        simp only [numFixed, List.length_cons]
        congr 1
        apply ih (x + 1) ds' hs.2
        · intro d hd; have := hs.1 d hd; simp only at this; omega
        · intro k
          rw [hsucc k]
          have hne : (k + (x + 1) == x) = false := by simp; omega
          simp [List.lookup, hne]
      · have hnone : ((x, b) :: ds').lookup off = none :=
          lookup_none_of_lt (fun d hd => by
            rcases List.mem_cons.mp hd with rfl | hd'
            · simp only; omega
            · have := hs.1 d hd'; simp only at this; omega)
        rw [hnone] at h0
        subst h0
        simp only [numFixed]
        apply ih (off + 1) ((x, b) :: ds') (List.pairwise_cons.mpr hs)
        · intro d hd
          rcases List.mem_cons.mp hd with rfl | hd'
          · simp only; omega
          · have := hs.1 d hd'; simp only at this; omega
        · exact hsucc

theorem numFixed_of_path {A : Arr} {n : Nat} (h : Can A n) {c : Clause} {ds : List (Nat × Bool)}
    (hp : IsPath A (root A) ds 1) (hget : ∀ k, getC c k = ds.lookup k) : numFixed c = ds.length := by
  obtain ⟨hs, _, _, _⟩ := path_sorted h ds _ 1 hp h.root_lt
  exact numFixed_shift c 0 ds hs (fun _ _ => Nat.zero_le _) (by simpa using hget)

/-- `most_fixed_clause`: a path clause with the maximal number of fixed variables among all path clauses -/
theorem most_fixed_clause_max {A : Arr} {n : Nat} (h : Can A n) :
    ∃ c, mostFixedClause A = Sel.some c ∧ IsPathClause A c ∧
      ∀ c', IsPathClause A c' → numFixed c' ≤ numFixed c := by
  obtain ⟨c, ds, h1, h2, h3, h4⟩ := most_fixed_clause_spec h
  refine ⟨c, h1, ⟨ds, h2, h3⟩, ?_⟩
  rintro c' ⟨ds', hp', hg'⟩
  rw [numFixed_of_path h hp' hg', numFixed_of_path h h2 h3]
  exact h4 ds' hp'

/-- `most_free_clause`: a path clause with the minimal number of fixed variables among all path clauses -/
theorem most_free_clause_min {A : Arr} {n : Nat} (h : Can A n) :
    ∃ c, mostFreeClause A = Sel.some c ∧ IsPathClause A c ∧
      ∀ c', IsPathClause A c' → numFixed c ≤ numFixed c' := by
  obtain ⟨c, ds, h1, h2, h3, h4⟩ := most_free_clause_spec h
  refine ⟨c, h1, ⟨ds, h2, h3⟩, ?_⟩
  rintro c' ⟨ds', hp', hg'⟩
  rw [numFixed_of_path h hp' hg', numFixed_of_path h h2 h3]
  exact h4 ds' hp'

end B.Select
