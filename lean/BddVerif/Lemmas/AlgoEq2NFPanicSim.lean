import BddVerif.Lemmas.AlgoEq2NFBase
/-!
# `mk_dnf::_rec` / `mk_cnf::_rec`: the generic simulation on the runs where the hand model panics

`loop_panic_genRec`: if `genRec g k cs` panics (through the duplicate assertion or through the clause constructor), the
translated recursion panics too, with the message of `assert_eq!(*cx, c)` or with the message `pm` of the translated
clause constructor — never with `"fuel"` — for every fuel `≥ k + 2 + M`. (The recursive calls on the groups that precede
the panicking one return normally, by `tRec_eq_genRec`.)
-/
namespace B.AlgoEq2NF
open B B.NF B.Gen B.Gen.Algo B.Gen.Algo2 B.AlgoEqUtil

attribute [local instance 10000] Rust.monadOutcomeInline

/-- the leaf round of the loop (lines 16-23), evaluated up to the clause constructor -/
theorem nfStep_leaf_eval (g : Cfg) (cl : Cl) (recf : Nat → Cl → Outcome Arr) (comb : Arr → Arr → Outcome Arr) (var : Nat)
    (c : PVal) (t : List PVal) (h : toL cl = c :: t) (hcond : var = g.n ∨ t = []) :
    ∃ x, x ∈ cl.toList ∧ x.toList = c ∧
      nfStep g cl recf comb (none, var) =
        if allDuplicates (c :: t) = true then (g.leaf x).bind fun r => .ok (.done (some r, var))
        else .panic dupMsg := by
  obtain ⟨hne, h0, hc, ht, hsz⟩ := toL_cons h
  refine ⟨cl[0], by simp, hc, ?_⟩
  unfold nfStep
  have hc2 : (var == g.n || cl.size == 1) = true := by
    rcases hcond with e | e
    · simp [e]
    · subst e; simp at hsz; simp [hsz]
  simp only [hne, Bool.false_eq_true, if_false, hc2, if_true]
  have hidx : Rust.idx cl 0 = .ok cl[0] := by simp [Rust.idx, h0]
  have hsl : Rust.sliceFrom cl 1 = .ok (cl.extract 1 cl.size) := by
    unfold Rust.sliceFrom; rw [if_pos (by omega)]
  rw [hidx, hsl]
  simp only [Outcome.bind]
  rw [dup_loop]
  have hall : (cl.extract 1 cl.size).toList.all (fun cx => clauseEq cx.toList cl[0].toList) =
      allDuplicates (c :: t) := by
    simp only [allDuplicates]
    unfold toL at ht
    rw [← ht, List.all_map, hc]
    rfl
  rw [hall]
  by_cases hd : allDuplicates (c :: t) = true
  · rw [if_pos hd, if_pos hd]
  · rw [if_neg hd, if_neg hd]

theorem loop_panic_genRec (g : Cfg) (P : Arr → Arr → Prop) (M : Nat) (pm : String)
    (hcomb : ∀ f A B, P A B → M ≤ f → g.comb f A B = .ok (g.combM A B)) :
    ∀ (k fuel j var : Nat) (cl : Cl) (mm : String), var + k = g.n → k + 1 ≤ j → k + 1 + M ≤ fuel →
      (∀ x, x ∈ cl.toList → ∀ r, g.leafM x.toList = .ok r → g.leaf x = .ok r) →
      (∀ x, x ∈ cl.toList → ∀ m, g.leafM x.toList = .panic m → g.leaf x = .panic pm) →
      CombOK g P k (toL cl) → genRec g k (toL cl) = .panic mm →
      (iter (nfStep g cl (tRec g fuel) (g.comb fuel)) j (none, var)).bind nfPost = .panic pm ∨
      (iter (nfStep g cl (tRec g fuel) (g.comb fuel)) j (none, var)).bind nfPost = .panic dupMsg := by
  intro k
  induction k with
  | zero =>
    intro fuel j var cl mm hvk hj _ hleaf hleafP _ hr
    obtain ⟨j, rfl⟩ : ∃ j', j = j' + 1 := ⟨j - 1, by omega⟩
    rw [iter_succ]
    rcases hcs : toL cl with _ | ⟨c, t⟩
    · rw [hcs] at hr; simp only [genRec] at hr; cases hr
    · rw [hcs] at hr
      simp only [genRec] at hr
      obtain ⟨x, hx, hxc, hst⟩ := nfStep_leaf_eval g cl (tRec g fuel) (g.comb fuel) var c t hcs (Or.inl (by omega))
      rw [hst]
      by_cases hd : allDuplicates (c :: t) = true
      · rw [if_pos hd] at hr ⊢
        rw [hleafP x hx mm (by rw [hxc]; exact hr)]
        left; rfl
      · rw [if_neg hd]
        right; rfl
  | succ k ih =>
    intro fuel j var cl mm hvk hj hfuel hleaf hleafP hok hr
    obtain ⟨j, rfl⟩ : ∃ j', j = j' + 1 := ⟨j - 1, by omega⟩
    rw [iter_succ]
    match hcs : toL cl with
    | [] => rw [hcs, genRec_nil] at hr; cases hr
    | [c] =>
      rw [hcs] at hr
      simp only [genRec] at hr
      obtain ⟨x, hx, hxc, hst⟩ := nfStep_leaf_eval g cl (tRec g fuel) (g.comb fuel) var c [] hcs (Or.inr rfl)
      rw [hst, if_pos (by simp [allDuplicates]), hleafP x hx mm (by rw [hxc]; exact hr)]
      left; rfl
    | c1 :: c2 :: t =>
      have hvar : g.n - (k + 1) = var := by omega
      rw [nfStep_inner g cl _ _ var c1 c2 t hcs (by omega)]
      rw [hcs] at hr hok
      simp only [genRec, hvar] at hr
      simp only [CombOK, hvar] at hok
      rw [hcs]
      rcases hany : ((c1 :: c2 :: t).any fun c => (c.get var).isSome) with _ | _
      · rw [hany] at hr hok
        simp only [Bool.not_false, if_true] at hr hok ⊢
        rw [← hcs] at hr hok
        exact ih fuel j (var + 1) cl mm (by omega) (by omega) (by omega) hleaf hleafP hok hr
      · rw [hany] at hr hok
        simp only [Bool.not_true, Bool.false_eq_true, if_false] at hr hok ⊢
        obtain ⟨ok1, ok2, ok3, hP⟩ := hok
        obtain ⟨fuel, rfl⟩ : ∃ f', fuel = f' + 1 := ⟨fuel - 1, by omega⟩
        have hsubOk : ∀ (o : Option Bool) (res : Arr),
            CombOK g P k ((c1 :: c2 :: t).filter fun c => c.get var == o) →
            genRec g k ((c1 :: c2 :: t).filter fun c => c.get var == o) = .ok res →
            tRec g (fuel + 1) (var + 1) (splitA cl.toList var o) = .ok res := by
          intro o res hok' hres
          rw [← hcs, ← toL_splitA] at hok' hres
          exact loop_eq_genRec g P M hcomb k fuel fuel (var + 1) (splitA cl.toList var o) res (by omega) (by omega)
            (by omega) (fun x hx => hleaf x (mem_splitA hx)) hok' hres
        have hsubP : ∀ (o : Option Bool) (m' : String),
            CombOK g P k ((c1 :: c2 :: t).filter fun c => c.get var == o) →
            genRec g k ((c1 :: c2 :: t).filter fun c => c.get var == o) = .panic m' →
            tRec g (fuel + 1) (var + 1) (splitA cl.toList var o) = .panic pm ∨
            tRec g (fuel + 1) (var + 1) (splitA cl.toList var o) = .panic dupMsg := by
          intro o m' hok' hres
          rw [← hcs, ← toL_splitA] at hok' hres
          exact ih fuel fuel (var + 1) (splitA cl.toList var o) m' (by omega) (by omega) (by omega)
            (fun x hx => hleaf x (mem_splitA hx)) (fun x hx => hleafP x (mem_splitA hx)) hok' hres
        rcases e1 : genRec g k (splitNone (c1 :: c2 :: t) var) with dc | m | m
        · rw [e1] at hr
          rw [hsubOk none dc ok1 e1]
          rcases e2 : genRec g k (splitTrue (c1 :: c2 :: t) var) with ht | m | m
          · rw [e2] at hr
            rw [hsubOk (some true) ht ok2 e2]
            rcases e3 : genRec g k (splitFalse (c1 :: c2 :: t) var) with hf | m | m
            · rw [e3] at hr; cases hr
            · rw [e3] at hr; cases hr
            · rcases hsubP (some false) m ok3 e3 with h | h <;> rw [h]
              · left; rfl
              · right; rfl
          · rw [e2] at hr; cases hr
          · rcases hsubP (some true) m ok2 e2 with h | h <;> rw [h]
            · left; rfl
            · right; rfl
        · rw [e1] at hr; cases hr
        · rcases hsubP none m ok1 e1 with h | h <;> rw [h]
          · left; rfl
          · right; rfl

/-- the translated recursion panics with the constructor's or the duplicate assertion's message whenever the hand model
    panics, for every fuel `≥ k + 2 + M` -/
theorem tRec_panic_genRec (g : Cfg) (P : Arr → Arr → Prop) (M : Nat) (pm : String)
    (hcomb : ∀ f A B, P A B → M ≤ f → g.comb f A B = .ok (g.combM A B))
    (k fuel var : Nat) (cl : Cl) (mm : String) (hvk : var + k = g.n) (hfuel : k + 2 + M ≤ fuel)
    (hleaf : ∀ x, x ∈ cl.toList → ∀ r, g.leafM x.toList = .ok r → g.leaf x = .ok r)
    (hleafP : ∀ x, x ∈ cl.toList → ∀ m, g.leafM x.toList = .panic m → g.leaf x = .panic pm)
    (hok : CombOK g P k (toL cl)) (hr : genRec g k (toL cl) = .panic mm) :
    tRec g fuel var cl = .panic pm ∨ tRec g fuel var cl = .panic dupMsg := by
  obtain ⟨fuel, rfl⟩ : ∃ f', fuel = f' + 1 := ⟨fuel - 1, by omega⟩
  exact loop_panic_genRec g P M pm hcomb k fuel fuel var cl mm hvk (by omega) (by omega) hleaf hleafP hok hr

end B.AlgoEq2NF
