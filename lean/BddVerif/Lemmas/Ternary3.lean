import BddVerif.Lemmas.Ternary2
namespace B
open Std

/-! Ternary simulation, part 3: `finishN3` delivers the contract of the parent task. -/

/-- the state after the `is_not_empty` update of `finish3` -/
def flagSt3 (s : St3) (p1 p2 : Nat) : St3 := if p1 = 1 ∨ p2 = 1 then { s with nonEmpty := true } else s

theorem flagSt3_res (s : St3) (p1 p2 : Nat) : (flagSt3 s p1 p2).res = s.res := by
  unfold flagSt3; split <;> rfl
theorem flagSt3_existing (s : St3) (p1 p2 : Nat) : (flagSt3 s p1 p2).existing = s.existing := by
  unfold flagSt3; split <;> rfl
theorem flagSt3_finished (s : St3) (p1 p2 : Nat) : (flagSt3 s p1 p2).finished = s.finished := by
  unfold flagSt3; split <;> rfl
theorem flagSt3_nonEmpty (s : St3) (p1 p2 : Nat) :
    (flagSt3 s p1 p2).nonEmpty = (s.nonEmpty || decide (p1 = 1 ∨ p2 = 1)) := by
  unfold flagSt3; split
  · rename_i h; simp [h]
  · rename_i h; simp [h]

theorem Inv3.flagSt3 {Γ : Ctx3} {c : Bool → Bool → Bool → Bool} {s : St3} (hs : Inv3 Γ c s) (p1 p2 : Nat) :
    Inv3 Γ c (flagSt3 s p1 p2) := by
  refine ⟨?_, ?_, ?_, ?_⟩
  · rw [flagSt3_res]; exact hs.red
  · rw [flagSt3_res, flagSt3_existing]; exact hs.ex
  · rw [flagSt3_res, flagSt3_finished]; exact hs.fin
  · rw [flagSt3_finished, flagSt3_nonEmpty]
    intro a b e p h hp
    rw [hs.ne a b e p h hp]; rfl

theorem finishN3_eq (s : St3) (t : Nat × Nat × Nat) (d p1 p2 : Nat) :
    finishN3 s t d p1 p2 =
      if p2 = p1 then ({ flagSt3 s p1 p2 with finished := (flagSt3 s p1 p2).finished.insert t p2 }, p2)
      else
        ({ (findOrPush3 (flagSt3 s p1 p2) ⟨d, p2, p1⟩).1 with
            finished := (findOrPush3 (flagSt3 s p1 p2) ⟨d, p2, p1⟩).1.finished.insert t
              (findOrPush3 (flagSt3 s p1 p2) ⟨d, p2, p1⟩).2 },
         (findOrPush3 (flagSt3 s p1 p2) ⟨d, p2, p1⟩).2) := rfl

/-- structural facts about `finishN3` -/
theorem finishN3_facts (Γ : Ctx3) (c : Bool → Bool → Bool → Bool) (s : St3) (hs : Inv3 Γ c s)
    (t : Nat × Nat × Nat) (d p1 p2 : Nat) (hd : p2 ≠ p1 → d < Γ.n) :
    ((finishN3 s t d p1 p2).1.res, (finishN3 s t d p1 p2).2) = mkRes s.res d p1 p2 ∧
    (∀ (nd' : Node) (i : Nat), nd'.var < Γ.n →
      ((finishN3 s t d p1 p2).1.existing[nd']? = some i ↔
        2 ≤ i ∧ (finishN3 s t d p1 p2).1.res[i]? = some nd')) ∧
    (finishN3 s t d p1 p2).1.finished = s.finished.insert t (finishN3 s t d p1 p2).2 ∧
    (finishN3 s t d p1 p2).1.nonEmpty = (s.nonEmpty || decide (p1 = 1 ∨ p2 = 1)) := by
  rw [finishN3_eq]
  unfold mkRes
  by_cases h : p2 = p1
  · simp only [h, if_true]
    refine ⟨?_, ?_, ?_, ?_⟩
    · rw [flagSt3_res]
    · rw [flagSt3_res, flagSt3_existing]; exact hs.ex
    · rw [flagSt3_finished]
    · rw [flagSt3_nonEmpty]
  · simp only [h, if_false]
    obtain ⟨f1, f2, f3, f4⟩ := findOrPush3_spec Γ c (flagSt3 s p1 p2) (hs.flagSt3 p1 p2) ⟨d, p2, p1⟩ (hd h)
    rw [flagSt3_res] at f1
    rw [flagSt3_finished] at f3
    rw [flagSt3_nonEmpty] at f4
    exact ⟨f1, f2, by rw [f3], f4⟩

/-- generic re-establishment of the invariant after a task has been finished -/
theorem Inv3.step {Γ : Ctx3} {c : Bool → Bool → Bool → Bool} {s2 o : St3} (hs2 : Inv3 Γ c s2)
    (hred : Red o.res Γ.n) (hpre : Prefix s2.res o.res)
    (hex : ∀ (nd : Node) (i : Nat), nd.var < Γ.n → (o.existing[nd]? = some i ↔ 2 ≤ i ∧ o.res[i]? = some nd))
    (a b e p : Nat) (hfin : o.finished = s2.finished.insert (a, b, e) p)
    (hp : p < o.res.size)
    (hvar : Γ.lvl a b e ≤ varOf o.res Γ.n p)
    (hev : ∀ v, ev o.res v p = Γ.G c a b e v)
    (hmono : s2.nonEmpty = true → o.nonEmpty = true)
    (hne : p ≠ 0 → o.nonEmpty = true) : Inv3 Γ c o := by
  refine ⟨hred, hex, ?_, ?_⟩
  · intro a' b' e' p' h
    rw [hfin, HashMap.getElem?_insert] at h
    split at h
    · rename_i hk
      have hk' : (a, b, e) = (a', b', e') := by simpa using hk
      cases hk'; cases h
      exact ⟨hp, hvar, hev⟩
    · obtain ⟨x, y, z⟩ := hs2.fin a' b' e' p' h
      refine ⟨by have := hpre.1; omega, ?_, ?_⟩
      · rw [varOf_prefix hpre _ x]; exact y
      · intro v; rw [ev_prefix hs2.red hred hpre v _ x]; exact z v
  · intro a' b' e' p' h hp'
    rw [hfin, HashMap.getElem?_insert] at h
    split at h
    · cases h; exact hne hp'
    · exact hmono (hs2.ne a' b' e' p' h hp')

theorem Ctx3.lvl_le (Γ : Ctx3) (c : Bool → Bool → Bool → Bool) (ok : Γ.Ok c) (a b e : Nat) : Γ.lvl a b e ≤ Γ.n := by
  have := ok.wfA.varOf_le a; unfold Ctx3.lvl; omega

/-- `finishN3` meets the contract of the parent task (at its decision level d) -/
theorem finishN3_out (Γ : Ctx3) (c : Bool → Bool → Bool → Bool) (ok : Γ.Ok c) (s s2 : St3) (a b e d p1 p2 : Nat)
    (hs : Inv3 Γ c s) (hs2 : Inv3 Γ c s2) (ha : a < Γ.A.size) (hb : b < Γ.B.size) (he : e < Γ.C.size)
    (hd : d = Γ.lvl a b e)
    (hdn : p2 ≠ p1 → d < Γ.n)
    (htarget : ins Γ.n (Γ.n - d) d (Γ.G c a b e) s.res = mkRes s2.res d p1 p2)
    (hne1 : 2 ≤ p1 → s2.nonEmpty = true) (hne2 : 2 ≤ p2 → s2.nonEmpty = true)
    (hmono : s.nonEmpty = true → s2.nonEmpty = true)
    (hfalse : (∀ v, Γ.G c a b e v = false) → s2.nonEmpty = s.nonEmpty ∧ p1 = 0 ∧ p2 = 0) :
    OutR3 Γ c s a b e d (finishN3 s2 (a, b, e) d p1 p2) := by
  have hdle : d ≤ Γ.n := by rw [hd]; exact Γ.lvl_le c ok a b e
  have hlv : d ≤ varOf Γ.A Γ.n a ∧ d ≤ varOf Γ.B Γ.n b ∧ d ≤ varOf Γ.C Γ.n e := by
    rw [hd]; unfold Ctx3.lvl; omega
  obtain ⟨fa, fb, fc, fd⟩ := finishN3_facts Γ c s2 hs2 (a, b, e) d p1 p2 hdn
  rw [← htarget] at fa
  obtain ⟨tred, tpre, tlt, tvar, tev⟩ := ins_spec (Γ.n - d) d (Γ.G c a b e) s.res hs.red (by omega)
    (fun v w hvw => Γ.G_indep c ok a b e ha hb he d hlv.1 hlv.2.1 hlv.2.2 v w hvw)
  rw [← fa] at tred tpre tlt tvar tev
  simp only at tred tpre tlt tvar tev
  generalize ho : finishN3 s2 (a, b, e) d p1 p2 = o at *
  have hpre2 : Prefix s2.res o.1.res := by
    have := mkRes_prefix s2.res d p1 p2
    rw [← htarget, ← fa] at this; exact this
  have ho2 : p2 = p1 → o.2 = p2 := by
    intro h
    have := congrArg Prod.snd fa
    rw [htarget] at this
    simp only [mkRes, h, if_true] at this
    rw [this, h]
  have hflag : (p1 ≠ 0 ∨ p2 ≠ 0) → o.1.nonEmpty = true := by
    intro h
    rw [fd]
    by_cases h1 : p1 = 1 ∨ p2 = 1
    · simp [h1]
    · have : 2 ≤ p1 ∨ 2 ≤ p2 := by omega
      rcases this with h2 | h2
      · simp [hne1 h2]
      · simp [hne2 h2]
  have hnz : o.2 ≠ 0 → o.1.nonEmpty = true := by
    intro h
    apply hflag
    by_cases he : p2 = p1
    · have := ho2 he; omega
    · omega
  have hmono2 : s2.nonEmpty = true → o.1.nonEmpty = true := by
    intro h; rw [fd, h]; rfl
  refine ⟨⟨?_, fa, ?_, fun h => hnz (by omega), fun h => hmono2 (hmono h)⟩, hnz⟩
  · exact Inv3.step hs2 tred hpre2 fb a b e o.2 fc tlt (by rw [← hd]; exact tvar) tev hmono2 hnz
  · intro hF
    obtain ⟨e', z1, z2⟩ := hfalse hF
    rw [fd, e', z1, z2]; simp

/-- the contract at the decision level implies the contract at any shallower entry level -/
theorem OutR3.lower {Γ : Ctx3} {c : Bool → Bool → Bool → Bool} (ok : Γ.Ok c) {s : St3} (hs : Inv3 Γ c s)
    {a b e d k : Nat} {out : St3 × Nat} (ha : a < Γ.A.size) (hb : b < Γ.B.size) (he : e < Γ.C.size)
    (hd : d = Γ.lvl a b e) (hk : k ≤ d)
    (h : OutR3 Γ c s a b e d out) : OutR3 Γ c s a b e k out := by
  have hdle : d ≤ Γ.n := by rw [hd]; exact Γ.lvl_le c ok a b e
  have hlv : d ≤ varOf Γ.A Γ.n a ∧ d ≤ varOf Γ.B Γ.n b ∧ d ≤ varOf Γ.C Γ.n e := by
    rw [hd]; unfold Ctx3.lvl; omega
  refine ⟨⟨h.inv, ?_, h.neFalse, h.neTrue, h.mono⟩, h.nz⟩
  rw [h.eq]
  exact (ins_skip_many hs.red (Γ.G c a b e) (d - k) k d (by omega) hdle
    (fun v w hvw => Γ.G_indep c ok a b e ha hb he d hlv.1 hlv.2.1 hlv.2.2 v w hvw)).symm

end B
