import BddVerif.Model.Dot
import BddVerif.Lemmas.SerialIO
/-!
`write_as_dot_string` into a scripted sink: the chunking of the sink is invisible, a consumed hard error (or a
zero-length write) is returned as `Err`, and whatever reached the sink is a prefix of the text.
-/
namespace B.Dot
open B B.Serial

theorem writePieces_true_out : ∀ (ps : List (List UInt8)) (script : List Ev),
    (writePieces script ps).1 = true → (writePieces script ps).2.1 = ps.flatten := by
  intro ps
  induction ps with
  | nil => intro script _; rfl
  | cons p ps ih =>
    intro script h
    rcases hw : writeAll script p with ⟨ok, out, s'⟩
    simp only [writePieces, hw] at h ⊢
    cases ok with
    | false => simp at h
    | true =>
      simp only at h ⊢
      have hout : out = p := by
        have := writeAll_true_out script p (by rw [hw])
        rw [hw] at this; exact this
      have := ih s' h
      simp only [List.flatten_cons, hout, this]

/-- a sink without hard error and without zero-length writes (any chunk sizes, any interruptions): `Ok`, and exactly
    the text reached the sink — for every way of cutting the text into `write_all` pieces -/
theorem writeDotPieces_ok (pieces : List (List UInt8)) (script : List Ev) (h : ScriptOk script) :
    writeDotPieces pieces script = (true, pieces.flatten) := by
  obtain ⟨s', _, e⟩ := writePieces_ok pieces script h
  simp [writeDotPieces, e]

/-! ### the pieces are a division of the text -/

theorem byteArray_toList_loop (bs : ByteArray) : ∀ (k i : Nat) (r : List UInt8), bs.size - i = k →
    ByteArray.toList.loop bs i r = r.reverse ++ bs.data.toList.drop i := by
  intro k
  induction k with
  | zero =>
    intro i r h
    rw [ByteArray.toList.loop]
    have : ¬ i < bs.size := by omega
    rw [if_neg this, List.drop_of_length_le (by simp only [Array.length_toList]; exact Nat.le_of_not_lt this)]
    simp
  | succ k ih =>
    intro i r h
    rw [ByteArray.toList.loop]
    have hi : i < bs.size := by omega
    rw [if_pos hi, ih (i + 1) _ (by omega)]
    have hd : bs.data.toList.drop i = bs.data[i] :: bs.data.toList.drop (i + 1) := by
      rw [List.drop_eq_getElem_cons (by simpa using hi)]
      simp
    have hg : bs.get! i = bs.data[i] := by
      simp [ByteArray.get!, hi]
    rw [hd, hg]
    simp

theorem byteArray_toList (bs : ByteArray) : bs.toList = bs.data.toList := by
  unfold ByteArray.toList
  rw [byteArray_toList_loop bs bs.size 0 [] rfl]
  simp

theorem textBytes_append (s t : String) : textBytes (s ++ t) = textBytes s ++ textBytes t := by
  unfold textBytes
  simp only [byteArray_toList, String.toUTF8_eq_toByteArray, String.toByteArray_append, ByteArray.data_append,
    Array.toList_append]

theorem textBytes_ofList (l : List Char) : textBytes (String.ofList l) = l.flatMap String.utf8EncodeChar := by
  unfold textBytes
  rw [byteArray_toList, String.toUTF8_eq_toByteArray, String.toByteArray_ofList, List.utf8Encode,
    List.toList_data_toByteArray]

theorem header_piece_ne : textBytes (String.ofList (tHeader ++ ['\n'])) ≠ [] := by
  rw [textBytes_ofList]; decide

theorem textBytes_empty : textBytes (String.ofList []) = [] := by
  simp [textBytes, byteArray_toList, String.toUTF8_eq_toByteArray]

theorem textBytes_flatten : ∀ (ps : List (List Char)),
    (ps.map fun cs => textBytes (String.ofList cs)).flatten = textBytes (String.ofList ps.flatten)
  | [] => textBytes_empty.symm
  | p :: ps => by
    simp only [List.map_cons, List.flatten_cons, String.ofList_append, textBytes_append, textBytes_flatten ps]

theorem stmtPieces_flatten (s : Stmt) : (stmtPieces s).flatten = renderStmt s ++ ['\n'] := by
  cases s <;> simp [stmtPieces, renderStmt]

theorem pieces_chars : ∀ (ss : List Stmt),
    (ss.flatMap stmtPieces).flatten = ss.flatMap fun s => renderStmt s ++ ['\n']
  | [] => rfl
  | s :: ss => by
    simp only [List.flatMap_cons, List.flatten_append, stmtPieces_flatten, pieces_chars ss]

/-- the `write_all` pieces of a statement list are a division of the bytes of its text -/
theorem piecesOf_flatten (ss : List Stmt) : (piecesOf ss).flatten = textBytes (render ss) := by
  unfold piecesOf render
  rw [textBytes_flatten, pieces_chars]

/-! ### `writeDotIO` -/

theorem takeWhile_length_eq {α} (p : α → Bool) : ∀ (l : List α),
    (l.takeWhile p).length = l.length ↔ ∀ x ∈ l, p x = true
  | [] => by simp
  | a :: l => by
    simp only [List.takeWhile_cons]
    cases h : p a with
    | false => simp [h]
    | true =>
      simp only [if_true, List.length_cons, List.mem_cons, forall_eq_or_imp, h, true_and]
      rw [← takeWhile_length_eq p l]; omega

/-- all decision nodes have a named variable iff the model's export does not hit `var_names[var]` out of bounds -/
theorem named_all_iff (A : Arr) (names : List String) :
    (namedPrefix A names).length = (innerPtrs A).length ↔
      ((innerPtrs A).any fun p => decide (names.length ≤ (nodeAt A p).var)) = false := by
  unfold namedPrefix
  rw [takeWhile_length_eq, List.any_eq_false]
  constructor
  · intro h p hp; have := h p hp; simp at this ⊢; omega
  · intro h p hp; have := h p hp; simp at this ⊢; omega

/-- on a sink without fault the export through the sink is `to_dot_string`: same panics, same text -/
theorem writeDotIO_ok (A : Arr) (names : List String) (pruned : Bool) (script : List Ev) (h : ScriptOk script) :
    writeDotIO A names pruned script = (toDotString A names pruned).map fun t => (true, textBytes t) := by
  unfold writeDotIO toDotString dotStmts
  by_cases h0 : A.size = 0
  · rw [if_pos h0, if_pos h0]; rfl
  rw [if_neg h0, if_neg h0]
  by_cases hn : names.length ≠ numVars A
  · rw [if_pos hn, if_pos hn]; rfl
  rw [if_neg hn, if_neg hn]
  by_cases hall : (namedPrefix A names).length = (innerPtrs A).length
  · have ha := (named_all_iff A names).1 hall
    simp only [hall, if_true, ha, Bool.false_eq_true, if_false, Outcome.map]
    rw [writeDotPieces_ok _ script h, piecesOf_flatten]
  · have ha : ((innerPtrs A).any fun p => decide (names.length ≤ (nodeAt A p).var)) = true := by
      cases hc : (innerPtrs A).any fun p => decide (names.length ≤ (nodeAt A p).var) with
      | true => rfl
      | false => exact absurd ((named_all_iff A names).2 hc) hall
    simp only [hall, if_false, ha, if_true, Outcome.map]
    rw [writeDotPieces_ok _ script h]
    rfl

/-- **order of the code**: a sink error that comes before the node whose variable has no name is returned (no
    panic); if all writes before that node succeed the export panics -/
theorem writeDotIO_bad (A : Arr) (names : List String) (pruned : Bool) (script : List Ev) (h0 : A.size ≠ 0)
    (hn : names.length = numVars A) (hb : (namedPrefix A names).length ≠ (innerPtrs A).length) :
    writeDotIO A names pruned script =
      (let r := writeDotPieces (piecesOf (preamble A pruned ++
          (namedPrefix A names).flatMap (nodeStmts A names pruned))) script
       if r.1 then .panic "index out of bounds: var_names[var]" else .ok r) := by
  unfold writeDotIO
  simp only [h0, if_false, hn, ne_eq, not_true_eq_false, hb]

theorem writeDotIO_good (A : Arr) (names : List String) (pruned : Bool) (script : List Ev) (h0 : A.size ≠ 0)
    (hn : names.length = numVars A) (hb : (namedPrefix A names).length = (innerPtrs A).length) :
    writeDotIO A names pruned script = .ok (writeDotPieces (piecesOf (stmtsOf A names pruned)) script) := by
  unfold writeDotIO
  simp only [h0, if_false, hn, ne_eq, not_true_eq_false, hb, if_true]

/-- any sink: what reached it is a prefix of the text; `Ok` means all of it; `Err` means a fault event
    (hard error or zero-length write) was consumed -/
theorem writeDotPieces_any (pieces : List (List UInt8)) (script : List Ev) :
    (writeDotPieces pieces script).2 <+: pieces.flatten ∧
    ((writeDotPieces pieces script).1 = true → (writeDotPieces pieces script).2 = pieces.flatten) ∧
    ((writeDotPieces pieces script).1 = false → ∃ e ∈ script, isFault e) := by
  obtain ⟨pre, h1, h2, h3⟩ := writePieces_consumed pieces script
  refine ⟨h3, writePieces_true_out pieces script, ?_⟩
  intro hf
  obtain ⟨e, he, hfe⟩ := h2.1 hf
  exact ⟨e, by rw [h1]; simp [he], hfe⟩

/-- a hard error met by the first `write` call is returned -/
theorem writeDotPieces_fail_first (p : List UInt8) (ps : List (List UInt8)) (s : List Ev) (hp : p ≠ []) :
    (writeDotPieces (p :: ps) (.fail :: s)).1 = false := by
  have hl : p.length ≠ 0 := by
    intro h; exact hp (List.eq_nil_of_length_eq_zero h)
  simp [writeDotPieces, writePieces, writeAll, hl]

/-- a hard error of the sink's first `write` call is returned with nothing written — also when some decision node's
    variable has no name (the panic of `to_dot_string` is never reached) -/
theorem writeDotIO_fail_first (A : Arr) (names : List String) (pruned : Bool) (s : List Ev) (h0 : A.size ≠ 0)
    (hn : names.length = numVars A) : writeDotIO A names pruned (.fail :: s) = .ok (false, []) := by
  have hp : ∀ rest : List Stmt, writeDotPieces (piecesOf (preamble A pruned ++ rest)) (.fail :: s) = (false, []) := by
    intro rest
    have : piecesOf (preamble A pruned ++ rest) =
        textBytes (String.ofList (tHeader ++ ['\n'])) :: piecesOf ((preamble A pruned ++ rest).tail) := by
      unfold preamble piecesOf; rfl
    rw [this]
    have hl : (textBytes (String.ofList (tHeader ++ ['\n']))).length ≠ 0 := by
      intro h; exact header_piece_ne (List.eq_nil_of_length_eq_zero h)
    generalize textBytes (String.ofList (tHeader ++ ['\n'])) = p at hl
    have hw : writeAll (.fail :: s) p = (false, [], s) := by
      rw [writeAll]; simp [hl]
    simp only [writeDotPieces, writePieces, hw]
  by_cases hb : (namedPrefix A names).length = (innerPtrs A).length
  · rw [writeDotIO_good A names pruned _ h0 hn hb]
    unfold stmtsOf
    rw [List.append_assoc, hp]
  · rw [writeDotIO_bad A names pruned _ h0 hn hb]
    simp only [hp]
    rfl

/-- the outcome of a budget sink does not depend on how the text is cut into pieces -/
theorem budgetPieces_spec : ∀ (ps : List (List UInt8)) (b : Nat),
    budgetPieces b ps = if b < ps.flatten.length then (false, ps.flatten.take b) else (true, ps.flatten)
  | [], b => by simp [budgetPieces]
  | p :: ps, b => by
    rw [budgetPieces]
    by_cases h0 : p.length = 0
    · have : p = [] := List.eq_nil_of_length_eq_zero h0
      subst this
      simp [budgetPieces_spec ps b]
    · rw [if_neg h0]
      by_cases hle : p.length ≤ b
      · rw [if_pos hle]
        simp only [budgetPieces_spec ps (b - p.length), List.flatten_cons, List.length_append]
        by_cases hlt : b - p.length < ps.flatten.length
        · have : b < p.length + ps.flatten.length := by omega
          simp only [hlt, this, if_true, List.take_append, List.take_of_length_le hle]
        · have : ¬ b < p.length + ps.flatten.length := by omega
          simp only [hlt, this, if_false]
      · rw [if_neg hle]
        have : b < p.length + ps.flatten.length := by omega
        simp only [List.flatten_cons, List.length_append, this, if_true]
        rw [List.take_append_of_le_length (by omega)]

end B.Dot
