import BddVerif.Model.Dot
import BddVerif.Lemmas.SerialIO
/-!
`write_as_dot_string` into a scripted sink: the chunking of the sink is invisible, a consumed hard error (or a
zero-length write) is returned as `Err`, and whatever reached the sink is a prefix of the text.
-/
namespace B.Dot
open B B.Serial

theorem writePieces_true_out : ∀ (ps : List (List UInt8)) (script : List Ev),
    (writePieces script ps).1 = true → (writePieces script ps).2.1 = ps.flatten := by
  intro ps
  induction ps with
  | nil => intro script _; rfl
  | cons p ps ih =>
    intro script h
    rcases hw : writeAll script p with ⟨ok, out, s'⟩
    simp only [writePieces, hw] at h ⊢
    cases ok with
    | false => simp at h
    | true =>
      simp only at h ⊢
      have hout : out = p := by
        have := writeAll_true_out script p (by rw [hw])
        rw [hw] at this; exact this
      have := ih s' h
      simp only [List.flatten_cons, hout, this]

/-- a sink without hard error and without zero-length writes (any chunk sizes, any interruptions): `Ok`, and exactly
    the text reached the sink — for every way of cutting the text into `write_all` pieces -/
theorem writeDotPieces_ok (pieces : List (List UInt8)) (script : List Ev) (h : ScriptOk script) :
    writeDotPieces pieces script = (true, pieces.flatten) := by
  obtain ⟨s', _, e⟩ := writePieces_ok pieces script h
  simp [writeDotPieces, e]

theorem writeDotIO_ok (A : Arr) (names : List String) (pruned : Bool) (script : List Ev) (h : ScriptOk script) :
    writeDotIO A names pruned script = (toDotString A names pruned).map fun t => (true, textBytes t) := by
  unfold writeDotIO
  congr 1
  funext t
  obtain ⟨s', _, e⟩ := writeAll_ok script (textBytes t) h
  simp [e]

/-- any sink: what reached it is a prefix of the text; `Ok` means all of it; `Err` means a fault event
    (hard error or zero-length write) was consumed -/
theorem writeDotPieces_any (pieces : List (List UInt8)) (script : List Ev) :
    (writeDotPieces pieces script).2 <+: pieces.flatten ∧
    ((writeDotPieces pieces script).1 = true → (writeDotPieces pieces script).2 = pieces.flatten) ∧
    ((writeDotPieces pieces script).1 = false → ∃ e ∈ script, isFault e) := by
  obtain ⟨pre, h1, h2, h3⟩ := writePieces_consumed pieces script
  refine ⟨h3, writePieces_true_out pieces script, ?_⟩
  intro hf
  obtain ⟨e, he, hfe⟩ := h2.1 hf
  exact ⟨e, by rw [h1]; simp [he], hfe⟩

/-- a hard error met by the first `write` call is returned -/
theorem writeDotPieces_fail_first (p : List UInt8) (ps : List (List UInt8)) (s : List Ev) (hp : p ≠ []) :
    (writeDotPieces (p :: ps) (.fail :: s)).1 = false := by
  have hl : p.length ≠ 0 := by
    intro h; exact hp (List.eq_nil_of_length_eq_zero h)
  simp [writeDotPieces, writePieces, writeAll, hl]

end B.Dot
