import BddVerif.Lemmas.NormalFormSem
/-!
Lemmas for C10, part 2: chain diagrams. One node per literal, taken in strictly increasing variable order;
the link that agrees with the literal continues down the chain, the other one leaves to a terminal.
With exit terminal 0 and final terminal 1 this is the conjunctive clause (`mk_conjunctive_clause`,
`mk_partial_valuation`), with exit terminal 1 and final terminal 0 (the "shadow root") it is the disjunctive
clause. The reference builder produces exactly these arrays, so they are canonical.
-/
namespace B.NF
open B

/-- chain diagram: for the entry `(x, go)` the link taken when `v x = go` continues to the rest of the chain, the
    other one goes to the terminal `ofBool e`; the chain ends in the terminal `ofBool (!e)`.
    Second component: pointer to the top of the chain. -/
def chainArr (n : Nat) (e : Bool) : List (Nat × Bool) → Arr × Nat
  | [] => (mkTrue n, ofBool (!e))
  | (x, go) :: t =>
    let r := chainArr n e t
    (r.1.push (if go then ⟨x, ofBool e, r.2⟩ else ⟨x, r.2, ofBool e⟩), r.1.size)

/-- the function of a chain -/
def chainFn (e : Bool) : List (Nat × Bool) → (Nat → Bool) → Bool
  | [], _ => !e
  | (x, go) :: t, v => if v x = go then chainFn e t v else e

/-- variables strictly increasing, at least `k`, below `n` -/
def SortedFrom (n : Nat) : Nat → List (Nat × Bool) → Prop
  | k, [] => k ≤ n
  | k, l :: t => k ≤ l.1 ∧ l.1 < n ∧ SortedFrom n (l.1 + 1) t

theorem SortedFrom.le {n : Nat} : ∀ {lits k}, SortedFrom n k lits → k ≤ n
  | [], _, h => h
  | _ :: _, _, h => by have := h.1; have := h.2.1; omega

theorem SortedFrom.mono {n : Nat} : ∀ {lits k k'}, SortedFrom n k lits → k' ≤ k → SortedFrom n k' lits
  | [], _, _, h, hk => Nat.le_trans hk h
  | _ :: _, _, _, h, hk => ⟨Nat.le_trans hk h.1, h.2.1, h.2.2⟩

theorem chainFn_dep {n : Nat} (e : Bool) : ∀ lits k, SortedFrom n k lits → ∀ v w : Nat → Bool,
    (∀ i, k ≤ i → i < n → v i = w i) → chainFn e lits v = chainFn e lits w := by
  intro lits
  induction lits with
  | nil => intro k _ v w _; rfl
  | cons l t ih =>
    intro k h v w hvw
    obtain ⟨x, go⟩ := l
    have e1 : v x = w x := hvw _ h.1 h.2.1
    have e2 := ih (x + 1) h.2.2 v w (fun i hi hin => hvw i (by have := h.1; simp only at this; omega) hin)
    simp only [chainFn]
    rw [e1, e2]

theorem findNode_eq_none {A : Arr} {nd : Node} (h : ∀ p, 2 ≤ p → A[p]? ≠ some nd) : findNode A nd = none := by
  unfold findNode
  rw [List.find?_eq_none]
  intro p _
  simp only [Bool.and_eq_true, decide_eq_true_eq, beq_iff_eq, not_and]
  intro hp
  exact h p hp

theorem root_push (A : Arr) (nd : Node) : root (A.push nd) = A.size := by simp [root]

theorem ofBool_lt2 (b : Bool) : ofBool b < 2 := by cases b <;> simp [ofBool]
theorem ofBool_ne (b : Bool) : ofBool (!b) ≠ ofBool b := by cases b <;> simp [ofBool]

/-- a constant function is the corresponding terminal, nothing is pushed -/
theorem ins_const {A : Arr} {n : Nat} (h : Red A n) (fuel k : Nat) (f : (Nat → Bool) → Bool) (c : Bool)
    (hk : fuel + k = n) (hf : ∀ v, f v = c) : ins n fuel k f A = (A, ofBool c) := by
  apply ins_found h fuel k f (ofBool c) hk (by have := h.size2; have := ofBool_lt2 c; omega)
  · have := ofBool_lt2 c; simp [varOf, this]; omega
  · intro v; rw [hf, ev_ofBool]

/-- the reference builder, started at any level `k` not above the first literal, produces exactly `chainArr` -/
theorem chain_ins (n : Nat) (e : Bool) : ∀ lits k, SortedFrom n k lits →
    ins n (n - k) k (chainFn e lits) (mkTrue n) = chainArr n e lits ∧
    Red (chainArr n e lits).1 n ∧ Prefix (mkTrue n) (chainArr n e lits).1 ∧
    (∀ p nd, 2 ≤ p → (chainArr n e lits).1[p]? = some nd → k ≤ nd.var) ∧
    (chainArr n e lits).2 < (chainArr n e lits).1.size ∧ (chainArr n e lits).2 ≠ ofBool e ∧
    (lits ≠ [] → (chainArr n e lits).2 + 1 = (chainArr n e lits).1.size) := by
  intro lits
  induction lits with
  | nil =>
    intro k hk
    have hk' : k ≤ n := hk
    refine ⟨?_, red_mkTrue n, Prefix.refl _, ?_, ?_, ofBool_ne e, fun h => absurd rfl h⟩
    · show ins n (n - k) k (fun _ => !e) (mkTrue n) = (mkTrue n, ofBool (!e))
      exact ins_const (red_mkTrue n) _ _ _ _ (by omega) (fun _ => rfl)
    · intro p nd hp hnd
      have : (mkTrue n)[p]? = none := Array.getElem?_eq_none (by simp [mkTrue]; omega)
      change (mkTrue n)[p]? = some nd at hnd
      rw [this] at hnd; cases hnd
    · show ofBool (!e) < (mkTrue n).size
      have := ofBool_lt2 (!e); simp [mkTrue]; omega
  | cons l t ih =>
    intro k h
    obtain ⟨x, go⟩ := l
    obtain ⟨hkx, hxn, ht⟩ := h
    simp only at hkx hxn ht
    obtain ⟨ihe, ihred, ihpre, ihvar, ihlt, ihne, _⟩ := ih (x + 1) ht
    have hsorted : SortedFrom n k ((x, go) :: t) := ⟨hkx, hxn, ht⟩
    have hdepx : ∀ v w : Nat → Bool, (∀ i, x ≤ i → i < n → v i = w i) →
        chainFn e ((x, go) :: t) v = chainFn e ((x, go) :: t) w :=
      chainFn_dep e _ x ⟨Nat.le_refl _, hxn, ht⟩
    have hdepk : ∀ v w : Nat → Bool, (∀ i, k ≤ i → i < n → v i = w i) →
        chainFn e ((x, go) :: t) v = chainFn e ((x, go) :: t) w := chainFn_dep e _ k hsorted
    -- cofactors
    have hcof : ∀ (c : Bool) v, chainFn e ((x, go) :: t) (upd v x c) = if c = go then chainFn e t v else e := by
      intro c v
      have : chainFn e t (upd v x c) = chainFn e t v := by
        apply chainFn_dep e t (x + 1) ht
        intro i hi _
        have : i ≠ x := by omega
        simp [upd, this]
      simp only [chainFn]
      rw [this]; simp [upd]
    have hsize : 2 ≤ (chainArr n e t).1.size := by have := ihpre.1; simpa [mkTrue] using this
    have hfuel : n - x = (n - (x + 1)) + 1 := by omega
    -- skip the levels k … x-1
    have hskip : ins n (n - k) k (chainFn e ((x, go) :: t)) (mkTrue n) =
        ins n (n - x) x (chainFn e ((x, go) :: t)) (mkTrue n) :=
      ins_skip_many (red_mkTrue n) _ (x - k) k x (by omega) (by omega) hdepx
    have hnone : ∀ lo hi, findNode (chainArr n e t).1 ⟨x, lo, hi⟩ = none := by
      intro lo hi
      apply findNode_eq_none
      intro p hp hnd
      have := ihvar p _ hp hnd
      simp only at this
      omega
    have hmain : ins n (n - x) x (chainFn e ((x, go) :: t)) (mkTrue n) = chainArr n e ((x, go) :: t) := by
      rw [hfuel]
      cases go with
      | true =>
        have h1 : ins n (n - (x + 1)) (x + 1) (fun v => chainFn e ((x, true) :: t) (upd v x true)) (mkTrue n) =
            ((chainArr n e t).1, (chainArr n e t).2) := by
          have : (fun v => chainFn e ((x, true) :: t) (upd v x true)) = chainFn e t := by
            funext v; rw [hcof]; simp
          rw [this]; exact ihe
        have h2 : ins n (n - (x + 1)) (x + 1) (fun v => chainFn e ((x, true) :: t) (upd v x false))
            (chainArr n e t).1 = ((chainArr n e t).1, ofBool e) :=
          ins_const ihred _ _ _ _ (by omega) (fun v => by rw [hcof]; simp)
        rw [ins_succ' h1 h2]
        rw [if_neg (fun e' => ihne e'.symm), hnone]
        rfl
      | false =>
        have h1 : ins n (n - (x + 1)) (x + 1) (fun v => chainFn e ((x, false) :: t) (upd v x true)) (mkTrue n) =
            (mkTrue n, ofBool e) :=
          ins_const (red_mkTrue n) _ _ _ _ (by omega) (fun v => by rw [hcof]; simp)
        have h2 : ins n (n - (x + 1)) (x + 1) (fun v => chainFn e ((x, false) :: t) (upd v x false)) (mkTrue n) =
            ((chainArr n e t).1, (chainArr n e t).2) := by
          have : (fun v => chainFn e ((x, false) :: t) (upd v x false)) = chainFn e t := by
            funext v; rw [hcof]; simp
          rw [this]; exact ihe
        rw [ins_succ' h1 h2]
        rw [if_neg ihne, hnone]
        rfl
    have hall := hskip.trans hmain
    have hk : k ≤ n := by omega
    obtain ⟨sred, spre, _, _, _⟩ := ins_spec (n - k) k (chainFn e ((x, go) :: t)) (mkTrue n) (red_mkTrue n)
      (by omega) hdepk
    rw [hall] at sred spre
    have hsz : (chainArr n e ((x, go) :: t)).1.size = (chainArr n e t).1.size + 1 := by
      simp [chainArr]
    have hptr : (chainArr n e ((x, go) :: t)).2 = (chainArr n e t).1.size := rfl
    refine ⟨hall, sred, spre, ?_, by rw [hsz, hptr]; omega, ?_, fun _ => by rw [hsz, hptr]⟩
    · intro p nd hp hnd
      have hnd' : ((chainArr n e t).1.push (if go then ⟨x, ofBool e, (chainArr n e t).2⟩
          else ⟨x, (chainArr n e t).2, ofBool e⟩))[p]? = some nd := hnd
      rw [Array.getElem?_push] at hnd'
      split at hnd'
      · cases hnd'
        cases go <;> simp <;> omega
      · have := ihvar p nd hp hnd'
        omega
    · rw [hptr]; have := ofBool_lt2 e; omega

/-- chain diagrams are canonical (unless the chain is the bare terminal 0) -/
theorem sem_chainArr (n : Nat) (e : Bool) (lits : List (Nat × Bool)) (h : SortedFrom n 0 lits)
    (hne : (chainArr n e lits).2 ≠ 0) : Sem n (chainArr n e lits).1 (chainFn e lits) := by
  obtain ⟨he, _⟩ := chain_ins n e lits 0 h
  refine ⟨?_, fun v w hvw => chainFn_dep e lits 0 h v w (fun i _ hi => hvw i hi)⟩
  unfold canon
  simp only [Nat.sub_zero] at he
  rw [he]
  simp [hne]

end B.NF
