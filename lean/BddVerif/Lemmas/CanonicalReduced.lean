import BddVerif.Lemmas.Canonical
import BddVerif.Drive.Util
/-!
Soundness of the executable structural test `Drive.isReduced` (frozen in `Drive/Util.lean`):
it is first rewritten into a structurally recursive form (`isReducedR`, equality `isReduced_eq`),
then `isReduced A = true` is shown to imply that `A` is the one-node false array or a `Red` array
with exact terminals (`isReduced_sound`).
-/
namespace B
open Std B.Drive

/-- the per-node test of `isReduced` (without the duplicate test) -/
def redBody (A : Arr) (n i : Nat) : Bool :=
  (decide (A[i]!.var < n) && decide (A[i]!.low < i) && decide (A[i]!.high < i) && A[i]!.low != A[i]!.high) &&
  (decide (A[i]!.var < A[A[i]!.low]!.var) && decide (A[i]!.var < A[A[i]!.high]!.var))

/-- the loop of `isReduced` as a structural recursion over the index list -/
def redLoop (A : Arr) (n : Nat) : List Nat → HashSet Node → Bool
  | [], _ => true
  | i :: is, seen => redBody A n i && !seen.contains A[i]! && redLoop A n is (seen.insert A[i]!)

/-- `isReduced` without `do`-notation -/
def isReducedR (A : Arr) : Bool :=
  decide (A.size ≠ 0) && (A[0]! == ⟨numVars A, 0, 0⟩) &&
  (decide (A.size = 1) || ((A[1]! == ⟨numVars A, 1, 1⟩) &&
     redLoop A (numVars A) (List.range' 2 (A.size - 2)) {}))

theorem redLoop_forIn (A : Arr) (n : Nat) : ∀ (l : List Nat) (seen : HashSet Node),
   (forIn (m := Id) l ((none, seen) : Option Bool × HashSet Node) fun i (__s : Option Bool × HashSet Node) =>
                  if
                      (!(decide (A[i]!.var < n) && decide (A[i]!.low < i) && decide (A[i]!.high < i) &&
                            A[i]!.low != A[i]!.high)) =
                        true then
                    pure (ForInStep.done (some false, __s.snd))
                  else
                    if
                        (!(decide (A[i]!.var < A[A[i]!.low]!.var) && decide (A[i]!.var < A[A[i]!.high]!.var))) =
                          true then
                      pure (ForInStep.done (some false, __s.snd))
                    else
                      if __s.snd.contains A[i]! = true then pure (ForInStep.done (some false, __s.snd))
                      else pure (ForInStep.yield (none, __s.snd.insert A[i]!))).run.fst
              = if redLoop A n l seen then none else some false := by
  intro l
  induction l with
  | nil => intro seen; simp [redLoop]
  | cons i is ih =>
    intro seen
    rw [List.forIn_cons]
    unfold redLoop redBody
    split
    · simp_all; intros; omega
    · split
      · simp_all; intros; omega
      · split
        · simp_all
        · simp_all

/-- the frozen executable test equals its structurally recursive form -/
theorem isReduced_eq (A : Arr) : isReduced A = isReducedR A := by
  unfold isReduced isReducedR
  simp only [Legacy.Range.forIn_eq_forIn_range']
  have hsz : [2:A.size].size = A.size - 2 := by simp [Legacy.Range.size]
  rw [hsz]
  by_cases h0 : A.size = 0
  · simp [h0]
  by_cases h1 : A[0]! = ⟨numVars A, 0, 0⟩
  · by_cases h2 : A.size = 1
    · simp only [h1, h2, if_false, if_true, bne_self_eq_false, Bool.false_eq_true]
      simp
    · by_cases h3 : A[1]! = ⟨numVars A, 1, 1⟩
      · simp only [h0, h1, h2, h3, if_false, bne_self_eq_false, Bool.false_eq_true]
        have := redLoop_forIn A (numVars A) (List.range' 2 (A.size - 2)) ∅
        simp only [Id.run_bind]
        generalize (forIn (m := Id) (List.range' 2 (A.size - 2)) _ _).run = x at this ⊢
        rw [this]
        cases redLoop A (numVars A) (List.range' 2 (A.size - 2)) ∅ <;> simp [h0]
      · simp [h0, h1, h2, h3]
  · simp [h0, h1]

theorem getBang_of_some {A : Arr} {p : Nat} {nd : Node} (h : A[p]? = some nd) : A[p]! = nd := by
  rw [getElem!_def, h]

theorem lt_of_getElem?_some {A : Arr} {p : Nat} {nd : Node} (h : A[p]? = some nd) : p < A.size := by
  rcases Nat.lt_or_ge p A.size with h' | h'
  · exact h'
  · simp [Array.getElem?_eq_none h'] at h

/-- loop invariant: all earlier decision nodes are in `seen` -/
theorem redLoop_inv (A : Arr) (n : Nat) : ∀ (len s : Nat) (seen : HashSet Node),
    (∀ j, 2 ≤ j → j < s → seen.contains A[j]! = true) →
    redLoop A n (List.range' s len) seen = true →
    ∀ i, s ≤ i → i < s + len → redBody A n i = true ∧ ∀ j, 2 ≤ j → j < i → A[j]! ≠ A[i]! := by
  intro len
  induction len with
  | zero => intro s seen _ _ i h1 h2; omega
  | succ len ih =>
    intro s seen hseen hloop i hi1 hi2
    rw [List.range'_succ] at hloop
    simp only [redLoop, Bool.and_eq_true, Bool.not_eq_true'] at hloop
    obtain ⟨⟨hb, hnc⟩, hrest⟩ := hloop
    by_cases his : i = s
    · subst his
      refine ⟨hb, ?_⟩
      intro j hj2 hji heq
      have := hseen j hj2 hji
      rw [heq, hnc] at this
      cases this
    · apply ih (s + 1) (seen.insert A[s]!) _ hrest i (by omega) (by omega)
      intro j hj2 hjs
      rw [HashSet.contains_insert]
      by_cases hjs' : j = s
      · subst hjs'; simp
      · simp [hseen j hj2 (by omega)]

/-- soundness of the executable structural test -/
theorem isReduced_sound {A : Arr} (h : isReduced A = true) :
    A = mkFalse (numVars A) ∨
    (Red A (numVars A) ∧ A[0]? = some (zeroN (numVars A)) ∧ A[1]? = some (oneN (numVars A))) := by
  rw [isReduced_eq] at h
  unfold isReducedR at h
  simp only [Bool.and_eq_true, Bool.or_eq_true, decide_eq_true_eq, beq_iff_eq] at h
  obtain ⟨⟨hs0, hz⟩, hrest⟩ := h
  have hs0' : 0 < A.size := by omega
  have hz' : A[0]? = some (zeroN (numVars A)) := by
    rw [Array.getElem?_eq_getElem hs0']
    rw [getBang_of_some (Array.getElem?_eq_getElem hs0')] at hz
    rw [hz]; rfl
  rcases hrest with h1 | ⟨ho, hloop⟩
  · left
    apply Array.ext
    · rw [h1]; rfl
    · intro i hi1 hi2
      have : i = 0 := by omega
      subst this
      have := hz'
      rw [Array.getElem?_eq_getElem hs0'] at this
      simp only [Option.some.injEq] at this
      rw [this]; rfl
  · right
    by_cases hs1 : A.size = 1
    · exfalso
      have : A[1]! = default := by simp [hs1]
      rw [this] at ho
      have hlow := congrArg Node.low ho
      have hd : (default : Node).low = 0 := rfl
      rw [hd] at hlow
      simp at hlow
    have hs2 : 2 ≤ A.size := by omega
    have ho' : A[1]? = some (oneN (numVars A)) := by
      rw [Array.getElem?_eq_getElem (by omega)]
      rw [getBang_of_some (Array.getElem?_eq_getElem (by omega : 1 < A.size))] at ho
      rw [ho]; rfl
    have hinv := redLoop_inv A (numVars A) (A.size - 2) 2 ∅ (fun j h1 h2 => by omega) hloop
    have hvar : ∀ q, q < A.size → varOf A (numVars A) q = A[q]!.var := by
      intro q hq
      unfold varOf
      by_cases hq2 : q < 2
      · rw [if_pos hq2]
        have : q = 0 ∨ q = 1 := by omega
        rcases this with rfl | rfl
        · rw [getBang_of_some hz']; rfl
        · rw [getBang_of_some ho']; rfl
      · rw [if_neg hq2, Array.getElem?_eq_getElem hq]
        simp [hq]
    refine ⟨⟨hs2, ?_, ?_⟩, hz', ho'⟩
    · intro p nd hp2 hnd
      have hps := lt_of_getElem?_some hnd
      obtain ⟨hb, _⟩ := hinv p hp2 (by omega)
      unfold redBody at hb
      rw [getBang_of_some hnd] at hb
      simp only [Bool.and_eq_true, decide_eq_true_eq, bne_iff_ne, ne_eq] at hb
      obtain ⟨⟨⟨⟨a, b⟩, c⟩, d⟩, e, f⟩ := hb
      refine ⟨a, b, c, d, ?_, ?_⟩
      · rw [hvar _ (by omega)]; exact e
      · rw [hvar _ (by omega)]; exact f
    · intro p q nd hp2 hq2 hp hq
      have hps := lt_of_getElem?_some hp
      have hqs := lt_of_getElem?_some hq
      rcases Nat.lt_trichotomy p q with hlt | heq | hgt
      · exfalso
        have := (hinv q hq2 (by omega)).2 p hp2 hlt
        rw [getBang_of_some hp, getBang_of_some hq] at this
        exact this rfl
      · exact heq
      · exfalso
        have := (hinv p hp2 (by omega)).2 q hq2 hgt
        rw [getBang_of_some hp, getBang_of_some hq] at this
        exact this rfl

end B
