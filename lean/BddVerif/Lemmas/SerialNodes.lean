import BddVerif.Model.Serial
import BddVerif.Model.Apply
import BddVerif.Core.Opnd
/-! `from_nodes`, `validate`, `eval_in` (C12 node round trip, C13): what is accepted is well-formed by level
(`WFo`), the loops terminate and never index out of bounds. -/
namespace B.Serial
open B

theorem aidx_eq_ok {α} {xs : Array α} {i : Nat} {x : α} : aidx xs i = .ok x ↔ xs[i]? = some x := by
  unfold aidx
  cases h : xs[i]? <;> simp

theorem aidx_of_lt {α} {xs : Array α} {i : Nat} (h : i < xs.size) : aidx xs i = .ok xs[i] := by
  simp [aidx, h]

/-! ### `from_nodes` -/

/-- the five checks of the loop body of `from_nodes` -/
def NodeChecked (d : Arr) (n : Nat) (nd : Node) : Prop :=
  nd.var < n ∧ nd.low < d.size ∧ nd.high < d.size ∧
  (∃ lc, d[nd.low]? = some lc ∧ nd.var < lc.var) ∧ (∃ hc, d[nd.high]? = some hc ∧ nd.var < hc.var)

theorem fromNodesLoop_spec (d : Arr) (n : Nat) : ∀ l : List Node,
    (fromNodesLoop d n l = .ok () ↔ ∀ nd ∈ l, NodeChecked d n nd) ∧ (fromNodesLoop d n l).isPanic = false := by
  intro l
  induction l with
  | nil => simp [fromNodesLoop, Outcome.isPanic]
  | cons nd rest ih =>
    unfold fromNodesLoop
    by_cases h1 : nd.var ≥ n
    · simp only [h1, if_true]
      exact ⟨⟨fun h => by simp at h, fun h => by have := (h nd (by simp)).1; omega⟩, rfl⟩
    by_cases h2 : nd.low ≥ d.size
    · simp only [h1, h2, if_true, if_false]
      exact ⟨⟨fun h => by simp at h, fun h => by have := (h nd (by simp)).2.1; omega⟩, rfl⟩
    by_cases h3 : nd.high ≥ d.size
    · simp only [h1, h2, h3, if_true, if_false]
      exact ⟨⟨fun h => by simp at h, fun h => by have := (h nd (by simp)).2.2.1; omega⟩, rfl⟩
    simp only [h1, h2, h3, if_false]
    rw [aidx_of_lt (by omega : nd.low < d.size), aidx_of_lt (by omega : nd.high < d.size)]
    simp only
    by_cases h4 : d[nd.low].var ≤ nd.var
    · simp only [h4, if_true]
      refine ⟨⟨fun h => by simp at h, fun h => ?_⟩, rfl⟩
      obtain ⟨lc, hlc, hlt⟩ := (h nd (by simp)).2.2.2.1
      have : d[nd.low]? = some d[nd.low] := by simp [show nd.low < d.size by omega]
      rw [this] at hlc; simp at hlc; rw [← hlc] at hlt; omega
    by_cases h5 : d[nd.high].var ≤ nd.var
    · simp only [h4, h5, if_true, if_false]
      refine ⟨⟨fun h => by simp at h, fun h => ?_⟩, rfl⟩
      obtain ⟨hc, hhc, hlt⟩ := (h nd (by simp)).2.2.2.2
      have : d[nd.high]? = some d[nd.high] := by simp [show nd.high < d.size by omega]
      rw [this] at hhc; simp at hhc; rw [← hhc] at hlt; omega
    simp only [h4, h5, if_false]
    refine ⟨?_, ih.2⟩
    rw [ih.1]
    constructor
    · intro h x hx
      rcases List.mem_cons.mp hx with rfl | hx
      · have e1 : d[x.low]? = some d[x.low] := by simp [show x.low < d.size by omega]
        have e2 : d[x.high]? = some d[x.high] := by simp [show x.high < d.size by omega]
        exact ⟨by omega, by omega, by omega, ⟨d[x.low], e1, by omega⟩, ⟨d[x.high], e2, by omega⟩⟩
      · exact h x hx
    · intro h x hx; exact h x (List.mem_cons_of_mem _ hx)

theorem mem_drop_two {A : Arr} {nd : Node} : nd ∈ A.toList.drop 2 ↔ ∃ p, 2 ≤ p ∧ A[p]? = some nd := by
  rw [List.mem_iff_getElem?]
  constructor
  · rintro ⟨i, hi⟩
    rw [List.getElem?_drop] at hi
    exact ⟨2 + i, by omega, by simpa using hi⟩
  · rintro ⟨p, hp, h⟩
    refine ⟨p - 2, ?_⟩
    rw [List.getElem?_drop]
    have : 2 + (p - 2) = p := by omega
    rw [this]; simpa using h

theorem isZeroNode_iff {nd : Node} : isZeroNode nd = true ↔ nd = ⟨nd.var, 0, 0⟩ := by
  cases nd with
  | mk v l h =>
    simp only [isZeroNode, isTerminalNode, Bool.and_eq_true, beq_iff_eq, Bool.or_eq_true, Node.mk.injEq, true_and]
    constructor
    · rintro ⟨⟨h1, _⟩, h2⟩; exact ⟨h2, by omega⟩
    · rintro ⟨rfl, rfl⟩; simp

theorem isOneNode_iff {nd : Node} : isOneNode nd = true ↔ nd = ⟨nd.var, 1, 1⟩ := by
  cases nd with
  | mk v l h =>
    simp only [isOneNode, isTerminalNode, Bool.and_eq_true, beq_iff_eq, Bool.or_eq_true, Node.mk.injEq, true_and]
    constructor
    · rintro ⟨⟨h1, _⟩, h2⟩; exact ⟨h2, by omega⟩
    · rintro ⟨rfl, rfl⟩; simp

/-- the checks of `from_nodes` as one proposition -/
structure FromNodesChecks (d : Arr) : Prop where
  zero : d[0]? = some ⟨numVars d, 0, 0⟩
  one : 2 ≤ d.size → d[1]? = some ⟨numVars d, 1, 1⟩
  inner : ∀ p nd, 2 ≤ p → d[p]? = some nd → NodeChecked d (numVars d) nd

theorem fromNodes_spec (d : Arr) :
    (∀ b, fromNodes d = .ok b ↔ b = d ∧ FromNodesChecks d) ∧ (fromNodes d).isPanic = false := by
  unfold fromNodes
  by_cases h0 : d.size = 0
  · simp only [h0, if_true]
    refine ⟨fun b => ⟨fun h => by simp at h, fun h => ?_⟩, rfl⟩
    have := h.2.zero
    rw [Array.getElem?_eq_none (by omega)] at this; simp at this
  simp only [h0, if_false]
  have hpos : 0 < d.size := by omega
  rw [aidx_of_lt hpos]
  simp only
  have hnv : numVars d = d[0].var := by simp [numVars, hpos]
  have hd0 : d[0]? = some d[0] := by simp [hpos]
  by_cases hz : isZeroNode d[0] = true
  rotate_left
  · simp only [hz, Bool.not_false, if_true]
    refine ⟨fun b => ⟨fun h => by simp at h, fun h => ?_⟩, rfl⟩
    have := h.2.zero
    rw [hd0] at this
    simp only [Option.some.injEq] at this
    exfalso; apply hz; rw [isZeroNode_iff]; rw [this]
  simp only [hz, Bool.not_true, Bool.false_eq_true, if_false]
  have hz' := isZeroNode_iff.mp hz
  by_cases h1 : d.size > 1
  · simp only [h1, if_true, decide_true, Bool.true_and]
    rw [aidx_of_lt h1]
    simp only
    have hd1 : d[1]? = some d[1] := by simp [h1]
    by_cases ho : isOneNode d[1] = true
    rotate_left
    · simp only [ho, Bool.not_false, if_true]
      refine ⟨fun b => ⟨fun h => by simp at h, fun h => ?_⟩, rfl⟩
      have := h.2.one (by omega)
      rw [hd1] at this
      simp only [Option.some.injEq] at this
      exfalso; apply ho; rw [isOneNode_iff]; rw [this]
    simp only [ho, Bool.not_true, Bool.false_eq_true, if_false]
    have ho' := isOneNode_iff.mp ho
    by_cases hv : d[1].var = d[0].var
    rotate_left
    · have : (d[1].var != d[0].var) = true := by simp [hv]
      simp only [this, if_true]
      refine ⟨fun b => ⟨fun h => by simp at h, fun h => ?_⟩, rfl⟩
      have := h.2.one (by omega)
      rw [hd1, hnv] at this
      simp only [Option.some.injEq] at this
      exfalso; apply hv; rw [this]
    have : (d[1].var != d[0].var) = false := by simp [hv]
    simp only [this, Bool.false_eq_true, if_false]
    obtain ⟨hl1, hl2⟩ := fromNodesLoop_spec d d[0].var (d.toList.drop 2)
    cases hloop : fromNodesLoop d d[0].var (d.toList.drop 2) with
    | panic m => rw [hloop] at hl2; simp [Outcome.isPanic] at hl2
    | err m =>
      refine ⟨fun b => ⟨fun h => by simp at h, fun h => ?_⟩, rfl⟩
      have : fromNodesLoop d d[0].var (d.toList.drop 2) = .ok () := by
        rw [hl1]; intro nd hnd
        obtain ⟨p, hp, hpn⟩ := mem_drop_two.mp hnd
        have := h.2.inner p nd hp hpn
        rwa [hnv] at this
      rw [hloop] at this; simp at this
    | ok u =>
      refine ⟨fun b => ⟨fun h => ?_, fun h => by simp [h.1]⟩, rfl⟩
      simp only [Outcome.ok.injEq] at h
      refine ⟨h.symm, ?_, ?_, ?_⟩
      · rw [hd0, hnv]; congr 1
      · intro _; rw [hd1, hnv, ← hv]; congr 1
      · intro p nd hp hpn
        rw [hnv]
        exact (hl1.mp (by rw [hloop])) nd (mem_drop_two.mpr ⟨p, hp, hpn⟩)
  · have hs1 : d.size = 1 := by omega
    simp only [h1, if_false, decide_false, Bool.false_and, Bool.false_eq_true]
    have hdrop : d.toList.drop 2 = [] := by
      apply List.drop_eq_nil_of_le; simp [hs1]
    simp only [hdrop, fromNodesLoop]
    refine ⟨fun b => ⟨fun h => ?_, fun h => by simp [h.1]⟩, rfl⟩
    simp only [Outcome.ok.injEq] at h
    refine ⟨h.symm, ?_, ?_, ?_⟩
    · rw [hd0, hnv]; congr 1
    · intro h2; omega
    · intro p nd hp hpn
      rw [Array.getElem?_eq_none (by omega)] at hpn; simp at hpn

/-- the checks of `from_nodes` are exactly well-formedness by level -/
theorem fromNodesChecks_iff_wfo (d : Arr) : FromNodesChecks d ↔ WFo d (numVars d) := by
  constructor
  · intro h
    refine ⟨h.zero, h.one, ?_⟩
    intro p nd hp hpn
    obtain ⟨c1, c2, c3, ⟨lc, hlc, hl⟩, ⟨hc, hhc, hh⟩⟩ := h.inner p nd hp hpn
    refine ⟨c1, c2, c3, ?_, ?_⟩
    · unfold varOf; split
      · exact c1
      · rw [hlc]; exact hl
    · unfold varOf; split
      · exact c1
      · rw [hhc]; exact hh
  · intro h
    refine ⟨h.zero, h.one, ?_⟩
    intro p nd hp hpn
    obtain ⟨c1, c2, c3, c4, c5⟩ := h.inner p nd hp hpn
    have hsz : 3 ≤ d.size := by
      rcases Nat.lt_or_ge p d.size with h' | h'
      · omega
      · rw [Array.getElem?_eq_none h'] at hpn; simp at hpn
    have term : ∀ q, q < d.size → nd.var < varOf d (numVars d) q → ∃ c, d[q]? = some c ∧ nd.var < c.var := by
      intro q hq hv
      by_cases hq0 : q = 0
      · subst hq0; exact ⟨_, h.zero, c1⟩
      by_cases hq1 : q = 1
      · subst hq1; exact ⟨_, h.one (by omega), c1⟩
      · refine ⟨d[q], by simp [hq], ?_⟩
        rw [varOf_node q d[q] (by omega) (by simp [hq])] at hv
        exact hv
    exact ⟨c1, c2, c3, term _ c2 c4, term _ c3 c5⟩

end B.Serial
