import BddVerif.Gen.Algo2
import BddVerif.Lemmas.AlgoEqUtilSupport
import BddVerif.Lemmas.Rename
/-!
# Equivalence "translated Rust = hand-written model", second batch: shared plumbing

`RelK x y`: the translated function `x` and the hand model `y` have outcomes of the same KIND (`ok` with the very
same value / `err` / `panic`; messages are never compared). Plus the bridges used by every file of the
`AlgoEq2Ren*` / `AlgoEq2VarSet*` family:

* assertion loops (`for x in xs { if bad(x) { panic!() } }`, `all(..)` with `break`) in closed form,
* `Bdd::support_set()` followed by `sort()` is the model's `Ren.supportSet` (literally, as a list),
* `HashMap::from_iter` seen through `get`.
-/
namespace B.AlgoEq2Ren
open B B.Gen B.AlgoEqUtil Std

attribute [local instance 10000] Rust.monadOutcomeInline

/-- same kind of outcome, same value in the `ok` case -/
inductive RelK {α : Type} : Outcome α → Outcome α → Prop
  | ok (a : α) : RelK (.ok a) (.ok a)
  | err (m m' : String) : RelK (.err m) (.err m')
  | panic (m m' : String) : RelK (.panic m) (.panic m')

theorem RelK.kind_eq {α} {x y : Outcome α} (h : RelK x y) : x.kind = y.kind := by cases h <;> rfl

theorem RelK.ok_iff {α} {x y : Outcome α} (h : RelK x y) (a : α) : x = .ok a ↔ y = .ok a := by
  cases h <;> simp

theorem RelK.panic_iff {α} {x y : Outcome α} (h : RelK x y) : (∃ m, x = .panic m) ↔ (∃ m, y = .panic m) := by
  cases h <;> simp

theorem RelK.err_iff {α} {x y : Outcome α} (h : RelK x y) : (∃ m, x = .err m) ↔ (∃ m, y = .err m) := by
  cases h <;> simp

theorem RelK.of_ok {α} {x y : Outcome α} (h : RelK x y) {a : α} (hy : y = .ok a) : x = .ok a := (h.ok_iff a).2 hy

theorem RelK.of_panic {α} {x y : Outcome α} (h : RelK x y) {m : String} (hy : y = .panic m) : ∃ m', x = .panic m' :=
  h.panic_iff.2 ⟨m, hy⟩

theorem RelK.of_err {α} {x y : Outcome α} (h : RelK x y) {m : String} (hy : y = .err m) : ∃ m', x = .err m' :=
  h.err_iff.2 ⟨m, hy⟩

theorem RelK.refl_ok {α} (a : α) : RelK (Outcome.ok a) (.ok a) := .ok a

theorem RelK.symm {α} {x y : Outcome α} (h : RelK x y) : RelK y x := by cases h <;> constructor

theorem RelK.trans {α} {x y z : Outcome α} (h : RelK x y) (h' : RelK y z) : RelK x z := by
  cases h <;> cases h' <;> constructor

/-- `bind` respects `RelK` -/
theorem RelK.bind {α β} {x y : Outcome α} (h : RelK x y) {f g : α → Outcome β} (hfg : ∀ a, RelK (f a) (g a)) :
    RelK (x >>= f) (y.bind g) := by
  cases h with
  | ok a => exact hfg a
  | err m m' => exact .err m m'
  | panic m m' => exact .panic m m'

/-! ### assertion loops -/

/-- `for x in xs { if bad(x) { panic!(m) } }` -/
theorem iterL_assert {α} (p : α → Bool) (m : String) (xs : List α) :
    iterL (fun x (_ : PUnit) => if p x = true then (Outcome.panic m : Outcome (ForInStep PUnit)) else .ok (.yield PUnit.unit))
      xs PUnit.unit = if xs.any p = true then .panic m else .ok PUnit.unit := by
  induction xs with
  | nil => rfl
  | cons x xs ih =>
    rw [iterL_cons, List.any_cons]
    by_cases hp : p x = true
    · simp [hp]
    · simp only [hp, Bool.false_or]; exact ih

/-- `let mut all = true; for x in xs { if !ok(x) { all = false; break } }` -/
theorem setIdx_of_lt {α} (a : Array α) (i : Nat) (x : α) (h : i < a.size) : Rust.setIdx a i x = .ok (a.set i x) := by
  unfold Rust.setIdx; simp [h]

theorem iterL_all {α} (p : α → Bool) (xs : List α) :
    iterL (fun x (s : Bool) => if (!p x) = true then (Outcome.ok (ForInStep.done false)) else .ok (.yield s))
      xs true = .ok (xs.all p) := by
  induction xs with
  | nil => rfl
  | cons x xs ih =>
    rw [iterL_cons, List.all_cons]
    by_cases hp : p x = true
    · simp only [hp, Bool.not_true, Bool.false_eq_true, if_false, Bool.true_and]; exact ih
    · have : p x = false := by simpa using hp
      simp [this]

/-- `for i in lo..lo+n { v[i] = f(v[i]) }` -/
theorem iterL_update {α} (f : α → α) (n : Nat) : ∀ (lo : Nat) (A : Array α), lo + n ≤ A.size →
    iterL (fun i (s : Array α) => (Rust.idx s i >>= fun nd => Rust.setIdx s i (f nd) >>= fun s' => Outcome.ok (ForInStep.yield s')))
      (List.range' lo n) A = .ok (A.mapIdx fun j nd => if lo ≤ j ∧ j < lo + n then f nd else nd) := by
  induction n with
  | zero =>
    intro lo A _
    rw [List.range'_zero, iterL_nil]
    congr 1
    apply Array.ext
    · simp
    · intro i h1 h2
      simp only [Array.getElem_mapIdx]
      rw [if_neg (by omega)]
  | succ n ih =>
    intro lo A h
    have hlo : lo < A.size := by omega
    rw [List.range'_succ, iterL_cons, idx_of_lt A lo hlo, bind_ok, setIdx_of_lt A lo _ hlo, bind_ok]
    simp only []
    rw [ih (lo + 1) _ (by simp; omega)]
    congr 1
    apply Array.ext
    · simp
    · intro i h1 h2
      simp only [Array.getElem_mapIdx, Array.getElem_set]
      by_cases e : lo = i
      · subst e; simp; intro h; omega
      · simp only [e, if_false]
        by_cases c : lo + 1 ≤ i ∧ i < lo + 1 + n
        · rw [if_pos c, if_pos (by omega)]
        · rw [if_neg c, if_neg (by omega)]

theorem all_range'_shift (p : Nat → Bool) (n : Nat) : ∀ s, (List.range' (s + 1) n).all p = (List.range' s n).all (fun i => p (i + 1)) := by
  induction n with
  | zero => intro s; rfl
  | succ n ih => intro s; rw [List.range'_succ, List.range'_succ, List.all_cons, List.all_cons, ih]

theorem chainLt_eq_all : ∀ (l : List Nat),
    Ren.chainLt l = (List.range' 0 (l.length - 1)).all (fun i => decide (l.getD i 0 < l.getD (i + 1) 0)) := by
  intro l
  induction l with
  | nil => rfl
  | cons a t ih =>
    cases t with
    | nil => rfl
    | cons b t' =>
      rw [Ren.chainLt, ih]
      simp only [List.length_cons, Nat.add_sub_cancel]
      rw [List.range'_succ, List.all_cons, all_range'_shift]
      rfl
/-! ### the two `supportSet`s of the hand models are the same list -/

theorem ren_supportSet_eq (A : Arr) : Ren.supportSet A = B.supportSet A := by
  apply sorted_ext _ _ (Ren.sorted_supportSet A) (Count.supportSet_sorted A)
  intro x
  rw [Ren.mem_supportSet, Count.mem_supportSet]

theorem sort_supportFold (A : Arr) :
    (supportFold A).toList.mergeSort (fun x y => decide (x ≤ y)) = Ren.supportSet A := by
  rw [ren_supportSet_eq]
  apply sorted_ext _ _ (sort_toList_sorted _) (Count.supportSet_sorted A)
  intro x
  rw [(List.mergeSort_perm _ _).mem_iff, HashSet.mem_toList, mem_supportFold]

/-- `Vec::from_iter(self.support_set())` then `sort()`: the model's sorted support list -/
theorem sort_support (A : Arr) : Rust.sortNat (supportFold A).toArray = (Ren.supportSet A).toArray := by
  unfold Rust.sortNat
  rw [HashSet.toList_toArray, sort_supportFold]

theorem mem_supportFold_ren (A : Arr) (x : Nat) : x ∈ supportFold A ↔ x ∈ Ren.supportSet A := by
  rw [mem_supportFold, ren_supportSet_eq]

theorem contains_supportFold (A : Arr) (x : Nat) : (supportFold A).contains x = (Ren.supportSet A).contains x := by
  rw [Bool.eq_iff_iff, HashSet.contains_iff_mem, mem_supportFold_ren]
  simp

theorem supportFold_isEmpty (A : Arr) : (supportFold A).toArray.isEmpty = (Ren.supportSet A).isEmpty := by
  rw [Bool.eq_iff_iff, List.isEmpty_iff]
  rw [show (supportFold A).toArray.isEmpty = (supportFold A).toArray.toList.isEmpty by simp]
  rw [HashSet.toList_toArray, List.isEmpty_iff]
  constructor
  · intro h
    rw [← sort_supportFold, h]; simp
  · intro h
    cases hl : (supportFold A).toList with
    | nil => rfl
    | cons a t =>
      have : a ∈ Ren.supportSet A := by
        rw [← mem_supportFold_ren, ← HashSet.mem_toList, hl]; simp
      rw [h] at this; cases this

/-! ### `HashMap::from_iter` seen through `get` -/

theorem sub_of_le (a b : Nat) (h : b ≤ a) : Rust.sub a b = .ok (a - b) := by unfold Rust.sub; simp [h]

theorem foldl_insert_getElem? {κ ν} [BEq κ] [Hashable κ] [LawfulBEq κ] [LawfulHashable κ] (k : κ) :
    ∀ (xs : List (κ × ν)) (m : HashMap κ ν),
      (xs.foldl (fun m kv => m.insert kv.1 kv.2) m)[k]? = (xs.reverse.lookup k).or m[k]? := by
  intro xs
  induction xs with
  | nil => intro m; simp
  | cons kv xs ih =>
    intro m
    obtain ⟨a, b⟩ := kv
    rw [List.foldl_cons, ih, List.reverse_cons, List.lookup_append]
    cases h : List.lookup k xs.reverse with
    | some v => simp
    | none =>
      simp only [Option.none_or, HashMap.getElem?_insert, List.lookup_cons, List.lookup_nil]
      by_cases e : a = k
      · subst e; simp
      · have e1 : (a == k) = false := by simpa using e
        have e2 : (k == a) = false := by simpa using fun h => e h.symm
        simp [e1, e2]

theorem hashMapFromArr_getElem? {κ ν} [BEq κ] [Hashable κ] [LawfulBEq κ] [LawfulHashable κ] (xs : Array (κ × ν)) (k : κ) :
    (Rust.hashMapFromArr xs)[k]? = xs.toList.reverse.lookup k := by
  unfold Rust.hashMapFromArr
  rw [← Array.foldl_toList, foldl_insert_getElem?]
  simp

theorem varMapOfList_eq (kv : List (Nat × Nat)) :
    (fun x => (Rust.hashMapFromArr kv.toArray)[x]?) = Ren.varMapOfList kv := by
  funext x
  rw [hashMapFromArr_getElem?]; rfl
end B.AlgoEq2Ren
