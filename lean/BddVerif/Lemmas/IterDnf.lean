import BddVerif.Lemmas.IterPaths
/-!
Lemmas for C08, part 4: the explicit-stack loop of `to_dnf`. Processing the entry `(p, Some(true))`
takes finitely many iterations, appends (up to normalisation of the raw vectors) exactly `paths p path`
to the results and leaves `path` as it was (as a partial valuation; the raw vector may have grown).
-/
namespace B.Iter
open B

theorem dnfLoop_zero (A : Arr) (f : Nat) (go : Option Bool) (stk) (path : PV) (res : List PV) :
    dnfLoop A (f + 1) ((0, go) :: stk) path res = dnfLoop A f stk path res := by
  simp [dnfLoop]

theorem dnfLoop_one (A : Arr) (f : Nat) (go : Option Bool) (stk) (path : PV) (res : List PV) :
    dnfLoop A (f + 1) ((1, go) :: stk) path res = dnfLoop A f stk path (res ++ [path]) := by
  simp [dnfLoop]

theorem dnfLoop_low (A : Arr) (f p : Nat) (stk) (path : PV) (res : List PV) (hp : 2 ≤ p) (nd : Node)
    (h : A[p]? = some nd) :
    dnfLoop A (f + 1) ((p, some true) :: stk) path res =
      dnfLoop A f ((nd.low, some true) :: (p, some false) :: stk) (pvSet path nd.var (some false)) res := by
  have h0 : ¬ p = 0 := by omega
  have h1 : ¬ p = 1 := by omega
  simp [dnfLoop, h0, h1, h]

theorem dnfLoop_high (A : Arr) (f p : Nat) (stk) (path : PV) (res : List PV) (hp : 2 ≤ p) (nd : Node)
    (h : A[p]? = some nd) :
    dnfLoop A (f + 1) ((p, some false) :: stk) path res =
      dnfLoop A f ((nd.high, some true) :: (p, none) :: stk) (pvSet path nd.var (some true)) res := by
  have h0 : ¬ p = 0 := by omega
  have h1 : ¬ p = 1 := by omega
  simp [dnfLoop, h0, h1, h]

theorem dnfLoop_done (A : Arr) (f p : Nat) (stk) (path : PV) (res : List PV) (hp : 2 ≤ p) (nd : Node)
    (h : A[p]? = some nd) :
    dnfLoop A (f + 1) ((p, none) :: stk) path res = dnfLoop A f stk (pvSet path nd.var none) res := by
  have h0 : ¬ p = 0 := by omega
  have h1 : ¬ p = 1 := by omega
  simp [dnfLoop, h0, h1, h]

theorem dnfLoop_nil (A : Arr) (f : Nat) (path : PV) (res : List PV) : dnfLoop A f [] path res = .ok res := by
  cases f <;> simp [dnfLoop]

theorem Free.congr {c d : PV} {k : Nat} (h : Free c k) (he : ∀ i, pvGet d i = pvGet c i) : Free d k :=
  fun i hi => by rw [he]; exact h i hi

theorem pvSet_congr (c d : PV) (i : Nat) (x : Option Bool) (he : ∀ j, pvGet d j = pvGet c j) :
    ∀ j, pvGet (pvSet d i x) j = pvGet (pvSet c i x) j := by
  intro j; rw [pvGet_pvSet, pvGet_pvSet, he]

/-- one entry `(p, Some(true))` of the stack of `to_dnf` -/
theorem dnfLoop_sub {A : Arr} {n : Nat} (h : Red A n) :
    ∀ p, p < A.size → ∀ stk path res, Free path (varOf A n p) → (∀ j, n ≤ j → pvGet path j = none) →
      ∃ k path' R, (∀ fuel, dnfLoop A (fuel + k) ((p, some true) :: stk) path res =
            dnfLoop A fuel stk path' (res ++ R)) ∧
        (∀ i, pvGet path' i = pvGet path i) ∧
        R.map (pvNorm n) = (paths A p path).map (pvNorm n) ∧ k + 3 ≤ 4 * 2 ^ p ∧
        (∀ c, c ∈ R → ∀ j, n ≤ j → pvGet c j = none) := by
  intro p
  induction p using Nat.strongRecOn with
  | _ p ih =>
    intro hp stk path res hfree hb
    by_cases h0 : p = 0
    · subst h0
      exact ⟨1, path, [], fun fuel => by rw [dnfLoop_zero]; simp, fun _ => rfl, by simp [paths_zero], by simp, by simp⟩
    by_cases h1 : p = 1
    · subst h1
      exact ⟨1, path, [path], fun fuel => by rw [dnfLoop_one], fun _ => rfl, by simp [paths_one], by simp, by intro c hc; simp at hc; rw [hc]; exact hb⟩
    have hp2 : 2 ≤ p := by omega
    have hnd : A[p]? = some A[p] := by simp [hp]
    obtain ⟨hv, hl, hh, _, hvl, hvh⟩ := h.inner p A[p] hp2 hnd
    have hvar := varOf_node A n p hp2 _ hnd
    have hnone : pvGet path A[p].var = none := hfree _ (by omega)
    -- low sub-diagram
    have hfl : Free (pvSet path A[p].var (some false)) (varOf A n A[p].low) :=
      Free.pvSet hfree _ _ hvl (by omega)
    have hbl : ∀ j, n ≤ j → pvGet (pvSet path A[p].var (some false)) j = none := by
      intro j hj; rw [pvGet_pvSet_ne _ _ _ _ (by omega)]; exact hb j hj
    obtain ⟨kl, path1, Rl, hrunl, hextl, hRl, hkl, hbRl⟩ :=
      ih _ hl (by omega) ((p, some false) :: stk) (pvSet path A[p].var (some false)) res hfl hbl
    -- high sub-diagram
    have hext1 : ∀ j, pvGet (pvSet path1 A[p].var (some true)) j = pvGet (pvSet path A[p].var (some true)) j := by
      intro j
      rw [pvGet_pvSet, pvGet_pvSet]
      split
      · rfl
      · rename_i hj; rw [hextl, pvGet_pvSet_ne _ _ _ _ hj]
    have hfh : Free (pvSet path1 A[p].var (some true)) (varOf A n A[p].high) :=
      Free.congr (Free.pvSet hfree _ _ hvh (by omega)) hext1
    have hbh : ∀ j, n ≤ j → pvGet (pvSet path1 A[p].var (some true)) j = none := by
      intro j hj; rw [hext1, pvGet_pvSet_ne _ _ _ _ (by omega)]; exact hb j hj
    obtain ⟨kh, path2, Rh, hrunh, hexth, hRh, hkh, hbRh⟩ :=
      ih _ hh (by omega) ((p, none) :: stk) (pvSet path1 A[p].var (some true)) (res ++ Rl) hfh hbh
    refine ⟨kl + kh + 3, pvSet path2 A[p].var none, Rl ++ Rh, ?_, ?_, ?_, ?_, ?_⟩
    · intro fuel
      have e : fuel + (kl + kh + 3) = (fuel + 1 + kh + 1 + kl) + 1 := by omega
      rw [e, dnfLoop_low A _ p stk path res hp2 _ hnd, hrunl,
        dnfLoop_high A _ p stk path1 _ hp2 _ hnd, hrunh, dnfLoop_done A _ p stk path2 _ hp2 _ hnd,
        List.append_assoc]
    · intro j
      rw [pvGet_pvSet]
      split
      · rename_i hj; rw [hj, hnone]
      · rename_i hj
        rw [hexth, pvGet_pvSet_ne _ _ _ _ hj, hextl, pvGet_pvSet_ne _ _ _ _ hj]
    · rw [paths_node h p path hp2 _ hnd, List.map_append, List.map_append, hRl, hRh]
      congr 1
      exact paths_congr h _ (by omega) _ _ hext1
    · obtain ⟨p', rfl⟩ : ∃ p', p = p' + 1 := ⟨p - 1, by omega⟩
      have e1 : 2 ^ A[p' + 1].low ≤ 2 ^ p' := Nat.pow_le_pow_right (by omega) (by omega)
      have e2 : 2 ^ A[p' + 1].high ≤ 2 ^ p' := Nat.pow_le_pow_right (by omega) (by omega)
      rw [Nat.pow_succ]
      omega
    · intro c hc
      rw [List.mem_append] at hc
      rcases hc with hc | hc
      · exact hbRl c hc
      · exact hbRh c hc

end B.Iter
