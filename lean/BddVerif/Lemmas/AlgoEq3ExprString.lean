import BddVerif.Lemmas.AlgoEq3ExprEvalBound
import BddVerif.Lemmas.AlgoEq3Parser
/-!
# `BddVariableSet::eval_expression_string` as translated = `ExprM.evalStringO`

Composition of `eval_expression_string_rel_model` (AlgoEq3ExprEval.lean, stated relative to the parser) with the parser
equivalence `B.AlgoEq3Parser.parse_boolean_expression_eq_model` (another worker's theorem: translated parser =
`B.Parser.parse`, fuel `8·|s| + 8`; referred to by name, not reproved).

To get an explicit fuel bound the depth of the parsed tree is bounded by the length of the input
(`parse_depth_le`: by the mutual induction principle of the model parser).
-/
namespace B.AlgoEq3Expr
open B B.Gen B.Gen.Algo3 B.Parser B.AlgoEqUtil B.AlgoEq2VS B.AlgoEq2Ren B.ExprM
attribute [local instance 10000] Rust.monadOutcomeInline

theorem convE_eq_ofE (e : Expr) : AlgoEq3Parser.convE e = ofE e := by
  induction e <;> simp_all [AlgoEq3Parser.convE, ofE]

/-- the parser equivalence in the shape `eval_expression_string_rel_model` asks for -/
theorem parse_relE (s : String) (fuel : Nat) (hf : 8 * s.length + 8 ≤ fuel) :
    RelE (parse_boolean_expression fuel s) (liftE (Parser.parse s.toList)) := by
  rw [AlgoEq3Parser.parse_boolean_expression_eq_model s fuel hf]
  cases Parser.parse s.toList with
  | ok e => simp only [AlgoEq3Parser.convO, liftE, convE_eq_ofE]; exact .ok _
  | err m => exact .err _ _
  | panic m => exact .panic _ _

/-! ## the depth of a parsed tree is at most the number of tokens -/

private theorem bind_ok_inv {α β} {x : Outcome α} {f : α → Outcome β} {b : β} (h : x.bind f = .ok b) :
    ∃ a, x = .ok a ∧ f a = .ok b := by
  cases x with
  | ok a => exact ⟨a, rfl, h⟩
  | err m => cases h
  | panic m => cases h

private abbrev DB (p : List Tok → Outcome Expr) (data : List Tok) : Prop :=
  ∀ e, p data = .ok e → depthE e ≤ sizeL data

theorem parsers_depth :
    (∀ data, DB parseFormula data) ∧ (∀ data, DB iffP data) ∧ (∀ data, DB impP data) ∧ (∀ data, DB condP data) ∧
    (∀ data, DB orP data) ∧ (∀ data, DB andP data) ∧ (∀ data, DB xorP data) ∧ (∀ data, DB terminalP data) := by
  apply parseFormula.mutual_induct
    (motive1 := DB parseFormula) (motive2 := DB iffP) (motive3 := DB impP) (motive4 := DB condP)
    (motive5 := DB orP) (motive6 := DB andP) (motive7 := DB xorP) (motive8 := DB terminalP)
  -- parseFormula
  · intro data h ih e he; rw [parseFormula_eq] at he; simp only [h, if_true] at he; exact ih e he
  · intro data h ih e he; rw [parseFormula_eq] at he; simp only [h] at he; exact ih e he
  -- iffP
  · intro data i h ih1 ih2 e he; rw [iffP_eq, h] at he
    obtain ⟨l, hl, he⟩ := bind_ok_inv he; obtain ⟨r, hr, he⟩ := bind_ok_inv he; cases he
    have := ih1 l hl; have := ih2 r hr; have := sizeL_take_lt h; have := sizeL_drop_lt h
    simp only [depthE]; omega
  · intro data h ih e he; rw [iffP_eq, h] at he; exact ih e he
  -- impP
  · intro data i h ih1 ih2 e he; rw [impP_eq, h] at he
    obtain ⟨l, hl, he⟩ := bind_ok_inv he; obtain ⟨r, hr, he⟩ := bind_ok_inv he; cases he
    have := ih1 l hl; have := ih2 r hr; have := sizeL_take_lt h; have := sizeL_drop_lt h
    simp only [depthE]; omega
  · intro data h ih e he; rw [impP_eq, h] at he; exact ih e he
  -- condP
  · intro data hq hc ih e he; rw [condP_eq, hq, hc] at he; exact ih e he
  · intro data q c hq hc hlt e he; rw [condP_eq, hq, hc] at he; simp only [hlt, if_true] at he; cases he
  · intro data q c hq hc hlt ih1 ih2 ih3 e he; rw [condP_eq, hq, hc] at he
    have hne := qmark_ne_colon hq hc
    have hle : ¬ (q + 1 > c) := by omega
    simp only [hlt, if_false, hle] at he
    obtain ⟨a, ha, he⟩ := bind_ok_inv he; obtain ⟨b, hb, he⟩ := bind_ok_inv he
    obtain ⟨d, hd, he⟩ := bind_ok_inv he; cases he
    have := ih1 a ha; have := ih2 b hb; have := ih3 d hd
    have := sizeL_take_lt hq; have := sizeL_mid_lt q hc; have := sizeL_drop_lt hc
    simp only [depthE]; omega
  · intro data c hq hc e he; rw [condP_eq, hq, hc] at he; cases he
  · intro data q hq hc e he; rw [condP_eq, hq, hc] at he; cases he
  -- orP
  · intro data i h ih1 ih2 e he; rw [orP_eq, h] at he
    obtain ⟨l, hl, he⟩ := bind_ok_inv he; obtain ⟨r, hr, he⟩ := bind_ok_inv he; cases he
    have := ih1 l hl; have := ih2 r hr; have := sizeL_take_lt h; have := sizeL_drop_lt h
    simp only [depthE]; omega
  · intro data h ih e he; rw [orP_eq, h] at he; exact ih e he
  -- andP
  · intro data i h ih1 ih2 e he; rw [andP_eq, h] at he
    obtain ⟨l, hl, he⟩ := bind_ok_inv he; obtain ⟨r, hr, he⟩ := bind_ok_inv he; cases he
    have := ih1 l hl; have := ih2 r hr; have := sizeL_take_lt h; have := sizeL_drop_lt h
    simp only [depthE]; omega
  · intro data h ih e he; rw [andP_eq, h] at he; exact ih e he
  -- xorP
  · intro data i h ih1 ih2 e he; rw [xorP_eq, h] at he
    obtain ⟨l, hl, he⟩ := bind_ok_inv he; obtain ⟨r, hr, he⟩ := bind_ok_inv he; cases he
    have := ih1 l hl; have := ih2 r hr; have := sizeL_take_lt h; have := sizeL_drop_lt h
    simp only [depthE]; omega
  · intro data h ih e he; rw [xorP_eq, h] at he; exact ih e he
  -- terminalP
  · intro e he; rw [terminalP] at he; cases he
  · intro rest ih e he; rw [terminalP] at he
    obtain ⟨a, ha, he⟩ := bind_ok_inv he; cases he
    have := ih a ha; simp only [depthE, sizeL, Tok.size]; omega
  · intro a b tl hne e he; rw [terminalP.eq_def] at he; split at he <;> simp_all
  · intro e he; rw [terminalP] at he; simp at he; cases he; simp [depthE, sizeL, Tok.size]
  · intro h e he; rw [terminalP] at he; simp [h] at he; cases he; simp [depthE, sizeL, Tok.size]
  · intro name h1 h2 e he; rw [terminalP] at he; simp [h1, h2] at he; cases he; simp [depthE, sizeL, Tok.size]
  · intro inner ih e he; rw [terminalP] at he
    have := ih e he; simp only [sizeL, Tok.size]; omega
  · intro hd h1 h2 h3 e he; rw [terminalP.eq_def] at he; split at he <;> simp_all

/-- a successfully parsed expression is at most as deep as the input is long -/
theorem parse_depth_le (cs : List Char) (e : Expr) (h : Parser.parse cs = .ok e) : depthE e ≤ cs.length := by
  unfold Parser.parse at h
  cases ht : tokGroup cs true with
  | ok p =>
    obtain ⟨ts, rest⟩ := p
    rw [ht] at h
    have h1 := parsers_depth.1 ts e h
    have h2 := AlgoEq3Parser.tokGroup_sizeL_le ht
    omega
  | err m => rw [ht] at h; cases h
  | panic m => rw [ht] at h; cases h

/-! ## `eval_expression_string` -/

/-- **`eval_expression_string` as translated ~ `ExprM.evalStringO`** (same array, or a panic on both sides: the
    string does not parse — `Result::unwrap` — or mentions an unknown name — `Option::unwrap`), under the side
    conditions `EvalOK` for the parsed tree; fuel `≥ 8·|s| + 8` for the parser. -/
theorem eval_expression_string_rel (T : VSet) (names : List String) (hT : SetOf T names) (fuel : Nat) (s : String)
    (hf : 8 * s.length + 8 ≤ fuel)
    (hok : ∀ e, Parser.parse s.toList = .ok e → EvalOK (names.map String.toList) e fuel) :
    RelK (BddVariableSet_eval_expression_string fuel T s) (evalStringO (names.map String.toList) s.toList) :=
  eval_expression_string_rel_model T names hT fuel s (parse_relE s fuel hf) hok

/-- closed form: at most 10 variables, fuel `≥ 8·|s| + 8 + 3·(2^n+1)^3` -/
theorem eval_expression_string_rel_closed (T : VSet) (names : List String) (hT : SetOf T names)
    (hn : names.length ≤ 10) (fuel : Nat) (s : String)
    (hf : 8 * s.length + 8 + 3 * ((2 ^ names.length + 1) * (2 ^ names.length + 1) * (2 ^ names.length + 1)) ≤ fuel) :
    RelK (BddVariableSet_eval_expression_string fuel T s) (evalStringO (names.map String.toList) s.toList) := by
  apply eval_expression_string_rel T names hT fuel s (by omega)
  intro e he
  have hd := parse_depth_le s.toList e he
  rw [String.length_toList] at hd
  exact EvalOK_closed _ (by rwa [List.length_map]) e fuel (by rw [List.length_map]; omega)

/-- when the model returns an array so does the translated function, the same one -/
theorem eval_expression_string_ok (T : VSet) (names : List String) (hT : SetOf T names)
    (hn : names.length ≤ 10) (fuel : Nat) (s : String)
    (hf : 8 * s.length + 8 + 3 * ((2 ^ names.length + 1) * (2 ^ names.length + 1) * (2 ^ names.length + 1)) ≤ fuel)
    (r : Arr) (h : evalStringO (names.map String.toList) s.toList = .ok r) :
    BddVariableSet_eval_expression_string fuel T s = .ok r :=
  (eval_expression_string_rel_closed T names hT hn fuel s hf).of_ok h

/-- **`C15.evals` as the driver runs it** (set built by `varSetOfNameList`, fuel
    `64·(|cs|+4)·(4^min(n,12)+64) + 8·|cs| + 4096`), up to 6 variables -/
theorem eval_expression_string_rel_driver (vars : List Name) (T : VSet)
    (hT : Drive.Algo3.varSetOfNameList vars = some T) (hn : vars.length ≤ 6) (cs : List Char) :
    RelK (BddVariableSet_eval_expression_string
        (64 * (cs.length + 4) * (4 ^ (min vars.length 12) + 64) + 8 * cs.length + 4096) T (String.ofList cs))
      (evalStringO vars cs) := by
  obtain ⟨hS, hv⟩ := varSetOfNameList_setOf vars T hT
  have hl : (String.ofList cs).length = cs.length := by rw [← String.length_toList, String.toList_ofList]
  have := eval_expression_string_rel T _ hS
    (64 * (cs.length + 4) * (4 ^ (min vars.length 12) + 64) + 8 * cs.length + 4096) (String.ofList cs)
    (by rw [hl]; omega) (by
      rw [hv, String.toList_ofList]
      intro e he
      have hd := parse_depth_le cs e he
      -- the driver's fuel for strings dominates `fuelEval` with `sizeE` replaced by the depth bound
      apply EvalOK_closed vars (by omega) e
      rw [Nat.min_eq_left (by omega : vars.length ≤ 12)]
      have key : depthE e + 3 * ((2 ^ vars.length + 1) * (2 ^ vars.length + 1) * (2 ^ vars.length + 1)) ≤
          64 * (cs.length + 4) * (4 ^ vars.length + 64) + 4096 := by
        have e1 : 64 * (cs.length + 4) * (4 ^ vars.length + 64) =
            64 * (cs.length * (4 ^ vars.length + 64)) + 256 * (4 ^ vars.length + 64) := by
          rw [Nat.mul_assoc, Nat.add_mul, Nat.mul_add]; omega
        have e2 : cs.length ≤ cs.length * (4 ^ vars.length + 64) :=
          Nat.le_mul_of_pos_right _ (Nat.add_pos_right _ (by decide))
        have e3 : ∀ n, n ≤ 6 → 3 * ((2 ^ n + 1) * (2 ^ n + 1) * (2 ^ n + 1)) ≤ 256 * (4 ^ n + 64) := by decide
        have := e3 _ hn
        omega
      exact Nat.le_trans key (Nat.add_le_add_right (Nat.le_add_right _ _) _))
  rwa [hv, String.toList_ofList] at this

/-- non-vacuity: the hypotheses hold for every string over the set built by the generated `new_anonymous(2)` -/
example : ∃ T, Algo2.BddVariableSet_new_anonymous 2 = .ok T ∧
    RelK (BddVariableSet_eval_expression_string 500 T "x_0 & !x_1")
      (evalStringO [['x', '_', '0'], ['x', '_', '1']] "x_0 & !x_1".toList) := by
  obtain ⟨T, h1, hs⟩ := new_anonymous_ok 2 (by decide)
  exact ⟨T, h1, eval_expression_string_rel_closed T _ hs (by decide) 500 "x_0 & !x_1" (by decide)⟩

end B.AlgoEq3Expr
