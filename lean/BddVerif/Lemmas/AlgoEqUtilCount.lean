import BddVerif.Lemmas.AlgoEqUtilBase
import BddVerif.Lemmas.Count
/-!
# `Bdd::exact_cardinality`, `Bdd::exact_clause_cardinality` (src/_impl_bdd/_impl_util.rs:140, 238):
# translated code (explicit stack + cache) = hand model (`B.Count.exactCardO`, `B.Count.clauseCardO`: recursion)

Both Rust functions run the same loop: the node on top of the stack is popped if its cache entry is filled, is
computed from its children (and popped) if both children's entries are filled, and otherwise its unfilled children
are pushed. `coreStep` is that loop body on a well-formed array (no index panic, no `u16` underflow).

* `StepOK g`: "`g` is `coreStep` on every state whose cache satisfies the invariant `CInv` of Lemmas/Count.lean" — this
  is what the two desugaring lemmas prove of the two GENERATED loop bodies (under `WFo A n`, `len ≤ 2^32`);
* `process`: for any such `g`, running the loop from a state whose stack top is `p` pops `p` after `k` iterations
  with `p`'s entry filled with the value `cardF` of the plain recursion, older entries kept, entries of lower levels
  untouched, and `k + 3·(unfilled entries after) ≤ 1 + 3·(unfilled entries before)` — induction on the level of `p`;
  hence the whole loop needs at most `3·len + 1` iterations.
-/
namespace B.AlgoEqUtil
open B B.Gen B.Count

attribute [local instance 10000] Rust.monadOutcomeInline

abbrev CState := Cache × Array Nat

def pushIf (b : Bool) (x : Nat) (s : Array Nat) : Array Nat := if b then s.push x else s

/-- one iteration of the loop from cache `c` and stack `s.push p` (top = `p`) -/
def coreStep (A : Arr) (w : Bool) (c : Cache) (s : Array Nat) (p : Nat) : CState :=
  match c.getD p none with
  | some _ => (c, s)
  | none =>
    match c.getD (nodeAt A p).low none, c.getD (nodeAt A p).high none with
    | some cl, some ch => (c.setIfInBounds p (some (cardNode A w (nodeAt A p) cl ch)), s)
    | l, h => (c, pushIf h.isNone (nodeAt A p).high (pushIf l.isNone (nodeAt A p).low (s.push p)))

theorem coreStep_cached {A : Arr} {w : Bool} {c : Cache} {s : Array Nat} {p x : Nat}
    (h : c.getD p none = some x) : coreStep A w c s p = (c, s) := by
  unfold coreStep; rw [h]

theorem coreStep_compute {A : Arr} {w : Bool} {c : Cache} {s : Array Nat} {p cl ch : Nat}
    (h : c.getD p none = none) (hl : c.getD (nodeAt A p).low none = some cl)
    (hh : c.getD (nodeAt A p).high none = some ch) :
    coreStep A w c s p = (c.setIfInBounds p (some (cardNode A w (nodeAt A p) cl ch)), s) := by
  unfold coreStep; rw [h, hl, hh]

theorem coreStep_push {A : Arr} {w : Bool} {c : Cache} {s : Array Nat} {p : Nat}
    (h : c.getD p none = none)
    (hne : (c.getD (nodeAt A p).low none).isNone || (c.getD (nodeAt A p).high none).isNone = true) :
    coreStep A w c s p =
      (c, pushIf (c.getD (nodeAt A p).high none).isNone (nodeAt A p).high
            (pushIf (c.getD (nodeAt A p).low none).isNone (nodeAt A p).low (s.push p))) := by
  unfold coreStep; rw [h]
  cases hl : c.getD (nodeAt A p).low none <;> cases hh : c.getD (nodeAt A p).high none <;> simp_all

/-- the loop body `g` is `coreStep` wherever the cache invariant holds -/
structure StepOK (A : Arr) (w : Bool) (F : Nat) (g : CState → Outcome (ForInStep CState)) : Prop where
  empty : ∀ c, g (c, #[]) = .ok (.done (c, #[]))
  top : ∀ c s p, CInv A w F c → p < A.size → g (c, s.push p) = .ok (.yield (coreStep A w c s p))

/-- number of unfilled cache entries -/
def unc (c : Cache) : Nat := c.count none

theorem unc_le (c : Cache) : unc c ≤ c.size := Array.count_le_size

theorem getD_none_lt {c : Cache} {p : Nat} (hp : p < c.size) (hn : c.getD p none = none) : c[p] = none := by
  simpa [Array.getD_eq_getD_getElem?, hp] using hn

theorem unc_set (c : Cache) (p v : Nat) (hp : p < c.size) (hn : c.getD p none = none) :
    unc (c.setIfInBounds p (some v)) + 1 = unc c := by
  have hcp := getD_none_lt hp hn
  unfold unc
  rw [Array.setIfInBounds_def, dif_pos hp, Array.count_set hp, hcp]
  have hpos : 0 < c.count none := Array.count_pos_iff.2 (by rw [← hcp]; exact Array.getElem_mem hp)
  simp
  omega

theorem iter_yield {β} {g : β → Outcome (ForInStep β)} {st st' : β} (h : g st = .ok (.yield st')) (m : Nat) :
    iter g (m + 1) st = iter g m st' := by
  rw [iter_succ, h]

theorem iter_empty {A : Arr} {w : Bool} {F : Nat} {g : CState → Outcome (ForInStep CState)} (hg : StepOK A w F g)
    (c : Cache) : ∀ m, iter g m (c, #[]) = .ok (c, #[]) := by
  intro m
  cases m with
  | zero => rfl
  | succ m => rw [iter_succ, hg.empty]

/-- the value written for a decision node is the value of the plain recursion -/
theorem cardNode_cardF {A : Arr} {n : Nat} (h : WFo A n) (w : Bool) (p : Nat) (hp2 : 2 ≤ p) (hp : p < A.size) :
    cardNode A w A[p] (cardF A w (n + 1) A[p].low) (cardF A w (n + 1) A[p].high) = cardF A w (n + 1) p := by
  have hnd : A[p]? = some A[p] := by simp [hp]
  obtain ⟨hv, hl, hh, hvl, hvh⟩ := h.inner p A[p] hp2 hnd
  rw [cardF_succ A w n p hp2, nodeAt_eq hp]
  rw [cardF_level h w (n + 1) _ n hl (by omega) (by omega), cardF_level h w (n + 1) _ n hh (by omega) (by omega)]

/-- "the loop, started with `sFrom` on the stack and cache `c`, reaches the stack `sTo` with `q`'s entry filled" -/
def Proc (A : Arr) (n : Nat) (w : Bool) (g : CState → Outcome (ForInStep CState)) (q bonus : Nat) (c : Cache)
    (sFrom sTo : Array Nat) : Prop :=
  ∃ (k : Nat) (c' : Cache), k + 3 * unc c' ≤ bonus + 3 * unc c ∧ CInv A w (n + 1) c' ∧
    c'.getD q none = some (cardF A w (n + 1) q) ∧
    (∀ r x, c.getD r none = some x → c'.getD r none = some x) ∧
    (∀ r, c'.getD r none ≠ c.getD r none → varOf A n q ≤ varOf A n r) ∧
    ∀ m, iter g (k + m) (c, sFrom) = iter g m (c', sTo)

theorem cinv_set {A : Arr} {w : Bool} {F : Nat} {c : Cache} (hc : CInv A w F c) (p : Nat) (hp2 : 2 ≤ p) :
    CInv A w F (c.setIfInBounds p (some (cardF A w F p))) := by
  refine ⟨by rw [Array.size_setIfInBounds]; exact hc.size, ?_, ?_, ?_⟩
  · rw [getD_set, if_neg (by omega)]; exact hc.zero
  · intro h2; rw [getD_set, if_neg (by omega)]; exact hc.one h2
  · intro q x hx
    rw [getD_set] at hx
    split at hx
    · rename_i hq; cases hx; rw [← hq.1]
    · exact hc.sound q x hx

theorem process {A : Arr} {n : Nat} (h : WFo A n) (w : Bool) {g : CState → Outcome (ForInStep CState)}
    (hg : StepOK A w (n + 1) g) :
    ∀ (lvl p : Nat) (c : Cache) (s : Array Nat), p < A.size → n - varOf A n p < lvl → CInv A w (n + 1) c →
      Proc A n w g p 1 c (s.push p) s := by
  intro lvl
  induction lvl with
  | zero => intro p c s _ hl; omega
  | succ lvl ih =>
    intro p c s hp hlvl hc
    have hstep := hg.top c s p hc hp
    rcases hcp : c.getD p none with _ | x
    · -- unfilled: a decision node
      have hp2 : 2 ≤ p := by
        rcases Nat.lt_or_ge p 2 with h2 | h2
        · have : p = 0 ∨ p = 1 := by omega
          rcases this with rfl | rfl
          · rw [hc.zero] at hcp; cases hcp
          · rw [hc.one (by omega)] at hcp; cases hcp
        · exact h2
      have hnd : A[p]? = some A[p] := by simp [hp]
      obtain ⟨hv, hl, hh, hvl, hvh⟩ := h.inner p A[p] hp2 hnd
      have hvar : varOf A n p = A[p].var := varOf_node p _ hp2 hnd
      have hna : nodeAt A p = A[p] := nodeAt_eq hp
      -- conditional processing of a child
      have child : ∀ (q : Nat) (b : Bool) (c1 : Cache) (s1 : Array Nat), q < A.size → A[p].var < varOf A n q →
          CInv A w (n + 1) c1 → (b = false → ∃ x, c1.getD q none = some x) →
          Proc A n w g q (if b then 1 else 0) c1 (pushIf b q s1) s1 := by
        intro q b c1 s1 hq hvq hc1 hb
        cases b with
        | true => exact ih q c1 s1 hq (by omega) hc1
        | false =>
          obtain ⟨x, hx⟩ := hb rfl
          refine ⟨0, c1, by simp, hc1, ?_, fun _ _ hr => hr, fun r hr => absurd rfl hr, fun m => ?_⟩
          · rw [hx, hc1.sound q x hx]
          · simp [pushIf]
      rcases hcl : c.getD A[p].low none with _ | cl
      all_goals rcases hch : c.getD A[p].high none with _ | ch
      case some.some =>
        -- both children filled: compute and pop
        rw [coreStep_compute hcp (by rw [hna]; exact hcl) (by rw [hna]; exact hch), hna] at hstep
        have ecl := hc.sound _ _ hcl
        have ech := hc.sound _ _ hch
        rw [ecl, ech, cardNode_cardF h w p hp2 hp] at hstep
        have hpc : p < c.size := by rw [hc.size]; exact hp
        refine ⟨1, _, ?_, cinv_set hc p hp2, ?_, ?_, ?_, fun m => ?_⟩
        · have := unc_set c p (cardF A w (n + 1) p) hpc hcp; omega
        · rw [getD_set, if_pos ⟨rfl, hpc⟩]
        · intro r x hx
          rw [getD_set]
          have hrp : p ≠ r := fun e => by rw [← e, hcp] at hx; cases hx
          rw [if_neg (fun e => hrp e.1)]; exact hx
        · intro r hr
          rw [getD_set] at hr
          by_cases e : p = r
          · rw [e]; exact Nat.le_refl _
          · rw [if_neg (fun e' => e e'.1)] at hr; exact absurd rfl hr
        · rw [Nat.add_comm]; exact iter_yield hstep m
      all_goals
        -- at least one child unfilled: push, process the children, come back
        rw [coreStep_push hcp (by rw [hna, hcl, hch]; rfl), hna, hcl, hch] at hstep
        obtain ⟨k1, c1, hk1, hc1, hv1, hm1, hf1, hi1⟩ :=
          child A[p].high (c.getD A[p].high none).isNone c
            (pushIf (c.getD A[p].low none).isNone A[p].low (s.push p)) hh hvh hc
            (by rw [hch]; first | (intro _; exact ⟨_, rfl⟩) | (intro e; cases e))
        obtain ⟨k2, c2, hk2, hc2, hv2, hm2, hf2, hi2⟩ :=
          child A[p].low (c.getD A[p].low none).isNone c1 (s.push p) hl hvl hc1
            (by rw [hcl]; first | (intro _; exact ⟨_, hm1 _ _ hcl⟩) | (intro e; cases e))
        simp only [hcl, hch] at hk1 hk2 hi1 hi2
        -- `p` is still unfilled, both children are filled
        have hp1 : c1.getD p none = none := by
          rcases Classical.em (c1.getD p none = c.getD p none) with e | e
          · rw [e, hcp]
          · have := hf1 p e; omega
        have hp2' : c2.getD p none = none := by
          rcases Classical.em (c2.getD p none = c1.getD p none) with e | e
          · rw [e, hp1]
          · have := hf2 p e; omega
        have hstep2 := hg.top c2 s p hc2 hp
        rw [coreStep_compute hp2' (by rw [hna]; exact hv2) (by rw [hna]; exact hm2 _ _ hv1), hna,
          cardNode_cardF h w p hp2 hp] at hstep2
        have hpc : p < c2.size := by rw [hc2.size]; exact hp
        have hu := unc_set c2 p (cardF A w (n + 1) p) hpc hp2'
        refine ⟨1 + (k1 + (k2 + 1)), _, ?_, cinv_set hc2 p hp2, ?_, ?_, ?_, fun m => ?_⟩
        · simp only [Option.isNone_none, Option.isNone_some, if_true, Bool.false_eq_true, if_false] at hk1 hk2
          omega
        · rw [getD_set, if_pos ⟨rfl, hpc⟩]
        · intro r x hx
          rw [getD_set]
          have hrp : p ≠ r := fun e => by rw [← e, hcp] at hx; cases hx
          rw [if_neg (fun e => hrp e.1)]; exact hm2 _ _ (hm1 _ _ hx)
        · intro r hr
          rw [getD_set] at hr
          by_cases e : p = r
          · rw [e]; exact Nat.le_refl _
          · rw [if_neg (fun e' => e e'.1)] at hr
            rcases Classical.em (c2.getD r none = c1.getD r none) with e2 | e2
            · rw [e2] at hr; have := hf1 r hr; omega
            · have := hf2 r e2; omega
        · have e1 : 1 + (k1 + (k2 + 1)) + m = (k1 + (k2 + (1 + m))) + 1 := by omega
          rw [e1, iter_yield hstep, hi1, hi2, Nat.add_comm 1 m, iter_yield hstep2]
    · -- filled: pop
      rw [coreStep_cached hcp] at hstep
      refine ⟨1, c, by omega, hc, ?_, fun _ _ hr => hr, fun r hr => absurd rfl hr, fun m => ?_⟩
      · rw [hcp, hc.sound p x hcp]
      · rw [Nat.add_comm]; exact iter_yield hstep m

/-- the whole loop: from the initial cache and the stack `[root]`, any fuel `≥ 3·len + 1` empties the stack and
    leaves the value of the plain recursion in the root's entry -/
theorem run_loop {A : Arr} {n : Nat} (h : WFo A n) (w : Bool) {g : CState → Outcome (ForInStep CState)}
    (hg : StepOK A w (n + 1) g) (fuel : Nat) (hfuel : 3 * A.size + 1 ≤ fuel) :
    ∃ c', iter g fuel (initCache A, #[root A]) = .ok (c', #[]) ∧ c'.size = A.size ∧
      c'.getD (root A) none = some (cardF A w (n + 1) (root A)) := by
  have hs := wfo_size_pos h
  have hle := varOf_le_wfo h (root A)
  obtain ⟨k, c', hk, hc', hv, _, _, hi⟩ := process h w hg (n + 1) (root A) (initCache A) #[] (root_lt_size hs)
    (by omega) (cinv_init A w (n + 1) hs)
  have hu : unc (initCache A) ≤ A.size := by
    have := unc_le (initCache A); simpa [initCache] using this
  have hkf : k ≤ fuel := by omega
  refine ⟨c', ?_, hc'.size, hv⟩
  have : fuel = k + (fuel - k) := by omega
  rw [this]
  have e : (#[] : Array Nat).push (root A) = #[root A] := rfl
  rw [e] at hi
  rw [hi, iter_empty hg]

/-! ## the two generated loop bodies, written out by hand -/

/-- hand-written loop body of `exact_clause_cardinality`; state = (`cache`, `stack`) -/
def ccStep (A : Arr) (st : CState) : Outcome (ForInStep CState) :=
  match st.2.back? with
  | none => .ok (.done st)
  | some node =>
    match st.1[node]? with
    | none => .panic "index out of bounds"
    | some (some _) => .ok (.yield (st.1, st.2.pop))
    | some none =>
      match A[node]? with
      | none => .panic "index out of bounds"
      | some nd =>
        match st.1[nd.low]? with
        | none => .panic "index out of bounds"
        | some el =>
          match st.1[nd.high]? with
          | none => .panic "index out of bounds"
          | some eh =>
            match el, eh with
            | some cl, some ch => .ok (.yield (st.1.setIfInBounds node (some (cl + ch)), st.2.pop))
            | _, _ =>
              .ok (.yield (st.1, pushIf eh.isNone (Rust.asU32 nd.high) (pushIf el.isNone (Rust.asU32 nd.low) st.2)))

/-- `a - b - 1` in `u16` arithmetic with overflow checks -/
def subSub1 (a b : Nat) : Outcome Nat := (Rust.sub a b).bind fun d => Rust.sub d 1

/-- hand-written loop body of `exact_cardinality` -/
def ecStep (A : Arr) (st : CState) : Outcome (ForInStep CState) :=
  match st.2.back? with
  | none => .ok (.done st)
  | some node =>
    match st.1[node]? with
    | none => .panic "index out of bounds"
    | some (some _) => .ok (.yield (st.1, st.2.pop))
    | some none =>
      match A[node]? with
      | none => .panic "index out of bounds"
      | some nd =>
        match A[nd.low]? with
        | none => .panic "index out of bounds"
        | some ln =>
          match A[nd.high]? with
          | none => .panic "index out of bounds"
          | some hn =>
            match st.1[nd.low]? with
            | none => .panic "index out of bounds"
            | some el =>
              match st.1[nd.high]? with
              | none => .panic "index out of bounds"
              | some eh =>
                match el, eh with
                | some cl, some ch =>
                  (subSub1 ln.var nd.var).bind fun k1 => (subSub1 hn.var nd.var).bind fun k2 =>
                    .ok (.yield (st.1.setIfInBounds node (some (cl * 1 <<< k1 + ch * 1 <<< k2)), st.2.pop))
                | _, _ =>
                  .ok (.yield (st.1,
                    pushIf eh.isNone (Rust.asU32 nd.high) (pushIf el.isNone (Rust.asU32 nd.low) st.2)))

/-- after the loop of `exact_clause_cardinality` -/
def ccPost (st : CState) : Outcome Nat :=
  match st.2.back? with
  | some _ => .panic "fuel"
  | none => Rust.unwrap st.1.back?.join

/-- after the loop of `exact_cardinality` -/
def ecPost (A : Arr) (st : CState) : Outcome Nat :=
  match st.2.back? with
  | some _ => .panic "fuel"
  | none => (Rust.unwrap A.back?).bind fun nd => (Rust.unwrap st.1.back?.join).bind fun x => .ok (x * 1 <<< nd.var)

theorem init_cache_eq (A : Arr) (h2 : 2 ≤ A.size) :
    ((Rust.setIdx (Rust.vecRepeat (none : Option Nat) A.size) 0 (some 0)) >>= fun c =>
      Rust.setIdx c 1 (some 1)) = .ok (initCache A) := by
  rw [setIdx_eq, if_pos (by simp [Rust.vecRepeat]; omega)]
  simp only [bind_ok]
  rw [setIdx_eq, if_pos (by simp [Rust.vecRepeat]; omega)]
  rfl

/-- desugaring lemma (against the generated definition) -/
theorem clause_card_desugar (fuel : Nat) (A : Arr) (h2 : 2 ≤ A.size) (hs : A.size ≤ 4294967296) :
    Algo.Bdd_exact_clause_cardinality fuel A = (iter (ccStep A) fuel (initCache A, #[root A])).bind ccPost := by
  unfold Algo.Bdd_exact_clause_cardinality Algo.Bdd_is_false
  have h1 : ¬ A.size = 1 := by omega
  have hi := init_cache_eq A h2
  rw [setIdx_eq, if_pos (by simp [Rust.vecRepeat]; omega)] at hi
  simp only [bind_ok] at hi
  simp only [beq_iff_eq, h1, if_false, setIdx_eq (Rust.vecRepeat none A.size) 0,
    show 0 < (Rust.vecRepeat (none : Option Nat) A.size).size by simp [Rust.vecRepeat]; omega, if_true, bind_ok,
    hi, root_pointer_eq A (by omega) hs, forIn_range_eq_iter]
  rw [iter_congr _ (ccStep A)]
  · cases iter (ccStep A) fuel (initCache A, #[root A]) with
    | ok st =>
      obtain ⟨c, s⟩ := st
      simp only [bind_ok, Outcome.bind, ccPost]
      cases s.back? <;> rfl
    | err m => rfl
    | panic m => rfl
  · intro ⟨c, s⟩
    simp only [ccStep, idx_eq, low_link_eq, high_link_eq, setIdx_eq, pure_eq]
    cases hb : s.back? with
    | none => rfl
    | some node =>
      simp only
      cases hc : c[node]? with
      | none => rfl
      | some e =>
        have hlt : node < c.size := by
          rcases Nat.lt_or_ge node c.size with h | h
          · exact h
          · rw [Array.getElem?_eq_none h] at hc; cases hc
        cases e with
        | some x => rfl
        | none =>
          simp only [bind_ok, Option.isSome_none, Bool.false_eq_true, if_false]
          cases hA : A[node]? with
          | none => rfl
          | some nd =>
            simp only [bind_ok]
            cases hl : c[nd.low]? with
            | none => rfl
            | some el =>
              simp only [bind_ok]
              cases hh : c[nd.high]? with
              | none => rfl
              | some eh =>
                simp only [bind_ok]
                cases el <;> cases eh <;> simp [pushIf, hlt]

/-- desugaring lemma (against the generated definition) -/
theorem exact_card_desugar (fuel : Nat) (A : Arr) (h2 : 2 ≤ A.size) (hs : A.size ≤ 4294967296) :
    Algo.Bdd_exact_cardinality fuel A = (iter (ecStep A) fuel (initCache A, #[root A])).bind (ecPost A) := by
  unfold Algo.Bdd_exact_cardinality Algo.Bdd_is_false
  have h1 : ¬ A.size = 1 := by omega
  have hi := init_cache_eq A h2
  rw [setIdx_eq, if_pos (by simp [Rust.vecRepeat]; omega)] at hi
  simp only [bind_ok] at hi
  simp only [beq_iff_eq, h1, if_false, setIdx_eq (Rust.vecRepeat none A.size) 0,
    show 0 < (Rust.vecRepeat (none : Option Nat) A.size).size by simp [Rust.vecRepeat]; omega, if_true, bind_ok,
    hi, root_pointer_eq A (by omega) hs, forIn_range_eq_iter]
  rw [iter_congr _ (ecStep A)]
  · cases iter (ecStep A) fuel (initCache A, #[root A]) with
    | ok st =>
      obtain ⟨c, s⟩ := st
      simp only [bind_ok, Outcome.bind, ecPost]
      cases s.back? with
      | some x => rfl
      | none =>
        simp only
        cases Rust.unwrap A.back? with
        | ok nd =>
          simp only [bind_ok]
          cases Rust.unwrap c.back?.join <;> rfl
        | err m => rfl
        | panic m => rfl
    | err m => rfl
    | panic m => rfl
  · intro ⟨c, s⟩
    simp only [ecStep, idx_eq, low_link_eq, high_link_eq, var_of_eq, setIdx_eq, pure_eq]
    cases hb : s.back? with
    | none => rfl
    | some node =>
      simp only
      cases hc : c[node]? with
      | none => rfl
      | some e =>
        have hlt : node < c.size := by
          rcases Nat.lt_or_ge node c.size with h | h
          · exact h
          · rw [Array.getElem?_eq_none h] at hc; cases hc
        cases e with
        | some x => rfl
        | none =>
          simp only [bind_ok, Option.isSome_none, Bool.false_eq_true, if_false]
          cases hA : A[node]? with
          | none => rfl
          | some nd =>
            simp only [bind_ok]
            cases hAl : A[nd.low]? with
            | none => rfl
            | some ln =>
              simp only [bind_ok]
              cases hAh : A[nd.high]? with
              | none => rfl
              | some hn =>
                simp only [bind_ok]
                cases hl : c[nd.low]? with
                | none => rfl
                | some el =>
                  simp only [bind_ok]
                  cases hh : c[nd.high]? with
                  | none => rfl
                  | some eh =>
                    simp only [bind_ok]
                    cases el with
                    | none => cases eh <;> simp [pushIf]
                    | some cl =>
                      cases eh with
                      | none => simp [pushIf]
                      | some ch =>
                        simp only [subSub1, bind_eq]
                        cases Rust.sub ln.var nd.var with
                        | ok d1 =>
                          simp only [Outcome.bind]
                          cases Rust.sub d1 1 with
                          | ok k1 =>
                            simp only
                            cases Rust.sub hn.var nd.var with
                            | ok d2 =>
                              simp only
                              cases Rust.sub d2 1 with
                              | ok k2 => simp [hlt]
                              | err m => rfl
                              | panic m => rfl
                            | err m => rfl
                            | panic m => rfl
                          | err m => rfl
                          | panic m => rfl
                        | err m => rfl
                        | panic m => rfl

/-! ## the hand-written loop bodies are `coreStep` on well-formed arrays -/

theorem getElem?_of_getD {c : Cache} {p : Nat} (hp : p < c.size) : c[p]? = some (c.getD p none) := by
  simp [Array.getD_eq_getD_getElem?, hp]

theorem back_push (s : Array Nat) (p : Nat) : (s.push p).back? = some p := Array.back?_push

/-- facts shared by the two `StepOK` proofs: an unfilled entry belongs to a decision node whose links are in range -/
theorem unfilled_node {A : Arr} {n : Nat} (h : WFo A n) {w : Bool} {F : Nat} {c : Cache} (hc : CInv A w F c)
    {p : Nat} (hp : p < A.size) (hcp : c.getD p none = none) :
    2 ≤ p ∧ A[p]? = some A[p] ∧ nodeAt A p = A[p] ∧ A[p].low < A.size ∧ A[p].high < A.size ∧
      A[p].var < varAt A A[p].low ∧ A[p].var < varAt A A[p].high := by
  have hp2 : 2 ≤ p := by
    rcases Nat.lt_or_ge p 2 with h2 | h2
    · have : p = 0 ∨ p = 1 := by omega
      rcases this with rfl | rfl
      · rw [hc.zero] at hcp; cases hcp
      · rw [hc.one (by omega)] at hcp; cases hcp
    · exact h2
  have hnd : A[p]? = some A[p] := by simp [hp]
  obtain ⟨hv, hl, hh, hvl, hvh⟩ := h.inner p A[p] hp2 hnd
  refine ⟨hp2, hnd, nodeAt_eq hp, hl, hh, ?_, ?_⟩
  · rw [varAt_eq_varOf h _ hl]; exact hvl
  · rw [varAt_eq_varOf h _ hh]; exact hvh

theorem ccStep_ok {A : Arr} {n : Nat} (h : WFo A n) (hs : A.size ≤ 4294967296) (F : Nat) :
    StepOK A false F (ccStep A) := by
  refine ⟨fun c => rfl, ?_⟩
  intro c s p hc hp
  have hpc : p < c.size := by rw [hc.size]; exact hp
  simp only [ccStep, back_push, Array.pop_push, getElem?_of_getD hpc]
  rcases hcp : c.getD p none with _ | x
  · obtain ⟨hp2, hnd, hna, hl, hh, _, _⟩ := unfilled_node h hc hp hcp
    have hlc : A[p].low < c.size := by rw [hc.size]; exact hl
    have hhc : A[p].high < c.size := by rw [hc.size]; exact hh
    simp only [hnd, getElem?_of_getD hlc, getElem?_of_getD hhc, asU32_of_lt (show A[p].low < 4294967296 by omega),
      asU32_of_lt (show A[p].high < 4294967296 by omega)]
    rcases hcl : c.getD A[p].low none with _ | cl <;> rcases hch : c.getD A[p].high none with _ | ch
    · rw [coreStep_push hcp (by rw [hna, hcl]; rfl), hna, hcl, hch]
    · rw [coreStep_push hcp (by rw [hna, hcl]; rfl), hna, hcl, hch]
    · rw [coreStep_push hcp (by rw [hna, hcl, hch]; rfl), hna, hcl, hch]
    · rw [coreStep_compute hcp (by rw [hna]; exact hcl) (by rw [hna]; exact hch), hna]
      rfl
  · rw [coreStep_cached hcp]

theorem subSub1_ok {a b : Nat} (h : b < a) : subSub1 a b = .ok (a - b - 1) := by
  unfold subSub1 Rust.sub
  simp only [show b ≤ a by omega, if_true, Outcome.bind, show 1 ≤ a - b by omega]

theorem ecStep_ok {A : Arr} {n : Nat} (h : WFo A n) (hs : A.size ≤ 4294967296) (F : Nat) :
    StepOK A true F (ecStep A) := by
  refine ⟨fun c => rfl, ?_⟩
  intro c s p hc hp
  have hpc : p < c.size := by rw [hc.size]; exact hp
  simp only [ecStep, back_push, Array.pop_push, getElem?_of_getD hpc]
  rcases hcp : c.getD p none with _ | x
  · obtain ⟨hp2, hnd, hna, hl, hh, hvl, hvh⟩ := unfilled_node h hc hp hcp
    have hlc : A[p].low < c.size := by rw [hc.size]; exact hl
    have hhc : A[p].high < c.size := by rw [hc.size]; exact hh
    have hAl : A[A[p].low]? = some A[A[p].low] := by simp [hl]
    have hAh : A[A[p].high]? = some A[A[p].high] := by simp [hh]
    have evl : varAt A A[p].low = A[A[p].low].var := by unfold varAt; rw [nodeAt_eq hl]
    have evh : varAt A A[p].high = A[A[p].high].var := by unfold varAt; rw [nodeAt_eq hh]
    simp only [hnd, hAl, hAh, getElem?_of_getD hlc, getElem?_of_getD hhc,
      asU32_of_lt (show A[p].low < 4294967296 by omega), asU32_of_lt (show A[p].high < 4294967296 by omega)]
    rcases hcl : c.getD A[p].low none with _ | cl <;> rcases hch : c.getD A[p].high none with _ | ch
    · rw [coreStep_push hcp (by rw [hna, hcl]; rfl), hna, hcl, hch]
    · rw [coreStep_push hcp (by rw [hna, hcl]; rfl), hna, hcl, hch]
    · rw [coreStep_push hcp (by rw [hna, hcl, hch]; rfl), hna, hcl, hch]
    · rw [coreStep_compute hcp (by rw [hna]; exact hcl) (by rw [hna]; exact hch), hna]
      simp only [subSub1_ok (show A[p].var < A[A[p].low].var by omega),
        subSub1_ok (show A[p].var < A[A[p].high].var by omega), Outcome.bind, Nat.one_shiftLeft]
      unfold cardNode
      simp only [if_true, evl, evh]
  · rw [coreStep_cached hcp]

/-! ## the two functions -/

theorem back_eq_root {α} (c : Array α) (A : Arr) (hsz : c.size = A.size) : c.back? = c[root A]? := by
  rw [Array.back?_eq_getElem?, hsz]; rfl

/-- `exact_clause_cardinality` on a level-well-formed array: the translated code returns the root value of the
    plain recursion `cardF … false` for every fuel `≥ 3·len + 1` -/
theorem Bdd_exact_clause_cardinality_val {A : Arr} {n : Nat} (h : WFo A n) (hs : A.size ≤ 4294967296)
    (fuel : Nat) (hfuel : 3 * A.size + 1 ≤ fuel) :
    Algo.Bdd_exact_clause_cardinality fuel A = .ok (cardF A false (n + 1) (root A)) := by
  have hpos := wfo_size_pos h
  by_cases h1 : A.size = 1
  · have hr : root A = 0 := by unfold root; omega
    unfold Algo.Bdd_exact_clause_cardinality Algo.Bdd_is_false
    simp only [beq_iff_eq, h1, if_true, pure_eq, hr, cardF_zero]
  · rw [clause_card_desugar fuel A (by omega) hs]
    obtain ⟨c', hrun, hsz, hv⟩ := run_loop h false (ccStep_ok h hs (n + 1)) fuel hfuel
    rw [hrun]
    have hrl : root A < c'.size := by rw [hsz]; exact root_lt_size hpos
    simp only [Outcome.bind, ccPost, Array.back?_empty, back_eq_root c' A hsz, getElem?_of_getD hrl, hv]
    rfl

/-- `exact_cardinality` on a level-well-formed array: the translated code returns
    `cardF … true (root) · 2^(var of the root)` for every fuel `≥ 3·len + 1` -/
theorem Bdd_exact_cardinality_val {A : Arr} {n : Nat} (h : WFo A n) (hs : A.size ≤ 4294967296)
    (fuel : Nat) (hfuel : 3 * A.size + 1 ≤ fuel) :
    Algo.Bdd_exact_cardinality fuel A =
      .ok (if A.size = 1 then 0 else cardF A true (n + 1) (root A) * 2 ^ varAt A (root A)) := by
  have hpos := wfo_size_pos h
  by_cases h1 : A.size = 1
  · unfold Algo.Bdd_exact_cardinality Algo.Bdd_is_false
    simp only [beq_iff_eq, h1, if_true, pure_eq]
  · rw [exact_card_desugar fuel A (by omega) hs, if_neg h1]
    obtain ⟨c', hrun, hsz, hv⟩ := run_loop h true (ecStep_ok h hs (n + 1)) fuel hfuel
    rw [hrun]
    have hrl : root A < c'.size := by rw [hsz]; exact root_lt_size hpos
    have hra : A.back? = some A[root A] := by
      rw [back_eq_root A A rfl]; simp [root_lt_size hpos]
    simp only [Outcome.bind, ecPost, Array.back?_empty, back_eq_root c' A hsz, getElem?_of_getD hrl, hv, hra,
      Rust.unwrap, Option.join, Nat.one_shiftLeft]
    unfold varAt
    rw [nodeAt_eq (root_lt_size hpos)]
    rfl

/-- **exact_cardinality, translated code = hand model** (`WFo A n`, `len ≤ 2^32`, fuel `≥ 3·len + 1`) -/
theorem Bdd_exact_cardinality_eq_model {A : Arr} {n : Nat} (h : WFo A n) (hs : A.size ≤ 4294967296)
    (fuel : Nat) (hfuel : 3 * A.size + 1 ≤ fuel) : Algo.Bdd_exact_cardinality fuel A = exactCardO A := by
  rw [Bdd_exact_cardinality_val h hs fuel hfuel]
  have hpos := wfo_size_pos h
  unfold exactCardO
  by_cases h1 : A.size = 1
  · rw [if_pos h1, if_neg (by omega), if_pos h1]
  · rw [if_neg h1, if_neg (by omega), if_neg h1, cardOk_of_wfo h]
    simp only [Bool.not_true, Bool.false_eq_true, if_false]
    rw [cardCache_root h true]

/-- **exact_clause_cardinality, translated code = hand model** -/
theorem Bdd_exact_clause_cardinality_eq_model {A : Arr} {n : Nat} (h : WFo A n) (hs : A.size ≤ 4294967296)
    (fuel : Nat) (hfuel : 3 * A.size + 1 ≤ fuel) :
    Algo.Bdd_exact_clause_cardinality fuel A = clauseCardO A := by
  rw [Bdd_exact_clause_cardinality_val h hs fuel hfuel, clauseCardO_wfo h]

end B.AlgoEqUtil
