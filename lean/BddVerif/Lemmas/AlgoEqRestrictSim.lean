import BddVerif.Lemmas.AlgoEqRestrict
import BddVerif.Lemmas.RelRestrict
/-!
Equivalence "translated Rust = hand-written model" for `restriction()`, part 2: the SIMULATION. The explicit-stack
loop `rstep` (= the body of the generated loop, `AlgoEqRestrict.restriction_desugar`) started with pointer `p` on top
of the stack reaches, after at most `3·(number of new_id cells it fills) − 2` iterations, the state in which `p` is
popped and `new_id`, `output`, `node_cache` are what the recursive model `Rel.restrictRec` returns for `p`.
-/
namespace B.AlgoEqR
open B B.Gen Std B.Rel

/-- number of filled cells of `new_id` -/
def cnt (a : Array (Option Nat)) : Nat := a.countP Option.isSome

theorem lt_of_getElem?_some {α : Type} {a : Array α} {p : Nat} {x : α} (h : a[p]? = some x) : p < a.size := by
  rcases Nat.lt_or_ge p a.size with h' | h'
  · exact h'
  · rw [Array.getElem?_eq_none h'] at h; cases h

theorem cnt_set {a : Array (Option Nat)} {p x : Nat} (h : a[p]? = some none) :
    cnt (a.setIfInBounds p (some x)) = cnt a + 1 := by
  have hp := lt_of_getElem?_some h
  have hv : a[p] = none := by
    have := Array.getElem?_eq_getElem hp
    rw [this] at h; exact Option.some.inj h
  unfold cnt
  rw [Array.setIfInBounds, dif_pos hp, Array.countP_set hp, hv]
  simp

theorem cnt_lt {a : Array (Option Nat)} {p : Nat} (h : a[p]? = some none) : cnt a < a.size := by
  have h1 := cnt_set (x := 0) h
  have h2 : cnt (a.setIfInBounds p (some 0)) ≤ (a.setIfInBounds p (some 0)).size := Array.countP_le_size
  simp only [Array.size_setIfInBounds] at h2
  omega

theorem pvalIndex_eq (pv : Array (Option Bool)) (v : Nat) : Rust.pvalIndex pv v = PVal.get pv.toList v := by
  unfold Rust.pvalIndex PVal.get
  by_cases h : v < pv.size
  · simp [h]
  · simp [h]

/-- the loop's tables and the model's state hold the same data -/
structure Rl (A : Arr) (s : RSt) (nid : Array (Option Nat)) (out : Arr) (cache : HashMap Node Nat) : Prop where
  hout : out = s.out
  hcache : ∀ k : Node, cache[k]? = s.cache[k]?
  size : nid.size = A.size
  hnid : ∀ p, p < A.size → nid[p]? = some s.newId[p]?
  t0 : s.newId[0]? ≠ none
  t1 : s.newId[1]? ≠ none
  osz : s.out.size ≤ cnt nid

/-- recording `p ↦ q` on both sides -/
theorem Rl.record {A : Arr} {s : RSt} {nid : Array (Option Nat)} {out : Arr} {cache : HashMap Node Nat}
    (h : Rl A s nid out cache) {p q : Nat} (hp : p < A.size) (hnone : s.newId[p]? = none)
    (s' : RSt) (out' : Arr) (cache' : HashMap Node Nat)
    (hn : s'.newId = s.newId.insert p q) (ho : out' = s'.out) (hc : ∀ k : Node, cache'[k]? = s'.cache[k]?)
    (hsz : s'.out.size ≤ s.out.size + 1) :
    Rl A s' (nid.setIfInBounds p (some q)) out' cache' ∧ cnt (nid.setIfInBounds p (some q)) = cnt nid + 1 := by
  have hcell : nid[p]? = some none := by rw [h.hnid p hp, hnone]
  have hc1 := cnt_set (x := q) hcell
  refine ⟨⟨ho, hc, by simp [h.size], ?_, ?_, ?_, ?_⟩, hc1⟩
  · intro p' hp'
    rw [hn, HashMap.getElem?_insert, Array.getElem?_setIfInBounds]
    by_cases e : p = p'
    · subst e; simp [h.size, hp]
    · have : (p == p') = false := by simpa using e
      simp only [e, if_false, this, Bool.false_eq_true]
      exact h.hnid p' hp'
  · rw [hn, HashMap.getElem?_insert]
    split
    · simp
    · exact h.t0
  · rw [hn, HashMap.getElem?_insert]
    split
    · simp
    · exact h.t1
  · have := h.osz; omega

/-! ### single steps of the loop -/

section steps
variable (A : Arr) (pv : Array (Option Bool)) (nid : Array (Option Nat)) (out : Arr) (cache : HashMap Node Nat)
  (rest : Array Nat) (p : Nat) (nd : Node)

theorem rstep_r_push (c : Bool) (h1 : nid[p]? = some none) (h2 : A[p]? = some nd)
    (h3 : Rust.pvalIndex pv nd.var = some c) (h4 : nid[if c then nd.high else nd.low]? = some none) :
    rstep A pv (nid, out, cache, rest.push p) =
      .ok (.yield (nid, out, cache, (rest.push p).push (if c then nd.high else nd.low))) := by
  simp only [rstep, Array.back?_push, Array.pop_push, h1, h2, h3, h4]

theorem rstep_r_fin (c : Bool) (q : Nat) (h1 : nid[p]? = some none) (h2 : A[p]? = some nd)
    (h3 : Rust.pvalIndex pv nd.var = some c) (h4 : nid[if c then nd.high else nd.low]? = some (some q)) :
    rstep A pv (nid, out, cache, rest.push p) = .ok (.yield (nid.setIfInBounds p (some q), out, cache, rest)) := by
  simp only [rstep, Array.back?_push, Array.pop_push, h1, h2, h3, h4]

theorem rstep_u_push_h (h1 : nid[p]? = some none) (h2 : A[p]? = some nd)
    (h3 : Rust.pvalIndex pv nd.var = none) (h4 : nid[nd.high]? = some none) :
    rstep A pv (nid, out, cache, rest.push p) = .ok (.yield (nid, out, cache, (rest.push p).push nd.high)) := by
  simp only [rstep, Array.back?_push, Array.pop_push, h1, h2, h3, h4]

theorem rstep_u_push_l (qh : Nat) (h1 : nid[p]? = some none) (h2 : A[p]? = some nd)
    (h3 : Rust.pvalIndex pv nd.var = none) (h4 : nid[nd.high]? = some (some qh)) (h5 : nid[nd.low]? = some none) :
    rstep A pv (nid, out, cache, rest.push p) = .ok (.yield (nid, out, cache, (rest.push p).push nd.low)) := by
  simp only [rstep, Array.back?_push, Array.pop_push, h1, h2, h3, h4, h5]

/-- lines 244-258 on the loop's variables -/
def lfinish (var ql qh : Nat) : Array (Option Nat) × Arr × HashMap Node Nat :=
  if qh = ql then (nid.setIfInBounds p (some qh), out, cache)
  else
    match cache[(⟨var, ql, qh⟩ : Node)]? with
    | some i => (nid.setIfInBounds p (some i), out, cache)
    | none => (nid.setIfInBounds p (some (u32 out.size)), out.push ⟨var, ql, qh⟩, cache.insert ⟨var, ql, qh⟩ (u32 out.size))

theorem rstep_u_fin (qh ql : Nat) (h1 : nid[p]? = some none) (h2 : A[p]? = some nd)
    (h3 : Rust.pvalIndex pv nd.var = none) (h4 : nid[nd.high]? = some (some qh)) (h5 : nid[nd.low]? = some (some ql)) :
    rstep A pv (nid, out, cache, rest.push p) =
      .ok (.yield ((lfinish nid out cache p nd.var ql qh).1, (lfinish nid out cache p nd.var ql qh).2.1,
        (lfinish nid out cache p nd.var ql qh).2.2, rest)) := by
  simp only [rstep, Array.back?_push, Array.pop_push, h1, h2, h3, h4, h5, lfinish]
  by_cases e : qh = ql
  · simp only [e, if_true]
  · simp only [e, if_false]
    cases cache[(⟨nd.var, ql, qh⟩ : Node)]? <;> rfl

end steps

/-- the find-or-push of `node_cache` on both sides -/
theorem finish_rel {A : Arr} {s : RSt} {nid : Array (Option Nat)} {out : Arr} {cache : HashMap Node Nat}
    (h : Rl A s nid out cache) {p : Nat} (hp : p < A.size) (hnone : s.newId[p]? = none)
    (h32 : A.size ≤ 4294967296) (var ql qh : Nat) :
    Rl A (restrictFinish s p var ql qh).1 (lfinish nid out cache p var ql qh).1
        (lfinish nid out cache p var ql qh).2.1 (lfinish nid out cache p var ql qh).2.2 ∧
      cnt (lfinish nid out cache p var ql qh).1 = cnt nid + 1 ∧
      (restrictFinish s p var ql qh).1.newId = s.newId.insert p (restrictFinish s p var ql qh).2 := by
  have hcell : nid[p]? = some none := by rw [h.hnid p hp, hnone]
  have hu : u32 out.size = s.out.size := by
    have h1 := cnt_lt hcell
    have h2 := h.osz
    have h3 := h.size
    rw [h.hout]
    exact Nat.mod_eq_of_lt (by omega)
  unfold restrictFinish lfinish
  by_cases e : qh = ql
  · simp only [e, if_true]
    obtain ⟨a, b⟩ := h.record (q := ql) hp hnone { s with newId := s.newId.insert p ql } out cache rfl h.hout h.hcache
      (by simp)
    exact ⟨a, b, trivial⟩
  · simp only [e, if_false]
    rw [h.hcache]
    cases hc : s.cache[(⟨var, ql, qh⟩ : Node)]? with
    | some i =>
      simp only []
      obtain ⟨a, b⟩ := h.record (q := i) hp hnone { s with newId := s.newId.insert p i } out cache rfl h.hout h.hcache
        (by simp)
      exact ⟨a, b, trivial⟩
    | none =>
      simp only [hu]
      obtain ⟨a, b⟩ := h.record (q := s.out.size) hp hnone
        { out := s.out.push ⟨var, ql, qh⟩, cache := s.cache.insert ⟨var, ql, qh⟩ s.out.size,
          newId := s.newId.insert p s.out.size }
        (out.push ⟨var, ql, qh⟩) (cache.insert ⟨var, ql, qh⟩ s.out.size) rfl (by rw [h.hout])
        (by intro k; simp only [HashMap.getElem?_insert, h.hcache]) (by simp)
      exact ⟨a, b, trivial⟩

/-! ### the simulation -/

/-- from `(nid, out, cache, stk)` the loop reaches, without leaving, a state with stack `rest` whose tables are those
    of the model result `r` for pointer `p`; iterations are paid for by newly filled `new_id` cells -/
def SimOut (A : Arr) (n : Nat) (pv : Array (Option Bool)) (p : Nat) (s : RSt)
    (nid : Array (Option Nat)) (out : Arr) (cache : HashMap Node Nat) (stk rest : Array Nat)
    (r : RSt × Nat) (slack : Nat) : Prop :=
  ∃ (k : Nat) (nid' : Array (Option Nat)) (out' : Arr) (cache' : HashMap Node Nat),
    runs (rstep A pv) k (nid, out, cache, stk) (nid', out', cache', rest) ∧
    Rl A r.1 nid' out' cache' ∧
    r.1.newId[p]? = some r.2 ∧
    (∀ q : Nat, varOf A n q < varOf A n p → r.1.newId[q]? = s.newId[q]?) ∧
    (∀ (q x : Nat), s.newId[q]? = some x → r.1.newId[q]? = some x) ∧
    k + slack + 3 * cnt nid ≤ 3 * cnt nid'

/-- popping an unfinished `p` with level fuel `f` -/
def Sim (A : Arr) (n : Nat) (pv : Array (Option Bool)) (f : Nat) : Prop :=
  ∀ (p : Nat) (s : RSt) (nid : Array (Option Nat)) (out : Arr) (cache : HashMap Node Nat) (rest : Array Nat),
    Rl A s nid out cache → p < A.size → n - varOf A n p < f → s.newId[p]? = none →
    SimOut A n pv p s nid out cache (rest.push p) rest (restrictRec A pv.toList f p s) 2

theorem restrictRec_found (A : Arr) (pvl : PVal) (f : Nat) (hf : 1 ≤ f) (p : Nat) (s : RSt) (q : Nat)
    (h : s.newId[p]? = some q) : restrictRec A pvl f p s = (s, q) := by
  cases f with
  | zero => omega
  | succ f =>
    show restrictStep A pvl (restrictRec A pvl f) p s = _
    unfold restrictStep
    rw [h]

/-- making sure that `new_id[link]` is filled while `p` waits on the stack: nothing to do if it is, otherwise the
    iteration at hand pushes `p` and `link` (hypothesis `hpush`) and `link` is processed -/
theorem ensure {A : Arr} {n : Nat} {pv : Array (Option Bool)} {f : Nat} (hS : Sim A n pv f) (hf : 1 ≤ f)
    (link p : Nat) (s : RSt) (nid : Array (Option Nat)) (out : Arr) (cache : HashMap Node Nat) (rest : Array Nat)
    (hR : Rl A s nid out cache) (hl : link < A.size) (hlev : n - varOf A n link < f)
    (hpush : s.newId[link]? = none →
      rstep A pv (nid, out, cache, rest.push p) = .ok (.yield (nid, out, cache, (rest.push p).push link))) :
    SimOut A n pv link s nid out cache (rest.push p) (rest.push p) (restrictRec A pv.toList f link s) 0 := by
  cases hq : s.newId[link]? with
  | some q =>
    rw [restrictRec_found A pv.toList f hf link s q hq]
    exact ⟨0, nid, out, cache, rfl, hR, hq, fun _ _ => rfl, fun _ _ h => h, by omega⟩
  | none =>
    obtain ⟨k, nid', out', cache', hr, h1, h2, h3, h4, h5⟩ := hS link s nid out cache (rest.push p) hR hl hlev hq
    refine ⟨1 + k, nid', out', cache', runs_trans (runs_one (hpush hq)) hr, h1, h2, h3, h4, by omega⟩

theorem sim_succ {A : Arr} {n : Nat} (hA : WFo A n) (h32 : A.size ≤ 4294967296) (pv : Array (Option Bool))
    (f : Nat) (hS : Sim A n pv f) : Sim A n pv (f + 1) := by
  intro p s nid out cache rest hR hp hlev hnone
  have hp2 : 2 ≤ p := by
    rcases Nat.lt_or_ge p 2 with h2 | h2
    · have : p = 0 ∨ p = 1 := by omega
      rcases this with rfl | rfl
      · exact absurd hnone hR.t0
      · exact absurd hnone hR.t1
    · exact h2
  have hnd : A[p]? = some A[p] := by simp [hp]
  generalize A[p] = nd at hnd
  obtain ⟨hvn, hlo, hhi, hvlo, hvhi⟩ := hA.inner p nd hp2 hnd
  have hvar : varOf A n p = nd.var := varOf_node p nd hp2 hnd
  have hcell : nid[p]? = some none := by rw [hR.hnid p hp, hnone]
  have hf : 1 ≤ f := by omega
  have hnode : nodeAt A p = nd := by simp [nodeAt, hnd]
  show SimOut A n pv p s nid out cache (rest.push p) rest
    (restrictStep A pv.toList (restrictRec A pv.toList f) p s) 2
  unfold restrictStep
  simp only [hnone, hnode]
  rw [← pvalIndex_eq]
  cases hpv : Rust.pvalIndex pv nd.var with
  | some c =>
    simp only []
    have hl : (if c then nd.high else nd.low) < A.size := by cases c <;> simpa
    have hvl : nd.var < varOf A n (if c then nd.high else nd.low) := by cases c <;> simpa
    have E := ensure hS hf (if c then nd.high else nd.low) p s nid out cache rest hR hl (by omega)
      (fun hq => rstep_r_push A pv nid out cache rest p nd c hcell hnd hpv (by rw [hR.hnid _ hl, hq]))
    obtain ⟨k, nid1, out1, cache1, hr, hR1, hq1, hfr1, hmo1, hk⟩ := E
    generalize restrictRec A pv.toList f (if c then nd.high else nd.low) s = r at hr hR1 hq1 hfr1 hmo1 hk ⊢
    have hp1 : r.1.newId[p]? = none := by rw [hfr1 p (by rw [hvar]; exact hvl)]; exact hnone
    have hstep := rstep_r_fin A pv nid1 out1 cache1 rest p nd c r.2 (by rw [hR1.hnid p hp, hp1]) hnd hpv
      (by rw [hR1.hnid _ hl, hq1])
    obtain ⟨hR2, hc2⟩ := hR1.record (q := r.2) hp hp1 { r.1 with newId := r.1.newId.insert p r.2 } out1 cache1 rfl
      hR1.hout hR1.hcache (by simp)
    refine ⟨k + 1, _, out1, cache1, runs_trans hr (runs_one hstep), hR2, ?_, ?_, ?_, by omega⟩
    · simp
    · intro q hq
      have hne : (p == q) = false := by
        simp only [beq_eq_false_iff_ne, ne_eq]; intro e; subst e; omega
      simp only [HashMap.getElem?_insert, hne, Bool.false_eq_true, if_false]
      exact hfr1 q (by omega)
    · intro q x hx
      have hne : (p == q) = false := by
        simp only [beq_eq_false_iff_ne, ne_eq]; intro e; subst e; rw [hnone] at hx; cases hx
      simp only [HashMap.getElem?_insert, hne, Bool.false_eq_true, if_false]
      exact hmo1 q x hx
  | none =>
    simp only []
    have E1 := ensure hS hf nd.high p s nid out cache rest hR hhi (by omega)
      (fun hq => rstep_u_push_h A pv nid out cache rest p nd hcell hnd hpv (by rw [hR.hnid _ hhi, hq]))
    obtain ⟨k1, nid1, out1, cache1, hr1, hR1, hq1, hfr1, hmo1, hk1⟩ := E1
    generalize restrictRec A pv.toList f nd.high s = rh at hr1 hR1 hq1 hfr1 hmo1 hk1 ⊢
    have hp1 : rh.1.newId[p]? = none := by rw [hfr1 p (by rw [hvar]; exact hvhi)]; exact hnone
    have E2 := ensure hS hf nd.low p rh.1 nid1 out1 cache1 rest hR1 hlo (by omega)
      (fun hq => rstep_u_push_l A pv nid1 out1 cache1 rest p nd rh.2 (by rw [hR1.hnid p hp, hp1]) hnd hpv
        (by rw [hR1.hnid _ hhi, hq1]) (by rw [hR1.hnid _ hlo, hq]))
    obtain ⟨k2, nid2, out2, cache2, hr2, hR2, hq2, hfr2, hmo2, hk2⟩ := E2
    generalize restrictRec A pv.toList f nd.low rh.1 = rl at hr2 hR2 hq2 hfr2 hmo2 hk2 ⊢
    have hp2' : rl.1.newId[p]? = none := by rw [hfr2 p (by rw [hvar]; exact hvlo)]; exact hp1
    have hqh : rl.1.newId[nd.high]? = some rh.2 := hmo2 _ _ hq1
    have hstep := rstep_u_fin A pv nid2 out2 cache2 rest p nd rh.2 rl.2 (by rw [hR2.hnid p hp, hp2']) hnd hpv
      (by rw [hR2.hnid _ hhi, hqh]) (by rw [hR2.hnid _ hlo, hq2])
    obtain ⟨hR3, hc3, hn3⟩ := finish_rel hR2 hp hp2' h32 nd.var rl.2 rh.2
    refine ⟨k1 + k2 + 1, _, _, _, runs_trans (runs_trans hr1 hr2) (runs_one hstep), hR3, ?_, ?_, ?_, by omega⟩
    · rw [hn3]; simp
    · intro q hq
      have hne : (p == q) = false := by
        simp only [beq_eq_false_iff_ne, ne_eq]; intro e; subst e; omega
      rw [hn3]
      simp only [HashMap.getElem?_insert, hne, Bool.false_eq_true, if_false]
      rw [hfr2 q (by omega)]
      exact hfr1 q (by omega)
    · intro q x hx
      have hne : (p == q) = false := by
        simp only [beq_eq_false_iff_ne, ne_eq]; intro e; subst e; rw [hnone] at hx; cases hx
      rw [hn3]
      simp only [HashMap.getElem?_insert, hne, Bool.false_eq_true, if_false]
      exact hmo2 q x (hmo1 q x hx)

theorem sim_all {A : Arr} {n : Nat} (hA : WFo A n) (h32 : A.size ≤ 4294967296) (pv : Array (Option Bool)) :
    ∀ f, Sim A n pv f
  | 0 => by intro p s nid out cache rest _ _ h; omega
  | f + 1 => sim_succ hA h32 pv f (sim_all hA h32 pv f)

/-- lines 189-198 on both sides -/
theorem init_rel {A : Arr} {n : Nat} (hA : WFo A n) (hsz : 2 < A.size) :
    Rl A (initRSt n) (initSt A).1 (initSt A).2.1 (initSt A).2.2.1 ∧ 2 ≤ cnt (initSt A).1 := by
  have hn := numVars_of_wf hA
  have hc0 : ((Array.replicate A.size (none : Option Nat)))[0]? = some none := by
    rw [Array.getElem?_replicate, if_pos (by omega)]
  have hc1 : ((Array.replicate A.size (none : Option Nat)).setIfInBounds 0 (some 0))[1]? = some none := by
    rw [Array.getElem?_setIfInBounds, if_neg (by omega), Array.getElem?_replicate, if_pos (by omega)]
  have hcnt : 2 ≤ cnt (initSt A).1 := by
    show 2 ≤ cnt (((Array.replicate A.size none).setIfInBounds 0 (some 0)).setIfInBounds 1 (some 1))
    rw [cnt_set hc1, cnt_set hc0]; omega
  refine ⟨⟨?_, ?_, ?_, ?_, ?_, ?_, ?_⟩, hcnt⟩
  · show mkTrue (numVars A) = mkTrue n
    rw [hn]
  · intro k
    show (((HashMap.emptyWithCapacity A.size : HashMap Node Nat).insert (zeroN (numVars A)) 0).insert (oneN (numVars A)) 1)[k]? =
      (((HashMap.emptyWithCapacity 16 : HashMap Node Nat).insert (zeroN n) 0).insert (oneN n) 1)[k]?
    simp only [hn, HashMap.getElem?_insert, HashMap.getElem?_emptyWithCapacity]
  · show (((Array.replicate A.size (none : Option Nat)).setIfInBounds 0 (some 0)).setIfInBounds 1 (some 1)).size = A.size
    simp
  · intro p hp
    show (((Array.replicate A.size (none : Option Nat)).setIfInBounds 0 (some 0)).setIfInBounds 1 (some 1))[p]? =
      some (((HashMap.emptyWithCapacity 16 : HashMap Nat Nat).insert 0 0).insert 1 1)[p]?
    simp only [HashMap.getElem?_insert, HashMap.getElem?_emptyWithCapacity, Array.getElem?_setIfInBounds,
      Array.getElem?_replicate, Array.size_setIfInBounds, Array.size_replicate]
    by_cases e1 : 1 = p
    · subst e1; simp; omega
    · by_cases e0 : 0 = p
      · subst e0
        have h0 : 0 < A.size := by omega
        simp [h0]
      · simp [e1, e0, hp]
  · show (((HashMap.emptyWithCapacity 16 : HashMap Nat Nat).insert 0 0).insert 1 1)[0]? ≠ none
    simp
  · show (((HashMap.emptyWithCapacity 16 : HashMap Nat Nat).insert 0 0).insert 1 1)[1]? ≠ none
    simp
  · show (mkTrue n).size ≤ _
    rw [mkTrue_size]; exact hcnt

end B.AlgoEqR
