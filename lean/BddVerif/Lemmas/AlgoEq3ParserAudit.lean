import BddVerif.Lemmas.AlgoEq3ParserDriver
/-!
Axiom audit of the equivalence theorems "translated expression parser (`Gen/Algo3.lean`) = hand model (`Model/Parser.lean`)".
Expected: a subset of {propext, Classical.choice, Quot.sound} for every theorem.
-/
open B.AlgoEq3Parser

-- conversions (bijections between the generated inductives and the model's types)
#print axioms unconvT_convT
#print axioms convT_unconvT
#print axioms unconvA_convA
#print axioms convA_unconvA
#print axioms unconvE_convE
#print axioms convE_unconvE
#print axioms beq_payloadFree
#print axioms charIsWhitespace_eq
-- tokenizer
#print axioms tokenize_group_desugar
#print axioms tokenize_group_eq_model
#print axioms tokenize_group_ok
#print axioms tokenize_group_err
#print axioms tokenize_group_eq_ok
#print axioms tokGroup_sizeL_le
#print axioms tokGroup_err_msg
-- index_of_first and the mutual block
#print axioms index_of_first_conv
#print axioms index_of_first_eq_model
#print axioms parsers_ok
#print axioms terminal_eq_model
#print axioms parser__xor_eq_model
#print axioms parser__and_eq_model
#print axioms parser__or_eq_model
#print axioms parser__cond_eq_model
#print axioms parser__imp_eq_model
#print axioms parser__iff_eq_model
#print axioms parse_formula_eq_model
#print axioms parse_formula_eq_ok
-- whole parser
#print axioms parse_boolean_expression_eq_model
#print axioms try_from_eq_model
#print axioms parse_boolean_expression_eq_model_driver
#print axioms genParse_eq_model
#print axioms genParse_kind
#print axioms parse_boolean_expression_display
#print axioms ex_tok
