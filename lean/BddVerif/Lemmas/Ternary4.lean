import BddVerif.Lemmas.Ternary3
namespace B
open Std

/-! Ternary simulation, part 4: one step of the model, fuel induction, initial state. -/

/-- core of a non-cached step at decision level `d < n`: (a1, b1, e1) is the sub-task solved first (its
    result becomes the HIGH child), (a2, b2, e2) the one solved second -/
theorem step_core3 (Γ : Ctx3) (c : Bool → Bool → Bool → Bool) (ok : Γ.Ok c)
    (rec : Nat → Nat → Nat → St3 → St3 × Nat)
    (s : St3) (a b e d a1 b1 e1 a2 b2 e2 : Nat)
    (hs : Inv3 Γ c s) (ha : a < Γ.A.size) (hb : b < Γ.B.size) (he : e < Γ.C.size)
    (hd : d = Γ.lvl a b e) (hdn : d < Γ.n)
    (hrec : Spec3 Γ c rec (d+1))
    (ha1 : a1 < Γ.A.size) (hb1 : b1 < Γ.B.size) (he1 : e1 < Γ.C.size)
    (hva1 : d + 1 ≤ varOf Γ.A Γ.n a1) (hvb1 : d + 1 ≤ varOf Γ.B Γ.n b1) (hve1 : d + 1 ≤ varOf Γ.C Γ.n e1)
    (ha2 : a2 < Γ.A.size) (hb2 : b2 < Γ.B.size) (he2 : e2 < Γ.C.size)
    (hva2 : d + 1 ≤ varOf Γ.A Γ.n a2) (hvb2 : d + 1 ≤ varOf Γ.B Γ.n b2) (hve2 : d + 1 ≤ varOf Γ.C Γ.n e2)
    (hG1 : ∀ v, Γ.G c a b e (upd v d true) = Γ.G c a1 b1 e1 v)
    (hG2 : ∀ v, Γ.G c a b e (upd v d false) = Γ.G c a2 b2 e2 v) :
    OutR3 Γ c s a b e d
      (finishN3 (solve3 Γ.op rec a2 b2 e2 (solve3 Γ.op rec a1 b1 e1 s).1).1 (a, b, e) d
        (solve3 Γ.op rec a1 b1 e1 s).2 (solve3 Γ.op rec a2 b2 e2 (solve3 Γ.op rec a1 b1 e1 s).1).2) := by
  have O1 := solve3_out Γ c ok rec (d+1) (by omega) hrec a1 b1 e1 s hs ha1 hb1 he1 hva1 hvb1 hve1
  generalize solve3 Γ.op rec a1 b1 e1 s = o1 at O1 ⊢
  have O2 := solve3_out Γ c ok rec (d+1) (by omega) hrec a2 b2 e2 o1.1 O1.inv ha2 hb2 he2 hva2 hvb2 hve2
  generalize solve3 Γ.op rec a2 b2 e2 o1.1 = o2 at O2 ⊢
  have q1 : (fun v => Γ.G c a b e (upd v d true)) = Γ.G c a1 b1 e1 := funext hG1
  have q2 : (fun v => Γ.G c a b e (upd v d false)) = Γ.G c a2 b2 e2 := funext hG2
  apply finishN3_out Γ c ok s o2.1 a b e d o1.2 o2.2 hs O2.inv ha hb he hd (fun _ => hdn)
  · have h1 : ins Γ.n (Γ.n - (d+1)) (d+1) (fun v => Γ.G c a b e (upd v d true)) s.res = (o1.1.res, o1.2) := by
      rw [q1]; exact O1.eq.symm
    have h2 : ins Γ.n (Γ.n - (d+1)) (d+1) (fun v => Γ.G c a b e (upd v d false)) o1.1.res = (o2.1.res, o2.2) := by
      rw [q2]; exact O2.eq.symm
    have : Γ.n - d = (Γ.n - (d+1)) + 1 := by omega
    rw [this, ins_succ' h1 h2]
    rfl
  · intro h; exact O2.mono (O1.neTrue h)
  · exact O2.neTrue
  · intro h; exact O2.mono (O1.mono h)
  · intro hF
    have hF1 : ∀ v, Γ.G c a1 b1 e1 v = false := fun v => by rw [← hG1]; exact hF _
    have hF2 : ∀ v, Γ.G c a2 b2 e2 v = false := fun v => by rw [← hG2]; exact hF _
    have r1 := O1.eq
    rw [ins_false hs.red _ _ _ (by omega) hF1] at r1
    have r2 := O2.eq
    rw [ins_false O1.inv.red _ _ _ (by omega) hF2] at r2
    refine ⟨?_, congrArg Prod.snd r1, congrArg Prod.snd r2⟩
    rw [O2.neFalse hF2, O1.neFalse hF1]

/-- a step whose three pointers are all terminal: both sub-tasks are answered by the table -/
theorem step_terminal3 (Γ : Ctx3) (c : Bool → Bool → Bool → Bool) (ok : Γ.Ok c)
    (rec : Nat → Nat → Nat → St3 → St3 × Nat)
    (s : St3) (a b e : Nat) (hs : Inv3 Γ c s) (ha : a < Γ.A.size) (hb : b < Γ.B.size) (he : e < Γ.C.size)
    (ha2 : a < 2) (hb2 : b < 2) (he2 : e < 2) :
    ∃ t, solve3 Γ.op rec a b e s = (s, ofBool t) ∧
      OutR3 Γ c s a b e Γ.n (finishN3 s (a, b, e) Γ.n (ofBool t) (ofBool t)) := by
  obtain ⟨x, hx, hxe⟩ := asBool_terminal a ha2
  obtain ⟨y, hy, hye⟩ := asBool_terminal b hb2
  obtain ⟨z, hz, hze⟩ := asBool_terminal e he2
  have hlv : Γ.lvl a b e = Γ.n := by simp [Ctx3.lvl, varOf, ha2, hb2, he2]
  have hG : ∀ v, Γ.G c a b e v = c x y z := by
    intro v; unfold Ctx3.G Ctx3.F; rw [hxe, hye, hze]
  refine ⟨c x y z, ?_, ?_⟩
  · unfold solve3; rw [hx, hy, hz, ok.cons.total]
  · apply finishN3_out Γ c ok s s a b e Γ.n _ _ hs hs ha hb he hlv.symm (fun h => absurd rfl h)
    · rw [ins_found hs.red (Γ.n - Γ.n) Γ.n (Γ.G c a b e) (ofBool (c x y z)) (by omega) (ofBool_lt hs.red _)
        (by have : varOf s.res Γ.n (ofBool (c x y z)) = Γ.n := by cases c x y z <;> simp [varOf, ofBool]
            omega)
        (fun v => by rw [hG, ev_ofBool])]
      simp [mkRes]
    · intro h; have := ofBool_lt_two (c x y z); omega
    · intro h; have := ofBool_lt_two (c x y z); omega
    · exact fun h => h
    · intro hF
      have := hF (fun _ => false)
      rw [hG] at this
      rw [this]; simp [ofBool]

/-- one step of the model meets the contract at level k if `rec` does at all deeper levels -/
theorem applyStep3_out (Γ : Ctx3) (c : Bool → Bool → Bool → Bool) (ok : Γ.Ok c)
    (rec : Nat → Nat → Nat → St3 → St3 × Nat)
    (k : Nat) (hrec : ∀ k', k < k' → k' ≤ Γ.n → Spec3 Γ c rec k') : Spec3 Γ c (applyStep3 Γ rec) k := by
  intro a b e s hs ha hb he hka hkb hke
  have hkn : k ≤ Γ.n := by have := ok.wfA.varOf_le a; omega
  unfold applyStep3
  cases hfin : s.finished[(a, b, e)]? with
  | some p =>
    simp only
    obtain ⟨hp, hv, hev⟩ := hs.fin a b e p hfin
    have hkl : k ≤ Γ.lvl a b e := by unfold Ctx3.lvl; omega
    have := ins_found hs.red (Γ.n - k) k (Γ.G c a b e) p (by omega) hp (by omega) (fun v => (hev v).symm)
    exact ⟨⟨hs, this.symm, fun _ => rfl, fun h => hs.ne a b e p hfin (by omega), fun h => h⟩,
      hs.ne a b e p hfin⟩
  | none =>
    simp only
    rw [nodeAt_var ok.wfA a ha, nodeAt_var ok.wfB b hb, nodeAt_var ok.wfC e he]
    generalize hd : min (varOf Γ.A Γ.n a) (min (varOf Γ.B Γ.n b) (varOf Γ.C Γ.n e)) = d
    have hd' : d = Γ.lvl a b e := hd.symm
    apply OutR3.lower ok hs ha hb he hd' (by omega)
    by_cases hdn : d < Γ.n
    · have hda : d ≤ varOf Γ.A Γ.n a := by omega
      have hdb : d ≤ varOf Γ.B Γ.n b := by omega
      have hde : d ≤ varOf Γ.C Γ.n e := by omega
      have KA := fun t => evW_kids ok.wfA a ha d hda hdn Γ.fa (fun _ => false) t
      have KB := fun t => evW_kids ok.wfB b hb d hdb hdn Γ.fb (fun _ => false) t
      have KC := fun t => evW_kids ok.wfC e he d hde hdn Γ.fc (fun _ => false) t
      have GS := fun t v => Γ.G_split c ok a b e ha hb he d hda hdb hde hdn t v
      have hR := hrec (d+1) (by omega) (by omega)
      have ka1 := KA false; have ka2 := KA true; have kb1 := KB false; have kb2 := KB true
      have kc1 := KC false; have kc2 := KC true
      simp only [sel_true, sel_false] at ka1 ka2 kb1 kb2 kc1 kc2
      by_cases hfo : Γ.fo = some d
      · simp only [hfo, if_true]
        rw [finish3_flip]
        have g1 := GS true; have g2 := GS false
        simp only [hfo, if_true, Bool.not_true, Bool.not_false, sel_true, sel_false] at g1 g2
        exact step_core3 Γ c ok rec s a b e d _ _ _ _ _ _ hs ha hb he hd' hdn hR
          ka1.2.1 kb1.2.1 kc1.2.1 ka1.2.2 kb1.2.2 kc1.2.2 ka2.2.1 kb2.2.1 kc2.2.1 ka2.2.2 kb2.2.2 kc2.2.2 g1 g2
      · simp only [hfo, if_false]
        rw [finish3_noflip]
        have g1 := GS true; have g2 := GS false
        simp only [hfo, if_false, sel_true, sel_false] at g1 g2
        exact step_core3 Γ c ok rec s a b e d _ _ _ _ _ _ hs ha hb he hd' hdn hR
          ka2.2.1 kb2.2.1 kc2.2.1 ka2.2.2 kb2.2.2 kc2.2.2 ka1.2.1 kb1.2.1 kc1.2.1 ka1.2.2 kb1.2.2 kc1.2.2 g1 g2
    · have hva := ok.wfA.varOf_le a
      have hvb := ok.wfB.varOf_le b
      have hvc := ok.wfC.varOf_le e
      have hde : d = Γ.n := by omega
      subst hde
      have ha2 := ok.wfA.terminal_of_varOf a ha (by omega)
      have hb2 := ok.wfB.terminal_of_varOf b hb (by omega)
      have he2 := ok.wfC.terminal_of_varOf e he (by omega)
      rw [kids_terminal ok.wfA a ha ha2, kids_terminal ok.wfB b hb hb2, kids_terminal ok.wfC e he he2]
      obtain ⟨t, ht, hO⟩ := step_terminal3 Γ c ok rec s a b e hs ha hb he ha2 hb2 he2
      simp only [ht]
      split
      · rw [finish3_flip]; exact hO
      · rw [finish3_noflip]; exact hO

/-- fuel induction: enough fuel for the remaining levels suffices -/
theorem applyRec3_spec (Γ : Ctx3) (c : Bool → Bool → Bool → Bool) (ok : Γ.Ok c) :
    ∀ fuel k, Γ.n - k < fuel → Spec3 Γ c (applyRec3 Γ fuel) k := by
  intro fuel
  induction fuel with
  | zero => intro k hk; omega
  | succ fuel ih =>
    intro k hk
    show Spec3 Γ c (applyStep3 Γ (applyRec3 Γ fuel)) k
    apply applyStep3_out Γ c ok
    intro k' h1 h2
    exact ih k' (by omega)

/-- the initial state satisfies the invariant -/
theorem inv_initSt3 (Γ : Ctx3) (c : Bool → Bool → Bool → Bool) : Inv3 Γ c (initSt3 Γ.n) := by
  refine ⟨red_mkTrue Γ.n, ?_, ?_, ?_⟩
  · intro nd i hv
    have h0 : (zeroN Γ.n == nd) = false := by
      simp only [beq_eq_false_iff_ne, ne_eq]; intro e; rw [← e] at hv; simp [zeroN] at hv
    have h1 : (oneN Γ.n == nd) = false := by
      simp only [beq_eq_false_iff_ne, ne_eq]; intro e; rw [← e] at hv; simp [oneN] at hv
    have hnone : (initSt3 Γ.n).existing[nd]? = none := by
      simp only [initSt3, HashMap.getElem?_insert, h0, h1, Bool.false_eq_true, if_false]
      exact HashMap.getElem?_emptyWithCapacity
    rw [hnone]
    constructor
    · intro h; cases h
    · intro ⟨hi, h⟩
      have : (initSt3 Γ.n).res[i]? = none := Array.getElem?_eq_none (by simp [initSt3, mkTrue_size]; omega)
      rw [this] at h; cases h
  · intro a b e p h
    have : (initSt3 Γ.n).finished[(a, b, e)]? = none := HashMap.getElem?_emptyWithCapacity
    rw [this] at h; cases h
  · intro a b e p h
    have : (initSt3 Γ.n).finished[(a, b, e)]? = none := HashMap.getElem?_emptyWithCapacity
    rw [this] at h; cases h

end B
