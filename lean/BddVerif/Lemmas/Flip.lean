import BddVerif.Core.ApplyCanon
/-!
Helper lemmas for C04/C05: a canonical array (an output of `canon`, hence of `applyWithFlip`) is a
well-formed operand again (`WFo`), its operand denotation `evW` at the root is the specified function, and
its size tells whether the function is constant.
-/
namespace B.Lim
open B

theorem wfo_mkFalse (n : Nat) : WFo (mkFalse n) n := by
  refine ⟨rfl, ?_, ?_⟩
  · intro h; simp [mkFalse] at h
  · intro p nd hp h
    have : (mkFalse n)[p]? = none := Array.getElem?_eq_none (by simp [mkFalse]; omega)
    rw [this] at h; cases h

/-- a reduced array that extends the two-terminal array is a well-formed operand -/
theorem wfo_of_red {A : Arr} {n : Nat} (h : Red A n) (hp : Prefix (mkTrue n) A) : WFo A n := by
  refine ⟨?_, ?_, ?_⟩
  · rw [hp.2 0 (by simp [mkTrue])]; rfl
  · intro _; rw [hp.2 1 (by simp [mkTrue])]; rfl
  · intro p nd hp2 hnd
    have hps : p < A.size := by
      rcases Nat.lt_or_ge p A.size with h' | h'
      · exact h'
      · simp [Array.getElem?_eq_none h'] at hnd
    obtain ⟨a, b, c, _, d, e⟩ := h.inner p nd hp2 hnd
    exact ⟨a, by omega, by omega, d, e⟩

theorem wfo_mkTrue (n : Nat) : WFo (mkTrue n) n := wfo_of_red (red_mkTrue n) (Prefix.refl _)

/-- in a reduced well-formed array the level-fuelled and the index-fuelled evaluations agree -/
theorem evW_eq_ev {A : Arr} {n : Nat} (hr : Red A n) (hw : WFo A n) (v : Nat → Bool) :
    ∀ p, p < A.size → evW A n v p = ev A v p := by
  intro p
  induction p using Nat.strongRecOn with
  | _ p ih =>
    intro hps
    by_cases h0 : p = 0
    · subst h0; rw [evW_zero, ev_zero]
    by_cases h1 : p = 1
    · subst h1; rw [evW_one, ev_one]
    have hp2 : 2 ≤ p := by omega
    have hnd : A[p]? = some A[p] := by simp [hps]
    obtain ⟨_, hl, hh, _, _, _⟩ := hr.inner p A[p] hp2 hnd
    rw [evW_node hw v p hp2 _ hnd, ev_node hr v p hp2 _ hnd, ih _ hl (by omega), ih _ hh (by omega)]

def Dep (n : Nat) (f : (Nat → Bool) → Bool) : Prop := ∀ v w : Nat → Bool, (∀ i, i < n → v i = w i) → f v = f w

theorem canon_prefix (n : Nat) (f : (Nat → Bool) → Bool) (hdep : Dep n f) (h2 : 2 ≤ (canon n f).size) :
    Prefix (mkTrue n) (canon n f) := by
  rcases canon_spec n f hdep with ⟨e, _⟩ | ⟨_, e, _, _⟩
  · rw [e, mkFalse_size] at h2; omega
  · rw [e]
    exact (ins_spec n 0 f (mkTrue n) (red_mkTrue n) (by omega)
      (fun v w h => hdep v w (fun i hi => h i (Nat.zero_le _) hi))).2.1

theorem canon_wfo (n : Nat) (f : (Nat → Bool) → Bool) (hdep : Dep n f) : WFo (canon n f) n := by
  rcases canon_spec n f hdep with ⟨e, _⟩ | ⟨hr, _, _, _⟩
  · rw [e]; exact wfo_mkFalse n
  · exact wfo_of_red hr (canon_prefix n f hdep hr.size2)

theorem root_lt_of_pos {A : Arr} (h : 0 < A.size) : root A < A.size := by unfold root; omega

/-- the operand denotation of a canonical array is the function it was built from -/
theorem canon_evW (n : Nat) (f : (Nat → Bool) → Bool) (hdep : Dep n f) (v : Nat → Bool) :
    evW (canon n f) n v (root (canon n f)) = f v := by
  rcases canon_spec n f hdep with ⟨e, hf⟩ | ⟨hr, _, _, hev⟩
  · rw [e, hf v]; simp [root, mkFalse, evW_zero]
  · have hw := wfo_of_red hr (canon_prefix n f hdep hr.size2)
    rw [evW_eq_ev hr hw v _ (root_lt_of_pos (by have := hr.size2; omega))]
    exact hev v

theorem numVars_canon' (n : Nat) (f : (Nat → Bool) → Bool) (hdep : Dep n f) : numVars (canon n f) = n :=
  numVars_of_wf (canon_wfo n f hdep)

/-- `is_false` of a canonical array: one node iff the function is constantly false -/
theorem canon_size_one (n : Nat) (f : (Nat → Bool) → Bool) (hdep : Dep n f) :
    (canon n f).size = 1 ↔ ∀ v, f v = false := by
  rcases canon_spec n f hdep with ⟨e, hf⟩ | ⟨hr, _, _, hev⟩
  · rw [e]; exact ⟨fun _ => hf, fun _ => rfl⟩
  · constructor
    · intro h; have := hr.size2; omega
    · intro hf
      exfalso
      have hfound := ins_false (red_mkTrue n) n 0 f (by omega) hf
      have : canon n f = mkFalse n := by unfold canon; rw [hfound]; rfl
      have := hr.size2
      rw [‹canon n f = mkFalse n›, mkFalse_size] at this
      omega

/-- `is_true` of a canonical array: two nodes iff the function is constantly true -/
theorem canon_size_two (n : Nat) (f : (Nat → Bool) → Bool) (hdep : Dep n f) :
    (canon n f).size = 2 ↔ ∀ v, f v = true := by
  constructor
  · intro h v
    rcases canon_spec n f hdep with ⟨e, _⟩ | ⟨_, _, _, hev⟩
    · rw [e, mkFalse_size] at h; omega
    · rw [← hev v]
      have : root (canon n f) = 1 := by unfold root; omega
      rw [this, ev_one]
  · intro hf
    have hfound := ins_found (red_mkTrue n) n 0 f 1 (by omega) (by simp [mkTrue]) (Nat.zero_le _)
      (fun v => by rw [hf v, ev_one])
    unfold canon
    rw [hfound]
    simp [mkTrue]

/-- a canonical array of a constant function has at most two nodes -/
theorem canon_size_const (n : Nat) (f : (Nat → Bool) → Bool) (hdep : Dep n f) (b : Bool) (hf : ∀ v, f v = b) :
    (canon n f).size ≤ 2 := by
  cases b
  · rw [(canon_size_one n f hdep).2 hf]; omega
  · rw [(canon_size_two n f hdep).2 hf]; omega

end B.Lim
