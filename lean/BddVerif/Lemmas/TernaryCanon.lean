import BddVerif.Lemmas.Ternary4
import BddVerif.Gen.OpTables
import BddVerif.Drive.Tables
namespace B
open Std

/-! Central theorem for the ternary model: `ternaryApply` returns exactly the canonical array of the
    specified function, for all operands, tables and flips; corollaries; soundness of the executable
    table checks `Drive.consistent2/3`; the instance for `if_then_else` (`Gen.ite_`). -/

/-- the function computed by `ternary_apply` (input flips `fa`, `fb`, `fc`, output flip `fo`) -/
def specFn3 (A B C : Arr) (n : Nat) (c : Bool → Bool → Bool → Bool) (fa fb fc fo : Option Nat)
    (v : Nat → Bool) : Bool :=
  c (evW A n (inv fa (inv fo v)) (root A)) (evW B n (inv fb (inv fo v)) (root B))
    (evW C n (inv fc (inv fo v)) (root C))

theorem specFn3_dep (A B C : Arr) (n : Nat) (c : Bool → Bool → Bool → Bool) (fa fb fc fo : Option Nat)
    (hA : WFo A n) (hB : WFo B n) (hC : WFo C n) (v w : Nat → Bool) (h : ∀ i, i < n → v i = w i) :
    specFn3 A B C n c fa fb fc fo v = specFn3 A B C n c fa fb fc fo w := by
  unfold specFn3
  congr 1
  · apply evW_indep hA n _ (root_lt hA) (by omega)
    intro i _ hin
    exact inv_agree _ _ _ _ (inv_agree _ _ _ _ (h i hin))
  · apply evW_indep hB n _ (root_lt hB) (by omega)
    intro i _ hin
    exact inv_agree _ _ _ _ (inv_agree _ _ _ _ (h i hin))
  · apply evW_indep hC n _ (root_lt hC) (by omega)
    intro i _ hin
    exact inv_agree _ _ _ _ (inv_agree _ _ _ _ (h i hin))

theorem ternaryApply_eq_canon (A B C : Arr) (n : Nat) (op : Op3) (c : Bool → Bool → Bool → Bool)
    (fa fb fc fo : Option Nat)
    (hA : WFo A n) (hB : WFo B n) (hC : WFo C n) (hc : Consistent3 op c)
    (hfa : ∀ x, fa = some x → x < n) (hfb : ∀ x, fb = some x → x < n) (hfc : ∀ x, fc = some x → x < n) :
    ternaryApply A B C op fa fb fc fo =
      canon n (fun v => c (evW A n (inv fa (inv fo v)) (root A)) (evW B n (inv fb (inv fo v)) (root B))
        (evW C n (inv fc (inv fo v)) (root C))) := by
  have hn : numVars A = n := numVars_of_wf hA
  have ok : Ctx3.Ok ⟨A, B, C, n, op, fa, fb, fc, fo⟩ c := ⟨hA, hB, hC, hc, hfa, hfb, hfc⟩
  have hspec := applyRec3_spec ⟨A, B, C, n, op, fa, fb, fc, fo⟩ c ok (n+2) 0 (by show n - 0 < n + 2; omega)
    (root A) (root B) (root C) (initSt3 n) (inv_initSt3 ⟨A, B, C, n, op, fa, fb, fc, fo⟩ c)
    (root_lt hA) (root_lt hB) (root_lt hC) (Nat.zero_le _) (Nat.zero_le _) (Nat.zero_le _)
  have hG : (fun v => c (evW A n (inv fa (inv fo v)) (root A)) (evW B n (inv fb (inv fo v)) (root B))
        (evW C n (inv fc (inv fo v)) (root C))) =
      Ctx3.G ⟨A, B, C, n, op, fa, fb, fc, fo⟩ c (root A) (root B) (root C) := rfl
  rw [hG]
  unfold ternaryApply
  simp only [hn]
  generalize applyRec3 ⟨A, B, C, n, op, fa, fb, fc, fo⟩ (n + 2) (root A) (root B) (root C) (initSt3 n) = out
    at hspec
  have heq : ins n n 0 (Ctx3.G ⟨A, B, C, n, op, fa, fb, fc, fo⟩ c (root A) (root B) (root C)) (mkTrue n) =
      (out.1.res, out.2) := hspec.eq.symm
  obtain ⟨_, _, _, _, hev⟩ := ins_spec n 0 (Ctx3.G ⟨A, B, C, n, op, fa, fb, fc, fo⟩ c (root A) (root B) (root C))
    (mkTrue n) (red_mkTrue n) (by omega)
    (fun v w hvw => Ctx3.G_indep ⟨A, B, C, n, op, fa, fb, fc, fo⟩ c ok (root A) (root B) (root C)
      (root_lt hA) (root_lt hB) (root_lt hC) 0 (Nat.zero_le _) (Nat.zero_le _) (Nat.zero_le _) v w hvw)
  rw [heq] at hev
  simp only at hev
  unfold canon
  rw [heq]
  simp only
  by_cases h0 : out.2 = 0
  · have hF : ∀ v, Ctx3.G ⟨A, B, C, n, op, fa, fb, fc, fo⟩ c (root A) (root B) (root C) v = false := by
      intro v; rw [← hev v, h0, ev_zero]
    have hflag : out.1.nonEmpty = false := by rw [hspec.neFalse hF]; rfl
    simp [h0, hflag]
  · have hflag : out.1.nonEmpty = true := hspec.nz h0
    simp [h0, hflag]

/-- denotational corollary: the result array denotes the specified function -/
theorem ternaryApply_den (A B C : Arr) (n : Nat) (op : Op3) (c : Bool → Bool → Bool → Bool)
    (fa fb fc fo : Option Nat)
    (hA : WFo A n) (hB : WFo B n) (hC : WFo C n) (hc : Consistent3 op c)
    (hfa : ∀ x, fa = some x → x < n) (hfb : ∀ x, fb = some x → x < n) (hfc : ∀ x, fc = some x → x < n)
    (v : Nat → Bool) :
    den (ternaryApply A B C op fa fb fc fo) v =
      c (evW A n (inv fa (inv fo v)) (root A)) (evW B n (inv fb (inv fo v)) (root B))
        (evW C n (inv fc (inv fo v)) (root C)) := by
  rw [ternaryApply_eq_canon A B C n op c fa fb fc fo hA hB hC hc hfa hfb hfc]
  exact den_canon n (specFn3 A B C n c fa fb fc fo) (specFn3_dep A B C n c fa fb fc fo hA hB hC) v

/-- two partial tables consistent with the same connective (e.g. the eager and the lazy table of an
    operator) produce identical arrays -/
theorem ternary_eager_lazy (A B C : Arr) (n : Nat) (op1 op2 : Op3) (c : Bool → Bool → Bool → Bool)
    (fa fb fc fo : Option Nat)
    (hA : WFo A n) (hB : WFo B n) (hC : WFo C n) (h1 : Consistent3 op1 c) (h2 : Consistent3 op2 c)
    (hfa : ∀ x, fa = some x → x < n) (hfb : ∀ x, fb = some x → x < n) (hfc : ∀ x, fc = some x → x < n) :
    ternaryApply A B C op1 fa fb fc fo = ternaryApply A B C op2 fa fb fc fo := by
  rw [ternaryApply_eq_canon A B C n op1 c fa fb fc fo hA hB hC h1 hfa hfb hfc,
    ternaryApply_eq_canon A B C n op2 c fa fb fc fo hA hB hC h2 hfa hfb hfc]

/-- the result is either the one-node false array or a reduced post-order array -/
theorem ternaryApply_red (A B C : Arr) (n : Nat) (op : Op3) (c : Bool → Bool → Bool → Bool)
    (fa fb fc fo : Option Nat)
    (hA : WFo A n) (hB : WFo B n) (hC : WFo C n) (hc : Consistent3 op c)
    (hfa : ∀ x, fa = some x → x < n) (hfb : ∀ x, fb = some x → x < n) (hfc : ∀ x, fc = some x → x < n)
    (h2 : 2 ≤ (ternaryApply A B C op fa fb fc fo).size) : Red (ternaryApply A B C op fa fb fc fo) n := by
  rw [ternaryApply_eq_canon A B C n op c fa fb fc fo hA hB hC hc hfa hfb hfc] at h2 ⊢
  exact red_canon n (specFn3 A B C n c fa fb fc fo) (specFn3_dep A B C n c fa fb fc fo hA hB hC) h2

/-- semantically equal specifications give identical result arrays (canonicity across operand triples) -/
theorem ternaryApply_canonical (A B C A' B' C' : Arr) (n : Nat) (op op' : Op3) (c c' : Bool → Bool → Bool → Bool)
    (fa fb fc fo fa' fb' fc' fo' : Option Nat)
    (hA : WFo A n) (hB : WFo B n) (hC : WFo C n) (hA' : WFo A' n) (hB' : WFo B' n) (hC' : WFo C' n)
    (hc : Consistent3 op c) (hc' : Consistent3 op' c')
    (hfa : ∀ x, fa = some x → x < n) (hfb : ∀ x, fb = some x → x < n) (hfc : ∀ x, fc = some x → x < n)
    (hfa' : ∀ x, fa' = some x → x < n) (hfb' : ∀ x, fb' = some x → x < n) (hfc' : ∀ x, fc' = some x → x < n)
    (hsem : ∀ v, specFn3 A B C n c fa fb fc fo v = specFn3 A' B' C' n c' fa' fb' fc' fo' v) :
    ternaryApply A B C op fa fb fc fo = ternaryApply A' B' C' op' fa' fb' fc' fo' := by
  rw [ternaryApply_eq_canon A B C n op c fa fb fc fo hA hB hC hc hfa hfb hfc,
    ternaryApply_eq_canon A' B' C' n op' c' fa' fb' fc' fo' hA' hB' hC' hc' hfa' hfb' hfc']
  exact canon_congr hsem

/-! ### Soundness of the executable table checks -/

theorem all_optBool (p : Option Bool → Bool) :
    ([none, some false, some true].all p = true) ↔ ∀ x, p x = true := by
  constructor
  · intro h x
    simp only [List.all_cons, List.all_nil, Bool.and_true, Bool.and_eq_true] at h
    rcases x with _ | _ | _
    · exact h.1
    · exact h.2.1
    · exact h.2.2
  · intro h; simp [h]

theorem all_completions (x : Option Bool) (q : Bool → Bool) :
    ((Drive.completions x).all q = true) ↔ ∀ a, Fits x a → q a = true := by
  cases x with
  | none =>
    constructor
    · intro h a _
      simp only [Drive.completions, List.all_cons, List.all_nil, Bool.and_true, Bool.and_eq_true] at h
      cases a
      · exact h.1
      · exact h.2
    · intro h; simp [Drive.completions, h _ (Fits.none _)]
  | some b =>
    constructor
    · intro h a ha
      simp only [Drive.completions, List.all_cons, List.all_nil, Bool.and_true] at h
      rw [ha b rfl]; exact h
    · intro h; simp [Drive.completions, h b (Fits.some b)]

/-- the executable check of a 27-cell table against connective number `cn` is sound -/
theorem consistent3_of_check {op : Op3} {cn : Nat} (h : Drive.consistent3 op cn = true) :
    Consistent3 op (Drive.conn3 cn) := by
  unfold Drive.consistent3 at h
  rw [all_optBool] at h
  have h' : ∀ x y z, (match op x y z with
      | some r => (Drive.completions x).all fun a => (Drive.completions y).all fun b =>
          (Drive.completions z).all fun d => Drive.conn3 cn a b d == r
      | none => !(x.isSome && y.isSome && z.isSome)) = true := by
    intro x y z
    have := h x; rw [all_optBool] at this
    have := this y; rw [all_optBool] at this
    exact this z
  have sound : ∀ x y z r, op x y z = some r → ∀ a b d, Fits x a → Fits y b → Fits z d →
      Drive.conn3 cn a b d = r := by
    intro x y z r hop a b d ha hb hd
    have := h' x y z
    rw [hop] at this
    simp only at this
    rw [all_completions] at this
    have := this a ha; rw [all_completions] at this
    have := this b hb; rw [all_completions] at this
    simpa using this d hd
  refine ⟨?_, sound⟩
  intro x y z
  cases hop : op (some x) (some y) (some z) with
  | none => have := h' (some x) (some y) (some z); rw [hop] at this; simp at this
  | some r => rw [sound _ _ _ r hop x y z (Fits.some x) (Fits.some y) (Fits.some z)]

/-- the executable check of a 9-cell table against connective number `cn` is sound -/
theorem consistent2_of_check {op : Op2} {cn : Nat} (h : Drive.consistent2 op cn = true) :
    Consistent op (Drive.conn2 cn) := by
  unfold Drive.consistent2 at h
  rw [all_optBool] at h
  have h' : ∀ x y, (match op x y with
      | some r => (Drive.completions x).all fun a => (Drive.completions y).all fun b =>
          Drive.conn2 cn a b == r
      | none => !(x.isSome && y.isSome)) = true := by
    intro x y
    have := h x; rw [all_optBool] at this
    exact this y
  have sound : ∀ x y r, op x y = some r → ∀ a b, Fits x a → Fits y b → Drive.conn2 cn a b = r := by
    intro x y r hop a b ha hb
    have := h' x y
    rw [hop] at this
    simp only at this
    rw [all_completions] at this
    have := this a ha; rw [all_completions] at this
    simpa using this b hb
  refine ⟨?_, ?_, ?_, ?_⟩
  · intro x y
    cases hop : op (some x) (some y) with
    | none => have := h' (some x) (some y); rw [hop] at this; simp at this
    | some r => rw [sound _ _ r hop x y (Fits.some x) (Fits.some y)]
  · intro x r hop y; exact sound _ _ r hop x y (Fits.some x) (Fits.none y)
  · intro y r hop x; exact sound _ _ r hop x y (Fits.none x) (Fits.some y)
  · intro r hop x y; exact sound _ _ r hop x y (Fits.none x) (Fits.none y)

/-! ### `if_then_else` -/

/-- the regenerated `ite_function` table is consistent with if-then-else (27 cells, checked by evaluation) -/
theorem ite_consistent3 : Consistent3 Gen.ite_ (fun a b c => if a then b else c) := by
  have h := consistent3_of_check (op := Gen.ite_) (cn := 0xCA) (by decide)
  have e : Drive.conn3 0xCA = fun a b c => if a then b else c := by
    funext a b c; revert a b c; decide
  rwa [e] at h

/-- `Bdd::if_then_else` (`ternary_apply` with `ite_function`, no flips) returns the canonical array of
    `if A then B else C` -/
theorem ite_eq_canon (A B C : Arr) (n : Nat) (hA : WFo A n) (hB : WFo B n) (hC : WFo C n) :
    ternaryApply A B C Gen.ite_ none none none none =
      canon n (fun v => if evW A n v (root A) then evW B n v (root B) else evW C n v (root C)) :=
  ternaryApply_eq_canon A B C n Gen.ite_ (fun a b c => if a then b else c) none none none none
    hA hB hC ite_consistent3 (by simp) (by simp) (by simp)

theorem ite_den (A B C : Arr) (n : Nat) (hA : WFo A n) (hB : WFo B n) (hC : WFo C n) (v : Nat → Bool) :
    den (ternaryApply A B C Gen.ite_ none none none none) v =
      if evW A n v (root A) then evW B n v (root B) else evW C n v (root C) :=
  ternaryApply_den A B C n Gen.ite_ (fun a b c => if a then b else c) none none none none
    hA hB hC ite_consistent3 (by simp) (by simp) (by simp) v

/-! ### Non-vacuity -/

/-- eager ternary table of if-then-else: answers only when all three arguments are known -/
def iteEager : Op3 := fun a b c =>
  match a, b, c with
  | some x, some y, some z => some (if x then y else z)
  | _, _, _ => none

theorem iteEager_consistent3 : Consistent3 iteEager (fun a b c => if a then b else c) := by
  refine ⟨fun x y z => rfl, ?_⟩
  intro x y z r h a b d ha hb hd
  cases x <;> cases y <;> cases z <;> simp [iteEager] at h
  rw [ha _ rfl, hb _ rfl, hd _ rfl]; exact h

/-- `x2` over 3 variables -/
def exX2 : Arr := #[⟨3, 0, 0⟩, ⟨3, 1, 1⟩, ⟨2, 0, 1⟩]
theorem exX2_wf : WFo exX2 3 := wfoB_sound (by decide)

/-- the hypotheses of the central theorem are satisfiable (level-skipping operand, no flips), and the
    theorem pins the concrete output: `if x1 then x0 ∧ x2 else x2` -/
example : ternaryApply exX1 exX0X2 exX2 Gen.ite_ none none none none =
    #[⟨3, 0, 0⟩, ⟨3, 1, 1⟩, ⟨2, 0, 1⟩, ⟨1, 2, 0⟩, ⟨0, 3, 2⟩] :=
  (ite_eq_canon exX1 exX0X2 exX2 3 exX1_wf exX0X2_wf exX2_wf).trans (by decide)

/-- with all four flips present -/
example : ternaryApply exX1 exX0X2 exX2 Gen.ite_ (some 1) (some 2) (some 2) (some 0) =
    canon 3 (fun v => if evW exX1 3 (inv (some 1) (inv (some 0) v)) (root exX1)
      then evW exX0X2 3 (inv (some 2) (inv (some 0) v)) (root exX0X2)
      else evW exX2 3 (inv (some 2) (inv (some 0) v)) (root exX2)) :=
  ternaryApply_eq_canon exX1 exX0X2 exX2 3 Gen.ite_ (fun a b c => if a then b else c)
    (some 1) (some 2) (some 2) (some 0) exX1_wf exX0X2_wf exX2_wf ite_consistent3 (by simp) (by simp) (by simp)

/-- eager and lazy if-then-else tables agree -/
example : ternaryApply exX1 exX0X2 exX2 Gen.ite_ none none none none =
    ternaryApply exX1 exX0X2 exX2 iteEager none none none none :=
  ternary_eager_lazy exX1 exX0X2 exX2 3 Gen.ite_ iteEager (fun a b c => if a then b else c) none none none none
    exX1_wf exX0X2_wf exX2_wf ite_consistent3 iteEager_consistent3 (by simp) (by simp) (by simp)

/-- a contradictory specification returns the one-node false array: `if x1 then ¬x1 ∧ … else false` -/
example : ternaryApply exX1 exX1 exX1 Gen.ite_ none (some 1) none none = #[⟨3, 0, 0⟩] :=
  (ternaryApply_eq_canon exX1 exX1 exX1 3 Gen.ite_ (fun a b c => if a then b else c) none (some 1) none none
    exX1_wf exX1_wf exX1_wf ite_consistent3 (by simp) (by simp) (by simp)).trans (by decide)

/-- the table checks are satisfiable on the regenerated tables -/
example : Consistent Gen.and_ (Drive.conn2 0x8) := consistent2_of_check (by decide)
example : Consistent3 Gen.ite_ (Drive.conn3 0xCA) := consistent3_of_check (by decide)

end B
