import BddVerif.Gen.Algo4
import BddVerif.Lemmas.AlgoEqIterBase
import BddVerif.Lemmas.AlgoEq3TextBase
/-!
# `Display` impls of `Gen/Algo4.lean`: `BddPointer`, `BddVariable`, `BddValuation`, `BddVariableSet`

The `Formatter` is the string written so far; a `fmt` returns `(Ok(()), formatter)` (a `String` sink never fails).
On ALL inputs:

* `BddPointer_fmt_eq`, `BddVariable_fmt_eq` — the decimal digits of the index: `f ++ String.ofList (Serial.showNat n)`
  (`Serial.showNat` is the model's `Display for u16/u32`, `AlgoEq3Text.toString_nat_toList`);
* `BddValuation_fmt_eq` — `[b0,b1,…]` with `1`/`0` for `true`/`false`, `[]` for the empty valuation: `valText`;
* `BddVariableSet_fmt_eq` — `[name0,name1,…]`: `"[" ++ ",".intercalate var_names ++ "]"`.
The two loops `for i in 1..len` are desugared once (`joinLoop_eq`); the generated definitions are unfolded, not copied.
-/
namespace B.AlgoEq4
open B B.Gen B.Gen.Algo B.Gen.Algo3 B.Gen.Algo4 B.AlgoEqIt
attribute [local instance 10000] Rust.monadOutcomeInline

/-! ### `BddPointer`, `BddVariable` -/

/-- **`impl Display for BddPointer`** = decimal digits (every pointer, every formatter content) -/
theorem BddPointer_fmt_eq (p : Nat) (f : String) :
    BddPointer_fmt p f = .ok (.ok (), f ++ String.ofList (Serial.showNat p)) := by
  unfold BddPointer_fmt
  rw [AlgoEq3Text.toString_nat_eq]; rfl

/-- **`impl Display for BddVariable`** = decimal digits -/
theorem BddVariable_fmt_eq (x : Nat) (f : String) :
    BddVariable_fmt x f = .ok (.ok (), f ++ String.ofList (Serial.showNat x)) := by
  unfold BddVariable_fmt
  rw [AlgoEq3Text.toString_nat_eq]; rfl

/-! ### the loop `for i in 1..len { write!(f, ",{}", item(i))? }` -/

/-- appending `,item` for every item of a list -/
def joinTail {α : Type} (r : α → String) (l : List α) (g : String) : String := l.foldl (fun acc x => acc ++ "," ++ r x) g

theorem joinLoop_eq {α ρ : Type} (xs : Array α) (r : α → String) : ∀ (n a : Nat) (g : String), a + n ≤ xs.size →
    loopI (fun i (s : Option ρ × String) => Rust.idx xs i >>= fun x =>
        (Outcome.ok (ForInStep.yield (none, s.2 ++ "," ++ r x)) : Outcome (ForInStep (Option ρ × String)))) a n (none, g) =
      .ok (none, joinTail r ((xs.toList.drop a).take n) g) := by
  intro n
  induction n with
  | zero => intro a g _; simp [loopI_zero, joinTail]
  | succ n ih =>
    intro a g h
    have ha : a < xs.size := by omega
    rw [loopI_succ, idx_of_lt xs a ha]
    simp only [ok_bind]
    rw [ih (a + 1) _ (by omega)]
    have : (xs.toList.drop a).take (n + 1) = xs[a] :: (xs.toList.drop (a + 1)).take n := by
      rw [List.drop_eq_getElem_cons (by simpa using ha)]
      simp
    rw [this]
    rfl

/-! ### `BddValuation` -/

def bitC (b : Bool) : Char := if b then '1' else '0'

/-- the text of a valuation: `[1,0,1]`, `[]` -/
def valText : List Bool → List Char
  | [] => ['[', ']']
  | b :: rest => '[' :: bitC b :: (rest.flatMap fun b => [',', bitC b]) ++ [']']

theorem bit_toString (b : Bool) : toString (if b = true then 1 else 0 : Nat) = String.ofList [bitC b] := by
  cases b <;> rfl

theorem joinTail_bits (l : List Bool) : ∀ g : String,
    joinTail (fun b => toString (if b = true then 1 else 0 : Nat)) l g =
      g ++ String.ofList (l.flatMap fun b => [',', bitC b]) := by
  induction l with
  | nil => intro g; simp [joinTail]
  | cons b l ih =>
    intro g
    show joinTail _ l (g ++ "," ++ toString (if b = true then 1 else 0 : Nat)) = _
    rw [ih, bit_toString]
    apply String.toList_inj.mp
    simp

/-- **`impl Display for BddValuation`** on every valuation and every formatter content -/
theorem BddValuation_fmt_eq (v : Array Bool) (f : String) :
    BddValuation_fmt v f = .ok (.ok (), f ++ String.ofList (valText v.toList)) := by
  unfold BddValuation_fmt
  simp only [forIn_range_eq_loopI]
  by_cases he : v.isEmpty
  · have : v = #[] := by simpa using he
    subst this
    simp only [Array.isEmpty_empty, if_true, pure_eq]
    rfl
  · have hpos : 0 < v.size := by
      rcases Nat.eq_zero_or_pos v.size with h0 | h0
      · exfalso; apply he; simp [Array.isEmpty, h0]
      · exact h0
    simp only [he, Bool.false_eq_true, if_false, idx_of_lt v 0 hpos, ok_bind, pure_eq]
    rw [joinLoop_eq v _ (v.size - 1) 1 _ (by omega)]
    simp only [ok_bind]
    obtain ⟨l, rfl⟩ : ∃ l, v = l.toArray := ⟨v.toList, by simp⟩
    cases l with
    | nil => simp at hpos
    | cons b rest =>
      have e : ((b :: rest).toArray.toList.drop 1).take ((b :: rest).toArray.size - 1) = rest := by simp
      rw [e, joinTail_bits]
      have e0 : (b :: rest).toArray[0] = b := rfl
      rw [e0, bit_toString]
      show Outcome.ok _ = Outcome.ok _
      congr 2
      apply String.toList_inj.mp
      simp [valText]

/-! ### `BddVariableSet` -/

theorem joinTail_append {α : Type} (r : α → String) (l : List α) : ∀ (g h : String),
    joinTail r l (g ++ h) = g ++ joinTail r l h := by
  induction l with
  | nil => intro g h; rfl
  | cons a l ih =>
    intro g h
    show joinTail r l (g ++ h ++ "," ++ r a) = g ++ joinTail r l (h ++ "," ++ r a)
    rw [← ih]; simp [String.append_assoc]

theorem joinTail_intercalate (rest : List String) : ∀ b : String,
    joinTail (fun x => x) rest b = ",".intercalate (b :: rest) := by
  induction rest with
  | nil => intro b; rw [String.intercalate_singleton]; rfl
  | cons c r ih =>
    intro b
    rw [String.intercalate_cons_cons, ← ih c]
    show joinTail _ r (b ++ "," ++ c) = _
    rw [joinTail_append]

/-- the text of a variable set: `[a,b,c]`, `[]` -/
def setText (names : List String) : String := "[" ++ ",".intercalate names ++ "]"

/-- **`impl Display for BddVariableSet`** on every variable set (only `var_names` matters) and every formatter -/
theorem BddVariableSet_fmt_eq (vs : Nat × Array String × Std.HashMap String Nat) (f : String) :
    BddVariableSet_fmt vs f = .ok (.ok (), f ++ setText vs.2.1.toList) := by
  obtain ⟨n, names, idx⟩ := vs
  unfold BddVariableSet_fmt
  simp only [forIn_range_eq_loopI]
  by_cases he : names.isEmpty
  · have : names = #[] := by simpa using he
    subst this
    simp only [Array.isEmpty_empty, if_true, pure_eq]
    rfl
  · have hpos : 0 < names.size := by
      rcases Nat.eq_zero_or_pos names.size with h0 | h0
      · exfalso; apply he; simp [Array.isEmpty, h0]
      · exact h0
    simp only [he, Bool.false_eq_true, if_false, idx_of_lt names 0 hpos, ok_bind, pure_eq]
    rw [joinLoop_eq names (fun x => x) (names.size - 1) 1 _ (by omega)]
    simp only [ok_bind]
    obtain ⟨l, rfl⟩ : ∃ l, names = l.toArray := ⟨names.toList, by simp⟩
    cases l with
    | nil => simp at hpos
    | cons b rest =>
      have e : ((b :: rest).toArray.toList.drop 1).take ((b :: rest).toArray.size - 1) = rest := by simp
      rw [e]
      have e0 : (b :: rest).toArray[0] = b := rfl
      rw [e0]
      show Outcome.ok _ = Outcome.ok _
      congr 2
      unfold setText
      rw [String.append_assoc, joinTail_append, joinTail_append, joinTail_intercalate]
      simp [String.append_assoc]

/-! ### non-vacuity: the GENERATED functions on concrete values, through the theorems -/

example : BddPointer_fmt 4294967295 "p=" = .ok (.ok (), "p=4294967295") := by rfl
example : BddVariable_fmt 0 "" = .ok (.ok (), "0") := by rfl
example : valText [true, false, true] = "[1,0,1]".toList := by decide
example : BddValuation_fmt #[true, false, true] "v=" = .ok (.ok (), "v=[1,0,1]") := by
  rw [BddValuation_fmt_eq]; rfl
example : BddValuation_fmt #[] "" = .ok (.ok (), "[]") := by rw [BddValuation_fmt_eq]; rfl
example : setText ["a", "b c", "é"] = "[a,b c,é]" := by decide
example : BddVariableSet_fmt (3, #["a", "b c", "é"], {}) "" = .ok (.ok (), "[a,b c,é]") := by
  rw [BddVariableSet_fmt_eq]; rfl
example : BddVariableSet_fmt (0, #[], {}) "x" = .ok (.ok (), "x[]") := by rw [BddVariableSet_fmt_eq]; rfl

end B.AlgoEq4
