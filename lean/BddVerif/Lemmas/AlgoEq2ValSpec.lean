import BddVerif.Lemmas.AlgoEq2ValLoops
import BddVerif.Props.C18
/-!
# C18 contracts stated about the TRANSLATED valuation code (`B.Gen.Algo2`)

`AlgoEq2Val.lean` / `AlgoEq2ValLoops.lean` prove "generated function = hand model" for every input; here the
property theorems of `Props/C18.lean` (`pv_eq_iff`, `pv_hash_congr`, `extends_iff`, `total_extends_iff`,
`total_partial_roundtrip`, `partial_total_roundtrip`, `valuation_bdd_spec`) are transported, so that each statement
mentions only `B.Gen.Algo2.<fn>` — code that is regenerated from the Rust text on every run.
-/
namespace B.AlgoEq2Val
open B B.Gen B.Val B.AlgoEqUtil B.Props.C18

/-- `BddPartialValuation::extends` against the one-pass model run by the C18 driver -/
theorem BddPartialValuation_extends_eq_model (p q : Array (Option Bool)) :
    Algo2.BddPartialValuation_extends p q = .ok (PartialVal.extends_ p.toList q.toList) := by
  rw [BddPartialValuation_extends_eq_loop, PartialVal.extends_eq_loop]

theorem BddValuation_extends_eq_model (v : Array Bool) (q : Array (Option Bool)) :
    Algo2.BddValuation_extends v q = .ok (TotalVal.extends_ v.toList q.toList) := by
  rw [BddValuation_extends_eq_loop, TotalVal.extends_eq_loop]

/-- `to_values` within the `u16` limit of the type, and its `unreachable!` beyond it -/
theorem BddValuation_to_values_eq_model (v : Array Bool) (h : v.size ≤ 65536) :
    Algo2.BddValuation_to_values v = .ok (TotalVal.toValues v.toList).toArray := by
  rw [to_values_desugar, if_pos h]

theorem BddValuation_to_values_panics (v : Array Bool) (h : 65536 < v.size) :
    ∃ m, Algo2.BddValuation_to_values v = .panic m := by
  rw [to_values_desugar, if_neg (by omega)]; exact ⟨_, rfl⟩

/-! ## the contracts -/

/-- the translated `==` answers `true` exactly when both valuations fix the same variables to the same values -/
theorem eq_spec (p q : Array (Option Bool)) :
    Algo2.BddPartialValuation_eq p q = .ok true ↔
      ∀ x, PartialVal.get p.toList x = PartialVal.get q.toList x := by
  rw [BddPartialValuation_eq_eq_model, ← pv_eq_iff]
  simp

/-- the translated `==` is an equivalence relation and never fails -/
theorem eq_equivalence :
    (∀ p, Algo2.BddPartialValuation_eq p p = .ok true) ∧
    (∀ p q, Algo2.BddPartialValuation_eq p q = Algo2.BddPartialValuation_eq q p) ∧
    (∀ p q r, Algo2.BddPartialValuation_eq p q = .ok true → Algo2.BddPartialValuation_eq q r = .ok true →
      Algo2.BddPartialValuation_eq p r = .ok true) := by
  obtain ⟨h1, h2, h3⟩ := pv_eq_equivalence
  refine ⟨fun p => by rw [BddPartialValuation_eq_eq_model, h1], fun p q => by
    rw [BddPartialValuation_eq_eq_model, BddPartialValuation_eq_eq_model, h2], ?_⟩
  intro p q r hpq hqr
  rw [BddPartialValuation_eq_eq_model] at *
  simp only [Outcome.ok.injEq] at *
  exact h3 _ _ _ hpq hqr

theorem map_encW_inj : ∀ (l1 l2 : List HashWrite), l1.map encW = l2.map encW → l1 = l2 := by
  intro l1
  induction l1 with
  | nil => intro l2 h; cases l2 with
    | nil => rfl
    | cons b l2 => simp at h
  | cons a l1 ih =>
    intro l2 h
    cases l2 with
    | nil => simp at h
    | cons b l2 =>
      simp only [List.map_cons, List.cons.injEq] at h
      rw [encW_inj a b h.1, ih l2 h.2]

/-- **Eq/Hash contract for the translated code**: `p == q` iff `hash` feeds any `Hasher` (here: the recorded call
    sequence, starting from any common prefix `st`) the very same writes -/
theorem hash_congr (p q : Array (Option Bool)) (st : Array (Nat × Nat)) :
    Algo2.BddPartialValuation_eq p q = .ok true ↔
      Algo2.BddPartialValuation_hash p st = Algo2.BddPartialValuation_hash q st := by
  rw [BddPartialValuation_eq_eq_model, BddPartialValuation_hash_eq_model, BddPartialValuation_hash_eq_model]
  simp only [Outcome.ok.injEq]
  rw [pv_hash_congr]
  constructor
  · intro h; rw [h]
  · intro h
    have h' := congrArg Array.toList h
    simp only [Array.toList_append, List.append_cancel_left_eq] at h'
    exact map_encW_inj _ _ h'

/-- the translated `extends` (vectors of at most 65 536 cells — everything `set_value` can build) -/
theorem extends_spec (s q : Array (Option Bool)) (hq : q.size ≤ 65536) :
    Algo2.BddPartialValuation_extends s q = .ok true ↔
      ∀ x b, PartialVal.get q.toList x = some b → PartialVal.get s.toList x = some b := by
  rw [BddPartialValuation_extends_eq_model, ← extends_iff _ _ (by simpa using hq)]
  simp

theorem total_extends_spec (v : Array Bool) (q : Array (Option Bool)) (hv : v.size ≤ 65535) :
    Algo2.BddValuation_extends v q = .ok true ↔
      ∀ x b, x < v.size → PartialVal.get q.toList x = some b → v.toList.getD x false = b := by
  rw [BddValuation_extends_eq_model, ← Array.length_toList, ← total_extends_iff _ _ (by simpa using hv)]
  simp

/-- total → partial → total through the translated conversions -/
theorem try_from_from (v : Array Bool) :
    Algo2.BddValuation_try_from (Algo2.BddPartialValuation_from v) =
      .ok (if v.size ≤ 65535 then .ok v else .error ()) := by
  rw [BddValuation_try_from_eq_model, BddPartialValuation_from_eq_model, total_partial_roundtrip]
  simp only [Array.length_toList]
  by_cases h : v.size ≤ 65535 <;> simp [h]

/-- partial → total → partial: when the translated `try_from` succeeds, `from` gives the very same vector back,
    and it succeeds exactly on vectors of at most 65 535 cells without an unset cell -/
theorem from_try_from (p : Array (Option Bool)) :
    (∀ v, Algo2.BddValuation_try_from p = .ok (.ok v) → Algo2.BddPartialValuation_from v = p) ∧
    ((∃ v, Algo2.BddValuation_try_from p = .ok (.ok v)) ↔
      p.size ≤ 65535 ∧ ∀ x, x < p.size → PartialVal.get p.toList x ≠ none) := by
  obtain ⟨h1, h2⟩ := partial_total_roundtrip p.toList
  rw [BddValuation_try_from_eq_model]
  constructor
  · intro v hv
    cases ht : PartialVal.toTotal p.toList with
    | none => simp [ht] at hv
    | some w =>
      simp only [ht, Outcome.ok.injEq, Except.ok.injEq] at hv
      subst hv
      apply Array.ext'
      rw [BddPartialValuation_from_eq_model]
      exact h1 w ht
  · rw [← Array.length_toList, ← h2]
    cases ht : PartialVal.toTotal p.toList <;> simp

/-- `Bdd::from(valuation)` as translated: reduced, one node per variable, satisfied by exactly the valuation -/
theorem Bdd_from_spec (v : Array Bool) (hv : v.size ≤ 65535) :
    ∃ A, Algo2.Bdd_from v = .ok A ∧ Red A v.size ∧ A.size = v.size + 2 ∧
      ∀ w : Nat → Bool, den A w = true ↔ ∀ i, i < v.size → w i = v.toList.getD i false := by
  obtain ⟨h1, _, h3, h4⟩ := valuation_bdd_spec v.toList (by simpa using hv)
  exact ⟨_, Bdd_from_eq_model v, by simpa using h1, by simpa using h3, by simpa using h4⟩

/-! ## non-vacuity: concrete runs of the GENERATED functions -/

example : Algo2.BddPartialValuation_eq #[some true, none, none] #[some true] = .ok true :=
  (BddPartialValuation_eq_eq_model _ _).trans (congrArg Outcome.ok (by decide))
example : Algo2.BddPartialValuation_eq #[some true, none, some false] #[some true] = .ok false :=
  (BddPartialValuation_eq_eq_model _ _).trans (congrArg Outcome.ok (by decide))
example : Algo2.BddPartialValuation_hash #[none, some true, none] #[] = .ok #[(8, 1), (1, 1)] := by rfl
example : Algo2.BddPartialValuation_extends #[some true, some false] #[none, some false, none] = .ok true :=
  (BddPartialValuation_extends_eq_model _ _).trans (congrArg Outcome.ok (by decide))
example : Algo2.BddPartialValuation_last_fixed_variable #[none, some true, none] = .ok (some 1) :=
  (BddPartialValuation_last_fixed_variable_eq_model _).trans (congrArg Outcome.ok (by decide))
example : Algo2.BddValuation_try_from #[some true, some false] = .ok (.ok #[true, false]) :=
  (BddValuation_try_from_eq_model _).trans (congrArg Outcome.ok (by rfl))
example : Algo2.BddValuation_try_from #[some true, none] = .ok (.error ()) :=
  (BddValuation_try_from_eq_model _).trans (congrArg Outcome.ok (by rfl))
example : Algo2.BddValuation_extends #[true, false] #[none, some false, some true] = .ok true :=
  (BddValuation_extends_eq_model _ _).trans (congrArg Outcome.ok (by decide))
example : Algo2.BddValuation_to_values #[true, false] = .ok #[(0, true), (1, false)] := by rfl
example : Algo2.Bdd_from #[true, false, true] = .ok #[⟨3, 0, 0⟩, ⟨3, 1, 1⟩, ⟨2, 0, 1⟩, ⟨1, 2, 0⟩, ⟨0, 0, 3⟩] :=
  (Bdd_from_eq_model _).trans (congrArg Outcome.ok (by decide))
/-- the theorems instantiated: hypotheses hold on concrete values -/
example : Algo2.BddPartialValuation_eq #[some true, none] #[some true] = .ok true :=
  (eq_spec _ _).2 (by intro x; rcases x with _ | _ | x <;> simp [PartialVal.get])

end B.AlgoEq2Val
