import BddVerif.Lemmas.AlgoEq3TextBase
import BddVerif.Props.C12
/-!
# Translated `write_as_string` / `Display for Bdd` (`Gen/Algo3.lean`) = hand model (`Model/Serial.lean`)

* `write_as_string_desugar` — the translated function is the sequence of `write_all(..)?` calls `"|"`, then per node
  `var "," low "," high "|"` (`writeSeq` of `AlgoEq2Bytes`), proved by unfolding the generated definition;
* `Bdd_write_as_string_eq_model` — EVERY array, EVERY scripted writer: never a panic; `Ok` iff `Serial.writeTextIO`
  says so (otherwise the error kind is `WriteZero` or the scripted hard error), the sink received exactly the
  model's bytes, the remaining script agrees;
* `Bdd_write_as_string_accepting` — a writer whose script never fails / never accepts zero bytes (in particular a
  `Vec<u8>`): `Ok(())` and the sink holds `w ++ writeText A` (ASCII codes);
* `Bdd_fmt_eq_model` — `Display`: `f ++ writeText A`, every array, never a panic.
-/
namespace B.AlgoEq3Text
open B B.Gen B.AlgoEqUtil B.AlgoEq2Bytes
attribute [local instance 10000] Rust.monadOutcomeInline

/-! ### `lift_err` -/

/-- `lift_err` (`item.map_err(|e| e.to_string())`) in closed form -/
theorem lift_err_ok {T E : Type} [ToString E] (a : T) : Algo3.lift_err (.ok a : Except E T) = .ok a := rfl
theorem lift_err_error {T E : Type} [ToString E] (e : E) : Algo3.lift_err (.error e : Except E T) = .error (toString e) := rfl

/-- `lift_err` keeps `Ok` values and only changes the type of the error -/
theorem lift_err_eq_model {T E : Type} [ToString E] (x : Except E T) :
    Algo3.lift_err x = (match x with | .ok a => .ok a | .error e => .error (toString e)) := by
  cases x <;> rfl

/-! ### the pieces handed to `write_all` -/

/-- the six `write_all` calls of `write!(output, "{},{},{}|", var, low, high)` -/
def pieces6 (nd : Node) : List (Array Nat) :=
  [Rust.utf8Bytes (toString nd.var), Rust.utf8Bytes ",", Rust.utf8Bytes (toString nd.low), Rust.utf8Bytes ",",
   Rust.utf8Bytes (toString nd.high), Rust.utf8Bytes "|"]

def textPiecesB (A : Arr) : List (Array Nat) := Rust.utf8Bytes "|" :: A.toList.flatMap pieces6

/-- the body of `for node in self.nodes()` -/
def wstepT (nd : Node) (s : Option (Except Rust.IoError Unit × Rust.Writer) × Rust.Writer) :
    Outcome (ForInStep (Option (Except Rust.IoError Unit × Rust.Writer) × Rust.Writer)) :=
  match writeSeq s.2 (pieces6 nd) with
  | (.ok _, w') => .ok (.yield (none, w'))
  | (.error e, w') => .ok (.done (some (.error e, w'), w'))

theorem wstepT_run : ∀ (nodes : List Node) (w : Rust.Writer),
    iterL wstepT nodes (none, w) =
      .ok (match writeSeq w (nodes.flatMap pieces6) with
        | (.ok _, w') => (none, w')
        | (.error e, w') => (some (.error e, w'), w')) := by
  intro nodes
  induction nodes with
  | nil => intro w; rfl
  | cons nd nodes ih =>
    intro w
    rw [iterL_cons, List.flatMap_cons, writeSeq_append]
    simp only [wstepT]
    rcases writeSeq w (pieces6 nd) with ⟨r, w'⟩
    cases r with
    | ok u => exact ih w'
    | error e => rfl

/-- desugaring: the translated `write_as_string` is the sequence of `write_all(..)?` calls -/
theorem write_as_string_desugar (A : Arr) (w : Rust.Writer) :
    Algo3.Bdd_write_as_string A w = .ok (writeSeq w (textPiecesB A)) := by
  unfold Algo3.Bdd_write_as_string
  simp only [forIn_array_eq_iterL]
  rw [iterL_congr _ wstepT _ (by
    intro nd _ s
    simp only [wstepT, pieces6, writeSeq]
    rcases Rust.writeAll s.2 (Rust.utf8Bytes (toString nd.var)) with ⟨r1, w1⟩
    cases r1 with
    | error e => rfl
    | ok u1 =>
      dsimp only
      rcases Rust.writeAll w1 (Rust.utf8Bytes ",") with ⟨r2, w2⟩
      cases r2 with
      | error e => rfl
      | ok u2 =>
        dsimp only
        rcases Rust.writeAll w2 (Rust.utf8Bytes (toString nd.low)) with ⟨r3, w3⟩
        cases r3 with
        | error e => rfl
        | ok u3 =>
          dsimp only
          rcases Rust.writeAll w3 (Rust.utf8Bytes ",") with ⟨r4, w4⟩
          cases r4 with
          | error e => rfl
          | ok u4 =>
            dsimp only
            rcases Rust.writeAll w4 (Rust.utf8Bytes (toString nd.high)) with ⟨r5, w5⟩
            cases r5 with
            | error e => rfl
            | ok u5 =>
              dsimp only
              rcases Rust.writeAll w5 (Rust.utf8Bytes "|") with ⟨r6, w6⟩
              cases r6 with
              | error e => rfl
              | ok u6 => rfl), wstepT_run]
  simp only [textPiecesB, writeSeq, Algo.Bdd_nodes]
  rcases Rust.writeAll w (Rust.utf8Bytes "|") with ⟨r0, w0⟩
  cases r0 with
  | error e => rfl
  | ok u0 =>
    simp only [bind_ok]
    rcases writeSeq w0 (A.toList.flatMap pieces6) with ⟨r, w'⟩
    cases r with
    | ok u => rfl
    | error e => rfl

/-! ### the pieces are the model's pieces -/

theorem showNat_ascii (k : Nat) : ∀ c ∈ Serial.showNat k, c.toNat < 0x80 := by
  intro c hc
  obtain ⟨d, hd, rfl⟩ := Serial.mem_showNat k c hc
  exact Props.C12.digitChar_ascii d hd

theorem piece_num (k : Nat) : (Rust.utf8Bytes (toString k)).toList.map byteOf = Serial.asciiBytes (Serial.showNat k) := by
  rw [toString_nat_eq]; exact utf8Bytes_ascii _ (showNat_ascii k)

theorem piece_comma : (Rust.utf8Bytes ",").toList.map byteOf = Serial.asciiBytes [','] := by decide
theorem piece_bar : (Rust.utf8Bytes "|").toList.map byteOf = Serial.asciiBytes ['|'] := by decide

theorem textPieces_eq (A : Arr) :
    (Serial.textPieces A).map Serial.asciiBytes = (textPiecesB A).map fun p => p.toList.map byteOf := by
  have h : ∀ nd, (Serial.nodePieces nd).map Serial.asciiBytes = (pieces6 nd).map (fun p => p.toList.map byteOf) := by
    intro nd
    simp only [Serial.nodePieces, pieces6, List.map_cons, List.map_nil, piece_num, piece_comma, piece_bar]
  unfold Serial.textPieces textPiecesB
  rw [List.map_cons, List.map_cons, piece_bar, List.map_flatMap, List.map_flatMap]
  congr 1
  exact congrArg (fun f => List.flatMap f A.toList) (funext h)

theorem textPieces_lt (A : Arr) : ∀ b ∈ ((textPiecesB A).map Array.toList).flatten, b < 256 := by
  intro b hb
  simp only [textPiecesB, List.map_cons, List.flatten_cons, List.mem_append, List.mem_flatten, List.mem_map,
    List.mem_flatMap, pieces6, List.mem_cons, List.not_mem_nil, or_false] at hb
  rcases hb with hb | ⟨l, ⟨p, ⟨nd, _, hp⟩, rfl⟩, hb⟩
  · exact utf8Bytes_lt _ b hb
  · rcases hp with rfl | rfl | rfl | rfl | rfl | rfl <;> exact utf8Bytes_lt _ b hb

/-- all bytes written, in order: the UTF-8 bytes of `writeText A` -/
theorem textPieces_flatten (A : Arr) :
    ((textPiecesB A).map Array.toList).flatten = (Serial.writeText A).flatMap Serial.utf8EncChar := by
  have hn : ∀ nd, ((pieces6 nd).map Array.toList).flatten = (Serial.nodePieces nd).flatten.flatMap Serial.utf8EncChar := by
    intro nd
    simp only [pieces6, Serial.nodePieces, List.map_cons, List.map_nil, List.flatten_cons, List.flatten_nil,
      List.flatMap_append, utf8Bytes_toList, toString_nat_toList, List.append_nil]
    rfl
  unfold Serial.writeText Serial.textPieces textPiecesB
  simp only [List.map_cons, List.flatten_cons, List.flatMap_append, utf8Bytes_toList]
  congr 1
  generalize A.toList = l
  induction l with
  | nil => rfl
  | cons nd l ih =>
    simp only [List.flatMap_cons, List.map_append, List.flatten_append, List.flatMap_append, hn, ih]

/-! ### `write_as_string` -/

/-- **write_as_string, translated code = hand model** for EVERY array and EVERY scripted writer: the call never
    panics; it returns `Ok` iff `Serial.writeTextIO` does (otherwise the `io::Error` is `WriteZero` or the scripted
    hard error, exactly as `RustShimIO` models a failing writer); the sink received exactly the bytes of the model;
    the remaining script and the number of consumed entries agree -/
theorem Bdd_write_as_string_eq_model (A : Arr) (w : Rust.Writer) :
    ∃ (res : Except Rust.IoError Unit) (w' : Rust.Writer), Algo3.Bdd_write_as_string A w = .ok (res, w') ∧
      RelWrite res (Serial.writeTextIO A (w.script.map evOf)).1 ∧
      w'.out = w.out ++ ((Serial.writeTextIO A (w.script.map evOf)).2.1.map UInt8.toNat).toArray ∧
      w'.script.map evOf = (Serial.writeTextIO A (w.script.map evOf)).2.2 ∧
      w'.sp + w'.script.length = w.sp + w.script.length := by
  obtain ⟨taken, h1, h2, h3, h4, h5, _, h7⟩ := writeSeq_repr (textPiecesB A) w
  rw [← textPieces_eq] at h1 h3 h4
  refine ⟨(writeSeq w (textPiecesB A)).1, (writeSeq w (textPiecesB A)).2, write_as_string_desugar A w, h1, ?_, h4, h5⟩
  unfold Serial.writeTextIO
  rw [h2, h3, map_toNat_byteOf]
  intro b hb
  exact textPieces_lt A b (h7.subset hb)

/-- the ASCII codes of the model's text -/
def textCodes (A : Arr) : List Nat := (Serial.writeText A).map Char.toNat

theorem asciiBytes_toNat (cs : List Char) (h : ∀ c ∈ cs, c.toNat < 0x80) :
    (Serial.asciiBytes cs).map UInt8.toNat = cs.map Char.toNat := by
  induction cs with
  | nil => rfl
  | cons c cs ih =>
    have hc := h c List.mem_cons_self
    simp only [Serial.asciiBytes, List.map_cons, List.map_map] at ih ⊢
    rw [ih (fun x hx => h x (List.mem_cons_of_mem _ hx))]
    congr 1
    simp [Nat.toUInt8, UInt8.toNat_ofNat']; omega

/-- **write_as_string into an accepting writer** (a script without hard error and without zero-length acceptance;
    partial writes and interruptions are allowed; in particular the empty script = a `Vec<u8>`): the result is
    `Ok(())` and the sink holds what it held before followed by the model's text -/
theorem Bdd_write_as_string_accepting (A : Arr) (w : Rust.Writer) (h : Serial.ScriptOk (w.script.map evOf)) :
    ∃ w' : Rust.Writer, Algo3.Bdd_write_as_string A w = .ok (.ok (), w') ∧
      w'.out = w.out ++ (textCodes A).toArray := by
  obtain ⟨res, w', h0, h1, h2, _, _⟩ := Bdd_write_as_string_eq_model A w
  obtain ⟨e1, e2⟩ := Props.C12.chunking_irrelevant_write_text A (w.script.map evOf) h
  rw [e1] at h1
  rw [e2, asciiBytes_toNat _ (Props.C12.writeText_ascii A)] at h2
  cases h1
  exact ⟨w', h0, h2⟩

/-- the special case of a `Vec<u8>` (no script): the whole state of the writer -/
theorem Bdd_write_as_string_vec (A : Arr) (w : Rust.Writer) (h : w.script = []) :
    Algo3.Bdd_write_as_string A w = .ok (.ok (), { w with out := w.out ++ (textCodes A).toArray }) := by
  obtain ⟨res, w', h0, h1, h2, h3, h4⟩ := Bdd_write_as_string_eq_model A w
  rw [h] at h1 h2 h3 h4
  simp only [List.map_nil, Props.C12.writeTextIO_plain] at h1 h2 h3
  rw [asciiBytes_toNat _ (Props.C12.writeText_ascii A)] at h2
  cases h1
  rw [h0]
  obtain ⟨o, s, p⟩ := w'
  simp only [List.map_eq_nil_iff] at h3
  simp only at h2 h4 h
  subst h3 h2
  simp only [List.length_nil, Nat.add_zero] at h4
  subst h4
  obtain ⟨wo, ws, wp⟩ := w
  simp only at h
  subst h
  rfl

/-- **error propagation**: the translated call returns `Err` exactly when the model's writer fails, i.e.
    (`Props.C12.io_error_propagates_write`) exactly when a hard error or a zero-length write was consumed; the sink
    then holds a prefix of the text -/
theorem Bdd_write_as_string_err_iff (A : Arr) (w : Rust.Writer) :
    ∃ (res : Except Rust.IoError Unit) (w' : Rust.Writer), Algo3.Bdd_write_as_string A w = .ok (res, w') ∧
      ((∃ e, res = .error e) ↔ (Serial.writeTextIO A (w.script.map evOf)).1 = false) ∧
      ∃ taken : List Nat, w'.out = w.out ++ taken.toArray ∧ taken <+: textCodes A := by
  obtain ⟨res, w', h0, h1, h2, _, _⟩ := Bdd_write_as_string_eq_model A w
  refine ⟨res, w', h0, ?_, _, h2, ?_⟩
  · revert h1
    generalize (Serial.writeTextIO A (w.script.map evOf)).1 = b
    intro h1
    cases h1 <;> simp
  · obtain ⟨_, _, _, hp⟩ := (Props.C12.io_error_propagates_write A (w.script.map evOf)).2
    unfold textCodes
    rw [← asciiBytes_toNat _ (Props.C12.writeText_ascii A)]
    exact List.IsPrefix.map _ hp

/-! ### `Display for Bdd` -/

/-- **`Display for Bdd`, translated code = hand model**: every array, every formatter contents — the text of the
    model is appended; never a panic (neither `expect` fires) -/
theorem Bdd_fmt_eq_model (A : Arr) (f : String) :
    Algo3.Bdd_fmt A f = .ok (.ok (), f ++ String.ofList (Serial.writeText A)) := by
  unfold Algo3.Bdd_fmt
  simp only [write_as_string_desugar, bind_ok]
  obtain ⟨taken, h1, h2, h3, h4, h5, h6, h7⟩ := writeSeq_repr (textPiecesB A) (Rust.Writer.ofVec #[])
  have hs : (Rust.Writer.ofVec #[]).script = [] := rfl
  rw [hs, List.map_nil, ← textPieces_eq] at h1
  have hm := Props.C12.writeTextIO_plain A
  unfold Serial.writeTextIO at hm
  rw [hm] at h1
  revert h1 h2 h6
  rcases writeSeq (Rust.Writer.ofVec #[]) (textPiecesB A) with ⟨res, w'⟩
  intro h1 h2 h6
  cases h1
  have ht := h6 rfl
  simp only at h2
  have hout : w'.out = ((Serial.writeText A).flatMap Serial.utf8EncChar).toArray := by
    rw [h2, ht, textPieces_flatten]; simp [Rust.Writer.ofVec]
  simp only [bind_ok, Rust.unwrapR, hout, stringFromUtf8_utf8, pure_eq]

/-- `to_string()`: formatting into the empty string -/
theorem Bdd_to_string_eq_model (A : Arr) :
    Algo3.Bdd_fmt A "" = .ok (.ok (), String.ofList (Serial.writeText A)) := by
  rw [Bdd_fmt_eq_model]; simp

end B.AlgoEq3Text
