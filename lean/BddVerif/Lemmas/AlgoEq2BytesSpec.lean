import BddVerif.Lemmas.AlgoEq2Bytes
import BddVerif.Props.C12
import BddVerif.Props.C13
import BddVerif.Drive.Algo2
/-!
# C12 / C13 stated about the TRANSLATED byte serialisation (`B.Gen.Algo2`)

`to_bytes` / `from_bytes` against `Serial.writeBytes` / `Serial.readBytes`, and the property theorems of
`Props/C12.lean`, `Props/C13.lean` (`bytes_roundtrip`, `bytes_len`, `chunking_irrelevant_*`, `roundtrip_under_chunking`,
`io_error_propagates_*`, `read_bytes_total`, `read_bytes_io_total`) transported through
`Bdd_write_as_bytes_eq_model` / `Bdd_read_as_bytes_eq_model`, so that every statement is about
`B.Gen.Algo2.<fn>` running on the scripted devices of `Gen/RustShimIO.lean`.
Fuel: `|data| / 10 + 1` loop iterations; the driver passes `fuelBytes |data| = |data| + 8`.
-/
namespace B.AlgoEq2Bytes
open B B.Gen B.AlgoEqUtil B.Serial B.Props.C12

attribute [local instance 10000] Rust.monadOutcomeInline

theorem scriptOk_nil : ScriptOk [] := by intro e he; simp at he

/-! ## `to_bytes` -/

theorem relWrite_true {r : Except Rust.IoError Unit} (h : RelWrite r true) : r = .ok () := by cases h; rfl

/-- `to_bytes`, every array: never a panic; the bytes of the model -/
theorem Bdd_to_bytes_eq_model (A : Arr) :
    Algo2.Bdd_to_bytes A = .ok ((Serial.writeBytes A).map UInt8.toNat).toArray := by
  obtain ⟨res, w', h0, h1, h2, _, _⟩ := Bdd_write_as_bytes_eq_model A (Rust.Writer.ofVec #[])
  have hw := chunking_irrelevant_write_bytes A [] scriptOk_nil
  simp only [Rust.Writer.ofVec, List.map_nil] at h1 h2
  rw [hw.1] at h1
  rw [hw.2] at h2
  unfold Algo2.Bdd_to_bytes
  simp only [h0, relWrite_true h1, bind_ok, Rust.unwrapR, pure_eq, h2]
  congr 1
  apply Array.ext'; simp

theorem Bdd_to_bytes_repr (A : Arr) :
    ∃ bs, Algo2.Bdd_to_bytes A = .ok bs ∧ bs.toList.map byteOf = Serial.writeBytes A ∧ bs.size = 10 * A.size := by
  refine ⟨_, Bdd_to_bytes_eq_model A, map_byteOf_toNat _, ?_⟩
  simp only [List.size_toArray, List.length_map, bytes_len, record_len_is_ten]

/-! ## `from_bytes` and the plain-slice reader -/

theorem sRead_nil (d : List UInt8) (want : Nat) :
    (⟨d, []⟩ : Serial.Reader).read want = (.bytes (d.take want), ⟨d.drop want, []⟩) := rfl

/-- `read_exact` on a reader without script -/
theorem sReadExact_plain (d : List UInt8) (need : Nat) (acc : List UInt8) :
    Serial.readExact ⟨d, []⟩ need acc =
      if need ≤ d.length then (.ok (acc ++ d.take need), ⟨d.drop need, []⟩) else (.eof, ⟨[], []⟩) := by
  by_cases hn : need = 0
  · subst hn; rw [sReadExact_zero]; simp
  · rw [sReadExact_bytes acc hn (sRead_nil d need)]
    by_cases hd : d = []
    · subst hd
      have : ¬ need ≤ 0 := by omega
      simp [this]
    · have hl : d.length ≠ 0 := fun h => hd (List.eq_nil_of_length_eq_zero h)
      have h1 : (d.take need).length ≠ 0 := by simp only [List.length_take]; omega
      simp only [h1, if_false]
      by_cases hle : need ≤ d.length
      · have : need - (d.take need).length = 0 := by simp only [List.length_take]; omega
        rw [this, sReadExact_zero]; simp [hle]
      · have hne : need - (d.take need).length ≠ 0 := by simp only [List.length_take]; omega
        have hdrop : d.drop need = [] := List.drop_eq_nil_of_le (by omega)
        rw [hdrop, sReadExact_bytes _ hne (sRead_nil [] _)]
        simp [hle]

/-- `read_as_bytes` on a plain slice: all complete records, and the slice is consumed entirely -/
theorem sReadBytesIO_plain : ∀ (n : Nat) (d : List UInt8) (acc : Arr), d.length ≤ n →
    Serial.readBytesIO ⟨d, []⟩ acc = (.ok (decodeRecs d acc), ⟨[], []⟩) := by
  intro n
  induction n with
  | zero =>
    intro d acc h
    rw [sReadBytesIO_eq, sReadExact_plain, record_len_is_ten]
    have : ¬ 10 ≤ d.length := by omega
    simp only [this, if_false]
    rw [decodeRecs_short (by rw [record_len_is_ten]; omega)]
  | succ n ih =>
    intro d acc h
    rw [sReadBytesIO_eq, sReadExact_plain]
    by_cases hle : Gen.recordLen ≤ d.length
    · simp only [hle, if_true, List.nil_append]
      rw [decodeRecs_long hle]
      exact ih _ _ (by have := recordLen_pos; simp only [List.length_drop]; omega)
    · simp only [hle, if_false]
      rw [decodeRecs_short (by omega)]

/-- **from_bytes, translated code = hand model**, EVERY byte vector (well-formed or not): all complete 10-byte
    records are decoded, a trailing partial record is dropped, the slice is consumed; never a panic -/
theorem Bdd_from_bytes_eq_model (fuel : Nat) (data : Array Nat) (hf : data.size / 10 + 1 ≤ fuel) :
    Algo2.Bdd_from_bytes fuel data = .ok (decodeRecs (data.toList.map byteOf) #[], #[]) ∧
    Serial.readBytes (data.toList.map byteOf) = .ok (decodeRecs (data.toList.map byteOf) #[]) := by
  obtain ⟨rd', h1, h2, _⟩ := Bdd_read_as_bytes_eq_model fuel (Rust.Reader.ofSlice data) (by
    simpa [Rust.Reader.ofSlice] using hf)
  have hp := sReadBytesIO_plain _ (data.toList.map byteOf) #[] (Nat.le_refl _)
  have hr : rdOf (Rust.Reader.ofSlice data) = ⟨data.toList.map byteOf, []⟩ := rfl
  rw [hr, hp] at h1 h2
  refine ⟨?_, by unfold Serial.readBytes; rw [hp]⟩
  have : rd'.data = [] := by
    have := congrArg Serial.Reader.data h2
    simpa [rdOf] using this
  unfold Algo2.Bdd_from_bytes
  simp only [h1, bind_ok, toExcept, Rust.unwrapR, pure_eq, this]

theorem fuelBytes_ok (n : Nat) : n / 10 + 1 ≤ Drive.Algo2.fuelBytes n := by
  unfold Drive.Algo2.fuelBytes; omega

theorem Bdd_from_bytes_eq_model_driver (data : Array Nat) :
    Algo2.Bdd_from_bytes (Drive.Algo2.fuelBytes data.size) data = .ok (decodeRecs (data.toList.map byteOf) #[], #[]) :=
  (Bdd_from_bytes_eq_model _ data (fuelBytes_ok _)).1

/-! ## C12 / C13 for the translated code -/

/-- **bytes_roundtrip**: `Bdd::from_bytes(&b.to_bytes()) == b`, through the translated code, for every array whose
    fields fit `u16` / `u32` (true of every `Bdd` value); 10 bytes per node -/
theorem bytes_roundtrip (A : Arr) (h : Fits A) (fuel : Nat) (hf : A.size + 1 ≤ fuel) :
    ∃ bs, Algo2.Bdd_to_bytes A = .ok bs ∧ bs.size = 10 * A.size ∧ Algo2.Bdd_from_bytes fuel bs = .ok (A, #[]) := by
  obtain ⟨bs, h1, h2, h3⟩ := Bdd_to_bytes_repr A
  refine ⟨bs, h1, h3, ?_⟩
  obtain ⟨g1, g2⟩ := Bdd_from_bytes_eq_model fuel bs (by omega)
  have hA : decodeRecs (bs.toList.map byteOf) #[] = A := by
    have := Props.C12.bytes_roundtrip A h
    rw [← h2, g2] at this
    exact Outcome.ok.inj this
  rw [g1, hA]

theorem bytes_roundtrip_driver (A : Arr) (h : Fits A) :
    ∃ bs, Algo2.Bdd_to_bytes A = .ok bs ∧ Algo2.Bdd_from_bytes (Drive.Algo2.fuelBytes bs.size) bs = .ok (A, #[]) := by
  obtain ⟨bs, h1, h2, h3⟩ := bytes_roundtrip A h (A.size + 1) (Nat.le_refl _)
  refine ⟨bs, h1, ?_⟩
  obtain ⟨g1, _⟩ := Bdd_from_bytes_eq_model (A.size + 1) bs (by omega)
  rw [Bdd_from_bytes_eq_model_driver, ← g1, h3]

/-- **read_bytes_total** (C13): on EVERY byte vector the translated `read_as_bytes` returns `Ok` — one node per complete
    record — never `Err`, never a panic, and the fuel `|data| / 10 + 1` is not exhausted -/
theorem read_bytes_total (fuel : Nat) (data : Array Nat) (hf : data.size / 10 + 1 ≤ fuel) :
    ∃ rd', Algo2.Bdd_read_as_bytes fuel (Rust.Reader.ofSlice data) =
      .ok (.ok (decodeRecs (data.toList.map byteOf) #[]), rd') ∧
      (decodeRecs (data.toList.map byteOf) #[]).size = data.size / 10 := by
  obtain ⟨rd', h1, _, _⟩ := Bdd_read_as_bytes_eq_model fuel (Rust.Reader.ofSlice data) (by
    simpa [Rust.Reader.ofSlice] using hf)
  have hr : rdOf (Rust.Reader.ofSlice data) = ⟨data.toList.map byteOf, []⟩ := rfl
  have ht := (Props.C13.read_bytes_total (data.toList.map byteOf)).1
  unfold Serial.readBytes at ht
  rw [hr, ht] at h1
  refine ⟨rd', h1, ?_⟩
  rw [decodeRecs_size _ _ _ (Nat.le_refl _), record_len_is_ten]
  simp

/-- **read_bytes_io_total** (C13): through EVERY scripted reader the translated `read_as_bytes` returns `Ok` or `Err`,
    never a panic -/
theorem read_bytes_io_total (fuel : Nat) (rd : Rust.Reader) (hf : rd.data.length / 10 + 1 ≤ fuel) :
    ∃ res rd', Algo2.Bdd_read_as_bytes fuel rd = .ok (res, rd') := by
  obtain ⟨rd', h1, _, _⟩ := Bdd_read_as_bytes_eq_model fuel rd hf
  exact ⟨_, rd', h1⟩

/-- **chunking_irrelevant** (binary reader, translated code): through any script without hard error and without a
    zero-length transfer the result is the one on the plain data -/
theorem chunking_irrelevant_read_bytes (fuel : Nat) (rd : Rust.Reader) (hf : rd.data.length / 10 + 1 ≤ fuel)
    (h : ScriptOk (rd.script.map evOf)) :
    ∃ rd', Algo2.Bdd_read_as_bytes fuel rd = .ok (.ok (decodeRecs (rd.data.map byteOf) #[]), rd') := by
  obtain ⟨rd', h1, _, _⟩ := Bdd_read_as_bytes_eq_model fuel rd hf
  have hc := Props.C12.chunking_irrelevant_read_bytes (rd.data.map byteOf) (rd.script.map evOf) h
  rw [readBytes_eq] at hc
  have hr : rdOf rd = ⟨rd.data.map byteOf, rd.script.map evOf⟩ := rfl
  rw [hr, hc] at h1
  exact ⟨rd', h1⟩

/-- **chunking_irrelevant** (binary writer, translated code): partial writes and interruptions anywhere do not change
    what reaches the sink -/
theorem chunking_irrelevant_write_bytes (A : Arr) (w : Rust.Writer) (h : ScriptOk (w.script.map evOf)) :
    ∃ w', Algo2.Bdd_write_as_bytes A w = .ok (.ok (), w') ∧
      w'.out = w.out ++ ((Serial.writeBytes A).map UInt8.toNat).toArray := by
  obtain ⟨res, w', h0, h1, h2, _, _⟩ := Bdd_write_as_bytes_eq_model A w
  obtain ⟨c1, c2⟩ := Props.C12.chunking_irrelevant_write_bytes A _ h
  rw [c1] at h1
  rw [c2] at h2
  rw [relWrite_true h1] at h0
  exact ⟨w', h0, h2⟩

/-- the property as stated, for the translated code: write through any good script, read the sink's bytes back
    through any good script -/
theorem roundtrip_under_chunking (A : Arr) (h : Fits A) (sw sr : List Rust.IoEv)
    (hsw : ScriptOk (sw.map evOf)) (hsr : ScriptOk (sr.map evOf)) (fuel : Nat) (hf : A.size + 1 ≤ fuel) :
    ∃ w', Algo2.Bdd_write_as_bytes A { script := sw } = .ok (.ok (), w') ∧
      ∃ rd', Algo2.Bdd_read_as_bytes fuel { data := w'.out.toList, script := sr } = .ok (.ok A, rd') := by
  obtain ⟨w', h1, h2⟩ := chunking_irrelevant_write_bytes A { script := sw } hsw
  refine ⟨w', h1, ?_⟩
  have hout : w'.out.toList = (Serial.writeBytes A).map UInt8.toNat := by rw [h2]; simp
  have hlen : w'.out.toList.length = 10 * A.size := by
    rw [hout, List.length_map, bytes_len, record_len_is_ten]
  obtain ⟨rd', h3⟩ := chunking_irrelevant_read_bytes fuel { data := w'.out.toList, script := sr }
    (by simp only [hlen]; omega) hsr
  refine ⟨rd', ?_⟩
  rw [h3]
  simp only [hout, map_byteOf_toNat]
  have := Props.C12.bytes_roundtrip A h
  rw [readBytes_eq] at this
  rw [Outcome.ok.inj this]

theorem evOf_inj : ∀ a b, evOf a = evOf b → a = b := by
  intro a b h; cases a <;> cases b <;> simp_all [evOf]

theorem map_evOf_split : ∀ (l l2 : List Rust.IoEv) (pre : List Serial.Ev), l.map evOf = pre ++ l2.map evOf →
    ∃ c, l = c ++ l2 ∧ c.map evOf = pre := by
  intro l l2 pre
  induction pre generalizing l with
  | nil =>
    intro h
    refine ⟨[], ?_, rfl⟩
    simp only [List.nil_append] at h ⊢
    induction l generalizing l2 with
    | nil => cases l2 with
      | nil => rfl
      | cons b l2 => simp at h
    | cons a l ih =>
      cases l2 with
      | nil => simp at h
      | cons b l2 =>
        simp only [List.map_cons, List.cons.injEq] at h
        rw [evOf_inj a b h.1, ih l2 h.2]
  | cons e pre ih =>
    intro h
    cases l with
    | nil => simp at h
    | cons a l =>
      simp only [List.map_cons, List.cons_append, List.cons.injEq] at h
      obtain ⟨c, hc1, hc2⟩ := ih l h.2
      exact ⟨a :: c, by rw [hc1]; rfl, by simp [h.1, hc2]⟩

/-- **io_error_propagates** (binary reader, translated code): for EVERY script, the entries split into those
    consumed and those left (`sp` counts the consumed ones); the result is `Err` exactly when a hard error was
    consumed; never a panic -/
theorem io_error_propagates_read_bytes (fuel : Nat) (rd : Rust.Reader) (hf : rd.data.length / 10 + 1 ≤ fuel) :
    ∃ res rd' consumed, Algo2.Bdd_read_as_bytes fuel rd = .ok (res, rd') ∧
      rd.script = consumed ++ rd'.script ∧ rd'.sp = rd.sp + consumed.length ∧
      ((∃ e, res = .error e) ↔ Rust.IoEv.fail ∈ consumed) := by
  obtain ⟨rd', h1, h2, h3⟩ := Bdd_read_as_bytes_eq_model fuel rd hf
  obtain ⟨pre, p1, p2, p3⟩ := Props.C12.io_error_propagates_read_bytes (rdOf rd)
  rw [← h2] at p1
  obtain ⟨c, hc1, hc2⟩ := map_evOf_split rd.script rd'.script pre p1
  refine ⟨_, rd', c, h1, hc1, ?_, ?_⟩
  · have := congrArg List.length hc1
    simp only [List.length_append] at this
    omega
  · have hmem : Serial.Ev.fail ∈ pre ↔ Rust.IoEv.fail ∈ c := by
      rw [← hc2, List.mem_map]
      constructor
      · rintro ⟨a, ha, hf⟩
        cases a <;> simp_all [evOf]
      · intro hm; exact ⟨_, hm, rfl⟩
    rw [← hmem, ← p2]
    cases hres : (Serial.readBytesIO (rdOf rd) #[]).1 <;> simp_all [toExcept, Outcome.isErr, Outcome.isPanic]

/-- **io_error_propagates** (binary writer, translated code): `Err` exactly when a hard error or a zero-length write
    was consumed; what reached the sink is then a prefix of the serialisation -/
theorem io_error_propagates_write_bytes (A : Arr) (w : Rust.Writer) :
    ∃ res w' consumed, Algo2.Bdd_write_as_bytes A w = .ok (res, w') ∧
      w.script = consumed ++ w'.script ∧ w'.sp = w.sp + consumed.length ∧
      ((∃ e, res = .error e) ↔ ∃ e ∈ consumed, e = Rust.IoEv.fail ∨ e = Rust.IoEv.give 0) ∧
      ∃ sent, w'.out = w.out ++ sent.toArray ∧ sent <+: (Serial.writeBytes A).map UInt8.toNat := by
  obtain ⟨res, w', h0, h1, h2, h3, h4⟩ := Bdd_write_as_bytes_eq_model A w
  obtain ⟨pre, p1, p2, p3⟩ := (Props.C12.io_error_propagates_write A (w.script.map evOf)).1
  rw [← h3] at p1
  obtain ⟨c, hc1, hc2⟩ := map_evOf_split w.script w'.script pre p1
  refine ⟨res, w', c, h0, hc1, ?_, ?_, _, h2, ?_⟩
  · have := congrArg List.length hc1
    simp only [List.length_append] at this
    omega
  · have hex : (∃ e ∈ pre, isFault e) ↔ ∃ e ∈ c, e = Rust.IoEv.fail ∨ e = Rust.IoEv.give 0 := by
      rw [← hc2]
      constructor
      · rintro ⟨e, he, hf⟩
        rw [List.mem_map] at he
        obtain ⟨a, ha, rfl⟩ := he
        refine ⟨a, ha, ?_⟩
        unfold isFault at hf
        cases a with
        | give k =>
          simp only [evOf, reduceCtorEq, Serial.Ev.give.injEq, false_or] at hf
          subst hf; exact Or.inr rfl
        | interrupted => simp [evOf] at hf
        | fail => exact Or.inl rfl
      · rintro ⟨a, ha, hf⟩
        refine ⟨evOf a, List.mem_map.2 ⟨a, ha, rfl⟩, ?_⟩
        rcases hf with rfl | rfl
        · exact Or.inl rfl
        · exact Or.inr rfl
    rw [← hex, ← p2]
    generalize (Serial.writeBytesIO A (w.script.map evOf)).1 = ok at h1
    cases h1 <;> simp
  · obtain ⟨t, ht⟩ := p3
    exact ⟨t.map UInt8.toNat, by rw [← ht, List.map_append]⟩

/-! ## the fuel the replay driver passes (`Drive/Algo2.lean`: `fuelBytes |data| = |data| + 8`) -/

theorem Bdd_read_as_bytes_eq_model_driver (bytes : Array Nat) (script : List Rust.IoEv) :
    ∃ rd' : Rust.Reader,
      Algo2.Bdd_read_as_bytes (Drive.Algo2.fuelBytes bytes.size) { data := bytes.toList, script := script } =
        .ok (toExcept (Serial.readBytesIO ⟨bytes.toList.map byteOf, script.map evOf⟩ #[]).1, rd') ∧
      rdOf rd' = (Serial.readBytesIO ⟨bytes.toList.map byteOf, script.map evOf⟩ #[]).2 ∧
      rd'.sp + rd'.script.length = script.length := by
  obtain ⟨rd', h1, h2, h3⟩ := Bdd_read_as_bytes_eq_model (Drive.Algo2.fuelBytes bytes.size)
    { data := bytes.toList, script := script } (by simpa using fuelBytes_ok bytes.size)
  exact ⟨rd', h1, h2, by simpa using h3⟩

/-! ## non-vacuity -/

def exScript : List Rust.IoEv := [.give 3, .interrupted, .give 1, .give 2, .interrupted]

theorem exScript_ok : ScriptOk (exScript.map evOf) := by
  intro e he
  simp [exScript, evOf] at he
  rcases he with rfl | rfl | rfl | rfl | rfl <;> simp

/-- concrete runs of the GENERATED functions (kernel evaluation of the translated `do` blocks) -/
example : Algo2.Bdd_to_bytes #[⟨1, 0, 0⟩, ⟨1, 1, 1⟩, ⟨0, 0, 1⟩] =
    .ok #[1, 0, 0, 0, 0, 0, 0, 0, 0, 0, 1, 0, 1, 0, 0, 0, 1, 0, 0, 0, 0, 0, 0, 0, 0, 0, 1, 0, 0, 0] := by rfl

example : Algo2.BddPointer_to_le_bytes 258 = #[2, 1, 0, 0] ∧ Algo2.BddPointer_from_le_bytes #[2, 1, 0, 0] = 258 ∧
    Algo2.BddVariable_from_le_bytes (Algo2.BddVariable_to_le_bytes 65537) = 1 := by decide

/-- the theorems instantiated on `Props.C12.exA` / `exBig` (fields up to 65535) and a script with partial
    transfers and interruptions -/
example : ∃ bs, Algo2.Bdd_to_bytes exBig = .ok bs ∧ bs.size = 40 ∧
    Algo2.Bdd_from_bytes (Drive.Algo2.fuelBytes 40) bs = .ok (exBig, #[]) := by
  obtain ⟨bs, h1, h2, h3⟩ := bytes_roundtrip exBig (by decide) (Drive.Algo2.fuelBytes 40) (by decide)
  exact ⟨bs, h1, h2, h3⟩

example : ∃ w', Algo2.Bdd_write_as_bytes exA { script := exScript } = .ok (.ok (), w') ∧
    ∃ rd', Algo2.Bdd_read_as_bytes 5 { data := w'.out.toList, script := exScript } = .ok (.ok exA, rd') :=
  roundtrip_under_chunking exA (by decide) exScript exScript exScript_ok exScript_ok 5 (by decide)

/-- a hard error in the script is returned as `Err`, a truncated input is accepted up to the last full record -/
example : ∃ res rd', Algo2.Bdd_read_as_bytes 3 { data := [1, 2, 3], script := [.give 1, .fail] } = .ok (res, rd') :=
  read_bytes_io_total 3 _ (by decide)
example : ∃ rd', Algo2.Bdd_read_as_bytes 2 (Rust.Reader.ofSlice #[2, 0, 0, 0, 0, 0, 1, 0, 0, 0, 7, 7]) =
    .ok (.ok #[⟨2, 0, 1⟩], rd') := by
  obtain ⟨rd', h, _⟩ := read_bytes_total 2 #[2, 0, 0, 0, 0, 0, 1, 0, 0, 0, 7, 7] (by decide)
  refine ⟨rd', h.trans ?_⟩
  have : decodeRecs (List.map byteOf #[2, 0, 0, 0, 0, 0, 1, 0, 0, 0, 7, 7].toList) #[] = #[⟨2, 0, 1⟩] := by
    rw [decodeRecs_long (by decide), decodeRecs_short (by decide)]; decide
  rw [this]

end B.AlgoEq2Bytes
