import BddVerif.Lemmas.AlgoEqApplyDesugar
import BddVerif.Lemmas.AlgoEqApplyModel
/-!
Equivalence "translated Rust = hand-written model" for `apply_with_flip`, part 3: the SIMULATION. Running the
loop body `cstep` from a state whose stack top is an unfinished task `t` (everything below untouched) reaches,
after `k` iterations, the state where `t` is popped and the remaining loop variables are exactly the state the
recursive model `applyRec` returns on `t`; `k + 2 ≤ 3 · (number of tasks finished meanwhile)`.
-/
namespace B.AlgoEqA
open B B.Gen Std

/-- the loop variables made of a model state and a stack -/
def ofSt (s : St) (stk : Array (Nat × Nat)) : LS := (s.res, s.nonEmpty, s.existing, stk, s.finished)

/-- `2^32`: pointers are `u32` -/
def U32 : Nat := 4294967296

theorem look_none {op : Op2} {fin : HashMap (Nat × Nat) Nat} {c : Nat × Nat} (h : look op fin c = none) :
    op (asBool c.1) (asBool c.2) = none ∧ fin[c]? = none := by
  unfold look at h
  cases hop : op (asBool c.1) (asBool c.2) with
  | some b => rw [hop] at h; cases h
  | none => rw [hop] at h; exact ⟨rfl, h⟩

theorem look_of_none {op : Op2} {fin : HashMap (Nat × Nat) Nat} {c : Nat × Nat}
    (h : op (asBool c.1) (asBool c.2) = none) : look op fin c = fin[c]? := by
  unfold look; rw [h]

/-! ### the three kinds of iterations -/

/-- the task on top of the stack is already finished: it is popped -/
theorem cstep_pop (Γ : Ctx) (s : St) (stk : Array (Nat × Nat)) (t : Nat × Nat) (p : Nat)
    (h : s.finished[t]? = some p) : cstep Γ (ofSt s (stk.push t)) = .ok (.yield (ofSt s stk)) := by
  unfold cstep ofSt
  simp only [Array.back?_push, Array.pop_push, HashMap.contains_eq_isSome_getElem?, h, Option.isSome_some,
    if_true]

theorem fin32_finish (s : St) (l r d a b : Nat) (fl : Bool)
    (hsz : (finish s l r d a b fl).1.res.size ≤ U32) :
    fin32 s.res s.nonEmpty s.existing s.finished (l, r) d a b fl =
      ((finish s l r d a b fl).1.res, (finish s l r d a b fl).1.nonEmpty, (finish s l r d a b fl).1.existing,
        (finish s l r d a b fl).1.finished) := by
  obtain ⟨res, ex, fin, ne⟩ := s
  revert hsz
  unfold fin32 finish findOrPush
  generalize (if fl = true then (⟨d, b, a⟩ : Node) else ⟨d, a, b⟩) = node
  by_cases hf : a = 1 ∨ b = 1
  · simp only [hf, if_true]
    by_cases hab : a = b
    · simp only [hab, if_true]; intro _; trivial
    · simp only [hab, if_false]
      cases ex[node]? with
      | some i => intro _; rfl
      | none =>
        simp only [Array.size_push]
        intro h
        have : u32 res.size = res.size := Nat.mod_eq_of_lt (by unfold U32 at h; omega)
        rw [this]
  · simp only [hf, if_false]
    by_cases hab : a = b
    · simp only [hab, if_true]; intro _; trivial
    · simp only [hab, if_false]
      cases ex[node]? with
      | some i => intro _; rfl
      | none =>
        simp only [Array.size_push]
        intro h
        have : u32 res.size = res.size := Nat.mod_eq_of_lt (by unfold U32 at h; omega)
        rw [this]

theorem getElem?_of_lt (A : Arr) (p : Nat) (h : p < A.size) : A[p]? = some (nodeAt A p) := by
  simp [nodeAt, h]

/-- both sub-results are known: the task is finished exactly as `finish` does, and popped -/
theorem cstep_known (Γ : Ctx) (ok : COk Γ) (s : St) (stk : Array (Nat × Nat)) (l r : Nat)
    (hl : l < Γ.L.size) (hr : r < Γ.R.size) (hn : s.finished[(l, r)]? = none) (a b : Nat)
    (ha : look Γ.op s.finished ((kids Γ.L l (lv Γ l r) Γ.fl).1, (kids Γ.R r (lv Γ l r) Γ.fr).1) = some a)
    (hb : look Γ.op s.finished ((kids Γ.L l (lv Γ l r) Γ.fl).2, (kids Γ.R r (lv Γ l r) Γ.fr).2) = some b)
    (hsz : (finish s l r (lv Γ l r) a b (decide (Γ.fo = some (lv Γ l r)))).1.res.size ≤ U32) :
    cstep Γ (ofSt s (stk.push (l, r))) =
      .ok (.yield (ofSt (finish s l r (lv Γ l r) a b (decide (Γ.fo = some (lv Γ l r)))).1 stk)) := by
  unfold cstep ofSt
  simp only [Array.back?_push, Array.pop_push, HashMap.contains_eq_isSome_getElem?, hn, Option.isSome_none,
    Bool.false_eq_true, if_false, getElem?_of_lt _ _ hl, getElem?_of_lt _ _ hr, lv_nodeAt Γ ok l r hl hr,
    ha, hb, fin32_finish s l r _ a b _ hsz]

/-- some sub-result is unknown: the unknown sub-tasks are pushed -/
theorem cstep_push (Γ : Ctx) (ok : COk Γ) (s : St) (stk : Array (Nat × Nat)) (l r : Nat)
    (hl : l < Γ.L.size) (hr : r < Γ.R.size) (hn : s.finished[(l, r)]? = none)
    (hu : look Γ.op s.finished ((kids Γ.L l (lv Γ l r) Γ.fl).1, (kids Γ.R r (lv Γ l r) Γ.fr).1) = none ∨
          look Γ.op s.finished ((kids Γ.L l (lv Γ l r) Γ.fl).2, (kids Γ.R r (lv Γ l r) Γ.fr).2) = none) :
    cstep Γ (ofSt s (stk.push (l, r))) =
      .ok (.yield (ofSt s
        (if Γ.fo = some (lv Γ l r) then
          pushIf (look Γ.op s.finished ((kids Γ.L l (lv Γ l r) Γ.fl).1, (kids Γ.R r (lv Γ l r) Γ.fr).1))
            ((kids Γ.L l (lv Γ l r) Γ.fl).1, (kids Γ.R r (lv Γ l r) Γ.fr).1)
            (pushIf (look Γ.op s.finished ((kids Γ.L l (lv Γ l r) Γ.fl).2, (kids Γ.R r (lv Γ l r) Γ.fr).2))
              ((kids Γ.L l (lv Γ l r) Γ.fl).2, (kids Γ.R r (lv Γ l r) Γ.fr).2) (stk.push (l, r)))
        else
          pushIf (look Γ.op s.finished ((kids Γ.L l (lv Γ l r) Γ.fl).2, (kids Γ.R r (lv Γ l r) Γ.fr).2))
            ((kids Γ.L l (lv Γ l r) Γ.fl).2, (kids Γ.R r (lv Γ l r) Γ.fr).2)
            (pushIf (look Γ.op s.finished ((kids Γ.L l (lv Γ l r) Γ.fl).1, (kids Γ.R r (lv Γ l r) Γ.fr).1))
              ((kids Γ.L l (lv Γ l r) Γ.fl).1, (kids Γ.R r (lv Γ l r) Γ.fr).1) (stk.push (l, r)))))) := by
  unfold cstep ofSt
  simp only [Array.back?_push, HashMap.contains_eq_isSome_getElem?, hn, Option.isSome_none,
    Bool.false_eq_true, if_false, getElem?_of_lt _ _ hl, getElem?_of_lt _ _ hr, lv_nodeAt Γ ok l r hl hr]
  generalize look Γ.op s.finished ((kids Γ.L l (lv Γ l r) Γ.fl).1, (kids Γ.R r (lv Γ l r) Γ.fr).1) = a at hu ⊢
  generalize look Γ.op s.finished ((kids Γ.L l (lv Γ l r) Γ.fl).2, (kids Γ.R r (lv Γ l r) Γ.fr).2) = b at hu ⊢
  cases a with
  | none => cases b <;> by_cases hfo : Γ.fo = some (lv Γ l r) <;> simp only [hfo, if_true, if_false]
  | some a =>
    cases b with
    | none => by_cases hfo : Γ.fo = some (lv Γ l r) <;> simp only [hfo, if_true, if_false]
    | some b => rcases hu with h | h <;> cases h

/-- the loop stops on the empty stack -/
theorem cstep_done (Γ : Ctx) (s : St) : cstep Γ (ofSt s #[]) = .ok (.done (ofSt s #[])) := by
  unfold cstep ofSt; rfl


/-! ### the simulation -/

/-- simulation statement at level fuel `f`: from "unfinished task `(l, r)` on top" the loop reaches "task popped,
    remaining variables = state returned by `applyRec`", within `3 · (newly finished tasks) - 2` iterations -/
def SIM (Γ : Ctx) (f : Nat) : Prop :=
  ∀ (l r : Nat) (s : St) (stk : Array (Nat × Nat)), l < Γ.L.size → r < Γ.R.size → Γ.n - lv Γ l r < f →
    s.finished[(l, r)]? = none → (applyRec Γ f l r s).1.res.size ≤ U32 →
    ∃ k, runs (cstep Γ) k (ofSt s (stk.push (l, r))) (ofSt (applyRec Γ f l r s).1 stk) ∧
      k + 2 + 3 * s.finished.size ≤ 3 * (applyRec Γ f l r s).1.finished.size

/-- a pushed sub-task, reached on top of the stack: popped if finished meanwhile, simulated otherwise -/
theorem child_run (Γ : Ctx) (m f' : Nat) (ih : SIM Γ f') (c : Nat × Nat) (s : St) (stk : Array (Nat × Nat))
    (hc : ChildOK Γ m f' c) (hop : Γ.op (asBool c.1) (asBool c.2) = none)
    (hsz : (solve Γ.op (applyRec Γ f') c.1 c.2 s).1.res.size ≤ U32) :
    ∃ k, runs (cstep Γ) k (ofSt s (stk.push c)) (ofSt (solve Γ.op (applyRec Γ f') c.1 c.2 s).1 stk) ∧
      k + 3 * s.finished.size ≤ 3 * (solve Γ.op (applyRec Γ f') c.1 c.2 s).1.finished.size + 1 ∧
      (s.finished[c]? = none →
        k + 2 + 3 * s.finished.size ≤ 3 * (solve Γ.op (applyRec Γ f') c.1 c.2 s).1.finished.size) := by
  cases hfin : s.finished[c]? with
  | some p =>
    have hl : look Γ.op s.finished c = some p := by rw [look_of_none hop]; exact hfin
    rw [solve_known Γ m f' c s p hc hl]
    exact ⟨1, runs_one (cstep_pop Γ s stk c p hfin), by simp only; omega, fun h => by cases h⟩
  | none =>
    have hs : solve Γ.op (applyRec Γ f') c.1 c.2 s = applyRec Γ f' c.1 c.2 s := by
      unfold solve; rw [hop]
    rw [hs] at hsz ⊢
    rcases hc with hc | ⟨h1, h2, h3, _⟩
    · exact absurd hop hc
    · obtain ⟨k, hk, hcost⟩ := ih c.1 c.2 s stk h1 h2 h3 hfin hsz
      exact ⟨k, hk, by omega, fun _ => hcost⟩

/-- one task whose two sub-tasks are processed in the order `c1`, `c2` and which is then finished by `F` -/
theorem parent_sim (Γ : Ctx) (f' : Nat) (l r : Nat) (c1 c2 : Nat × Nat) (F : St → Nat → Nat → St × Nat)
    (hc1 : ChildOK Γ (lv Γ l r) f' c1) (hc2 : ChildOK Γ (lv Γ l r) f' c2)
    (hpost : ∀ l r s, l < Γ.L.size → r < Γ.R.size → Γ.n - lv Γ l r < f' → Post Γ s l r (applyRec Γ f' l r s))
    (ih : SIM Γ f')
    (hK : ∀ (s' : St) (stk : Array (Nat × Nat)) (p1 p2 : Nat), s'.finished[(l, r)]? = none →
      look Γ.op s'.finished c1 = some p1 → look Γ.op s'.finished c2 = some p2 →
      (F s' p1 p2).1.res.size ≤ U32 →
      cstep Γ (ofSt s' (stk.push (l, r))) = .ok (.yield (ofSt (F s' p1 p2).1 stk)))
    (hP : ∀ (s' : St) (stk : Array (Nat × Nat)), s'.finished[(l, r)]? = none →
      (look Γ.op s'.finished c1 = none ∨ look Γ.op s'.finished c2 = none) →
      cstep Γ (ofSt s' (stk.push (l, r))) = .ok (.yield (ofSt s'
        (pushIf (look Γ.op s'.finished c1) c1 (pushIf (look Γ.op s'.finished c2) c2 (stk.push (l, r)))))))
    (hF : ∀ (s' : St) (p1 p2 : Nat), s'.finished[(l, r)]? = none →
      Grow s' (F s' p1 p2).1 ∧ (F s' p1 p2).1.finished.size = s'.finished.size + 1)
    (s : St) (stk : Array (Nat × Nat)) (hn : s.finished[(l, r)]? = none)
    (hsz : (F (solve Γ.op (applyRec Γ f') c2.1 c2.2 (solve Γ.op (applyRec Γ f') c1.1 c1.2 s).1).1
      (solve Γ.op (applyRec Γ f') c1.1 c1.2 s).2
      (solve Γ.op (applyRec Γ f') c2.1 c2.2 (solve Γ.op (applyRec Γ f') c1.1 c1.2 s).1).2).1.res.size ≤ U32) :
    ∃ k, runs (cstep Γ) k (ofSt s (stk.push (l, r)))
      (ofSt (F (solve Γ.op (applyRec Γ f') c2.1 c2.2 (solve Γ.op (applyRec Γ f') c1.1 c1.2 s).1).1
        (solve Γ.op (applyRec Γ f') c1.1 c1.2 s).2
        (solve Γ.op (applyRec Γ f') c2.1 c2.2 (solve Γ.op (applyRec Γ f') c1.1 c1.2 s).1).2).1 stk) ∧
      k + 2 + 3 * s.finished.size ≤
        3 * (F (solve Γ.op (applyRec Γ f') c2.1 c2.2 (solve Γ.op (applyRec Γ f') c1.1 c1.2 s).1).1
          (solve Γ.op (applyRec Γ f') c1.1 c1.2 s).2
          (solve Γ.op (applyRec Γ f') c2.1 c2.2 (solve Γ.op (applyRec Γ f') c1.1 c1.2 s).1).2).1.finished.size := by
  have P1 := solve_post Γ (lv Γ l r) f' c1 s hpost hc1
  have P2 := solve_post Γ (lv Γ l r) f' c2 (solve Γ.op (applyRec Γ f') c1.1 c1.2 s).1 hpost hc2
  generalize hr1 : solve Γ.op (applyRec Γ f') c1.1 c1.2 s = r1 at *
  generalize hr2 : solve Γ.op (applyRec Γ f') c2.1 c2.2 r1.1 = r2 at *
  have hn1 : r1.1.finished[(l, r)]? = none := by rw [P1.frame.below l r (by omega)]; exact hn
  have hn2 : r2.1.finished[(l, r)]? = none := parent_none P1.frame P2.frame hn
  have k1 : look Γ.op r2.1.finished c1 = some r1.2 := look_frame P2.frame c1 r1.2 P1.known
  have k2 := P2.known
  obtain ⟨GF, hFs⟩ := hF r2.1 r1.2 r2.2 hn2
  have hsz2 : r2.1.res.size ≤ U32 := Nat.le_trans GF.res hsz
  have hsz1 : r1.1.res.size ≤ U32 := Nat.le_trans P2.grow.res hsz2
  have hlast := hK r2.1 stk r1.2 r2.2 hn2 k1 k2 hsz
  -- the children
  have hmid : ∃ k', runs (cstep Γ) k' (ofSt s (stk.push (l, r))) (ofSt r2.1 (stk.push (l, r))) ∧
      k' + 3 * s.finished.size ≤ 3 * r2.1.finished.size := by
    cases hL1 : look Γ.op s.finished c1 with
    | some p1 =>
      have e1 : r1 = (s, p1) := by rw [← hr1]; exact solve_known Γ _ f' c1 s p1 hc1 hL1
      subst e1
      cases hL2 : look Γ.op s.finished c2 with
      | some p2 =>
        have e2 : r2 = (s, p2) := by rw [← hr2]; exact solve_known Γ _ f' c2 s p2 hc2 hL2
        subst e2
        exact ⟨0, rfl, by simp only; omega⟩
      | none =>
        obtain ⟨hop2, hf2⟩ := look_none hL2
        have hstep := hP s stk hn (Or.inr hL2)
        rw [hL1, hL2] at hstep
        obtain ⟨k2', hk2, _, hcost⟩ := child_run Γ _ f' ih c2 s (stk.push (l, r)) hc2 hop2
          (by rw [hr2]; exact hsz2)
        rw [hr2] at hk2 hcost
        have := hcost hf2
        exact ⟨k2' + 1, by rw [Nat.add_comm]; exact runs_trans (runs_one hstep) hk2, by omega⟩
    | none =>
      obtain ⟨hop1, hf1⟩ := look_none hL1
      cases hL2 : look Γ.op s.finished c2 with
      | some p2 =>
        have hstep := hP s stk hn (Or.inl hL1)
        rw [hL1, hL2] at hstep
        obtain ⟨k1', hk1, _, hcost⟩ := child_run Γ _ f' ih c1 s (stk.push (l, r)) hc1 hop1
          (by rw [hr1]; exact hsz1)
        rw [hr1] at hk1 hcost
        have hc := hcost hf1
        have e2 : r2 = (r1.1, p2) := by
          rw [← hr2]; exact solve_known Γ _ f' c2 r1.1 p2 hc2 (look_frame P1.frame c2 p2 hL2)
        subst e2
        exact ⟨k1' + 1, by rw [Nat.add_comm]; exact runs_trans (runs_one hstep) hk1,
          by show _ + 3 * _ ≤ 3 * r1.1.finished.size; omega⟩
      | none =>
        obtain ⟨hop2, _⟩ := look_none hL2
        have hstep := hP s stk hn (Or.inl hL1)
        rw [hL1, hL2] at hstep
        obtain ⟨k1', hk1, _, hcost1⟩ := child_run Γ _ f' ih c1 s ((stk.push (l, r)).push c2) hc1 hop1
          (by rw [hr1]; exact hsz1)
        rw [hr1] at hk1 hcost1
        have hc1' := hcost1 hf1
        obtain ⟨k2', hk2, hcost2, _⟩ := child_run Γ _ f' ih c2 r1.1 (stk.push (l, r)) hc2 hop2
          (by rw [hr2]; exact hsz2)
        rw [hr2] at hk2 hcost2
        refine ⟨1 + (k1' + k2'), runs_trans (runs_one hstep) (runs_trans hk1 hk2), by omega⟩
  obtain ⟨k', hk', hcost'⟩ := hmid
  exact ⟨k' + 1, runs_trans hk' (runs_one hlast), by omega⟩


/-- SIMULATION THEOREM (all level fuels) -/
theorem sim (Γ : Ctx) (ok : COk Γ) : ∀ f, SIM Γ f := by
  intro f
  induction f with
  | zero => intro l r s stk _ _ h; omega
  | succ f' ih =>
    intro l r s stk hl hr hf hn
    show (applyStep Γ (applyRec Γ f') l r s).1.res.size ≤ U32 →
      ∃ k, runs (cstep Γ) k (ofSt s (stk.push (l, r))) (ofSt (applyStep Γ (applyRec Γ f') l r s).1 stk) ∧
        k + 2 + 3 * s.finished.size ≤ 3 * (applyStep Γ (applyRec Γ f') l r s).1.finished.size
    unfold applyStep
    simp only [hn]
    rw [lv_nodeAt Γ ok l r hl hr]
    have CT := kids_childOK Γ ok l r f' hl hr hf true
    have CF := kids_childOK Γ ok l r f' hl hr hf false
    simp only [sel_true, sel_false] at CT CF
    have hpost := applyRec_post Γ ok f'
    by_cases hfo : Γ.fo = some (lv Γ l r)
    · simp only [hfo, if_true]
      intro hsz
      refine parent_sim Γ f' l r _ _ (fun s' p1 p2 => finish s' l r (lv Γ l r) p1 p2 true) CF CT hpost ih
        ?_ ?_ ?_ s stk hn hsz
      · intro s' stk' p1 p2 h0 h1 h2 h3
        have := cstep_known Γ ok s' stk' l r hl hr h0 p1 p2 h1 h2
        simp only [hfo, decide_true] at this
        exact this h3
      · intro s' stk' h0 hu
        have := cstep_push Γ ok s' stk' l r hl hr h0 hu
        simp only [hfo, if_true] at this
        exact this
      · intro s' p1 p2 h0
        exact finish_grow s' l r _ p1 p2 true h0
    · simp only [hfo, if_false]
      intro hsz
      refine parent_sim Γ f' l r _ _ (fun s' p1 p2 => finish s' l r (lv Γ l r) p2 p1 false) CT CF hpost ih
        ?_ ?_ ?_ s stk hn hsz
      · intro s' stk' p1 p2 h0 h1 h2 h3
        have := cstep_known Γ ok s' stk' l r hl hr h0 p2 p1 h2 h1
        simp only [hfo, decide_false] at this
        exact this h3
      · intro s' stk' h0 hu
        have := cstep_push Γ ok s' stk' l r hl hr h0 hu.symm
        simp only [hfo, if_false] at this
        exact this
      · intro s' p1 p2 h0
        exact finish_grow s' l r _ p2 p1 false h0

end B.AlgoEqA
