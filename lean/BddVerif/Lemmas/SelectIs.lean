import BddVerif.Lemmas.SelectWalk
/-!
C11: `is_clause` holds exactly for single cubes, `is_valuation` exactly for single valuations.
-/
namespace B.Select
open B

/-- `w` satisfies the partial assignment `c` -/
def SatC (c : Nat → Option Bool) (w : Nat → Bool) : Prop := ∀ k b, c k = some b → w k = b

/-- the function of pointer `p` is a (satisfiable) cube -/
def IsCubeAt (A : Arr) (p : Nat) : Prop := ∃ c : Nat → Option Bool, ∀ w, ev A w p = true ↔ SatC c w

theorem satC_self (c : Nat → Option Bool) : SatC c (fun k => (c k).getD false) := by
  intro k b hk; simp [hk]

theorem not_cube_zero (A : Arr) : ¬ IsCubeAt A 0 := by
  rintro ⟨c, hc⟩
  have := (hc _).mpr (satC_self c)
  rw [ev_zero] at this
  cases this

/-- value of a decision node under a valuation updated at the node's own variable -/
theorem ev_upd_node {A : Arr} {n : Nat} (h : Can A n) {p : Nat} {nd : Node} (hp2 : 2 ≤ p)
    (hnd : A[p]? = some nd) (w : Nat → Bool) (b : Bool) :
    ev A (upd w nd.var b) p = ev A w (if b then nd.high else nd.low) := by
  obtain ⟨_, hl, hh, _, hvl, hvh, hps⟩ := h.node hp2 hnd
  rw [ev_node h.red _ p hp2 nd hnd]
  cases b
  · simp only [upd, if_true, Bool.false_eq_true, if_false]
    exact ev_upd h.red nd.low (by omega) w nd.var false hvl
  · simp only [upd, if_true]
    exact ev_upd h.red nd.high (by omega) w nd.var true hvh

/-- if the other child is the zero terminal, a cube at the node gives a cube at the child -/
theorem cube_child {A : Arr} {n : Nat} (h : Can A n) {p : Nat} {nd : Node} (hp2 : 2 ≤ p)
    (hnd : A[p]? = some nd) (b : Bool) (hother : (if b then nd.low else nd.high) = 0)
    (hcube : IsCubeAt A p) : IsCubeAt A (if b then nd.high else nd.low) := by
  obtain ⟨_, hl, hh, hne, _, _, hps⟩ := h.node hp2 hnd
  obtain ⟨c, hc⟩ := hcube
  have hcs : (if b then nd.high else nd.low) < A.size := by cases b <;> simp <;> omega
  have hc0 : (if b then nd.high else nd.low) ≠ 0 := by cases b <;> simp at hother ⊢ <;> omega
  obtain ⟨w0, hw0⟩ := sat_of_ne_zero h.red hcs hc0
  have hx : ∀ b', c nd.var = some b' → b' = b := by
    intro b' hb'
    have := (hc (upd w0 nd.var b)).mp (by rw [ev_upd_node h hp2 hnd]; exact hw0) nd.var b' hb'
    simpa [upd] using this.symm
  refine ⟨fun k => if k = nd.var then none else c k, ?_⟩
  intro w
  rw [← ev_upd_node h hp2 hnd w b, hc]
  constructor
  · intro hs k b' hk
    by_cases hkx : k = nd.var
    · simp [hkx] at hk
    · simp only [hkx, if_false] at hk
      have := hs k b' hk
      simpa [upd, hkx] using this
  · intro hs k b' hk
    by_cases hkx : k = nd.var
    · subst hkx; simp [upd, hx b' hk]
    · have := hs k b' (by simp [hkx, hk])
      simpa [upd, hkx] using this

/-- a node with two non-zero children is not a cube -/
theorem not_cube_branch {A : Arr} {n : Nat} (h : Can A n) {p : Nat} {nd : Node} (hp2 : 2 ≤ p)
    (hnd : A[p]? = some nd) (hl0 : nd.low ≠ 0) (hh0 : nd.high ≠ 0) : ¬ IsCubeAt A p := by
  obtain ⟨_, hl, hh, hne, _, _, hps⟩ := h.node hp2 hnd
  rintro ⟨c, hc⟩
  obtain ⟨w1, hw1⟩ := sat_of_ne_zero h.red (show nd.low < A.size by omega) hl0
  obtain ⟨w2, hw2⟩ := sat_of_ne_zero h.red (show nd.high < A.size by omega) hh0
  have hx : c nd.var = none := by
    cases hcx : c nd.var with
    | none => rfl
    | some b' =>
      have e1 := (hc (upd w1 nd.var false)).mp (by rw [ev_upd_node h hp2 hnd]; exact hw1) nd.var b' hcx
      have e2 := (hc (upd w2 nd.var true)).mp (by rw [ev_upd_node h hp2 hnd]; exact hw2) nd.var b' hcx
      simp [upd] at e1 e2
      rw [e1] at e2; cases e2
  obtain ⟨w, hw⟩ := separated h.red (show nd.low < A.size by omega) (show nd.high < A.size by omega) hne
  have hiff : SatC c (upd w nd.var false) ↔ SatC c (upd w nd.var true) := by
    constructor <;> intro hs k b' hk <;> have := hs k b' hk <;>
      (by_cases hkx : k = nd.var
       · subst hkx; rw [hx] at hk; cases hk
       · simpa [upd, hkx] using this)
  rw [← hc, ← hc, ev_upd_node h hp2 hnd, ev_upd_node h hp2 hnd] at hiff
  simp only [Bool.false_eq_true, if_false, if_true] at hiff
  apply hw
  cases h1 : ev A w nd.low <;> cases h2 : ev A w nd.high <;> simp_all

theorem isClauseLoop_spec {A : Arr} {n : Nat} (h : Can A n) :
    ∀ (fuel p : Nat), p < fuel → p < A.size →
      ∃ b, isClauseLoop A fuel p = some b ∧
        (b = true → ∃ ds, IsPath A p ds 1 ∧ ∀ w, ev A w p = true ↔ Follows w ds) ∧
        (b = false → ¬ IsCubeAt A p) := by
  intro fuel
  induction fuel with
  | zero => intro p h1; omega
  | succ fuel ih =>
    intro p hpf hps
    by_cases hp1 : p = 1
    · subst hp1
      refine ⟨true, by simp [isClauseLoop], ?_, by simp⟩
      intro _
      refine ⟨[], rfl, ?_⟩
      intro w; simp [ev_one, Follows]
    by_cases hp0 : p = 0
    · subst hp0
      exact ⟨false, by simp [isClauseLoop], by simp, fun _ => not_cube_zero A⟩
    have hp2 : 2 ≤ p := by omega
    obtain ⟨nd, hnd⟩ : ∃ nd, A[p]? = some nd := ⟨A[p], by simp [hps]⟩
    obtain ⟨_, hl, hh, hne, _, _, _⟩ := h.node hp2 hnd
    by_cases hl0 : nd.low = 0
    · obtain ⟨b, hb, ht, hf⟩ := ih nd.high (by omega) (by omega)
      refine ⟨b, by simp [isClauseLoop, hp1, hp0, hnd, hl0, hb], ?_, ?_⟩
      · intro hbt
        obtain ⟨ds, hpath, hiff⟩ := ht hbt
        refine ⟨(nd.var, true) :: ds, ⟨hp2, nd, hnd, rfl, hpath⟩, ?_⟩
        intro w
        rw [ev_node h.red w p hp2 nd hnd]
        cases hwx : w nd.var
        · simp only [Bool.false_eq_true, if_false, hl0, ev_zero, false_iff]
          intro hfw
          have := hfw (nd.var, true) (List.mem_cons_self ..)
          simp [hwx] at this
        · simp only [if_true, hiff w]
          constructor
          · intro hfw d hd
            rcases List.mem_cons.mp hd with rfl | hd
            · exact hwx
            · exact hfw d hd
          · intro hfw d hd
            exact hfw d (List.mem_cons_of_mem _ hd)
      · intro hbf hcube
        exact hf hbf (by simpa using cube_child h hp2 hnd true (by simpa using hl0) hcube)
    by_cases hh0 : nd.high = 0
    · obtain ⟨b, hb, ht, hf⟩ := ih nd.low (by omega) (by omega)
      refine ⟨b, by simp [isClauseLoop, hp1, hp0, hnd, hl0, hh0, hb], ?_, ?_⟩
      · intro hbt
        obtain ⟨ds, hpath, hiff⟩ := ht hbt
        refine ⟨(nd.var, false) :: ds, ⟨hp2, nd, hnd, rfl, hpath⟩, ?_⟩
        intro w
        rw [ev_node h.red w p hp2 nd hnd]
        cases hwx : w nd.var
        · simp only [Bool.false_eq_true, if_false, hiff w]
          constructor
          · intro hfw d hd
            rcases List.mem_cons.mp hd with rfl | hd
            · exact hwx
            · exact hfw d hd
          · intro hfw d hd
            exact hfw d (List.mem_cons_of_mem _ hd)
        · simp only [if_true, hh0, ev_zero, Bool.false_eq_true, false_iff]
          intro hfw
          have := hfw (nd.var, false) (List.mem_cons_self ..)
          simp [hwx] at this
      · intro hbf hcube
        exact hf hbf (by simpa using cube_child h hp2 hnd false (by simpa using hh0) hcube)
    · exact ⟨false, by simp [isClauseLoop, hp1, hp0, hnd, hl0, hh0], by simp,
        fun _ => not_cube_branch h hp2 hnd hl0 hh0⟩

theorem follows_iff_lookup {ds : List (Nat × Bool)} (hs : ds.Pairwise (fun a b => a.1 < b.1)) (w : Nat → Bool) :
    Follows w ds ↔ ∀ k b, ds.lookup k = some b → w k = b := by
  constructor
  · intro hf k b hk
    exact hf (k, b) (mem_of_lookup hk)
  · intro hl d hd
    exact hl d.1 d.2 (lookup_of_mem hs hd)

theorem is_clause_spec {A : Arr} {n : Nat} (h : Can A n) :
    ∃ b, isClause A = some b ∧
      (b = true ↔ ∃ c : Clause, ∀ w : Nat → Bool, den A w = true ↔ ∀ k v, getC c k = some v → w k = v) := by
  obtain ⟨b, hb, ht, hf⟩ := isClauseLoop_spec h A.size (root A) (by have := h.size2; unfold root; omega) h.root_lt
  refine ⟨b, hb, ?_, ?_⟩
  · intro hbt
    obtain ⟨ds, hpath, hiff⟩ := ht hbt
    obtain ⟨hs, _, _, _⟩ := path_sorted h ds _ 1 hpath h.root_lt
    refine ⟨foldC ds, ?_⟩
    intro w
    unfold den
    rw [hiff w, follows_iff_lookup hs]
    simp only [getC_foldC hs]
  · rintro ⟨c, hc⟩
    cases b with
    | true => rfl
    | false => exact absurd ⟨fun k => getC c k, hc⟩ (hf rfl)

/-! ### `is_valuation` -/

/-- exactly one assignment of the variables `e, …, n-1` satisfies pointer `p` -/
def SingleAt (A : Arr) (n p e : Nat) : Prop :=
  ∃ u : Nat → Bool, ∀ w, ev A w p = true ↔ ∀ k, e ≤ k → k < n → w k = u k

theorem isValuationLoop_spec {A : Arr} {n : Nat} (h : Can A n) :
    ∀ (fuel p e : Nat), p < fuel → p < A.size → e ≤ varOf A n p →
      ∃ b, isValuationLoop A fuel p e = some b ∧ (b = true ↔ SingleAt A n p e) := by
  intro fuel
  induction fuel with
  | zero => intro p e h1; omega
  | succ fuel ih =>
    intro p e hpf hps hev
    by_cases hp1 : p = 1
    · subst hp1
      have hvn : e ≤ n := by simpa [varOf] using hev
      refine ⟨n == e, by simp [isValuationLoop, h.one], ?_⟩
      constructor
      · intro hne
        have : n = e := by simpa using hne
        exact ⟨fun _ => false, fun w => by simp [ev_one]; intro k h1 h2; omega⟩
      · rintro ⟨u, hu⟩
        simp only [beq_iff_eq]
        apply Classical.byContradiction
        intro hne
        have := (hu (fun k => !u k)).mp (ev_one A _) e (Nat.le_refl _) (by omega)
        simp at this
    by_cases hp0 : p = 0
    · subst hp0
      refine ⟨false, by simp [isValuationLoop], ?_⟩
      constructor
      · intro hc; cases hc
      · rintro ⟨u, hu⟩
        have := (hu u).mpr (fun _ _ _ => rfl)
        rw [ev_zero] at this; cases this
    have hp2 : 2 ≤ p := by omega
    obtain ⟨nd, hnd⟩ : ∃ nd, A[p]? = some nd := ⟨A[p], by simp [hps]⟩
    obtain ⟨hvn, hl, hh, hne, hvl, hvh, _⟩ := h.node hp2 hnd
    have hvp : varOf A n p = nd.var := varOf_node p nd hp2 hnd
    by_cases hve : nd.var = e
    · subst hve
      by_cases hl0 : nd.low = 0
      · have hh0 : nd.high ≠ 0 := by omega
        obtain ⟨b, hb, hiff⟩ := ih nd.high (nd.var + 1) (by omega) (by omega) (by omega)
        refine ⟨b, by simp [isValuationLoop, hp1, hp0, hnd, hl0, hb], ?_⟩
        rw [hiff]
        constructor
        · rintro ⟨u', hu'⟩
          refine ⟨upd u' nd.var true, ?_⟩
          intro w
          rw [ev_node h.red w p hp2 nd hnd]
          cases hwx : w nd.var
          · simp only [Bool.false_eq_true, if_false, hl0, ev_zero, false_iff]
            intro hall
            have := hall nd.var (Nat.le_refl _) hvn
            simp [upd, hwx] at this
          · simp only [if_true, hu' w]
            constructor
            · intro hall k h1 h2
              by_cases hk : k = nd.var
              · subst hk; simp [upd, hwx]
              · simp only [upd, hk, if_false]; exact hall k (by omega) h2
            · intro hall k h1 h2
              have := hall k (by omega) h2
              have hk : k ≠ nd.var := by omega
              simpa [upd, hk] using this
        · rintro ⟨u, hu⟩
          obtain ⟨w0, hw0⟩ := sat_of_ne_zero h.red (show nd.high < A.size by omega) hh0
          have hux : u nd.var = true := by
            have := (hu (upd w0 nd.var true)).mp (by rw [ev_upd_node h hp2 hnd]; simpa using hw0)
              nd.var (Nat.le_refl _) hvn
            simpa [upd] using this.symm
          refine ⟨u, ?_⟩
          intro w
          have e1 := ev_upd_node h hp2 hnd w true
          simp only [if_true] at e1
          rw [← e1, hu]
          constructor
          · intro hall k h1 h2
            have := hall k (by omega) h2
            have hk : k ≠ nd.var := by omega
            simpa [upd, hk] using this
          · intro hall k h1 h2
            by_cases hk : k = nd.var
            · subst hk; simp [upd, hux]
            · simp only [upd, hk, if_false]; exact hall k (by omega) h2
      by_cases hh0 : nd.high = 0
      · obtain ⟨b, hb, hiff⟩ := ih nd.low (nd.var + 1) (by omega) (by omega) (by omega)
        refine ⟨b, by simp [isValuationLoop, hp1, hp0, hnd, hl0, hh0, hb], ?_⟩
        rw [hiff]
        constructor
        · rintro ⟨u', hu'⟩
          refine ⟨upd u' nd.var false, ?_⟩
          intro w
          rw [ev_node h.red w p hp2 nd hnd]
          cases hwx : w nd.var
          · simp only [Bool.false_eq_true, if_false, hu' w]
            constructor
            · intro hall k h1 h2
              by_cases hk : k = nd.var
              · subst hk; simp [upd, hwx]
              · simp only [upd, hk, if_false]; exact hall k (by omega) h2
            · intro hall k h1 h2
              have := hall k (by omega) h2
              have hk : k ≠ nd.var := by omega
              simpa [upd, hk] using this
          · simp only [if_true, hh0, ev_zero, Bool.false_eq_true, false_iff]
            intro hall
            have := hall nd.var (Nat.le_refl _) hvn
            simp [upd, hwx] at this
        · rintro ⟨u, hu⟩
          obtain ⟨w0, hw0⟩ := sat_of_ne_zero h.red (show nd.low < A.size by omega) hl0
          have hux : u nd.var = false := by
            have := (hu (upd w0 nd.var false)).mp (by rw [ev_upd_node h hp2 hnd]; simpa using hw0)
              nd.var (Nat.le_refl _) hvn
            simpa [upd] using this.symm
          refine ⟨u, ?_⟩
          intro w
          have e1 := ev_upd_node h hp2 hnd w false
          simp only [Bool.false_eq_true, if_false] at e1
          rw [← e1, hu]
          constructor
          · intro hall k h1 h2
            have := hall k (by omega) h2
            have hk : k ≠ nd.var := by omega
            simpa [upd, hk] using this
          · intro hall k h1 h2
            by_cases hk : k = nd.var
            · subst hk; simp [upd, hux]
            · simp only [upd, hk, if_false]; exact hall k (by omega) h2
      · refine ⟨false, by simp [isValuationLoop, hp1, hp0, hnd, hl0, hh0], ?_⟩
        constructor
        · intro hc; cases hc
        · rintro ⟨u, hu⟩
          exfalso
          obtain ⟨w1, hw1⟩ := sat_of_ne_zero h.red (show nd.low < A.size by omega) hl0
          obtain ⟨w2, hw2⟩ := sat_of_ne_zero h.red (show nd.high < A.size by omega) hh0
          have e1 := (hu (upd w1 nd.var false)).mp (by rw [ev_upd_node h hp2 hnd]; simpa using hw1)
            nd.var (Nat.le_refl _) hvn
          have e2 := (hu (upd w2 nd.var true)).mp (by rw [ev_upd_node h hp2 hnd]; simpa using hw2)
            nd.var (Nat.le_refl _) hvn
          simp [upd] at e1 e2
          rw [e1] at e2; cases e2
    · -- the expected variable is skipped above this node
      refine ⟨false, by simp [isValuationLoop, hp1, hp0, hnd, hve], ?_⟩
      constructor
      · intro hc; cases hc
      · rintro ⟨u, hu⟩
        exfalso
        obtain ⟨w0, hw0⟩ := sat_of_ne_zero h.red hps hp0
        have hlt : e < varOf A n p := by omega
        have e1 := (hu w0).mp hw0 e (Nat.le_refl _) (by omega)
        have e2 := (hu (upd w0 e (!w0 e))).mp (by rw [ev_upd h.red p hps w0 e _ hlt]; exact hw0)
          e (Nat.le_refl _) (by omega)
        simp [upd] at e2
        rw [← e1] at e2
        cases hw : w0 e <;> simp [hw] at e2

theorem is_valuation_spec {A : Arr} {n : Nat} (h : Can A n) :
    ∃ b, isValuation A = some b ∧
      (b = true ↔ ∃ u : List Bool, u.length = n ∧ ∀ w : Nat → Bool, den A w = true ↔ ∀ k, k < n → w k = fn u k) := by
  obtain ⟨b, hb, hiff⟩ := isValuationLoop_spec h A.size (root A) 0
    (by have := h.size2; unfold root; omega) h.root_lt (Nat.zero_le _)
  refine ⟨b, hb, ?_⟩
  rw [hiff]
  constructor
  · rintro ⟨u, hu⟩
    refine ⟨(List.range n).map u, by simp, ?_⟩
    intro w
    unfold den
    rw [hu w]
    constructor
    · intro hall k hk
      rw [hall k (Nat.zero_le _) hk]
      simp [fn, List.getD, hk]
    · intro hall k _ hk
      rw [hall k hk]
      simp [fn, List.getD, hk]
  · rintro ⟨u, _, hu⟩
    refine ⟨fn u, ?_⟩
    intro w
    have := hu w
    unfold den at this
    rw [this]
    constructor
    · intro hall k _ hk; exact hall k hk
    · intro hall k hk; exact hall k (Nat.zero_le _) hk

end B.Select
