import BddVerif.Lemmas.AlgoEqUtilSpec
/-! Axiom audit of the equivalence theorems "translated `_impl_util.rs` / `_impl_bdd_valuation.rs` function = hand model"
(`Lemmas/AlgoEqUtil*.lean`). Expected: `propext`, `Classical.choice`, `Quot.sound` only. -/
open B.AlgoEqUtil

-- plumbing
#print axioms forIn_range_eq_iter
#print axioms forIn_range_eq_iterL
#print axioms forIn_array_eq_iterL
-- not
#print axioms not_desugar
#print axioms Bdd_not_eq_model
#print axioms Bdd_not_canon
#print axioms Bdd_not_den
#print axioms Bdd_not_canonical
-- is_clause / is_valuation / sat_witness
#print axioms is_clause_desugar
#print axioms Bdd_is_clause_eq_loop
#print axioms Bdd_is_clause_eq_model
#print axioms Bdd_is_clause_none
#print axioms Bdd_is_clause_empty
#print axioms Bdd_is_clause_eq_model_driver
#print axioms Bdd_is_clause_spec
#print axioms is_valuation_desugar
#print axioms Bdd_is_valuation_eq_loop
#print axioms Bdd_is_valuation_eq_model
#print axioms Bdd_is_valuation_none
#print axioms Bdd_is_valuation_empty
#print axioms Bdd_is_valuation_eq_model_driver
#print axioms Bdd_is_valuation_spec
#print axioms sat_witness_desugar
#print axioms Bdd_sat_witness_eq_model
#print axioms Bdd_sat_witness_empty
#print axioms Bdd_sat_witness_spec
-- eval_in
#print axioms eval_in_desugar
#print axioms Bdd_eval_in_eq_model
#print axioms Bdd_eval_in_of_model
#print axioms Bdd_eval_in_spec
#print axioms Bdd_eval_in_eq_model_driver
-- support_set
#print axioms support_set_desugar
#print axioms Bdd_support_set_eq_model
#print axioms Bdd_support_set_spec
#print axioms Bdd_support_set_exact
-- from_nodes
#print axioms Bdd_from_nodes_eq_model
#print axioms Bdd_from_nodes_ok_iff
#print axioms Bdd_from_nodes_err_iff
#print axioms Bdd_from_nodes_spec
#print axioms Bdd_from_nodes_total
-- validate
#print axioms dfs_sim
#print axioms Bdd_validate_rel
#print axioms Bdd_validate_eq_model
#print axioms Bdd_validate_ok_iff
#print axioms Bdd_validate_err_iff
#print axioms Bdd_validate_total
#print axioms Bdd_validate_eq_model_driver
#print axioms Bdd_validate_spec
-- exact_cardinality / exact_clause_cardinality
#print axioms process
#print axioms run_loop
#print axioms clause_card_desugar
#print axioms exact_card_desugar
#print axioms ccStep_ok
#print axioms ecStep_ok
#print axioms Bdd_exact_cardinality_val
#print axioms Bdd_exact_clause_cardinality_val
#print axioms Bdd_exact_cardinality_eq_model
#print axioms Bdd_exact_clause_cardinality_eq_model
#print axioms Bdd_exact_cardinality_eq_model_driver
#print axioms Bdd_exact_clause_cardinality_eq_model_driver
#print axioms Bdd_exact_cardinality_spec
#print axioms Bdd_exact_clause_cardinality_spec
