import BddVerif.Lemmas.AlgoEq2VarSetSat
import BddVerif.Drive.Algo2
/-!
# The `AlgoEq2VarSet*` theorems with the exact arguments of the replay driver (`Drive/Algo2.lean`)

Streams `C16.exactly` / `C16.upto` (`anonSet n`, fuel `fuelSat n k`), `C10.conj` / `C10.disj`.
-/
namespace B.AlgoEq2VS
open B B.Gen B.AlgoEqUtil B.AlgoEq2Ren Std

attribute [local instance 10000] Rust.monadOutcomeInline

/-- the driver's set `anonSet n` is the translated `new_anonymous(n)`: for `n < 65534` a set with `n` variables -/
theorem anonSet_ok (n : Nat) (hn : n < 65534) : ∃ T, Drive.Algo2.anonSet n = .ok T ∧ T.1 = n := by
  obtain ⟨T, h1, hs⟩ := new_anonymous_ok n hn
  exact ⟨T, h1, by rw [hs.count]; simp⟩

/-- `C16.exactly` as the driver runs it: fuel `fuelSat n k` suffices as soon as no operand of an `apply` of the
    model's run exceeds `(n+2)·(k+2)` nodes (the side condition `ExactlyOK`; see `AlgoEq2VarSetSat.lean` for why it
    is a hypothesis) -/
theorem mk_sat_exactly_k_eq_model_driver (n k : Nat) (vars : List Nat) (hn : n < 65534) (hv : ∀ x ∈ vars, x < n)
    (h32 : ((n + 2) * (k + 2)) * ((n + 2) * (k + 2)) + 2 ≤ 2 ^ 32)
    (hok : ExactlyOK n ((n + 2) * (k + 2)) vars k (clauseArr n (VS.allFalse vars).toValues)) :
    ∃ T, Drive.Algo2.anonSet n = .ok T ∧
      Algo2.BddVariableSet_mk_sat_exactly_k (Drive.Algo2.fuelSat n k) T k vars.toArray = VS.mkSatExactlyK n k vars := by
  obtain ⟨T, h1, h2⟩ := anonSet_ok n hn
  refine ⟨T, h1, ?_⟩
  subst h2
  have hM : 3 ≤ (T.1 + 2) * (k + 2) := by
    have : 2 * 2 ≤ (T.1 + 2) * (k + 2) := Nat.mul_le_mul (by omega) (by omega)
    omega
  exact mk_sat_exactly_k_eq_model _ T k vars.toArray (by omega) (by simpa using hv) ((T.1 + 2) * (k + 2)) hM h32
    (by unfold Drive.Algo2.fuelSat
        have : (T.1 + 2) * (k + 2) * (T.1 + 2) * (k + 2) = (T.1 + 2) * (k + 2) * ((T.1 + 2) * (k + 2)) := by
          rw [Nat.mul_assoc ((T.1 + 2) * (k + 2))]
        omega)
    (by simpa using hok)

theorem mk_sat_up_to_k_eq_model_driver (n k : Nat) (vars : List Nat) (hn : n < 65534) (hv : ∀ x ∈ vars, x < n)
    (h32 : ((n + 2) * (k + 2)) * ((n + 2) * (k + 2)) + 2 ≤ 2 ^ 32)
    (hok : UpToOK n ((n + 2) * (k + 2)) vars k (clauseArr n (VS.allFalse vars).toValues)) :
    ∃ T, Drive.Algo2.anonSet n = .ok T ∧
      Algo2.BddVariableSet_mk_sat_up_to_k (Drive.Algo2.fuelSat n k) T k vars.toArray = VS.mkSatUpToK n k vars := by
  obtain ⟨T, h1, h2⟩ := anonSet_ok n hn
  refine ⟨T, h1, ?_⟩
  subst h2
  have hM : 3 ≤ (T.1 + 2) * (k + 2) := by
    have : 2 * 2 ≤ (T.1 + 2) * (k + 2) := Nat.mul_le_mul (by omega) (by omega)
    omega
  exact mk_sat_up_to_k_eq_model _ T k vars.toArray (by omega) (by simpa using hv) ((T.1 + 2) * (k + 2)) hM h32
    (by unfold Drive.Algo2.fuelSat
        have : (T.1 + 2) * (k + 2) * (T.1 + 2) * (k + 2) = (T.1 + 2) * (k + 2) * ((T.1 + 2) * (k + 2)) := by
          rw [Nat.mul_assoc ((T.1 + 2) * (k + 2))]
        omega)
    (by simpa using hok)

/-- for sets of at most 6 variables the driver's fuel is PROVABLY sufficient, without any side condition -/
theorem mk_sat_k_eq_model_driver_small (n k : Nat) (vars : List Nat) (hn : n ≤ 6) (hv : ∀ x ∈ vars, x < n) :
    ∃ T, Drive.Algo2.anonSet n = .ok T ∧
      Algo2.BddVariableSet_mk_sat_exactly_k (Drive.Algo2.fuelSat n k) T k vars.toArray = VS.mkSatExactlyK n k vars ∧
      Algo2.BddVariableSet_mk_sat_up_to_k (Drive.Algo2.fuelSat n k) T k vars.toArray = VS.mkSatUpToK n k vars := by
  obtain ⟨T, h1, h2⟩ := anonSet_ok n (by omega)
  refine ⟨T, h1, ?_⟩
  subst h2
  have hfuel : 3 * ((2 ^ T.1 + 2) * (2 ^ T.1 + 2)) ≤ Drive.Algo2.fuelSat T.1 k := by
    unfold Drive.Algo2.fuelSat
    have hk : (T.1 + 2) * 2 * (T.1 + 2) * 2 ≤ (T.1 + 2) * (k + 2) * (T.1 + 2) * (k + 2) :=
      Nat.mul_le_mul (Nat.mul_le_mul (Nat.mul_le_mul (Nat.le_refl _) (by omega)) (Nat.le_refl _)) (by omega)
    generalize (T.1 + 2) * (k + 2) * (T.1 + 2) * (k + 2) = Q at hk ⊢
    have : T.1 = 0 ∨ T.1 = 1 ∨ T.1 = 2 ∨ T.1 = 3 ∨ T.1 = 4 ∨ T.1 = 5 ∨ T.1 = 6 := by omega
    rcases this with h | h | h | h | h | h | h <;> rw [h] at hk ⊢ <;> omega
  exact ⟨mk_sat_exactly_k_eq_model_small _ T k vars.toArray (by omega) (by simpa using hv) hfuel,
    mk_sat_up_to_k_eq_model_small _ T k vars.toArray (by omega) (by simpa using hv) hfuel⟩

/-- `C10.conj` / `C10.disj` as the driver runs them -/
theorem mk_clause_rel_driver (n : Nat) (c : Array (Option Bool)) (hn : n < 65534) :
    ∃ T, Drive.Algo2.anonSet n = .ok T ∧
      RelK (Algo2.BddVariableSet_mk_conjunctive_clause T c) (NF.mkConjClause n c.toList) ∧
      RelK (Algo2.BddVariableSet_mk_disjunctive_clause T c) (NF.mkDisjClause n c.toList) := by
  obtain ⟨T, h1, h2⟩ := anonSet_ok n hn
  subst h2
  exact ⟨T, h1, mk_conjunctive_clause_rel T c (by omega), mk_disjunctive_clause_rel T c (by omega)⟩

/-- a set of 65534 or more variables: the driver's `anonSet` panics, as does the hand model -/
theorem anonSet_panic (n : Nat) (hn : 65534 ≤ n) : ∃ m, Drive.Algo2.anonSet n = .panic m := new_anonymous_panic n hn

end B.AlgoEq2VS
