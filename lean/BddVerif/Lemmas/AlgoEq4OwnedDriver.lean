import BddVerif.Lemmas.AlgoEq4OwnedChain
import BddVerif.Lemmas.AlgoEq3SatDriver
import BddVerif.Drive.Algo4
/-!
Corollaries for the driver of the fourth batch (`Drive/Algo4.lean`, key `C08.owned`): its loops `takeVals` / `takePaths`
are `takeK` (with `some k`) resp. `collect` (with `none`) of the translated owned `next`, and with the fuel
`fuelVals A = 8 · (size + numVars + 8)` that it passes to every owned function the four replayed quantities are
`satSpec A`, `paths A (root A) []`, and (the Bdd `A` itself, the first `k` items).
(This file uses the ordinary `Monad Outcome` instance, like `Drive/Algo4.lean`.)
-/
namespace B.AlgoEq4
open B B.Gen B.Gen.Algo B.Gen.Algo3 B.Gen.Algo4 B.Iter B.AlgoEqIt B.AlgoEq3Sat B.Drive.Algo3 B.Drive.Algo4

section
variable {σ α : Type}

/-- after the driver's taking loop: `k = none` insists on exhaustion -/
def takePost (isNone : Bool) (s : σ × List α × Bool) : Outcome (List α × σ) :=
  if isNone && !s.2.2 then .panic "fuel" else .ok (s.2.1.reverse, s.1)

theorem takeLoop_eq (step : σ → Outcome (Option α × σ)) : ∀ (k a : Nat) (it : σ) (acc : List α),
    (forIn (List.range' a k) (it, acc, false) (fun _ s => drvStep step s) >>= takePost false) =
      (takeK step k it).map (fun x => (acc.reverse ++ x.1, x.2)) := by
  intro k
  induction k with
  | zero =>
    intro a it acc
    show Outcome.ok (acc.reverse, it) = Outcome.ok (acc.reverse ++ [], it)
    rw [List.append_nil]
  | succ k ih =>
    intro a it acc
    rw [List.range'_succ, List.forIn_cons]
    unfold takeK drvStep
    cases hs : step it with
    | err m => rfl
    | panic m => rfl
    | ok r =>
      obtain ⟨o, it'⟩ := r
      cases o with
      | none =>
        show Outcome.ok (acc.reverse, it') = Outcome.ok (acc.reverse ++ [], it')
        rw [List.append_nil]
      | some c =>
        show (forIn (List.range' (a + 1) k) (it', c :: acc, false) (fun _ s => drvStep step s) >>= takePost false) = _
        rw [ih (a + 1) it' (c :: acc)]
        cases hc : takeK step k it' <;> simp [Outcome.map, hc]

theorem takePost_true_fst (s : σ × List α × Bool) :
    (takePost true s >>= fun x => Outcome.ok x.1) = drvPost s := by
  unfold takePost drvPost
  cases s.2.2 <;> rfl
end

theorem map_id' {α} (o : Outcome (List α × σ)) : o.map (fun x => (([] : List α).reverse ++ x.1, x.2)) = o := by
  cases o <;> simp [Outcome.map]

/-- the driver's `takeVals … (some k) _` is `takeK` of the translated owned `next` -/
theorem takeVals_some (f : Nat) (it : OwnedVals) (k limit : Nat) :
    takeVals f it (some k) limit = takeK (OwnedBddSatisfyingValuations_next f) k it := by
  unfold takeVals
  simp only [Std.Legacy.Range.forIn_eq_forIn_range', Std.Legacy.Range.size, Option.getD_some]
  have e : (k - 0 + 1 - 1) / 1 = k := by simp
  rw [e]
  have key : ∀ (body : Nat → OwnedVals × List (Array Bool) × Bool → Outcome (ForInStep (OwnedVals × List (Array Bool) × Bool))),
      (∀ x s, body x s = drvStep (OwnedBddSatisfyingValuations_next f) s) →
      forIn (List.range' 0 k) (it, ([] : List (Array Bool)), false) body =
        forIn (List.range' 0 k) (it, [], false) (fun _ s => drvStep (OwnedBddSatisfyingValuations_next f) s) := by
    intro body hb
    have : body = fun _ s => drvStep (OwnedBddSatisfyingValuations_next f) s := funext fun x => funext fun s => hb x s
    rw [this]
  rw [key]
  · have := takeLoop_eq (OwnedBddSatisfyingValuations_next f) k 0 it []
    rw [map_id'] at this
    rw [← this]
    apply outcome_bind_congr
    intro s
    rfl
  · intro x s
    unfold drvStep
    cases OwnedBddSatisfyingValuations_next f s.fst with
    | err m => rfl
    | panic m => rfl
    | ok r =>
      obtain ⟨o, it'⟩ := r
      cases o <;> rfl

/-- the driver's `takePaths … (some k) _` is `takeK` of the translated owned `next` -/
theorem takePaths_some (f : Nat) (it : OwnedPaths) (k limit : Nat) :
    takePaths f it (some k) limit = takeK (OwnedBddPathIterator_next f) k it := by
  unfold takePaths
  simp only [Std.Legacy.Range.forIn_eq_forIn_range', Std.Legacy.Range.size, Option.getD_some]
  have e : (k - 0 + 1 - 1) / 1 = k := by simp
  rw [e]
  have key : ∀ (body : Nat → OwnedPaths × List (Array (Option Bool)) × Bool →
        Outcome (ForInStep (OwnedPaths × List (Array (Option Bool)) × Bool))),
      (∀ x s, body x s = drvStep (OwnedBddPathIterator_next f) s) →
      forIn (List.range' 0 k) (it, ([] : List (Array (Option Bool))), false) body =
        forIn (List.range' 0 k) (it, [], false) (fun _ s => drvStep (OwnedBddPathIterator_next f) s) := by
    intro body hb
    have : body = fun _ s => drvStep (OwnedBddPathIterator_next f) s := funext fun x => funext fun s => hb x s
    rw [this]
  rw [key]
  · have := takeLoop_eq (OwnedBddPathIterator_next f) k 0 it []
    rw [map_id'] at this
    rw [← this]
    apply outcome_bind_congr
    intro s
    rfl
  · intro x s
    unfold drvStep
    cases OwnedBddPathIterator_next f s.fst with
    | err m => rfl
    | panic m => rfl
    | ok r =>
      obtain ⟨o, it'⟩ := r
      cases o <;> rfl

/-- the driver's `takeVals … none limit`, items only, is `collect` of the translated owned `next` with `limit + 1`
    calls -/
theorem takeVals_none (f : Nat) (it : OwnedVals) (limit : Nat) :
    (do let (l, _) ← takeVals f it none limit; pure l) = collect (OwnedBddSatisfyingValuations_next f) (limit + 1) it := by
  unfold takeVals
  simp only [Std.Legacy.Range.forIn_eq_forIn_range', Std.Legacy.Range.size, Option.getD_none]
  have e : (limit + 1 - 0 + 1 - 1) / 1 = limit + 1 := by simp
  rw [e]
  have key : ∀ (body : Nat → OwnedVals × List (Array Bool) × Bool → Outcome (ForInStep (OwnedVals × List (Array Bool) × Bool))),
      (∀ x s, body x s = drvStep (OwnedBddSatisfyingValuations_next f) s) →
      forIn (List.range' 0 (limit + 1)) (it, ([] : List (Array Bool)), false) body =
        forIn (List.range' 0 (limit + 1)) (it, [], false) (fun _ s => drvStep (OwnedBddSatisfyingValuations_next f) s) := by
    intro body hb
    have : body = fun _ s => drvStep (OwnedBddSatisfyingValuations_next f) s := funext fun x => funext fun s => hb x s
    rw [this]
  rw [key]
  · have := drvLoop_eq (OwnedBddSatisfyingValuations_next f) (limit + 1) 0 it []
    simp only [List.reverse_nil, List.nil_append] at this
    have hid : ∀ (o : Outcome (List (Array Bool))), o.map (fun l => l) = o := by
      intro o; cases o <;> rfl
    rw [hid] at this
    rw [← this]
    generalize forIn (List.range' 0 (limit + 1)) (it, ([] : List (Array Bool)), false)
      (fun _ s => drvStep (OwnedBddSatisfyingValuations_next f) s) = X
    cases X with
    | err m => rfl
    | panic m => rfl
    | ok s =>
      obtain ⟨it', acc, fin⟩ := s
      cases fin <;> rfl
  · intro x s
    unfold drvStep
    cases OwnedBddSatisfyingValuations_next f s.fst with
    | err m => rfl
    | panic m => rfl
    | ok r =>
      obtain ⟨o, it'⟩ := r
      cases o <;> rfl

theorem takePaths_none (f : Nat) (it : OwnedPaths) (limit : Nat) :
    (do let (l, _) ← takePaths f it none limit; pure l) = collect (OwnedBddPathIterator_next f) (limit + 1) it := by
  unfold takePaths
  simp only [Std.Legacy.Range.forIn_eq_forIn_range', Std.Legacy.Range.size, Option.getD_none]
  have e : (limit + 1 - 0 + 1 - 1) / 1 = limit + 1 := by simp
  rw [e]
  have key : ∀ (body : Nat → OwnedPaths × List (Array (Option Bool)) × Bool →
        Outcome (ForInStep (OwnedPaths × List (Array (Option Bool)) × Bool))),
      (∀ x s, body x s = drvStep (OwnedBddPathIterator_next f) s) →
      forIn (List.range' 0 (limit + 1)) (it, ([] : List (Array (Option Bool))), false) body =
        forIn (List.range' 0 (limit + 1)) (it, [], false) (fun _ s => drvStep (OwnedBddPathIterator_next f) s) := by
    intro body hb
    have : body = fun _ s => drvStep (OwnedBddPathIterator_next f) s := funext fun x => funext fun s => hb x s
    rw [this]
  rw [key]
  · have := drvLoop_eq (OwnedBddPathIterator_next f) (limit + 1) 0 it []
    simp only [List.reverse_nil, List.nil_append] at this
    have hid : ∀ (o : Outcome (List (Array (Option Bool)))), o.map (fun l => l) = o := by
      intro o; cases o <;> rfl
    rw [hid] at this
    rw [← this]
    generalize forIn (List.range' 0 (limit + 1)) (it, ([] : List (Array (Option Bool))), false)
      (fun _ s => drvStep (OwnedBddPathIterator_next f) s) = X
    cases X with
    | err m => rfl
    | panic m => rfl
    | ok s =>
      obtain ⟨it', acc, fin⟩ := s
      cases fin <;> rfl
  · intro x s
    unfold drvStep
    cases OwnedBddPathIterator_next f s.fst with
    | err m => rfl
    | panic m => rfl
    | ok r =>
      obtain ⟨o, it'⟩ := r
      cases o <;> rfl

/-! ### the four quantities of a `C08.owned` line, with the driver's fuel `fuelVals A` -/

/-- **driver, `into_sat_valuations().collect()`** -/
theorem owned_vals_driver {A : Arr} {n : Nat} (h : Red A n) (hn : numVars A = n) (hn16 : n < 65536)
    (h32 : A.size ≤ 4294967296) (limit : Nat) (hl : (satSpec A).length ≤ limit) :
    (do let it ← Bdd_into_sat_valuations (fuelVals A) A
        let (l, _) ← takeVals (fuelVals A) it none limit
        pure l) = .ok ((satSpec A).map List.toArray) := by
  obtain ⟨s0, _, hnew, _, hcol, _⟩ :=
    owned_sat_iter_translated h hn hn16 h32 (fuelVals A) (fuelVals_ge A) (limit + 1) (by omega)
  rw [hnew]
  show (do let (l, _) ← takeVals (fuelVals A) (ownSatOf s0) none limit; pure l) = _
  rw [takeVals_none]
  exact hcol

/-- **driver, `OwnedBddPathIterator::from(b).collect()`** -/
theorem owned_paths_driver {A : Arr} {n : Nat} (h : Red A n) (hn : numVars A = n)
    (h32 : A.size ≤ 4294967296) (limit : Nat) (hl : (pathsOf A).length ≤ limit) :
    (do let it ← OwnedBddPathIterator_from (fuelVals A) A
        let (l, _) ← takePaths (fuelVals A) it none limit
        pure l) = .ok ((paths A (root A) []).map List.toArray) ∧
    (paths A (root A) []).map (pvNorm n) = pathsOf A := by
  obtain ⟨s0, _, _, hfrom, _, hcol, _, hnorm⟩ :=
    owned_path_iter_translated h hn h32 (fuelVals A) (fuelVals_ge A) (limit + 1) (by omega)
  refine ⟨?_, hnorm⟩
  rw [hfrom]
  show (do let (l, _) ← takePaths (fuelVals A) (ownPathOf s0) none limit; pure l) = _
  rw [takePaths_none]
  exact hcol

/-- **driver, take `k` valuations then `Bdd::from`**: the Bdd comes back unchanged, with the first `k` of `satSpec A` -/
theorem owned_vals_back_driver {A : Arr} {n : Nat} (h : Red A n) (hn : numVars A = n) (hn16 : n < 65536)
    (h32 : A.size ≤ 4294967296) (k : Nat) :
    (do let it ← OwnedBddSatisfyingValuations_from (fuelVals A) A
        let (l, it') ← takeVals (fuelVals A) it (some k) 0
        let back ← bdd_satisfying_valuations__Bdd_from (fuelVals A) it'
        pure (back, l)) = .ok (A, ((satSpec A).take k).map List.toArray) := by
  obtain ⟨st, st', h1, h2, h3⟩ := owned_sat_take_translated h hn hn16 h32 (fuelVals A) (fuelVals_ge A) k
  rw [h1]
  show (do let (l, it') ← takeVals (fuelVals A) st (some k) 0
           let back ← bdd_satisfying_valuations__Bdd_from (fuelVals A) it'
           pure (back, l)) = _
  rw [takeVals_some, h2]
  show (do let back ← bdd_satisfying_valuations__Bdd_from (fuelVals A) st'; pure (back, _)) = _
  rw [h3]
  rfl

/-- **driver, take `k` clauses then `Bdd::from`** -/
theorem owned_paths_back_driver {A : Arr} {n : Nat} (h : Red A n) (hn : numVars A = n)
    (h32 : A.size ≤ 4294967296) (k : Nat) :
    (do let it ← Bdd_into_sat_clauses (fuelVals A) A
        let (l, it') ← takePaths (fuelVals A) it (some k) 0
        pure (bdd_path_iterator__Bdd_from it', l)) = .ok (A, ((paths A (root A) []).take k).map List.toArray) := by
  obtain ⟨st, st', h1, h2, h3⟩ := owned_path_take_translated h hn h32 (fuelVals A) (fuelVals_ge A) k
  rw [h1]
  show (do let (l, it') ← takePaths (fuelVals A) st (some k) 0
           pure (bdd_path_iterator__Bdd_from it', l)) = _
  rw [takePaths_some, h2]
  show Outcome.ok (bdd_path_iterator__Bdd_from st', _) = _
  rw [h3]

/-- whatever the array (reduced or not) and whatever `k`: if the driver's "take `k`, convert back" run returns at all,
    it returns the array it was given (`owned_returns_bdd_translated`) -/
theorem owned_back_driver_any (A : Arr) (k : Nat) (back : Arr) (l : List (Array Bool))
    (hrun : (do let it ← OwnedBddSatisfyingValuations_from (fuelVals A) A
                let (l, it') ← takeVals (fuelVals A) it (some k) 0
                let back ← bdd_satisfying_valuations__Bdd_from (fuelVals A) it'
                pure (back, l)) = .ok (back, l)) : back = A := by
  obtain ⟨_, _, _, _, hfrom, _, htake⟩ := owned_returns_bdd_translated (fuelVals A) A
  obtain ⟨f', hf'⟩ : ∃ f', fuelVals A = f' + 1 := ⟨fuelVals A - 1, by have := fuelVals_ge A; omega⟩
  cases h1 : OwnedBddSatisfyingValuations_from (fuelVals A) A with
  | err m => rw [h1] at hrun; cases hrun
  | panic m => rw [h1] at hrun; cases hrun
  | ok st =>
    rw [h1] at hrun
    have hrun : (do let (l, it') ← takeVals (fuelVals A) st (some k) 0
                    let back ← bdd_satisfying_valuations__Bdd_from (fuelVals A) it'
                    pure (back, l)) = Outcome.ok (back, l) := hrun
    rw [takeVals_some] at hrun
    cases h2 : takeK (OwnedBddSatisfyingValuations_next (fuelVals A)) k st with
    | err m => rw [h2] at hrun; cases hrun
    | panic m => rw [h2] at hrun; cases hrun
    | ok x =>
      obtain ⟨l2, st'⟩ := x
      rw [h2] at hrun
      have hrun : (do let back ← bdd_satisfying_valuations__Bdd_from (fuelVals A) st'; pure (back, l2)) =
          Outcome.ok (back, l) := hrun
      have e1 := htake k st l2 st' f' h2
      have e2 := hfrom st f' h1
      rw [← hf'] at e1 e2
      rw [e1, e2] at hrun
      cases hrun; rfl

open B.Props.C08 in
/-- non-vacuity: the driver's four quantities on `exA` -/
example : (do let it ← Bdd_into_sat_valuations (fuelVals exA) exA
              let (l, _) ← takeVals (fuelVals exA) it none 8
              pure l) = .ok ((satSpec exA).map List.toArray) :=
  owned_vals_driver exA_red rfl (by decide) (by decide) 8 (by decide)

open B.Props.C08 in
example : (do let it ← Bdd_into_sat_clauses (fuelVals exA) exA
              let (l, it') ← takePaths (fuelVals exA) it (some 1) 0
              pure (bdd_path_iterator__Bdd_from it', l)) = .ok (exA, [#[some false, some true]]) :=
  owned_paths_back_driver exA_red rfl (by decide) 1

end B.AlgoEq4
