import BddVerif.Lemmas.SerialValidate
/-! Completeness of `validate` (C13): the DFS visits everything reachable from the root, reports an ordering
error exactly when a reachable decision node is out of order, and the range loop reports the first node (in
index order) and the first field (var, low, high) that is out of range. -/
namespace B.Serial
open B

theorem aidx_ne_err {α} {xs : Array α} {i : Nat} {m : String} : aidx xs i ≠ .err m := by
  unfold aidx; split <;> simp

theorem reach_trans {A : Arr} {a b c : Nat} (h1 : Reach A a b) (h2 : Reach A b c) : Reach A a c := by
  induction h1 with
  | refl p => exact h2
  | low hnd _ ih => exact Reach.low hnd (ih h2)
  | high hnd _ ih => exact Reach.high hnd (ih h2)

/-- the only refusal of the DFS is the ordering message -/
theorem dfs_err_msg (A : Arr) : ∀ (fuel : Nat) (stack : List Nat) (vis : Array Bool) (m : String),
    dfs A fuel stack vis = some (.err m) → m = "Found broken child ordering" := by
  intro fuel
  induction fuel with
  | zero => intro stack vis m h; cases stack <;> simp [dfs] at h
  | succ fuel ih =>
    intro stack vis m h
    cases stack with
    | nil => simp [dfs] at h
    | cons top stack =>
      simp only [dfs] at h
      cases hv : aidx vis top with
      | panic m' => simp [hv] at h
      | err m' => exact absurd hv aidx_ne_err
      | ok b =>
        cases b with
        | true => simp only [hv] at h; exact ih _ _ _ h
        | false =>
          simp only [hv] at h
          cases hn : aidx A top with
          | panic m' => simp [hn] at h
          | err m' => exact absurd hn aidx_ne_err
          | ok node =>
            simp only [hn] at h
            cases hl : aidx A node.low with
            | panic m' => simp [hl] at h
            | err m' => exact absurd hl aidx_ne_err
            | ok lc =>
              simp only [hl] at h
              cases hh : aidx A node.high with
              | panic m' => simp [hh] at h
              | err m' => exact absurd hh aidx_ne_err
              | ok hc =>
                simp only [hh] at h
                split at h
                · simp only [Option.some.injEq, Outcome.err.injEq] at h; exact h.symm
                · exact ih _ _ _ h

/-- on normal return the visited set is closed under both links and contains the whole stack -/
theorem dfs_closed (A : Arr) : ∀ (fuel : Nat) (stack : List Nat) (vis vis' : Array Bool),
    dfs A fuel stack vis = some (.ok vis') →
    (∀ (p : Nat) (nd : Node), vis[p]? = some true → A[p]? = some nd → 2 ≤ p →
      (vis[nd.low]? = some true ∨ nd.low ∈ stack) ∧ (vis[nd.high]? = some true ∨ nd.high ∈ stack)) →
    (∀ (p : Nat) (nd : Node), vis'[p]? = some true → A[p]? = some nd → 2 ≤ p →
      vis'[nd.low]? = some true ∧ vis'[nd.high]? = some true) ∧
    (∀ s ∈ stack, vis'[s]? = some true) := by
  intro fuel
  induction fuel with
  | zero =>
    intro stack vis vis' h hI
    cases stack with
    | nil =>
      simp [dfs] at h; subst h
      refine ⟨fun p nd hp hnd h2 => ?_, by simp⟩
      have := hI p nd hp hnd h2
      simpa using this
    | cons t s => simp [dfs] at h
  | succ fuel ih =>
    intro stack vis vis' h hI
    cases stack with
    | nil =>
      simp [dfs] at h; subst h
      refine ⟨fun p nd hp hnd h2 => ?_, by simp⟩
      have := hI p nd hp hnd h2
      simpa using this
    | cons top stack =>
      have hmono := (dfs_ok A _ _ _ _ h).2.1
      simp only [dfs] at h
      cases hv : aidx vis top with
      | panic m => simp [hv] at h
      | err m => simp [hv] at h
      | ok b =>
        have hvt := aidx_eq_ok.mp hv
        cases b with
        | true =>
          simp only [hv] at h
          obtain ⟨c1, c2⟩ := ih stack vis vis' h (by
            intro p nd hp hnd h2
            obtain ⟨a, b⟩ := hI p nd hp hnd h2
            constructor
            · rcases a with a | a
              · exact .inl a
              · rcases List.mem_cons.mp a with e | a
                · rw [e]; exact .inl hvt
                · exact .inr a
            · rcases b with b | b
              · exact .inl b
              · rcases List.mem_cons.mp b with e | b
                · rw [e]; exact .inl hvt
                · exact .inr b)
          refine ⟨c1, fun s hs => ?_⟩
          rcases List.mem_cons.mp hs with rfl | hs
          · exact hmono _ hvt
          · exact c2 s hs
        | false =>
          simp only [hv] at h
          cases hn : aidx A top with
          | panic m => simp [hn] at h
          | err m => simp [hn] at h
          | ok node =>
            simp only [hn] at h
            cases hl : aidx A node.low with
            | panic m => simp [hl] at h
            | err m => simp [hl] at h
            | ok lc =>
              simp only [hl] at h
              cases hh : aidx A node.high with
              | panic m => simp [hh] at h
              | err m => simp [hh] at h
              | ok hc =>
                simp only [hh] at h
                split at h
                · simp at h
                · have hnode := aidx_eq_ok.mp hn
                  have htop : top < vis.size := by
                    rcases Nat.lt_or_ge top vis.size with h' | h'
                    · exact h'
                    · rw [Array.getElem?_eq_none h'] at hvt; simp at hvt
                  have hset : ∀ q : Nat, vis[q]? = some true → (vis.setIfInBounds top true)[q]? = some true := by
                    intro q hq
                    rw [Array.getElem?_setIfInBounds]
                    split
                    · simp [htop]
                    · exact hq
                  have htopset : (vis.setIfInBounds top true)[top]? = some true := by
                    rw [Array.getElem?_setIfInBounds]; simp [htop]
                  have hmono2 := (dfs_ok A _ _ _ _ h).2.1
                  obtain ⟨c1, c2⟩ := ih _ _ vis' h (by
                    intro p nd hp hnd h2
                    rw [Array.getElem?_setIfInBounds] at hp
                    split at hp
                    · rename_i heq; subst heq
                      rw [hnode] at hnd
                      simp only [Option.some.injEq] at hnd
                      subst hnd
                      exact ⟨.inr (by simp), .inr (by simp)⟩
                    · obtain ⟨a, b⟩ := hI p nd hp hnd h2
                      constructor
                      · rcases a with a | a
                        · exact .inl (hset _ a)
                        · rcases List.mem_cons.mp a with e | a
                          · rw [e]; exact .inl htopset
                          · exact .inr (by simp [a])
                      · rcases b with b | b
                        · exact .inl (hset _ b)
                        · rcases List.mem_cons.mp b with e | b
                          · rw [e]; exact .inl htopset
                          · exact .inr (by simp [b]))
                  refine ⟨c1, fun s hs => ?_⟩
                  rcases List.mem_cons.mp hs with rfl | hs
                  · exact hmono2 _ htopset
                  · exact c2 s (by simp [hs])

/-- if every decision node reachable from `r` passes the ordering test, the DFS started on nodes reachable from
    `r` returns normally (no refusal, no index out of bounds, fuel sufficient) -/
theorem dfs_run (A : Arr) (r : Nat)
    (hlinks : ∀ p nd, 2 ≤ p → A[p]? = some nd → nd.low < A.size ∧ nd.high < A.size)
    (hord : ∀ q, 2 ≤ q → q < A.size → Reach A r q → OrderedAt A q) :
    ∀ (fuel : Nat) (stack : List Nat) (vis : Array Bool) (U : List Nat), vis.size = A.size →
      (∀ s ∈ stack, s < A.size ∧ Reach A r s) → vis[0]? = some true → vis[1]? = some true →
      (∀ p : Nat, vis[p]? = some false → p ∈ U) → stack.length + 2 * U.length ≤ fuel →
      ∃ vis', dfs A fuel stack vis = some (.ok vis') := by
  intro fuel
  induction fuel with
  | zero =>
    intro stack vis U _ _ _ _ _ hf
    have : stack = [] := List.eq_nil_of_length_eq_zero (by omega)
    subst this
    exact ⟨_, dfs_nil A 0 vis⟩
  | succ fuel ih =>
    intro stack vis U hsz hst h0 h1 hU hf
    cases stack with
    | nil => exact ⟨_, dfs_nil A _ vis⟩
    | cons top stack =>
      obtain ⟨htop, hreach⟩ := hst top (by simp)
      simp only [dfs]
      rw [aidx_of_lt (by omega : top < vis.size)]
      have hvt : vis[top]? = some vis[top] := by simp [show top < vis.size by omega]
      cases hb : vis[top] with
      | true =>
        simp only
        exact ih stack vis U hsz (fun s hs => hst s (by simp [hs])) h0 h1 hU (by simp at hf; omega)
      | false =>
        simp only
        rw [hb] at hvt
        have htop2 : 2 ≤ top := by
          rcases Nat.lt_or_ge top 2 with h' | h'
          · have : top = 0 ∨ top = 1 := by omega
            rcases this with rfl | rfl
            · rw [h0] at hvt; simp at hvt
            · rw [h1] at hvt; simp at hvt
          · exact h'
        rw [aidx_of_lt htop]
        simp only
        have hnode : A[top]? = some A[top] := by simp [htop]
        obtain ⟨hlo, hhi⟩ := hlinks top A[top] htop2 hnode
        rw [aidx_of_lt hlo, aidx_of_lt hhi]
        simp only
        split
        · rename_i hbad
          exfalso
          obtain ⟨nd, lc, hc, e1, e2, e3, o1, o2⟩ := hord top htop2 htop hreach
          rw [hnode] at e1
          simp only [Option.some.injEq] at e1
          subst e1
          have f2 : A[A[top].low]? = some A[A[top].low] := by simp [hlo]
          have f3 : A[A[top].high]? = some A[A[top].high] := by simp [hhi]
          rw [f2] at e2; rw [f3] at e3
          simp only [Option.some.injEq] at e2 e3
          subst e2; subst e3
          simp only [Bool.or_eq_true, decide_eq_true_eq] at hbad
          omega
        · have hmem : top ∈ U := hU top hvt
          have hlen : (U.erase top).length = U.length - 1 := List.length_erase_of_mem hmem
          have hpos : 0 < U.length := List.length_pos_of_mem hmem
          apply ih _ _ (U.erase top)
          · rw [Array.size_setIfInBounds]; exact hsz
          · intro s hs
            simp only [List.mem_cons] at hs
            rcases hs with rfl | rfl | hs
            · exact ⟨hhi, reach_trans hreach (Reach.high hnode (Reach.refl _))⟩
            · exact ⟨hlo, reach_trans hreach (Reach.low hnode (Reach.refl _))⟩
            · exact hst s (by simp [hs])
          · rw [Array.getElem?_setIfInBounds]; rw [if_neg (by omega)]; exact h0
          · rw [Array.getElem?_setIfInBounds]; rw [if_neg (by omega)]; exact h1
          · intro p hp
            rw [Array.getElem?_setIfInBounds] at hp
            split at hp
            · rename_i heq; subst heq
              simp [show top < vis.size by omega] at hp
            · rename_i hne
              exact (List.mem_erase_of_ne (fun h => hne h.symm)).mpr (hU p hp)
          · simp only [List.length_cons] at hf ⊢
            omega


/-! ### the range loop reports the first failing node and field -/

def NodeInRange (size n : Nat) (nd : Node) : Prop := nd.var < n ∧ nd.low < size ∧ nd.high < size

/-- the three range tests in the order of the code, with their messages -/
def NodeRangeErr (size n : Nat) (nd : Node) (m : String) : Prop :=
  (n ≤ nd.var ∧ m = "Found invalid variable") ∨
  (nd.var < n ∧ size ≤ nd.low ∧ m = "Found invalid low-link") ∨
  (nd.var < n ∧ nd.low < size ∧ size ≤ nd.high ∧ m = "Found invalid high-link")

theorem nodeRange_cases (size n : Nat) (nd : Node) :
    NodeInRange size n nd ∨ ∃ m, NodeRangeErr size n nd m := by
  unfold NodeInRange NodeRangeErr
  by_cases h1 : nd.var < n
  · by_cases h2 : nd.low < size
    · by_cases h3 : nd.high < size
      · exact .inl ⟨h1, h2, h3⟩
      · exact .inr ⟨_, .inr (.inr ⟨h1, h2, by omega, rfl⟩)⟩
    · exact .inr ⟨_, .inr (.inl ⟨h1, by omega, rfl⟩)⟩
  · exact .inr ⟨_, .inl ⟨by omega, rfl⟩⟩

theorem nodeRange_excl {size n : Nat} {nd : Node} {m : String} (h : NodeRangeErr size n nd m) :
    ¬ NodeInRange size n nd := by
  unfold NodeInRange; unfold NodeRangeErr at h
  rcases h with ⟨a, _⟩ | ⟨_, a, _⟩ | ⟨_, _, a, _⟩ <;> omega

theorem nodeRange_msg_unique {size n : Nat} {nd : Node} {m m' : String} (h : NodeRangeErr size n nd m)
    (h' : NodeRangeErr size n nd m') : m = m' := by
  unfold NodeRangeErr at h h'
  rcases h with ⟨a, rfl⟩ | ⟨a, b, rfl⟩ | ⟨a, b, c, rfl⟩ <;>
    rcases h' with ⟨a', rfl⟩ | ⟨a', b', rfl⟩ | ⟨a', b', c', rfl⟩ <;> first | rfl | omega

theorem rangeLoop_cons_ok {size n : Nat} {nd : Node} (rest : List Node) (h : NodeInRange size n nd) :
    rangeLoop size n (nd :: rest) = rangeLoop size n rest := by
  obtain ⟨a, b, c⟩ := h
  rw [rangeLoop]
  simp [Nat.not_le.mpr a, Nat.not_le.mpr b, Nat.not_le.mpr c]

theorem rangeLoop_cons_err {size n : Nat} {nd : Node} {m : String} (rest : List Node)
    (h : NodeRangeErr size n nd m) : rangeLoop size n (nd :: rest) = .err m := by
  rw [rangeLoop]
  rcases h with ⟨a, rfl⟩ | ⟨a, b, rfl⟩ | ⟨a, b, c, rfl⟩
  · simp [a]
  · simp [Nat.not_le.mpr a, b]
  · simp [Nat.not_le.mpr a, Nat.not_le.mpr b, c]

/-- `rangeLoop` refuses with `m` iff the FIRST node of the list that is out of range fails with `m` -/
theorem rangeLoop_err (size n : Nat) : ∀ (l : List Node) (m : String),
    rangeLoop size n l = .err m ↔
      ∃ (i : Nat) (nd : Node), l[i]? = some nd ∧ (∀ (j : Nat) (x : Node), j < i → l[j]? = some x → NodeInRange size n x) ∧
        NodeRangeErr size n nd m := by
  intro l
  induction l with
  | nil => intro m; simp [rangeLoop]
  | cons nd rest ih =>
    intro m
    rcases nodeRange_cases size n nd with hin | ⟨m0, herr⟩
    · rw [rangeLoop_cons_ok rest hin, ih]
      constructor
      · rintro ⟨i, x, hx, hpre, he⟩
        refine ⟨i + 1, x, by simpa using hx, ?_, he⟩
        intro j y hj hy
        cases j with
        | zero => simp at hy; subst hy; exact hin
        | succ j => exact hpre j y (by omega) (by simpa using hy)
      · rintro ⟨i, x, hx, hpre, he⟩
        cases i with
        | zero => simp at hx; subst hx; exact absurd hin (nodeRange_excl he)
        | succ i =>
          refine ⟨i, x, by simpa using hx, ?_, he⟩
          intro j y hj hy
          exact hpre (j + 1) y (by omega) (by simpa using hy)
    · rw [rangeLoop_cons_err rest herr]
      constructor
      · intro h
        simp only [Outcome.err.injEq] at h
        subst h
        exact ⟨0, nd, by simp, fun j x hj => by omega, herr⟩
      · rintro ⟨i, x, hx, hpre, he⟩
        cases i with
        | zero =>
          simp at hx; subst hx
          rw [nodeRange_msg_unique herr he]
        | succ i =>
          exact absurd (hpre 0 nd (by omega) (by simp)) (nodeRange_excl herr)

/-! ### `validate`, branch by branch -/

/-- both terminals are exact -/
def Terms (A : Arr) : Prop := A[0]? = some ⟨numVars A, 0, 0⟩ ∧ A[1]? = some ⟨numVars A, 1, 1⟩

instance (A : Arr) : Decidable (Terms A) := by unfold Terms; infer_instance

/-- every decision node passes the three range tests -/
def RangeOk (A : Arr) : Prop := ∀ p nd, 2 ≤ p → A[p]? = some nd → NodeInRange A.size (numVars A) nd

/-- the first decision node (in index order) that fails a range test fails it with message `m` -/
def RangeErr (A : Arr) (m : String) : Prop :=
  ∃ p nd, 2 ≤ p ∧ A[p]? = some nd ∧
    (∀ q x, 2 ≤ q → q < p → A[q]? = some x → NodeInRange A.size (numVars A) x) ∧
    NodeRangeErr A.size (numVars A) nd m

theorem drop_two_get (A : Arr) (i : Nat) : (A.toList.drop 2)[i]? = A[2 + i]? := by
  rw [List.getElem?_drop]; simp

theorem rangeLoop_ok_iff (A : Arr) : rangeLoop A.size (numVars A) (A.toList.drop 2) = .ok () ↔ RangeOk A := by
  rw [(rangeLoop_spec _ _ _).1]
  constructor
  · intro h p nd hp hpn; exact h nd (mem_drop_two.mpr ⟨p, hp, hpn⟩)
  · intro h nd hnd
    obtain ⟨p, hp, hpn⟩ := mem_drop_two.mp hnd
    exact h p nd hp hpn

theorem rangeLoop_err_iff (A : Arr) (m : String) :
    rangeLoop A.size (numVars A) (A.toList.drop 2) = .err m ↔ RangeErr A m := by
  rw [rangeLoop_err]
  constructor
  · rintro ⟨i, nd, hx, hpre, he⟩
    refine ⟨2 + i, nd, by omega, by rw [← drop_two_get]; exact hx, ?_, he⟩
    intro q x hq hqi hqx
    refine hpre (q - 2) x (by omega) ?_
    rw [drop_two_get]
    have : 2 + (q - 2) = q := by omega
    rw [this]; exact hqx
  · rintro ⟨p, nd, hp, hpn, hpre, he⟩
    refine ⟨p - 2, nd, ?_, ?_, he⟩
    · rw [drop_two_get]
      have : 2 + (p - 2) = p := by omega
      rw [this]; exact hpn
    · intro j x hj hjx
      rw [drop_two_get] at hjx
      exact hpre (2 + j) x (by omega) (by omega) hjx

theorem range_ok_or_err (A : Arr) : RangeOk A ∨ ∃ m, RangeErr A m := by
  obtain ⟨_, hnp⟩ := rangeLoop_spec A.size (numVars A) (A.toList.drop 2)
  cases h : rangeLoop A.size (numVars A) (A.toList.drop 2) with
  | ok u => exact .inl ((rangeLoop_ok_iff A).mp (by rw [h]))
  | err m => exact .inr ⟨m, (rangeLoop_err_iff A m).mp h⟩
  | panic m => rw [h] at hnp; simp [Outcome.isPanic] at hnp

theorem numVars_eq {A : Arr} (h : 0 < A.size) : numVars A = A[0].var := by simp [numVars, h]

theorem validate_empty {A : Arr} (h : A.size = 0) : validate A = some (.err "No nodes") := by
  unfold validate; simp [h]

theorem validate_one {A : Arr} (h : A.size = 1) :
    validate A = some (if A[0]? = some ⟨numVars A, 0, 0⟩ then .ok () else .err "Malformed false BDD.") := by
  have hnv := numVars_eq (A := A) (by omega)
  unfold validate
  simp only [show ¬ A.size = 0 by omega, h, if_true, if_false]
  rw [aidx_of_lt (by omega : 0 < A.size)]
  simp only
  have hA : A = #[A[0]] := by
    apply Array.ext
    · simp [h]
    · intro i h1 h2
      have : i = 0 := by omega
      subst this; simp
  by_cases hz : A[0] = ⟨A[0].var, 0, 0⟩
  · have e : (A != #[⟨A[0].var, 0, 0⟩]) = false := by
      simp only [bne_eq_false_iff_eq]
      conv => lhs; rw [hA]
      rw [← hz]
    rw [e]
    have : A[0]? = some ⟨numVars A, 0, 0⟩ := by rw [hnv, ← hz]; simp [show 0 < A.size by omega]
    simp [this]
  · have e : (A != #[⟨A[0].var, 0, 0⟩]) = true := by
      simp only [bne_iff_ne, ne_eq]
      intro heq
      apply hz
      have := congrArg (fun X : Arr => X[0]?) heq
      simpa [show 0 < A.size by omega] using this
    rw [e]
    have : ¬ A[0]? = some ⟨numVars A, 0, 0⟩ := by
      rw [hnv]; intro h'
      apply hz
      simpa [show 0 < A.size by omega] using h'
    simp [this]

theorem validate_two {A : Arr} (h : A.size = 2) :
    validate A = some (if Terms A then .ok () else .err "Malformed true BDD.") := by
  have hnv := numVars_eq (A := A) (by omega)
  unfold validate
  simp only [show ¬ A.size = 0 by omega, show ¬ A.size = 1 by omega, if_false]
  simp only [h, if_true]
  rw [aidx_of_lt (by omega : 0 < A.size)]
  simp only
  have hA : A = #[A[0], A[1]] := by
    apply Array.ext
    · simp [h]
    · intro i h1 h2
      have : i = 0 ∨ i = 1 := by omega
      rcases this with rfl | rfl <;> simp
  by_cases hz : A[0] = ⟨A[0].var, 0, 0⟩ ∧ A[1] = ⟨A[0].var, 1, 1⟩
  · have e : (A != #[⟨A[0].var, 0, 0⟩, ⟨A[0].var, 1, 1⟩]) = false := by
      simp only [bne_eq_false_iff_eq]
      conv => lhs; rw [hA]
      rw [← hz.1, ← hz.2]
    rw [e]
    have : Terms A := by
      unfold Terms; rw [hnv, ← hz.1, ← hz.2]; simp [show 0 < A.size by omega, show 1 < A.size by omega]
    simp [this]
  · have e : (A != #[⟨A[0].var, 0, 0⟩, ⟨A[0].var, 1, 1⟩]) = true := by
      simp only [bne_iff_ne, ne_eq]
      intro heq
      apply hz
      have e0 := congrArg (fun X : Arr => X[0]?) heq
      have e1 := congrArg (fun X : Arr => X[1]?) heq
      constructor
      · simpa [show 0 < A.size by omega] using e0
      · simpa [show 1 < A.size by omega] using e1
    rw [e]
    have : ¬ Terms A := by
      unfold Terms; rw [hnv]; rintro ⟨a, b⟩
      apply hz
      constructor
      · simpa [show 0 < A.size by omega] using a
      · simpa [show 1 < A.size by omega] using b
    simp [this]

theorem validate_bad_terms {A : Arr} (h : 3 ≤ A.size) (ht : ¬ Terms A) :
    validate A = some (.err "Malformed terminal nodes.") := by
  have hnv := numVars_eq (A := A) (by omega)
  unfold validate
  simp only [show ¬ A.size = 0 by omega, show ¬ A.size = 1 by omega, show ¬ A.size = 2 by omega, if_false]
  rw [aidx_of_lt (by omega : 0 < A.size), aidx_of_lt (by omega : 1 < A.size)]
  simp only
  split
  · rfl
  · rename_i hterm
    exfalso; apply ht
    simp only [Bool.or_eq_true, bne_iff_ne, ne_eq, not_or, Decidable.not_not] at hterm
    unfold Terms; rw [hnv, ← hterm.1, ← hterm.2]
    simp [show 0 < A.size by omega, show 1 < A.size by omega]

/-- with exact terminals and at least three nodes, `validate` is the range loop followed by the DFS -/
theorem validate_big {A : Arr} (h : 3 ≤ A.size) (ht : Terms A) :
    validate A =
      match rangeLoop A.size (numVars A) (A.toList.drop 2) with
      | .panic m => some (.panic m)
      | .err m => some (.err m)
      | .ok () =>
        match dfs A (dfsFuel A) [A.size - 1] (vis0 A) with
        | none => none
        | some (.panic m) => some (.panic m)
        | some (.err m) => some (.err m)
        | some (.ok vis') => if vis'.all id then some (.ok ()) else some (.err "BDD has unreachable nodes.") := by
  have hnv := numVars_eq (A := A) (by omega)
  unfold validate
  simp only [show ¬ A.size = 0 by omega, show ¬ A.size = 1 by omega, show ¬ A.size = 2 by omega, if_false]
  rw [aidx_of_lt (by omega : 0 < A.size), aidx_of_lt (by omega : 1 < A.size)]
  simp only
  obtain ⟨t0, t1⟩ := ht
  rw [hnv] at t0 t1
  have e0 : A[0] = ⟨A[0].var, 0, 0⟩ := by simpa [show 0 < A.size by omega] using t0
  have e1 : A[1] = ⟨A[0].var, 1, 1⟩ := by simpa [show 1 < A.size by omega] using t1
  have e : (A[0] != ⟨A[0].var, 0, 0⟩ || A[1] != ⟨A[0].var, 1, 1⟩) = false := by
    simp only [Bool.or_eq_false_iff, bne_eq_false_iff_eq]
    exact ⟨e0, e1⟩
  rw [e, hnv]
  simp only [Bool.false_eq_true, if_false, show ¬ A.size < 2 by omega]
  rfl

theorem validate_range_err {A : Arr} (h : 3 ≤ A.size) (ht : Terms A) {m : String} (hr : RangeErr A m) :
    validate A = some (.err m) := by
  rw [validate_big h ht, (rangeLoop_err_iff A m).mpr hr]

/-- with exact terminals, the visited set being closed under links of decision nodes, reachability stays inside -/
theorem closed_reach {A : Arr} (ht : Terms A) {vis : Array Bool}
    (hc : ∀ (p : Nat) (nd : Node), vis[p]? = some true → A[p]? = some nd → 2 ≤ p →
      vis[nd.low]? = some true ∧ vis[nd.high]? = some true) :
    ∀ {a q : Nat}, Reach A a q → vis[a]? = some true → vis[q]? = some true := by
  intro a q hr
  induction hr with
  | refl p => exact id
  | @low p q nd hnd _ ih =>
    intro hp
    apply ih
    rcases Nat.lt_or_ge p 2 with h2 | h2
    · have : p = 0 ∨ p = 1 := by omega
      rcases this with rfl | rfl
      · rw [ht.1] at hnd; simp only [Option.some.injEq] at hnd; subst hnd; exact hp
      · rw [ht.2] at hnd; simp only [Option.some.injEq] at hnd; subst hnd; exact hp
    · exact (hc p nd hp hnd h2).1
  | @high p q nd hnd _ ih =>
    intro hp
    apply ih
    rcases Nat.lt_or_ge p 2 with h2 | h2
    · have : p = 0 ∨ p = 1 := by omega
      rcases this with rfl | rfl
      · rw [ht.1] at hnd; simp only [Option.some.injEq] at hnd; subst hnd; exact hp
      · rw [ht.2] at hnd; simp only [Option.some.injEq] at hnd; subst hnd; exact hp
    · exact (hc p nd hp hnd h2).2

theorem links_of_rangeOk {A : Arr} (hr : RangeOk A) :
    ∀ p nd, 2 ≤ p → A[p]? = some nd → nd.low < A.size ∧ nd.high < A.size :=
  fun p nd hp hpn => (hr p nd hp hpn).2

/-- facts about a normal return of the DFS of `validate` -/
theorem dfs_validate_ok {A : Arr} (h : 3 ≤ A.size) (ht : Terms A) {vis' : Array Bool}
    (hd : dfs A (dfsFuel A) [A.size - 1] (vis0 A) = some (.ok vis')) :
    vis'.size = A.size ∧ vis'[0]? = some true ∧ vis'[1]? = some true ∧
    (∀ q : Nat, 2 ≤ q → (vis'[q]? = some true ↔ q < A.size ∧ Reach A (A.size - 1) q)) ∧
    (∀ q : Nat, 2 ≤ q → vis'[q]? = some true → OrderedAt A q) := by
  obtain ⟨i1, i2, i3⟩ := dfs_ok A _ _ _ _ hd
  rw [vis0_size] at i1
  obtain ⟨c1, c2⟩ := dfs_closed A _ _ _ _ hd (by
    intro p nd hp _ h2
    rw [vis0_get] at hp
    split at hp
    · simp [show ¬ p < 2 by omega] at hp
    · simp at hp)
  have v0 : vis'[0]? = some true := i2 0 (by rw [vis0_get]; simp [show 0 < A.size by omega])
  have v1 : vis'[1]? = some true := i2 1 (by rw [vis0_get]; simp [show 1 < A.size by omega])
  have hroot : vis'[A.size - 1]? = some true := c2 _ (by simp)
  refine ⟨i1, v0, v1, fun q hq => ⟨fun hv => ?_, fun ⟨_, hr⟩ => closed_reach ht c1 hr hroot⟩, fun q hq hv => ?_⟩
  · have hlt : q < A.size := by
      rcases Nat.lt_or_ge q vis'.size with h' | h'
      · omega
      · rw [Array.getElem?_eq_none h'] at hv; simp at hv
    rcases i3 q hv with h' | ⟨_, s, hs, hr⟩
    · rw [vis0_get] at h'; simp [hlt, show ¬ q < 2 by omega] at h'
    · simp only [List.mem_singleton] at hs; subst hs; exact ⟨hlt, hr⟩
  · rcases i3 q hv with h' | ⟨ho, _⟩
    · have hlt : q < A.size := by
        rcases Nat.lt_or_ge q vis'.size with h' | h'
        · omega
        · rw [Array.getElem?_eq_none h'] at hv; simp at hv
      rw [vis0_get] at h'; simp [hlt, show ¬ q < 2 by omega] at h'
    · exact ho

theorem dfs_validate_total {A : Arr} (h : 3 ≤ A.size) (hr : RangeOk A) :
    ∃ o, dfs A (dfsFuel A) [A.size - 1] (vis0 A) = some o ∧ o.isPanic = false :=
  dfs_total A (links_of_rangeOk hr) (dfsFuel A) [A.size - 1] (vis0 A) (List.range' 2 (A.size - 2))
    (vis0_size A) (by intro s hs; simp at hs; omega)
    (by rw [vis0_get]; simp [show 0 < A.size by omega]) (by rw [vis0_get]; simp [show 1 < A.size by omega])
    (by
      intro p hp
      rw [vis0_get] at hp
      split at hp
      · simp only [Option.some.injEq, decide_eq_false_iff_not] at hp
        rw [List.mem_range']; exact ⟨p - 2, by omega, by omega⟩
      · simp at hp)
    (by simp [dfsFuel]; omega)

theorem validate_order_err {A : Arr} (h : 3 ≤ A.size) (ht : Terms A) (hr : RangeOk A)
    (hbad : ∃ q, 2 ≤ q ∧ q < A.size ∧ Reach A (A.size - 1) q ∧ ¬ OrderedAt A q) :
    validate A = some (.err "Found broken child ordering") := by
  rw [validate_big h ht, (rangeLoop_ok_iff A).mpr hr]
  simp only
  obtain ⟨o, ho, hnp⟩ := dfs_validate_total h hr
  rw [ho]
  cases o with
  | panic m => simp [Outcome.isPanic] at hnp
  | err m => simp only; rw [dfs_err_msg A _ _ _ m ho]
  | ok vis' =>
    exfalso
    obtain ⟨q, hq2, hqs, hreach, hno⟩ := hbad
    obtain ⟨_, _, _, hvis, hordv⟩ := dfs_validate_ok h ht ho
    exact hno (hordv q hq2 ((hvis q hq2).mpr ⟨hqs, hreach⟩))

theorem dfs_validate_run {A : Arr} (h : 3 ≤ A.size) (hr : RangeOk A)
    (hord : ∀ q, 2 ≤ q → q < A.size → Reach A (A.size - 1) q → OrderedAt A q) :
    ∃ vis', dfs A (dfsFuel A) [A.size - 1] (vis0 A) = some (.ok vis') :=
  dfs_run A (A.size - 1) (links_of_rangeOk hr) hord (dfsFuel A) [A.size - 1] (vis0 A) (List.range' 2 (A.size - 2))
    (vis0_size A) (by intro s hs; simp at hs; subst hs; exact ⟨by omega, Reach.refl _⟩)
    (by rw [vis0_get]; simp [show 0 < A.size by omega]) (by rw [vis0_get]; simp [show 1 < A.size by omega])
    (by
      intro p hp
      rw [vis0_get] at hp
      split at hp
      · simp only [Option.some.injEq, decide_eq_false_iff_not] at hp
        rw [List.mem_range']; exact ⟨p - 2, by omega, by omega⟩
      · simp at hp)
    (by simp [dfsFuel]; omega)

theorem validate_unreachable {A : Arr} (h : 3 ≤ A.size) (ht : Terms A) (hr : RangeOk A)
    (hord : ∀ q, 2 ≤ q → q < A.size → Reach A (A.size - 1) q → OrderedAt A q) (hun : ¬ AllReachable A) :
    validate A = some (.err "BDD has unreachable nodes.") := by
  rw [validate_big h ht, (rangeLoop_ok_iff A).mpr hr]
  simp only
  obtain ⟨vis', hd⟩ := dfs_validate_run h hr hord
  rw [hd]
  simp only
  obtain ⟨hsz, _, _, hvis, _⟩ := dfs_validate_ok h ht hd
  split
  · rename_i hall
    exfalso; apply hun
    intro p hp hps
    rw [Array.all_eq_true] at hall
    have := hall p (by omega)
    simp only [id] at this
    exact ((hvis p hp).mp (by simp [show p < vis'.size by omega, this])).2
  · rfl

theorem validate_accept {A : Arr} (h : 3 ≤ A.size) (ht : Terms A) (hr : RangeOk A)
    (hord : ∀ q, 2 ≤ q → q < A.size → Reach A (A.size - 1) q → OrderedAt A q) (hall : AllReachable A) :
    validate A = some (.ok ()) := by
  rw [validate_big h ht, (rangeLoop_ok_iff A).mpr hr]
  simp only
  obtain ⟨vis', hd⟩ := dfs_validate_run h hr hord
  rw [hd]
  simp only
  obtain ⟨hsz, v0, v1, hvis, _⟩ := dfs_validate_ok h ht hd
  have : vis'.all id = true := by
    rw [Array.all_eq_true]
    intro i hi
    simp only [id]
    have hv : vis'[i]? = some true := by
      by_cases h0 : i = 0
      · subst h0; exact v0
      by_cases h1 : i = 1
      · subst h1; exact v1
      exact (hvis i (by omega)).mpr ⟨by omega, hall i (by omega) (by omega)⟩
    simpa [hi] using hv
  rw [this]; rfl

end B.Serial
