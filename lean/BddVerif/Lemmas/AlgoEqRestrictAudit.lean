import BddVerif.Lemmas.AlgoEqRestrictThm
/-! axiom audit of the equivalence theorems "translated `restriction()` & wrappers = hand-written model" -/
#print axioms B.AlgoEqR.forIn_range_loopN
#print axioms B.AlgoEqR.restriction_desugar
#print axioms B.AlgoEqR.restriction_const
#print axioms B.AlgoEqR.sim_all
#print axioms B.AlgoEqR.restriction_eq_model
#print axioms B.AlgoEqR.restriction_eq_model_driver
#print axioms B.AlgoEqR.restriction_empty_panics
#print axioms B.AlgoEqR.from_values_eq_model
#print axioms B.AlgoEqR.Bdd_restrict_eq_model
#print axioms B.AlgoEqR.Bdd_restrict_eq_model_driver
#print axioms B.AlgoEqR.Bdd_var_restrict_eq_model
#print axioms B.AlgoEqR.Bdd_var_restrict_eq_model_driver
#print axioms B.AlgoEqR.restriction_translated_canon
#print axioms B.AlgoEqR.Bdd_restrict_translated_canon
#print axioms B.AlgoEqR.Bdd_var_restrict_translated_canon
#print axioms B.AlgoEqR.to_values_eq_model
#print axioms B.AlgoEqR.mk_partial_valuation_eq_model
