import BddVerif.Lemmas.AlgoEq3ParserLevels2
import BddVerif.Lemmas.AlgoEq3ParserTok
import BddVerif.Lemmas.ParserPrint
/-!
# Equivalence "translated Rust = hand-written model": the expression parser (`_impl_parser.rs`)

Final theorems about the GENERATED definitions `B.Gen.Algo3.{tokenize_group, index_of_first, terminal, parser__xor,
parser__and, parser__or, parser__cond, parser__imp, parser__iff, parse_formula, parse_boolean_expression}` and the hand
model `B.Parser.{tokGroup, indexOfFirst, terminalP, …, parseFormula, parse}`, for ALL inputs:

* `tokenize_group_eq_model`: `fuel ≥ length + 1` — same token tree, same unread rest, same `Err` string; never panics;
* `parse_formula_eq_model` (and one theorem per level): every `&[ExprToken]` (arbitrarily nested), `fuel ≥ 8·tokens + 8`;
* `parse_boolean_expression_eq_model`: every `String`, `fuel ≥ 8·length + 8`.

`conv…` are the bijections of `AlgoEq3ParserConv.lean`. Messages: identical, except that the model abbreviates the two
`{:?}` messages of `terminal()` (`msgConv`).
-/
namespace B.AlgoEq3Parser
open B B.Gen B.Gen.Algo3 B.AlgoEqUtil B.Parser

attribute [local instance 10000] Rust.monadOutcomeInline

/-! ### the mutual block -/

theorem parsers_ok :
    (∀ d, OKform d) ∧ (∀ d, OKiff d) ∧ (∀ d, OKimp d) ∧ (∀ d, OKcond d) ∧ (∀ d, OKor d) ∧ (∀ d, OKand d) ∧
    (∀ d, OKxor d) ∧ (∀ d, OKterm d) := by
  apply parseFormula.mutual_induct (motive1 := OKform) (motive2 := OKiff) (motive3 := OKimp) (motive4 := OKcond)
    (motive5 := OKor) (motive6 := OKand) (motive7 := OKxor) (motive8 := OKterm)
  · intro data h ih; exact form_group h ih
  · intro data h ih; exact form_other h ih
  · intro data i h ih1 ih2; exact iff_some h ih1 ih2
  · intro data h ih; exact iff_none h ih
  · intro data i h ih1 ih2; exact imp_some h ih1 ih2
  · intro data h ih; exact imp_none h ih
  · intro data hq hc ih; exact cond_none hq hc ih
  · intro data q c hq hc hlt; exact cond_order hq hc hlt
  · intro data q c hq hc hlt ih1 ih2 ih3; exact cond_some hq hc hlt ih1 ih2 ih3
  · intro data c hq hc; exact cond_only_colon hq hc
  · intro data q hq hc; exact cond_only_qmark hq hc
  · intro data i h ih1 ih2; exact or_some h ih1 ih2
  · intro data h ih; exact or_none h ih
  · intro data i h ih1 ih2; exact and_some h ih1 ih2
  · intro data h ih; exact and_none h ih
  · intro data i h ih1 ih2; exact xor_some h ih1 ih2
  · intro data h ih; exact xor_none h ih
  · exact term_nil
  · intro rest ih; exact term_not ih
  · intro a b tl hne; exact term_several a b tl hne
  · exact term_id kwTrue
  · intro _; exact term_id kwFalse
  · intro name _ _; exact term_id name
  · intro inner ih; exact term_group ih
  · intro head h1 h2 h3; exact term_operator head h1 h2 h3

/-- number of tokens in a generated token tree (the model's termination measure, through the bijection) -/
def tokCount (toks : Array GT) : Nat := sizeL (unconvA toks)

theorem tokCount_convA (ts : List Tok) : tokCount (convA ts) = sizeL ts := by
  unfold tokCount; rw [unconvA_convA]

/-- `parse_formula` (translated) = `parseFormula` (model), every token slice -/
theorem parse_formula_eq_model (toks : Array GT) (fuel : Nat) (hf : 8 * tokCount toks + 8 ≤ fuel) :
    parse_formula fuel toks = convO (parseFormula (unconvA toks)) := by
  have := parsers_ok.1 (unconvA toks) fuel hf
  rwa [convA_unconvA] at this

theorem parser__iff_eq_model (toks : Array GT) (fuel : Nat) (hf : 8 * tokCount toks + 7 ≤ fuel) :
    parser__iff fuel toks = convO (iffP (unconvA toks)) := by
  have := parsers_ok.2.1 (unconvA toks) fuel hf
  rwa [convA_unconvA] at this

theorem parser__imp_eq_model (toks : Array GT) (fuel : Nat) (hf : 8 * tokCount toks + 6 ≤ fuel) :
    parser__imp fuel toks = convO (impP (unconvA toks)) := by
  have := parsers_ok.2.2.1 (unconvA toks) fuel hf
  rwa [convA_unconvA] at this

theorem parser__cond_eq_model (toks : Array GT) (fuel : Nat) (hf : 8 * tokCount toks + 5 ≤ fuel) :
    parser__cond fuel toks = convO (condP (unconvA toks)) := by
  have := parsers_ok.2.2.2.1 (unconvA toks) fuel hf
  rwa [convA_unconvA] at this

theorem parser__or_eq_model (toks : Array GT) (fuel : Nat) (hf : 8 * tokCount toks + 4 ≤ fuel) :
    parser__or fuel toks = convO (orP (unconvA toks)) := by
  have := parsers_ok.2.2.2.2.1 (unconvA toks) fuel hf
  rwa [convA_unconvA] at this

theorem parser__and_eq_model (toks : Array GT) (fuel : Nat) (hf : 8 * tokCount toks + 3 ≤ fuel) :
    parser__and fuel toks = convO (andP (unconvA toks)) := by
  have := parsers_ok.2.2.2.2.2.1 (unconvA toks) fuel hf
  rwa [convA_unconvA] at this

theorem parser__xor_eq_model (toks : Array GT) (fuel : Nat) (hf : 8 * tokCount toks + 2 ≤ fuel) :
    parser__xor fuel toks = convO (xorP (unconvA toks)) := by
  have := parsers_ok.2.2.2.2.2.2.1 (unconvA toks) fuel hf
  rwa [convA_unconvA] at this

theorem terminal_eq_model (toks : Array GT) (fuel : Nat) (hf : 8 * tokCount toks + 1 ≤ fuel) :
    terminal fuel toks = convO (terminalP (unconvA toks)) := by
  have := parsers_ok.2.2.2.2.2.2.2 (unconvA toks) fuel hf
  rwa [convA_unconvA] at this

/-- `index_of_first(data, token)` for the eight payload-free tokens (all its uses) -/
theorem index_of_first_eq_model (toks : Array GT) (k : Tok) (hk : Tok.tag k < 8) :
    index_of_first toks (convT k) = indexOfFirst (unconvA toks) k := by
  have := index_of_first_conv (unconvA toks) k hk
  rwa [convA_unconvA] at this

/-- in the form `= .ok (conv (model …))`: the translated parser never panics -/
theorem parse_formula_eq_ok (toks : Array GT) (fuel : Nat) (hf : 8 * tokCount toks + 8 ≤ fuel) :
    parse_formula fuel toks = .ok (convR (parseFormula (unconvA toks))) := by
  rw [parse_formula_eq_model toks fuel hf, convO_eq_convR (parsers_no_panic.1 _)]

/-! ### `tokenize_group` -/

/-- the result of the model as a Rust `Result` (the model never panics: `tokGroup_no_panic`) -/
def convTR : TokRes → Except String (Array GT)
  | .ok (ts, _) => .ok (convA ts)
  | .err m => .error m
  | .panic m => .error m

/-- `tokenize_group` (translated) = `tokGroup` (model): every input, both modes -/
theorem tokenize_group_eq_model (cs : List Char) (top : Bool) (fuel : Nat) (hf : cs.length + 1 ≤ fuel) :
    TokRel #[] (tokenize_group fuel cs top) (tokGroup cs top) :=
  fn_of_loop (loop_ok cs.length cs (Nat.le_refl _)) top fuel hf

theorem tokenize_group_ok {cs : List Char} {top : Bool} {ts : List Tok} {rest : List Char}
    (h : tokGroup cs top = .ok (ts, rest)) (fuel : Nat) (hf : cs.length + 1 ≤ fuel) :
    tokenize_group fuel cs top = .ok (.ok (convA ts), rest) := by
  have := tokenize_group_eq_model cs top fuel hf
  rw [h] at this
  simpa using this.ok_inv

theorem tokenize_group_err {cs : List Char} {top : Bool} {m : String}
    (h : tokGroup cs top = .err m) (fuel : Nat) (hf : cs.length + 1 ≤ fuel) :
    ∃ rest, tokenize_group fuel cs top = .ok (.error m, rest) := by
  have := tokenize_group_eq_model cs top fuel hf
  rw [h] at this
  exact this.err_inv

/-- in the form `= .ok (conv (model …))` on the `Result` component; never panics -/
theorem tokenize_group_eq_ok (cs : List Char) (top : Bool) (fuel : Nat) (hf : cs.length + 1 ≤ fuel) :
    ∃ rest, tokenize_group fuel cs top = .ok (convTR (tokGroup cs top), rest) ∧
      ∀ ts r, tokGroup cs top = .ok (ts, r) → rest = r := by
  cases h : tokGroup cs top with
  | ok p =>
    obtain ⟨ts, r⟩ := p
    exact ⟨r, tokenize_group_ok h fuel hf, fun _ _ e => by cases e; rfl⟩
  | err m =>
    obtain ⟨rest, hr⟩ := tokenize_group_err h fuel hf
    exact ⟨rest, hr, fun _ _ e => by cases e⟩
  | panic m =>
    have := tokGroup_no_panic cs top
    rw [h] at this; simp [Outcome.isPanic] at this

/-! ### the size of the token tree is bounded by the number of characters consumed -/

/-- the five `Err` strings of `tokenize_group` -/
def TokMsg (m : String) : Prop :=
  m = "Expected ')'." ∨ m = "Expected '>' after '='." ∨ m = "Expected '=' after '<'." ∨ m = "Unexpected '>'." ∨
  m = "Unexpected ')'."

/-- none of them is one of the two messages that `msgConv` rewrites -/
theorem TokMsg.msgConv {m : String} (h : TokMsg m) : msgConv m = m := by
  rcases h with h | h | h | h | h <;> subst h <;> decide

def Sized (data : List Char) : TokRes → Prop
  | .ok (ts, rest) => sizeL ts + rest.length ≤ data.length
  | .err m => TokMsg m
  | .panic _ => True

local macro "errc" : tactic => `(tactic| (show TokMsg _; unfold TokMsg; decide))

theorem Sized.push {tl data : List Char} {r : TokRes} {t : Tok} (h : Sized tl r)
    (hl : Tok.size t + tl.length ≤ data.length) : Sized data (Parser.push t r) := by
  cases r with
  | ok p => obtain ⟨ts, rest⟩ := p; simp only [Sized, Parser.push, sizeL] at *; omega
  | err m => exact h
  | panic m => trivial

theorem Sized.mono {tl data : List Char} {r : TokRes} (h : Sized tl r) (hl : tl.length ≤ data.length) :
    Sized data r := by
  cases r with
  | ok p => obtain ⟨ts, rest⟩ := p; simp only [Sized] at *; omega
  | err m => exact h
  | panic m => trivial

theorem tokGroup_sized : ∀ (N : Nat) (data : List Char), data.length ≤ N → ∀ top, Sized data (tokGroup data top) := by
  intro N
  induction N with
  | zero =>
    intro data hN top
    have : data = [] := List.length_eq_zero_iff.mp (by omega)
    subst this
    rw [tokGroup_nil]; cases top <;> first | errc | simp [Sized, sizeL]
  | succ N ih =>
    intro data hN top
    cases data with
    | nil => rw [tokGroup_nil]; cases top <;> first | errc | simp [Sized, sizeL]
    | cons c tl =>
      simp only [List.length_cons] at hN
      have ihtl := ih tl (by omega) top
      have one : ∀ t : Tok, Tok.size t = 1 → Sized (c :: tl) (Parser.push t (tokGroup tl top)) := fun t ht =>
        Sized.push ihtl (by simp only [List.length_cons]; omega)
      rw [tokGroup_cons]
      by_cases hws : isWs c = true
      · rw [if_pos hws]; exact ihtl.mono (by simp)
      rw [if_neg hws]
      by_cases h1 : c = '!'
      · rw [if_pos h1]; exact one _ rfl
      rw [if_neg h1]
      by_cases h2 : c = '&'
      · rw [if_pos h2]; exact one _ rfl
      rw [if_neg h2]
      by_cases h3 : c = '|'
      · rw [if_pos h3]; exact one _ rfl
      rw [if_neg h3]
      by_cases h4 : c = '^'
      · rw [if_pos h4]; exact one _ rfl
      rw [if_neg h4]
      by_cases h5 : c = ':'
      · rw [if_pos h5]; exact one _ rfl
      rw [if_neg h5]
      by_cases h6 : c = '?'
      · rw [if_pos h6]; exact one _ rfl
      rw [if_neg h6]
      by_cases h7 : c = '='
      · rw [if_pos h7]
        cases tl with
        | nil => errc
        | cons d tl' =>
          simp only [List.length_cons] at hN
          dsimp only
          by_cases hd : d = '>'
          · rw [if_pos hd]
            exact Sized.push (ih tl' (by omega) top) (by simp only [List.length_cons, Tok.size]; omega)
          · rw [if_neg hd]; errc
      rw [if_neg h7]
      by_cases h8 : c = '<'
      · rw [if_pos h8]
        cases tl with
        | nil => errc
        | cons d tl' =>
          simp only [List.length_cons] at hN
          dsimp only
          by_cases hd : d = '='
          · rw [if_pos hd]
            cases tl' with
            | nil => errc
            | cons e tl'' =>
              simp only [List.length_cons] at hN
              dsimp only
              by_cases he : e = '>'
              · rw [if_pos he]
                exact Sized.push (ih tl'' (by omega) top) (by simp only [List.length_cons, Tok.size]; omega)
              · rw [if_neg he]; errc
          · rw [if_neg hd]; errc
      rw [if_neg h8]
      by_cases h9 : c = '>'
      · rw [if_pos h9]; errc
      rw [if_neg h9]
      by_cases h10 : c = ')'
      · rw [if_pos h10]
        cases top
        · simp [Sized, sizeL]
        · errc
      rw [if_neg h10]
      by_cases h11 : c = '('
      · rw [if_pos h11]
        have hin := ih tl (by omega) false
        cases hm : tokGroup tl false with
        | ok p =>
          obtain ⟨inner, rest⟩ := p
          rw [hm] at hin
          simp only [Sized] at hin
          dsimp only
          by_cases hlt : rest.length < (c :: tl).length
          · rw [dif_pos hlt]
            exact Sized.push (ih rest (by omega) top) (by simp only [List.length_cons, Tok.size]; omega)
          · rw [dif_neg hlt]; trivial
        | err m => rw [hm] at hin; exact hin
        | panic m => trivial
      rw [if_neg h11]
      by_cases hlt : (nameRest tl).2.length < (c :: tl).length
      · rw [dif_pos hlt]
        have := nameRest_le tl
        exact Sized.push (ih _ (by omega) top) (by simp only [List.length_cons, Tok.size]; omega)
      · rw [dif_neg hlt]; trivial

theorem tokGroup_err_msg {cs : List Char} {top : Bool} {m : String} (h : tokGroup cs top = .err m) : TokMsg m := by
  have := tokGroup_sized cs.length cs (Nat.le_refl _) top
  rw [h] at this; exact this

theorem tokGroup_sizeL_le {cs : List Char} {top : Bool} {ts : List Tok} {rest : List Char}
    (h : tokGroup cs top = .ok (ts, rest)) : sizeL ts + rest.length ≤ cs.length := by
  have := tokGroup_sized cs.length cs (Nat.le_refl _) top
  rw [h] at this; exact this

/-! ### `parse_boolean_expression` -/

/-- `parse_boolean_expression` (translated) = `parse` (model), every string -/
theorem parse_boolean_expression_eq_model (s : String) (fuel : Nat) (hf : 8 * s.length + 8 ≤ fuel) :
    parse_boolean_expression fuel s = convO (Parser.parse s.toList) := by
  have hlen : s.toList.length = s.length := String.length_toList
  unfold parse_boolean_expression Parser.parse
  cases h : tokGroup s.toList true with
  | ok p =>
    obtain ⟨ts, rest⟩ := p
    have hsz := tokGroup_sizeL_le h
    rw [tokenize_group_ok h fuel (by omega)]
    have hp := parsers_ok.1 ts fuel (by omega)
    simp only [AlgoEqUtil.bind_ok, pure_eq]
    rw [hp]
    cases parseFormula ts <;> rfl
  | err m =>
    obtain ⟨rest, hr⟩ := tokenize_group_err h fuel (by omega)
    rw [hr]
    simp only [convO, (tokGroup_err_msg h).msgConv]
    rfl
  | panic m =>
    have := tokGroup_no_panic s.toList true
    rw [h] at this; simp [Outcome.isPanic] at this

end B.AlgoEq3Parser
