import BddVerif.Lemmas.DotParse
import BddVerif.Lemmas.VarSetSem
/-!
Structure of the statement list of the `.dot` export and evaluation of the graph that is read back.
-/
namespace B.Dot
open B

/-! ### the whole text -/

/-- no line feed inside a label -/
def LineLabel (l : String) : Prop := '\n' ∉ l.toList

def LineStmt : Stmt → Prop
  | .vertex _ l => LineLabel l
  | _ => True

theorem digits_no_nl (n : Nat) : '\n' ∉ digits n := by
  intro h; have := digits_all n _ h; revert this; decide

theorem renderStmt_no_nl (s : Stmt) (hs : LineStmt s) : '\n' ∉ renderStmt s := by
  cases s with
  | header => decide
  | initNode => decide
  | footer => decide
  | initEdge p =>
    simp only [renderStmt, List.mem_append, not_or]
    exact ⟨by decide, digits_no_nl p, by decide⟩
  | terminal b =>
    simp only [renderStmt, List.mem_append, not_or]
    exact ⟨digits_no_nl _, by decide, digits_no_nl _, by decide⟩
  | vertex p l =>
    simp only [renderStmt, List.mem_append, not_or]
    exact ⟨digits_no_nl p, by decide, hs, by decide⟩
  | edge p q st =>
    simp only [renderStmt, List.mem_append, not_or]
    exact ⟨digits_no_nl p, by decide, digits_no_nl q, by cases st <;> decide⟩

theorem splitLines_line : ∀ (l rest cur : List Char), '\n' ∉ l →
    splitLines (l ++ '\n' :: rest) cur = (splitLines rest []).map (fun ls => (cur.reverse ++ l) :: ls)
  | [], rest, cur, _ => by simp [splitLines]
  | c :: l, rest, cur, h => by
    have hc : c ≠ '\n' := fun e => h (by simp [e])
    have hl : '\n' ∉ l := fun e => h (by simp [e])
    simp only [List.cons_append, splitLines, hc, if_false]
    rw [splitLines_line l rest (c :: cur) hl]
    simp

theorem splitLines_render : ∀ (ss : List Stmt), (∀ s ∈ ss, LineStmt s) →
    splitLines (ss.flatMap fun s => renderStmt s ++ ['\n']) [] = some (ss.map renderStmt)
  | [], _ => by simp [splitLines]
  | s :: t, h => by
    simp only [List.flatMap_cons, List.append_assoc, List.singleton_append, List.map_cons]
    rw [splitLines_line _ _ [] (renderStmt_no_nl s (h s (by simp))),
      splitLines_render t (fun s' hs' => h s' (by simp [hs']))]
    simp

theorem mapM_parse : ∀ (ss : List Stmt), (∀ s ∈ ss, SafeStmt s) →
    (ss.map renderStmt).mapM parseLine = some ss
  | [], _ => by simp
  | s :: t, h => by
    simp only [List.map_cons, List.mapM_cons, parse_render_stmt s (h s (by simp)),
      mapM_parse t (fun s' hs' => h s' (by simp [hs']))]
    rfl

/-- reading the rendered text back gives the statements (labels without `"` and line feed) -/
theorem parseDot_render (ss : List Stmt) (h1 : ∀ s ∈ ss, SafeStmt s) (h2 : ∀ s ∈ ss, LineStmt s) :
    parseDot (render ss) = some ss := by
  unfold parseDot render
  rw [String.toList_ofList, splitLines_render ss h2]
  exact mapM_parse ss h1

/-! ### projections of the statement list -/

def vertexOf : Stmt → Option (Nat × String)
  | .vertex p l => some (p, l)
  | _ => none

def edgeOf : Stmt → Option (Nat × Nat × Style)
  | .edge p q s => some (p, q, s)
  | _ => none

def entryEdgeOf : Stmt → Option Nat
  | .initEdge p => some p
  | _ => none

def terminalOf : Stmt → Option Bool
  | .terminal b => some b
  | _ => none

/-- what zero-pruning removes: the 0 terminal and the edges of decision nodes into 0 -/
def keepPruned : Stmt → Bool
  | .terminal false => false
  | .edge _ 0 _ => false
  | _ => true

/-- the edges of decision node `p`, in the order of the text: solid to high, dotted to low; with pruning those
    into 0 are left out -/
def nodeEdges (A : Arr) (pruned : Bool) (p : Nat) : List (Nat × Nat × Style) :=
  (if !pruned || (nodeAt A p).high != 0 then [(p, (nodeAt A p).high, Style.filled)] else []) ++
  (if !pruned || (nodeAt A p).low != 0 then [(p, (nodeAt A p).low, Style.dotted)] else [])

theorem nodeStmts_vertices (A : Arr) (names : List String) (pruned : Bool) (p : Nat) :
    (nodeStmts A names pruned p).filterMap vertexOf = [(p, names[(nodeAt A p).var]?.getD "")] := by
  unfold nodeStmts
  by_cases h1 : (!pruned || (nodeAt A p).high != 0) = true <;>
  by_cases h2 : (!pruned || (nodeAt A p).low != 0) = true <;> simp [h1, h2, vertexOf, List.filterMap_cons]

theorem nodeStmts_edges (A : Arr) (names : List String) (pruned : Bool) (p : Nat) :
    (nodeStmts A names pruned p).filterMap edgeOf = nodeEdges A pruned p := by
  unfold nodeStmts nodeEdges
  by_cases h1 : (!pruned || (nodeAt A p).high != 0) = true <;>
  by_cases h2 : (!pruned || (nodeAt A p).low != 0) = true <;> simp [h1, h2, edgeOf, List.filterMap_cons]

theorem nodeStmts_other (A : Arr) (names : List String) (pruned : Bool) (p : Nat) :
    (nodeStmts A names pruned p).filterMap entryEdgeOf = [] ∧
    (nodeStmts A names pruned p).filterMap terminalOf = [] := by
  unfold nodeStmts
  by_cases h1 : (!pruned || (nodeAt A p).high != 0) = true <;>
  by_cases h2 : (!pruned || (nodeAt A p).low != 0) = true <;> simp [h1, h2, entryEdgeOf, terminalOf, List.filterMap_cons]

theorem flatMap_nil' {α β} (l : List α) : l.flatMap (fun _ => ([] : List β)) = [] := by
  induction l <;> simp_all

theorem stmts_vertices (A : Arr) (names : List String) (pruned : Bool) :
    (stmtsOf A names pruned).filterMap vertexOf =
      (innerPtrs A).map fun p => (p, names[(nodeAt A p).var]?.getD "") := by
  unfold stmtsOf preamble
  simp only [List.filterMap_append, List.filterMap_flatMap, nodeStmts_vertices]
  cases pruned <;> simp [vertexOf, List.map_eq_flatMap, List.filterMap_cons]

theorem stmts_edges (A : Arr) (names : List String) (pruned : Bool) :
    (stmtsOf A names pruned).filterMap edgeOf = (innerPtrs A).flatMap (nodeEdges A pruned) := by
  unfold stmtsOf preamble
  simp only [List.filterMap_append, List.filterMap_flatMap, nodeStmts_edges]
  cases pruned <;> simp [edgeOf, List.filterMap_cons]

theorem stmts_entry (A : Arr) (names : List String) (pruned : Bool) :
    (stmtsOf A names pruned).filterMap entryEdgeOf = [root A] := by
  unfold stmtsOf preamble
  simp only [List.filterMap_append, List.filterMap_flatMap, (nodeStmts_other A names pruned _).1, flatMap_nil']
  cases pruned <;> simp [entryEdgeOf, List.filterMap_cons]

theorem stmts_terminals (A : Arr) (names : List String) (pruned : Bool) :
    (stmtsOf A names pruned).filterMap terminalOf = if pruned then [true] else [false, true] := by
  unfold stmtsOf preamble
  simp only [List.filterMap_append, List.filterMap_flatMap, (nodeStmts_other A names pruned _).2, flatMap_nil']
  cases pruned <;> simp [terminalOf, List.filterMap_cons]

theorem nodeStmts_pruned (A : Arr) (names : List String) (p : Nat) :
    (nodeStmts A names false p).filter keepPruned = nodeStmts A names true p := by
  unfold nodeStmts
  by_cases h1 : (nodeAt A p).high = 0 <;> by_cases h2 : (nodeAt A p).low = 0 <;>
    simp [h1, h2, keepPruned, List.filter_cons]

/-- zero-pruning removes exactly the 0 terminal and the edges into 0 -/
theorem stmts_pruned (A : Arr) (names : List String) :
    stmtsOf A names true = (stmtsOf A names false).filter keepPruned := by
  unfold stmtsOf preamble
  simp only [List.filter_append, List.filter_flatMap, nodeStmts_pruned]
  simp [keepPruned, List.filter_cons]

/-! ### the export does not panic on valid Bdds -/

theorem mem_innerPtrs {A : Arr} {p : Nat} : p ∈ innerPtrs A ↔ 2 ≤ p ∧ p < A.size := by
  unfold innerPtrs
  rw [List.mem_range']
  constructor
  · rintro ⟨i, hi, rfl⟩; omega
  · rintro ⟨h1, h2⟩; exact ⟨p - 2, by omega, by omega⟩

theorem nodeAt_eq {A : Arr} {p : Nat} {nd : Node} (h : A[p]? = some nd) : nodeAt A p = nd := by
  simp [nodeAt, h]

theorem dotStmts_ok {A : Arr} {n : Nat} (hw : WFo A n) (names : List String) (hn : names.length = n)
    (pruned : Bool) : dotStmts A names pruned = .ok (stmtsOf A names pruned) := by
  unfold dotStmts
  have hs := hw.size_pos
  rw [if_neg (by omega), if_neg (by rw [numVars_of_wf hw]; simp [hn])]
  have : ((innerPtrs A).any fun p => decide (names.length ≤ (nodeAt A p).var)) = false := by
    rw [List.any_eq_false]
    intro p hp
    obtain ⟨h2, hps⟩ := mem_innerPtrs.1 hp
    have hnd : A[p]? = some A[p] := by simp [hps]
    have := (hw.inner p A[p] h2 hnd).1
    rw [nodeAt_eq hnd]
    simp; omega
  rw [this]; simp

/-! ### look-ups in the statement list -/

theorem findSome?_flatMap_all_none {β} (l : List Nat) (g : Nat → List Stmt) (f : Stmt → Option β)
    (h : ∀ q ∈ l, (g q).findSome? f = none) : (l.flatMap g).findSome? f = none := by
  induction l with
  | nil => rfl
  | cons a t ih =>
    rw [List.flatMap_cons, List.findSome?_append, h a (by simp), ih (fun q hq => h q (by simp [hq]))]
    rfl

theorem findSome?_flatMap_unique {β} (l : List Nat) (g : Nat → List Stmt) (f : Stmt → Option β) (p : Nat)
    (hp : p ∈ l) (hother : ∀ q ∈ l, q ≠ p → (g q).findSome? f = none) :
    (l.flatMap g).findSome? f = (g p).findSome? f := by
  induction l with
  | nil => cases hp
  | cons a t ih =>
    rw [List.flatMap_cons, List.findSome?_append]
    have hother' : ∀ q ∈ t, q ≠ p → (g q).findSome? f = none := fun q hq => hother q (by simp [hq])
    by_cases hap : a = p
    · subst hap
      by_cases hpt : a ∈ t
      · rw [ih hpt hother', Option.or_self]
      · rw [findSome?_flatMap_all_none t g f (fun q hq => hother' q hq (fun e => hpt (e ▸ hq))), Option.or_none]
    · rw [hother a (by simp) hap, Option.none_or]
      have : p ∈ t := by
        rcases List.mem_cons.1 hp with e | e
        · exact absurd e.symm hap
        · exact e
      exact ih this hother'

theorem findVertex_stmts {A : Arr} (names : List String) (pruned : Bool) (p : Nat) (hp : p ∈ innerPtrs A) :
    findVertex (stmtsOf A names pruned) p = some (names[(nodeAt A p).var]?.getD "") := by
  unfold findVertex stmtsOf preamble
  rw [List.findSome?_append, List.findSome?_append,
    findSome?_flatMap_unique (innerPtrs A) _ _ p hp (by
      intro q _ hqp
      unfold nodeStmts
      by_cases h1 : (!pruned || (nodeAt A q).high != 0) = true <;>
      by_cases h2 : (!pruned || (nodeAt A q).low != 0) = true <;>
        simp [h1, h2, hqp, vertexAt, List.findSome?_cons])]
  have : (nodeStmts A names pruned p).findSome? (vertexAt p) =
      some (names[(nodeAt A p).var]?.getD "") := by
    unfold nodeStmts; simp [vertexAt]
  rw [this]
  cases pruned <;> simp [vertexAt, List.findSome?_cons]

theorem vertexAt_nodeStmts_lt (A : Arr) (names : List String) (pruned : Bool) (p q : Nat) (hp : p < 2) (hq : 2 ≤ q) :
    (nodeStmts A names pruned q).findSome? (vertexAt p) = none := by
  have hqp : q ≠ p := by omega
  unfold nodeStmts
  by_cases h1 : (!pruned || (nodeAt A q).high != 0) = true <;>
  by_cases h2 : (!pruned || (nodeAt A q).low != 0) = true <;>
    simp [h1, h2, hqp, vertexAt, List.findSome?_cons]

theorem findVertex_terminal (A : Arr) (names : List String) (pruned : Bool) (p : Nat) (hp : p < 2) :
    findVertex (stmtsOf A names pruned) p = none := by
  unfold findVertex stmtsOf preamble
  rw [List.findSome?_append, List.findSome?_append,
    findSome?_flatMap_all_none (innerPtrs A) _ _ (fun q hq =>
      vertexAt_nodeStmts_lt A names pruned p q hp (mem_innerPtrs.1 hq).1)]
  cases pruned <;> simp [vertexAt, List.findSome?_cons]

theorem findEdge_stmts {A : Arr} (names : List String) (pruned : Bool) (p : Nat) (hp : p ∈ innerPtrs A)
    (st : Style) :
    findEdge (stmtsOf A names pruned) p st =
      (match st with
       | .filled => if (!pruned || (nodeAt A p).high != 0) = true then some (nodeAt A p).high else none
       | .dotted => if (!pruned || (nodeAt A p).low != 0) = true then some (nodeAt A p).low else none) := by
  unfold findEdge stmtsOf preamble
  rw [List.findSome?_append, List.findSome?_append,
    findSome?_flatMap_unique (innerPtrs A) _ _ p hp (by
      intro q _ hqp
      unfold nodeStmts
      by_cases h1 : (!pruned || (nodeAt A q).high != 0) = true <;>
      by_cases h2 : (!pruned || (nodeAt A q).low != 0) = true <;>
        simp [h1, h2, hqp, edgeAt, List.findSome?_cons])]
  have : (nodeStmts A names pruned p).findSome? (edgeAt p st) =
      (match st with
       | .filled => if (!pruned || (nodeAt A p).high != 0) = true then some (nodeAt A p).high else none
       | .dotted => if (!pruned || (nodeAt A p).low != 0) = true then some (nodeAt A p).low else none) := by
    unfold nodeStmts
    by_cases h1 : (!pruned || (nodeAt A p).high != 0) = true <;>
    by_cases h2 : (!pruned || (nodeAt A p).low != 0) = true <;> cases st <;>
      simp [h1, h2, edgeAt, List.findSome?_cons]
  rw [this]
  cases pruned <;> simp [edgeAt, List.findSome?_cons]

theorem findTerminal_stmts (A : Arr) (names : List String) (pruned : Bool) (p : Nat) :
    findTerminal (stmtsOf A names pruned) p =
      if p = 1 then some true else if p = 0 ∧ pruned = false then some false else none := by
  unfold findTerminal stmtsOf preamble
  rw [List.findSome?_append, List.findSome?_append,
    findSome?_flatMap_all_none (innerPtrs A) _ _ (by
      intro q _
      unfold nodeStmts
      by_cases h1 : (!pruned || (nodeAt A q).high != 0) = true <;>
      by_cases h2 : (!pruned || (nodeAt A q).low != 0) = true <;>
        simp [h1, h2, terminalAt, List.findSome?_cons])]
  by_cases h1 : p = 1
  · subst h1; cases pruned <;> simp [boolNat, terminalAt, List.findSome?_cons]
  · by_cases h0 : p = 0
    · subst h0; cases pruned <;> simp [boolNat, terminalAt, List.findSome?_cons]
    · have e1 : ¬ (1 = p) := fun e => h1 e.symm
      have e0 : ¬ (0 = p) := fun e => h0 e.symm
      cases pruned <;> simp [boolNat, h1, h0, e1, e0, terminalAt, List.findSome?_cons]

theorem entryOf_stmts (A : Arr) (names : List String) (pruned : Bool) :
    entryOf (stmtsOf A names pruned) = some (root A) := by
  unfold entryOf stmtsOf preamble
  cases pruned <;> simp [entryAt, List.findSome?_cons]

/-! ### evaluation of the graph read back -/

/-- the graph evaluates like the node array, from every pointer and with every fuel -/
theorem evalGraph_eq {A : Arr} {n : Nat} (hw : WFo A n) (names : List String) (pruned : Bool)
    (val : String → Bool) : ∀ fuel p, p < A.size →
      evalGraph (stmtsOf A names pruned) val fuel p = evalF A (fun x => val (names[x]?.getD "")) fuel p := by
  intro fuel
  induction fuel with
  | zero =>
    intro p hp
    rw [evalGraph, findTerminal_stmts]
    by_cases h1 : p = 1
    · subst h1; simp [evalF_one]
    · by_cases h0 : p = 0
      · subst h0; cases pruned <;> simp [evalF_zero]
      · simp only [h1, h0, false_and, if_false]
        cases p with
        | zero => omega
        | succ p => cases p with
          | zero => omega
          | succ p => simp [evalF]
  | succ fuel ih =>
    intro p hp
    rw [evalGraph, findTerminal_stmts]
    by_cases h1 : p = 1
    · subst h1; simp [evalF_one]
    · by_cases h0 : p = 0
      · subst h0
        cases pruned
        · simp [evalF_zero]
        · simp [evalF_zero, findVertex_terminal A names true 0 (by omega)]
      · have hp2 : 2 ≤ p := by omega
        have hin : p ∈ innerPtrs A := mem_innerPtrs.2 ⟨hp2, hp⟩
        have hnd : A[p]? = some A[p] := by simp [hp]
        obtain ⟨_, hlo, hhi, _, _⟩ := hw.inner p A[p] hp2 hnd
        simp only [h1, h0, false_and, if_false]
        rw [findVertex_stmts names pruned p hin, evalF_succ A _ fuel p hp2 _ hnd, nodeAt_eq hnd]
        simp only
        rw [findEdge_stmts names pruned p hin, nodeAt_eq hnd]
        cases hv : val (names[(A[p]).var]?.getD "")
        · simp only [Bool.false_eq_true, if_false]
          by_cases hc : (!pruned || (A[p]).low != 0) = true
          · simp only [hc, if_true]; exact ih _ hlo
          · have : (A[p]).low = 0 := by
              have : pruned = true ∧ (A[p]).low = 0 := by simpa using hc
              exact this.2
            rw [if_neg hc, this, evalF_zero]
        · simp only [if_true]
          by_cases hc : (!pruned || (A[p]).high != 0) = true
          · simp only [hc, if_true]; exact ih _ hhi
          · have : (A[p]).high = 0 := by
              have : pruned = true ∧ (A[p]).high = 0 := by simpa using hc
              exact this.2
            rw [if_neg hc, this, evalF_zero]

end B.Dot
