import BddVerif.Lemmas.RelPVal
/-!
Selection, one-variable quantification and picking: every model operation is shown to return the canonical
array of an explicit Boolean function (`IsCanon`), and the function of `pick` / `pick_random` is shown to
choose exactly one member of every non-empty class (`PickOK`), by induction over the variable list.
-/
namespace B.Rel
open B Std

abbrev F := (Nat → Bool) → Bool

/-! ### the Boolean functions -/

/-- `∃ x. f` -/
def exF (x : Nat) (f : F) : F := fun v => f v || f (flipV x v)
/-- `var_pick` with preferred value `c`: keep `v ∈ f` unless its `x`-twin is in `f` and is the preferred one -/
def pickF (x : Nat) (c : Bool) (f : F) : F := fun v => f v && (v x == c || !f (flipV x v))

/-- `r_pick` on functions; the list carries the coin of every variable (last variable first) -/
def rPickC : F → List (Nat × Bool) → F
  | f, [] => f
  | f, (x, c) :: rest => fun v => rPickC (exF x f) rest v && pickF x c f v

theorem flipV_agree (x : Nat) {n : Nat} {v w : Nat → Bool} (h : ∀ i, i < n → v i = w i) :
    ∀ i, i < n → flipV x v i = flipV x w i := by
  intro i hi
  exact inv_agree _ _ _ _ (h i hi)

theorem exF_dep {n x : Nat} {f : F} (hf : DepN n f) : DepN n (exF x f) := by
  intro v w h
  simp only [exF, hf v w h, hf _ _ (flipV_agree x h)]

theorem pickF_dep {n x : Nat} {c : Bool} {f : F} (hf : DepN n f) (hx : x < n) : DepN n (pickF x c f) := by
  intro v w h
  simp only [pickF, hf v w h, hf _ _ (flipV_agree x h), h x hx]

theorem rPickC_dep {n : Nat} : ∀ (L : List (Nat × Bool)) (f : F), DepN n f → (∀ p ∈ L, p.1 < n) →
    DepN n (rPickC f L) := by
  intro L
  induction L with
  | nil => intro f hf _; exact hf
  | cons p rest ih =>
    intro f hf hL
    obtain ⟨x, c⟩ := p
    have h1 := ih (exF x f) (exF_dep hf) (fun p hp => hL p (List.mem_cons_of_mem _ hp))
    have h2 : DepN n (pickF x c f) := pickF_dep hf (hL (x, c) List.mem_cons_self)
    intro v w h
    simp only [rPickC, h1 v w h, h2 v w h]

/-! ### the model operations return canonical arrays of these functions -/

theorem varSelect_isCanon {A : Arr} {n : Nat} (hA : WFo A n) (x : Nat) (b : Bool) (hx : x < n) :
    IsCanon (varSelect A x b) n (fun v => sem A v && (v x == b)) := by
  obtain ⟨hw, hs⟩ := mkLiteral_spec n x b hx
  unfold varSelect
  rw [numVars_of_wf hA]
  exact (bddAnd_isCanon hA hw).congr (fun v => by rw [hs])

theorem select_isCanon {A : Arr} {n : Nat} (hA : WFo A n) (lits : List (Nat × Bool))
    (hl : ∀ l ∈ lits, l.1 < n) :
    IsCanon (select A lits) n (fun v => sem A v && agrees (fromValues lits) v) := by
  obtain ⟨hw, hs⟩ := mkPartialValuation_spec n (fromValues lits) (length_fromValues lits n hl)
  unfold select
  rw [numVars_of_wf hA]
  exact (bddAnd_isCanon hA hw).congr (fun v => by rw [hs])

theorem varExists_isCanon {A : Arr} {n : Nat} (hA : WFo A n) (x : Nat) (hx : x < n) :
    IsCanon (varExists A x) n (exF x (sem A)) := by
  refine ⟨?_, exF_dep (sem_dep hA)⟩
  unfold varExists
  rw [apply_canon hA hA or_consistent (by simp) (fun y h => by cases h; exact hx) (by simp)]
  rfl

theorem varForAll_isCanon {A : Arr} {n : Nat} (hA : WFo A n) (x : Nat) (hx : x < n) :
    IsCanon (varForAll A x) n (fun v => sem A v && sem A (flipV x v)) := by
  refine ⟨?_, ?_⟩
  · unfold varForAll
    rw [apply_canon hA hA and_consistent (by simp) (fun y h => by cases h; exact hx) (by simp)]
    rfl
  · intro v w h
    simp only [sem_dep hA v w h, sem_dep hA _ _ (flipV_agree x h)]

theorem varPickRandom_isCanon {A : Arr} {n : Nat} (hA : WFo A n) (x : Nat) (c : Bool) (hx : x < n) :
    IsCanon (varPickRandom A x c) n (pickF x c (sem A)) := by
  have hS := varSelect_isCanon hA x c hx
  refine ⟨?_, pickF_dep (sem_dep hA) hx⟩
  unfold varPickRandom
  rw [apply_canon hA hS.wfo and_not_consistent (by simp) (fun y h => by cases h; exact hx) (by simp)]
  apply canon_congr
  intro v
  simp only [inv_none, pickF]
  show (sem A v && !sem (varSelect A x c) (flipV x v)) = _
  rw [hS.sem, flipV_at]
  cases sem A v <;> cases sem A (flipV x v) <;> cases v x <;> cases c <;> rfl

theorem varPick_eq (A : Arr) (x : Nat) : varPick A x = varPickRandom A x false := rfl

theorem varPick_isCanon {A : Arr} {n : Nat} (hA : WFo A n) (x : Nat) (hx : x < n) :
    IsCanon (varPick A x) n (pickF x false (sem A)) := by
  rw [varPick_eq]; exact varPickRandom_isCanon hA x false hx

/-- `r_pick` with the coin of every variable made explicit -/
def rPickG : Arr → List (Nat × Bool) → Arr
  | A, [] => A
  | A, (x, c) :: rest => bddAnd (rPickG (varExists A x) rest) (varPickRandom A x c)

theorem rPickG_spec {n : Nat} : ∀ (L : List (Nat × Bool)) (A : Arr), WFo A n → (∀ p ∈ L, p.1 < n) →
    WFo (rPickG A L) n ∧ (∀ v, sem (rPickG A L) v = rPickC (sem A) L v) ∧
    (L ≠ [] → rPickG A L = canon n (rPickC (sem A) L)) := by
  intro L
  induction L with
  | nil => intro A hA _; exact ⟨hA, fun _ => rfl, fun h => absurd rfl h⟩
  | cons p rest ih =>
    intro A hA hL
    obtain ⟨x, c⟩ := p
    have hx : x < n := hL (x, c) List.mem_cons_self
    have hE := varExists_isCanon hA x hx
    obtain ⟨hw, hs, _⟩ := ih (varExists A x) hE.wfo (fun p hp => hL p (List.mem_cons_of_mem _ hp))
    have hP := varPickRandom_isCanon hA x c hx
    have hsemE : sem (varExists A x) = exF x (sem A) := funext hE.sem
    have hand := bddAnd_isCanon hw hP.wfo
    have hfun : ∀ v, (sem (rPickG (varExists A x) rest) v && sem (varPickRandom A x c) v) =
        rPickC (sem A) ((x, c) :: rest) v := by
      intro v; rw [hs, hP.sem, hsemE]; rfl
    have hcan := hand.congr hfun
    exact ⟨hcan.wfo, hcan.sem, fun _ => hcan.eq⟩

/-- the deterministic `r_pick` is `rPickG` with all coins `false` -/
theorem rPick_eq : ∀ (L : List Nat) (A : Arr), rPick A L = rPickG A (L.map fun x => (x, false)) := by
  intro L
  induction L with
  | nil => intro A; rfl
  | cons x rest ih => intro A; simp only [rPick, List.map_cons, rPickG, ih, varPick_eq]

/-- coins as `r_pick` of `pick_random` hands them out: the recursive call draws first -/
def assignCoins : List Nat → List Bool → List (Nat × Bool) × List Bool
  | [], flips => ([], flips)
  | x :: rest, flips =>
    let r := assignCoins rest flips
    let c := drawCoin r.2
    ((x, c.1) :: r.1, c.2)

theorem rPickRandom_eq : ∀ (L : List Nat) (A : Arr) (flips : List Bool),
    rPickRandom A L flips = (rPickG A (assignCoins L flips).1, (assignCoins L flips).2) := by
  intro L
  induction L with
  | nil => intro A flips; rfl
  | cons x rest ih => intro A flips; simp only [rPickRandom, assignCoins, rPickG, ih]

theorem assignCoins_fst : ∀ (L : List Nat) (flips : List Bool), (assignCoins L flips).1.map (·.1) = L := by
  intro L
  induction L with
  | nil => intro _; rfl
  | cons x rest ih => intro flips; simp [assignCoins, ih]

/-! ### exactly one member per class -/

/-- `v` and `w` agree on all variables below `n` that are not listed -/
def AgreeOff (n : Nat) (S : List Nat) (v w : Nat → Bool) : Prop := ∀ i, i < n → i ∉ S → v i = w i

/-- `r` picks from `f` over the variables `S` (functions of the first `n` variables) -/
structure PickOK (n : Nat) (S : List Nat) (f r : F) : Prop where
  /-- the result is a subset of the operand -/
  sub : ∀ v, r v = true → f v = true
  /-- every operand valuation has a witness in the result that differs from it on listed variables only -/
  ex : ∀ v, f v = true → ∃ w, r w = true ∧ ∀ i, i ∉ S → w i = v i
  /-- two members of the result in the same class are the same valuation (of the `n` variables) -/
  uniq : ∀ w w', r w = true → r w' = true → AgreeOff n S w w' → ∀ i, i < n → w i = w' i

/-- `g` does not depend on variable `x` -/
def IndepOf (x : Nat) (g : F) : Prop := ∀ v, g (flipV x v) = g v

theorem flipV_comm (x y : Nat) (v : Nat → Bool) : flipV x (flipV y v) = flipV y (flipV x v) := by
  funext i
  by_cases hx : i = x <;> by_cases hy : i = y
  · subst hx; subst hy; rfl
  · subst hx; rw [flipV_at, flipV_ne _ _ _ hy, flipV_ne _ _ _ hy, flipV_at]
  · subst hy; rw [flipV_ne _ _ _ hx, flipV_at, flipV_at, flipV_ne _ _ _ hx]
  · rw [flipV_ne _ _ _ hx, flipV_ne _ _ _ hy, flipV_ne _ _ _ hy, flipV_ne _ _ _ hx]

theorem exF_indep_self (x : Nat) (f : F) : IndepOf x (exF x f) := by
  intro v; simp only [exF, flipV_flipV, Bool.or_comm]

theorem exF_indep {x y : Nat} {f : F} (h : IndepOf y f) : IndepOf y (exF x f) := by
  intro v; simp only [exF, flipV_comm x y]; rw [h v, h (flipV x v)]

theorem pickF_indep {x y : Nat} {c : Bool} {f : F} (h : IndepOf y f) (hxy : x ≠ y) : IndepOf y (pickF x c f) := by
  intro v; simp only [pickF, flipV_comm x y, flipV_ne y v x hxy]; rw [h v, h (flipV x v)]

theorem rPickC_indep {y : Nat} : ∀ (L : List (Nat × Bool)) (f : F), IndepOf y f → (∀ p ∈ L, p.1 ≠ y) →
    IndepOf y (rPickC f L) := by
  intro L
  induction L with
  | nil => intro f hf _; exact hf
  | cons p rest ih =>
    intro f hf hL
    obtain ⟨x, c⟩ := p
    have h1 := ih (exF x f) (exF_indep hf) (fun p hp => hL p (List.mem_cons_of_mem _ hp))
    have h2 : IndepOf y (pickF x c f) := pickF_indep hf (hL (x, c) List.mem_cons_self)
    intro v
    simp only [rPickC, h1 v, h2 v]

/-- of a valuation and its `x`-twin, one of which is in `f`, `var_pick` keeps (at least) one -/
theorem pickF_choose (x : Nat) (c : Bool) (f : F) (w : Nat → Bool) (h : (f w || f (flipV x w)) = true) :
    pickF x c f w = true ∨ pickF x c f (flipV x w) = true := by
  simp only [pickF, flipV_flipV, flipV_at]
  revert h
  cases f w <;> cases f (flipV x w) <;> cases w x <;> cases c <;> simp

theorem upd_eq_self_or_flip (w : Nat → Bool) (x : Nat) (b : Bool) : upd w x b = w ∨ upd w x b = flipV x w := by
  by_cases h : b = w x
  · left; funext i; by_cases hi : i = x
    · subst hi; simp [upd, h]
    · simp [upd, hi]
  · right; funext i; by_cases hi : i = x
    · subst hi; rw [flipV_at]; simp [upd]; cases b <;> cases hw : w i <;> simp_all
    · rw [flipV_ne _ _ _ hi]; simp [upd, hi]

/-- the induction: `r_pick` over duplicate-free variables chooses exactly one member per class, whatever the
    coins are -/
theorem rPickC_ok {n : Nat} : ∀ (L : List (Nat × Bool)) (f : F), DepN n f → (∀ p ∈ L, p.1 < n) →
    (L.map (·.1)).Nodup → PickOK n (L.map (·.1)) f (rPickC f L) := by
  intro L
  induction L with
  | nil =>
    intro f hf _ _
    refine ⟨fun _ h => h, fun v h => ⟨v, h, fun _ _ => rfl⟩, ?_⟩
    intro w w' _ _ hag i hi
    exact hag i hi (by simp)
  | cons p rest ih =>
    intro f hf hL hnd
    obtain ⟨x, c⟩ := p
    simp only [List.map_cons, List.nodup_cons] at hnd
    obtain ⟨hxS, hndS⟩ := hnd
    have hx : x < n := hL (x, c) List.mem_cons_self
    have hLr : ∀ p ∈ rest, p.1 < n := fun p hp => hL p (List.mem_cons_of_mem _ hp)
    have IH := ih (exF x f) (exF_dep hf) hLr hndS
    have hind : IndepOf x (rPickC (exF x f) rest) := by
      apply rPickC_indep rest _ (exF_indep_self x f)
      intro p hp e
      exact hxS (by rw [← e]; exact List.mem_map_of_mem hp)
    have hr : ∀ v, rPickC f ((x, c) :: rest) v = (rPickC (exF x f) rest v && pickF x c f v) := fun _ => rfl
    refine ⟨?_, ?_, ?_⟩
    · intro v h
      rw [hr, Bool.and_eq_true] at h
      have := h.2
      simp only [pickF, Bool.and_eq_true] at this
      exact this.1
    · intro v hv
      have hg : exF x f v = true := by simp [exF, hv]
      obtain ⟨w', hw', hag⟩ := IH.ex v hg
      have hgw' : exF x f w' = true := IH.sub w' hw'
      rcases pickF_choose x c f w' hgw' with hp | hp
      · refine ⟨w', by rw [hr, hw', hp]; rfl, ?_⟩
        intro i hi
        exact hag i (fun h => hi (by simp [h]))
      · refine ⟨flipV x w', by rw [hr, hind w', hw', hp]; rfl, ?_⟩
        intro i hi
        have hix : i ≠ x := fun e => hi (by simp [e])
        rw [flipV_ne _ _ _ hix]
        exact hag i (fun h => hi (by simp [h]))
    · intro w w' hw hw' hag
      rw [hr, Bool.and_eq_true] at hw hw'
      obtain ⟨hrw, hpw⟩ := hw
      obtain ⟨hrw', hpw'⟩ := hw'
      -- move `w'` to the `x`-value of `w`; the inner result does not see the difference
      have hrw'' : rPickC (exF x f) rest (upd w' x (w x)) = true := by
        rcases upd_eq_self_or_flip w' x (w x) with e | e
        · rw [e]; exact hrw'
        · rw [e, hind w']; exact hrw'
      have hag' : AgreeOff n (rest.map (·.1)) w (upd w' x (w x)) := by
        intro i hi hiS
        by_cases hix : i = x
        · subst hix; simp [upd]
        · simp only [upd, hix, if_false]
          exact hag i hi (by simp [hix, hiS])
      have hrest := IH.uniq w (upd w' x (w x)) hrw hrw'' hag'
      have hoff : ∀ i, i < n → i ≠ x → w i = w' i := by
        intro i hi hix
        have := hrest i hi
        simpa [upd, hix] using this
      -- the `x`-values: if they differed, both twins would be in `f` and both would have to be the preferred one
      have hxx : w x = w' x := by
        have hfw : f w = true := by simp only [pickF, Bool.and_eq_true] at hpw; exact hpw.1
        have hfw' : f w' = true := by simp only [pickF, Bool.and_eq_true] at hpw'; exact hpw'.1
        by_cases h : w x = w' x
        · exact h
        · exfalso
          have hne : w x = !(w' x) := by
            revert h; cases w x <;> cases w' x <;> simp
          have e1 : f (flipV x w) = f w' := by
            apply hf; intro i hi
            by_cases hix : i = x
            · subst hix; rw [flipV_at, hne]; simp
            · rw [flipV_ne _ _ _ hix]; exact hoff i hi hix
          have e2 : f (flipV x w') = f w := by
            apply hf; intro i hi
            by_cases hix : i = x
            · subst hix; rw [flipV_at, hne]
            · rw [flipV_ne _ _ _ hix]; exact (hoff i hi hix).symm
          simp only [pickF, e1, e2, hfw, hfw', Bool.not_true, Bool.or_false, Bool.true_and, beq_iff_eq] at hpw hpw'
          rw [hpw, hpw'] at hne
          cases c <;> simp at hne
      intro i hi
      by_cases hix : i = x
      · subst hix; exact hxx
      · exact hoff i hi hix

/-- the class structure only depends on the SET of listed variables -/
theorem PickOK.of_same_mem {n : Nat} {S S' : List Nat} {f r : F} (h : PickOK n S f r)
    (hm : ∀ i, i ∈ S ↔ i ∈ S') : PickOK n S' f r := by
  refine ⟨h.sub, ?_, ?_⟩
  · intro v hv
    obtain ⟨w, hw, hag⟩ := h.ex v hv
    exact ⟨w, hw, fun i hi => hag i (fun hh => hi ((hm i).1 hh))⟩
  · intro w w' hw hw' hag
    exact h.uniq w w' hw hw' (fun i hi hiS => hag i hi (fun hh => hiS ((hm i).2 hh)))

/-! ### `sorted`: ascending and duplicate-free, same members -/

theorem mem_dedupAdj : ∀ (l : List Nat) (x : Nat), x ∈ dedupAdj l ↔ x ∈ l := by
  intro l
  induction l with
  | nil => intro x; simp [dedupAdj]
  | cons a t ih =>
    intro x
    cases t with
    | nil => simp [dedupAdj]
    | cons b t' =>
      simp only [dedupAdj]
      split
      · rename_i hab; subst hab
        rw [ih]; simp
      · rw [List.mem_cons, ih]; simp

theorem nodup_dedupAdj : ∀ (l : List Nat), l.Pairwise (fun a b => a ≤ b) → (dedupAdj l).Pairwise (fun a b => a < b) := by
  intro l
  induction l with
  | nil => intro _; simp [dedupAdj]
  | cons a t ih =>
    intro hs
    cases t with
    | nil => simp [dedupAdj]
    | cons b t' =>
      rw [List.pairwise_cons] at hs
      obtain ⟨ha, hs'⟩ := hs
      simp only [dedupAdj]
      split
      · exact ih hs'
      · rename_i hab
        rw [List.pairwise_cons]
        refine ⟨?_, ih hs'⟩
        intro y hy
        rw [mem_dedupAdj] at hy
        have hab' : a ≤ b := ha b List.mem_cons_self
        have hby : b ≤ y := by
          rw [List.pairwise_cons] at hs'
          rcases List.mem_cons.1 hy with e | e
          · rw [e]; exact Nat.le_refl _
          · exact hs'.1 y e
        omega

theorem mem_sortedVars (vars : List Nat) (x : Nat) : x ∈ sortedVars vars ↔ x ∈ vars := by
  unfold sortedVars; rw [mem_dedupAdj, List.mem_mergeSort]

theorem sortedVars_strict (vars : List Nat) : (sortedVars vars).Pairwise (fun a b => a < b) := by
  unfold sortedVars
  apply nodup_dedupAdj
  have := List.pairwise_mergeSort (le := fun a b : Nat => decide (a ≤ b))
    (by intro a b c h1 h2; simp at h1 h2 ⊢; omega) (by intro a b; simp; omega) vars
  exact this.imp (by intro a b h; simpa using h)

theorem nodup_sortedVars_reverse (vars : List Nat) : (sortedVars vars).reverse.Nodup := by
  unfold List.Nodup
  rw [List.pairwise_reverse]
  exact (sortedVars_strict vars).imp (by intro a b h; omega)

/-! ### the model of `r_pick`, any coins, variables = reversed `sorted` list -/

theorem rPickG_pickOK {A : Arr} {n : Nat} (hA : WFo A n) (L : List (Nat × Bool)) (hL : ∀ p ∈ L, p.1 < n)
    (hnd : (L.map (·.1)).Nodup) : PickOK n (L.map (·.1)) (sem A) (sem (rPickG A L)) := by
  obtain ⟨_, hs, _⟩ := rPickG_spec L A hA hL
  have : sem (rPickG A L) = rPickC (sem A) L := funext hs
  rw [this]
  exact rPickC_ok L (sem A) (sem_dep hA) hL hnd

/-- what both `pick` and `pick_random` come down to: a coin list `L` over the reversed sorted variables -/
theorem pickG_of_vars {A : Arr} {n : Nat} (hA : WFo A n) (vars : List Nat) (hv : ∀ x ∈ vars, x < n)
    (L : List (Nat × Bool)) (hL : L.map (·.1) = (sortedVars vars).reverse) :
    PickOK n vars (sem A) (sem (rPickG A L)) ∧ WFo (rPickG A L) n ∧
    (vars ≠ [] → rPickG A L = canon n (sem (rPickG A L))) := by
  have hmem : ∀ i, i ∈ L.map (·.1) ↔ i ∈ vars := by
    intro i; rw [hL, List.mem_reverse, mem_sortedVars]
  have hLb : ∀ p ∈ L, p.1 < n := by
    intro p hp; exact hv _ ((hmem p.1).1 (List.mem_map_of_mem hp))
  have hnd : (L.map (·.1)).Nodup := by rw [hL]; exact nodup_sortedVars_reverse vars
  obtain ⟨hw, hs, hc⟩ := rPickG_spec L A hA hLb
  refine ⟨(rPickG_pickOK hA L hLb hnd).of_same_mem hmem, hw, ?_⟩
  intro hne
  have hLne : L ≠ [] := by
    intro e
    cases vars with
    | nil => exact hne rfl
    | cons a t =>
      have := (hmem a).2 List.mem_cons_self
      rw [e] at this; simp at this
  rw [hc hLne]
  apply canon_congr
  intro v
  rw [← hs v, ← hc hLne]

theorem pick_eq_rPickG (A : Arr) (vars : List Nat) :
    pick A vars = rPickG A ((sortedVars vars).reverse.map fun x => (x, false)) := by
  unfold pick; rw [rPick_eq]

theorem pickRandom_eq_rPickG (A : Arr) (vars : List Nat) (flips : List Bool) :
    pickRandom A vars flips = rPickG A (assignCoins (sortedVars vars).reverse flips).1 := by
  unfold pickRandom; rw [rPickRandom_eq]

end B.Rel
