import BddVerif.Lemmas.AlgoEqLimitStep
import BddVerif.Lemmas.Limit
/-!
`apply_with_flip_and_limit`, part 2: the explicit task stack of the Rust loop against the recursion of `Lim.applyRecLim`.

`lim_sim`: from a loop state whose stack is `rest.push (l, r)` the loop pops `(l, r)` after at most
`1 + 4·(number of newly finished tasks)` iterations and then `result`, `existing`, `finished`, `is_not_empty` are exactly
the state computed by the recursive model — or, if the model refuses (`none`), the loop leaves with `return None` after at
most `2·fuel_of_the_recursion + 4·N + 4` iterations (`N` bounds the number of tasks).
-/
namespace B.AlgoDL
open B B.Gen B.Lim Std

/-- every finished task is a pair of valid pointers -/
def InRM (Γ : Ctx) (F : HashMap (Nat × Nat) Nat) : Prop :=
  ∀ p, F.contains p = true → p.1 < Γ.L.size ∧ p.2 < Γ.R.size

structure Good (Γ : Ctx) (s : St) : Prop where
  inr : InRM Γ s.finished
  size : s.res.size ≤ s.finished.size + 2

/-- `finished` only grows, and only by tasks on level `≥ dd` -/
structure Ext (Γ : Ctx) (s s' : St) (dd : Nat) : Prop where
  keep : ∀ (key : Nat × Nat) (v : Nat), s.finished[key]? = some v → s'.finished[key]? = some v
  frame : ∀ a b, lvl Γ a b < dd → s'.finished[(a, b)]? = s.finished[(a, b)]?

theorem Ext.refl (Γ : Ctx) (s : St) (dd : Nat) : Ext Γ s s dd := ⟨fun _ _ h => h, fun _ _ _ => rfl⟩

theorem Ext.trans {Γ : Ctx} {s1 s2 s3 : St} {dd : Nat} (h1 : Ext Γ s1 s2 dd) (h2 : Ext Γ s2 s3 dd) : Ext Γ s1 s3 dd :=
  ⟨fun k v h => h2.keep k v (h1.keep k v h), fun a b h => by rw [h2.frame a b h, h1.frame a b h]⟩

theorem Ext.mono {Γ : Ctx} {s1 s2 : St} {d1 d2 : Nat} (h : Ext Γ s1 s2 d1) (hd : d2 ≤ d1) : Ext Γ s1 s2 d2 :=
  ⟨h.keep, fun a b hl => h.frame a b (by omega)⟩

theorem lookupT_keep (op : Op2) (F F' : HashMap (Nat × Nat) Nat) (hk : ∀ (key : Nat × Nat) (v : Nat), F[key]? = some v → F'[key]? = some v)
    (a b p : Nat) (h : lookupT op F a b = some p) : lookupT op F' a b = some p := by
  cases hop : op (asBool a) (asBool b) with
  | some c => rw [lookupT_op_some op F a b c hop] at h; rw [lookupT_op_some op F' a b c hop]; exact h
  | none => rw [lookupT_op_none op F a b hop] at h; rw [lookupT_op_none op F' a b hop]; exact hk _ _ h

/-- what the loop does while the model computes `res` from `s` -/
def CRes (Γ : Ctx) (step : LS → Outcome (ForInStep LS)) (res : Option (St × Nat)) (s : St)
    (st0 st1 : Array (Nat × Nat)) (look : St → Option Nat) (dd c ab : Nat) : Prop :=
  match res with
  | some out => Good Γ out.1 ∧ Ext Γ s out.1 dd ∧ look out.1 = some out.2 ∧
      ∃ k, k + 4 * s.finished.size ≤ c + 4 * out.1.finished.size ∧
        ∀ m, loopN step (m + k) (mkL s st0) = loopN step m (mkL out.1 st1)
  | none => ∃ k, ∃ σ' : LS, σ'.1 = some none ∧ k + 4 * s.finished.size ≤ ab ∧
      ∀ m, loopN step (m + k) (mkL s st0) = .ok σ'

def LSimAt (Γ : Ctx) (lim N : Nat) (step : LS → Outcome (ForInStep LS)) (f : Nat) : Prop :=
  ∀ l r (s : St) (rest : Array (Nat × Nat)), l < Γ.L.size → r < Γ.R.size → Γ.n < f + lvl Γ l r → Good Γ s →
    CRes Γ step (applyRecLim Γ lim f l r s) s (rest.push (l, r)) rest (fun s' => s'.finished[(l, r)]?)
      (lvl Γ l r) 1 (2 * f + 4 * N + 4)

structure LOk (Γ : Ctx) : Prop where
  wfL : WFo Γ.L Γ.n
  wfR : WFo Γ.R Γ.n
  total : ∀ a b, (Γ.op (some a) (some b)).isSome = true

theorem lvl_le' {Γ : Ctx} (ok : LOk Γ) (l r : Nat) : lvl Γ l r ≤ Γ.n := by
  unfold lvl
  have := ok.wfL.varOf_le l
  omega

/-- a sub-task as seen from its parent: answered by the table, found in `finished` (both: nothing on the stack), or
    pushed and solved by the loop -/
theorem child_sim (Γ : Ctx) (ok : LOk Γ) (lim N : Nat) (step : LS → Outcome (ForInStep LS)) (f : Nat)
    (ih : LSimAt Γ lim N step f) (a b : Nat) (s0 s : St) (st : Array (Nat × Nat)) (dd : Nat)
    (hkeep : ∀ (key : Nat × Nat) (v : Nat), s0.finished[key]? = some v → s.finished[key]? = some v)
    (hP : Γ.op (asBool a) (asBool b) = none → a < Γ.L.size ∧ b < Γ.R.size ∧ Γ.n < f + lvl Γ a b ∧ dd ≤ lvl Γ a b)
    (hg : Good Γ s) :
    CRes Γ step (solveLim Γ.op (applyRecLim Γ lim f) a b s) s
      (if (lookupT Γ.op s0.finished a b).isNone then st.push (a, b) else st) st
      (fun s' => lookupT Γ.op s'.finished a b) dd (if (lookupT Γ.op s0.finished a b).isNone then 1 else 0)
      (2 * f + 4 * N + 4) := by
  unfold solveLim
  cases hop : Γ.op (asBool a) (asBool b) with
  | some c =>
    simp only [lookupT_op_some Γ.op s0.finished a b c hop, Option.isNone_some, Bool.false_eq_true, if_false]
    exact ⟨hg, Ext.refl Γ s dd, lookupT_op_some Γ.op s.finished a b c hop, 0, Nat.le_refl _, fun m => rfl⟩
  | none =>
    obtain ⟨ha, hb, hlev, hdd⟩ := hP hop
    simp only [lookupT_op_none Γ.op s0.finished a b hop]
    cases hq : s0.finished[(a, b)]? with
    | some p =>
      simp only [Option.isNone_some, Bool.false_eq_true, if_false]
      have hs : s.finished[(a, b)]? = some p := hkeep _ _ hq
      cases f with
      | zero => have := lvl_le' ok a b; omega
      | succ f =>
        have : applyRecLim Γ lim (f + 1) a b s = some (s, p) := by
          show applyStepLim Γ lim (applyRecLim Γ lim f) a b s = _
          unfold applyStepLim
          simp only [hs]
        rw [this]
        refine ⟨hg, Ext.refl Γ s dd, ?_, 0, Nat.le_refl _, fun m => rfl⟩
        show lookupT Γ.op s.finished a b = some p
        rw [lookupT_op_none Γ.op s.finished a b hop]; exact hs
    | none =>
      simp only [Option.isNone_none, if_true]
      have h := ih a b s st ha hb hlev hg
      cases hres : applyRecLim Γ lim f a b s with
      | none =>
        rw [hres] at h
        exact h
      | some out =>
        rw [hres] at h
        obtain ⟨hg', hext, hlook, hk⟩ := h
        refine ⟨hg', hext.mono hdd, ?_, hk⟩
        show lookupT Γ.op out.1.finished a b = some out.2
        rw [lookupT_op_none Γ.op out.1.finished a b hop]; exact hlook

/-- contract of the finishing iteration, relative to a model function `fin2` (an instance of `finishLim`) -/
def FinSpec (Γ : Ctx) (step : LS → Outcome (ForInStep LS)) (l r : Nat) (rest : Array (Nat × Nat)) (a1 b1 a2 b2 : Nat)
    (fin2 : St → Nat → Nat → Option (St × Nat)) : Prop :=
  ∀ (s2 : St) (p1 p2 : Nat), Good Γ s2 → s2.finished[(l, r)]? = none →
    lookupT Γ.op s2.finished a1 b1 = some p1 → lookupT Γ.op s2.finished a2 b2 = some p2 →
    match fin2 s2 p1 p2 with
    | some out => step (mkL s2 (rest.push (l, r))) = .ok (.yield (mkL out.1 rest)) ∧
        out.1.finished = s2.finished.insert (l, r) out.2 ∧ out.1.res.size ≤ s2.res.size + 1
    | none => ∃ σ' : LS, σ'.1 = some none ∧ step (mkL s2 (rest.push (l, r))) = .ok (.done σ')

/-- a task that is not yet finished: first look (push what is missing), first sub-task, second sub-task, second look
    (finish). `(a1, b1)` is the sub-task processed first. -/
theorem parent_core (Γ : Ctx) (ok : LOk Γ) (lim N : Nat) (step : LS → Outcome (ForInStep LS)) (f : Nat)
    (ih : LSimAt Γ lim N step f) (hN : ∀ F, InRM Γ F → F.size ≤ N)
    (l r : Nat) (s : St) (rest : Array (Nat × Nat)) (hl : l < Γ.L.size) (hr : r < Γ.R.size) (hg : Good Γ s)
    (hnc : s.finished[(l, r)]? = none) (a1 b1 a2 b2 : Nat)
    (hP1 : Γ.op (asBool a1) (asBool b1) = none →
      a1 < Γ.L.size ∧ b1 < Γ.R.size ∧ Γ.n < f + lvl Γ a1 b1 ∧ lvl Γ l r + 1 ≤ lvl Γ a1 b1)
    (hP2 : Γ.op (asBool a2) (asBool b2) = none →
      a2 < Γ.L.size ∧ b2 < Γ.R.size ∧ Γ.n < f + lvl Γ a2 b2 ∧ lvl Γ l r + 1 ≤ lvl Γ a2 b2)
    (fin2 : St → Nat → Nat → Option (St × Nat))
    (hfirst : ¬ ((lookupT Γ.op s.finished a1 b1).isSome = true ∧ (lookupT Γ.op s.finished a2 b2).isSome = true) →
      step (mkL s (rest.push (l, r))) = .ok (.yield (mkL s
        (if (lookupT Γ.op s.finished a1 b1).isNone then
          (if (lookupT Γ.op s.finished a2 b2).isNone then (rest.push (l, r)).push (a2, b2) else rest.push (l, r)).push (a1, b1)
         else (if (lookupT Γ.op s.finished a2 b2).isNone then (rest.push (l, r)).push (a2, b2) else rest.push (l, r))))))
    (hfin : FinSpec Γ step l r rest a1 b1 a2 b2 fin2) :
    (solveLim Γ.op (applyRecLim Γ lim f) a1 b1 s = none →
      CRes Γ step none s (rest.push (l, r)) rest (fun s' => s'.finished[(l, r)]?) (lvl Γ l r) 1 (2 * (f + 1) + 4 * N + 4)) ∧
    (∀ r1, solveLim Γ.op (applyRecLim Γ lim f) a1 b1 s = some r1 →
      solveLim Γ.op (applyRecLim Γ lim f) a2 b2 r1.1 = none →
      CRes Γ step none s (rest.push (l, r)) rest (fun s' => s'.finished[(l, r)]?) (lvl Γ l r) 1 (2 * (f + 1) + 4 * N + 4)) ∧
    (∀ r1 r2, solveLim Γ.op (applyRecLim Γ lim f) a1 b1 s = some r1 →
      solveLim Γ.op (applyRecLim Γ lim f) a2 b2 r1.1 = some r2 →
      CRes Γ step (fin2 r2.1 r1.2 r2.2) s (rest.push (l, r)) rest (fun s' => s'.finished[(l, r)]?) (lvl Γ l r) 1
        (2 * (f + 1) + 4 * N + 4)) := by
  generalize hstA : rest.push (l, r) = stA at *
  generalize hstB : (if (lookupT Γ.op s.finished a2 b2).isNone then stA.push (a2, b2) else stA) = stB at *
  generalize hstC : (if (lookupT Γ.op s.finished a1 b1).isNone then stB.push (a1, b1) else stB) = stC at *
  -- first look
  obtain ⟨e, he1, hrunE⟩ : ∃ e, e ≤ 1 ∧ ∀ m, loopN step (m + e) (mkL s stA) = loopN step m (mkL s stC) := by
    by_cases hboth : (lookupT Γ.op s.finished a1 b1).isSome = true ∧ (lookupT Γ.op s.finished a2 b2).isSome = true
    · refine ⟨0, by omega, fun m => ?_⟩
      have e1 : (lookupT Γ.op s.finished a1 b1).isNone = false := by
        cases h : lookupT Γ.op s.finished a1 b1 <;> simp [h] at hboth ⊢
      have e2 : (lookupT Γ.op s.finished a2 b2).isNone = false := by
        cases h : lookupT Γ.op s.finished a2 b2 <;> simp [h] at hboth ⊢
      simp only [e1, e2, Bool.false_eq_true, if_false] at hstB hstC
      rw [← hstC, ← hstB]; rfl
    · exact ⟨1, by omega, fun m => loopN_yield (hfirst hboth) m⟩
  have C1 := child_sim Γ ok lim N step f ih a1 b1 s s stB (lvl Γ l r + 1) (fun _ _ h => h) hP1 hg
  rw [hstC] at C1
  have hc1 : (if (lookupT Γ.op s.finished a1 b1).isNone = true then 1 else 0) ≤ 1 := by split <;> omega
  have hc2 : (if (lookupT Γ.op s.finished a2 b2).isNone = true then 1 else 0) ≤ 1 := by split <;> omega
  generalize (if (lookupT Γ.op s.finished a1 b1).isNone = true then 1 else 0) = c1 at C1 hc1
  refine ⟨?_, ?_, ?_⟩
  · intro h1
    rw [h1] at C1
    obtain ⟨k, σ', hσ, hk, hrun⟩ := C1
    refine ⟨k + e, σ', hσ, by omega, fun m => ?_⟩
    rw [← Nat.add_assoc, hrunE, hrun]
  · intro r1 h1 h2
    rw [h1] at C1
    obtain ⟨hg1, hext1, hlook1, k1, hk1, hrun1⟩ := C1
    have C2 := child_sim Γ ok lim N step f ih a2 b2 s r1.1 stA (lvl Γ l r + 1) hext1.keep hP2 hg1
    rw [hstB, h2] at C2
    generalize (if (lookupT Γ.op s.finished a2 b2).isNone = true then 1 else 0) = c2 at C2 hc2
    obtain ⟨k2, σ', hσ, hk2, hrun2⟩ := C2
    refine ⟨k2 + k1 + e, σ', hσ, by omega, fun m => ?_⟩
    rw [← Nat.add_assoc, hrunE, ← Nat.add_assoc, hrun1, hrun2]
  · intro r1 r2 h1 h2
    rw [h1] at C1
    obtain ⟨hg1, hext1, hlook1, k1, hk1, hrun1⟩ := C1
    have C2 := child_sim Γ ok lim N step f ih a2 b2 s r1.1 stA (lvl Γ l r + 1) hext1.keep hP2 hg1
    rw [hstB, h2] at C2
    generalize (if (lookupT Γ.op s.finished a2 b2).isNone = true then 1 else 0) = c2 at C2 hc2
    obtain ⟨hg2, hext2, hlook2, k2, hk2, hrun2⟩ := C2
    have hnc2 : r2.1.finished[(l, r)]? = none := by
      rw [hext2.frame l r (by omega), hext1.frame l r (by omega)]; exact hnc
    have hlook1' : lookupT Γ.op r2.1.finished a1 b1 = some r1.2 := lookupT_keep Γ.op _ _ hext2.keep a1 b1 r1.2 hlook1
    have hF := hfin r2.1 r1.2 r2.2 hg2 hnc2 hlook1' hlook2
    have hF2 := hN _ hg2.inr
    rw [hstA] at hF
    cases hres : fin2 r2.1 r1.2 r2.2 with
    | none =>
      rw [hres] at hF
      obtain ⟨σ', hσ, hstep⟩ := hF
      refine ⟨1 + k2 + k1 + e, σ', hσ, by omega, fun m => ?_⟩
      rw [← Nat.add_assoc, hrunE, ← Nat.add_assoc, hrun1, ← Nat.add_assoc, hrun2]
      exact loopN_done hstep m
    | some out =>
      rw [hres] at hF
      obtain ⟨hstep, hfinEq, hsz⟩ := hF
      have hnotin : ¬ ((l, r) ∈ r2.1.finished) := by
        intro hm
        have := HashMap.getElem?_eq_some_getElem hm (m := r2.1.finished)
        rw [hnc2] at this; cases this
      have hsize : out.1.finished.size = r2.1.finished.size + 1 := by
        rw [hfinEq, HashMap.size_insert]; simp [hnotin]
      refine ⟨⟨?_, ?_⟩, ⟨?_, ?_⟩, ?_, 1 + k2 + k1 + e, by omega, fun m => ?_⟩
      · intro p hp
        rw [hfinEq, HashMap.contains_insert] at hp
        by_cases e' : ((l, r) == p) = true
        · have : (l, r) = p := by simpa using e'
          subst this; exact ⟨hl, hr⟩
        · simp only [e', Bool.false_or] at hp
          exact hg2.inr p hp
      · have := hg2.size; omega
      · intro key v hv
        have h2' := hext2.keep key v (hext1.keep key v hv)
        rw [hfinEq, HashMap.getElem?_insert]
        by_cases e' : ((l, r) == key) = true
        · have : (l, r) = key := by simpa using e'
          subst this; rw [hnc2] at h2'; cases h2'
        · simp only [e', Bool.false_eq_true, if_false]; exact h2'
      · intro a b hab
        rw [hfinEq, HashMap.getElem?_insert]
        have e' : ((l, r) == (a, b)) = false := by
          apply Bool.eq_false_iff.2
          intro h
          have : (l, r) = (a, b) := by simpa using h
          cases this; omega
        simp only [e', Bool.false_eq_true, if_false]
        rw [hext2.frame a b (by omega), hext1.frame a b (by omega)]
      · show out.1.finished[(l, r)]? = some out.2
        rw [hfinEq, HashMap.getElem?_insert_self]
      · rw [← Nat.add_assoc, hrunE, ← Nat.add_assoc, hrun1, ← Nat.add_assoc, hrun2]
        exact loopN_yield hstep m

theorem finishLim_facts (lim : Nat) (s : St) (l r d lo hi : Nat) (fl : Bool) (out : St × Nat)
    (h : finishLim lim s l r d lo hi fl = some out) :
    out.1.finished = s.finished.insert (l, r) out.2 ∧ out.1.res.size ≤ s.res.size + 1 := by
  rw [finishLim_unfold] at h
  by_cases hlh : lo = hi
  · rw [if_pos hlh] at h
    cases h
    exact ⟨by simp only [flagSt_finished], by simp only [flagSt_res]; omega⟩
  · rw [if_neg hlh] at h
    cases hex : (flagSt s lo hi).existing[nodeOf fl d lo hi]? with
    | some i =>
      rw [hex] at h
      cases h
      exact ⟨by simp only [flagSt_finished], by simp only [flagSt_res]; omega⟩
    | none =>
      rw [hex] at h
      simp only [] at h
      by_cases hl : ((flagSt s lo hi).res.push (nodeOf fl d lo hi)).size > lim
      · rw [if_pos hl] at h; cases h
      · rw [if_neg hl] at h
        cases h
        exact ⟨by simp only [flagSt_finished, flagSt_res], by simp only [flagSt_res, Array.size_push]; omega⟩

theorem inRM_insert {Γ : Ctx} {F : HashMap (Nat × Nat) Nat} (h : InRM Γ F) (l r v : Nat) (hl : l < Γ.L.size)
    (hr : r < Γ.R.size) : InRM Γ (F.insert (l, r) v) := by
  intro p hp
  rw [HashMap.contains_insert] at hp
  by_cases e : ((l, r) == p) = true
  · have : (l, r) = p := by simpa using e
    subst this; exact ⟨hl, hr⟩
  · simp only [e, Bool.false_or] at hp
    exact h p hp

/-- children of a task whose look-up could fail are valid pointers on a deeper level -/
theorem child_facts (Γ : Ctx) (ok : LOk Γ) (f l r : Nat) (hl : l < Γ.L.size) (hr : r < Γ.R.size)
    (hlev : Γ.n < f + 1 + lvl Γ l r) :
    (Γ.op (asBool (kids Γ.L l (lvl Γ l r) Γ.fl).1) (asBool (kids Γ.R r (lvl Γ l r) Γ.fr).1) = none →
      (kids Γ.L l (lvl Γ l r) Γ.fl).1 < Γ.L.size ∧ (kids Γ.R r (lvl Γ l r) Γ.fr).1 < Γ.R.size ∧
      Γ.n < f + lvl Γ (kids Γ.L l (lvl Γ l r) Γ.fl).1 (kids Γ.R r (lvl Γ l r) Γ.fr).1 ∧
      lvl Γ l r + 1 ≤ lvl Γ (kids Γ.L l (lvl Γ l r) Γ.fl).1 (kids Γ.R r (lvl Γ l r) Γ.fr).1) ∧
    (Γ.op (asBool (kids Γ.L l (lvl Γ l r) Γ.fl).2) (asBool (kids Γ.R r (lvl Γ l r) Γ.fr).2) = none →
      (kids Γ.L l (lvl Γ l r) Γ.fl).2 < Γ.L.size ∧ (kids Γ.R r (lvl Γ l r) Γ.fr).2 < Γ.R.size ∧
      Γ.n < f + lvl Γ (kids Γ.L l (lvl Γ l r) Γ.fl).2 (kids Γ.R r (lvl Γ l r) Γ.fr).2 ∧
      lvl Γ l r + 1 ≤ lvl Γ (kids Γ.L l (lvl Γ l r) Γ.fl).2 (kids Γ.R r (lvl Γ l r) Γ.fr).2) := by
  have hle := lvl_le' ok l r
  rcases Nat.lt_or_ge (lvl Γ l r) Γ.n with hlt | hge
  · obtain ⟨kl1, kl2, kl3, kl4⟩ := kids_spec ok.wfL l hl (lvl Γ l r) (by unfold lvl; omega) hlt Γ.fl
    obtain ⟨kr1, kr2, kr3, kr4⟩ := kids_spec ok.wfR r hr (lvl Γ l r) (by unfold lvl; omega) hlt Γ.fr
    refine ⟨fun _ => ⟨kl1, kr1, ?_, ?_⟩, fun _ => ⟨kl2, kr2, ?_, ?_⟩⟩ <;> (unfold lvl at *; omega)
  · have hl2 : l < 2 := ok.wfL.terminal_of_varOf l hl (by
      have := ok.wfL.varOf_le l; unfold lvl at hge; omega)
    have hr2 : r < 2 := ok.wfR.terminal_of_varOf r hr (by
      have := ok.wfR.varOf_le r; unfold lvl at hge; omega)
    rw [kids_terminal ok.wfL l hl hl2, kids_terminal ok.wfR r hr hr2]
    obtain ⟨x, hx, _⟩ := asBool_terminal l hl2
    obtain ⟨y, hy, _⟩ := asBool_terminal r hr2
    have ht := ok.total x y
    constructor <;> intro hop <;> (dsimp only at hop; rw [hx, hy] at hop; rw [hop] at ht; simp at ht)

theorem lim_sim (Γ : Ctx) (ok : LOk Γ) (lim N : Nat) (hN : ∀ F, InRM Γ F → F.size ≤ N)
    (hB : lim ≤ u32Range ∨ N + 2 ≤ u32Range)
    (step : LS → Outcome (ForInStep LS)) (hstep : LimStepSpec Γ lim step) : ∀ f, LSimAt Γ lim N step f := by
  intro f
  induction f with
  | zero =>
    intro l r s rest hl hr hlev _
    have := lvl_le' ok l r
    omega
  | succ f ih =>
    intro l r s rest hl hr hlev hg
    have htop : ∀ s' : St, ∀ t, (mkL s' (rest.push (l, r))).2.2.2.2.1.back? = some t → t.1 < Γ.L.size ∧ t.2 < Γ.R.size := by
      intro s' t ht
      simp only [mkL, Array.back?_push, Option.some.injEq] at ht
      subst ht; exact ⟨hl, hr⟩
    have hs0 := hstep (mkL s (rest.push (l, r))) (htop s)
    show CRes Γ step (applyStepLim Γ lim (applyRecLim Γ lim f) l r s) s _ rest _ _ 1 _
    unfold applyStepLim
    cases hc : s.finished[(l, r)]? with
    | some p =>
      simp only []
      have hcc : s.finished.contains (l, r) = true := by
        rw [HashMap.contains_eq_isSome_getElem?, hc]; rfl
      rw [limStep_cached Γ lim s rest l r hcc] at hs0
      exact ⟨hg, Ext.refl Γ s _, hc, 1, Nat.le_refl _, fun m => loopN_yield hs0 m⟩
    | none =>
      simp only []
      have hcc : s.finished.contains (l, r) = false := by
        rw [HashMap.contains_eq_isSome_getElem?, hc]; rfl
      have hdl : (nodeAt Γ.L l).var = varOf Γ.L Γ.n l := nodeAt_var ok.wfL l hl
      have hdr : (nodeAt Γ.R r).var = varOf Γ.R Γ.n r := nodeAt_var ok.wfR r hr
      have hd : lvl Γ l r = min (nodeAt Γ.L l).var (nodeAt Γ.R r).var := by rw [hdl, hdr]; rfl
      obtain ⟨hP1, hP2⟩ := child_facts Γ ok f l r hl hr hlev
      rw [← hd]
      generalize hkl : kids Γ.L l (lvl Γ l r) Γ.fl = kl at *
      generalize hkr : kids Γ.R r (lvl Γ l r) Γ.fr = kr at *
      -- the finishing iteration
      have hfinish : ∀ (s2 : St) (lo hi : Nat), Good Γ s2 → s2.finished[(l, r)]? = none →
          lookupT Γ.op s2.finished kl.1 kr.1 = some lo → lookupT Γ.op s2.finished kl.2 kr.2 = some hi →
          match finishLim lim s2 l r (lvl Γ l r) lo hi (decide (Γ.fo = some (lvl Γ l r))) with
          | some out => step (mkL s2 (rest.push (l, r))) = .ok (.yield (mkL out.1 rest)) ∧
              out.1.finished = s2.finished.insert (l, r) out.2 ∧ out.1.res.size ≤ s2.res.size + 1
          | none => ∃ σ' : LS, σ'.1 = some none ∧ step (mkL s2 (rest.push (l, r))) = .ok (.done σ') := by
        intro s2 lo hi hg2 hnc2 h1 h2
        have hs2 := hstep (mkL s2 (rest.push (l, r))) (htop s2)
        have hcc2 : s2.finished.contains (l, r) = false := by
          rw [HashMap.contains_eq_isSome_getElem?, hnc2]; rfl
        have hwrap : s2.res.size + 1 ≤ lim → s2.res.size < u32Range := by
          intro hle
          rcases hB with hB | hB
          · omega
          · have h1 := hN _ (inRM_insert hg2.inr l r 0 hl hr)
            have hnotin : ¬ ((l, r) ∈ s2.finished) := by
              intro hm
              have := HashMap.getElem?_eq_some_getElem hm (m := s2.finished)
              rw [hnc2] at this; cases this
            rw [HashMap.size_insert] at h1
            simp only [hnotin, if_false] at h1
            have := hg2.size
            omega
        have key := limStep_finish Γ lim s2 rest l r hcc2 (lvl Γ l r) hd kl kr hkl.symm hkr.symm lo hi h1 h2 hwrap
        cases hres : finishLim lim s2 l r (lvl Γ l r) lo hi (decide (Γ.fo = some (lvl Γ l r))) with
        | none =>
          rw [hres] at key
          obtain ⟨σ', hσ, hk⟩ := key
          exact ⟨σ', hσ, by rw [hs2, hk]⟩
        | some out =>
          rw [hres] at key
          obtain ⟨h1', h2'⟩ := finishLim_facts _ _ _ _ _ _ _ _ _ hres
          exact ⟨by rw [hs2, key], h1', h2'⟩
      -- the pushing iteration
      have hpush : ¬ ((lookupT Γ.op s.finished kl.1 kr.1).isSome = true ∧ (lookupT Γ.op s.finished kl.2 kr.2).isSome = true) →
          step (mkL s (rest.push (l, r))) = .ok (.yield (mkL s (limPush Γ (lvl Γ l r) kl kr
            (lookupT Γ.op s.finished kl.1 kr.1) (lookupT Γ.op s.finished kl.2 kr.2) (rest.push (l, r))))) := by
        intro hq
        rw [hs0, limStep_push Γ lim s rest l r hcc (lvl Γ l r) hd kl kr hkl.symm hkr.symm _ _ rfl rfl hq]
      by_cases hfo : Γ.fo = some (lvl Γ l r)
      · simp only [hfo, if_true]
        have hdec : decide (Γ.fo = some (lvl Γ l r)) = true := by simp [hfo]
        rw [hdec] at hfinish
        obtain ⟨hA, hB', hC⟩ := parent_core Γ ok lim N step f ih hN l r s rest hl hr hg hc kl.1 kr.1 kl.2 kr.2 hP1 hP2
          (fun s2 p1 p2 => finishLim lim s2 l r (lvl Γ l r) p1 p2 true)
          (by intro hq; rw [hpush hq]; simp only [limPush, hfo, if_true])
          (fun s2 p1 p2 hg2 hnc2 h1 h2 => hfinish s2 p1 p2 hg2 hnc2 h1 h2)
        cases e1 : solveLim Γ.op (applyRecLim Γ lim f) kl.1 kr.1 s with
        | none => exact hA e1
        | some r1 =>
          simp only []
          cases e2 : solveLim Γ.op (applyRecLim Γ lim f) kl.2 kr.2 r1.1 with
          | none => exact hB' r1 e1 e2
          | some r2 => exact hC r1 r2 e1 e2
      · simp only [hfo, if_false]
        have hdec : decide (Γ.fo = some (lvl Γ l r)) = false := by simp [hfo]
        rw [hdec] at hfinish
        obtain ⟨hA, hB', hC⟩ := parent_core Γ ok lim N step f ih hN l r s rest hl hr hg hc kl.2 kr.2 kl.1 kr.1 hP2 hP1
          (fun s2 p1 p2 => finishLim lim s2 l r (lvl Γ l r) p2 p1 false)
          (by intro hq; rw [hpush (fun h => hq ⟨h.2, h.1⟩)]; simp only [limPush, hfo, if_false])
          (fun s2 p1 p2 hg2 hnc2 h1 h2 => hfinish s2 p2 p1 hg2 hnc2 h2 h1)
        cases e1 : solveLim Γ.op (applyRecLim Γ lim f) kl.2 kr.2 s with
        | none => exact hA e1
        | some r1 =>
          simp only []
          cases e2 : solveLim Γ.op (applyRecLim Γ lim f) kl.1 kr.1 r1.1 with
          | none => exact hB' r1 e1 e2
          | some r2 => exact hC r1 r2 e1 e2

end B.AlgoDL
