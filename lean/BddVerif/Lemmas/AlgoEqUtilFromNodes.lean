import BddVerif.Lemmas.AlgoEqUtilBase
import BddVerif.Model.Serial
/-!
# `Bdd::from_nodes` (src/_impl_bdd/_impl_util.rs:653): translated code = hand model `B.Serial.fromNodes`

Equal on ALL inputs (also malformed ones), up to the text of the error message (`RelE`): the translated code returns
`Ok(bdd)` exactly when the hand model returns `ok bdd` (the same array), `Err(_)` exactly when the hand model returns
`err _`, and it never panics. No fuel (bounded `for`), no size hypothesis (`to_index` does not truncate).
-/
namespace B.AlgoEqUtil
open B B.Gen B.Serial

attribute [local instance 10000] Rust.monadOutcomeInline

/-- hand-written body of `for node in data.iter().skip(2)`; the state is the early-return value -/
def fnStep (d : Arr) (nv : Nat) (nd : Node) (_st : Option (Except String Arr) × Unit) :
    Outcome (ForInStep (Option (Except String Arr) × Unit)) :=
  if nd.var ≥ nv then .ok (.done (some (.error "Invalid variable {:?} in {:?}."), ())) else
  if nd.low ≥ d.size then .ok (.done (some (.error "Invalid low-link {:?} in {:?}."), ())) else
  if nd.high ≥ d.size then .ok (.done (some (.error "Invalid high-link {:?} in {:?}."), ())) else
  match d[nd.low]? with
  | none => .panic "index out of bounds"
  | some lc =>
    if lc.var ≤ nd.var then .ok (.done (some (.error "Low link {:?} in {:?} breaks ordering."), ())) else
    match d[nd.high]? with
    | none => .panic "index out of bounds"
    | some hc =>
      if hc.var ≤ nd.var then .ok (.done (some (.error "Low link {:?} in {:?} breaks ordering."), ()))
      else .ok (.yield (none, ()))

/-- what the loop of the translated code returns vs. what `fromNodesLoop` returns -/
inductive RelL : Outcome (Option (Except String Arr) × Unit) → Outcome Unit → Prop
  | ok : RelL (.ok (none, ())) (.ok ())
  | err (m m' : String) : RelL (.ok (some (.error m), ())) (.err m')
  | panic (m m' : String) : RelL (.panic m) (.panic m')

theorem fromNodesLoop_rel (d : Arr) (nv : Nat) : ∀ xs : List Node,
    RelL (iterL (fnStep d nv) xs (none, ())) (fromNodesLoop d nv xs) := by
  intro xs
  induction xs with
  | nil => exact RelL.ok
  | cons nd xs ih =>
    rw [iterL_cons]
    unfold fromNodesLoop
    simp only [fnStep, aidx]
    by_cases h1 : nd.var ≥ nv
    · simp only [h1, if_true]; exact RelL.err _ _
    by_cases h2 : nd.low ≥ d.size
    · simp only [h1, h2, if_true, if_false]; exact RelL.err _ _
    by_cases h3 : nd.high ≥ d.size
    · simp only [h1, h2, h3, if_true, if_false]; exact RelL.err _ _
    simp only [h1, h2, h3, if_false]
    cases hl : d[nd.low]? with
    | none => exact RelL.panic _ _
    | some lc =>
      simp only
      by_cases h4 : lc.var ≤ nd.var
      · simp only [h4, if_true]; exact RelL.err _ _
      simp only [h4, if_false]
      cases hh : d[nd.high]? with
      | none => exact RelL.panic _ _
      | some hc =>
        simp only
        by_cases h5 : hc.var ≤ nd.var
        · simp only [h5, if_true]; exact RelL.err _ _
        · simp only [h5, if_false]; exact ih

theorem skip_toList (d : Arr) : (Rust.skip d 2).toList = d.toList.drop 2 := by
  unfold Rust.skip
  rw [Array.toList_extract, List.extract_eq_take_drop]
  apply List.take_of_length_le
  simp

theorem is_zero_node_eq (nd : Node) : Algo.BddNode_is_zero nd = isZeroNode nd := rfl
theorem is_one_node_eq (nd : Node) : Algo.BddNode_is_one nd = isOneNode nd := rfl

/-- **from_nodes, translated code = hand model**, on every input, up to the message text -/
theorem Bdd_from_nodes_eq_model (d : Arr) : RelE (Algo.Bdd_from_nodes d) (fromNodes d) := by
  unfold Algo.Bdd_from_nodes fromNodes
  by_cases h0 : d.size = 0
  · have : d.isEmpty = true := by simp [Array.isEmpty, h0]
    simp only [this, h0, if_true, pure_eq]
    exact RelE.err _ _
  have hne : d.isEmpty = false := by simp [Array.isEmpty, h0]
  have hi0 : Rust.idx d 0 = .ok d[0] := idx_of_lt d 0 (by omega)
  have ha0 : aidx d 0 = .ok d[0] := by unfold aidx; simp [show 0 < d.size by omega]
  simp only [hne, h0, if_false, hi0, ha0, bind_ok, is_zero_node_eq, is_one_node_eq, Bool.false_eq_true,
    forIn_array_eq_iterL, skip_toList]
  cases hz : isZeroNode d[0] with
  | false =>
    simp only [Bool.not_false, if_true, pure_eq]
    exact RelE.err _ _
  | true =>
  simp only [Bool.not_true, Bool.false_eq_true, if_false]
  have hloop := fromNodesLoop_rel d d[0].var (d.toList.drop 2)
  rw [iterL_congr _ (fnStep d d[0].var) _ (by
    intro nd _ st
    simp only [fnStep, Algo.BddPointer_to_index, idx_eq, pure_eq, decide_eq_true_eq]
    by_cases h1 : nd.var ≥ d[0].var
    · simp [h1]
    by_cases h2 : nd.low ≥ d.size
    · simp [h1, h2]
    by_cases h3 : nd.high ≥ d.size
    · simp [h1, h2, h3]
    simp only [h1, h2, h3, if_false]
    cases hl : d[nd.low]? with
    | none => rfl
    | some lc =>
      simp only [bind_ok]
      by_cases h4 : lc.var ≤ nd.var
      · simp [h4]
      simp only [h4, if_false]
      cases hh : d[nd.high]? with
      | none => rfl
      | some hc =>
        simp only [bind_ok]
        by_cases h5 : hc.var ≤ nd.var
        · simp [h5]
        · simp [h5])]
  by_cases h1 : d.size > 1
  · have hi1 : Rust.idx d 1 = .ok d[1] := idx_of_lt d 1 h1
    have ha1 : aidx d 1 = .ok d[1] := by unfold aidx; simp [h1]
    simp only [h1, decide_true, if_true, hi1, ha1, bind_ok, pure_eq, Bool.true_and]
    cases ho : isOneNode d[1] with
    | false =>
      simp only [Bool.not_false, if_true]
      exact RelE.err _ _
    | true =>
    simp only [Bool.not_true, Bool.false_eq_true, if_false]
    by_cases hv : d[1].var = d[0].var
    · simp only [hv, bne_self_eq_false, Bool.false_eq_true, if_false]
      generalize iterL (fnStep d d[0].var) (d.toList.drop 2) (none, ()) = x at hloop ⊢
      generalize fromNodesLoop d d[0].var (d.toList.drop 2) = y at hloop ⊢
      cases hloop with
      | ok => exact RelE.ok _
      | err m m' => exact RelE.err _ _
      | panic m m' => exact RelE.panic _ _
    · have : (d[1].var != d[0].var) = true := by simp [hv]
      simp only [this, if_true]
      exact RelE.err _ _
  · simp only [h1, decide_false, Bool.false_eq_true, if_false, bind_ok, pure_eq, Bool.false_and]
    generalize iterL (fnStep d d[0].var) (d.toList.drop 2) (none, ()) = x at hloop ⊢
    generalize fromNodesLoop d d[0].var (d.toList.drop 2) = y at hloop ⊢
    cases hloop with
    | ok => exact RelE.ok _
    | err m m' => exact RelE.err _ _
    | panic m m' => exact RelE.panic _ _

/-- never a panic -/
theorem Bdd_from_nodes_ok_iff (d b : Arr) : Algo.Bdd_from_nodes d = .ok (.ok b) ↔ fromNodes d = .ok b :=
  (Bdd_from_nodes_eq_model d).ok_iff b

theorem Bdd_from_nodes_err_iff (d : Arr) :
    (∃ m, Algo.Bdd_from_nodes d = .ok (.error m)) ↔ ∃ m, fromNodes d = .err m :=
  (Bdd_from_nodes_eq_model d).err_iff

end B.AlgoEqUtil
