import BddVerif.Lemmas.SelectWalk
/-!
C11: `random_valuation`, `random_clause` (for every list of coin flips) and `sat_witness`.
-/
namespace B.Select
open B

/-- the child taken by the random selectors is never the zero terminal -/
theorem randChild_ne_zero {A : Arr} {n : Nat} (h : Can A n) {p : Nat} {nd : Node} (hp2 : 2 ≤ p)
    (hnd : A[p]? = some nd) (fl : List Bool) :
    (if (randChild nd fl).1 then nd.high else nd.low) ≠ 0 := by
  obtain ⟨_, _, _, hne, _⟩ := h.node hp2 hnd
  unfold randChild
  by_cases hl : nd.low = 0
  · simp [hl]; omega
  · by_cases hh : nd.high = 0
    · simp [hl, hh]
    · simp only [hl, hh, if_false]
      cases (coin fl).1 <;> simp [hl, hh]

/-! ### `random_clause` -/

theorem randClauseLoop_spec {A : Arr} {n : Nat} (h : Can A n) :
    ∀ (fuel p : Nat) (fl : List Bool), 1 ≤ p → p ≤ fuel → p < A.size →
      ∃ ds, randClauseLoop A fuel p fl = some ds ∧ IsPath A p ds 1 := by
  intro fuel
  induction fuel with
  | zero => intro p _ h1 h2; omega
  | succ fuel ih =>
    intro p fl hp1 hpf hps
    by_cases hp : p = 1
    · subst hp
      exact ⟨[], by simp [randClauseLoop], rfl⟩
    · have hp2 : 2 ≤ p := by omega
      obtain ⟨nd, hnd⟩ : ∃ nd, A[p]? = some nd := ⟨A[p], by simp [hps]⟩
      obtain ⟨_, hl, hh, _, _, _, _⟩ := h.node hp2 hnd
      have hc := randChild_ne_zero h hp2 hnd fl
      have hlt : (if (randChild nd fl).1 then nd.high else nd.low) < p := by
        cases (randChild nd fl).1 <;> simp <;> omega
      obtain ⟨ds, hds, hP⟩ := ih (if (randChild nd fl).1 then nd.high else nd.low) (randChild nd fl).2
        (by omega) (by omega) (by omega)
      refine ⟨(nd.var, (randChild nd fl).1) :: ds, ?_, ⟨hp2, nd, hnd, rfl, hP⟩⟩
      simp only [randClauseLoop, hp, if_false, hnd, hds]
      rfl

theorem random_clause_spec {A : Arr} {n : Nat} (h : Can A n) (fl : List Bool) :
    ∃ c, randomClause A fl = Sel.some c ∧ IsPathClause A c := by
  obtain ⟨ds, hd, hpath⟩ := randClauseLoop_spec h A.size (root A) fl h.root_pos (by unfold root; omega) h.root_lt
  obtain ⟨hs, _, _, _⟩ := path_sorted h ds _ 1 hpath h.root_lt
  refine ⟨foldC ds, ?_, ds, hpath, getC_foldC hs⟩
  simp [randomClause, h.isFalse, hd, ofOpt]

/-! ### `random_valuation` -/

theorem randValLoop_spec {A : Arr} {n : Nat} (h : Can A n) :
    ∀ (k i p : Nat) (fl : List Bool), p ≠ 0 → p < A.size → i ≤ varOf A n p → i + k = n →
      ∃ bs, randValLoop A k i p fl = some bs ∧ bs.length = k ∧
        ∀ w : Nat → Bool, (∀ j, j < k → w (i + j) = bs.getD j false) → ev A w p = true := by
  intro k
  induction k with
  | zero =>
    intro i p fl hp0 hps hiv hik
    refine ⟨[], rfl, rfl, ?_⟩
    intro w _
    have hvn := varOf_le h.red p
    have : p < 2 := varOf_eq_n h.red p hps (by omega)
    have : p = 1 := by omega
    subst this
    exact ev_one A w
  | succ k ih =>
    intro i p fl hp0 hps hiv hik
    obtain ⟨nd, hnd⟩ : ∃ nd, A[p]? = some nd := ⟨A[p], by simp [hps]⟩
    have hvar := h.var_eq hnd
    by_cases hvi : nd.var = i
    · -- the node decides variable `i`
      have hp2 : 2 ≤ p := by
        rcases Nat.lt_or_ge p 2 with hlt | hge
        · exfalso; have : varOf A n p = n := by simp [varOf, hlt]
          omega
        · exact hge
      obtain ⟨_, hl, hh, _, hvl, hvh, _⟩ := h.node hp2 hnd
      have hc := randChild_ne_zero h hp2 hnd fl
      have hlt : (if (randChild nd fl).1 then nd.high else nd.low) < p ∧
          nd.var < varOf A n (if (randChild nd fl).1 then nd.high else nd.low) := by
        cases (randChild nd fl).1 <;> simp <;> omega
      obtain ⟨bs, hbs, hlen, hsat⟩ := ih (i + 1) (if (randChild nd fl).1 then nd.high else nd.low)
        (randChild nd fl).2 hc (by omega) (by omega) (by omega)
      refine ⟨(randChild nd fl).1 :: bs, ?_, by simp [hlen], ?_⟩
      · simp only [randValLoop, hnd, hvi, ne_eq, not_true_eq_false, if_false, hbs]
        rfl
      · intro w hw
        have hw0 : w nd.var = (randChild nd fl).1 := by
          have := hw 0 (by omega)
          simpa [hvi] using this
        rw [ev_node h.red w p hp2 nd hnd, hw0]
        have hrest := hsat w (by
          intro j hj
          have := hw (j + 1) (by omega)
          simpa [Nat.add_assoc, Nat.add_comm 1 j] using this)
        cases hb : (randChild nd fl).1
        · simpa [hb] using hrest
        · simpa [hb] using hrest
    · -- the variable is skipped: a coin
      obtain ⟨bs, hbs, hlen, hsat⟩ := ih (i + 1) p (coin fl).2 hp0 hps (by omega) (by omega)
      refine ⟨(coin fl).1 :: bs, ?_, by simp [hlen], ?_⟩
      · simp only [randValLoop, hnd, ne_eq, hvi, not_false_eq_true, if_true, hbs]
        rfl
      · intro w hw
        apply hsat w
        intro j hj
        have := hw (j + 1) (by omega)
        simpa [Nat.add_assoc, Nat.add_comm 1 j] using this

theorem random_valuation_spec {A : Arr} {n : Nat} (h : Can A n) (fl : List Bool) :
    ∃ v, randomValuation A fl = Sel.some v ∧ v.length = n ∧ den A (fn v) = true := by
  obtain ⟨bs, hbs, hlen, hsat⟩ := randValLoop_spec h n 0 (root A) fl (by have := h.root_pos; omega) h.root_lt
    (Nat.zero_le _) (by omega)
  refine ⟨bs, ?_, hlen, ?_⟩
  · simp [randomValuation, h.isFalse, h.numVars, hbs, ofOpt]
  · apply hsat
    intro j _
    simp [fn]

/-! ### `sat_witness` -/

/-- every pointer except the root has a parent stored after it: no unreachable node
    (part of canonicity; `Red` alone does not give it) -/
def NoOrphan (A : Arr) : Prop :=
  ∀ p, 1 ≤ p → p + 1 < A.size → ∃ q nd, p < q ∧ A[q]? = some nd ∧ (nd.low = p ∨ nd.high = p)

theorem fn_set (v : List Bool) (x : Nat) (b : Bool) (hx : x < v.length) : fn (v.set x b) = upd (fn v) x b := by
  funext k
  unfold fn upd
  by_cases hk : k = x
  · subst hk; simp [List.getD, hx]
  · have hne : x ≠ k := fun e => hk e.symm
    simp [List.getD, hk, List.getElem?_set_ne hne]

/-- invariant of the backward parent search before it looks at index `i` -/
structure WitInv (A : Arr) (n : Nat) (i : Nat) (st : Nat × Val) : Prop where
  len : st.2.length = n
  pos : 1 ≤ st.1
  lt : st.1 = 1 ∨ st.1 < i
  sat : ev A (fn st.2) st.1 = true
  noparent : ∀ q nd, st.1 < q → q < i → A[q]? = some nd → nd.low ≠ st.1 ∧ nd.high ≠ st.1

theorem witStep_inv {A : Arr} {n : Nat} (h : Can A n) {i : Nat} {st : Nat × Val} (hi2 : 2 ≤ i)
    (his : i < A.size) (hI : WitInv A n i st) :
    ∃ st', witStep A st i = some st' ∧ WitInv A n (i + 1) st' := by
  obtain ⟨nd, hnd⟩ : ∃ nd, A[i]? = some nd := ⟨A[i], by simp [his]⟩
  obtain ⟨hv, hl, hh, hne, hvl, hvh, _⟩ := h.node hi2 hnd
  obtain ⟨find, val⟩ := st
  obtain ⟨hlen, hpos, hlt, hsat, hnp⟩ := hI
  simp only at hlen hpos hlt hsat hnp
  have hfs : find < A.size := by rcases hlt with e | e <;> omega
  by_cases hlow : nd.low = find
  · refine ⟨(i, val.set nd.var false), ?_, ?_⟩
    · have hhi : ¬ nd.high = i := by omega
      simp [witStep, hnd, hlow, setBit, hlen, hv, hhi]
    · refine ⟨by simpa using hlen, by omega, Or.inr (by simp), ?_, ?_⟩
      · simp only
        rw [fn_set _ _ _ (by omega), ev_node h.red _ i hi2 nd hnd]
        simp only [upd, if_true, Bool.false_eq_true, if_false]
        rw [hlow]
        rw [ev_upd h.red find hfs (fn val) nd.var false (by rw [← hlow]; exact hvl)]
        exact hsat
      · intro q nd' h1 h2; simp only at h1 h2; omega
  · by_cases hhigh : nd.high = find
    · refine ⟨(i, val.set nd.var true), ?_, ?_⟩
      · simp [witStep, hnd, hlow, hhigh, setBit, hlen, hv]
      · refine ⟨by simpa using hlen, by omega, Or.inr (by simp), ?_, ?_⟩
        · simp only
          rw [fn_set _ _ _ (by omega), ev_node h.red _ i hi2 nd hnd]
          simp only [upd, if_true]
          rw [hhigh]
          rw [ev_upd h.red find hfs (fn val) nd.var true (by rw [← hhigh]; exact hvh)]
          exact hsat
        · intro q nd' h1 h2; simp only at h1 h2; omega
    · refine ⟨(find, val), ?_, ?_⟩
      · simp [witStep, hnd, hlow, hhigh]
      · refine ⟨hlen, hpos, by rcases hlt with e | e; exact Or.inl e; exact Or.inr (by simp; omega), hsat, ?_⟩
        intro q nd' h1 h2 hq
        simp only at h1 h2
        by_cases hqi : q = i
        · subst hqi; rw [hnd] at hq; cases hq; exact ⟨hlow, hhigh⟩
        · exact hnp q nd' h1 (by omega) hq

theorem witLoop_inv {A : Arr} {n : Nat} (h : Can A n) :
    ∀ (cnt i : Nat) (st : Nat × Val), 2 ≤ i → i + cnt = A.size → WitInv A n i st →
      ∃ st', (List.range' i cnt).foldlM (witStep A) st = some st' ∧ WitInv A n A.size st' := by
  intro cnt
  induction cnt with
  | zero =>
    intro i st _ hic hI
    have : i = A.size := by omega
    subst this
    exact ⟨st, rfl, hI⟩
  | succ cnt ih =>
    intro i st hi2 hic hI
    obtain ⟨st1, hs1, hI1⟩ := witStep_inv h hi2 (by omega) hI
    obtain ⟨st', hs', hI'⟩ := ih (i + 1) st1 (by omega) (by omega) hI1
    refine ⟨st', ?_, hI'⟩
    rw [List.range'_succ, List.foldlM_cons, hs1]
    exact hs'

theorem sat_witness_spec {A : Arr} {n : Nat} (h : Can A n) (hno : NoOrphan A) :
    ∃ v, satWitness A = Sel.some v ∧ v.length = n ∧ den A (fn v) = true := by
  have hs2 := h.size2
  have hI0 : WitInv A n 2 (1, List.replicate n false) :=
    ⟨by simp, by simp, Or.inl rfl, by simp [ev_one], by intro q nd h1 h2; simp only at h1 h2; omega⟩
  obtain ⟨st, hst, hI⟩ := witLoop_inv h (A.size - 2) 2 _ (Nat.le_refl _) (by omega) hI0
  obtain ⟨find, val⟩ := st
  obtain ⟨hlen, hpos, hlt, hsat, hnp⟩ := hI
  simp only at hlen hpos hlt hsat hnp
  refine ⟨val, ?_, hlen, ?_⟩
  · simp [satWitness, h.isFalse, h.numVars, hst, ofOpt]
  · have hroot : find = root A := by
      unfold root
      rcases Nat.lt_or_ge (find + 1) A.size with hlt' | hge
      · exfalso
        obtain ⟨q, nd, hq1, hq2, hq3⟩ := hno find hpos hlt'
        have := hnp q nd hq1 (getElem?_lt hq2) hq2
        rcases hq3 with e | e
        · exact this.1 e
        · exact this.2 e
      · rcases hlt with e | e <;> omega
    unfold den
    rw [← hroot]
    exact hsat

end B.Select
