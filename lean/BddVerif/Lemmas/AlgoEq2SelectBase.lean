import BddVerif.Lemmas.AlgoEqUtilBase
import BddVerif.Gen.Algo2
import BddVerif.Model.Select
/-!
# Selectors of `src/_impl_bdd/_impl_valuation_utils.rs`: translated code = hand model — shared plumbing

The translated functions are `B.Gen.Algo2.Bdd_first_valuation`, … (regenerated on every run); the hand models are
`B.Select.firstValuation`, … (`Model/Select.lean`). This file provides

* `walkStep` / `walkPost`: the hand-written body of the `while !node.is_terminal() { … }` walk shared by the four
  greedy selectors and by the second phase of the four `most_*` selectors, generic in the choice of the branch
  (`choose`) and in the update of the valuation (`upd`);
* `walk_sem`: running that body `fuel` times is `Select.descend … fuel` followed by the fold of the decisions
  (`RelO`: `ok` ↔ `some`, panic ↔ `none`), AT EVERY FUEL; `descend_mono`: the hand loop is monotone in the fuel;
* `iterL_rel`: a `for x in xs` loop whose body simulates a step `f : γ → α → Option γ` is `List.foldlM f`;
* the views `selV` / `selC` of a translated result in the vocabulary `Select.Sel` of the hand models, and the
  conversions `Array Bool ↦ List Bool`, `Array (Option Bool) ↦ List (Option Bool)` of the two kinds of valuations.
-/
namespace B.AlgoEq2Sel
open B B.Gen B.Select B.AlgoEqUtil

attribute [local instance 10000] Rust.monadOutcomeInline

/-! ### results in the vocabulary of the hand models -/

/-- a translated `Option<BddValuation>` result as a `Sel Val` (every failure is `Sel.panic`) -/
def selV : Outcome (Option (Array Bool)) → Sel Val
  | .ok none => Sel.none
  | .ok (some v) => Sel.some v.toList
  | _ => Sel.panic

/-- a translated `Option<BddPartialValuation>` result as a `Sel Clause` -/
def selC : Outcome (Option (Array (Option Bool))) → Sel Clause
  | .ok none => Sel.none
  | .ok (some v) => Sel.some v.toList
  | _ => Sel.panic

theorem selV_some {x : Outcome (Option (Array Bool))} {v : Val} (h : selV x = Sel.some v) :
    x = .ok (some v.toArray) := by
  cases x with
  | ok o =>
    cases o with
    | none => cases h
    | some a => simp only [selV, Sel.some.injEq] at h; subst h; rfl
  | err m => cases h
  | panic m => cases h

theorem selC_some {x : Outcome (Option (Array (Option Bool)))} {v : Clause} (h : selC x = Sel.some v) :
    x = .ok (some v.toArray) := by
  cases x with
  | ok o =>
    cases o with
    | none => cases h
    | some a => simp only [selC, Sel.some.injEq] at h; subst h; rfl
  | err m => cases h
  | panic m => cases h

theorem selV_none {x : Outcome (Option (Array Bool))} (h : selV x = Sel.none) : x = .ok none := by
  cases x with
  | ok o =>
    cases o with
    | none => rfl
    | some a => cases h
  | err m => cases h
  | panic m => cases h

theorem selC_none {x : Outcome (Option (Array (Option Bool)))} (h : selC x = Sel.none) : x = .ok none := by
  cases x with
  | ok o =>
    cases o with
    | none => rfl
    | some a => cases h
  | err m => cases h
  | panic m => cases h

/-! ### `RelO` helpers -/

theorem relO_bind {α β} {x : Outcome α} {y : Option α} (h : RelO x y) {f : α → Outcome β} {g : α → Option β}
    (hf : ∀ a, RelO (f a) (g a)) : RelO (x.bind f) (y.bind g) := by
  cases h with
  | ok a => exact hf a
  | panic m => exact RelO.panic m

theorem relO_map {α β} {x : Outcome α} {y : Option α} (h : RelO x y) (f : α → β) :
    RelO (x.map f) (y.map f) := by
  cases h with
  | ok a => exact RelO.ok _
  | panic m => exact RelO.panic m

/-- view of a `RelO` whose left side went through a conversion -/
theorem relO_map_inv {α γ} {x : Outcome α} {conv : α → γ} {y : Option γ} (h : RelO (x.map conv) y) :
    (∃ a, x = .ok a ∧ y = some (conv a)) ∨ ((∃ m, x = .panic m) ∧ y = none) := by
  cases x with
  | ok a =>
    left; refine ⟨a, rfl, ?_⟩
    generalize hy : y = y' at h
    cases h; rfl
  | err m => cases h
  | panic m =>
    right; refine ⟨⟨m, rfl⟩, ?_⟩
    generalize hy : y = y' at h
    cases h; rfl

/-! ### the two kinds of valuations -/

theorem setIdx_rel (v : Array Bool) (x : Nat) (b : Bool) :
    RelO ((Rust.setIdx v x b).map Array.toList) (setBit v.toList x b) := by
  rw [setIdx_eq]
  unfold setBit
  simp only [Array.length_toList]
  by_cases hx : x < v.size
  · simp only [hx, if_true, Outcome.map, Array.toList_setIfInBounds]; exact RelO.ok _
  · simp only [hx, if_false, Outcome.map]; exact RelO.panic _

theorem pvalSetValue_toList (c : Array (Option Bool)) (x : Nat) (b : Bool) :
    (Rust.pvalSetValue c x b).toList = setC c.toList x b := by
  unfold Rust.pvalSetValue Rust.pvalSet Rust.pvalGrow setC
  by_cases h : c.size ≤ x
  · simp [h]
  · have : x + 1 - c.size = 0 := by omega
    simp [h, this]

/-! ### the walk -/

/-- hand-written body of `while !stop(node) { child = choose(node); valuation = upd(valuation, var, child);
    node = child link }`; state = (`valuation`, `node`) -/
def walkStep {σ : Type} (A : Arr) (stop : Nat → Bool) (choose : Nat → Node → Option Bool)
    (upd : σ → Nat → Bool → Outcome σ) (st : σ × Nat) : Outcome (ForInStep (σ × Nat)) :=
  if stop st.2 then .ok (.done st) else
  match A[st.2]? with
  | none => .panic "index out of bounds"
  | some nd =>
    match choose st.2 nd with
    | none => .panic "index out of bounds"
    | some b => (upd st.1 nd.var b).bind fun v => .ok (.yield (v, if b then nd.high else nd.low))

/-- what follows the loop: the fuel check and the value -/
def walkPost {σ : Type} (stop : Nat → Bool) (st : σ × Nat) : Outcome σ :=
  if stop st.2 then .ok st.1 else .panic "fuel"

/-- fold of a list of decisions with a partial update -/
def foldU {τ : Type} (u : τ → Nat → Bool → Option τ) : List (Nat × Bool) → τ → Option τ
  | [], t => some t
  | (x, b) :: ds, t => (u t x b).bind (foldU u ds)

/-- **the walk at every fuel**: the hand-written body, run `fuel` times, against `Select.descend` with the same fuel -/
theorem walk_sem {σ τ : Type} (A : Arr) (stop : Nat → Bool) (choose : Nat → Node → Option Bool)
    (upd : σ → Nat → Bool → Outcome σ) (u : τ → Nat → Bool → Option τ) (conv : σ → τ)
    (hupd : ∀ s x b, RelO ((upd s x b).map conv) (u (conv s) x b)) :
    ∀ (fuel p : Nat) (s : σ),
      RelO (((iter (walkStep A stop choose upd) fuel (s, p)).bind (walkPost stop)).map conv)
        ((descend A stop choose fuel p).bind fun ds => foldU u ds (conv s)) := by
  intro fuel
  induction fuel with
  | zero =>
    intro p s
    rw [iter_zero]
    unfold descend
    cases hst : stop p with
    | true => simp only [Outcome.bind, walkPost, hst, if_true, Outcome.map, Option.bind, foldU]; exact RelO.ok _
    | false =>
      simp only [Outcome.bind, walkPost, hst, Bool.false_eq_true, if_false, Outcome.map, Option.bind]
      exact RelO.panic _
  | succ n ih =>
    intro p s
    rw [iter_succ]
    unfold descend
    simp only [walkStep]
    cases hst : stop p with
    | true => simp only [Outcome.bind, walkPost, hst, if_true, Outcome.map, Option.bind, foldU]; exact RelO.ok _
    | false =>
      simp only [Bool.false_eq_true, if_false]
      cases hp : A[p]? with
      | none => exact RelO.panic _
      | some nd =>
        simp only
        cases hc : choose p nd with
        | none => exact RelO.panic _
        | some b =>
          simp only
          rcases relO_map_inv (hupd s nd.var b) with ⟨v, h1, h2⟩ | ⟨⟨m, h1⟩, h2⟩
          · rw [h1]
            simp only [Outcome.bind]
            have := ih (if b then nd.high else nd.low) v
            cases hd : descend A stop choose n (if b then nd.high else nd.low) with
            | none => rw [hd] at this; exact this
            | some ds =>
              rw [hd] at this
              simp only [Option.map, Option.bind, foldU, h2] at this ⊢
              exact this
          · rw [h1]
            simp only [Outcome.bind, Outcome.map]
            cases hd : descend A stop choose n (if b then nd.high else nd.low) with
            | none => exact RelO.panic _
            | some ds =>
              simp only [Option.map, Option.bind, foldU, h2]
              exact RelO.panic _

theorem descend_mono (A : Arr) (stop : Nat → Bool) (choose : Nat → Node → Option Bool) :
    ∀ (f f' p : Nat) (ds : List (Nat × Bool)), f ≤ f' →
      descend A stop choose f p = some ds → descend A stop choose f' p = some ds := by
  intro f
  induction f with
  | zero =>
    intro f' p ds _ h
    unfold descend at h
    cases hst : stop p with
    | true =>
      rw [hst] at h
      cases f' <;> (unfold descend; simpa [hst] using h)
    | false => rw [hst] at h; simp at h
  | succ f ih =>
    intro f' p ds hle h
    obtain ⟨f'', rfl⟩ : ∃ k, f' = k + 1 := ⟨f' - 1, by omega⟩
    unfold descend at h ⊢
    cases hst : stop p with
    | true => rw [hst] at h; simpa using h
    | false =>
      rw [hst] at h
      simp only [Bool.false_eq_true, if_false] at h ⊢
      cases hp : A[p]? with
      | none => rw [hp] at h; cases h
      | some nd =>
        rw [hp] at h
        simp only at h ⊢
        cases hc : choose p nd with
        | none => rw [hc] at h; cases h
        | some b =>
          rw [hc] at h
          simp only at h ⊢
          cases hd : descend A stop choose f (if b then nd.high else nd.low) with
          | none => rw [hd] at h; cases h
          | some ds' =>
            rw [hd] at h
            rw [ih f'' _ ds' (by omega) hd]
            exact h

/-! ### `foldV`, `foldC` as instances of `foldU` -/

/-- update of `first_valuation` (`init = false`: `valuation.set(var)` on a `true` decision) and of
    `last_valuation` (`init = true`: `valuation.clear(var)` on a `false` decision), list level -/
def uV (init : Bool) (v : Val) (x : Nat) (b : Bool) : Option Val := if b = init then some v else setBit v x b

theorem foldU_uV (init : Bool) : ∀ (ds : List (Nat × Bool)) (v : Val), foldU (uV init) ds v = foldV init ds v := by
  intro ds
  induction ds with
  | nil => intro v; rfl
  | cons d ds ih =>
    intro v
    obtain ⟨x, b⟩ := d
    unfold foldU foldV uV
    by_cases hb : b = init
    · simp only [hb, if_true, Option.bind]; exact ih v
    · simp only [hb, if_false]
      cases setBit v x b with
      | none => rfl
      | some v' => exact ih v'

/-- update of the clause selectors, list level -/
def uC (c : Clause) (x : Nat) (b : Bool) : Option Clause := some (setC c x b)

theorem foldU_uC : ∀ (ds : List (Nat × Bool)) (c : Clause),
    foldU uC ds c = some (ds.foldl (fun c d => setC c d.1 d.2) c) := by
  intro ds
  induction ds with
  | nil => intro c; rfl
  | cons d ds ih =>
    intro c
    obtain ⟨x, b⟩ := d
    unfold foldU uC
    simp only [Option.bind, List.foldl_cons]
    exact ih _

/-- array-level update of the valuation walks -/
def updV (init : Bool) (v : Array Bool) (x : Nat) (b : Bool) : Outcome (Array Bool) :=
  if b = init then .ok v else Rust.setIdx v x b

/-- array-level update of the clause walks -/
def updC (c : Array (Option Bool)) (x : Nat) (b : Bool) : Outcome (Array (Option Bool)) :=
  .ok (Rust.pvalSetValue c x b)

theorem updV_rel (init : Bool) (s : Array Bool) (x : Nat) (b : Bool) :
    RelO ((updV init s x b).map Array.toList) (uV init s.toList x b) := by
  unfold updV uV
  by_cases hb : b = init
  · simp only [hb, if_true, Outcome.map]; exact RelO.ok _
  · simp only [hb, if_false]; exact setIdx_rel s x b

theorem updC_rel (s : Array (Option Bool)) (x : Nat) (b : Bool) :
    RelO ((updC s x b).map Array.toList) (uC s.toList x b) := by
  unfold updC uC
  simp only [Outcome.map, pvalSetValue_toList]
  exact RelO.ok _

/-- the valuation walk against the hand model's `descend … >>= foldV` -/
theorem walkV_sem (A : Arr) (stop : Nat → Bool) (choose : Nat → Node → Option Bool) (init : Bool)
    (fuel p : Nat) (s : Array Bool) :
    RelO (((iter (walkStep A stop choose (updV init)) fuel (s, p)).bind (walkPost stop)).map Array.toList)
      ((descend A stop choose fuel p).bind fun ds => foldV init ds s.toList) := by
  have := walk_sem A stop choose (updV init) (uV init) Array.toList (updV_rel init) fuel p s
  simpa only [foldU_uV] using this

/-- the clause walk against the hand model's `descend … |>.map foldC` (from the empty clause) -/
theorem walkC_sem (A : Arr) (stop : Nat → Bool) (choose : Nat → Node → Option Bool) (fuel p : Nat) :
    RelO (((iter (walkStep A stop choose updC) fuel (#[], p)).bind (walkPost stop)).map Array.toList)
      ((descend A stop choose fuel p).map foldC) := by
  have := walk_sem A stop choose updC uC Array.toList updC_rel fuel p #[]
  simp only [foldU_uC] at this
  cases hd : descend A stop choose fuel p with
  | none => rw [hd] at this; exact this
  | some ds => rw [hd] at this; exact this

/-! ### `for x in xs` loops without `break` against `List.foldlM` -/

/-- one iteration simulates one step of the model: it continues with a related state, or both fail -/
def StepRel {β γ : Type} (conv : β → γ) (r : Outcome (ForInStep β)) (o : Option γ) : Prop :=
  (∃ b', r = .ok (.yield b') ∧ o = some (conv b')) ∨ ((∃ m, r = .panic m) ∧ o = none)

theorem iterL_rel {α β γ : Type} (g : α → β → Outcome (ForInStep β)) (f : γ → α → Option γ) (conv : β → γ)
    (xs : List α) (h : ∀ x, x ∈ xs → ∀ b, StepRel conv (g x b) (f (conv b) x)) :
    ∀ b, RelO ((iterL g xs b).map conv) (xs.foldlM f (conv b)) := by
  induction xs with
  | nil => intro b; exact RelO.ok _
  | cons x xs ih =>
    intro b
    rw [iterL_cons, List.foldlM_cons]
    rcases h x List.mem_cons_self b with ⟨b', h1, h2⟩ | ⟨⟨m, h1⟩, h2⟩
    · rw [h1, h2]
      exact ih (fun y hy => h y (List.mem_cons_of_mem _ hy)) b'
    · rw [h1, h2]
      exact RelO.panic _

/-- `self.pointers().skip(2)` as a list -/
theorem skip_pointers_toList (A : Arr) (hs : A.size ≤ 4294967296) :
    (Rust.skip (Algo.Bdd_pointers A) 2).toList = List.range' 2 (A.size - 2) := by
  rw [pointers_eq A hs]
  unfold Rust.skip
  apply List.ext_getElem
  · simp
  · intro i h1 h2
    simp at h1 h2 ⊢

theorem is_terminal_eq (p : Nat) : Algo.BddPointer_is_terminal p = isTerminal p := rfl

end B.AlgoEq2Sel
