import BddVerif.Model.Expr
import BddVerif.Lemmas.VarSetSat
import BddVerif.Lemmas.TernaryCanon
import BddVerif.Lemmas.Ternary5
import BddVerif.Lemmas.CanonicalStruct
/-!
`safe_eval_expression` (model `ExprM.evalExpr`) returns the canonical array of the pointwise meaning of
the tree, by structural induction through the calculus `VS.Sem` (closed under `applyWithFlip` with a
consistent table — `applyWithFlip_eq_canon` —, `bddNot` — `bddNot_canon` —, `ternaryApply` with
`ite_function` — `ite_eq_canon`), and `None` exactly for an unknown name.
-/
namespace B.ExprM
open B B.Parser B.VS

/-- the assignment of names induced by a valuation of the variables (unknown names read `false`) -/
def envOf (vars : List Name) (v : Nat → Bool) : Name → Bool := fun s =>
  match indexOfName vars s with
  | some i => v i
  | none => false

theorem indexOfName_lt {vars : List Name} {s : Name} {i : Nat} (h : indexOfName vars s = some i) :
    i < vars.length ∧ vars[i]? = some s := by
  induction vars generalizing i with
  | nil => simp [indexOfName] at h
  | cons x xs ih =>
    unfold indexOfName at h
    split at h
    · cases h; rename_i hx; simp [hx]
    · cases hi : indexOfName xs s with
      | none => simp [hi] at h
      | some j =>
        simp only [hi, Option.map_some, Option.some.injEq] at h
        subst h
        obtain ⟨h1, h2⟩ := ih hi
        exact ⟨by simp; omega, by simpa using h2⟩

theorem indexOfName_none_iff {vars : List Name} {s : Name} : indexOfName vars s = none ↔ s ∉ vars := by
  induction vars with
  | nil => simp [indexOfName]
  | cons x xs ih =>
    unfold indexOfName
    by_cases hx : x = s
    · simp [hx]
    · simp only [hx, if_false, Option.map_eq_none_iff, ih, List.mem_cons, not_or]
      constructor
      · intro h; exact ⟨fun e => hx e.symm, h⟩
      · intro h; exact h.2

/-- in a list of distinct names the position of the `i`-th name is `i` -/
theorem indexOfName_get {vars : List Name} (hnd : vars.Nodup) {i : Nat} {s : Name} (h : vars[i]? = some s) :
    indexOfName vars s = some i := by
  induction vars generalizing i with
  | nil => simp at h
  | cons x xs ih =>
    rw [List.nodup_cons] at hnd
    cases i with
    | zero => simp at h; simp [indexOfName, h]
    | succ j =>
      simp only [List.getElem?_cons_succ] at h
      have hmem : s ∈ xs := List.mem_of_getElem? h
      have hx : x ≠ s := fun e => hnd.1 (e ▸ hmem)
      simp [indexOfName, hx, ih hnd.2 h]

theorem xor_consistent : Consistent Gen.xor_ (fun a b => a != b) := by constructor <;> decide
theorem imp_consistent : Consistent Gen.imp_ (fun a b => !a || b) := by constructor <;> decide
theorem iff_consistent : Consistent Gen.iff_ (fun a b => a == b) := by constructor <;> decide

theorem mkVar_eq (n x : Nat) : ExprM.mkVar n x = B.mkVar n x := rfl

theorem sem_mkTrue (n : Nat) : Sem n (mkTrue n) (fun _ => true) :=
  ⟨(canon_of_true n _ (fun _ => rfl)).symm, fun _ _ _ => rfl⟩

theorem sem_not {n A f} (h : Sem n A f) : Sem n (bddNot A) (fun v => !f v) := by
  refine ⟨?_, ?_⟩
  · rw [h.eq]; exact bddNot_canon n f h.dep
  · intro v w hvw; show (!f v) = (!f w); rw [h.dep v w hvw]

theorem sem_bin {n A B f g} (hA : Sem n A f) (hB : Sem n B g) (op : Op2) (c : Bool → Bool → Bool)
    (hc : Consistent op c) : Sem n (applyWithFlip A B op none none none) (fun v => c (f v) (g v)) :=
  Sem.apply hA hB op c hc none (by simp)

theorem sem_ite {n A B C f g h} (hA : Sem n A f) (hB : Sem n B g) (hC : Sem n C h) :
    Sem n (ternaryApply A B C Gen.ite_ none none none none) (fun v => if f v then g v else h v) := by
  refine ⟨?_, ?_⟩
  · rw [ite_eq_canon A B C n hA.wfo hB.wfo hC.wfo]
    apply canon_congr
    intro v
    rw [hA.evW, hB.evW, hC.evW]
  · intro v w hvw
    show (if f v then g v else h v) = (if f w then g w else h w)
    rw [hA.dep v w hvw, hB.dep v w hvw, hC.dep v w hvw]

/-- **`safe_eval_expression` is correct**: whatever it returns is the canonical array of the pointwise
    meaning of the tree -/
theorem evalExpr_sem (vars : List Name) (e : Expr) :
    ∀ r, evalExpr vars e = some r → Sem vars.length r (fun v => evalBool e (envOf vars v)) := by
  induction e with
  | const b =>
    intro r h
    simp only [evalExpr, Option.some.injEq] at h
    subst h
    cases b
    · exact sem_mkFalse _
    · exact sem_mkTrue _
  | var s =>
    intro r h
    simp only [evalExpr, Option.map_eq_some_iff] at h
    obtain ⟨i, hi, rfl⟩ := h
    have := sem_mkVar vars.length i (indexOfName_lt hi).1
    rw [mkVar_eq]
    refine this.congr ?_
    intro v; simp [evalBool, envOf, hi]
  | not e ih =>
    intro r h
    simp only [evalExpr, Option.map_eq_some_iff] at h
    obtain ⟨a, ha, rfl⟩ := h
    exact sem_not (ih a ha)
  | and l r ihl ihr =>
    intro x h
    simp only [evalExpr, Option.bind_eq_some_iff, Option.some.injEq] at h
    obtain ⟨a, ha, b, hb, rfl⟩ := h
    exact sem_bin (ihl a ha) (ihr b hb) Gen.and_ _ and_consistent
  | or l r ihl ihr =>
    intro x h
    simp only [evalExpr, Option.bind_eq_some_iff, Option.some.injEq] at h
    obtain ⟨a, ha, b, hb, rfl⟩ := h
    exact sem_bin (ihl a ha) (ihr b hb) Gen.or_ _ or_consistent
  | xor l r ihl ihr =>
    intro x h
    simp only [evalExpr, Option.bind_eq_some_iff, Option.some.injEq] at h
    obtain ⟨a, ha, b, hb, rfl⟩ := h
    exact sem_bin (ihl a ha) (ihr b hb) Gen.xor_ _ xor_consistent
  | imp l r ihl ihr =>
    intro x h
    simp only [evalExpr, Option.bind_eq_some_iff, Option.some.injEq] at h
    obtain ⟨a, ha, b, hb, rfl⟩ := h
    exact sem_bin (ihl a ha) (ihr b hb) Gen.imp_ _ imp_consistent
  | iff l r ihl ihr =>
    intro x h
    simp only [evalExpr, Option.bind_eq_some_iff, Option.some.injEq] at h
    obtain ⟨a, ha, b, hb, rfl⟩ := h
    exact sem_bin (ihl a ha) (ihr b hb) Gen.iff_ _ iff_consistent
  | cond c t e ihc iht ihe =>
    intro x h
    simp only [evalExpr, Option.bind_eq_some_iff, Option.some.injEq] at h
    obtain ⟨a, ha, b, hb, d, hd, rfl⟩ := h
    exact sem_ite (ihc a ha) (iht b hb) (ihe d hd)

/-- `None` exactly when some name of the tree is not in the variable set -/
theorem evalExpr_none_iff (vars : List Name) (e : Expr) :
    evalExpr vars e = none ↔ ∃ s ∈ names e, s ∉ vars := by
  induction e with
  | const b => simp [evalExpr, names]
  | var s => simp [evalExpr, names, indexOfName_none_iff]
  | not e ih => simp [evalExpr, names, ih]
  | and l r ihl ihr | or l r ihl ihr | xor l r ihl ihr | imp l r ihl ihr | iff l r ihl ihr =>
    simp only [evalExpr, names, List.mem_append]
    cases hl : evalExpr vars l with
    | none =>
      simp only [Option.bind_none, true_iff]
      obtain ⟨s, hs, hn⟩ := ihl.mp hl
      exact ⟨s, Or.inl hs, hn⟩
    | some a =>
      cases hr : evalExpr vars r with
      | none =>
        simp only [Option.bind_some, Option.bind_none, true_iff]
        obtain ⟨s, hs, hn⟩ := ihr.mp hr
        exact ⟨s, Or.inr hs, hn⟩
      | some b =>
        simp only [Option.bind_some, reduceCtorEq, false_iff]
        rintro ⟨s, hs | hs, hn⟩
        · have := ihl.mpr ⟨s, hs, hn⟩; rw [hl] at this; cases this
        · have := ihr.mpr ⟨s, hs, hn⟩; rw [hr] at this; cases this
  | cond c t e ihc iht ihe =>
    simp only [evalExpr, names, List.mem_append]
    cases hc : evalExpr vars c with
    | none =>
      simp only [Option.bind_none, true_iff]
      obtain ⟨s, hs, hn⟩ := ihc.mp hc
      exact ⟨s, Or.inl (Or.inl hs), hn⟩
    | some a =>
      cases ht : evalExpr vars t with
      | none =>
        simp only [Option.bind_some, Option.bind_none, true_iff]
        obtain ⟨s, hs, hn⟩ := iht.mp ht
        exact ⟨s, Or.inl (Or.inr hs), hn⟩
      | some b =>
        cases he : evalExpr vars e with
        | none =>
          simp only [Option.bind_some, Option.bind_none, true_iff]
          obtain ⟨s, hs, hn⟩ := ihe.mp he
          exact ⟨s, Or.inr hs, hn⟩
        | some d =>
          simp only [Option.bind_some, reduceCtorEq, false_iff]
          rintro ⟨s, (hs | hs) | hs, hn⟩
          · have := ihc.mpr ⟨s, hs, hn⟩; rw [hc] at this; cases this
          · have := iht.mpr ⟨s, hs, hn⟩; rw [ht] at this; cases this
          · have := ihe.mpr ⟨s, hs, hn⟩; rw [he] at this; cases this

end B.ExprM
