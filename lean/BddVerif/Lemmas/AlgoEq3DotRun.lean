import BddVerif.Lemmas.AlgoEq3DotDesugar
import BddVerif.Lemmas.SerialIO
/-!
# Running the desugared `write_bdd_as_dot`: the loop in closed form

* `run_good` — all pointers of the list have a node and a name: the loop is one `writeSeq` of all node pieces;
* `run_bad` — the first pointer without a name (or node): the loop writes the pieces of the pointers before it and
  then panics — unless one of these writes failed, in which case the `Err` is returned (the `?` comes first);
* `dotSkel_good`, `dotSkel_bad` — the same for the whole function;
* `writeSeq` on a writer that cannot fail (`script = []`, i.e. a `Vec<u8>`) and on a writer whose script has no
  fault (`Serial.ScriptOk`).
-/
namespace B.AlgoEq3Dot
open B B.Gen B.AlgoEqUtil B.AlgoEq2Bytes
attribute [local instance 10000] Rust.monadOutcomeInline

/-- pointer `p` is a node of `A` whose variable has a name -/
def Good (A : Arr) (names : Array String) (p : Nat) : Prop := p < A.size ∧ (nodeAt A p).var < names.size

instance (A : Arr) (names : Array String) (p : Nat) : Decidable (Good A names p) := by
  unfold Good; infer_instance

/-- the fragments written for pointer `p` -/
def ptrStrs (A : Arr) (names : Array String) (zp : Bool) (p : Nat) : List String :=
  nodeStrs zp p (nodeAt A p) (names.getD (nodeAt A p).var "")

def ptrPieces (A : Arr) (names : Array String) (zp : Bool) (p : Nat) : List (Array Nat) :=
  (ptrStrs A names zp p).map Rust.utf8Bytes

/-- all fragments, in the order of the `write_all` calls -/
def dotStrs (A : Arr) (names : Array String) (zp : Bool) : List String :=
  preStrs A zp ++ (Dot.innerPtrs A).flatMap (ptrStrs A names zp) ++ ["}\n"]

def dotPieces (A : Arr) (names : Array String) (zp : Bool) : List (Array Nat) :=
  (dotStrs A names zp).map Rust.utf8Bytes

theorem dotPieces_eq (A : Arr) (names : Array String) (zp : Bool) :
    dotPieces A names zp = prePieces A zp ++ (Dot.innerPtrs A).flatMap (ptrPieces A names zp) ++ footPieces := by
  simp only [dotPieces, dotStrs, List.map_append, List.map_flatMap, prePieces, footPieces]
  rfl

theorem nodeStep_good {A : Arr} {names : Array String} {p : Nat} (h : Good A names p) (zp : Bool) (s : St) :
    nodeStep A names zp p s = stepOf (writeSeq s.2 (ptrPieces A names zp p)) := by
  obtain ⟨h1, h2⟩ := h
  have e1 : A[p]? = some (nodeAt A p) := by simp [nodeAt, h1]
  have e2 : names[(nodeAt A p).var]? = some (names.getD (nodeAt A p).var "") := by
    simp [Array.getD, h2]
  unfold nodeStep
  simp only [e1, e2]
  rfl

theorem nodeStep_bad {A : Arr} {names : Array String} {p : Nat} (h : ¬ Good A names p) (zp : Bool) (s : St) :
    nodeStep A names zp p s = .panic "index out of bounds" := by
  unfold nodeStep
  cases hA : A[p]? with
  | none => rfl
  | some nd =>
    have h1 : p < A.size := by
      rcases Nat.lt_or_ge p A.size with h | h
      · exact h
      · rw [Array.getElem?_eq_none h] at hA; cases hA
    have hnd : nodeAt A p = nd := by simp [nodeAt, hA]
    cases hN : names[nd.var]? with
    | none => simp only [hN]
    | some name =>
      exfalso
      apply h
      refine ⟨h1, ?_⟩
      rw [hnd]
      rcases Nat.lt_or_ge nd.var names.size with h | h
      · exact h
      · rw [Array.getElem?_eq_none h] at hN; cases hN

/-- the loop state after a `writeSeq` -/
def endSt (r : Ret) : St :=
  match r with
  | (.ok _, w') => (none, w')
  | (.error e, w') => (some (.error e, w'), w')

theorem run_good (A : Arr) (names : Array String) (zp : Bool) : ∀ (ptrs : List Nat) (w : Rust.Writer),
    (∀ p ∈ ptrs, Good A names p) →
    iterL (nodeStep A names zp) ptrs (none, w) = .ok (endSt (writeSeq w (ptrs.flatMap (ptrPieces A names zp)))) := by
  intro ptrs
  induction ptrs with
  | nil => intro w _; rfl
  | cons p ptrs ih =>
    intro w h
    rw [iterL_cons, nodeStep_good (h p List.mem_cons_self), List.flatMap_cons, writeSeq_append]
    rcases writeSeq w (ptrPieces A names zp p) with ⟨r, w'⟩
    cases r with
    | ok u => exact ih w' (fun q hq => h q (List.mem_cons_of_mem _ hq))
    | error e => rfl

/-- what the loop does when it meets a pointer without a name -/
def badEnd (r : Ret) : Outcome St :=
  match r with
  | (.ok _, _) => .panic "index out of bounds"
  | (.error e, w') => .ok (some (.error e, w'), w')

theorem run_bad (A : Arr) (names : Array String) (zp : Bool) (bad : Nat) (rest : List Nat)
    (hb : ¬ Good A names bad) : ∀ (good : List Nat) (w : Rust.Writer), (∀ p ∈ good, Good A names p) →
    iterL (nodeStep A names zp) (good ++ bad :: rest) (none, w) =
      badEnd (writeSeq w (good.flatMap (ptrPieces A names zp))) := by
  intro good
  induction good with
  | nil =>
    intro w _
    rw [List.nil_append, iterL_cons, nodeStep_bad hb]
    rfl
  | cons p good ih =>
    intro w h
    rw [List.cons_append, iterL_cons, nodeStep_good (h p List.mem_cons_self), List.flatMap_cons, writeSeq_append]
    rcases writeSeq w (ptrPieces A names zp p) with ⟨r, w'⟩
    cases r with
    | ok u => exact ih w' (fun q hq => h q (List.mem_cons_of_mem _ hq))
    | error e => rfl

/-- **all decision nodes have names: the function is the sequence of all `write_all(..)?` calls** -/
theorem dotSkel_good (w : Rust.Writer) (A : Arr) (names : Array String) (zp : Bool)
    (h : ∀ p ∈ Dot.innerPtrs A, Good A names p) :
    dotSkel w A names zp = .ok (writeSeq w (dotPieces A names zp)) := by
  unfold dotSkel
  rw [dotPieces_eq, List.append_assoc, writeSeq_append]
  rcases writeSeq w (prePieces A zp) with ⟨r, w1⟩
  cases r with
  | error e => rfl
  | ok u =>
    simp only [wThen]
    rw [run_good A names zp _ w1 h, writeSeq_append, bind_ok]
    rcases writeSeq w1 ((Dot.innerPtrs A).flatMap (ptrPieces A names zp)) with ⟨r2, w2⟩
    cases r2 with
    | error e => rfl
    | ok u2 => rfl

/-- the whole function when pointer `bad` has no name -/
def badRet (r : Ret) : Outcome Ret :=
  match r with
  | (.ok _, _) => .panic "index out of bounds"
  | (.error e, w') => .ok (.error e, w')

theorem dotSkel_bad (w : Rust.Writer) (A : Arr) (names : Array String) (zp : Bool) (good rest : List Nat) (bad : Nat)
    (hp : Dot.innerPtrs A = good ++ bad :: rest) (hg : ∀ p ∈ good, Good A names p) (hb : ¬ Good A names bad) :
    dotSkel w A names zp = badRet (writeSeq w (prePieces A zp ++ good.flatMap (ptrPieces A names zp))) := by
  unfold dotSkel
  rw [writeSeq_append, hp]
  rcases writeSeq w (prePieces A zp) with ⟨r, w1⟩
  cases r with
  | error e => rfl
  | ok u =>
    simp only [wThen]
    rw [run_bad A names zp bad rest hb good w1 hg]
    rcases writeSeq w1 (good.flatMap (ptrPieces A names zp)) with ⟨r2, w2⟩
    cases r2 with
    | error e => rfl
    | ok u2 => rfl

/-- a list either consists of good pointers only or has a first bad one -/
theorem first_bad (A : Arr) (names : Array String) : ∀ (l : List Nat),
    (∀ p ∈ l, Good A names p) ∨
    ∃ good bad rest, l = good ++ bad :: rest ∧ (∀ p ∈ good, Good A names p) ∧ ¬ Good A names bad := by
  intro l
  induction l with
  | nil => exact .inl (by simp)
  | cons p l ih =>
    by_cases hp : Good A names p
    · rcases ih with h | ⟨good, bad, rest, h1, h2, h3⟩
      · left
        intro q hq
        rcases List.mem_cons.1 hq with rfl | hq
        · exact hp
        · exact h q hq
      · right
        refine ⟨p :: good, bad, rest, by rw [h1]; rfl, ?_, h3⟩
        intro q hq
        rcases List.mem_cons.1 hq with rfl | hq
        · exact hp
        · exact h2 q hq
    · exact .inr ⟨[], p, l, rfl, by simp, hp⟩

/-! ### writers that do not fail -/

theorem writeAll_plain (w : Rust.Writer) (b : Array Nat) (h : w.script = []) :
    Rust.writeAll w b = (.ok (), { w with out := w.out ++ b }) := by
  obtain ⟨out, script, sp⟩ := w
  simp only at h
  subst h
  unfold Rust.writeAll
  simp only [List.length_nil, Nat.add_zero]
  by_cases hb : b.toList = []
  · have : b = #[] := by
      apply Array.ext'; simpa using hb
    subst this
    rw [go_empty]
    simp
  · rw [go_step _ _ _ hb]
    have hl : b.toList.length ≠ 0 := by
      intro hl; exact hb (List.eq_nil_of_length_eq_zero hl)
    simp only [Rust.Writer.write, hl, if_false, List.drop_length]
    rw [go_empty]

/-- a `Vec<u8>` (or any sink without script): every `write_all` appends -/
theorem writeSeq_plain : ∀ (ps : List (Array Nat)) (w : Rust.Writer), w.script = [] →
    writeSeq w ps = (.ok (), { w with out := w.out ++ (ps.map Array.toList).flatten.toArray }) := by
  intro ps
  induction ps with
  | nil => intro w _; simp [writeSeq]
  | cons p ps ih =>
    intro w h
    rw [writeSeq, writeAll_plain w p h]
    simp only
    rw [ih { w with out := w.out ++ p } h]
    congr 2
    simp only [List.map_cons, List.flatten_cons]
    apply Array.ext'
    simp

theorem relWrite_true {r : Except Rust.IoError Unit} (h : RelWrite r true) : r = .ok () := by cases h; rfl

/-- a sink that never reports a hard error and never accepts zero bytes (any chunk sizes, any interruptions):
    every `write_all` succeeds and all bytes arrive -/
theorem writeSeq_scriptOk (ps : List (Array Nat)) (w : Rust.Writer) (h : Serial.ScriptOk (w.script.map evOf)) :
    ∃ w', writeSeq w ps = (.ok (), w') ∧ w'.out = w.out ++ (ps.map Array.toList).flatten.toArray ∧
      w'.sp + w'.script.length = w.sp + w.script.length := by
  obtain ⟨taken, h1, h2, _, _, h5, h6, _⟩ := writeSeq_repr ps w
  obtain ⟨s', _, e⟩ := Serial.writePieces_ok (ps.map fun p => p.toList.map byteOf) _ h
  rw [e] at h1
  have hr := relWrite_true h1
  rcases hx : writeSeq w ps with ⟨r, w'⟩
  rw [hx] at hr h2 h5 h6
  simp only at hr h2 h5 h6
  subst hr
  exact ⟨w', rfl, by rw [h2, h6 rfl], h5⟩

end B.AlgoEq3Dot
