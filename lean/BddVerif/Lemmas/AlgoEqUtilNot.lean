import BddVerif.Lemmas.AlgoEqUtilBase
import BddVerif.Model.Ternary
import BddVerif.Lemmas.Ternary5
/-!
# `Bdd::not` (src/_impl_bdd/_impl_boolean_ops.rs:10): translated code = hand model `bddNot`

`B.Gen.Algo.Bdd_not` is the generated translation (a `for` loop over `[2:len]` that rewrites every node in place);
`B.bddNot` (Model/Ternary.lean) is the hand model (`Array.mapIdx`). They agree on EVERY array (no hypothesis):
the translated code never panics, whatever the array.
-/
namespace B.AlgoEqUtil
open B B.Gen

attribute [local instance 10000] Rust.monadOutcomeInline

/-- what one iteration of the loop of `not` does to the node with index `i` -/
def notNode (nd : Node) : Node := ⟨nd.var, flipIfTerminal nd.low, flipIfTerminal nd.high⟩

/-- hand-written loop body: `node.high_link.flip_if_terminal(); node.low_link.flip_if_terminal()` on `result[i]` -/
def notStep (i : Nat) (st : Arr) : Outcome (ForInStep Arr) :=
  if h : i < st.size then .ok (.yield (st.set i (notNode st[i]))) else .panic "index out of bounds"

theorem flip_if_terminal_eq (p : Nat) : Algo.BddPointer_flip_if_terminal p = .ok (flipIfTerminal p) := by
  unfold Algo.BddPointer_flip_if_terminal flipIfTerminal
  by_cases h0 : p = 0
  · subst h0; rfl
  by_cases h1 : p = 1
  · subst h1; rfl
  have : ¬ p < 2 := by omega
  simp [this, h0, h1]

/-- desugaring: the generated function is the explicit loop `iterL notStep` (for arrays that are not constants) -/
theorem not_desugar (A : Arr) (h2 : A.size ≠ 2) (h1 : A.size ≠ 1) :
    Algo.Bdd_not A = iterL notStep (List.range' 2 (A.size - 2)) A := by
  unfold Algo.Bdd_not Algo.Bdd_is_true Algo.Bdd_is_false
  simp only [beq_iff_eq, h2, h1, if_false, forIn_range_eq_iterL]
  rw [iterL_congr _ notStep]
  · cases iterL notStep (List.range' 2 (A.size - 2)) A <;> rfl
  · intro i _ st
    unfold notStep
    by_cases h : i < st.size
    · simp only [idx_of_lt st i h, flip_if_terminal_eq, bind_ok, Rust.setIdx, h, dite_true, pure_eq, notNode]
    · simp only [Rust.idx, h, dite_false, bind_panic]

/-- semantics of the explicit loop: the nodes `s … s+n-1` are rewritten, the others are untouched -/
theorem notLoop_spec : ∀ (n s : Nat) (st : Arr), s + n ≤ st.size →
    iterL notStep (List.range' s n) st =
      .ok (st.mapIdx fun i nd => if s ≤ i ∧ i < s + n then notNode nd else nd) := by
  intro n
  induction n with
  | zero =>
    intro s st _
    rw [List.range'_zero, iterL_nil]
    congr 1
    apply Array.ext
    · simp
    · intro i h1 h2
      simp only [Array.getElem_mapIdx]
      rw [if_neg (by omega)]
  | succ n ih =>
    intro s st hs
    rw [List.range'_succ, iterL_cons]
    have hlt : s < st.size := by omega
    simp only [notStep, hlt, dite_true]
    rw [ih (s + 1) _ (by rw [Array.size_set]; omega)]
    congr 1
    apply Array.ext
    · simp
    · intro i h1 h2
      simp only [Array.getElem_mapIdx, Array.getElem_set]
      by_cases hi : s = i
      · subst hi
        simp only [if_true]
        rw [if_neg (by omega), if_pos (by omega)]
      · rw [if_neg hi]
        by_cases hr : s + 1 ≤ i ∧ i < s + 1 + n
        · rw [if_pos hr, if_pos (by omega)]
        · rw [if_neg hr, if_neg (by omega)]

/-- **`Bdd::not`, translated code = hand model**, for every array; no fuel (the loop is a bounded `for`) -/
theorem Bdd_not_eq_model (A : Arr) : Algo.Bdd_not A = .ok (bddNot A) := by
  by_cases h2 : A.size = 2
  · unfold Algo.Bdd_not Algo.Bdd_is_true bddNot
    simp only [beq_iff_eq, h2, if_true]
    rw [num_vars_eq A (by omega)]
    rfl
  by_cases h1 : A.size = 1
  · unfold Algo.Bdd_not Algo.Bdd_is_true Algo.Bdd_is_false bddNot
    simp only [beq_iff_eq, h1, if_true]
    rw [num_vars_eq A (by omega)]
    simp
    rfl
  rw [not_desugar A h2 h1]
  by_cases h0 : A.size = 0
  · have hA : A = #[] := Array.eq_empty_of_size_eq_zero h0
    subst hA
    rfl
  rw [notLoop_spec (A.size - 2) 2 A (by omega)]
  congr 1
  unfold bddNot
  rw [if_neg h2, if_neg h1]
  apply Array.ext
  · simp
  · intro i h1' h2'
    simp only [Array.getElem_mapIdx]
    simp only [Array.size_mapIdx] at h1'
    by_cases hi : i < 2
    · rw [if_neg (by omega), if_pos hi]
    · rw [if_pos (by omega), if_neg hi]; rfl

/-! ### chained with the hand-level specification (`Lemmas/Ternary5.lean`) -/

/-- the TRANSLATED `not` maps the canonical array of `f` to the canonical array of `¬f` -/
theorem Bdd_not_canon (n : Nat) (f : (Nat → Bool) → Bool)
    (hdep : ∀ v w : Nat → Bool, (∀ i, i < n → v i = w i) → f v = f w) :
    Algo.Bdd_not (canon n f) = .ok (canon n (fun v => !f v)) := by
  rw [Bdd_not_eq_model, bddNot_canon n f hdep]

/-- the TRANSLATED `not` negates the denotation of every reduced array (and of the one-node `false`) -/
theorem Bdd_not_den {A : Arr} {n : Nat} (h : A.size = 1 ∨ Red A n) :
    ∃ R, Algo.Bdd_not A = .ok R ∧ ∀ v, den R v = !(den A v) :=
  ⟨bddNot A, Bdd_not_eq_model A, fun v => bddNot_den h v⟩

/-! ### non-vacuity -/

/-- `x0 ∧ ¬x1`-like array with links into both terminals, and a malformed array: the theorem covers both -/
example : Algo.Bdd_not #[⟨2, 0, 0⟩, ⟨2, 1, 1⟩, ⟨1, 1, 0⟩, ⟨0, 0, 2⟩] =
    .ok #[⟨2, 0, 0⟩, ⟨2, 1, 1⟩, ⟨1, 0, 1⟩, ⟨0, 1, 2⟩] := by
  rw [Bdd_not_eq_model]; congr 1

example : Algo.Bdd_not #[⟨7, 5, 5⟩, ⟨0, 0, 9⟩, ⟨1, 1, 0⟩] = .ok #[⟨7, 5, 5⟩, ⟨0, 0, 9⟩, ⟨1, 0, 1⟩] := by
  rw [Bdd_not_eq_model]; congr 1

end B.AlgoEqUtil
