import BddVerif.Lemmas.SelectBasic
/-!
C11, greedy walks: `first_valuation`, `last_valuation`, `first_clause`, `last_clause`.
-/
namespace B.Select
open B

theorem LexLe_congr {f g f' g' : Nat → Bool} : ∀ (k l : Nat),
    (∀ j, l ≤ j → j < l + k → f j = f' j) → (∀ j, l ≤ j → j < l + k → g j = g' j) →
    LexLe f g l k → LexLe f' g' l k := by
  intro k
  induction k with
  | zero => intro l _ _ _; trivial
  | succ k ih =>
    intro l hf hg h
    simp only [LexLe] at h ⊢
    have e1 := hf l (Nat.le_refl _) (by omega)
    have e2 := hg l (Nat.le_refl _) (by omega)
    rw [← e1, ← e2]
    rcases h with h | ⟨h1, h2⟩
    · left; exact h
    · right
      exact ⟨h1, ih (l + 1) (fun j a b => hf j (by omega) (by omega)) (fun j a b => hg j (by omega) (by omega)) h2⟩

theorem LexLe_refl (f : Nat → Bool) : ∀ (k l : Nat), LexLe f f l k := by
  intro k
  induction k with
  | zero => intro l; trivial
  | succ k ih => intro l; exact Or.inr ⟨rfl, ih (l + 1)⟩

/-- nothing leads from the zero terminal to the one terminal -/
theorem no_path_from_zero (A : Arr) (ds : List (Nat × Bool)) : ¬ IsPath A 0 ds 1 := by
  cases ds with
  | nil => simp [IsPath]
  | cons d ds => simp [IsPath]

/-- the first decision of a path that starts in a decision node -/
theorem path_from_node {A : Arr} {p : Nat} {nd : Node} (hp2 : 2 ≤ p) (hnd : A[p]? = some nd)
    {ds : List (Nat × Bool)} (hp : IsPath A p ds 1) :
    ∃ b r, ds = (nd.var, b) :: r ∧ IsPath A (if b then nd.high else nd.low) r 1 := by
  cases ds with
  | nil => simp only [IsPath] at hp; omega
  | cons d r =>
    obtain ⟨_, nd', hnd', hvar, hrest⟩ := hp
    rw [hnd] at hnd'; cases hnd'
    refine ⟨d.2, r, ?_, hrest⟩
    rw [← hvar]

/-! ### valuations -/

/-- common part of the two step proofs: values of the written valuation around a decision -/
theorem pathVal_step {A : Arr} {n : Nat} (h : Can A n) (init : Bool) {c : Nat} {ds : List (Nat × Bool)}
    (hc : c < A.size) (hp : IsPath A c ds 1) (x : Nat) (b : Bool) (hx : x < varOf A n c) :
    pathVal init ((x, b) :: ds) x = b ∧
    (∀ j, x + 1 ≤ j → pathVal init ((x, b) :: ds) j = pathVal init ds j) ∧
    (∀ j, x + 1 ≤ j → j < varOf A n c → pathVal init ((x, b) :: ds) j = init) := by
  obtain ⟨_, hin, _, _⟩ := path_sorted h ds c 1 hp hc
  refine ⟨pathVal_cons_self .., fun j hj => pathVal_cons_ne _ _ _ _ (by omega), ?_⟩
  intro j hj1 hj2
  rw [pathVal_cons_ne _ _ _ _ (by omega)]
  apply pathVal_of_lt
  intro d hd
  have := (hin d hd).1
  omega

/-- invariant of the `first_valuation` walk -/
def FirstInv (A : Arr) (n : Nat) (p : Nat) (ds : List (Nat × Bool)) : Prop :=
  IsPath A p ds 1 ∧ ∀ w, ev A w p = true → LexLe (pathVal false ds) w (varOf A n p) (n - varOf A n p)

theorem firstInv_walk {A : Arr} {n : Nat} (h : Can A n) (fuel p : Nat) (hp1 : 1 ≤ p) (hpf : p ≤ fuel)
    (hps : p < A.size) :
    ∃ ds, descend A isTerminal chooseFirst fuel p = some ds ∧ FirstInv A n p ds := by
  apply descend_ind h (goodChoice_first h) (FirstInv A n) _ _ fuel p hp1 hpf hps
  · refine ⟨rfl, ?_⟩
    intro w _
    simp [varOf, LexLe]
  · intro p nd b ds hp2 hnd hb hc hP
    obtain ⟨hpath, hle⟩ := hP
    obtain ⟨hv, hl, hh, hne, hvl, hvh, hps⟩ := h.node hp2 hnd
    have hvp : varOf A n p = nd.var := varOf_node p nd hp2 hnd
    refine ⟨⟨hp2, nd, hnd, rfl, hpath⟩, ?_⟩
    intro w hw
    rw [hvp]
    have hcs : (if b then nd.high else nd.low) < A.size := by cases b <;> simp <;> omega
    have hxc : nd.var < varOf A n (if b then nd.high else nd.low) := by cases b <;> simp <;> omega
    obtain ⟨s1, s2, s3⟩ := pathVal_step h false hcs hpath nd.var b hxc
    have hcn := varOf_le h.red (if b then nd.high else nd.low)
    have hsplit : n - nd.var = (varOf A n (if b then nd.high else nd.low) - (nd.var + 1) +
        (n - varOf A n (if b then nd.high else nd.low))) + 1 := by omega
    rw [hsplit]
    simp only [LexLe]
    rw [ev_node h.red w p hp2 nd hnd] at hw
    -- the rest of the comparison, once the walk and `w` agree on the decision variable
    have rest : ev A w (if b then nd.high else nd.low) = true →
        LexLe (pathVal false ((nd.var, b) :: ds)) w (nd.var + 1)
          (varOf A n (if b then nd.high else nd.low) - (nd.var + 1) + (n - varOf A n (if b then nd.high else nd.low))) := by
      intro hwc
      apply LexLe_gap_false _ _ _ _ _ (fun j h1 h2 => s3 j h1 (by omega))
      have e : nd.var + 1 + (varOf A n (if b then nd.high else nd.low) - (nd.var + 1)) =
          varOf A n (if b then nd.high else nd.low) := by omega
      rw [e]
      exact LexLe_congr _ _ (fun j h1 _ => (s2 j (by omega)).symm) (fun _ _ _ => rfl) (hle w hwc)
    simp only [chooseFirst, Option.some.injEq] at hb
    cases hwx : w nd.var
    · -- `w` takes the low branch
      simp only [hwx] at hw
      have hl0 : nd.low ≠ 0 := by intro e; rw [e, ev_zero] at hw; cases hw
      have hbf : b = false := by rw [← hb]; simp [hl0]
      subst hbf
      right
      exact ⟨by rw [s1], rest (by simpa using hw)⟩
    · simp only [hwx, if_true] at hw
      cases b
      · left; exact ⟨s1, rfl⟩
      · right; exact ⟨by rw [s1], rest (by simpa using hw)⟩

/-- invariant of the `last_valuation` walk -/
def LastInv (A : Arr) (n : Nat) (p : Nat) (ds : List (Nat × Bool)) : Prop :=
  IsPath A p ds 1 ∧ ∀ w, ev A w p = true → LexLe w (pathVal true ds) (varOf A n p) (n - varOf A n p)

theorem lastInv_walk {A : Arr} {n : Nat} (h : Can A n) (fuel p : Nat) (hp1 : 1 ≤ p) (hpf : p ≤ fuel)
    (hps : p < A.size) :
    ∃ ds, descend A isTerminal chooseLast fuel p = some ds ∧ LastInv A n p ds := by
  apply descend_ind h (goodChoice_last h) (LastInv A n) _ _ fuel p hp1 hpf hps
  · refine ⟨rfl, ?_⟩
    intro w _
    simp [varOf, LexLe]
  · intro p nd b ds hp2 hnd hb hc hP
    obtain ⟨hpath, hle⟩ := hP
    obtain ⟨hv, hl, hh, hne, hvl, hvh, hps⟩ := h.node hp2 hnd
    have hvp : varOf A n p = nd.var := varOf_node p nd hp2 hnd
    refine ⟨⟨hp2, nd, hnd, rfl, hpath⟩, ?_⟩
    intro w hw
    rw [hvp]
    have hcs : (if b then nd.high else nd.low) < A.size := by cases b <;> simp <;> omega
    have hxc : nd.var < varOf A n (if b then nd.high else nd.low) := by cases b <;> simp <;> omega
    obtain ⟨s1, s2, s3⟩ := pathVal_step h true hcs hpath nd.var b hxc
    have hcn := varOf_le h.red (if b then nd.high else nd.low)
    have hsplit : n - nd.var = (varOf A n (if b then nd.high else nd.low) - (nd.var + 1) +
        (n - varOf A n (if b then nd.high else nd.low))) + 1 := by omega
    rw [hsplit]
    simp only [LexLe]
    rw [ev_node h.red w p hp2 nd hnd] at hw
    have rest : ev A w (if b then nd.high else nd.low) = true →
        LexLe w (pathVal true ((nd.var, b) :: ds)) (nd.var + 1)
          (varOf A n (if b then nd.high else nd.low) - (nd.var + 1) + (n - varOf A n (if b then nd.high else nd.low))) := by
      intro hwc
      apply LexLe_gap_true _ _ _ _ _ (fun j h1 h2 => s3 j h1 (by omega))
      have e : nd.var + 1 + (varOf A n (if b then nd.high else nd.low) - (nd.var + 1)) =
          varOf A n (if b then nd.high else nd.low) := by omega
      rw [e]
      exact LexLe_congr _ _ (fun _ _ _ => rfl) (fun j h1 _ => (s2 j (by omega)).symm) (hle w hwc)
    simp only [chooseLast, Option.some.injEq] at hb
    cases hwx : w nd.var
    · simp only [hwx] at hw
      cases b
      · right; exact ⟨by rw [s1], rest (by simpa using hw)⟩
      · left; exact ⟨rfl, s1⟩
    · -- `w` takes the high branch
      simp only [hwx, if_true] at hw
      have hh0 : nd.high ≠ 0 := by intro e; rw [e, ev_zero] at hw; cases hw
      have hbt : b = true := by rw [← hb]; simp [hh0]
      subst hbt
      right
      exact ⟨by rw [s1], rest (by simpa using hw)⟩

/-- what a `walkVal` returns, for any good choice: the valuation of the path that the walk follows -/
theorem walkVal_spec {A : Arr} {n : Nat} (h : Can A n) {choose : Nat → Node → Option Bool} (init : Bool)
    {ds : List (Nat × Bool)} (hd : descend A isTerminal choose A.size (root A) = some ds)
    (hpath : IsPath A (root A) ds 1) :
    ∃ v, walkVal A choose init = Sel.some v ∧ v.length = n ∧ den A (fn v) = true ∧
      ∀ k, k < n → fn v k = pathVal init ds k := by
  obtain ⟨v, hv, hlen, hfn⟩ := foldV_path h init hpath h.root_lt
  obtain ⟨hs, hin, _, _⟩ := path_sorted h ds _ 1 hpath h.root_lt
  refine ⟨v, ?_, hlen, ?_, hfn⟩
  · simp [walkVal, h.isFalse, hd, h.numVars, hv, ofOpt]
  · unfold den
    rw [path_ev h.red (fn v) ds _ 1 hpath, ev_one]
    intro d hd'
    rw [hfn d.1 (hin d hd').2]
    exact pathVal_follows hs d hd'

theorem first_valuation_spec {A : Arr} {n : Nat} (h : Can A n) :
    ∃ v, firstValuation A = Sel.some v ∧ v.length = n ∧ den A (fn v) = true ∧
      ∀ w : Nat → Bool, den A w = true → LexLe (fn v) w 0 n := by
  obtain ⟨ds, hd, hpath, hle⟩ := firstInv_walk h A.size (root A) h.root_pos (by unfold root; omega) h.root_lt
  obtain ⟨v, hv, hlen, hden, hfn⟩ := walkVal_spec h false hd hpath
  refine ⟨v, hv, hlen, hden, ?_⟩
  intro w hw
  obtain ⟨_, hin, _, _⟩ := path_sorted h ds _ 1 hpath h.root_lt
  have hrn := varOf_le h.red (root A)
  have key := LexLe_gap_false (pathVal false ds) w (varOf A n (root A)) 0 (n - varOf A n (root A))
    (fun j _ hj => pathVal_of_lt false (fun d hd' => by have := (hin d hd').1; omega))
    (by simpa using hle w hw)
  have e : varOf A n (root A) + (n - varOf A n (root A)) = n := by omega
  rw [e] at key
  exact LexLe_congr _ _ (fun j _ hj => (hfn j (by omega)).symm) (fun _ _ _ => rfl) key

theorem last_valuation_spec {A : Arr} {n : Nat} (h : Can A n) :
    ∃ v, lastValuation A = Sel.some v ∧ v.length = n ∧ den A (fn v) = true ∧
      ∀ w : Nat → Bool, den A w = true → LexLe w (fn v) 0 n := by
  obtain ⟨ds, hd, hpath, hle⟩ := lastInv_walk h A.size (root A) h.root_pos (by unfold root; omega) h.root_lt
  obtain ⟨v, hv, hlen, hden, hfn⟩ := walkVal_spec h true hd hpath
  refine ⟨v, hv, hlen, hden, ?_⟩
  intro w hw
  obtain ⟨_, hin, _, _⟩ := path_sorted h ds _ 1 hpath h.root_lt
  have hrn := varOf_le h.red (root A)
  have key := LexLe_gap_true w (pathVal true ds) (varOf A n (root A)) 0 (n - varOf A n (root A))
    (fun j _ hj => pathVal_of_lt true (fun d hd' => by have := (hin d hd').1; omega))
    (by simpa using hle w hw)
  have e : varOf A n (root A) + (n - varOf A n (root A)) = n := by omega
  rw [e] at key
  exact LexLe_congr _ _ (fun _ _ _ => rfl) (fun j _ hj => (hfn j (by omega)).symm) key

/-! ### clauses -/

/-- `c` is (the clause of) a root-to-one path of the diagram -/
def IsPathClause (A : Arr) (c : Clause) : Prop :=
  ∃ ds, IsPath A (root A) ds 1 ∧ ∀ k, getC c k = ds.lookup k

/-- two decision lists share a prefix and then take opposite branches on the same variable, the first
    one taking `want` -/
def DivergesAt (want : Bool) (ds ds' : List (Nat × Bool)) : Prop :=
  ∃ pre x r r', ds = pre ++ (x, want) :: r ∧ ds' = pre ++ (x, !want) :: r'

/-- invariant of the `first_clause` / `last_clause` walks -/
def ExtInv (A : Arr) (want : Bool) (p : Nat) (ds : List (Nat × Bool)) : Prop :=
  IsPath A p ds 1 ∧ ∀ ds', IsPath A p ds' 1 → ds' = ds ∨ DivergesAt want ds ds'

theorem extInv_step {A : Arr} {want : Bool} {p : Nat} {nd : Node} {b : Bool} {ds : List (Nat × Bool)}
    (hp2 : 2 ≤ p) (hnd : A[p]? = some nd) (hP : ExtInv A want (if b then nd.high else nd.low) ds)
    (hforced : b ≠ want → (if want then nd.high else nd.low) = 0) :
    ExtInv A want p ((nd.var, b) :: ds) := by
  obtain ⟨hpath, hdiv⟩ := hP
  refine ⟨⟨hp2, nd, hnd, rfl, hpath⟩, ?_⟩
  intro ds' hp'
  obtain ⟨b', r', rfl, hr'⟩ := path_from_node hp2 hnd hp'
  by_cases hbb : b' = b
  · subst hbb
    rcases hdiv r' hr' with e | ⟨pre, x, r, r2, e1, e2⟩
    · left; rw [e]
    · right; exact ⟨(nd.var, b') :: pre, x, r, r2, by rw [e1]; rfl, by rw [e2]; rfl⟩
  · right
    by_cases hbw : b = want
    · refine ⟨[], nd.var, ds, r', by rw [hbw]; rfl, ?_⟩
      have : b' = !want := by cases b' <;> cases b <;> cases want <;> simp_all
      rw [this]; rfl
    · exfalso
      have hz := hforced hbw
      have : b' = want := by cases b' <;> cases b <;> cases want <;> simp_all
      rw [this, hz] at hr'
      exact no_path_from_zero A r' hr'

theorem firstClause_walk {A : Arr} {n : Nat} (h : Can A n) (fuel p : Nat) (hp1 : 1 ≤ p) (hpf : p ≤ fuel)
    (hps : p < A.size) :
    ∃ ds, descend A isTerminal chooseFirst fuel p = some ds ∧ ExtInv A false p ds := by
  apply descend_ind h (goodChoice_first h) (ExtInv A false) _ _ fuel p hp1 hpf hps
  · refine ⟨rfl, ?_⟩
    intro ds' hp'
    cases ds' with
    | nil => left; rfl
    | cons d r => obtain ⟨h2, _⟩ := hp'; omega
  · intro p nd b ds hp2 hnd hb _ hP
    apply extInv_step hp2 hnd hP
    intro hbw
    simp only [chooseFirst, Option.some.injEq] at hb
    have : b = true := by cases b <;> simp_all
    subst this
    simpa using hb

theorem lastClause_walk {A : Arr} {n : Nat} (h : Can A n) (fuel p : Nat) (hp1 : 1 ≤ p) (hpf : p ≤ fuel)
    (hps : p < A.size) :
    ∃ ds, descend A isTerminal chooseLast fuel p = some ds ∧ ExtInv A true p ds := by
  apply descend_ind h (goodChoice_last h) (ExtInv A true) _ _ fuel p hp1 hpf hps
  · refine ⟨rfl, ?_⟩
    intro ds' hp'
    cases ds' with
    | nil => left; rfl
    | cons d r => obtain ⟨h2, _⟩ := hp'; omega
  · intro p nd b ds hp2 hnd hb _ hP
    apply extInv_step hp2 hnd hP
    intro hbw
    simp only [chooseLast, Option.some.injEq] at hb
    have : b = false := by cases b <;> simp_all
    subst this
    simpa using hb

/-- what a `walkClause` returns: the clause of the path that the walk follows -/
theorem walkClause_spec {A : Arr} {n : Nat} (h : Can A n) {choose : Nat → Node → Option Bool}
    {ds : List (Nat × Bool)} (hd : descend A isTerminal choose A.size (root A) = some ds)
    (hpath : IsPath A (root A) ds 1) :
    ∃ c, walkClause A choose = Sel.some c ∧ ∀ k, getC c k = ds.lookup k := by
  obtain ⟨hs, _, _, _⟩ := path_sorted h ds _ 1 hpath h.root_lt
  refine ⟨foldC ds, ?_, getC_foldC hs⟩
  simp [walkClause, h.isFalse, hd, ofOpt]

theorem first_clause_spec {A : Arr} {n : Nat} (h : Can A n) :
    ∃ c ds, firstClause A = Sel.some c ∧ IsPath A (root A) ds 1 ∧ (∀ k, getC c k = ds.lookup k) ∧
      ∀ ds', IsPath A (root A) ds' 1 → ds' = ds ∨ DivergesAt false ds ds' := by
  obtain ⟨ds, hd, hpath, hdiv⟩ := firstClause_walk h A.size (root A) h.root_pos (by unfold root; omega) h.root_lt
  obtain ⟨c, hc, hget⟩ := walkClause_spec h hd hpath
  exact ⟨c, ds, hc, hpath, hget, hdiv⟩

theorem last_clause_spec {A : Arr} {n : Nat} (h : Can A n) :
    ∃ c ds, lastClause A = Sel.some c ∧ IsPath A (root A) ds 1 ∧ (∀ k, getC c k = ds.lookup k) ∧
      ∀ ds', IsPath A (root A) ds' 1 → ds' = ds ∨ DivergesAt true ds ds' := by
  obtain ⟨ds, hd, hpath, hdiv⟩ := lastClause_walk h A.size (root A) h.root_pos (by unfold root; omega) h.root_lt
  obtain ⟨c, hc, hget⟩ := walkClause_spec h hd hpath
  exact ⟨c, ds, hc, hpath, hget, hdiv⟩

end B.Select
