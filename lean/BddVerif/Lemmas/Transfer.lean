import BddVerif.Lemmas.RenameSpec
/-! Helper lemmas for `transfer_from`: the name-induced variable map and the copying loop. -/
namespace B.Ren
open B B.Drive

/-- the name correspondence: variable `x` of the source set ↦ the variable of the target set with the
    same name (`ctx.name_of(x)` then `self.var_by_name(name)`) -/
def nameMap (tgt src : List String) (x : Nat) : Option Nat := (src[x]?).bind fun nm => tgt.idxOf? nm

/-- with distinct names in the target set, "the variable with that name" is unambiguous -/
theorem nameMap_eq_some_iff (tgt src : List String) (htgt : tgt.Nodup) (x j : Nat) :
    nameMap tgt src x = some j ↔ ∃ nm, src[x]? = some nm ∧ tgt[j]? = some nm := by
  unfold nameMap
  constructor
  · intro h
    cases hs : src[x]? with
    | none => rw [hs] at h; cases h
    | some nm =>
      rw [hs] at h; simp only [Option.bind_some] at h
      obtain ⟨hj, he, _⟩ := List.idxOf?_eq_some_iff.mp h
      exact ⟨nm, rfl, by rw [List.getElem?_eq_getElem hj, he]⟩
  · rintro ⟨nm, hs, ht⟩
    rw [hs]; simp only [Option.bind_some]
    obtain ⟨hj, he⟩ := List.getElem?_eq_some_iff.mp ht
    apply List.idxOf?_eq_some_iff.mpr
    refine ⟨hj, he, ?_⟩
    intro k hk hkeq
    have := (List.getElem_inj (h₀ := (by omega : k < tgt.length)) (h₁ := hj) htgt).mp (by rw [hkeq, he])
    omega

theorem translateSupport_ok (tgt src : List String) (l : List Nat)
    (h : ∀ x ∈ l, (nameMap tgt src x).isSome) :
    translateSupport tgt src l = .ok (l.map fun x => (nameMap tgt src x).getD 0) := by
  induction l with
  | nil => rfl
  | cons x xs ih =>
    have hx := h x (by simp)
    unfold nameMap at hx
    cases hs : src[x]? with
    | none => rw [hs] at hx; cases hx
    | some nm =>
      rw [hs] at hx; simp only [Option.bind_some] at hx
      cases ht : tgt.idxOf? nm with
      | none => rw [ht] at hx; cases hx
      | some id =>
        simp only [translateSupport, hs, ht]
        rw [ih (fun y hy => h y (by simp [hy]))]
        simp [Outcome.map, nameMap, hs, ht]

theorem translateSupport_err (tgt src : List String) (l : List Nat) (hlen : ∀ x ∈ l, x < src.length)
    (h : ¬ ∀ x ∈ l, (nameMap tgt src x).isSome) :
    ∃ msg, translateSupport tgt src l = .err msg := by
  induction l with
  | nil => exact absurd (fun x hx => by cases hx) h
  | cons x xs ih =>
    have hx := hlen x (by simp)
    have hs : src[x]? = some src[x] := by simp [hx]
    cases ht : tgt.idxOf? src[x] with
    | none => exact ⟨"the variable does not exist in the new context", by simp only [translateSupport, hs, ht]⟩
    | some id =>
      have hrest : ¬ ∀ y ∈ xs, (nameMap tgt src y).isSome := by
        intro hall
        apply h
        intro y hy
        rcases List.mem_cons.mp hy with rfl | hy
        · simp [nameMap, hs, ht]
        · exact hall y hy
      obtain ⟨msg, hm⟩ := ih (fun y hy => hlen y (by simp [hy])) hrest
      exact ⟨msg, by simp only [translateSupport, hs, ht, hm, Outcome.map]⟩

theorem lookup_zip_map (f : Nat → Nat) (l : List Nat) (x : Nat) (hx : x ∈ l) :
    (l.zip (l.map f)).lookup x = some (f x) := by
  induction l with
  | nil => cases hx
  | cons a t ih =>
    rw [List.map_cons, List.zip_cons_cons, List.lookup_cons]
    by_cases hxa : x = a
    · subst hxa; simp
    · have : (x == a) = false := by simp [hxa]
      rw [this]
      rcases List.mem_cons.mp hx with h | h
      · exact absurd h hxa
      · exact ih h

theorem copyNodes_ok (f : Nat → Nat) (old : List Nat) (nodes : List Node) (h : ∀ nd ∈ nodes, nd.var ∈ old) :
    copyNodes (old.zip (old.map f)) nodes = some (nodes.map fun nd => ⟨f nd.var, nd.low, nd.high⟩) := by
  induction nodes with
  | nil => rfl
  | cons nd t ih =>
    simp only [copyNodes, lookup_zip_map f old nd.var (h nd (by simp))]
    rw [ih (fun x hx => h x (by simp [hx]))]
    rfl

/-- the array built by the copying loop is the relabelled diagram -/
theorem transfer_array_eq {b : Arr} {n : Nat} (m : Nat) (f : Nat → Nat) (hb : WFo b n) (h2 : 2 ≤ b.size) :
    mkTrue m ++ ((b.toList.drop 2).map fun nd => (⟨f nd.var, nd.low, nd.high⟩ : Node)).toArray =
      mapVars f (setTerm m b) := by
  apply Array.ext_getElem?
  intro i
  rw [Array.getElem?_append, mkTrue_size]
  by_cases hi : i < 2
  · rw [if_pos hi, getElem?_mapVars_lt f _ i hi, getElem?_setTerm_lt m b i hi]
    match i, hi with
    | 0, _ => rw [hb.zero]; rfl
    | 1, _ => rw [hb.one h2]; rfl
  · rw [if_neg hi, getElem?_mapVars_ge f _ i (by omega), getElem?_setTerm_ge m b i (by omega),
      List.getElem?_toArray, List.getElem?_map, List.getElem?_drop, Array.getElem?_toList]
    have : 2 + (i - 2) = i := by omega
    rw [this]

theorem mkFalse_eq_retarget {b : Arr} {n : Nat} (m : Nat) (f : Nat → Nat) (hb : WFo b n) (h1 : b.size = 1) :
    mkFalse m = mapVars f (setTerm m b) := by
  apply Array.ext_getElem?
  intro i
  by_cases hi : i < 2
  · rw [getElem?_mapVars_lt f _ i hi, getElem?_setTerm_lt m b i hi]
    match i, hi with
    | 0, _ => rw [hb.zero]; rfl
    | 1, _ =>
      rw [show b[1]? = none from Array.getElem?_eq_none (by omega),
        show (mkFalse m)[1]? = none from rfl]; rfl
  · rw [getElem?_mapVars_ge f _ i (by omega), getElem?_setTerm_ge m b i (by omega),
      show b[i]? = none from Array.getElem?_eq_none (by omega),
      show (mkFalse m)[i]? = none from Array.getElem?_eq_none (by rw [mkFalse_size]; omega)]; rfl

theorem mkTrue_eq_retarget {b : Arr} {n : Nat} (m : Nat) (f : Nat → Nat) (hb : WFo b n) (h2 : b.size = 2) :
    mkTrue m = mapVars f (setTerm m b) := by
  have := transfer_array_eq m f hb (by omega)
  have hd : b.toList.drop 2 = [] := by
    apply List.drop_eq_nil_of_le; simp; omega
  rw [hd] at this
  simpa using this

end B.Ren