import BddVerif.Model.Limit
import BddVerif.Core.ApplyCanon
import BddVerif.Lemmas.Flip
/-!
Helper lemmas for C05, part 3: the emptiness flag of the dry run is `true` exactly when the specified function
`G root` is satisfiable — by induction over levels, with the invariant "every task already in the set whose
function is satisfiable has set the flag".
-/
namespace B.Lim
open B Std

def lvl (Γ : Ctx) (l r : Nat) : Nat := min (varOf Γ.L Γ.n l) (varOf Γ.R Γ.n r)

def Sat (Γ : Ctx) (c : Bool → Bool → Bool) (l r : Nat) : Prop := ∃ v, Γ.G c l r v = true

def DInv (Γ : Ctx) (c : Bool → Bool → Bool) (k : Nat) (s : DSt) : Prop :=
  ∀ l r, s.visited.contains (l, r) = true → k ≤ lvl Γ l r → Sat Γ c l r → s.nonEmpty = true

structure DOut (Γ : Ctx) (c : Bool → Bool → Bool) (k : Nat) (l r : Nat) (s out : DSt) : Prop where
  inv : DInv Γ c k out
  frame : ∀ l' r', lvl Γ l' r' < k → out.visited.contains (l', r') = s.visited.contains (l', r')
  flag : out.nonEmpty = true ↔ (s.nonEmpty = true ∨ Sat Γ c l r)

def DSpec (Γ : Ctx) (c : Bool → Bool → Bool) (D : Nat → Nat → DSt → DSt) (k : Nat) : Prop :=
  ∀ l r s, l < Γ.L.size → r < Γ.R.size → k ≤ varOf Γ.L Γ.n l → k ≤ varOf Γ.R Γ.n r → DInv Γ c k s →
    DOut Γ c k l r s (D l r s)

theorem upd_self (v : Nat → Bool) (d : Nat) : upd v d (v d) = v := by
  funext j; unfold upd; split
  · rename_i h; rw [h]
  · rfl

theorem sat_split (Γ : Ctx) (c : Bool → Bool → Bool) (l r d x1 y1 x2 y2 : Nat)
    (hG1 : ∀ v, Γ.G c l r (upd v d true) = Γ.G c x1 y1 v)
    (hG2 : ∀ v, Γ.G c l r (upd v d false) = Γ.G c x2 y2 v) :
    Sat Γ c l r ↔ (Sat Γ c x1 y1 ∨ Sat Γ c x2 y2) := by
  constructor
  · intro ⟨v, hv⟩
    cases hd : v d with
    | true =>
      have e : upd v d true = v := by rw [← hd]; exact upd_self v d
      left; exact ⟨v, by rw [← hG1, e]; exact hv⟩
    | false =>
      have e : upd v d false = v := by rw [← hd]; exact upd_self v d
      right; exact ⟨v, by rw [← hG2, e]; exact hv⟩
  · intro h
    rcases h with ⟨v, hv⟩ | ⟨v, hv⟩
    · exact ⟨upd v d true, by rw [hG1]; exact hv⟩
    · exact ⟨upd v d false, by rw [hG2]; exact hv⟩

/-- the two children of an expanded task, processed one after the other from the state with the task inserted -/
theorem dry_core (Γ : Ctx) (c : Bool → Bool → Bool) (D : Nat → Nat → DSt → DSt)
    (k d l r a1 b1 a2 b2 : Nat) (s : DSt)
    (hkd : k ≤ d) (hd : d = lvl Γ l r) (hspec : DSpec Γ c D (d + 1))
    (hinv : DInv Γ c k s)
    (ha1 : a1 < Γ.L.size) (hb1 : b1 < Γ.R.size) (hva1 : d + 1 ≤ varOf Γ.L Γ.n a1) (hvb1 : d + 1 ≤ varOf Γ.R Γ.n b1)
    (ha2 : a2 < Γ.L.size) (hb2 : b2 < Γ.R.size) (hva2 : d + 1 ≤ varOf Γ.L Γ.n a2) (hvb2 : d + 1 ≤ varOf Γ.R Γ.n b2)
    (hsat : Sat Γ c l r ↔ (Sat Γ c a1 b1 ∨ Sat Γ c a2 b2)) :
    DOut Γ c k l r s (D a2 b2 (D a1 b1 { s with visited := s.visited.insert (l, r) })) := by
  generalize hs1 : ({ s with visited := s.visited.insert (l, r) } : DSt) = s1
  have hs1v : ∀ l' r', s1.visited.contains (l', r') = ((l, r) == (l', r') || s.visited.contains (l', r')) := by
    intro l' r'; rw [← hs1]; exact HashSet.contains_insert
  have hs1f : s1.nonEmpty = s.nonEmpty := by rw [← hs1]
  have inv1 : DInv Γ c (d + 1) s1 := by
    intro l' r' hv hl hs
    rw [hs1v] at hv
    have hne : ((l, r) == (l', r')) = false := by
      simp only [beq_eq_false_iff_ne, ne_eq, Prod.mk.injEq, not_and]
      intro e1 e2; subst e1; subst e2; omega
    rw [hne, Bool.false_or] at hv
    rw [hs1f]; exact hinv l' r' hv (by omega) hs
  have O1 := hspec a1 b1 s1 ha1 hb1 hva1 hvb1 inv1
  generalize D a1 b1 s1 = o1 at O1
  have O2 := hspec a2 b2 o1 ha2 hb2 hva2 hvb2 O1.inv
  generalize D a2 b2 o1 = o2 at O2
  have hflag : o2.nonEmpty = true ↔ (s.nonEmpty = true ∨ Sat Γ c l r) := by
    rw [O2.flag, O1.flag, hs1f, hsat]
    constructor
    · rintro ((h | h) | h)
      · exact Or.inl h
      · exact Or.inr (Or.inl h)
      · exact Or.inr (Or.inr h)
    · rintro (h | h | h)
      · exact Or.inl (Or.inl h)
      · exact Or.inl (Or.inr h)
      · exact Or.inr h
  refine ⟨?_, ?_, hflag⟩
  · intro l' r' hv hl hs
    by_cases hlv : d + 1 ≤ lvl Γ l' r'
    · exact O2.inv l' r' hv hlv hs
    · rw [O2.frame l' r' (by omega), O1.frame l' r' (by omega), hs1v] at hv
      rw [hflag]
      by_cases he : ((l, r) == (l', r')) = true
      · have : (l, r) = (l', r') := by simpa using he
        cases this
        exact Or.inr hs
      · have he' : ((l, r) == (l', r')) = false := by simpa using he
        rw [he', Bool.false_or] at hv
        exact Or.inl (hinv l' r' hv hl hs)
  · intro l' r' hl
    rw [O2.frame l' r' (by omega), O1.frame l' r' (by omega), hs1v]
    have hne : ((l, r) == (l', r')) = false := by
      simp only [beq_eq_false_iff_ne, ne_eq, Prod.mk.injEq, not_and]
      intro e1 e2; subst e1; subst e2; omega
    rw [hne, Bool.false_or]

theorem dryVisit_spec (Γ : Ctx) (c : Bool → Bool → Bool) (ok : Γ.Ok c) (D : Nat → Nat → DSt → DSt) (k : Nat)
    (hrec : ∀ k', k < k' → k' ≤ Γ.n → DSpec Γ c D k') : DSpec Γ c (dryVisit Γ D) k := by
  intro l r s hl hr hkl hkr hinv
  unfold dryVisit
  cases hop : Γ.op (asBool l) (asBool r) with
  | some t =>
    have hG := Γ.G_const c ok l r t hop
    refine ⟨?_, fun _ _ _ => rfl, ?_⟩
    · intro l' r' hv hl' hs
      have := hinv l' r' hv hl' hs
      simp [this]
    · show (s.nonEmpty || t) = true ↔ _
      constructor
      · intro h
        cases hsn : s.nonEmpty with
        | true => exact Or.inl rfl
        | false =>
          rw [hsn] at h
          right; exact ⟨fun _ => false, by rw [hG]; simpa using h⟩
      · rintro (h | ⟨v, hv⟩)
        · simp [h]
        · rw [hG] at hv; simp [hv]
  | none =>
    simp only
    cases hc : s.visited.contains (l, r) with
    | true =>
      simp only [if_true]
      refine ⟨hinv, fun _ _ _ => rfl, ?_⟩
      constructor
      · exact Or.inl
      · rintro (h | h)
        · exact h
        · exact hinv l r hc (by unfold lvl; omega) h
    | false =>
      simp only [Bool.false_eq_true, if_false]
      rw [nodeAt_var ok.wfL l hl, nodeAt_var ok.wfR r hr]
      generalize hd : min (varOf Γ.L Γ.n l) (varOf Γ.R Γ.n r) = d
      have hvl := ok.wfL.varOf_le l
      have hvr := ok.wfR.varOf_le r
      have hdn : d < Γ.n := by
        rcases Nat.lt_or_ge d Γ.n with h | h
        · exact h
        · exfalso
          have hl2 := ok.wfL.terminal_of_varOf l hl (by omega)
          have hr2 := ok.wfR.terminal_of_varOf r hr (by omega)
          obtain ⟨x, hx, _⟩ := asBool_terminal l hl2
          obtain ⟨y, hy, _⟩ := asBool_terminal r hr2
          rw [hx, hy, ok.cons.total] at hop
          cases hop
      have hdl : d ≤ varOf Γ.L Γ.n l := by omega
      have hdr : d ≤ varOf Γ.R Γ.n r := by omega
      have KL := fun b => evW_kids ok.wfL l hl d hdl hdn Γ.fl (fun _ => false) b
      have KR := fun b => evW_kids ok.wfR r hr d hdr hdn Γ.fr (fun _ => false) b
      have GS := fun b v => Γ.G_split c ok l r hl hr d hdl hdr hdn b v
      have hR := hrec (d + 1) (by omega) (by omega)
      have kl1 := KL false; have kl2 := KL true; have kr1 := KR false; have kr2 := KR true
      simp only [sel_true, sel_false] at kl1 kl2 kr1 kr2
      by_cases hfo : Γ.fo = some d
      · rw [if_pos hfo]
        have g1 := GS true; have g2 := GS false
        simp only [hfo, if_true, Bool.not_true, Bool.not_false, sel_true, sel_false] at g1 g2
        exact dry_core Γ c D k d l r _ _ _ _ s (by omega) (by unfold lvl; omega) hR hinv
          kl1.2.1 kr1.2.1 kl1.2.2 kr1.2.2 kl2.2.1 kr2.2.1 kl2.2.2 kr2.2.2
          (sat_split Γ c l r d _ _ _ _ g1 g2)
      · rw [if_neg hfo]
        have g1 := GS true; have g2 := GS false
        simp only [hfo, if_false, sel_true, sel_false] at g1 g2
        exact dry_core Γ c D k d l r _ _ _ _ s (by omega) (by unfold lvl; omega) hR hinv
          kl2.2.1 kr2.2.1 kl2.2.2 kr2.2.2 kl1.2.1 kr1.2.1 kl1.2.2 kr1.2.2
          (sat_split Γ c l r d _ _ _ _ g1 g2)

theorem dryRec_spec (Γ : Ctx) (c : Bool → Bool → Bool) (ok : Γ.Ok c) :
    ∀ fuel k, Γ.n - k < fuel → DSpec Γ c (dryRec Γ fuel) k := by
  intro fuel
  induction fuel with
  | zero => intro k hk; omega
  | succ fuel ih =>
    intro k hk
    show DSpec Γ c (dryVisit Γ (dryRec Γ fuel)) k
    apply dryVisit_spec Γ c ok
    intro k' h1 h2
    exact ih k' (by omega)

theorem dinv_init (Γ : Ctx) (c : Bool → Bool → Bool) (k : Nat) : DInv Γ c k initDSt := by
  intro l r hv
  have : initDSt.visited.contains (l, r) = false := HashSet.contains_emptyWithCapacity
  rw [this] at hv; cases hv

/-- the flag of the unlimited dry run says whether the specified function is satisfiable -/
theorem dryFull_flag (L R : Arr) (n : Nat) (op : Op2) (c : Bool → Bool → Bool) (fl fr fo : Option Nat)
    (hL : WFo L n) (hR : WFo R n) (hc : Consistent op c)
    (hfl : ∀ x, fl = some x → x < n) (hfr : ∀ x, fr = some x → x < n) :
    (dryFull L R op fl fr fo).1 = true ↔ ∃ v, specFn L R n c fl fr fo v = true := by
  have ok : Ctx.Ok ⟨L, R, n, op, fl, fr, fo⟩ c := ⟨hL, hR, hc, hfl, hfr⟩
  have hspec := dryRec_spec ⟨L, R, n, op, fl, fr, fo⟩ c ok (n + 2) 0 (by show n - 0 < n + 2; omega)
    (root L) (root R) initDSt (root_lt hL) (root_lt hR) (Nat.zero_le _) (Nat.zero_le _) (dinv_init _ c 0)
  unfold dryFull
  simp only [numVars_of_wf hL]
  rw [hspec.flag]
  constructor
  · rintro (h | h)
    · cases h
    · exact h
  · exact Or.inr

end B.Lim
