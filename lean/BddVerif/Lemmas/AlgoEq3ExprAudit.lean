import BddVerif.Lemmas.AlgoEq3ExprDriver
import BddVerif.Lemmas.AlgoEq3ExprString
/-! Axiom audit of the `AlgoEq3Expr*` theorems (expected: a subset of propext, Classical.choice, Quot.sound). -/
open B.AlgoEq3Expr

-- conversion
#print axioms toE_ofE
#print axioms ofE_toE
-- Display / TryFrom
#print axioms BooleanExpression_fmt_eq_model
#print axioms BooleanExpression_to_string_eq_model
#print axioms BooleanExpression_fmt_ofE
#print axioms BooleanExpression_fmt_fuel_panic
#print axioms BooleanExpression_try_from_eq
#print axioms genDisplay_eq_model
-- if_then_else
#print axioms ite_function_eq
#print axioms Bdd_if_then_else_eq_model
#print axioms Bdd_if_then_else_eq_canon
#print axioms Bdd_if_then_else_eq_model_driver
#print axioms Bdd_if_then_else_panics_mismatch
-- safe_eval_expression / eval_expression
#print axioms var_by_name_eq_model
#print axioms safe_eval_eq_model
#print axioms safe_eval_none_iff
#print axioms safe_eval_some_canon
#print axioms eval_expression_eq_model
#print axioms eval_expression_panic_iff
#print axioms EvalOK_of_size
#print axioms EvalOK_of_size_condFree
#print axioms EvalOK_closed
#print axioms EvalOK_closed_condFree
#print axioms safe_eval_eq_model_closed
#print axioms safe_eval_eq_model_closed_condFree
#print axioms eval_expression_eq_model_closed
#print axioms eval_expression_eq_model_closed_condFree
#print axioms EvalOK_driver
#print axioms EvalOK_driver_condFree
#print axioms eval_eq_model_driver
#print axioms eval_eq_model_driver_of_ok
-- eval_expression_string
#print axioms eval_expression_string_unfold
#print axioms eval_expression_string_rel_model
#print axioms parse_relE
#print axioms parsers_depth
#print axioms parse_depth_le
#print axioms eval_expression_string_rel
#print axioms eval_expression_string_rel_closed
#print axioms eval_expression_string_ok
#print axioms eval_expression_string_rel_driver
-- to_boolean_expression
#print axioms to_boolean_expression_desugar
#print axioms gStep_rel
#print axioms fold_rel
#print axioms to_boolean_expression_rel
#print axioms to_boolean_expression_ok_iff
#print axioms to_boolean_expression_eq_model
#print axioms to_boolean_expression_panic_iff
#print axioms to_boolean_expression_const
#print axioms to_boolean_expression_sem
#print axioms to_boolean_expression_rel_driver
#print axioms to_boolean_expression_eq_model_driver
#print axioms export_eval_roundtrip_translated
