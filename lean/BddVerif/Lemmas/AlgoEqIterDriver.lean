import BddVerif.Lemmas.AlgoEqIterChain
import BddVerif.Lemmas.AlgoEqDnf
import BddVerif.Lemmas.AlgoEqIterVal
import BddVerif.Drive.Algo
/-!
Corollaries for the fuel that the driver of the generated definitions (`Drive/Algo.lean`) actually passes:
`fuel1 A = 8 · (size + numVars + 8)` to `BddPathIterator::new/next`, `fuelPaths A k = 8 · (k + 2) · (size + numVars + 8)`
to `to_dnf` (with `k` the number of clauses announced by the harness); and the driver's collecting loop
`genPaths` is `collect` of the translated `next`.
(This file uses the ordinary `Monad Outcome` instance, like `Drive/Algo.lean`.)
-/
namespace B.AlgoEqIt
open B B.Gen B.Gen.Algo B.Iter B.Drive.Algo

/-! ### the collecting loop of the driver (`genPaths`, `genClauseVals`) is `collect` -/

section
variable {σ α : Type}

/-- one iteration of the driver's collecting loop: state = (iterator, items so far in reverse, finished) -/
def drvStep (step : σ → Outcome (Option α × σ)) (s : σ × List α × Bool) : Outcome (ForInStep (σ × List α × Bool)) :=
  match step s.1 with
  | .ok (none, it') => .ok (.done (it', s.2.1, true))
  | .ok (some c, it') => .ok (.yield (it', c :: s.2.1, s.2.2))
  | .err m => .err m
  | .panic m => .panic m

def drvPost (s : σ × List α × Bool) : Outcome (List α) :=
  if s.2.2 then .ok s.2.1.reverse else .panic "fuel"

theorem drvLoop_eq (step : σ → Outcome (Option α × σ)) : ∀ (k a : Nat) (it : σ) (acc : List α),
    (forIn (List.range' a k) (it, acc, false) (fun _ s => drvStep step s) >>= drvPost) =
      (collect step k it).map (acc.reverse ++ ·) := by
  intro k
  induction k with
  | zero => intro a it acc; rfl
  | succ k ih =>
    intro a it acc
    rw [List.range'_succ, List.forIn_cons]
    unfold collect drvStep
    cases hs : step it with
    | err m => rfl
    | panic m => rfl
    | ok r =>
      obtain ⟨o, it'⟩ := r
      cases o with
      | none =>
        show Outcome.ok acc.reverse = Outcome.ok (acc.reverse ++ [])
        rw [List.append_nil]
      | some c =>
        show (forIn (List.range' (a + 1) k) (it', c :: acc, false) (fun _ s => drvStep step s) >>= drvPost) = _
        rw [ih (a + 1) it' (c :: acc)]
        cases hc : collect step k it' <;> simp [Outcome.map, hc]
end

theorem outcome_bind_congr {α β} (x : Outcome α) (f g : α → Outcome β) (h : ∀ a, f a = g a) : (x >>= f) = (x >>= g) := by
  have : f = g := funext h
  rw [this]

/-- the driver's `genPaths` = the translated `new`, then `collect` of the translated `next` with `limit + 1` calls -/
theorem genPaths_eq_collect (A : Arr) (limit : Nat) :
    genPaths A limit =
      BddPathIterator_new (fuel1 A) A >>= fun st => collect (BddPathIterator_next (fuel1 A)) (limit + 1) st := by
  unfold genPaths
  simp only [Std.Legacy.Range.forIn_eq_forIn_range', Std.Legacy.Range.size]
  apply outcome_bind_congr
  intro st
  have e : (limit + 1 - 0 + 1 - 1) / 1 = limit + 1 := by simp
  rw [e]
  have key : ∀ (body : Nat → (Arr × Array Nat) × List (Array (Option Bool)) × Bool →
        Outcome (ForInStep ((Arr × Array Nat) × List (Array (Option Bool)) × Bool))),
      (∀ x s, body x s = drvStep (BddPathIterator_next (fuel1 A)) s) →
      forIn (List.range' 0 (limit + 1)) (st, ([] : List (Array (Option Bool))), false) body =
        forIn (List.range' 0 (limit + 1)) (st, [], false) (fun _ s => drvStep (BddPathIterator_next (fuel1 A)) s) := by
    intro body hb
    have : body = fun _ s => drvStep (BddPathIterator_next (fuel1 A)) s := funext fun x => funext fun s => hb x s
    rw [this]
  rw [key]
  · have := drvLoop_eq (BddPathIterator_next (fuel1 A)) (limit + 1) 0 st []
    simp only [List.reverse_nil, List.nil_append] at this
    have hid : ∀ (o : Outcome (List (Array (Option Bool)))), o.map (fun l => l) = o := by
      intro o; cases o <;> rfl
    rw [hid] at this
    rw [← this]
    apply outcome_bind_congr
    intro s
    unfold drvPost
    cases s.2.2 <;> rfl
  · intro x s
    unfold drvStep
    cases BddPathIterator_next (fuel1 A) s.fst with
    | err m => rfl
    | panic m => rfl
    | ok r =>
      obtain ⟨o, it'⟩ := r
      cases o <;> rfl

/-! ### the fuels of the driver -/

theorem fuel1_ge (A : Arr) : A.size + 2 ≤ fuel1 A := by unfold fuel1; omega

/-- **driver, path iterator**: with the fuel of the driver and a limit `≥` the number of paths, `genPaths`
    (the translated `new` + `next` collected) returns exactly `paths A (root A) []` -/
theorem path_iter_translated_driver {A : Arr} {n : Nat} (h : Red A n) (hn : numVars A = n)
    (h32 : A.size ≤ 4294967296) (limit : Nat) (hl : (pathsOf A).length ≤ limit) :
    genPaths A limit = .ok ((paths A (root A) []).map List.toArray) ∧
      (paths A (root A) []).map (pvNorm n) = pathsOf A := by
  obtain ⟨st, hnew, hcol, hnorm⟩ := path_iter_translated h hn h32 (fuel1 A) (fuel1_ge A) (limit + 1) (by omega)
  refine ⟨?_, hnorm⟩
  rw [genPaths_eq_collect, hnew]
  exact hcol

theorem fuelPaths_ge (A : Arr) (k : Nat) (hk : (pathsOf A).length ≤ k) : dnfFuelBound A ≤ fuelPaths A k := by
  unfold dnfFuelBound fuelPaths
  have e1 : (pathsOf A).length * A.size ≤ k * A.size := Nat.mul_le_mul_right _ hk
  have e2 : k * A.size ≤ (k + 2) * (A.size + numVars A + 8) :=
    Nat.mul_le_mul (by omega) (by omega)
  have e3 : 1 ≤ (k + 2) * (A.size + numVars A + 8) := Nat.mul_pos (by omega) (by omega)
  rw [Nat.mul_assoc]
  omega

/-- **driver, `to_dnf`**: `genDnf A k` with `k ≥` the number of paths -/
theorem to_dnf_translated_driver {A : Arr} {n : Nat} (h : Red A n) (hn : numVars A = n)
    (h32 : A.size ≤ 4294967296) (k : Nat) (hk : (pathsOf A).length ≤ k) :
    ∃ R, genDnf A k = .ok R ∧ R.map (fun c => pvNorm n c.toList) = pathsOf A ∧
      (∀ c ∈ R, NF.InRange n c.toList) ∧ ∀ v, NF.dnfFn (R.map Array.toList) v = den A v := by
  obtain ⟨R, hR, hnorm⟩ := to_dnf_translated_eq_paths h hn h32 (fuelPaths A k) (fuelPaths_ge A k hk)
  obtain ⟨cs, hcs, hr, hsem⟩ := to_dnf_sem_translated h hn h32 (fuelPaths A k) (fuelPaths_ge A k hk)
  rw [hR] at hcs
  have := Outcome.ok.inj hcs
  subst this
  exact ⟨R.toList, by unfold genDnf; rw [hR]; rfl, hnorm, hr, hsem⟩

/-- the other call of the driver (`C09` lines: `Bdd_to_dnf (8 * fuel1 A * (A.size + 2)) A`) has a fuel that is
    polynomial in the size, so it is enough exactly when the number of paths is moderate: -/
theorem to_dnf_translated_driver_c09 {A : Arr} {n : Nat} (h : Red A n) (hn : numVars A = n)
    (h32 : A.size ≤ 4294967296) (hk : 5 * ((pathsOf A).length * A.size) + 1 ≤ 8 * fuel1 A * (A.size + 2)) :
    ∃ R, Bdd_to_dnf (8 * fuel1 A * (A.size + 2)) A = .ok R ∧
      R.toList.map (fun c => pvNorm n c.toList) = pathsOf A :=
  to_dnf_translated_eq_paths h hn h32 _ hk

/-! ### `to_cnf` and the valuations of a clause -/

/-- **driver, `to_cnf`**: `genCnf A` (fuel `numVars A + 8`) -/
theorem to_cnf_translated_driver {A : Arr} {n : Nat} (h : Red A n) (hn : numVars A = n) (h32 : A.size ≤ 4294967296) :
    ∃ R, genCnf A = .ok R ∧ (∀ c ∈ R, NF.InRange n c.toList) ∧ ∀ v, NF.cnfFn (R.map Array.toList) v = den A v := by
  obtain ⟨cs, hcs, hr, hsem⟩ := to_cnf_sem_translated_driver A n h hn h32
  exact ⟨cs.toList, by unfold genCnf; rw [hcs]; rfl, hr, hsem⟩

/-- the driver's `genClauseVals` = the translated `new`, then `collect` of the translated `next` -/
theorem genClauseVals_eq_collect (clause : Array (Option Bool)) (n limit : Nat) :
    genClauseVals clause n limit =
      ValuationsOfClauseIterator_new clause n >>= fun st => collect ValuationsOfClauseIterator_next (limit + 1) st := by
  unfold genClauseVals
  simp only [Std.Legacy.Range.forIn_eq_forIn_range', Std.Legacy.Range.size]
  apply outcome_bind_congr
  intro st
  have e : (limit + 1 - 0 + 1 - 1) / 1 = limit + 1 := by simp
  rw [e]
  have key : ∀ (body : Nat → (Option (Array Bool) × Array (Option Bool)) × List (Array Bool) × Bool →
        Outcome (ForInStep ((Option (Array Bool) × Array (Option Bool)) × List (Array Bool) × Bool))),
      (∀ x s, body x s = drvStep ValuationsOfClauseIterator_next s) →
      forIn (List.range' 0 (limit + 1)) (st, ([] : List (Array Bool)), false) body =
        forIn (List.range' 0 (limit + 1)) (st, [], false) (fun _ s => drvStep ValuationsOfClauseIterator_next s) := by
    intro body hb
    have : body = fun _ s => drvStep ValuationsOfClauseIterator_next s := funext fun x => funext fun s => hb x s
    rw [this]
  rw [key]
  · have := drvLoop_eq ValuationsOfClauseIterator_next (limit + 1) 0 st []
    simp only [List.reverse_nil, List.nil_append] at this
    have hid : ∀ (o : Outcome (List (Array Bool))), o.map (fun l => l) = o := by
      intro o; cases o <;> rfl
    rw [hid] at this
    rw [← this]
    apply outcome_bind_congr
    intro s
    unfold drvPost
    cases s.2.2 <;> rfl
  · intro x s
    unfold drvStep
    cases ValuationsOfClauseIterator_next s.fst with
    | err m => rfl
    | panic m => rfl
    | ok r =>
      obtain ⟨o, it'⟩ := r
      cases o <;> rfl

/-- **driver, valuations of a clause**: `genClauseVals clause n limit` with `limit ≥ 2^(free positions)` yields
    exactly `extensions` of the clause over the `n` variables -/
theorem clause_vals_translated_driver (clause : Array (Option Bool)) (n : Nat) (h : NoTrueBeyond n clause.toList)
    (hn : n < 65536) (hc : clause.size ≤ 65536) (limit : Nat) (hl : 2 ^ freeCount (pvNorm n clause.toList) ≤ limit) :
    ∃ l, genClauseVals clause n limit = .ok l ∧ l.map Array.toList = extensions (pvNorm n clause.toList) := by
  obtain ⟨st, hst, l, hl', hext⟩ := clause_vals_translated_eq clause n h hn hc (limit + 1) (by omega)
  exact ⟨l, by rw [genClauseVals_eq_collect, hst]; exact hl', hext⟩

/-! ### non-vacuity: the diagram `exA` of `Props/C08.lean` (5 nodes, 4 variables, 2 paths) -/

open B.Props.C08 in
example : genPaths exA 2 = .ok [#[some false, some true], #[some true, none, some false]] :=
  (path_iter_translated_driver exA_red rfl (by decide) 2 (by decide)).1

open B.Props.C08 in
example : ∃ R, genDnf exA 2 = .ok R ∧
    R.map (fun c => pvNorm 4 c.toList) = [[some false, some true, none, none], [some true, none, some false, none]] :=
  let ⟨R, h1, h2, _⟩ := to_dnf_translated_driver exA_red rfl (by decide) 2 (by decide)
  ⟨R, h1, h2⟩

open B.Props.C08 in
example := to_cnf_translated_driver exA_red rfl (by decide)

end B.AlgoEqIt
