import BddVerif.Model.Sched
import BddVerif.Gen.OpTables
import BddVerif.Gen.Algo
import BddVerif.Gen.Algo2
import BddVerif.Gen.Algo3
/-!
# The scheduling model of C19 instantiated with the TRANSLATED library operations

`Gen/Algo.lean`, `Gen/Algo2.lean`, `Gen/Algo3.lean` are regenerated on every run from the text of the Rust
sources by `tools/rust2lean.py`: every translated Rust function is a plain Lean function in the `Outcome`
monad (`ok` / `err` / `panic`; a loop that runs out of the given fuel is `panic "fuel"`). This file defines

* `V`    — the values a client thread can hold (Bdds, variable sets, valuations, clause lists, bytes, text,
           expressions, counts, …);
* `Op`   — 86 operation forms (about 90 public functions of the library) with their immediate (non-operand) arguments;
* `semT fuel : Op → List V → Outcome V` — implemented BY the generated functions, nothing else;
* `opT fuel : Op → List (Outcome V) → Outcome V` — the same on operands that are themselves outcomes
  (the value domain of the scheduling model is `Outcome V`: a panic is a value a thread holds, and an
  operation applied to an operand that is not `ok` is the explicit outcome `err "operand is not a value"`);
* `semTr fuel` — the `Sched.Sem` of that function, and `semTrH fuel touch`, the same with an arbitrary hidden
  state that every call may modify (`touch`) but that cannot reach a result.

`Transparent (semTr fuel) (opT fuel)` is immediate — the implementation IS a function of the operation and the
operand values. That is the whole point: for the operations listed here the modelling assumption of
`Props/C19.lean` is no longer an assumption about a hand-written model but a fact about code regenerated from
the current source, and the TRUSTED STEP IS THE TRANSLATOR. Hidden state would have to be caught there, and it
is: `tools/rust2lean.py` translates a function only if it can express it as a pure function of its arguments.
The translator works from a WHITELIST of constructs (see the header of `tools/rust2lean.py`): anything it has
no rule for is a hard error naming file / function / construct (exit 3 = broken tie for the generated file, so
that everything importing it stops checking) — never guessed, never skipped. In particular it has NO rule for
  * `static` / `static mut` items (the item scanner does not even record them: a reference is an "unknown
    name / path" error), `thread_local!`, `lazy_static!` and other unknown macros;
  * interior mutability and sharing (`Cell`, `RefCell`, `UnsafeCell`, `Mutex`, `RwLock`, atomics, `Rc`, `Arc`:
    types without a Lean counterpart, unknown methods), functions returning `&mut`;
  * raw pointers, FFI, inline assembly, `dyn` / `impl Trait` other than one `Fn` bound, traits; an
    `unsafe { … }` block is accepted only as a block whose content is itself translatable (here: calls of the
    crate's own `unsafe fn`s `set_num_vars` / `rename_variables`, which are translated like any function);
  * ambient inputs (environment, clock, thread id, `thread_rng`, process id, file system): unknown paths; every
    std / crate call needs an entry in the translator's method tables and the hand-written shims `Gen/RustShim*.lean`;
  * iteration over `HashMap` / `HashSet`: a vector or iterator made from a hash container is typed "hash-ordered"
    and only `len`, `is_empty`, `sort` (after which it is an ordinary vector), `map`, and `collect` back into a hash
    container are accepted — indexing or iterating it is rejected;
  * closures whose body can panic or mutate captured state, function values that are not pure.
A `&mut self` / `&mut` parameter becomes a returned value, a random generator becomes an explicit list of
coins, a `Read`/`Write` becomes an explicit scripted device, a loop becomes a fuel-bounded `for` — so every
input of a translated function is visible in its Lean type.

What remains assumed is therefore: the fidelity of the translator and of its shims (checked differentially by
`drv_algo*` on every case line of every property, and for the functions with a hand model by the `AlgoEq*`
equivalence proofs), the dependencies (std, fxhash, num-bigint, rand through a caller-supplied generator), and the
memory model of real hardware (excluded for safe Rust by the type system; the model has no memory).
-/
set_option linter.unusedVariables false
namespace B.SchedT
open B B.Gen B.Gen.Algo B.Gen.Algo2 B.Gen.Algo3

/-- `BddVariableSet` as translated: (num_vars, var_names, var_index_mapping) -/
abbrev VarSetT := Nat × Array String × Std.HashMap String Nat
abbrev Clause := Array (Option Bool)

/-- values held by client threads -/
inductive V where
  | bdd (A : Arr)
  | optBdd (A : Option Arr)
  | vset (s : VarSetT)
  | nat (n : Nat)
  | optNat (n : Option Nat)
  | bool (b : Bool)
  | valuation (v : Array Bool)
  | optValuation (v : Option (Array Bool))
  | optClause (c : Option Clause)
  | clauses (cs : Array Clause)
  | bytes (bs : Array Nat)
  | text (s : String)
  | dry (r : Option (Bool × Nat))
  | ord (o : Ordering)
  | optOrd (o : Option Ordering)
  | expr (e : BooleanExpression)
  | exprResult (e : Except String BooleanExpression)
  | varSetOfNat (s : Std.HashSet Nat)
  | countPerVar (m : Std.HashMap Nat Nat)
  | validity (r : Except String Unit)
  | bddResult (r : Except String Arr)
  | unit

/-- the six built-in partial operator tables of `op_function`, regenerated in `Gen/OpTables.lean` -/
inductive Tbl where
  | and | or | imp | iff | xor | andNot
deriving DecidableEq, Repr

def Tbl.fn : Tbl → Op2
  | .and => Gen.and_ | .or => Gen.or_ | .imp => Gen.imp_ | .iff => Gen.iff_ | .xor => Gen.xor_ | .andNot => Gen.and_not_

/-- operations with their immediate arguments; the operands (Bdds, variable sets, …) come from the pool or
    from the thread's locals. The comment gives the operand list. -/
inductive Op where
  -- Boolean operators
  | named (t : Tbl)                                          -- [bdd, bdd]   Bdd::and / or / imp / iff / xor / and_not
  | binaryOp (t : Tbl)                                       -- [bdd, bdd]   Bdd::binary_op
  | fusedFlip (t : Tbl) (fl fr fo : Option Nat)              -- [bdd, bdd]   Bdd::fused_binary_flip_op
  | withLimit (t : Tbl) (limit : Nat)                        -- [bdd, bdd]   Bdd::binary_op_with_limit
  | fusedFlipWithLimit (t : Tbl) (limit : Nat) (fl fr fo : Option Nat)      -- Bdd::fused_binary_flip_op_with_limit
  | check (t : Tbl) (limit : Nat)                            -- [bdd, bdd]   Bdd::check_binary_op (dry run)
  | checkFusedFlip (t : Tbl) (limit : Nat) (fl fr fo : Option Nat)          -- Bdd::check_fused_binary_flip_op
  | not                                                      -- [bdd]
  | ifThenElse                                               -- [bdd, bdd, bdd]
  | fusedTernaryIte (fa fb fc fo : Option Nat)               -- [bdd, bdd, bdd] Bdd::fused_ternary_flip_op with `ite`
  -- quantification and nested operators
  | opWithExists (t : Tbl) (vars : Array Nat)                -- [bdd, bdd]   Bdd::binary_op_with_exists
  | opWithForAll (t : Tbl) (vars : Array Nat)                -- [bdd, bdd]   Bdd::binary_op_with_for_all
  | varExists (x : Nat) | varForAll (x : Nat) | varProject (x : Nat)        -- [bdd]
  | exists_ (vars : Array Nat) | forAll (vars : Array Nat) | project (vars : Array Nat)   -- [bdd]
  -- select / restrict / pick
  | varSelect (x : Nat) (b : Bool) | select (lits : Array (Nat × Bool))     -- [bdd]
  | varRestrict (x : Nat) (b : Bool) | restrict (lits : Array (Nat × Bool)) -- [bdd]
  | varPick (x : Nat) | pick (vars : Array Nat)                             -- [bdd]
  | varPickRandom (x : Nat) (coins : List Bool) | pickRandom (vars : Array Nat) (coins : List Bool)   -- [bdd]
  -- substitution and renaming (`&mut self` is returned)
  | substitute (x : Nat)                                     -- [bdd, bdd]
  | renameVariable (old new : Nat) | setNumVars (n : Nat)    -- [bdd]
  -- counting, tests, evaluation
  | exactCardinality | exactClauseCardinality | size | isTrue | isFalse | isClause | isValuation | validate   -- [bdd]
  | evalIn (v : Array Bool)                                  -- [bdd]
  | supportSet | sizePerVariable                             -- [bdd]
  | cmpSize | cmpCardinality | cmpCardinalityStrict | cmpImplies | cmpStructural      -- [bdd, bdd]
  -- selectors
  | satWitness | firstValuation | lastValuation | mostPositiveValuation | mostNegativeValuation   -- [bdd]
  | firstClause | lastClause | mostFixedClause | mostFreeClause | necessaryClause                 -- [bdd]
  | randomValuation (coins : List Bool) | randomClause (coins : List Bool)                        -- [bdd]
  -- normal forms
  | toDnf | toCnf | toOptimizedDnf                           -- [bdd]
  | mkDnf | mkCnf                                            -- [vset, clauses]
  | ofValuation                                              -- [valuation]  Bdd::from(BddValuation)
  -- serialisers
  | toBytes | toText                                         -- [bdd]
  | fromBytes                                                -- [bytes]
  | fromString                                               -- [text]
  | fromNodes                                                -- [bdd] (the node vector re-checked by Bdd::from_nodes)
  | toDotString (zeroPruned : Bool)                          -- [bdd, vset]
  -- expressions
  | parse (s : String)                                       -- []           BooleanExpression::try_from
  | display                                                  -- [expr]
  | safeEval                                                 -- [vset, expr]
  | evalString (s : String)                                  -- [vset]
  | toBooleanExpression                                      -- [bdd, vset]
  -- variable sets
  | newVarSet (names : Array String)                         -- []           BddVariableSet::new
  | newAnonymous (n : Nat)                                   -- []
  | builderVarSet (names : Array String)                     -- []           builder: make_variables + build
  | varByName (name : String) | mkVarByName (name : String) | mkNotVarByName (name : String)   -- [vset]
  | mkLiteral (x : Nat) (b : Bool)                           -- [vset]
  | mkConjunctiveClause (c : Clause) | mkDisjunctiveClause (c : Clause)     -- [vset]
  | mkSatExactlyK (k : Nat) (vars : Array Nat) | mkSatUpToK (k : Nat) (vars : Array Nat)        -- [vset]
  | transferFrom                                             -- [vset (target), bdd, vset (source)]

def wrongOperands : Outcome V := .err "wrong operand kinds for this operation"

/-- **the operations, implemented by the generated functions** (`fuel` bounds every translated loop) -/
def semT (fuel : Nat) : Op → List V → Outcome V
  | .named .and, [.bdd a, .bdd b] => (Bdd_and fuel a b).map .bdd
  | .named .or, [.bdd a, .bdd b] => (Bdd_or fuel a b).map .bdd
  | .named .imp, [.bdd a, .bdd b] => (Bdd_imp fuel a b).map .bdd
  | .named .iff, [.bdd a, .bdd b] => (Bdd_iff fuel a b).map .bdd
  | .named .xor, [.bdd a, .bdd b] => (Bdd_xor fuel a b).map .bdd
  | .named .andNot, [.bdd a, .bdd b] => (Bdd_and_not fuel a b).map .bdd
  | .binaryOp t, [.bdd a, .bdd b] => (Bdd_binary_op fuel a b t.fn).map .bdd
  | .fusedFlip t fl fr fo, [.bdd a, .bdd b] => (Bdd_fused_binary_flip_op fuel (a, fl) (b, fr) fo t.fn).map .bdd
  | .withLimit t limit, [.bdd a, .bdd b] => (Bdd_binary_op_with_limit fuel limit a b t.fn).map .optBdd
  | .fusedFlipWithLimit t limit fl fr fo, [.bdd a, .bdd b] =>
    (Bdd_fused_binary_flip_op_with_limit fuel limit (a, fl) (b, fr) fo t.fn).map .optBdd
  | .check t limit, [.bdd a, .bdd b] => (Bdd_check_binary_op fuel limit a b t.fn).map .dry
  | .checkFusedFlip t limit fl fr fo, [.bdd a, .bdd b] =>
    (Bdd_check_fused_binary_flip_op fuel limit (a, fl) (b, fr) fo t.fn).map .dry
  | .not, [.bdd a] => (Bdd_not a).map .bdd
  | .ifThenElse, [.bdd a, .bdd b, .bdd c] => (Bdd_if_then_else fuel a b c).map .bdd
  | .fusedTernaryIte fa fb fc fo, [.bdd a, .bdd b, .bdd c] =>
    (Bdd_fused_ternary_flip_op fuel (a, fa) (b, fb) (c, fc) fo Bdd_if_then_else__ite_function).map .bdd
  | .opWithExists t vars, [.bdd a, .bdd b] => (Bdd_binary_op_with_exists fuel a b t.fn vars).map .bdd
  | .opWithForAll t vars, [.bdd a, .bdd b] => (Bdd_binary_op_with_for_all fuel a b t.fn vars).map .bdd
  | .varExists x, [.bdd a] => (Bdd_var_exists fuel a x).map .bdd
  | .varForAll x, [.bdd a] => (Bdd_var_for_all fuel a x).map .bdd
  | .varProject x, [.bdd a] => (Bdd_var_project fuel a x).map .bdd
  | .exists_ vars, [.bdd a] => (Bdd_exists fuel a vars).map .bdd
  | .forAll vars, [.bdd a] => (Bdd_for_all fuel a vars).map .bdd
  | .project vars, [.bdd a] => (Bdd_project fuel a vars).map .bdd
  | .varSelect x b, [.bdd a] => (Bdd_var_select fuel a x b).map .bdd
  | .select lits, [.bdd a] => (Bdd_select fuel a lits).map .bdd
  | .varRestrict x b, [.bdd a] => (Bdd_var_restrict fuel a x b).map .bdd
  | .restrict lits, [.bdd a] => (Bdd_restrict fuel a lits).map .bdd
  | .varPick x, [.bdd a] => (Bdd_var_pick fuel a x).map .bdd
  | .pick vars, [.bdd a] => (Bdd_pick fuel a vars).map .bdd
  | .varPickRandom x coins, [.bdd a] => (Bdd_var_pick_random fuel a x coins).map fun r => .bdd r.1
  | .pickRandom vars coins, [.bdd a] => (Bdd_pick_random fuel a vars coins).map fun r => .bdd r.1
  | .substitute x, [.bdd a, .bdd f] => (Bdd_substitute fuel a x f).map .bdd
  | .renameVariable old new, [.bdd a] => (Bdd_rename_variable a old new).map .bdd
  | .setNumVars n, [.bdd a] => (Bdd_set_num_vars a n).map .bdd
  | .exactCardinality, [.bdd a] => (Bdd_exact_cardinality fuel a).map .nat
  | .exactClauseCardinality, [.bdd a] => (Bdd_exact_clause_cardinality fuel a).map .nat
  | .size, [.bdd a] => .ok (.nat (Bdd_size a))
  | .isTrue, [.bdd a] => .ok (.bool (Bdd_is_true a))
  | .isFalse, [.bdd a] => .ok (.bool (Bdd_is_false a))
  | .isClause, [.bdd a] => (Bdd_is_clause fuel a).map .bool
  | .isValuation, [.bdd a] => (Bdd_is_valuation fuel a).map .bool
  | .validate, [.bdd a] => (Bdd_validate fuel a).map .validity
  | .evalIn v, [.bdd a] => (Bdd_eval_in fuel a v).map .bool
  | .supportSet, [.bdd a] => (Bdd_support_set a).map .varSetOfNat
  | .sizePerVariable, [.bdd a] => (Bdd_size_per_variable a).map .countPerVar
  | .cmpSize, [.bdd a, .bdd b] => .ok (.ord (Bdd_cmp_size a b))
  | .cmpCardinality, [.bdd a, .bdd b] => (Bdd_cmp_cardinality fuel a b).map .ord
  | .cmpCardinalityStrict, [.bdd a, .bdd b] => (Bdd_cmp_cardinality_strict fuel a b).map .optOrd
  | .cmpImplies, [.bdd a, .bdd b] => (Bdd_cmp_implies fuel a b).map .optOrd
  | .cmpStructural, [.bdd a, .bdd b] => .ok (.ord (Bdd_cmp_structural a b))
  | .satWitness, [.bdd a] => (Bdd_sat_witness a).map .optValuation
  | .firstValuation, [.bdd a] => (Bdd_first_valuation fuel a).map .optValuation
  | .lastValuation, [.bdd a] => (Bdd_last_valuation fuel a).map .optValuation
  | .mostPositiveValuation, [.bdd a] => (Bdd_most_positive_valuation fuel a).map .optValuation
  | .mostNegativeValuation, [.bdd a] => (Bdd_most_negative_valuation fuel a).map .optValuation
  | .firstClause, [.bdd a] => (Bdd_first_clause fuel a).map .optClause
  | .lastClause, [.bdd a] => (Bdd_last_clause fuel a).map .optClause
  | .mostFixedClause, [.bdd a] => (Bdd_most_fixed_clause fuel a).map .optClause
  | .mostFreeClause, [.bdd a] => (Bdd_most_free_clause fuel a).map .optClause
  | .necessaryClause, [.bdd a] => (Bdd_necessary_clause a).map .optClause
  | .randomValuation coins, [.bdd a] => (Bdd_random_valuation a coins).map fun r => .optValuation r.1
  | .randomClause coins, [.bdd a] => (Bdd_random_clause fuel a coins).map fun r => .optClause r.1
  | .toDnf, [.bdd a] => (Bdd_to_dnf fuel a).map .clauses
  | .toCnf, [.bdd a] => (Bdd_to_cnf fuel a).map .clauses
  | .toOptimizedDnf, [.bdd a] => (Bdd_to_optimized_dnf fuel a).map .clauses
  | .mkDnf, [.vset s, .clauses cs] => (BddVariableSet_mk_dnf fuel s cs).map .bdd
  | .mkCnf, [.vset s, .clauses cs] => (BddVariableSet_mk_cnf fuel s cs).map .bdd
  | .ofValuation, [.valuation v] => (Bdd_from v).map .bdd
  | .toBytes, [.bdd a] => (Bdd_to_bytes a).map .bytes
  | .toText, [.bdd a] => (Bdd_fmt a "").map fun r => .text r.2
  | .fromBytes, [.bytes bs] => (Bdd_from_bytes fuel bs).map fun r => .bdd r.1
  | .fromString, [.text s] => (Bdd_from_string s).map .bdd
  | .fromNodes, [.bdd a] => (Bdd_from_nodes a).map .bddResult
  | .toDotString zp, [.bdd a, .vset s] => (Bdd_to_dot_string a s zp).map .text
  | .parse s, [] => (BooleanExpression_try_from fuel s).map .exprResult
  | .display, [.expr e] => (BooleanExpression_fmt fuel e "").map fun r => .text r.2
  | .safeEval, [.vset s, .expr e] => (BddVariableSet_safe_eval_expression fuel s e).map .optBdd
  | .evalString str, [.vset s] => (BddVariableSet_eval_expression_string fuel s str).map .bdd
  | .toBooleanExpression, [.bdd a, .vset s] => (Bdd_to_boolean_expression a s).map .expr
  | .newVarSet names, [] => (BddVariableSet_new names).map .vset
  | .newAnonymous n, [] => (BddVariableSet_new_anonymous n).map .vset
  | .builderVarSet names, [] =>
    (BddVariableSetBuilder_make_variables BddVariableSetBuilder_new names).bind fun r =>
      (BddVariableSetBuilder_build r.2).map .vset
  | .varByName name, [.vset s] => .ok (.optNat (BddVariableSet_var_by_name s name))
  | .mkVarByName name, [.vset s] => (BddVariableSet_mk_var_by_name s name).map .bdd
  | .mkNotVarByName name, [.vset s] => (BddVariableSet_mk_not_var_by_name s name).map .bdd
  | .mkLiteral x b, [.vset s] => .ok (.bdd (BddVariableSet_mk_literal s x b))
  | .mkConjunctiveClause c, [.vset s] => (BddVariableSet_mk_conjunctive_clause s c).map .bdd
  | .mkDisjunctiveClause c, [.vset s] => (BddVariableSet_mk_disjunctive_clause s c).map .bdd
  | .mkSatExactlyK k vars, [.vset s] => (BddVariableSet_mk_sat_exactly_k fuel s k vars).map .bdd
  | .mkSatUpToK k vars, [.vset s] => (BddVariableSet_mk_sat_up_to_k fuel s k vars).map .bdd
  | .transferFrom, [.vset tgt, .bdd a, .vset src] => (BddVariableSet_transfer_from tgt a src).map .optBdd
  | _, _ => wrongOperands

/-- an operand of the scheduling model is an outcome; only `ok` values can be operated on -/
def okValues : List (Outcome V) → Option (List V)
  | [] => some []
  | .ok v :: rest => (okValues rest).map (v :: ·)
  | _ :: _ => none

/-- the operation function on the value domain `Outcome V` of the scheduling model -/
def opT (fuel : Nat) (o : Op) (vs : List (Outcome V)) : Outcome V :=
  match okValues vs with
  | some xs => semT fuel o xs
  | none => .err "operand is not a value"

/-- the semantics handed to the scheduling model: no hidden state at all -/
def semTr (fuel : Nat) : Sched.Sem Op (Outcome V) Unit := Sched.Sem.pure (opT fuel)

/-- the same with an arbitrary hidden state `S` that every call may change but that cannot reach a result
    (statistics, a log, a cache that is only written …) -/
def semTrH {S : Type} (fuel : Nat) (touch : Op → List (Outcome V) → S → S) : Sched.Sem Op (Outcome V) S :=
  ⟨fun o vs s => (opT fuel o vs, touch o vs s)⟩

/-- immediate: the translated implementation IS a function of the operation and of its operands' values -/
theorem semTr_transparent (fuel : Nat) : Sched.Transparent (semTr fuel) (opT fuel) := fun _ _ _ => rfl

theorem semTrH_transparent {S : Type} (fuel : Nat) (touch : Op → List (Outcome V) → S → S) :
    Sched.Transparent (semTrH fuel touch) (opT fuel) := fun _ _ _ => rfl

/-! ### a concrete client, for the non-vacuity examples of `Props/C19.lean` -/

/-- pool: x0, x1, x2 over three variables and the variable set `[a, b, c]` -/
def demoPool : List (Outcome V) :=
  [.ok (.bdd (Bdd_mk_var 3 0)), .ok (.bdd (Bdd_mk_var 3 1)), .ok (.bdd (Bdd_mk_var 3 2)),
   (BddVariableSet_new #["a", "b", "c"]).map .vset]

open Sched in
def demoProgs : Nat → Prog Op := fun i =>
  if i = 0 then [⟨.named .and, [.pool 0, .pool 1]⟩, ⟨.varExists 1, [.loc 0]⟩, ⟨.exactCardinality, [.loc 1]⟩,
                 ⟨.check .or 1, [.pool 0, .pool 2]⟩]
  else if i = 1 then [⟨.evalString "(a => b) & !c", [.pool 3]⟩, ⟨.toOptimizedDnf, [.loc 0]⟩, ⟨.mkDnf, [.pool 3, .loc 1]⟩,
                      ⟨.substitute 0, [.loc 2, .pool 2]⟩, ⟨.toText, [.loc 3]⟩]
  else if i = 2 then [⟨.ifThenElse, [.pool 0, .pool 1, .pool 2]⟩, ⟨.toBytes, [.loc 0]⟩, ⟨.fromBytes, [.loc 1]⟩,
                      ⟨.transferFrom, [.pool 3, .loc 2, .pool 3]⟩, ⟨.not, [.loc 9]⟩]
  else []

theorem demo_complete : Sched.Complete [2, 1, 0, 2, 1, 0, 2, 1, 0, 2, 1, 0, 2, 1] demoProgs := by
  intro i
  by_cases h0 : i = 0
  · subst h0; decide
  · by_cases h1 : i = 1
    · subst h1; decide
    · by_cases h2 : i = 2
      · subst h2; decide
      · simp [demoProgs, h0, h1, h2]

/-! the generated functions really compute (evaluated by the interpreter when this file is built): the text
    of `((a ⇒ b) ∧ ¬c)[a := c] = ¬c`, the cardinality of `∃x1. x0 ∧ x1` over 3 variables, a dangling operand; the
    interleaved run of the three programs equals the three sequential runs (what the theorems say in general) -/
def showDemo : Option (Outcome V) → String
  | some (.ok (.text s)) => s
  | some (.ok (.nat n)) => toString n
  | some (.ok (.bdd a)) => toString a.size
  | some (.ok _) => "ok"
  | some (.err m) => "err:" ++ m
  | some (.panic m) => "panic:" ++ m
  | none => "dangling"

#guard (Sched.runSeq (opT 10000) (demoProgs 0) demoPool).map showDemo == ["4", "3", "4", "ok"]
#guard (Sched.runSeq (opT 10000) (demoProgs 1) demoPool).map showDemo == ["5", "ok", "5", "3", "|3,0,0|3,1,1|2,1,0|"]
#guard (Sched.runSeq (opT 10000) (demoProgs 2) demoPool).map showDemo == ["5", "ok", "5", "ok", "dangling"]
#guard (List.range 3).all fun i =>
  (Sched.results (Sched.run (semTr 10000) [2, 1, 0, 2, 1, 0, 2, 1, 0, 2, 1, 0, 2, 1] demoProgs demoPool ()) i).map showDemo
    == (Sched.runSeq (opT 10000) (demoProgs i) demoPool).map showDemo

end B.SchedT
