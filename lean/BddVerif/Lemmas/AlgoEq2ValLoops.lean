import BddVerif.Lemmas.AlgoEq2Val
/-!
# Translated Rust = hand model: the three `for var_id in 0..n { … get_value(var_id) … }` loops

`BddPartialValuation::extends`, `BddValuation::extends`, `TryFrom<BddPartialValuation> for BddValuation` of
`Gen/Algo2.lean` against the literal loops `extendsLoop`, `TotalVal.extendsLoop` and the one-pass `toTotal` of
`Model/Valuation.lean` — for ALL inputs (the `index as u16` cast of `extends` is part of both sides).
-/
namespace B.AlgoEq2Val
open B B.Gen B.Val B.AlgoEqUtil

attribute [local instance 10000] Rust.monadOutcomeInline

theorem get_value_eq (p : Array (Option Bool)) (x : Nat) :
    Algo.BddPartialValuation_get_value p x = .ok (PartialVal.get p.toList x) := by
  unfold Algo.BddPartialValuation_get_value
  rw [get_toList]
  by_cases h : x < p.size
  · simp [h, idx_of_lt p x h]
  · simp [h]

theorem range'_zero (n : Nat) : List.range' 0 (n - 0) = List.range n := by
  rw [Nat.sub_zero, List.range_eq_range']

theorem num_vars_val (v : Array Bool) : Algo.BddValuation_num_vars v = TotalVal.numVars v.toList := by
  unfold Algo.BddValuation_num_vars TotalVal.numVars Rust.asU16 u16
  simp

theorem u16_le (n : Nat) : u16 n ≤ n := Nat.mod_le _ _

/-! ### `BddPartialValuation::extends` -/

theorem BddPartialValuation_extends_eq_loop (p q : Array (Option Bool)) :
    Algo2.BddPartialValuation_extends p q = .ok (PartialVal.extendsLoop p.toList q.toList) := by
  unfold Algo2.BddPartialValuation_extends
  simp only [forIn_range_eq_iterL]
  rw [iterL_search (fun (i : Nat) => (PartialVal.get q.toList (u16 i)).isSome &&
      PartialVal.get p.toList (u16 i) != PartialVal.get q.toList (u16 i)) (fun _ => false)]
  · simp only [find_map_const, bind_ok, range'_zero]
    unfold PartialVal.extendsLoop
    simp only [Array.length_toList]
    generalize (List.range q.size).all _ = a
    cases a <;> rfl
  · intro x _ st
    simp only [get_value_eq, bind_ok, pure_eq]
    show _ = if ((PartialVal.get q.toList (u16 x)).isSome &&
      PartialVal.get p.toList (u16 x) != PartialVal.get q.toList (u16 x)) = true then _ else _
    have hu : Rust.asU16 x = u16 x := rfl
    rw [hu]
    cases h1 : (PartialVal.get q.toList (u16 x)).isSome
    · simp
    · cases h2 : (PartialVal.get p.toList (u16 x) != PartialVal.get q.toList (u16 x)) <;> simp
/-! ### `BddValuation::extends` -/

theorem BddValuation_extends_eq_loop (v : Array Bool) (q : Array (Option Bool)) :
    Algo2.BddValuation_extends v q = .ok (TotalVal.extendsLoop v.toList q.toList) := by
  unfold Algo2.BddValuation_extends
  simp only [forIn_range_eq_iterL]
  rw [iterL_search (fun (x : Nat) => match PartialVal.get q.toList x with
      | some value => value != v.toList.getD x false
      | none => false) (fun _ => false)]
  · simp only [find_map_const, bind_ok, range'_zero, num_vars_val]
    unfold TotalVal.extendsLoop
    have hfun : (fun (x : Nat) => !(match PartialVal.get q.toList x with
        | some value => value != v.toList.getD x false
        | none => false)) = (fun x => match PartialVal.get q.toList x with
        | some value => value == v.toList.getD x false
        | none => true) := by
      funext x
      cases PartialVal.get q.toList x <;> simp [bne]
    rw [hfun]
    generalize (List.range (TotalVal.numVars v.toList)).all _ = a
    cases a <;> rfl
  · intro x hx st
    have hx' : x < v.size := by
      simp only [List.mem_range'_1, num_vars_val] at hx
      have := u16_le v.toList.length
      simp only [TotalVal.numVars, Array.length_toList] at hx this
      omega
    unfold Algo.BddValuation_value
    simp only [get_value_eq, bind_ok, pure_eq, idx_of_lt v x hx']
    have hg : v.toList.getD x false = v[x] := by simp [List.getD, hx']
    rw [hg]
    cases PartialVal.get q.toList x with
    | none => rfl
    | some b => simp only

/-! ### `TryFrom<BddPartialValuation> for BddValuation` -/

def tstep (p : Array (Option Bool)) (i : Nat) (s : Option (Except Unit (Array Bool)) × Array Bool) :
    Outcome (ForInStep (Option (Except Unit (Array Bool)) × Array Bool)) :=
  match PartialVal.get p.toList i with
  | some b => if i < s.2.size then .ok (.yield (none, s.2.setIfInBounds i b)) else .panic "index out of bounds"
  | none => .ok (.done (some (.error ()), s.2))

theorem tstep_run (p : Array (Option Bool)) : ∀ (l : List (Option Bool)) (k : Nat) (r : Array Bool),
    p.toList.drop k = l → r.size = k + l.length →
    ∃ r', iterL (tstep p) (List.range' k l.length) (none, r) =
        .ok ((match PartialVal.allSome l with | some _ => none | none => some (.error ())), r') ∧
      ∀ bs, PartialVal.allSome l = some bs → r'.toList = r.toList.take k ++ bs := by
  intro l
  induction l with
  | nil =>
    intro k r _ hr
    refine ⟨r, rfl, ?_⟩
    intro bs hbs
    simp only [PartialVal.allSome, Option.some.injEq] at hbs
    subst hbs
    simp only [List.length_nil, Nat.add_zero] at hr
    rw [← hr, ← Array.length_toList, List.take_length, List.append_nil]
  | cons a l ih =>
    intro k r hp hr
    have hk : k < p.toList.length := by
      rcases Nat.lt_or_ge k p.toList.length with h | h
      · exact h
      · rw [List.drop_eq_nil_of_le h] at hp; cases hp
    have hget : PartialVal.get p.toList k = a := by
      unfold PartialVal.get
      rw [← List.getElem_cons_drop hk] at hp
      injection hp with h1 h2
      rw [List.getElem?_eq_getElem hk, h1]; rfl
    have hdrop : p.toList.drop (k + 1) = l := by
      rw [← List.getElem_cons_drop hk] at hp
      injection hp
    simp only [List.length_cons] at hr ⊢
    rw [List.range'_succ, iterL_cons]
    cases a with
    | none =>
      refine ⟨r, ?_, ?_⟩
      · simp [tstep, hget, PartialVal.allSome]
      · intro bs hbs; simp [PartialVal.allSome] at hbs
    | some b =>
      have hkr : k < r.size := by omega
      obtain ⟨r', h1, h2⟩ := ih (k + 1) (r.setIfInBounds k b) hdrop (by simp; omega)
      refine ⟨r', ?_, ?_⟩
      · simp only [tstep, hget, hkr, if_true]
        rw [h1]
        simp only [PartialVal.allSome]
        cases PartialVal.allSome l <;> rfl
      · intro bs hbs
        simp only [PartialVal.allSome] at hbs
        cases hl : PartialVal.allSome l with
        | none => simp [hl] at hbs
        | some bs' =>
          simp only [hl, Option.map_some, Option.some.injEq] at hbs
          subst hbs
          rw [h2 bs' hl]
          simp only [Array.toList_setIfInBounds]
          rw [List.take_add_one, List.take_set_of_le (Nat.le_refl _)]
          simp [hkr]

/-- `try_from`, all inputs: `Err(())` exactly when the model says `none` -/
theorem BddValuation_try_from_eq_model (p : Array (Option Bool)) :
    Algo2.BddValuation_try_from p =
      .ok (match PartialVal.toTotal p.toList with | some v => .ok v.toArray | none => .error ()) := by
  unfold Algo2.BddValuation_try_from
  simp only [forIn_range_eq_iterL]
  unfold Rust.u16TryFrom PartialVal.toTotal
  simp only [Array.length_toList]
  by_cases hs : p.size < 65536
  · have hs' : p.size ≤ 65535 := by omega
    simp only [hs, hs', if_true]
    have hnv : Algo.BddValuation_num_vars (Algo.BddValuation_all_false p.size) = p.size := by
      unfold Algo.BddValuation_num_vars Algo.BddValuation_all_false Rust.vecRepeat Rust.asU16
      simp only [Array.size_replicate]; omega
    rw [hnv, iterL_congr _ (tstep p) _ (by
      intro x hx st
      unfold Algo.BddValuation_set_value
      simp only [get_value_eq, bind_ok, pure_eq, setIdx_eq, tstep]
      cases PartialVal.get p.toList x with
      | none => rfl
      | some b => by_cases h : x < st.2.size <;> simp [h])]
    obtain ⟨r', h1, h2⟩ := tstep_run p p.toList 0 (Algo.BddValuation_all_false p.size) rfl (by
      unfold Algo.BddValuation_all_false Rust.vecRepeat; simp)
    simp only [Array.length_toList] at h1
    rw [Nat.sub_zero, h1]
    simp only [bind_ok]
    cases hl : PartialVal.allSome p.toList with
    | none => rfl
    | some bs =>
      have := h2 bs hl
      simp only [List.take_zero, List.nil_append] at this
      simp only [pure_eq]
      congr 2
      rw [← this]
  · have hs' : ¬ p.size ≤ 65535 := by omega
    simp only [hs, hs', if_false]
    rfl
/-! ### `From<BddValuation> for Bdd` -/

def fromStep (v : Array Bool) (i : Nat) (A : Arr) : Outcome (ForInStep Arr) :=
  .ok (.yield (A.push (TotalVal.valNode v.toList i (root A))))

theorem fromStep_run (v : Array Bool) : ∀ (k : Nat) (A : Arr),
    iterL (fromStep v) (List.range k).reverse A = .ok (TotalVal.pushDown v.toList k A) := by
  intro k
  induction k with
  | zero => intro A; rfl
  | succ k ih =>
    intro A
    rw [List.range_succ, List.reverse_append, List.reverse_singleton, List.singleton_append, iterL_cons]
    simp only [fromStep]
    rw [ih]; rfl

theorem mk_true_eq (n : Nat) : Algo.Bdd_mk_true n = mkTrue n := rfl

/-- `Bdd::from(valuation)`, every valuation (of any length: `num_vars` is `len as u16` on both sides) -/
theorem Bdd_from_eq_model (v : Array Bool) : Algo2.Bdd_from v = .ok (TotalVal.toBdd v.toList) := by
  unfold Algo2.Bdd_from
  simp only [forIn_array_eq_iterL, num_vars_val]
  have hr : (Array.range (TotalVal.numVars v.toList)).reverse.toList = (List.range (TotalVal.numVars v.toList)).reverse := by
    simp
  rw [hr]
  have hn : TotalVal.numVars v.toList ≤ 65535 := by unfold TotalVal.numVars u16; omega
  have hnv : TotalVal.numVars v.toList ≤ v.size := by
    have := u16_le v.toList.length
    simpa [TotalVal.numVars] using this
  -- every state reached has between 2 and 2 + 65535 nodes: the loop is the model's, with an invariant on the size
  have key : ∀ (k : Nat) (A : Arr), k ≤ TotalVal.numVars v.toList → 1 ≤ A.size → A.size + k ≤ 4294967296 →
      ∀ g : Nat → Arr → Outcome (ForInStep Arr),
        (∀ i, i < v.size → ∀ B : Arr, 1 ≤ B.size → B.size ≤ 4294967296 → g i B = fromStep v i B) →
        iterL g (List.range k).reverse A = iterL (fromStep v) (List.range k).reverse A := by
    intro k
    induction k with
    | zero => intro A _ _ _ g _; rfl
    | succ k ih =>
      intro A hk h1 h2 g hg
      rw [List.range_succ, List.reverse_append, List.reverse_singleton, List.singleton_append, iterL_cons, iterL_cons,
        hg k (by omega) A h1 (by omega)]
      simp only [fromStep]
      exact ih _ (by omega) (by simp) (by simp; omega) g hg
  rw [key _ _ (Nat.le_refl _) (by simp [mk_true_eq, mkTrue]) (by simp [mk_true_eq, mkTrue]; omega) _ (by
    intro i hi B hB1 hB2
    unfold Algo.BddValuation_value
    simp only [idx_of_lt v i hi, bind_ok, pure_eq, root_pointer_eq B hB1 hB2, fromStep, TotalVal.valNode]
    have hg : v.toList.getD i false = v[i] := by simp [List.getD, hi]
    rw [hg]
    cases v[i] <;> rfl), fromStep_run]
  rfl
end B.AlgoEq2Val
