import BddVerif.Lemmas.NormalFormMk
/-!
Lemmas for C10, part 4: the explicit-stack loop of `to_dnf` and the recursion of `to_cnf` on reduced arrays.
Processing one sub-diagram appends clauses whose disjunction (conjunction) is "path ∧ function of the node"
("path ∨ function of the node"), restores `path` (as seen through `get_value`) and takes boundedly many steps.
-/
namespace B.NF
open B

/-- the path fixes no variable `≥ m` -/
def Free (path : PVal) (m : Nat) : Prop := ∀ i, m ≤ i → path.get i = none

theorem Free.set {path : PVal} {m x m' : Nat} (h : Free path m) (b : Bool) (hx : x < m') (hm : m ≤ x) :
    Free (path.set x b) m' := by
  intro i hi
  rw [get_set, if_neg (by omega)]
  exact h i (by omega)

theorem Free.congr {c d : PVal} {k : Nat} (h : Free c k) (he : ∀ i, d.get i = c.get i) : Free d k :=
  fun i hi => by rw [he]; exact h i hi

/-! ### `to_dnf` -/

theorem dnfLoop_zero (A : Arr) (f : Nat) (go : Option Bool) (stk) (path : PVal) (res : List PVal) :
    dnfLoop A (f + 1) ((0, go) :: stk) path res = dnfLoop A f stk path res := by
  simp [dnfLoop]

theorem dnfLoop_one (A : Arr) (f : Nat) (go : Option Bool) (stk) (path : PVal) (res : List PVal) :
    dnfLoop A (f + 1) ((1, go) :: stk) path res = dnfLoop A f stk path (res ++ [path]) := by
  simp [dnfLoop]

theorem nodeAt_eq {A : Arr} {p : Nat} {nd : Node} (h : A[p]? = some nd) : nodeAt A p = nd := by
  simp [nodeAt, h]

theorem dnfLoop_low (A : Arr) (f p : Nat) (stk) (path : PVal) (res : List PVal) (hp : 2 ≤ p) (nd : Node)
    (h : A[p]? = some nd) :
    dnfLoop A (f + 1) ((p, some true) :: stk) path res =
      dnfLoop A f ((nd.low, some true) :: (p, some false) :: stk) (path.set nd.var false) res := by
  have h0 : ¬ p = 0 := by omega
  have h1 : ¬ p = 1 := by omega
  simp [dnfLoop, h0, h1, nodeAt_eq h]

theorem dnfLoop_high (A : Arr) (f p : Nat) (stk) (path : PVal) (res : List PVal) (hp : 2 ≤ p) (nd : Node)
    (h : A[p]? = some nd) :
    dnfLoop A (f + 1) ((p, some false) :: stk) path res =
      dnfLoop A f ((nd.high, some true) :: (p, none) :: stk) (path.set nd.var true) res := by
  have h0 : ¬ p = 0 := by omega
  have h1 : ¬ p = 1 := by omega
  simp [dnfLoop, h0, h1, nodeAt_eq h]

theorem dnfLoop_done (A : Arr) (f p : Nat) (stk) (path : PVal) (res : List PVal) (hp : 2 ≤ p) (nd : Node)
    (h : A[p]? = some nd) :
    dnfLoop A (f + 1) ((p, none) :: stk) path res = dnfLoop A f stk (pvUnset path nd.var) res := by
  have h0 : ¬ p = 0 := by omega
  have h1 : ¬ p = 1 := by omega
  simp [dnfLoop, h0, h1, nodeAt_eq h]

theorem dnfLoop_nil (A : Arr) (f : Nat) (path : PVal) (res : List PVal) : dnfLoop A f [] path res = .ok res := by
  cases f <;> simp [dnfLoop]

theorem varOf_le_of_red {A : Arr} {n : Nat} (h : Red A n) (p : Nat) : varOf A n p ≤ n := varOf_le h p

/-- one entry `(p, Some(true))` of the stack of `to_dnf` -/
theorem dnfLoop_sub {A : Arr} {n : Nat} (h : Red A n) :
    ∀ p, p < A.size → ∀ path, Free path (varOf A n p) →
      ∃ k path' R, (∀ fuel stk res, dnfLoop A (fuel + k) ((p, some true) :: stk) path res =
            dnfLoop A fuel stk path' (res ++ R)) ∧
        (∀ i, path'.get i = path.get i) ∧
        (∀ v, dnfFn R v = (conjFn path v && ev A v p)) ∧
        (∀ c ∈ R, ∀ x b, c.get x = some b → x < n ∨ path.get x = some b) ∧
        k + 3 ≤ 4 * 2 ^ (n - varOf A n p) := by
  intro p
  induction p using Nat.strongRecOn with
  | _ p ih =>
    intro hp path hfree
    by_cases h0 : p = 0
    · subst h0
      refine ⟨1, path, [], fun fuel stk res => by rw [dnfLoop_zero]; simp, fun _ => rfl, ?_, ?_, ?_⟩
      · intro v; simp [dnfFn, ev_zero]
      · intro c hc; cases hc
      · have : 1 ≤ 2 ^ (n - varOf A n 0) := Nat.one_le_two_pow
        omega
    by_cases h1 : p = 1
    · subst h1
      refine ⟨1, path, [path], fun fuel stk res => by rw [dnfLoop_one], fun _ => rfl, ?_, ?_, ?_⟩
      · intro v; simp [dnfFn, ev_one]
      · intro c hc x b hg
        rw [List.mem_singleton] at hc; subst hc
        right; exact hg
      · have : 1 ≤ 2 ^ (n - varOf A n 1) := Nat.one_le_two_pow
        omega
    have hp2 : 2 ≤ p := by omega
    have hnd : A[p]? = some A[p] := by simp [hp]
    obtain ⟨hv, hl, hh, _, hvl, hvh⟩ := h.inner p A[p] hp2 hnd
    have hvar : varOf A n p = A[p].var := varOf_node p _ hp2 hnd
    have hnone : path.get A[p].var = none := hfree _ (by omega)
    -- low sub-diagram
    have hfl : Free (path.set A[p].var false) (varOf A n A[p].low) := hfree.set false hvl (by omega)
    obtain ⟨kl, path1, Rl, hrunl, hextl, hRl, hrl, hkl⟩ := ih _ hl (by omega) (path.set A[p].var false) hfl
    -- high sub-diagram
    have hext1 : ∀ j, (path1.set A[p].var true).get j = (path.set A[p].var true).get j := by
      intro j
      rw [get_set, get_set]
      split
      · rfl
      · rename_i hj; rw [hextl, get_set, if_neg hj]
    have hfh : Free (path1.set A[p].var true) (varOf A n A[p].high) :=
      Free.congr (hfree.set true hvh (by omega)) hext1
    obtain ⟨kh, path2, Rh, hrunh, hexth, hRh, hrh, hkh⟩ := ih _ hh (by omega) (path1.set A[p].var true) hfh
    refine ⟨kl + kh + 3, pvUnset path2 A[p].var, Rl ++ Rh, ?_, ?_, ?_, ?_, ?_⟩
    · intro fuel stk res
      have e : fuel + (kl + kh + 3) = (fuel + 1 + kh + 1 + kl) + 1 := by omega
      rw [e, dnfLoop_low A _ p stk path res hp2 _ hnd, hrunl,
        dnfLoop_high A _ p stk path1 _ hp2 _ hnd, hrunh, dnfLoop_done A _ p stk path2 _ hp2 _ hnd,
        List.append_assoc]
    · intro j
      rw [get_unset]
      split
      · rename_i hj; rw [hj, hnone]
      · rename_i hj
        rw [hexth, get_set, if_neg hj, hextl, get_set, if_neg hj]
    · intro v
      have e1 := hRl v
      have e2 := hRh v
      rw [conjFn_congr hext1 v] at e2
      rw [conjFn_set _ _ _ _ hnone] at e1 e2
      unfold dnfFn at e1 e2 ⊢
      rw [List.any_append, e1, e2, ev_node h v p hp2 _ hnd]
      cases hvx : v A[p].var <;> simp
    · intro c hc x b hg
      rw [List.mem_append] at hc
      rcases hc with hc | hc
      · rcases hrl c hc x b hg with hx | hx
        · left; exact hx
        · rw [get_set] at hx
          split at hx
          · rename_i hxv; left; rw [hxv]; exact hv
          · right; exact hx
      · rcases hrh c hc x b hg with hx | hx
        · left; exact hx
        · rw [hext1, get_set] at hx
          split at hx
          · rename_i hxv; left; rw [hxv]; exact hv
          · right; exact hx
    · have e1 : 2 ^ (n - varOf A n A[p].low) ≤ 2 ^ (n - A[p].var - 1) :=
        Nat.pow_le_pow_right (by omega) (by omega)
      have e2 : 2 ^ (n - varOf A n A[p].high) ≤ 2 ^ (n - A[p].var - 1) :=
        Nat.pow_le_pow_right (by omega) (by omega)
      have e3 : 2 ^ (n - A[p].var) = 2 * 2 ^ (n - A[p].var - 1) := by
        obtain ⟨m, hm⟩ : ∃ m, n - A[p].var = m + 1 := ⟨n - A[p].var - 1, by omega⟩
        rw [hm, Nat.pow_succ, Nat.add_sub_cancel, Nat.mul_comm]
      rw [hvar, e3]
      omega

/-- `to_dnf` of a reduced array over `n` variables: it terminates within the fuel, every clause only fixes
    variables below `n`, and the disjunction of the clauses is the function of the array -/
theorem toDnf_red {A : Arr} {n : Nat} (h : Red A n) (hn : numVars A = n) :
    ∃ cs, toDnf A = .ok cs ∧ (∀ c ∈ cs, InRange n c) ∧ ∀ v, dnfFn cs v = den A v := by
  have hroot : root A < A.size := by have := h.size2; unfold root; omega
  have hfree : Free ([] : PVal) (varOf A n (root A)) := fun i _ => get_nil i
  obtain ⟨k, path', R, hrun, _, hR, hr, hk⟩ := dnfLoop_sub h (root A) hroot [] hfree
  refine ⟨R, ?_, ?_, ?_⟩
  · unfold toDnf dnfFuel
    rw [hn]
    have hle : k ≤ 4 * 2 ^ n := by
      have : 2 ^ (n - varOf A n (root A)) ≤ 2 ^ n := Nat.pow_le_pow_right (by omega) (by omega)
      omega
    obtain ⟨f, hf⟩ : ∃ f, 4 * 2 ^ n = f + k := ⟨4 * 2 ^ n - k, by omega⟩
    rw [hf, hrun, dnfLoop_nil]
    simp
  · intro c hc x b hg
    rcases hr c hc x b hg with hx | hx
    · exact hx
    · rw [get_nil] at hx; cases hx
  · intro v
    rw [hR v, conjFn_nil]
    rfl

theorem toDnf_mkFalse (n : Nat) : toDnf (mkFalse n) = .ok [] := by
  unfold toDnf dnfFuel
  have : root (mkFalse n) = 0 := rfl
  rw [this]
  obtain ⟨f, hf⟩ : ∃ f, 4 * 2 ^ numVars (mkFalse n) = f + 1 := by
    have : 1 ≤ 2 ^ numVars (mkFalse n) := Nat.one_le_two_pow
    exact ⟨4 * 2 ^ numVars (mkFalse n) - 1, by omega⟩
  rw [hf, dnfLoop_zero, dnfLoop_nil]

/-! ### `to_cnf` -/

/-- `build_recursive` on the sub-diagram `p` -/
theorem cnfRec_sub {A : Arr} {n : Nat} (h : Red A n) :
    ∀ p, p < A.size → ∀ fuel path res, n - varOf A n p < fuel → Free path (varOf A n p) →
      ∃ path' R, cnfRec A fuel p path res = some (path', res ++ R) ∧
        (∀ i, path'.get i = path.get i) ∧
        (∀ v, cnfFn R v = (disjFn path v || ev A v p)) ∧
        (∀ c ∈ R, ∀ x b, c.get x = some b → x < n ∨ path.get x = some b) := by
  intro p
  induction p using Nat.strongRecOn with
  | _ p ih =>
    intro hp fuel path res hfuel hfree
    obtain ⟨fuel, rfl⟩ : ∃ f, fuel = f + 1 := ⟨fuel - 1, by omega⟩
    by_cases h0 : p = 0
    · subst h0
      refine ⟨path, [path], by simp [cnfRec], fun _ => rfl, ?_, ?_⟩
      · intro v; simp [cnfFn, ev_zero]
      · intro c hc x b hg
        rw [List.mem_singleton] at hc; subst hc
        right; exact hg
    by_cases h1 : p = 1
    · subst h1
      refine ⟨path, [], by simp [cnfRec], fun _ => rfl, ?_, ?_⟩
      · intro v; simp [cnfFn, ev_one]
      · intro c hc; cases hc
    have hp2 : 2 ≤ p := by omega
    have hnd : A[p]? = some A[p] := by simp [hp]
    obtain ⟨hv, hl, hh, _, hvl, hvh⟩ := h.inner p A[p] hp2 hnd
    have hvar : varOf A n p = A[p].var := varOf_node p _ hp2 hnd
    have hnone : path.get A[p].var = none := hfree _ (by omega)
    rw [hvar] at hfuel
    -- low child (skipped when it is the one terminal)
    have hlow : ∃ path1 Rl, (if A[p].low ≠ 1 then
          (cnfRec A fuel A[p].low (path.set A[p].var true) res).map fun r => (pvUnset r.1 A[p].var, r.2)
        else some (path, res)) = some (path1, res ++ Rl) ∧
        (∀ i, path1.get i = path.get i) ∧
        (∀ v, cnfFn Rl v = (disjFn path v || (v A[p].var || ev A v A[p].low))) ∧
        (∀ c ∈ Rl, ∀ x b, c.get x = some b → x < n ∨ path.get x = some b) := by
      by_cases hl1 : A[p].low = 1
      · refine ⟨path, [], by simp [hl1], fun _ => rfl, ?_, fun c hc => by cases hc⟩
        intro v; simp [cnfFn, hl1, ev_one]
      · have hfl : Free (path.set A[p].var true) (varOf A n A[p].low) := hfree.set true hvl (by omega)
        obtain ⟨pa, R, hrun, hext, hR, hr⟩ := ih _ hl (by omega) fuel (path.set A[p].var true) res (by omega) hfl
        refine ⟨pvUnset pa A[p].var, R, by simp [hl1, hrun], ?_, ?_, ?_⟩
        · intro j
          rw [get_unset]
          split
          · rename_i hj; rw [hj, hnone]
          · rename_i hj; rw [hext, get_set, if_neg hj]
        · intro v
          rw [hR v, disjFn_set _ _ _ _ hnone]
          cases v A[p].var <;> simp
        · intro c hc x b hg
          rcases hr c hc x b hg with hx | hx
          · left; exact hx
          · rw [get_set] at hx
            split at hx
            · rename_i hxv; left; rw [hxv]; exact hv
            · right; exact hx
    obtain ⟨path1, Rl, hrunl, hextl, hRl, hrl⟩ := hlow
    have hnone1 : path1.get A[p].var = none := by rw [hextl]; exact hnone
    have hfree1 : Free path1 A[p].var := fun i hi => by rw [hextl]; exact hfree i (by omega)
    have hhigh : ∃ path2 Rh, (if A[p].high ≠ 1 then
          (cnfRec A fuel A[p].high (path1.set A[p].var false) (res ++ Rl)).map fun r => (pvUnset r.1 A[p].var, r.2)
        else some (path1, res ++ Rl)) = some (path2, (res ++ Rl) ++ Rh) ∧
        (∀ i, path2.get i = path.get i) ∧
        (∀ v, cnfFn Rh v = (disjFn path v || (!v A[p].var || ev A v A[p].high))) ∧
        (∀ c ∈ Rh, ∀ x b, c.get x = some b → x < n ∨ path.get x = some b) := by
      by_cases hh1 : A[p].high = 1
      · refine ⟨path1, [], by simp [hh1], hextl, ?_, fun c hc => by cases hc⟩
        intro v; simp [cnfFn, hh1, ev_one]
      · have hfh : Free (path1.set A[p].var false) (varOf A n A[p].high) := hfree1.set false hvh (by omega)
        obtain ⟨pa, R, hrun, hext, hR, hr⟩ :=
          ih _ hh (by omega) fuel (path1.set A[p].var false) (res ++ Rl) (by omega) hfh
        refine ⟨pvUnset pa A[p].var, R, by simp [hh1, hrun], ?_, ?_, ?_⟩
        · intro j
          rw [get_unset]
          split
          · rename_i hj; rw [hj, hnone]
          · rename_i hj; rw [hext, get_set, if_neg hj, hextl]
        · intro v
          rw [hR v, disjFn_set _ _ _ _ hnone1, disjFn_congr hextl v]
          cases v A[p].var <;> simp
        · intro c hc x b hg
          rcases hr c hc x b hg with hx | hx
          · left; exact hx
          · rw [get_set] at hx
            split at hx
            · rename_i hxv; left; rw [hxv]; exact hv
            · right; rw [← hextl]; exact hx
    obtain ⟨path2, Rh, hrunh, hexth, hRh, hrh⟩ := hhigh
    refine ⟨path2, Rl ++ Rh, ?_, hexth, ?_, ?_⟩
    · have h0' : ¬ p = 0 := h0
      have h1' : ¬ p = 1 := h1
      simp only [cnfRec, h0', h1', if_false, nodeAt_eq hnd]
      rw [hrunl]
      simp only
      rw [hrunh, List.append_assoc]
    · intro v
      have e1 := hRl v
      have e2 := hRh v
      unfold cnfFn at e1 e2 ⊢
      rw [List.all_append, e1, e2, ev_node h v p hp2 _ hnd]
      cases hvx : v A[p].var <;> cases disjFn path v <;> simp
    · intro c hc x b hg
      rw [List.mem_append] at hc
      rcases hc with hc | hc
      · exact hrl c hc x b hg
      · exact hrh c hc x b hg

/-- `to_cnf` of a reduced array over `n` variables: the recursion stays within the fuel, every clause only
    fixes variables below `n`, and the conjunction of the disjunctive clauses is the function of the array -/
theorem toCnf_red {A : Arr} {n : Nat} (h : Red A n) (hn : numVars A = n) :
    ∃ cs, toCnf A = .ok cs ∧ (∀ c ∈ cs, InRange n c) ∧ ∀ v, cnfFn cs v = den A v := by
  have hroot : root A < A.size := by have := h.size2; unfold root; omega
  have hfree : Free ([] : PVal) (varOf A n (root A)) := fun i _ => get_nil i
  obtain ⟨path', R, hrun, _, hR, hr⟩ := cnfRec_sub h (root A) hroot (n + 2) [] [] (by omega) hfree
  refine ⟨R, ?_, ?_, ?_⟩
  · unfold toCnf
    rw [hn, hrun]
    simp
  · intro c hc x b hg
    rcases hr c hc x b hg with hx | hx
    · exact hx
    · rw [get_nil] at hx; cases hx
  · intro v
    rw [hR v, disjFn_nil]
    rfl

theorem toCnf_mkFalse (n : Nat) : toCnf (mkFalse n) = .ok [[]] := by
  unfold toCnf
  have : root (mkFalse n) = 0 := rfl
  rw [this]
  simp [cnfRec]

end B.NF
