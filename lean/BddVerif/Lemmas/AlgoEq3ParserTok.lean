import BddVerif.Lemmas.AlgoEq3ParserTokStep
/-!
# `tokenize_group` (translated) = `Parser.tokGroup` (hand model)

Simulation: the explicit `while let` loop with its `output` vector, the recursive call for `(` and the nested identifier
loop compute exactly the model's structural recursion, for every input string and both values of `top_level`, as soon as
`fuel ≥ length + 1`. The translated function never panics.

The model drops the iterator position when the result is an `Err` (`push t (.err m) = .err m`), so in that case the
second component of the translated result is existentially quantified (`TokRel.err`).
-/
namespace B.AlgoEq3Parser
open B B.Gen B.Gen.Algo3 B.AlgoEqUtil B.Parser

attribute [local instance 10000] Rust.monadOutcomeInline

/-- the translated tokenizer, started with `output = out`, returned what the model returned -/
inductive TokRel (out : Array GT) : Outcome TRes → TokRes → Prop
  | ok (ts : List Tok) (rest : List Char) : TokRel out (.ok (.ok (out ++ convA ts), rest)) (.ok (ts, rest))
  | err (m : String) (rest : List Char) : TokRel out (.ok (.error m, rest)) (.err m)

theorem TokRel.push {out : Array GT} {t : Tok} {X : Outcome TRes} {r : TokRes}
    (h : TokRel (out.push (convT t)) X r) : TokRel out X (Parser.push t r) := by
  cases h with
  | ok ts rest =>
    have e : out.push (convT t) ++ convA ts = out ++ convA (t :: ts) := by
      rw [convA_cons, Array.push_eq_append, Array.append_assoc]
    rw [e]; exact TokRel.ok _ _
  | err m rest => exact TokRel.err _ _

theorem TokRel.ok_inv {out : Array GT} {X : Outcome TRes} {ts : List Tok} {rest : List Char}
    (h : TokRel out X (.ok (ts, rest))) : X = .ok (.ok (out ++ convA ts), rest) := by
  generalize hr : (Outcome.ok (ts, rest) : TokRes) = r at h
  cases h with
  | ok ts' rest' => cases hr; rfl
  | err m rest' => cases hr

theorem TokRel.err_inv {out : Array GT} {X : Outcome TRes} {m : String}
    (h : TokRel out X (.err m)) : ∃ rest', X = .ok (.error m, rest') := by
  generalize hr : (Outcome.err m : TokRes) = r at h
  cases h with
  | ok ts' rest' => cases hr
  | err m' rest' => cases hr; exact ⟨rest', rfl⟩

theorem TokRel.not_panic {out : Array GT} {X : Outcome TRes} {m : String}
    (h : TokRel out X (.panic m)) : False := by
  generalize hr : (Outcome.panic m : TokRes) = r at h
  cases h <;> cases hr

/-- the main loop from the state `(none, data, out)` with `n` iterations left, followed by the code after the loop -/
def Loop (fuel : Nat) (top : Bool) (n : Nat) (data : List Char) (out : Array GT) : Outcome TRes :=
  (iter (tokStep fuel top) n (none, data, out)).bind (tokPost top)

theorem loop_nil (fuel : Nat) (top : Bool) (n : Nat) (out : Array GT) :
    Loop fuel top n [] out = if top then .ok (.ok out, []) else .ok (.error "Expected ')'.", []) := by
  cases n with
  | zero => rfl
  | succ n => unfold Loop; rw [iter_succ, tokStep_nil]; rfl

theorem loop_yield {fuel : Nat} {top : Bool} {n : Nat} {c : Char} {tl tl' : List Char} {out out' : Array GT}
    (h : tokStep fuel top (none, c :: tl, out) = .ok (.yield (none, tl', out'))) :
    Loop fuel top (n + 1) (c :: tl) out = Loop fuel top n tl' out' := by
  unfold Loop; rw [iter_succ, h]

theorem loop_done {fuel : Nat} {top : Bool} {n : Nat} {c : Char} {tl d : List Char} {out o : Array GT} {r : TRes}
    (h : tokStep fuel top (none, c :: tl, out) = .ok (.done (some r, d, o))) :
    Loop fuel top (n + 1) (c :: tl) out = .ok r := by
  unfold Loop; rw [iter_succ, h]; rfl

/-- a single-character operator: one iteration, one `push` -/
theorem push_case {fuel : Nat} {top : Bool} {n : Nat} {c : Char} {tl tl' : List Char} {out : Array GT} (t : Tok)
    (hstep : tokStep fuel top (none, c :: tl, out) = .ok (.yield (none, tl', out.push (convT t))))
    (ih : TokRel (out.push (convT t)) (Loop fuel top n tl' (out.push (convT t))) (tokGroup tl' top)) :
    TokRel out (Loop fuel top (n + 1) (c :: tl) out) (Parser.push t (tokGroup tl' top)) := by
  rw [loop_yield hstep]; exact ih.push

theorem step_of_char {fuel : Nat} {top : Bool} {c : Char} {tl : List Char} {out : Array GT} (hws : ¬ isWs c = true) :
    tokStep fuel top (none, c :: tl, out) = tokChar fuel top c tl out := by
  rw [tokStep_cons, if_neg hws]

/-- unfolding of the model on a non-empty input (its equation lemmas are split by nested patterns) -/
theorem tokGroup_cons (c : Char) (tl : List Char) (top : Bool) : tokGroup (c :: tl) top =
    if isWs c then tokGroup tl top
    else if c = '!' then push .not (tokGroup tl top)
    else if c = '&' then push .and (tokGroup tl top)
    else if c = '|' then push .or (tokGroup tl top)
    else if c = '^' then push .xor (tokGroup tl top)
    else if c = ':' then push .colon (tokGroup tl top)
    else if c = '?' then push .qmark (tokGroup tl top)
    else if c = '=' then
      match tl with
      | d :: tl' => if d = '>' then push .imp (tokGroup tl' top) else .err "Expected '>' after '='."
      | [] => .err "Expected '>' after '='."
    else if c = '<' then
      match tl with
      | d :: tl' =>
        if d = '=' then
          match tl' with
          | e :: tl'' => if e = '>' then push .iff (tokGroup tl'' top) else .err "Expected '>' after '='."
          | [] => .err "Expected '>' after '='."
        else .err "Expected '=' after '<'."
      | [] => .err "Expected '=' after '<'."
    else if c = '>' then .err "Unexpected '>'."
    else if c = ')' then (if !top then .ok ([], tl) else .err "Unexpected ')'.")
    else if c = '(' then
      match tokGroup tl false with
      | .ok (inner, rest) =>
        if _h : rest.length < (c :: tl).length then push (.group inner) (tokGroup rest top)
        else .panic "model artefact: nested tokenize_group consumed nothing"
      | .err m => .err m
      | .panic m => .panic m
    else
      if _h : (nameRest tl).2.length < (c :: tl).length then
        push (.id (c :: (nameRest tl).1)) (tokGroup (nameRest tl).2 top)
      else .panic "model artefact: identifier scanner consumed nothing" := by
  rw [tokGroup.eq_def]; rfl

theorem tokGroup_nil (top : Bool) :
    tokGroup [] top = if top then .ok ([], []) else .err "Expected ')'." := by
  rw [tokGroup.eq_def]

/-- the statement about the loop, for one input -/
def LoopOK (data : List Char) : Prop :=
  ∀ (top : Bool) (fuel n : Nat) (out : Array GT), data.length ≤ fuel → data.length ≤ n →
    TokRel out (Loop fuel top n data out) (tokGroup data top)

/-- the statement about the function, for one input -/
def FnOK (data : List Char) : Prop :=
  ∀ (top : Bool) (fuel : Nat), data.length + 1 ≤ fuel → TokRel #[] (tokenize_group fuel data top) (tokGroup data top)

theorem fn_of_loop {data : List Char} (h : LoopOK data) : FnOK data := by
  intro top fuel hf
  obtain ⟨f, rfl⟩ : ∃ k, fuel = k + 1 := ⟨fuel - 1, by omega⟩
  rw [tokenize_group_desugar]
  exact h top f f #[] (by omega) (by omega)

theorem good_ok {data : List Char} {top : Bool} {ts : List Tok} {rest : List Char}
    (h : tokGroup data top = .ok (ts, rest)) : rest.length ≤ data.length := by
  have := tokGroup_good data top
  rw [h] at this; exact this

theorem loop_ok : ∀ (N : Nat) (data : List Char), data.length ≤ N → LoopOK data := by
  intro N
  induction N with
  | zero =>
    intro data hN top fuel n out _ _
    have : data = [] := List.length_eq_zero_iff.mp (by omega)
    subst this
    rw [loop_nil, tokGroup_nil]
    cases top
    · exact TokRel.err _ _
    · have := TokRel.ok (out := out) [] []
      simpa [convA_nil] using this
  | succ N ihN =>
    intro data hN top fuel n out hf hn
    cases data with
    | nil =>
      rw [loop_nil, tokGroup_nil]
      cases top
      · exact TokRel.err _ _
      · have := TokRel.ok (out := out) [] []
        simpa [convA_nil] using this
    | cons c tl =>
      simp only [List.length_cons] at hN hf hn
      obtain ⟨n, rfl⟩ : ∃ k, n = k + 1 := ⟨n - 1, by omega⟩
      have ihtl : ∀ (top : Bool) (out : Array GT), TokRel out (Loop fuel top n tl out) (tokGroup tl top) :=
        fun top out => ihN tl (by omega) top fuel n out (by omega) (by omega)
      rw [tokGroup_cons]
      by_cases hws : isWs c = true
      · rw [if_pos hws]
        rw [loop_yield (show tokStep fuel top (none, c :: tl, out) = .ok (.yield (none, tl, out)) by
          rw [tokStep_cons, if_pos hws])]
        exact ihtl top out
      rw [if_neg hws]
      have hst := step_of_char (fuel := fuel) (top := top) (tl := tl) (out := out) hws
      by_cases h1 : c = '!'
      · rw [if_pos h1]; subst h1; exact push_case .not (hst.trans rfl) (ihtl _ _)
      rw [if_neg h1]
      by_cases h2 : c = '&'
      · rw [if_pos h2]; subst h2; exact push_case .and (hst.trans rfl) (ihtl _ _)
      rw [if_neg h2]
      by_cases h3 : c = '|'
      · rw [if_pos h3]; subst h3; exact push_case .or (hst.trans rfl) (ihtl _ _)
      rw [if_neg h3]
      by_cases h4 : c = '^'
      · rw [if_pos h4]; subst h4; exact push_case .xor (hst.trans rfl) (ihtl _ _)
      rw [if_neg h4]
      by_cases h5 : c = ':'
      · rw [if_pos h5]; subst h5; exact push_case .colon (hst.trans rfl) (ihtl _ _)
      rw [if_neg h5]
      by_cases h6 : c = '?'
      · rw [if_pos h6]; subst h6; exact push_case .qmark (hst.trans rfl) (ihtl _ _)
      rw [if_neg h6]
      by_cases h7 : c = '='
      · -- `=>`
        rw [if_pos h7]; subst h7
        cases tl with
        | nil => rw [loop_done (hst.trans rfl)]; exact TokRel.err _ _
        | cons d tl' =>
          simp only [List.length_cons] at hN hf hn
          by_cases hd : d = '>'
          · subst hd
            simp only [if_true]
            exact push_case .imp (hst.trans rfl) (ihN tl' (by omega) top fuel n _ (by omega) (by omega))
          · simp only [hd, if_false]
            have : tokChar fuel top '=' (d :: tl') out =
                .ok (.done (some (.error "Expected '>' after '='.", tl'), tl', out)) := by
              have : (some '>' == some d) = false := by simp [Ne.symm hd]
              simp [tokChar, this]
            rw [loop_done (hst.trans this)]; exact TokRel.err _ _
      rw [if_neg h7]
      by_cases h8 : c = '<'
      · -- `<=>`
        rw [if_pos h8]; subst h8
        cases tl with
        | nil => rw [loop_done (hst.trans rfl)]; exact TokRel.err _ _
        | cons d tl' =>
          simp only [List.length_cons] at hN hf hn
          by_cases hd : d = '='
          · subst hd
            simp only [if_true]
            cases tl' with
            | nil => rw [loop_done (hst.trans rfl)]; exact TokRel.err _ _
            | cons e tl'' =>
              simp only [List.length_cons] at hN hf hn
              by_cases he : e = '>'
              · subst he
                simp only [if_true]
                exact push_case .iff (hst.trans rfl) (ihN tl'' (by omega) top fuel n _ (by omega) (by omega))
              · simp only [he, if_false]
                have : tokChar fuel top '<' ('=' :: e :: tl'') out =
                    .ok (.done (some (.error "Expected '>' after '='.", tl''), tl'', out)) := by
                  have : (some '>' == some e) = false := by simp [Ne.symm he]
                  simp [tokChar, this]
                rw [loop_done (hst.trans this)]; exact TokRel.err _ _
          · simp only [hd, if_false]
            have : tokChar fuel top '<' (d :: tl') out =
                .ok (.done (some (.error "Expected '=' after '<'.", tl'), tl', out)) := by
              have : (some '=' == some d) = false := by simp [Ne.symm hd]
              simp [tokChar, this]
            rw [loop_done (hst.trans this)]; exact TokRel.err _ _
      rw [if_neg h8]
      by_cases h9 : c = '>'
      · rw [if_pos h9]; subst h9
        rw [loop_done (hst.trans rfl)]; exact TokRel.err _ _
      rw [if_neg h9]
      by_cases h10 : c = ')'
      · rw [if_pos h10]; subst h10
        cases top
        · rw [loop_done (hst.trans rfl)]
          have := TokRel.ok (out := out) [] tl
          simpa [convA_nil] using this
        · rw [loop_done (hst.trans rfl)]; exact TokRel.err _ _
      rw [if_neg h10]
      by_cases h11 : c = '('
      · -- nested group: the recursive call, then the rest of the loop
        rw [if_pos h11]; subst h11
        have hfn := fn_of_loop (ihN tl (by omega)) false fuel (by omega)
        have hst' : tokStep fuel top (none, '(' :: tl, out) = tokenize_group fuel tl false >>= groupK out := hst.trans rfl
        cases hm : tokGroup tl false with
        | ok p =>
          obtain ⟨inner, rest⟩ := p
          rw [hm] at hfn
          have hrest := good_ok hm
          have hX := hfn.ok_inv
          have hlt : rest.length < ('(' :: tl).length := by simp only [List.length_cons]; omega
          simp only [hlt, dite_true]
          have hy : tokStep fuel top (none, '(' :: tl, out) =
              .ok (.yield (none, rest, out.push (convT (.group inner)))) := by
            rw [hst', hX]; simp [groupK, convT, convA]
          exact push_case (.group inner) hy (ihN rest (by omega) top fuel n _ (by omega) (by omega))
        | err m =>
          rw [hm] at hfn
          obtain ⟨rest', hX⟩ := hfn.err_inv
          have hy : tokStep fuel top (none, '(' :: tl, out) =
              .ok (.done (some (.error m, rest'), rest', out)) := by
            rw [hst', hX]; rfl
          rw [loop_done hy]; exact TokRel.err _ _
        | panic m =>
          rw [hm] at hfn; exact hfn.not_panic.elim
      rw [if_neg h11]
      -- identifier
      have hle := nameRest_le tl
      have hlt : (nameRest tl).2.length < (c :: tl).length := by simp only [List.length_cons]; omega
      simp only [hlt, dite_true]
      have hy : tokStep fuel top (none, c :: tl, out) =
          .ok (.yield (none, (nameRest tl).2, out.push (convT (.id (c :: (nameRest tl).1))))) := by
        rw [hst, tokChar_default fuel top c tl out h1 h2 h3 h4 h5 h6 h7 h8 h9 h10 h11, nameBranch_eq _ _ _ _ (by omega)]
      exact push_case _ hy (ihN _ (by omega) top fuel n _ (by omega) (by omega))

end B.AlgoEq3Parser
