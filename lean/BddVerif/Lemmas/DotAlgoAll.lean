import BddVerif.Lemmas.AlgoEq3DotModel
import BddVerif.Lemmas.DotWrite
/-!
# `Dot.writeDotIO` = the translated `write_bdd_as_dot`, on ALL inputs and ALL sinks

`Gen/Algo3.lean` is the translation of `src/_impl_bdd/_impl_export_dot.rs`; `Lemmas/AlgoEq3Dot*.lean` (ae3-names-dot)
reduce it to sequences of `write_all` calls (`dotSkel_good`, `dotSkel_bad`). Here: the hand model's pieces are those
sequences (`piecesOf_eq_…`), hence the hand model and the translated function agree for every node vector with at
most `2^32` nodes (valid or not), every name vector and every scripted writer: same panics, same `Ok`/`Err`, same
bytes in the sink, consistent script position.
-/
namespace B.DotAlgoAll
open B B.Gen B.AlgoEqUtil B.AlgoEq2Bytes B.AlgoEq3Dot B.Dot
attribute [local instance 10000] Rust.monadOutcomeInline

/-! ### the model's pieces are the translated function's pieces -/

theorem bytes_of_strs (strs : List String) :
    (strs.map Rust.utf8Bytes).map (fun p => p.toList.map byteOf) = strs.map textBytes := by
  simp only [List.map_map]
  apply List.map_congr_left
  intro s _
  exact (textBytes_eq s).symm

theorem ofList_line {lit : String} {cs : List Char} (h : lit.toList = cs) : String.ofList cs = lit := by
  rw [← h, String.ofList_toList]

/-- the pieces of a statement list as strings -/
def strsOf (ss : List Stmt) : List String := (ss.flatMap stmtPieces).map String.ofList

theorem piecesOf_strs (ss : List Stmt) : piecesOf ss = (strsOf ss).map textBytes := by
  simp [piecesOf, strsOf, List.map_map]

theorem strsOf_append (a b : List Stmt) : strsOf (a ++ b) = strsOf a ++ strsOf b := by
  simp [strsOf, List.flatMap_append]

theorem strsOf_flatMap (l : List Nat) (g : Nat → List Stmt) : strsOf (l.flatMap g) = l.flatMap fun p => strsOf (g p) := by
  induction l with
  | nil => rfl
  | cons a t ih => rw [List.flatMap_cons, strsOf_append, ih, List.flatMap_cons]

theorem digits_str (n : Nat) : String.ofList (digits n) = toString n := (toString_nat n).symm

theorem s_header : String.ofList (tHeader ++ ['\n']) = "digraph G {\n" := ofList_line lit_header
theorem s_initNode : String.ofList (tInitNode ++ ['\n']) = "init__ [label=\"\", style=invis, height=0, width=0];\n" :=
  ofList_line lit_initNode
theorem s_initEdge : String.ofList tInitEdge = "init__ -> " := ofList_line lit_initEdge
theorem s_semi : String.ofList [';', '\n'] = ";\n" := ofList_line lit_semi
theorem s_zero : String.ofList (digits (boolNat false) ++ (tTermA ++ (digits (boolNat false) ++ tTermB)) ++ ['\n']) =
    "0 [shape=box, label=\"0\", style=filled, shape=box, height=0.3, width=0.3];\n" := ofList_line lit_zero
theorem s_one : String.ofList (digits (boolNat true) ++ (tTermA ++ (digits (boolNat true) ++ tTermB)) ++ ['\n']) =
    "1 [shape=box, label=\"1\", style=filled, shape=box, height=0.3, width=0.3];\n" := ofList_line lit_one
theorem s_labelA : String.ofList tLabelA = "[label=\"" := ofList_line lit_labelA
theorem s_labelB : String.ofList (tLabelB ++ ['\n']) = "\"];\n" := ofList_line lit_labelB
theorem s_arrow : String.ofList tArrow = " -> " := ofList_line lit_arrow
theorem s_filled : String.ofList (styleText .filled ++ ['\n']) = " [style=filled];\n" := ofList_line lit_filled
theorem s_dotted : String.ofList (styleText .dotted ++ ['\n']) = " [style=dotted];\n" := ofList_line lit_dotted
theorem s_footer : String.ofList (tFooter ++ ['\n']) = "}\n" := ofList_line lit_footer

theorem strs_preamble (A : Arr) (zp : Bool) : strsOf (preamble A zp) = preStrs A zp := by
  cases zp <;>
  simp only [strsOf, preamble, preStrs, stmtPieces, List.flatMap_cons, List.flatMap_nil, List.cons_append,
    List.nil_append, List.append_nil, List.map_cons, List.map_nil, Bool.false_eq_true, if_false, if_true,
    s_header, s_initNode, s_initEdge, s_semi, s_zero, s_one, digits_str]

theorem strs_footer : strsOf [Stmt.footer] = ["}\n"] := by
  simp only [strsOf, stmtPieces, List.flatMap_cons, List.flatMap_nil, List.append_nil, List.map_cons, List.map_nil,
    s_footer]

theorem strs_node (A : Arr) (names : Array String) (zp : Bool) (p : Nat) :
    strsOf (nodeStmts A names.toList zp p) = ptrStrs A names zp p := by
  unfold ptrStrs nodeStrs nodeStmts
  by_cases h1 : (!zp || (nodeAt A p).high != 0) = true <;>
  by_cases h2 : (!zp || (nodeAt A p).low != 0) = true <;>
  simp only [h1, h2, strsOf, stmtPieces, List.flatMap_cons, List.flatMap_nil, List.cons_append, List.nil_append,
    List.append_nil, List.map_cons, List.map_nil, Bool.false_eq_true, if_false, if_true, digits_str, s_labelA,
    s_labelB, s_arrow, s_filled, s_dotted, String.ofList_toList, getD_toList]

/-- the model's pieces for the whole export = the translated function's pieces -/
theorem pieces_all (A : Arr) (names : Array String) (zp : Bool) :
    piecesOf (stmtsOf A names.toList zp) = dotBytePieces A names zp := by
  rw [piecesOf_strs]
  unfold dotBytePieces dotPieces
  rw [bytes_of_strs]
  congr 1
  unfold stmtsOf dotStrs
  rw [strsOf_append, strsOf_append, strs_preamble, strsOf_flatMap, strs_footer]
  simp only [strs_node]

/-- … and for the part before a nameless node -/
theorem pieces_prefix (A : Arr) (names : Array String) (zp : Bool) (good : List Nat) :
    piecesOf (preamble A zp ++ good.flatMap (nodeStmts A names.toList zp)) =
      (prePieces A zp ++ good.flatMap (ptrPieces A names zp)).map fun p => p.toList.map byteOf := by
  rw [piecesOf_strs]
  have : prePieces A zp ++ good.flatMap (ptrPieces A names zp) =
      (preStrs A zp ++ good.flatMap (ptrStrs A names zp)).map Rust.utf8Bytes := by
    simp only [prePieces, List.map_append, List.map_flatMap]
    rfl
  rw [this, bytes_of_strs]
  congr 1
  rw [strsOf_append, strs_preamble, strsOf_flatMap]
  simp only [strs_node]

/-! ### which nodes are named -/

theorem good_iff' (A : Arr) (names : Array String) (p : Nat) (hp : p ∈ innerPtrs A) :
    Good A names p ↔ decide ((nodeAt A p).var < names.toList.length) = true := by
  have := (mem_innerPtrs.1 hp).2
  unfold Good
  simp only [Array.length_toList, decide_eq_true_eq]
  exact ⟨fun h => h.2, fun h => ⟨this, h⟩⟩

theorem named_all (A : Arr) (names : Array String) (h : ∀ p ∈ innerPtrs A, Good A names p) :
    (namedPrefix A names.toList).length = (innerPtrs A).length := by
  unfold namedPrefix
  rw [takeWhile_length_eq]
  intro p hp
  exact (good_iff' A names p hp).1 (h p hp)

theorem named_split (A : Arr) (names : Array String) (good rest : List Nat) (bad : Nat)
    (hp : innerPtrs A = good ++ bad :: rest) (hg : ∀ p ∈ good, Good A names p) (hb : ¬ Good A names bad) :
    namedPrefix A names.toList = good := by
  have hmem : ∀ p ∈ good ++ bad :: rest, p ∈ innerPtrs A := fun p h => hp ▸ h
  unfold namedPrefix
  rw [hp, List.takeWhile_append_of_pos (fun p h => (good_iff' A names p (hmem p (by simp [h]))).1 (hg p h))]
  have : decide ((nodeAt A bad).var < names.toList.length) = false := by
    cases hd : decide ((nodeAt A bad).var < names.toList.length) with
    | false => rfl
    | true => exact absurd ((good_iff' A names bad (hmem bad (by simp))).2 hd) hb
  rw [List.takeWhile_cons, this]
  simp

/-! ### the theorem -/

/-- what it means that the translated function's result `r` is the model's result `m` for the writer `w` -/
def Agree (w : Rust.Writer) (r : Outcome (Except Rust.IoError Unit × Rust.Writer)) :
    Outcome (Bool × List UInt8) → Prop
  | .panic _ => ∃ m', r = .panic m'
  | .err _ => False
  | .ok (ok, out) => ∃ res w', r = .ok (res, w') ∧ RelWrite res ok ∧
      w'.out = w.out ++ (out.map UInt8.toNat).toArray ∧ w'.sp + w'.script.length = w.sp + w.script.length

theorem lt_of_prefix_flatten {ps : List (Array Nat)} {taken : List Nat}
    (h : taken <+: (ps.map Array.toList).flatten) (hlt : ∀ b ∈ (ps.map Array.toList).flatten, b < 256) :
    ∀ b ∈ taken, b < 256 := fun b hb => hlt b (h.subset hb)

theorem strs_lt (strs : List String) : ∀ b ∈ ((strs.map Rust.utf8Bytes).map Array.toList).flatten, b < 256 := by
  intro b hb
  simp only [List.map_map, List.mem_flatten, List.mem_map, Function.comp] at hb
  obtain ⟨l, ⟨s, _, rfl⟩, hbl⟩ := hb
  exact utf8Bytes_lt s b hbl

/-- a sequence of `write_all(..)?` calls of the shim = the model's `writeDotPieces` on the same pieces -/
theorem writeSeq_agree (w : Rust.Writer) (ps : List (Array Nat))
    (hlt : ∀ b ∈ (ps.map Array.toList).flatten, b < 256) :
    RelWrite (writeSeq w ps).1 (writeDotPieces (ps.map fun p => p.toList.map byteOf) (w.script.map evOf)).1 ∧
    (writeSeq w ps).2.out = w.out ++
      ((writeDotPieces (ps.map fun p => p.toList.map byteOf) (w.script.map evOf)).2.map UInt8.toNat).toArray ∧
    (writeSeq w ps).2.sp + (writeSeq w ps).2.script.length = w.sp + w.script.length := by
  obtain ⟨taken, h1, h2, h3, _, h5, _, h7⟩ := writeSeq_repr ps w
  refine ⟨h1, ?_, h5⟩
  have e : (writeDotPieces (ps.map fun p => p.toList.map byteOf) (w.script.map evOf)).2 = taken.map byteOf := h3
  rw [e, h2, map_toNat_byteOf _ (lt_of_prefix_flatten h7 hlt)]

/-- **the hand model of the sink export = the translated `write_bdd_as_dot`**, for every node vector with at most
    `2^32` nodes (valid or not), every name vector, both pruning modes and every scripted writer: both panic, or both
    return with the same `Ok`/`Err`, the same bytes appended to the sink and a consistent script position -/
theorem write_bdd_as_dot_eq_writeDotIO (w : Rust.Writer) (A : Arr) (names : Array String) (zp : Bool)
    (hs : A.size ≤ 4294967296) :
    Agree w (Algo3.write_bdd_as_dot w A names zp) (Dot.writeDotIO A names.toList zp (w.script.map evOf)) := by
  by_cases h0 : A.size = 0
  · rw [write_bdd_as_dot_empty w A names zp h0]
    unfold Dot.writeDotIO
    rw [if_pos h0]
    exact ⟨_, rfl⟩
  have h0' : 0 < A.size := by omega
  by_cases hn : names.size = numVars A
  · have hn' : names.toList.length = numVars A := by simpa using hn
    rw [write_bdd_as_dot_desugar w A names zp h0' hs hn]
    rcases first_bad A names (innerPtrs A) with hg | ⟨good, bad, rest, hp, hg, hb⟩
    · rw [dotSkel_good w A names zp hg, writeDotIO_good A names.toList zp _ h0 hn' (named_all A names hg),
        pieces_all]
      obtain ⟨a, b, c⟩ := writeSeq_agree w (dotPieces A names zp) (dotPieces_lt A names zp)
      exact ⟨_, _, rfl, a, b, c⟩
    · have hpre := named_split A names good rest bad hp hg hb
      have hne : (namedPrefix A names.toList).length ≠ (innerPtrs A).length := by
        rw [hpre, hp]; simp
      rw [dotSkel_bad w A names zp good rest bad hp hg hb, writeDotIO_bad A names.toList zp _ h0 hn' hne, hpre,
        pieces_prefix]
      have hlt : ∀ b ∈ ((prePieces A zp ++ good.flatMap (ptrPieces A names zp)).map Array.toList).flatten, b < 256 := by
        have : prePieces A zp ++ good.flatMap (ptrPieces A names zp) =
            (preStrs A zp ++ good.flatMap (ptrStrs A names zp)).map Rust.utf8Bytes := by
          simp only [prePieces, List.map_append, List.map_flatMap]
          rfl
        rw [this]; exact strs_lt _
      obtain ⟨a, b, c⟩ := writeSeq_agree w (prePieces A zp ++ good.flatMap (ptrPieces A names zp)) hlt
      generalize writeDotPieces ((prePieces A zp ++ good.flatMap (ptrPieces A names zp)).map fun p =>
        p.toList.map byteOf) (w.script.map evOf) = m at a b ⊢
      rcases hr : writeSeq w (prePieces A zp ++ good.flatMap (ptrPieces A names zp)) with ⟨r, w'⟩
      rw [hr] at a b c
      obtain ⟨ok, out⟩ := m
      cases a with
      | ok => exact ⟨_, rfl⟩
      | zero => exact ⟨_, _, rfl, .zero, b, c⟩
      | failed => exact ⟨_, _, rfl, .failed, b, c⟩
  · rw [write_bdd_as_dot_mismatch w A names zp h0' hn]
    unfold Dot.writeDotIO
    rw [if_neg h0, if_pos (by simpa using hn)]
    exact ⟨_, rfl⟩

end B.DotAlgoAll
