import BddVerif.Lemmas.AlgoEq3ExprEvalBound
import BddVerif.Lemmas.AlgoEq3ExprExport
import BddVerif.Props.C15
/-!
# Expressions as translated: export with the driver's arguments, the round trip in translated code, examples

* `to_boolean_expression_rel_driver`: `C15.export` as the replay driver runs it (set built by `varSetOfNameList`);
* `export_eval_roundtrip_translated`: for a canonical Bdd over at most 10 distinct names, evaluating (TRANSLATED
  `safe_eval_expression`) the expression exported by the TRANSLATED `to_boolean_expression` returns the very same
  array (chained with `Props.C15.to_expr_roundtrip`);
* concrete runs of the generated functions pinned by the theorems (non-vacuity of every hypothesis).
-/
namespace B.AlgoEq3Expr
open B B.Gen B.Gen.Algo3 B.Parser B.AlgoEqUtil B.AlgoEq2VS B.AlgoEq2Ren B.ExprM
attribute [local instance 10000] Rust.monadOutcomeInline

/-- on a `SetOf` set the model's names are the names of the set -/
theorem namesOf_setOf {T : VSet} {names : List String} (h : SetOf T names) :
    namesOf T.2.1 = names.map String.toList := by
  unfold namesOf; rw [h.arr]

/-- **`C15.export` as the driver runs it**: same expression (through `toE`) or a panic on both sides, for every array -/
theorem to_boolean_expression_rel_driver (vars : List Name) (T : VSet)
    (hT : Drive.Algo3.varSetOfNameList vars = some T) (A : Arr) :
    ExportRel (Bdd_to_boolean_expression A T) (toExpr vars A) := by
  obtain ⟨hS, hv⟩ := varSetOfNameList_setOf vars T hT
  have := to_boolean_expression_rel A T
  rwa [namesOf_setOf hS, hv] at this

/-- … in the form the driver compares: the s-expression of `Drive.Algo3.toE ge` is that of the model's tree -/
theorem to_boolean_expression_eq_model_driver (vars : List Name) (T : VSet)
    (hT : Drive.Algo3.varSetOfNameList vars = some T) (A : Arr) (e : Expr) (he : toExpr vars A = .ok e) :
    ∃ ge, Bdd_to_boolean_expression A T = .ok ge ∧ Drive.Algo3.toE ge = e := by
  have h := to_boolean_expression_rel_driver vars T hT A
  rw [he] at h
  generalize Bdd_to_boolean_expression A T = x at h
  cases h with
  | ok g => exact ⟨g, rfl, driver_toE g⟩

/-- **export → evaluate, entirely in translated code**: for a canonical Bdd `A` over the `n ≤ 10` distinct names of
    the set, the translated `to_boolean_expression` returns a tree `g` on which the translated
    `safe_eval_expression` returns `Some(A)` (fuel `depth g + 3·(2^n+1)^3`). -/
theorem export_eval_roundtrip_translated (T : VSet) (names : List String) (hT : SetOf T names) (hnd : names.Nodup)
    (A : Arr) (hc : Canonical A) (hn : names.length = numVars A) (h10 : names.length ≤ 10) :
    ∃ g, Bdd_to_boolean_expression A T = .ok g ∧ ∀ fuel,
      depth g + 3 * ((2 ^ names.length + 1) * (2 ^ names.length + 1) * (2 ^ names.length + 1)) ≤ fuel →
      BddVariableSet_safe_eval_expression fuel T g = .ok (some A) := by
  have hnd' : (names.map String.toList).Nodup := by
    rw [List.Nodup, List.pairwise_map]
    exact hnd.imp (fun hab hc => hab (String.toList_inj.mp hc))
  obtain ⟨e, he, hev⟩ := Props.C15.to_expr_roundtrip (names.map String.toList) A hc (by rwa [List.length_map]) hnd'
  refine ⟨ofE e, ?_, ?_⟩
  · apply to_boolean_expression_eq_model; rwa [namesOf_setOf hT]
  · intro fuel hf
    rw [safe_eval_eq_model_closed T names hT h10 (ofE e) fuel hf, toE_ofE, hev]

/-! ## non-vacuity: the generated functions on the set built by the generated `new_anonymous` -/

/-- `(x_0 & !x_1) ? x_2 : (x_0 ^ x_2)` over `x_0, x_1, x_2`, through the GENERATED evaluator (depth 4, fuel
    `4 + 3·9^3 = 2191`): the theorems pin the output to the canonical array of the function;
    an unknown name gives `None` / the `unwrap` panic -/
example : ∃ T, Algo2.BddVariableSet_new_anonymous 3 = .ok T ∧
    BddVariableSet_safe_eval_expression 2191 T
      (.Cond (.And (.Variable "x_0") (.Not (.Variable "x_1"))) (.Variable "x_2") (.Xor (.Variable "x_0") (.Variable "x_2"))) =
      .ok (some #[⟨3, 0, 0⟩, ⟨3, 1, 1⟩, ⟨2, 1, 0⟩, ⟨2, 0, 1⟩, ⟨1, 3, 2⟩, ⟨0, 3, 4⟩]) ∧
    BddVariableSet_safe_eval_expression 2191 T (.Or (.Variable "x_0") (.Variable "y")) = .ok none ∧
    BddVariableSet_eval_expression 2191 T (.Or (.Variable "x_0") (.Variable "y")) =
      .panic "called `Option::unwrap()` on a `None` value" := by
  obtain ⟨T, h1, hs⟩ := new_anonymous_ok 3 (by decide)
  have h3 : T.1 = 3 := by rw [hs.count]; rfl
  refine ⟨T, h1, ?_, ?_, ?_⟩
  · have hok := EvalOK_closed (((List.range 3).map VS.anonName).map String.toList) (by decide)
      (toE (.Cond (.And (.Variable "x_0") (.Not (.Variable "x_1"))) (.Variable "x_2")
        (.Xor (.Variable "x_0") (.Variable "x_2")))) 2191 (by decide)
    rw [safe_eval_some_canon T _ hs _ 2191 hok (by decide), h3]
    exact congrArg (fun x => Outcome.ok (some x)) (by decide)
  · have hok := EvalOK_closed (((List.range 3).map VS.anonName).map String.toList) (by decide)
      (toE (.Or (.Variable "x_0") (.Variable "y"))) 2191 (by decide)
    exact (safe_eval_none_iff T _ hs _ 2191 hok).2 ⟨"y".toList, by decide, by decide⟩
  · have hok := EvalOK_closed (((List.range 3).map VS.anonName).map String.toList) (by decide)
      (toE (.Or (.Variable "x_0") (.Variable "y"))) 2191 (by decide)
    exact (eval_expression_panic_iff T _ hs _ 2191 hok).2
      ((safe_eval_none_iff T _ hs _ 2191 hok).2 ⟨"y".toList, by decide, by decide⟩)

/-- the GENERATED export on `x_0 ∧ x_1` (the array `Props.C15.exAnd`), on the constants, on a malformed array and on
    the empty array -/
example : ∃ T, Algo2.BddVariableSet_new_anonymous 2 = .ok T ∧
    Bdd_to_boolean_expression Props.C15.exAnd T = .ok (.And (.Variable "x_0") (.Variable "x_1")) ∧
    Bdd_to_boolean_expression (mkFalse 2) T = .ok (.Const false) ∧
    Bdd_to_boolean_expression (mkTrue 2) T = .ok (.Const true) ∧
    (∃ m, Bdd_to_boolean_expression #[⟨2, 0, 0⟩, ⟨2, 1, 1⟩, ⟨0, 1, 1⟩] T = .panic m) ∧
    Bdd_to_boolean_expression #[] T = .ok (.Const true) := by
  obtain ⟨T, h1, hs⟩ := new_anonymous_ok 2 (by decide)
  refine ⟨T, h1, ?_, (to_boolean_expression_const _ T).1 rfl, (to_boolean_expression_const _ T).2 rfl, ?_, ?_⟩
  · apply (to_boolean_expression_ok_iff _ T _).2
    rw [namesOf_setOf hs]; rfl
  · apply (to_boolean_expression_panic_iff _ T).2
    rw [namesOf_setOf hs]; exact ⟨_, rfl⟩
  · apply (to_boolean_expression_ok_iff _ T _).2
    rw [namesOf_setOf hs]; rfl

/-- export → evaluate in translated code on `Props.C15.exAnd` -/
example : ∃ T g, Algo2.BddVariableSet_new_anonymous 2 = .ok T ∧ Bdd_to_boolean_expression Props.C15.exAnd T = .ok g ∧
    BddVariableSet_safe_eval_expression 400 T g = .ok (some Props.C15.exAnd) := by
  obtain ⟨T, h1, hs⟩ := new_anonymous_ok 2 (by decide)
  obtain ⟨g, hg, hev⟩ := export_eval_roundtrip_translated T _ hs (VS.anon_nodup 2) Props.C15.exAnd
    Props.C15.exAnd_canonical (by decide) (by decide)
  have hg' : Bdd_to_boolean_expression Props.C15.exAnd T = .ok (.And (.Variable "x_0") (.Variable "x_1")) := by
    apply (to_boolean_expression_ok_iff _ T _).2
    rw [namesOf_setOf hs]; rfl
  have : g = .And (.Variable "x_0") (.Variable "x_1") := by rw [hg] at hg'; injection hg'
  subst this
  exact ⟨T, _, h1, hg, hev 400 (by decide)⟩

end B.AlgoEq3Expr
