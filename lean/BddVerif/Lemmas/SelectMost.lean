import BddVerif.Lemmas.SelectWalk
/-!
C11, bottom-up tables: `most_positive_valuation`, `most_negative_valuation` (one proof, parameterised by the
counted value `b`), and the generic invariant of `buildTable`.
-/
namespace B.Select
open B

/-! ### counting -/

/-- number of positions `j ∈ [l, l+k)` with `w j = b` -/
def cnt (b : Bool) (w : Nat → Bool) : Nat → Nat → Nat
  | _, 0 => 0
  | l, k + 1 => (if w l = b then 1 else 0) + cnt b w (l + 1) k

theorem cnt_add (b : Bool) (w : Nat → Bool) : ∀ (k1 l k2 : Nat),
    cnt b w l (k1 + k2) = cnt b w l k1 + cnt b w (l + k1) k2 := by
  intro k1
  induction k1 with
  | zero => intro l k2; simp [cnt]
  | succ k1 ih =>
    intro l k2
    have : k1 + 1 + k2 = (k1 + k2) + 1 := by omega
    rw [this]
    simp only [cnt]
    rw [ih (l + 1) k2]
    have : l + 1 + k1 = l + (k1 + 1) := by omega
    rw [this]; omega

theorem cnt_le (b : Bool) (w : Nat → Bool) : ∀ (k l : Nat), cnt b w l k ≤ k := by
  intro k
  induction k with
  | zero => intro l; simp [cnt]
  | succ k ih =>
    intro l
    simp only [cnt]
    have := ih (l + 1)
    split <;> omega

theorem cnt_full (b : Bool) (w : Nat → Bool) : ∀ (k l : Nat), cnt b w l k = k →
    ∀ j, l ≤ j → j < l + k → w j = b := by
  intro k
  induction k with
  | zero => intro l _ j h1 h2; omega
  | succ k ih =>
    intro l h j h1 h2
    simp only [cnt] at h
    have hle := cnt_le b w k (l + 1)
    by_cases hwl : w l = b
    · simp only [hwl, if_true] at h
      by_cases hj : j = l
      · subst hj; exact hwl
      · exact ih (l + 1) (by omega) j (by omega) (by omega)
    · simp only [hwl, if_false] at h; omega

theorem cnt_const (b : Bool) (w : Nat → Bool) : ∀ (k l : Nat), (∀ j, l ≤ j → j < l + k → w j = b) →
    cnt b w l k = k := by
  intro k
  induction k with
  | zero => intro l _; simp [cnt]
  | succ k ih =>
    intro l h
    simp only [cnt]
    rw [ih (l + 1) (fun j h1 h2 => h j (by omega) (by omega))]
    have := h l (Nat.le_refl _) (by omega)
    simp [this]; omega

theorem cnt_congr (b : Bool) {w w' : Nat → Bool} : ∀ (k l : Nat), (∀ j, l ≤ j → j < l + k → w j = w' j) →
    cnt b w l k = cnt b w' l k := by
  intro k
  induction k with
  | zero => intro l _; simp [cnt]
  | succ k ih =>
    intro l h
    simp only [cnt]
    rw [ih (l + 1) (fun j h1 h2 => h j (by omega) (by omega)), h l (Nat.le_refl _) (by omega)]

/-! ### the table loop -/

theorem buildLoop_spec {A : Arr} (step : Cache → Node → Option (Nat × Bool)) (E : Cache → Nat → Prop)
    (hmono : ∀ (c : Cache) r q, 2 ≤ q → q < c.size → E c q → E (c.push r) q)
    (hstep : ∀ (c : Cache) i nd, 2 ≤ i → c.size = i → A[i]? = some nd → c[1]? = some (0, true) →
      (∀ q, 2 ≤ q → q < i → E c q) → ∃ r, step c nd = some r ∧ E (c.push r) i) :
    ∀ (cnt i : Nat) (c : Cache), 2 ≤ i → i + cnt = A.size → c.size = i → c[1]? = some (0, true) →
      (∀ q, 2 ≤ q → q < i → E c q) →
      ∃ c', (List.range' i cnt).foldlM (fun (c : Cache) i => (A[i]?).bind fun nd => (step c nd).map c.push) c = some c' ∧
        c'.size = A.size ∧ c'[1]? = some (0, true) ∧ ∀ q, 2 ≤ q → q < A.size → E c' q := by
  intro cnt
  induction cnt with
  | zero =>
    intro i c _ hic hcs hc1 hE
    have : i = A.size := by omega
    subst this
    exact ⟨c, rfl, hcs, hc1, hE⟩
  | succ cnt ih =>
    intro i c hi2 hic hcs hc1 hE
    obtain ⟨nd, hnd⟩ : ∃ nd, A[i]? = some nd := ⟨A[i]'(by omega), by simp⟩
    obtain ⟨r, hr, hEr⟩ := hstep c i nd hi2 hcs hnd hc1 hE
    obtain ⟨c', hc', hrest⟩ := ih (i + 1) (c.push r) (by omega) (by omega) (by simp [hcs])
      (by rw [Array.getElem?_push]; have : ¬ (1 = c.size) := by omega
          simp [this, hc1])
      (by
        intro q hq2 hq
        by_cases hqi : q = i
        · subst hqi; exact hEr
        · exact hmono c r q hq2 (by omega) (hE q hq2 (by omega)))
    refine ⟨c', ?_, hrest⟩
    rw [List.range'_succ, List.foldlM_cons]
    simp only [hnd, hr, Option.bind_some, Option.map_some]
    exact hc'

theorem buildTable_spec {A : Arr} {n : Nat} (h : Can A n) (step : Cache → Node → Option (Nat × Bool))
    (E : Cache → Nat → Prop)
    (hmono : ∀ (c : Cache) r q, 2 ≤ q → q < c.size → E c q → E (c.push r) q)
    (hstep : ∀ (c : Cache) i nd, 2 ≤ i → c.size = i → A[i]? = some nd → c[1]? = some (0, true) →
      (∀ q, 2 ≤ q → q < i → E c q) → ∃ r, step c nd = some r ∧ E (c.push r) i) :
    ∃ c, buildTable A step = some c ∧ c.size = A.size ∧ c[1]? = some (0, true) ∧
      ∀ q, 2 ≤ q → q < A.size → E c q := by
  have := h.size2
  exact buildLoop_spec step E hmono hstep (A.size - 2) 2 #[(0, true), (0, true)] (Nat.le_refl _) (by omega) rfl rfl
    (by intro q h1 h2; omega)

/-! ### the two valuation tables as one -/

/-- `stepPos` (`b = true`) and `stepNeg` (`b = false`): a decision that takes the value `b` scores one -/
def stepGen (A : Arr) (b : Bool) (c : Cache) (nd : Node) : Option (Nat × Bool) :=
  (linkDiff A c nd.var nd.low).bind fun ld => (linkDiff A c nd.var nd.high).bind fun hd =>
    if nd.low = 0 ∧ nd.high = 0 then none
    else if nd.low = 0 then some (hd + (if b then 1 else 0), true)
    else if nd.high = 0 then some (ld + (if b then 0 else 1), false)
    else if hd + (if b then 1 else 0) > ld + (if b then 0 else 1) then some (hd + (if b then 1 else 0), true)
    else some (ld + (if b then 0 else 1), false)

theorem stepPos_eq (A : Arr) (c : Cache) (nd : Node) : stepPos A c nd = stepGen A true c nd := by
  unfold stepPos stepGen
  cases linkDiff A c nd.var nd.low <;> cases linkDiff A c nd.var nd.high <;> simp

theorem stepNeg_eq (A : Arr) (c : Cache) (nd : Node) : stepNeg A c nd = stepGen A false c nd := by
  unfold stepNeg stepGen
  cases linkDiff A c nd.var nd.low <;> cases linkDiff A c nd.var nd.high <;> simp

/-- recorded score of a pointer -/
def score (c : Cache) (p : Nat) : Nat := ((c[p]?).getD (0, true)).1

/-- score of a node through its branch `ch`: the child's score, the skipped levels (all counted), and the
    decision itself if it has the counted value -/
def scoreVia (A : Arr) (n : Nat) (b : Bool) (c : Cache) (nd : Node) (ch : Bool) : Nat :=
  score c (if ch then nd.high else nd.low) + (varOf A n (if ch then nd.high else nd.low) - nd.var - 1) +
    (if ch = b then 1 else 0)

/-- what the table records for the decision node `q` -/
def EntryV (A : Arr) (n : Nat) (b : Bool) (c : Cache) (q : Nat) : Prop :=
  ∃ nd m ch, A[q]? = some nd ∧ c[q]? = some (m, ch) ∧ (if ch then nd.high else nd.low) ≠ 0 ∧
    m = scoreVia A n b c nd ch ∧
    (ch = true → nd.low = 0 ∨ scoreVia A n b c nd false < scoreVia A n b c nd true) ∧
    (ch = false → nd.high = 0 ∨ scoreVia A n b c nd true ≤ scoreVia A n b c nd false)

theorem score_push {c : Cache} {r : Nat × Bool} {p : Nat} (hp : p < c.size) : score (c.push r) p = score c p := by
  unfold score
  rw [Array.getElem?_push]
  have : ¬ (p = c.size) := by omega
  simp [this]

theorem entryV_mono {A : Arr} {n : Nat} (h : Can A n) (b : Bool) (c : Cache) (r : Nat × Bool) (q : Nat)
    (hq2 : 2 ≤ q) (hq : q < c.size) (hE : EntryV A n b c q) : EntryV A n b (c.push r) q := by
  obtain ⟨nd, m, ch, hnd, hc, hne, hm, ht, hf⟩ := hE
  obtain ⟨_, hl, hh, _, _, _, _⟩ := h.node hq2 hnd
  have hsv : ∀ ch', scoreVia A n b (c.push r) nd ch' = scoreVia A n b c nd ch' := by
    intro ch'
    unfold scoreVia
    rw [score_push (by cases ch' <;> simp <;> omega)]
  refine ⟨nd, m, ch, hnd, ?_, hne, by rw [hsv]; exact hm, by simpa [hsv] using ht, by simpa [hsv] using hf⟩
  rw [Array.getElem?_push]
  have : ¬ (q = c.size) := by omega
  simp [this, hc]

theorem linkDiff_eq {A : Arr} {n : Nat} (h : Can A n) {c : Cache} {p : Nat} {nd : Node} (hp2 : 2 ≤ p)
    (hnd : A[p]? = some nd) (hcs : c.size = p) (ch : Bool) :
    linkDiff A c nd.var (if ch then nd.high else nd.low) =
      some (score c (if ch then nd.high else nd.low) + (varOf A n (if ch then nd.high else nd.low) - nd.var - 1)) := by
  obtain ⟨_, hl, hh, _, hvl, hvh, hps⟩ := h.node hp2 hnd
  have hlt : (if ch then nd.high else nd.low) < p ∧ nd.var < varOf A n (if ch then nd.high else nd.low) := by
    cases ch <;> simp <;> omega
  generalize (if ch then nd.high else nd.low) = k at hlt
  obtain ⟨ln, hln⟩ : ∃ ln, A[k]? = some ln := ⟨A[k]'(by omega), by simp⟩
  obtain ⟨e, he⟩ : ∃ e, c[k]? = some e := ⟨c[k]'(by omega), by simp⟩
  have hv := h.var_eq hln
  simp [linkDiff, hln, he, score, hv, hlt.2]

theorem stepGen_entry {A : Arr} {n : Nat} (h : Can A n) (b : Bool) (c : Cache) (i : Nat) (nd : Node)
    (hi2 : 2 ≤ i) (hcs : c.size = i) (hnd : A[i]? = some nd) :
    ∃ r, stepGen A b c nd = some r ∧ EntryV A n b (c.push r) i := by
  obtain ⟨_, hl, hh, hne, _, _, _⟩ := h.node hi2 hnd
  have e0 := linkDiff_eq h hi2 hnd hcs false
  have e1 := linkDiff_eq h hi2 hnd hcs true
  simp only [Bool.false_eq_true, if_false, if_true] at e0 e1
  have hsv : ∀ r ch', scoreVia A n b (c.push r) nd ch' = scoreVia A n b c nd ch' := by
    intro r ch'
    unfold scoreVia
    rw [score_push (by cases ch' <;> simp <;> omega)]
  have hget : ∀ r : Nat × Bool, (c.push r)[i]? = some r := by
    intro r; rw [Array.getElem?_push]; simp [hcs]
  have sT : scoreVia A n b c nd true = score c nd.high + (varOf A n nd.high - nd.var - 1) + (if b then 1 else 0) := by
    cases b <;> simp [scoreVia]
  have sF : scoreVia A n b c nd false = score c nd.low + (varOf A n nd.low - nd.var - 1) + (if b then 0 else 1) := by
    cases b <;> simp [scoreVia]
  unfold stepGen
  rw [e0, e1]
  simp only [Option.bind_some]
  by_cases hl0 : nd.low = 0
  · have hh0 : nd.high ≠ 0 := by omega
    refine ⟨(scoreVia A n b c nd true, true), by simp [hl0, hh0, sT], nd, _, true, hnd, hget _, by simpa using hh0,
      by rw [hsv], ?_, by simp⟩
    intro _; left; exact hl0
  · by_cases hh0 : nd.high = 0
    · refine ⟨(scoreVia A n b c nd false, false), by simp [hl0, hh0, sF], nd, _, false, hnd, hget _, by simpa using hl0,
        by rw [hsv], by simp, ?_⟩
      intro _; left; exact hh0
    · by_cases hgt : score c nd.high + (varOf A n nd.high - nd.var - 1) + (if b then 1 else 0) >
          score c nd.low + (varOf A n nd.low - nd.var - 1) + (if b then 0 else 1)
      · refine ⟨(scoreVia A n b c nd true, true), by simp [hl0, hh0, hgt, sT], nd, _, true, hnd, hget _, by simpa using hh0,
          by rw [hsv], ?_, by simp⟩
        intro _; right; rw [hsv, hsv, sT, sF]; exact hgt
      · refine ⟨(scoreVia A n b c nd false, false), by simp [hl0, hh0, hgt, sF], nd, _, false, hnd, hget _, by simpa using hl0,
          by rw [hsv], by simp, ?_⟩
        intro _; right; rw [hsv, hsv, sT, sF]; omega

/-- a complete table -/
structure TableV (A : Arr) (n : Nat) (b : Bool) (c : Cache) : Prop where
  size : c.size = A.size
  one : c[1]? = some (0, true)
  entry : ∀ q, 2 ≤ q → q < A.size → EntryV A n b c q

theorem buildTable_gen {A : Arr} {n : Nat} (h : Can A n) (b : Bool) :
    ∃ c, buildTable A (stepGen A b) = some c ∧ TableV A n b c := by
  obtain ⟨c, hc, h1, h2, h3⟩ := buildTable_spec h (stepGen A b) (EntryV A n b)
    (fun c r q hq2 hq hE => entryV_mono h b c r q hq2 hq hE)
    (fun c i nd hi2 hcs hnd _ _ => stepGen_entry h b c i nd hi2 hcs hnd)
  exact ⟨c, hc, h1, h2, h3⟩

/-! ### what a complete table means -/

theorem cnt_split (b : Bool) (w : Nat → Bool) {x vk n : Nat} (hx : x < vk) (hvk : vk ≤ n) :
    cnt b w x (n - x) = (if w x = b then 1 else 0) + cnt b w (x + 1) (vk - x - 1) + cnt b w vk (n - vk) := by
  have e : n - x = ((vk - x - 1) + (n - vk)) + 1 := by omega
  rw [e]
  simp only [cnt]
  rw [cnt_add]
  have : x + 1 + (vk - x - 1) = vk := by omega
  rw [this]; omega

theorem score_of_entry {c : Cache} {p m : Nat} {ch : Bool} (h : c[p]? = some (m, ch)) : score c p = m := by
  simp [score, h]

/-- the count of any satisfying valuation is bounded by the recorded score -/
theorem table_bound {A : Arr} {n : Nat} {b : Bool} {c : Cache} (h : Can A n) (T : TableV A n b c) :
    ∀ p, p < A.size → p ≠ 0 → ∀ w, ev A w p = true →
      cnt b w (varOf A n p) (n - varOf A n p) ≤ score c p := by
  intro p
  induction p using Nat.strongRecOn with
  | _ p ih =>
    intro hps hp0 w hw
    by_cases hp1 : p = 1
    · subst hp1; simp [varOf, cnt]
    have hp2 : 2 ≤ p := by omega
    obtain ⟨nd, m, ch, hnd, hc, hne, hm, ht, hf⟩ := T.entry p hp2 hps
    obtain ⟨_, hl, hh, _, hvl, hvh, _⟩ := h.node hp2 hnd
    rw [varOf_node p nd hp2 hnd, score_of_entry hc]
    rw [ev_node h.red w p hp2 nd hnd] at hw
    -- the branch `w` takes
    have key : ∀ ch', w nd.var = ch' → cnt b w nd.var (n - nd.var) ≤ scoreVia A n b c nd ch' ∧
        (if ch' then nd.high else nd.low) ≠ 0 := by
      intro ch' hch
      have hwk : ev A w (if ch' then nd.high else nd.low) = true := by
        cases ch' <;> simp [hch] at hw ⊢ <;> exact hw
      have hk0 : (if ch' then nd.high else nd.low) ≠ 0 := by
        intro e; rw [e, ev_zero] at hwk; cases hwk
      have hkp : (if ch' then nd.high else nd.low) < p ∧ nd.var < varOf A n (if ch' then nd.high else nd.low) := by
        cases ch' <;> simp <;> omega
      have hvn := varOf_le h.red (if ch' then nd.high else nd.low)
      have hih := ih _ hkp.1 (by omega) hk0 w hwk
      have hgap := cnt_le b w (varOf A n (if ch' then nd.high else nd.low) - nd.var - 1) (nd.var + 1)
      refine ⟨?_, hk0⟩
      rw [cnt_split b w hkp.2 hvn, hch]
      unfold scoreVia
      omega
    cases hch : w nd.var
    · obtain ⟨hle, hk0⟩ := key false hch
      cases ch
      · rw [hm]; exact hle
      · rcases ht rfl with e | e
        · simp at hk0; omega
        · rw [hm]; omega
    · obtain ⟨hle, hk0⟩ := key true hch
      cases ch
      · rcases hf rfl with e | e
        · simp at hk0; omega
        · rw [hm]; omega
      · rw [hm]; exact hle

theorem goodChoice_table {A : Arr} {n : Nat} {b : Bool} {c : Cache} (T : TableV A n b c) :
    GoodChoice A (chooseTable c) := by
  intro p nd hp2 hnd
  obtain ⟨nd', m, ch, hnd', hc, hne, _⟩ := T.entry p hp2 (getElem?_lt hnd)
  rw [hnd] at hnd'; cases hnd'
  exact ⟨ch, by simp [chooseTable, hc], hne⟩

/-- invariant of the second phase (the walk that follows the recorded children) -/
def MostInv (A : Arr) (n : Nat) (b : Bool) (c : Cache) (p : Nat) (ds : List (Nat × Bool)) : Prop :=
  IsPath A p ds 1 ∧
  cnt b (pathVal b ds) (varOf A n p) (n - varOf A n p) = score c p ∧
  ∀ w, ev A w p = true → cnt b w (varOf A n p) (n - varOf A n p) = score c p →
    LexLe (pathVal b ds) w (varOf A n p) (n - varOf A n p)

theorem mostInv_walk {A : Arr} {n : Nat} {b : Bool} {c : Cache} (h : Can A n) (T : TableV A n b c)
    (fuel p : Nat) (hp1 : 1 ≤ p) (hpf : p ≤ fuel) (hps : p < A.size) :
    ∃ ds, descend A isTerminal (chooseTable c) fuel p = some ds ∧ MostInv A n b c p ds := by
  apply descend_ind h (goodChoice_table T) (MostInv A n b c) _ _ fuel p hp1 hpf hps
  · refine ⟨rfl, by simp [varOf, cnt, score, T.one], ?_⟩
    intro w _ _
    simp [varOf, LexLe]
  · intro p nd ch ds hp2 hnd hb hk0 hP
    obtain ⟨hpath, hcnt, hle⟩ := hP
    obtain ⟨_, hl, hh, _, hvl, hvh, hps⟩ := h.node hp2 hnd
    obtain ⟨nd', m, ch', hnd', hc, _, hm, ht, hf⟩ := T.entry p hp2 hps
    rw [hnd] at hnd'; cases hnd'
    have : ch' = ch := by simpa [chooseTable, hc] using hb
    subst this
    have hvp : varOf A n p = nd.var := varOf_node p nd hp2 hnd
    have hks : (if ch' then nd.high else nd.low) < A.size := by cases ch' <;> simp <;> omega
    have hkp : (if ch' then nd.high else nd.low) < p := by cases ch' <;> simp <;> omega
    have hxk : nd.var < varOf A n (if ch' then nd.high else nd.low) := by cases ch' <;> simp <;> omega
    have hvn := varOf_le h.red (if ch' then nd.high else nd.low)
    obtain ⟨s1, s2, s3⟩ := pathVal_step h b hks hpath nd.var ch' hxk
    refine ⟨⟨hp2, nd, hnd, rfl, hpath⟩, ?_, ?_⟩
    · -- the walk's valuation achieves the score
      rw [hvp, score_of_entry hc, hm, cnt_split b _ hxk hvn, s1]
      rw [cnt_const b _ _ _ (fun j h1 h2 => s3 j h1 (by omega))]
      rw [cnt_congr b _ _ (fun j h1 _ => s2 j (by omega)), hcnt]
      unfold scoreVia
      omega
    · intro w hw hcw
      rw [hvp] at hcw ⊢
      rw [score_of_entry hc] at hcw
      have hsplit : n - nd.var = (varOf A n (if ch' then nd.high else nd.low) - nd.var - 1 +
          (n - varOf A n (if ch' then nd.high else nd.low))) + 1 := by omega
      rw [hsplit]
      simp only [LexLe]
      rw [ev_node h.red w p hp2 nd hnd] at hw
      by_cases hwc : w nd.var = ch'
      · -- same branch: `w` is all-`b` on the skipped levels and optimal below
        right
        refine ⟨by rw [s1, hwc], ?_⟩
        have hwk : ev A w (if ch' then nd.high else nd.low) = true := by
          cases ch' <;> simp [hwc] at hw ⊢ <;> exact hw
        have hbound := table_bound h T _ hks hk0 w hwk
        have hgap := cnt_le b w (varOf A n (if ch' then nd.high else nd.low) - nd.var - 1) (nd.var + 1)
        rw [cnt_split b w hxk hvn, hwc, hm] at hcw
        unfold scoreVia at hcw
        have hg : cnt b w (nd.var + 1) (varOf A n (if ch' then nd.high else nd.low) - nd.var - 1) =
            varOf A n (if ch' then nd.high else nd.low) - nd.var - 1 := by omega
        have hr : cnt b w (varOf A n (if ch' then nd.high else nd.low)) (n - varOf A n (if ch' then nd.high else nd.low)) =
            score c (if ch' then nd.high else nd.low) := by omega
        have hwb := cnt_full b w _ _ hg
        apply LexLe_gap_eq _ _ _ _ _ (fun j h1 h2 => by rw [s3 j h1 (by omega), hwb j h1 h2])
        have e : nd.var + 1 + (varOf A n (if ch' then nd.high else nd.low) - nd.var - 1) =
            varOf A n (if ch' then nd.high else nd.low) := by omega
        rw [e]
        exact LexLe_congr _ _ (fun j h1 _ => (s2 j (by omega)).symm) (fun _ _ _ => rfl) (hle w hwk hr)
      · -- the other branch
        cases ch'
        · -- the table went low, `w` goes high: the walk is smaller at this variable
          have : w nd.var = true := by cases hh' : w nd.var <;> simp_all
          left; exact ⟨s1, this⟩
        · -- the table went high, `w` goes low: `w` cannot reach the score
          exfalso
          have hwf : w nd.var = false := by cases hh' : w nd.var <;> simp_all
          simp only [hwf, Bool.false_eq_true, if_false] at hw
          have hl0 : nd.low ≠ 0 := by intro e; rw [e, ev_zero] at hw; cases hw
          have hvnl := varOf_le h.red nd.low
          have hbound := table_bound h T nd.low (by omega) hl0 w hw
          have hgap := cnt_le b w (varOf A n nd.low - nd.var - 1) (nd.var + 1)
          rw [cnt_split b w hvl hvnl, hwf] at hcw
          rcases ht rfl with e | e
          · exact hl0 e
          · rw [hm] at hcw
            have : scoreVia A n b c nd false = score c nd.low + (varOf A n nd.low - nd.var - 1) +
                (if false = b then 1 else 0) := by simp [scoreVia]
            omega

/-- `most_positive_valuation` (`b = true`) / `most_negative_valuation` (`b = false`) -/
theorem tableVal_spec {A : Arr} {n : Nat} (h : Can A n) (b : Bool) :
    ∃ v, tableVal A (stepGen A b) b = Sel.some v ∧ v.length = n ∧ den A (fn v) = true ∧
      (∀ w : Nat → Bool, den A w = true → cnt b w 0 n ≤ cnt b (fn v) 0 n) ∧
      (∀ w : Nat → Bool, den A w = true → cnt b w 0 n = cnt b (fn v) 0 n → LexLe (fn v) w 0 n) := by
  obtain ⟨c, hc, T⟩ := buildTable_gen h b
  obtain ⟨ds, hd, hpath, hcnt, hle⟩ := mostInv_walk h T A.size (root A) h.root_pos (by unfold root; omega) h.root_lt
  obtain ⟨v, hv, hlen, hden, hfn⟩ := walkVal_spec h b hd hpath
  obtain ⟨_, hin, _, _⟩ := path_sorted h ds _ 1 hpath h.root_lt
  have hrn := varOf_le h.red (root A)
  have hr0 : root A ≠ 0 := by have := h.root_pos; omega
  have hpre : ∀ j, j < varOf A n (root A) → pathVal b ds j = b :=
    fun j hj => pathVal_of_lt b (fun d hd' => by have := (hin d hd').1; omega)
  have esplit : n = varOf A n (root A) + (n - varOf A n (root A)) := by omega
  -- the count of the returned valuation
  have hcv : cnt b (fn v) 0 n = varOf A n (root A) + score c (root A) := by
    rw [cnt_congr b n 0 (fun j _ hj => hfn j (by omega))]
    conv => lhs; rw [esplit]
    rw [cnt_add, cnt_const b _ _ _ (fun j _ hj => hpre j (by omega))]
    simp only [Nat.zero_add]
    rw [hcnt]
  have hcw : ∀ w, den A w = true → cnt b w 0 n = cnt b w 0 (varOf A n (root A)) +
      cnt b w (varOf A n (root A)) (n - varOf A n (root A)) := by
    intro w _
    conv => lhs; rw [esplit]
    rw [cnt_add]; simp
  refine ⟨v, ?_, hlen, hden, ?_, ?_⟩
  · simp [tableVal, h.isFalse, hc, hv]
  · intro w hw
    rw [hcv, hcw w hw]
    have h1 := cnt_le b w (varOf A n (root A)) 0
    have h2 := table_bound h T (root A) h.root_lt hr0 w hw
    omega
  · intro w hw heq
    rw [hcv, hcw w hw] at heq
    have h1 := cnt_le b w (varOf A n (root A)) 0
    have h2 := table_bound h T (root A) h.root_lt hr0 w hw
    have hg : cnt b w 0 (varOf A n (root A)) = varOf A n (root A) := by omega
    have hr : cnt b w (varOf A n (root A)) (n - varOf A n (root A)) = score c (root A) := by omega
    have hwb := cnt_full b w _ _ hg
    have key := LexLe_gap_eq (pathVal b ds) w (varOf A n (root A)) 0 (n - varOf A n (root A))
      (fun j h1 h2 => by rw [hpre j (by omega), hwb j h1 h2]) (by simpa using hle w hw hr)
    rw [← esplit] at key
    exact LexLe_congr _ _ (fun j _ hj => (hfn j (by omega)).symm) (fun _ _ _ => rfl) key

theorem tableVal_congr (A : Arr) {s1 s2 : Cache → Node → Option (Nat × Bool)} (h : ∀ c nd, s1 c nd = s2 c nd)
    (init : Bool) : tableVal A s1 init = tableVal A s2 init := by
  have : s1 = s2 := by funext c nd; exact h c nd
  rw [this]

theorem most_positive_valuation_spec {A : Arr} {n : Nat} (h : Can A n) :
    ∃ v, mostPositiveValuation A = Sel.some v ∧ v.length = n ∧ den A (fn v) = true ∧
      (∀ w : Nat → Bool, den A w = true → cnt true w 0 n ≤ cnt true (fn v) 0 n) ∧
      (∀ w : Nat → Bool, den A w = true → cnt true w 0 n = cnt true (fn v) 0 n → LexLe (fn v) w 0 n) := by
  unfold mostPositiveValuation
  rw [tableVal_congr A (stepPos_eq A)]
  exact tableVal_spec h true

theorem most_negative_valuation_spec {A : Arr} {n : Nat} (h : Can A n) :
    ∃ v, mostNegativeValuation A = Sel.some v ∧ v.length = n ∧ den A (fn v) = true ∧
      (∀ w : Nat → Bool, den A w = true → cnt false w 0 n ≤ cnt false (fn v) 0 n) ∧
      (∀ w : Nat → Bool, den A w = true → cnt false w 0 n = cnt false (fn v) 0 n → LexLe (fn v) w 0 n) := by
  unfold mostNegativeValuation
  rw [tableVal_congr A (stepNeg_eq A)]
  exact tableVal_spec h false

end B.Select
