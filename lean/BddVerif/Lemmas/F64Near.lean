import BddVerif.Lemmas.F64Round
/-!
Accumulated relative error, in cross-multiplied natural-number form. With `P = 2^53`:
`Near d C s` says `C·(1 − 2^-53)^d ≤ s ≤ C·(1 + 2^-53)^d`, written `C·(P−1)^d ≤ s·P^d ≤ C·(P+1)^d`.
One rounding step adds one to `d`; exact operations (sum of two approximations, product with a constant)
keep `d`.
-/
set_option exponentiation.threshold 2200
namespace B.F64

/-- `2^53`: the reciprocal of the unit roundoff of binary64 -/
def P : Nat := 2 ^ 53

theorem P_pos : 0 < P := Nat.two_pow_pos 53
theorem Pm_pos : 0 < P - 1 := by decide
theorem Pm_le : P - 1 ≤ P := Nat.sub_le _ _
theorem P_le : P ≤ P + 1 := Nat.le_succ _

/-- `C·(P−1)^d ≤ s·P^d ≤ C·(P+1)^d` -/
def Near (d C s : Nat) : Prop := C * (P - 1) ^ d ≤ s * P ^ d ∧ s * P ^ d ≤ C * (P + 1) ^ d

theorem Near.refl (C : Nat) : Near 0 C C := by simp [Near]

theorem Near.zero (d : Nat) : Near d 0 0 := by simp [Near]

/-- multiplication by an exact constant -/
theorem Near.mul {d C s : Nat} (h : Near d C s) (k : Nat) : Near d (C * k) (s * k) := by
  obtain ⟨h1, h2⟩ := h
  constructor
  · rw [Nat.mul_right_comm C k, Nat.mul_right_comm s k]; exact Nat.mul_le_mul_right _ h1
  · rw [Nat.mul_right_comm C k, Nat.mul_right_comm s k]; exact Nat.mul_le_mul_right _ h2

/-- exact sum -/
theorem Near.add {d C1 s1 C2 s2 : Nat} (h1 : Near d C1 s1) (h2 : Near d C2 s2) :
    Near d (C1 + C2) (s1 + s2) := by
  constructor
  · rw [Nat.add_mul, Nat.add_mul]; exact Nat.add_le_add h1.1 h2.1
  · rw [Nat.add_mul, Nat.add_mul]; exact Nat.add_le_add h1.2 h2.2

/-- one more rounding -/
theorem Near.round {d C t r : Nat} (h : Near d C t) (h1 : t * (P - 1) ≤ r * P) (h2 : r * P ≤ t * (P + 1)) :
    Near (d + 1) C r := by
  constructor
  · calc C * (P - 1) ^ (d + 1) = C * (P - 1) ^ d * (P - 1) := by rw [Nat.pow_succ, Nat.mul_assoc]
      _ ≤ t * P ^ d * (P - 1) := Nat.mul_le_mul_right _ h.1
      _ = t * (P - 1) * P ^ d := Nat.mul_right_comm _ _ _
      _ ≤ r * P * P ^ d := Nat.mul_le_mul_right _ h1
      _ = r * P ^ (d + 1) := by rw [Nat.pow_succ, Nat.mul_assoc, Nat.mul_comm P]
  · calc r * P ^ (d + 1) = r * P * P ^ d := by rw [Nat.pow_succ, Nat.mul_assoc, Nat.mul_comm P]
      _ ≤ t * (P + 1) * P ^ d := Nat.mul_le_mul_right _ h2
      _ = t * P ^ d * (P + 1) := Nat.mul_right_comm _ _ _
      _ ≤ C * (P + 1) ^ d * (P + 1) := Nat.mul_le_mul_right _ h.2
      _ = C * (P + 1) ^ (d + 1) := by rw [Nat.pow_succ, Nat.mul_assoc]

/-- the bound weakens with `d` -/
theorem Near.succ {d C s : Nat} (h : Near d C s) : Near (d + 1) C s := by
  apply h.round
  · exact Nat.mul_le_mul_left _ Pm_le
  · exact Nat.mul_le_mul_left _ P_le

theorem Near.mono {d d' C s : Nat} (h : Near d C s) (hd : d ≤ d') : Near d' C s := by
  induction hd with
  | refl => exact h
  | step _ ih => exact ih.succ

/-- an approximation is zero exactly when the approximated number is -/
theorem Near.eq_zero_iff {d C s : Nat} (h : Near d C s) : s = 0 ↔ C = 0 := by
  constructor
  · intro hs
    have := h.1
    rw [hs, Nat.zero_mul] at this
    have h0 : C * (P - 1) ^ d = 0 := by omega
    rcases Nat.mul_eq_zero.1 h0 with h' | h'
    · exact h'
    · exact absurd h' (Nat.ne_of_gt (Nat.pow_pos Pm_pos))
  · intro hc
    have := h.2
    rw [hc, Nat.zero_mul] at this
    have h0 : s * P ^ d = 0 := by omega
    rcases Nat.mul_eq_zero.1 h0 with h' | h'
    · exact h'
    · exact absurd h' (Nat.ne_of_gt (Nat.pow_pos P_pos))

/-- `round53` in the form needed by `Near.round` -/
theorem round53_near (t : Nat) : t * (P - 1) ≤ round53 t * P ∧ round53 t * P ≤ t * (P + 1) := round53_mul t

/-- `(P+1)^d + (P−1)^d ≥ 2·P^d`: the two-sided multiplicative bound implies the symmetric additive one -/
theorem pow_sym (d : Nat) : (P - 1) ^ d ≤ (P + 1) ^ d ∧ 2 * P ^ d ≤ (P + 1) ^ d + (P - 1) ^ d := by
  induction d with
  | zero => simp
  | succ d ih =>
    obtain ⟨h1, h2⟩ := ih
    constructor
    · exact Nat.pow_le_pow_left (by omega) _
    · -- (P+1)^(d+1) + (P-1)^(d+1) = P·(a+b) + (a − b)
      have ea : (P + 1) ^ (d + 1) = P * (P + 1) ^ d + (P + 1) ^ d := by
        rw [Nat.pow_succ, Nat.mul_add, Nat.mul_one, Nat.mul_comm]
      have eb : (P - 1) ^ (d + 1) + (P - 1) ^ d = P * (P - 1) ^ d := by
        rw [Nat.pow_succ]
        have : (P - 1) ^ d * (P - 1) + (P - 1) ^ d = (P - 1) ^ d * ((P - 1) + 1) := by
          rw [Nat.mul_add, Nat.mul_one]
        rw [this, Nat.sub_add_cancel P_pos, Nat.mul_comm]
      have ep : P ^ (d + 1) = P * P ^ d := by rw [Nat.pow_succ, Nat.mul_comm]
      have hm : P * (2 * P ^ d) ≤ P * ((P + 1) ^ d + (P - 1) ^ d) := Nat.mul_le_mul_left _ h2
      rw [Nat.mul_add] at hm
      rw [ea, ep]
      have : P * (2 * P ^ d) = 2 * (P * P ^ d) := by
        rw [← Nat.mul_assoc, Nat.mul_comm P 2, Nat.mul_assoc]
      rw [this] at hm
      generalize P * (P + 1) ^ d = X at *
      generalize P * (P - 1) ^ d = Y at *
      generalize P * P ^ d = Z at *
      omega

/-- symmetric additive form: `|s − C|·P^d ≤ C·((P+1)^d − P^d)` -/
theorem Near.abs {d C s : Nat} (h : Near d C s) :
    (s - C) * P ^ d ≤ C * ((P + 1) ^ d - P ^ d) ∧ (C - s) * P ^ d ≤ C * ((P + 1) ^ d - P ^ d) := by
  obtain ⟨h1, h2⟩ := h
  obtain ⟨s1, s2⟩ := pow_sym d
  have hPQ : P ^ d ≤ (P + 1) ^ d := Nat.pow_le_pow_left P_le _
  rw [Nat.sub_mul, Nat.sub_mul, Nat.mul_sub]
  constructor
  · omega
  · -- C·P^d − s·P^d ≤ C·P^d − C·(P−1)^d ≤ C·(P+1)^d − C·P^d
    have : C * (2 * P ^ d) ≤ C * ((P + 1) ^ d + (P - 1) ^ d) := Nat.mul_le_mul_left _ s2
    rw [Nat.mul_add] at this
    have e : C * (2 * P ^ d) = 2 * (C * P ^ d) := by
      rw [← Nat.mul_assoc, Nat.mul_comm C 2, Nat.mul_assoc]
    rw [e] at this
    omega

end B.F64
