import BddVerif.Model.ParserRef
import BddVerif.Lemmas.ParserPrint
import BddVerif.Lemmas.ParserFlat
/-!
The reference lexer `ParserRef.refLex` (accumulator style) computes the same flat token string as the flat
lexer `Parser.lexFlat` of the grammar theorems, and fails exactly when `lexFlat` reports a lexical error.
-/
namespace B.ParserRef
open B B.Parser

/-- flat tokens of the theorems ↦ flat tokens of the reference parser -/
def conv : FT → FTok
  | .lp => .lp | .rp => .rp | .not => .bang | .and => .amp | .or => .bar | .xor => .hat
  | .imp => .arrow | .iff => .darrow | .colon => .colon | .qmark => .quest | .id s => .ident s

theorem conv_inj {a b : FT} (h : conv a = conv b) : a = b := by
  cases a <;> cases b <;> simp_all [conv]

/-- the code-point list of the reference parser is the `White_Space` predicate of the model -/
theorem refWs_eq (c : Char) : refWs c = isWs c := by
  have key : ∀ n : Nat, wsCodes.contains n =
      ((9 ≤ n && n ≤ 13) || n == 0x20 || n == 0x85 || n == 0xA0 || n == 0x1680 ||
       (0x2000 ≤ n && n ≤ 0x200A) || n == 0x2028 || n == 0x2029 || n == 0x202F || n == 0x205F || n == 0x3000) := by
    intro n
    rw [Bool.eq_iff_iff]
    simp only [wsCodes, List.contains_eq_mem, List.mem_cons, List.not_mem_nil, or_false, decide_eq_true_eq,
      Bool.or_eq_true, Bool.and_eq_true, beq_iff_eq]
    omega
  exact key c.toNat

/-- the reserved characters of the reference parser are `NOT_IN_VAR_NAME` (regenerated constant) -/
theorem refSpecial_eq (c : Char) : refSpecial c = Gen.notInVarName.contains c := by
  have : "!&|^=<>()?:".toList = Gen.notInVarName := by decide
  simp [refSpecial, this]

theorem stopsName_eq (c : Char) : stopsName c = (refWs c || refSpecial c) := by
  simp [stopsName, refWs_eq, refSpecial_eq]

/-! ### unfolding `lexFlat` on its character classes -/

theorem lexFlat_nil : lexFlat [] = ([], none) := by rw [lexFlat.eq_def []]

theorem lexFlat_ws (c : Char) (tl : List Char) (h : isWs c = true) : lexFlat (c :: tl) = lexFlat tl := by
  rw [lexFlat.eq_def (c :: tl)]; simp only [h, if_true]

theorem lexFlat_not (tl : List Char) : lexFlat ('!' :: tl) = consF .not (lexFlat tl) := by
  rw [lexFlat.eq_def ('!' :: tl)]; simp [isWs_specials]
theorem lexFlat_and (tl : List Char) : lexFlat ('&' :: tl) = consF .and (lexFlat tl) := by
  rw [lexFlat.eq_def ('&' :: tl)]; simp [isWs_specials]
theorem lexFlat_or (tl : List Char) : lexFlat ('|' :: tl) = consF .or (lexFlat tl) := by
  rw [lexFlat.eq_def ('|' :: tl)]; simp [isWs_specials]
theorem lexFlat_xor (tl : List Char) : lexFlat ('^' :: tl) = consF .xor (lexFlat tl) := by
  rw [lexFlat.eq_def ('^' :: tl)]; simp [isWs_specials]
theorem lexFlat_colon (tl : List Char) : lexFlat (':' :: tl) = consF .colon (lexFlat tl) := by
  rw [lexFlat.eq_def (':' :: tl)]; simp [isWs_specials]
theorem lexFlat_qmark (tl : List Char) : lexFlat ('?' :: tl) = consF .qmark (lexFlat tl) := by
  rw [lexFlat.eq_def ('?' :: tl)]; simp [isWs_specials]
theorem lexFlat_lp (tl : List Char) : lexFlat ('(' :: tl) = consF .lp (lexFlat tl) := by
  rw [lexFlat.eq_def ('(' :: tl)]; simp [isWs_specials]
theorem lexFlat_rp (tl : List Char) : lexFlat (')' :: tl) = consF .rp (lexFlat tl) := by
  rw [lexFlat.eq_def (')' :: tl)]; simp [isWs_specials]
theorem lexFlat_imp (tl : List Char) : lexFlat ('=' :: '>' :: tl) = consF .imp (lexFlat tl) := by
  rw [lexFlat.eq_def ('=' :: '>' :: tl)]; simp [isWs_specials]
theorem lexFlat_iff (tl : List Char) : lexFlat ('<' :: '=' :: '>' :: tl) = consF .iff (lexFlat tl) := by
  rw [lexFlat.eq_def ('<' :: '=' :: '>' :: tl)]; simp [isWs_specials]

/-- a lone `=`, `<`, `<=` or `>` is a lexical error -/
theorem lexFlat_eq_err (tl : List Char) (h : ∀ tl', tl = '>' :: tl' → False) : (lexFlat ('=' :: tl)).2.isSome = true := by
  rw [lexFlat.eq_def ('=' :: tl)]
  cases tl with
  | nil => simp [isWs_specials]
  | cons d tl' =>
    have hd : d ≠ '>' := fun e => h tl' (by rw [e])
    simp [isWs_specials, hd]

theorem lexFlat_lt_err (tl : List Char) (h : ∀ tl', tl = '=' :: '>' :: tl' → False) :
    (lexFlat ('<' :: tl)).2.isSome = true := by
  rw [lexFlat.eq_def ('<' :: tl)]
  cases tl with
  | nil => simp [isWs_specials]
  | cons d tl' =>
    by_cases hd : d = '='
    · subst hd
      cases tl' with
      | nil => simp [isWs_specials]
      | cons e tl'' =>
        have he : e ≠ '>' := fun e' => h tl'' (by rw [e'])
        simp [isWs_specials, he]
    · simp [isWs_specials, hd]

theorem lexFlat_gt_err (tl : List Char) : (lexFlat ('>' :: tl)).2.isSome = true := by
  rw [lexFlat.eq_def ('>' :: tl)]; simp [isWs_specials]

/-- an identifier: a non-empty run of name characters followed by the end or by a stopping character -/
theorem lexFlat_ident (p rest : List Char) (hne : p ≠ []) (hp : ∀ c ∈ p, stopsName c = false) (hr : Delim rest) :
    lexFlat (p ++ rest) = consF (.id p) (lexFlat rest) := by
  cases p with
  | nil => exact absurd rfl hne
  | cons c tl =>
    obtain ⟨h0, h1, h2, h3, h4, h5, h6, h7, h8, h9, h10, h11⟩ := not_special (hp c (by simp))
    have hn := nameRest_safe tl rest (fun d hd => hp d (by simp [hd])) hr
    rw [List.cons_append, lexFlat.eq_def (c :: (tl ++ rest))]
    simp only [h0, h1, h2, h3, h4, h5, h6, h7, h8, h9, h10, h11, if_false, Bool.false_eq_true, hn]

/-! ### the accumulator lexer against `lexFlat` -/

/-- what `refLex` returns, in terms of a `lexFlat` result and the tokens already emitted (reversed) -/
def lexOut (acc : List FTok) : LexRes → Option (List FTok)
  | (fl, none) => some (acc.reverse ++ fl.map conv)
  | (_, some _) => none

/-- emit the pending identifier, if any -/
def pend (cur : List Char) (r : LexRes) : LexRes := if cur.isEmpty then r else consF (.id cur.reverse) r

theorem lexOut_consF (acc : List FTok) (t : FT) (r : LexRes) : lexOut acc (consF t r) = lexOut (conv t :: acc) r := by
  obtain ⟨fl, tail⟩ := r
  cases tail <;> simp [lexOut, consF]

theorem lexOut_pend (acc : List FTok) (cur : List Char) (r : LexRes) :
    lexOut acc (pend cur r) = lexOut (flush cur acc) r := by
  unfold pend flush
  split
  · rfl
  · rw [lexOut_consF]; rfl

theorem lexOut_err (acc : List FTok) (r : LexRes) (h : r.2.isSome = true) : lexOut acc r = none := by
  obtain ⟨fl, tail⟩ := r
  cases tail <;> simp_all [lexOut]

theorem lexFlat_pending (cur s : List Char) (hc : ∀ c ∈ cur, stopsName c = false) (hs : Delim s) :
    lexFlat (cur.reverse ++ s) = pend cur (lexFlat s) := by
  unfold pend
  split
  · rename_i h; simp at h; subst h; rfl
  · rename_i h
    exact lexFlat_ident cur.reverse s (by simpa using h) (fun c hc' => hc c (by simpa using hc')) hs

theorem delim_of_stops (c : Char) (tl : List Char) (h : stopsName c = true) : Delim (c :: tl) := h

theorem refLex_spec (s cur : List Char) (acc : List FTok) :
    (∀ c ∈ cur, stopsName c = false) → refLex s cur acc = lexOut acc (lexFlat (cur.reverse ++ s)) := by
  fun_induction refLex s cur acc
  case case1 cur acc =>
    intro hcur
    rw [lexFlat_pending cur [] hcur trivial, lexOut_pend, lexFlat_nil]
    simp [lexOut]
  case case2 tl cur acc ih =>
    intro hcur
    rw [lexFlat_pending cur _ hcur (delim_of_stops _ _ (by decide)), lexOut_pend, lexFlat_iff, lexOut_consF]
    simpa [conv] using ih (by simp)
  case case3 tl cur acc ih =>
    intro hcur
    rw [lexFlat_pending cur _ hcur (delim_of_stops _ _ (by decide)), lexOut_pend, lexFlat_imp, lexOut_consF]
    simpa [conv] using ih (by simp)
  case case4 c tl cur acc _ _ hws ih =>
    intro hcur
    have hw : isWs c = true := by rw [← refWs_eq]; exact hws
    rw [lexFlat_pending cur _ hcur (delim_of_stops _ _ (by simp [stopsName, hw])), lexOut_pend, lexFlat_ws c tl hw]
    simpa [conv] using ih (by simp)
  case case5 c tl cur acc _ _ _ hc ih =>
    intro hcur
    have : c = '(' := by simpa using hc
    subst this
    rw [lexFlat_pending cur _ hcur (delim_of_stops _ _ (by decide)), lexOut_pend, lexFlat_lp, lexOut_consF]
    simpa [conv] using ih (by simp)
  case case6 c tl cur acc _ _ _ _ hc ih =>
    intro hcur
    have : c = ')' := by simpa using hc
    subst this
    rw [lexFlat_pending cur _ hcur (delim_of_stops _ _ (by decide)), lexOut_pend, lexFlat_rp, lexOut_consF]
    simpa [conv] using ih (by simp)
  case case7 c tl cur acc _ _ _ _ _ hc ih =>
    intro hcur
    have : c = '!' := by simpa using hc
    subst this
    rw [lexFlat_pending cur _ hcur (delim_of_stops _ _ (by decide)), lexOut_pend, lexFlat_not, lexOut_consF]
    simpa [conv] using ih (by simp)
  case case8 c tl cur acc _ _ _ _ _ _ hc ih =>
    intro hcur
    have : c = '&' := by simpa using hc
    subst this
    rw [lexFlat_pending cur _ hcur (delim_of_stops _ _ (by decide)), lexOut_pend, lexFlat_and, lexOut_consF]
    simpa [conv] using ih (by simp)
  case case9 c tl cur acc _ _ _ _ _ _ _ hc ih =>
    intro hcur
    have : c = '|' := by simpa using hc
    subst this
    rw [lexFlat_pending cur _ hcur (delim_of_stops _ _ (by decide)), lexOut_pend, lexFlat_or, lexOut_consF]
    simpa [conv] using ih (by simp)
  case case10 c tl cur acc _ _ _ _ _ _ _ _ hc ih =>
    intro hcur
    have : c = '^' := by simpa using hc
    subst this
    rw [lexFlat_pending cur _ hcur (delim_of_stops _ _ (by decide)), lexOut_pend, lexFlat_xor, lexOut_consF]
    simpa [conv] using ih (by simp)
  case case11 c tl cur acc _ _ _ _ _ _ _ _ _ hc ih =>
    intro hcur
    have : c = '?' := by simpa using hc
    subst this
    rw [lexFlat_pending cur _ hcur (delim_of_stops _ _ (by decide)), lexOut_pend, lexFlat_qmark, lexOut_consF]
    simpa [conv] using ih (by simp)
  case case12 c tl cur acc _ _ _ _ _ _ _ _ _ _ hc ih =>
    intro hcur
    have : c = ':' := by simpa using hc
    subst this
    rw [lexFlat_pending cur _ hcur (delim_of_stops _ _ (by decide)), lexOut_pend, lexFlat_colon, lexOut_consF]
    simpa [conv] using ih (by simp)
  case case13 c tl cur acc h1 h2 hws n1 n2 n3 n4 n5 n6 n7 n8 hsp =>
    intro hcur
    have hstop : stopsName c = true := by rw [stopsName_eq]; simp [hsp]
    rw [lexFlat_pending cur _ hcur (delim_of_stops _ _ hstop), lexOut_pend]
    apply (lexOut_err _ _ _).symm
    have hmem : c = '!' ∨ c = '&' ∨ c = '|' ∨ c = '^' ∨ c = '=' ∨ c = '<' ∨ c = '>' ∨ c = '(' ∨ c = ')' ∨ c = '?' ∨ c = ':' := by
      have : "!&|^=<>()?:".toList = ['!', '&', '|', '^', '=', '<', '>', '(', ')', '?', ':'] := by decide
      simpa [refSpecial, this] using hsp
    simp only [beq_iff_eq] at n1 n2 n3 n4 n5 n6 n7 n8
    rcases hmem with h | h | h | h | h | h | h | h | h | h | h
    all_goals first
      | exact absurd h n1 | exact absurd h n2 | exact absurd h n3 | exact absurd h n4
      | exact absurd h n5 | exact absurd h n6 | exact absurd h n7 | exact absurd h n8
      | skip
    · subst h; exact lexFlat_eq_err tl (fun tl' e => h2 tl' rfl e)
    · subst h; exact lexFlat_lt_err tl (fun tl' e => h1 tl' rfl e)
    · subst h; exact lexFlat_gt_err tl
  case case14 c tl cur acc h1 h2 hws n1 n2 n3 n4 n5 n6 n7 n8 hsp ih =>
    intro hcur
    have hstop : stopsName c = false := by rw [stopsName_eq]; simp [hws, hsp]
    have := ih (by intro d hd; rcases List.mem_cons.mp hd with rfl | hd; exact hstop; exact hcur d hd)
    simpa using this

/-- **the reference lexer is the flat lexer**: same tokens, `none` exactly on a lexical error -/
theorem refLex_eq (s : List Char) :
    refLex s [] [] = match lexFlat s with | (fl, none) => some (fl.map conv) | (_, some _) => none := by
  have := refLex_spec s [] [] (by simp)
  simp only [List.reverse_nil, List.nil_append] at this
  rw [this]
  cases lexFlat s with
  | mk fl tail => cases tail <;> simp [lexOut]

end B.ParserRef
