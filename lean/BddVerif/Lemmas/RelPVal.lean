import BddVerif.Lemmas.RelBasic
/-!
Partial valuations (`from_values`: last write wins), the clause Bdd of `mk_partial_valuation` and the
literal Bdds: well-formed operands with the expected denotation.
-/
namespace B.Rel
open B Std

/-! ### `BddPartialValuation` -/

theorem PVal.get_nil (x : Nat) : PVal.get [] x = none := by simp [PVal.get]

theorem PVal.length_set (pv : PVal) (x : Nat) (b : Bool) : (pv.set x b).length = max pv.length (x + 1) := by
  simp [PVal.set]; omega

/-- reading after a write -/
theorem PVal.get_set (pv : PVal) (x : Nat) (b : Bool) (y : Nat) :
    (pv.set x b).get y = if y = x then some b else pv.get y := by
  unfold PVal.get PVal.set
  rw [List.getElem?_set]
  by_cases hyx : y = x
  · subst hyx
    have : y < pv.length + (y + 1 - pv.length) := by omega
    simp [this]
  · have hxy : ¬ x = y := fun e => hyx e.symm
    simp only [hxy, hyx, if_false]
    rcases Nat.lt_or_ge y pv.length with hlt | hge
    · rw [List.getElem?_append_left hlt]
    · rw [List.getElem?_append_right hge, List.getElem?_eq_none hge]
      rw [List.getElem?_replicate]
      split <;> rfl

theorem fromValues_nil : fromValues [] = [] := rfl

theorem fromValues_snoc (lits : List (Nat × Bool)) (x : Nat) (b : Bool) :
    fromValues (lits ++ [(x, b)]) = (fromValues lits).set x b := by
  simp [fromValues, List.foldl_append]

/-- `from_values`: the LAST literal of a variable is the one that counts -/
theorem get_fromValues_snoc (lits : List (Nat × Bool)) (x : Nat) (b : Bool) (y : Nat) :
    (fromValues (lits ++ [(x, b)])).get y = if y = x then some b else (fromValues lits).get y := by
  rw [fromValues_snoc, PVal.get_set]

/-- the literal that counts for variable `y`, computed directly on the list -/
def lastLit (lits : List (Nat × Bool)) (y : Nat) : Option Bool :=
  lits.foldl (fun acc l => if l.1 = y then some l.2 else acc) none

theorem foldl_set_get (lits : List (Nat × Bool)) (pv : PVal) (y : Nat) :
    (lits.foldl (fun pv l => pv.set l.1 l.2) pv).get y =
      lits.foldl (fun acc l => if l.1 = y then some l.2 else acc) (pv.get y) := by
  induction lits generalizing pv with
  | nil => rfl
  | cons l t ih =>
    simp only [List.foldl_cons]
    rw [ih, PVal.get_set]
    by_cases h : l.1 = y
    · simp [h]
    · have : ¬ y = l.1 := fun e => h e.symm
      simp [h, this]

theorem get_fromValues (lits : List (Nat × Bool)) (y : Nat) : (fromValues lits).get y = lastLit lits y := by
  unfold fromValues lastLit
  rw [foldl_set_get, PVal.get_nil]

theorem length_fromValues (lits : List (Nat × Bool)) (n : Nat) (h : ∀ l ∈ lits, l.1 < n) :
    (fromValues lits).length ≤ n := by
  have key : ∀ (lits : List (Nat × Bool)) (pv : PVal), (∀ l ∈ lits, l.1 < n) → pv.length ≤ n →
      (lits.foldl (fun pv l => pv.set l.1 l.2) pv).length ≤ n := by
    intro lits
    induction lits with
    | nil => intro pv _ h; exact h
    | cons l t ih =>
      intro pv hl hp
      simp only [List.foldl_cons]
      apply ih
      · intro l' hl'; exact hl l' (List.mem_cons_of_mem _ hl')
      · rw [PVal.length_set]
        have := hl l List.mem_cons_self
        omega
  exact key lits [] h (by simp)

/-- strictly ascending list of literals, all variables `≥ lo` -/
def Asc : Nat → List (Nat × Bool) → Prop
  | _, [] => True
  | lo, (x, _) :: t => lo ≤ x ∧ Asc (x + 1) t

theorem Asc.mono {lo lo' : Nat} {l : List (Nat × Bool)} (h : Asc lo l) (hle : lo' ≤ lo) : Asc lo' l := by
  cases l with
  | nil => trivial
  | cons p t => obtain ⟨x, b⟩ := p; exact ⟨Nat.le_trans hle h.1, h.2⟩

theorem asc_toValuesFrom (pv : PVal) : ∀ i, Asc i (PVal.toValuesFrom i pv) := by
  induction pv with
  | nil => intro i; trivial
  | cons o t ih =>
    intro i
    cases o with
    | none => exact (ih (i + 1)).mono (Nat.le_succ i)
    | some b => exact ⟨Nat.le_refl _, ih (i + 1)⟩

theorem mem_toValuesFrom (pv : PVal) : ∀ i x b,
    (x, b) ∈ PVal.toValuesFrom i pv ↔ i ≤ x ∧ pv[x - i]? = some (some b) := by
  induction pv with
  | nil => intro i x b; simp [PVal.toValuesFrom]
  | cons o t ih =>
    intro i x b
    have shift : i + 1 ≤ x → (o :: t)[x - i]? = t[x - (i + 1)]? := by
      intro h
      have : x - i = (x - (i + 1)) + 1 := by omega
      rw [this, List.getElem?_cons_succ]
    cases o with
    | none =>
      simp only [PVal.toValuesFrom]
      rw [ih]
      constructor
      · intro ⟨h1, h2⟩; exact ⟨by omega, by rw [shift h1]; exact h2⟩
      · intro ⟨h1, h2⟩
        by_cases hx : x = i
        · subst hx; simp at h2
        · have : i + 1 ≤ x := by omega
          exact ⟨this, by rw [← shift this]; exact h2⟩
    | some c =>
      simp only [PVal.toValuesFrom, List.mem_cons, Prod.mk.injEq]
      rw [ih]
      constructor
      · rintro (⟨rfl, rfl⟩ | ⟨h1, h2⟩)
        · simp
        · exact ⟨by omega, by rw [shift h1]; exact h2⟩
      · intro ⟨h1, h2⟩
        by_cases hx : x = i
        · subst hx; simp at h2; left; exact ⟨rfl, h2.symm⟩
        · have : i + 1 ≤ x := by omega
          right; exact ⟨this, by rw [← shift this]; exact h2⟩

theorem mem_toValues (pv : PVal) (x : Nat) (b : Bool) : (x, b) ∈ pv.toValues ↔ pv.get x = some b := by
  unfold PVal.toValues PVal.get
  rw [mem_toValuesFrom]
  simp only [Nat.zero_le, true_and, Nat.sub_zero]
  cases h : pv[x]? with
  | none => simp
  | some o => simp

theorem toValues_lt (pv : PVal) (x : Nat) (b : Bool) (h : (x, b) ∈ pv.toValues) : x < pv.length := by
  rw [mem_toValues] at h
  unfold PVal.get at h
  rcases Nat.lt_or_ge x pv.length with h' | h'
  · exact h'
  · rw [List.getElem?_eq_none h'] at h; cases h

/-- `v` agrees with every fixed variable of the partial valuation -/
def agrees (pv : PVal) (v : Nat → Bool) : Bool := pv.toValues.all (fun l => v l.1 == l.2)

theorem agrees_iff (pv : PVal) (v : Nat → Bool) :
    agrees pv v = true ↔ ∀ x b, pv.get x = some b → v x = b := by
  unfold agrees
  rw [List.all_eq_true]
  constructor
  · intro h x b hg
    have := h (x, b) ((mem_toValues pv x b).2 hg)
    simpa using this
  · intro h l hl
    obtain ⟨x, b⟩ := l
    have := h x b ((mem_toValues pv x b).1 hl)
    simp [this]

theorem agrees_dep (pv : PVal) (n : Nat) (hlen : pv.length ≤ n) : DepN n (agrees pv) := by
  intro v w hvw
  have key : ∀ v w : Nat → Bool, (∀ i, i < n → v i = w i) → agrees pv v = true → agrees pv w = true := by
    intro v w hvw h
    rw [agrees_iff] at h ⊢
    intro x b hg
    have := toValues_lt pv x b ((mem_toValues pv x b).2 hg)
    rw [← hvw x (by omega)]; exact h x b hg
  rw [Bool.eq_iff_iff]
  exact ⟨key v w hvw, key w v (fun i hi => (hvw i hi).symm)⟩

/-! ### pushing a node on a well-formed operand -/

theorem evalF_push {A : Arr} {n : Nat} (h : WFo A n) (nd : Node) (v : Nat → Bool) :
    ∀ fuel p, p < A.size → evalF (A.push nd) v fuel p = evalF A v fuel p := by
  intro fuel
  induction fuel with
  | zero =>
    intro p _
    by_cases h0 : p = 0
    · subst h0; simp [evalF_zero]
    by_cases h1 : p = 1
    · subst h1; simp [evalF_one]
    match p, h0, h1 with
    | p + 2, _, _ => simp [evalF]
  | succ f ih =>
    intro p hp
    by_cases h0 : p = 0
    · subst h0; simp [evalF_zero]
    by_cases h1 : p = 1
    · subst h1; simp [evalF_one]
    have hp2 : 2 ≤ p := by omega
    have hnd : A[p]? = some A[p] := by simp [hp]
    have hnd' : (A.push nd)[p]? = some A[p] := by rw [(Prefix.push A nd).2 p hp]; exact hnd
    obtain ⟨_, hl, hh, _, _⟩ := h.inner p A[p] hp2 hnd
    rw [evalF_succ _ v f p hp2 _ hnd', evalF_succ _ v f p hp2 _ hnd]
    split
    · exact ih _ hh
    · exact ih _ hl

theorem evW_push {A : Arr} {n : Nat} (h : WFo A n) (nd : Node) (v : Nat → Bool) (p : Nat) (hp : p < A.size) :
    evW (A.push nd) n v p = evW A n v p := evalF_push h nd v _ p hp

theorem wfo_push {A : Arr} {n : Nat} (h : WFo A n) (h2 : 2 ≤ A.size) (nd : Node) (hv : nd.var < n)
    (hl : nd.low < A.size) (hh : nd.high < A.size) (hvl : nd.var < varOf A n nd.low)
    (hvh : nd.var < varOf A n nd.high) : WFo (A.push nd) n := by
  have hpre := Prefix.push A nd
  refine ⟨?_, ?_, ?_⟩
  · rw [hpre.2 0 (by omega)]; exact h.zero
  · intro _; rw [hpre.2 1 (by omega)]; exact h.one h2
  · intro p nd' hp2 hnd'
    by_cases hps : p < A.size
    · rw [hpre.2 p hps] at hnd'
      obtain ⟨a, b, c, d, e⟩ := h.inner p nd' hp2 hnd'
      refine ⟨a, by simp; omega, by simp; omega, ?_, ?_⟩
      · rw [varOf_prefix hpre _ b]; exact d
      · rw [varOf_prefix hpre _ c]; exact e
    · have hpe : p = A.size := by
        rcases Nat.lt_or_ge p (A.push nd).size with h' | h'
        · simp at h'; omega
        · simp [Array.getElem?_eq_none h'] at hnd'
      subst hpe
      simp at hnd'
      subst hnd'
      refine ⟨hv, by simp; omega, by simp; omega, ?_, ?_⟩
      · rw [varOf_prefix hpre _ hl]; exact hvl
      · rw [varOf_prefix hpre _ hh]; exact hvh

/-! ### the clause Bdd -/

theorem clauseArr_cons (n x : Nat) (b : Bool) (t : List (Nat × Bool)) :
    clauseArr n ((x, b) :: t) =
      (clauseArr n t).push (if b then ⟨x, 0, root (clauseArr n t)⟩ else ⟨x, root (clauseArr n t), 0⟩) := rfl

/-- the model's recursion is the Rust loop `for (var, value) in to_values().into_iter().rev() { push }` -/
theorem clauseArr_eq_foldl (n : Nat) (l : List (Nat × Bool)) :
    clauseArr n l =
      l.reverse.foldl (fun A p => A.push (if p.2 then ⟨p.1, 0, root A⟩ else ⟨p.1, root A, 0⟩)) (mkTrue n) := by
  induction l with
  | nil => rfl
  | cons p t ih =>
    obtain ⟨x, b⟩ := p
    rw [clauseArr_cons, List.reverse_cons, List.foldl_append, ← ih]
    rfl

theorem clauseArr_spec (n : Nat) : ∀ (l : List (Nat × Bool)) (lo : Nat), Asc lo l → (∀ p ∈ l, p.1 < n) →
    WFo (clauseArr n l) n ∧ 2 ≤ (clauseArr n l).size ∧
    (∀ x, x < lo → x < n → x < varOf (clauseArr n l) n (root (clauseArr n l))) ∧
    ∀ v, evW (clauseArr n l) n v (root (clauseArr n l)) = l.all (fun p => v p.1 == p.2) := by
  intro l
  induction l with
  | nil =>
    intro lo _ _
    refine ⟨wfo_mkTrue n, by simp [clauseArr, mkTrue_size], ?_, ?_⟩
    · intro x _ hx; simp [clauseArr, root, mkTrue_size, varOf]; exact hx
    · intro v; simp [clauseArr, root, mkTrue_size, evW_one]
  | cons p t ih =>
    intro lo hasc hlt
    obtain ⟨x, b⟩ := p
    obtain ⟨hlo, hasc'⟩ := hasc
    have hxn : x < n := hlt (x, b) List.mem_cons_self
    obtain ⟨hw, hs2, hvar, hev⟩ := ih (x + 1) hasc' (fun p hp => hlt p (List.mem_cons_of_mem _ hp))
    generalize hA : clauseArr n t = A at hw hs2 hvar hev
    have hroot : root A < A.size := by unfold root; omega
    have hxr : x < varOf A n (root A) := hvar x (by omega) hxn
    have hx0 : x < varOf A n 0 := by simp [varOf]; exact hxn
    rw [clauseArr_cons, hA]
    generalize hnd : (if b then (⟨x, 0, root A⟩ : Node) else ⟨x, root A, 0⟩) = nd
    have hndv : nd.var = x := by rw [← hnd]; cases b <;> rfl
    have hw' : WFo (A.push nd) n := by
      apply wfo_push hw hs2 nd (by rw [hndv]; exact hxn)
      · rw [← hnd]; cases b <;> simp <;> omega
      · rw [← hnd]; cases b <;> simp <;> omega
      · rw [← hnd]; cases b <;> simp <;> assumption
      · rw [← hnd]; cases b <;> simp <;> assumption
    have hr' : root (A.push nd) = A.size := by simp [root]
    have hget : (A.push nd)[A.size]? = some nd := by simp
    refine ⟨hw', by simp; omega, ?_, ?_⟩
    · intro y hy _
      rw [hr', varOf_node _ _ hs2 hget, hndv]; omega
    · intro v
      rw [hr', evW_node hw' v _ hs2 _ hget, hndv, List.all_cons]
      have e0 : evW (A.push nd) n v 0 = false := evW_zero _ _ _
      have er : evW (A.push nd) n v (root A) = t.all (fun p => v p.1 == p.2) := by
        rw [evW_push hw nd v _ hroot]; exact hev v
      have hlow : nd.low = if b then 0 else root A := by rw [← hnd]; cases b <;> rfl
      have hhigh : nd.high = if b then root A else 0 := by rw [← hnd]; cases b <;> rfl
      rw [hlow, hhigh]
      cases b <;> cases hvx : v x <;> simp [e0, er]

theorem mkLiteral_eq (n x : Nat) (b : Bool) : mkLiteral n x b = clauseArr n [(x, b)] := by
  cases b <;> rfl

/-- the literal Bdd over `n` variables, `x < n` -/
theorem mkLiteral_spec (n x : Nat) (b : Bool) (hx : x < n) :
    WFo (mkLiteral n x b) n ∧ ∀ v, sem (mkLiteral n x b) v = (v x == b) := by
  rw [mkLiteral_eq]
  obtain ⟨hw, _, _, hev⟩ := clauseArr_spec n [(x, b)] 0 ⟨Nat.zero_le _, trivial⟩
    (by intro p hp; simp at hp; subst hp; exact hx)
  refine ⟨hw, ?_⟩
  intro v; rw [sem_eq hw, hev]; simp

/-- the clause Bdd of a partial valuation that fixes variables below `n` only -/
theorem mkPartialValuation_spec (n : Nat) (pv : PVal) (hlen : pv.length ≤ n) :
    WFo (mkPartialValuation n pv) n ∧ ∀ v, sem (mkPartialValuation n pv) v = agrees pv v := by
  unfold mkPartialValuation
  obtain ⟨hw, _, _, hev⟩ := clauseArr_spec n pv.toValues 0 (asc_toValuesFrom pv 0)
    (by intro p hp; obtain ⟨x, b⟩ := p; have := toValues_lt pv x b hp; exact Nat.lt_of_lt_of_le this hlen)
  refine ⟨hw, ?_⟩
  intro v; rw [sem_eq hw, hev]; rfl

end B.Rel
