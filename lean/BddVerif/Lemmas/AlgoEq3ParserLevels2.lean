import BddVerif.Lemmas.AlgoEq3ParserLevels
/-!
# `cond`, `terminal`, `parse_formula` (translated) = the hand model, branch by branch

Continuation of `AlgoEq3ParserLevels.lean`: the ternary level (first `?`, first `:`; the middle slice
`&data[question+1..colon]`, whose bounds are ordered because the first `?` and the first `:` are different tokens), the
terminals (negation chain, `true`/`false`/variable, parenthesised group, the two `{:?}` messages) and the fast-forward test of
`parse_formula`.
-/
namespace B.AlgoEq3Parser
open B B.Gen B.Gen.Algo3 B.AlgoEqUtil B.Parser

attribute [local instance 10000] Rust.monadOutcomeInline

/-! ### `cond` -/

theorem cond_rw (data : List Tok) (f : Nat) :
    parser__cond (f + 1) (convA data) =
      match (indexOfFirst data .qmark, indexOfFirst data .colon) with
      | (none, none) => parser__or f (convA data)
      | (some q, some c) =>
        if decide (c < q) = true then .ok (.error "Expected `?` before `:`.")
        else
          Rust.sliceTo (convA data) q >>= fun s1 => parser__or f s1 >>= fun r1 =>
          match r1 with
          | .ok v1 =>
            Rust.sliceRange (convA data) (q + 1) c >>= fun s2 => parser__or f s2 >>= fun r2 =>
            match r2 with
            | .ok v2 =>
              Rust.sliceFrom (convA data) (c + 1) >>= fun s3 => parser__or f s3 >>= fun r3 =>
              match r3 with
              | .ok v3 => .ok (.ok (.Cond v1 v2 v3))
              | .error e => .ok (.error e)
            | .error e => .ok (.error e)
          | .error e => .ok (.error e)
      | (none, some _) => .ok (.error "Expected `?` but only found `:`.")
      | (some _, none) => .ok (.error "Expected `:` but only found `?`.") := by
  rw [parser__cond.eq_2, show ExprToken.QuestionMark = convT .qmark from rfl, show ExprToken.Colon = convT .colon from rfl,
    index_of_first_conv _ _ (by decide), index_of_first_conv _ _ (by decide)]
  cases indexOfFirst data .qmark <;> cases indexOfFirst data .colon <;> rfl

theorem cond_none {data : List Tok} (hq : indexOfFirst data .qmark = none) (hc : indexOfFirst data .colon = none)
    (ih : OKor data) : OKcond data := by
  intro fuel hf
  obtain ⟨f, rfl⟩ : ∃ f, fuel = f + 1 := ⟨fuel - 1, by omega⟩
  rw [cond_rw, condP_eq, hq, hc]
  exact ih f (by omega)

theorem cond_order {data : List Tok} {q c : Nat} (hq : indexOfFirst data .qmark = some q)
    (hc : indexOfFirst data .colon = some c) (hlt : c < q) : OKcond data := by
  intro fuel hf
  obtain ⟨f, rfl⟩ : ∃ f, fuel = f + 1 := ⟨fuel - 1, by omega⟩
  rw [cond_rw, condP_eq, hq, hc]
  simp only [hlt, decide_true, if_true]
  rfl

theorem cond_only_colon {data : List Tok} {c : Nat} (hq : indexOfFirst data .qmark = none)
    (hc : indexOfFirst data .colon = some c) : OKcond data := by
  intro fuel hf
  obtain ⟨f, rfl⟩ : ∃ f, fuel = f + 1 := ⟨fuel - 1, by omega⟩
  rw [cond_rw, condP_eq, hq, hc]
  rfl

theorem cond_only_qmark {data : List Tok} {q : Nat} (hq : indexOfFirst data .qmark = some q)
    (hc : indexOfFirst data .colon = none) : OKcond data := by
  intro fuel hf
  obtain ⟨f, rfl⟩ : ∃ f, fuel = f + 1 := ⟨fuel - 1, by omega⟩
  rw [cond_rw, condP_eq, hq, hc]
  rfl

theorem cond_some {data : List Tok} {q c : Nat} (hq : indexOfFirst data .qmark = some q)
    (hc : indexOfFirst data .colon = some c) (hlt : ¬ c < q)
    (ih1 : OKor (data.take q)) (ih2 : OKor ((data.take c).drop (q + 1))) (ih3 : OKor (data.drop (c + 1))) :
    OKcond data := by
  intro fuel hf
  obtain ⟨f, rfl⟩ : ∃ f, fuel = f + 1 := ⟨fuel - 1, by omega⟩
  have hne := qmark_ne_colon hq hc
  have hqlt := indexOfFirst_lt hq
  have hclt := indexOfFirst_lt hc
  have h1 := sizeL_take_lt hq
  have h2 := sizeL_mid_lt q hc
  have h3 := sizeL_drop_lt hc
  have hle : ¬ (q + 1 > c) := by omega
  rw [cond_rw, condP_eq, hq, hc]
  simp only [hlt, decide_false, if_false, hle, Bool.false_eq_true]
  rw [sliceTo_conv _ _ (by omega)]
  simp only [bind_ok]
  rw [ih1 f (by omega)]
  cases orP (data.take q) with
  | ok a =>
    simp only [convO, Outcome.bind, bind_ok]
    rw [sliceRange_conv _ _ _ (by omega) (by omega)]; simp only [bind_ok]; rw [ih2 f (by omega)]
    cases orP ((data.take c).drop (q + 1)) with
    | ok b =>
      simp only [convO, bind_ok]
      rw [sliceFrom_conv _ _ (by omega)]; simp only [bind_ok]; rw [ih3 f (by omega)]
      cases orP (data.drop (c + 1)) <;> rfl
    | err m => rfl
    | panic m => rfl
  | err m => rfl
  | panic m => rfl

/-! ### `terminal` -/

theorem msgConv_several :
    msgConv "Expected variable name or (...), but found several tokens." =
      "Expected variable name or (...), but found {:?}." := by decide
theorem msgConv_operator :
    msgConv "Expected variable name or (...), but found an operator." =
      "Expected variable name or (...), but found {:?}." := by decide
theorem msgConv_nothing :
    msgConv "Expected formula, found nothing :(" = "Expected formula, found nothing :(" := by decide

theorem idx_conv_zero (t : Tok) (ts : List Tok) : Rust.idx (convA (t :: ts)) 0 = .ok (convT t) := by
  rw [idx_of_lt _ _ (by simp)]; rfl

theorem term_nil : OKterm [] := by
  intro fuel hf
  obtain ⟨f, rfl⟩ : ∃ f, fuel = f + 1 := ⟨fuel - 1, by omega⟩
  rw [terminal.eq_2, terminalP]
  rfl

/-- the generated `terminal` on a non-empty slice -/
theorem term_rw (t : Tok) (ts : List Tok) (f : Nat) :
    terminal (f + 1) (convA (t :: ts)) =
      if Tok.eqK t .not = true then
        terminal f (convA ts) >>= fun r =>
          match r with
          | .ok v => .ok (.ok (.Not v))
          | .error e => .ok (.error e)
      else if decide (ts.length + 1 > 1) = true then
        .ok (.error "Expected variable name or (...), but found {:?}.")
      else
        match convT t with
        | .Id name =>
          if (name == "true") = true then .ok (.ok (.Const true))
          else if (name == "false") = true then .ok (.ok (.Const false))
          else .ok (.ok (.Variable name))
        | .Tokens inner =>
          parse_formula f inner >>= fun r =>
            match r with
            | .ok v => .ok (.ok v)
            | .error e => .ok (.error e)
        | _ => .ok (.error "Expected variable name or (...), but found {:?}.") := by
  rw [terminal.eq_2]
  have he : (convA (t :: ts)).isEmpty = false := by simp [convA, convL]
  rw [he, idx_conv_zero]
  simp only [Bool.false_eq_true, if_false, bind_ok]
  rw [show ExprToken.Not = convT .not from rfl, beq_convT _ _ (by decide), sliceFrom_conv _ _ (by simp)]
  simp only [bind_ok, convA_size, List.length_cons, List.drop_succ_cons, List.drop_zero]
  rfl

theorem eqK_not (t : Tok) : Tok.eqK t .not = true ↔ t = .not := by
  cases t <;> simp [Tok.eqK, Tok.tag]

theorem term_not {rest : List Tok} (ih : OKterm rest) : OKterm (.not :: rest) := by
  intro fuel hf
  obtain ⟨f, rfl⟩ : ∃ f, fuel = f + 1 := ⟨fuel - 1, by omega⟩
  have hs : sizeL (.not :: rest) = 1 + sizeL rest := by simp [sizeL, Tok.size]
  rw [term_rw, if_pos ((eqK_not _).2 rfl), ih f (by omega), terminalP]
  cases terminalP rest <;> rfl

theorem term_several (a b : Tok) (tl : List Tok) (hne : a = .not → False) : OKterm (a :: b :: tl) := by
  intro fuel hf
  obtain ⟨f, rfl⟩ : ∃ f, fuel = f + 1 := ⟨fuel - 1, by omega⟩
  have hm : terminalP (a :: b :: tl) = .err "Expected variable name or (...), but found several tokens." := by
    rw [terminalP.eq_def]; split <;> simp_all
  rw [term_rw, if_neg (fun h => hne ((eqK_not _).1 h)), if_pos (by simp), hm]
  simp only [convO, msgConv_several]

theorem ofList_eq_lit (name : List Char) (s : String) : (String.ofList name == s) = decide (name = s.toList) := by
  rw [Bool.eq_iff_iff]
  simp only [beq_iff_eq, decide_eq_true_eq]
  constructor
  · intro h; rw [← h, String.toList_ofList]
  · intro h; rw [h, String.ofList_toList]

theorem term_id (name : Name) : OKterm [.id name] := by
  intro fuel hf
  obtain ⟨f, rfl⟩ : ∃ f, fuel = f + 1 := ⟨fuel - 1, by omega⟩
  rw [term_rw, if_neg (by simp [Tok.eqK, Tok.tag]), if_neg (by simp), terminalP]
  simp only [convT, ofList_eq_lit, decide_eq_true_eq]
  rw [show "true".toList = kwTrue from by decide, show "false".toList = kwFalse from by decide]
  by_cases h1 : name = kwTrue
  · simp only [h1, if_true]; rfl
  · by_cases h2 : name = kwFalse
    · subst h2; rfl
    · simp only [h1, h2, if_false]; rfl

theorem term_group {inner : List Tok} (ih : OKform inner) : OKterm [.group inner] := by
  intro fuel hf
  obtain ⟨f, rfl⟩ : ∃ f, fuel = f + 1 := ⟨fuel - 1, by omega⟩
  have hs : sizeL [.group inner] = 1 + sizeL inner := by simp [sizeL, Tok.size]
  rw [term_rw, if_neg (by simp [Tok.eqK, Tok.tag]), if_neg (by simp), terminalP]
  simp only [convT]
  rw [show (⟨convL inner⟩ : Array GT) = convA inner from rfl, ih f (by omega)]
  cases parseFormula inner <;> rfl

theorem term_operator (head : Tok) (h1 : head = .not → False) (h2 : ∀ name, head = .id name → False)
    (h3 : ∀ inner, head = .group inner → False) : OKterm [head] := by
  intro fuel hf
  obtain ⟨f, rfl⟩ : ∃ f, fuel = f + 1 := ⟨fuel - 1, by omega⟩
  have hm : terminalP [head] = .err "Expected variable name or (...), but found an operator." := by
    rw [terminalP.eq_def]; split <;> simp_all
  rw [term_rw, if_neg (fun h => h1 ((eqK_not _).1 h)), if_neg (by simp), hm]
  simp only [convO, msgConv_operator]
  cases head <;> first | rfl | exact (h1 rfl).elim | exact (h2 _ rfl).elim | exact (h3 _ rfl).elim

/-! ### `parse_formula` -/

theorem isSingleGroup_iff (data : List Tok) : isSingleGroup data = true ↔ ∃ inner, data = [.group inner] := by
  constructor
  · intro h
    match data, h with
    | [.group inner], _ => exact ⟨inner, rfl⟩
  · rintro ⟨inner, rfl⟩; rfl

theorem form_group {data : List Tok} (h : isSingleGroup data = true) (ih : OKterm data) : OKform data := by
  intro fuel hf
  obtain ⟨f, rfl⟩ : ∃ f, fuel = f + 1 := ⟨fuel - 1, by omega⟩
  rw [parseFormula_eq, if_pos h, ← ih f (by omega)]
  obtain ⟨inner, rfl⟩ := (isSingleGroup_iff data).1 h
  rw [parse_formula.eq_2]
  rw [if_pos (by simp), idx_conv_zero]
  rfl

theorem form_other {data : List Tok} (h : ¬ isSingleGroup data = true) (ih : OKiff data) : OKform data := by
  intro fuel hf
  obtain ⟨f, rfl⟩ : ∃ f, fuel = f + 1 := ⟨fuel - 1, by omega⟩
  rw [parseFormula_eq, if_neg h, ← ih f (by omega), parse_formula.eq_2]
  match data, h with
  | [], _ => rfl
  | _ :: _ :: _, _ => rw [if_neg (by simp)]; rfl
  | [t], h =>
    rw [if_pos (by simp), idx_conv_zero]
    cases t <;> first | rfl | exact (h rfl).elim

end B.AlgoEq3Parser
