import BddVerif.Model.Limit
import BddVerif.Lemmas.Limit
/-!
`apply_with_flip_and_limit`, part 3: `Lim.applyRecLim` does not depend on the capacities of the hash maps of its initial
state (the Rust code sizes them by the operands, the hand-written model uses a constant): equivalent maps in, equivalent
maps and identical `res` / `nonEmpty` / pointer out.
-/
namespace B.AlgoDL
open B B.Lim Std

structure StEq (s t : St) : Prop where
  res : s.res = t.res
  ne : s.nonEmpty = t.nonEmpty
  ex : s.existing.Equiv t.existing
  fin : s.finished.Equiv t.finished

def OEq : Option (St × Nat) → Option (St × Nat) → Prop
  | some a, some b => StEq a.1 b.1 ∧ a.2 = b.2
  | none, none => True
  | _, _ => False

def RecCongr (rec : Nat → Nat → St → Option (St × Nat)) : Prop := ∀ a b s t, StEq s t → OEq (rec a b s) (rec a b t)

theorem flagSt_congr {s t : St} (h : StEq s t) (lo hi : Nat) : StEq (flagSt s lo hi) (flagSt t lo hi) := by
  unfold flagSt
  split
  · exact ⟨h.res, rfl, h.ex, h.fin⟩
  · exact h

theorem finishLim_congr (lim : Nat) {s t : St} (h : StEq s t) (l r d lo hi : Nat) (fl : Bool) :
    OEq (finishLim lim s l r d lo hi fl) (finishLim lim t l r d lo hi fl) := by
  rw [finishLim_unfold, finishLim_unfold]
  have hf := flagSt_congr h lo hi
  generalize flagSt s lo hi = s1 at hf
  generalize flagSt t lo hi = t1 at hf
  by_cases hlh : lo = hi
  · rw [if_pos hlh, if_pos hlh]
    exact ⟨⟨hf.res, hf.ne, hf.ex, hf.fin.insert _ _⟩, rfl⟩
  · rw [if_neg hlh, if_neg hlh]
    rw [← hf.ex.getElem?_eq (k := nodeOf fl d lo hi)]
    cases s1.existing[nodeOf fl d lo hi]? with
    | some i => exact ⟨⟨hf.res, hf.ne, hf.ex, hf.fin.insert _ _⟩, rfl⟩
    | none =>
      simp only []
      rw [← hf.res]
      by_cases hl : (s1.res.push (nodeOf fl d lo hi)).size > lim
      · rw [if_pos hl, if_pos hl]; trivial
      · rw [if_neg hl, if_neg hl]
        exact ⟨⟨rfl, hf.ne, hf.ex.insert _ _, hf.fin.insert _ _⟩, rfl⟩

theorem solveLim_congr (op : Op2) (rec : Nat → Nat → St → Option (St × Nat)) (hrec : RecCongr rec) (a b : Nat)
    {s t : St} (h : StEq s t) : OEq (solveLim op rec a b s) (solveLim op rec a b t) := by
  unfold solveLim
  cases op (asBool a) (asBool b) with
  | some c => exact ⟨h, rfl⟩
  | none => exact hrec a b s t h

/-- two sub-tasks, then `finishLim` -/
theorem two_congr (op : Op2) (rec : Nat → Nat → St → Option (St × Nat)) (hrec : RecCongr rec)
    (a1 b1 a2 b2 : Nat) (fin2 : St → Nat → Nat → Option (St × Nat))
    (hfin : ∀ s t p1 p2, StEq s t → OEq (fin2 s p1 p2) (fin2 t p1 p2)) {s t : St} (h : StEq s t) :
    OEq
      (match solveLim op rec a1 b1 s with
        | none => none
        | some r1 =>
          match solveLim op rec a2 b2 r1.1 with
          | none => none
          | some r2 => fin2 r2.1 r1.2 r2.2)
      (match solveLim op rec a1 b1 t with
        | none => none
        | some r1 =>
          match solveLim op rec a2 b2 r1.1 with
          | none => none
          | some r2 => fin2 r2.1 r1.2 r2.2) := by
  have q1 := solveLim_congr op rec hrec a1 b1 h
  revert q1
  cases solveLim op rec a1 b1 s <;> cases solveLim op rec a1 b1 t <;> intro q1
  · trivial
  · exact q1.elim
  · exact q1.elim
  · rename_i r1 r1'
    simp only []
    have q2 := solveLim_congr op rec hrec a2 b2 q1.1
    revert q2
    cases solveLim op rec a2 b2 r1.1 <;> cases solveLim op rec a2 b2 r1'.1 <;> intro q2
    · trivial
    · exact q2.elim
    · exact q2.elim
    · rename_i r2 r2'
      simp only []
      rw [q1.2, q2.2]
      exact hfin _ _ _ _ q2.1

theorem applyStepLim_congr (Γ : Ctx) (lim : Nat) (rec : Nat → Nat → St → Option (St × Nat)) (hrec : RecCongr rec) :
    RecCongr (applyStepLim Γ lim rec) := by
  intro l r s t h
  unfold applyStepLim
  rw [← h.fin.getElem?_eq (k := (l, r))]
  cases s.finished[(l, r)]? with
  | some p => exact ⟨h, rfl⟩
  | none =>
    simp only []
    split
    · exact two_congr Γ.op rec hrec _ _ _ _ (fun s2 p1 p2 => finishLim lim s2 l r _ p1 p2 true)
        (fun s t p1 p2 hst => finishLim_congr lim hst l r _ p1 p2 true) h
    · exact two_congr Γ.op rec hrec _ _ _ _ (fun s2 p1 p2 => finishLim lim s2 l r _ p2 p1 false)
        (fun s t p1 p2 hst => finishLim_congr lim hst l r _ p2 p1 false) h

theorem applyRecLim_congr (Γ : Ctx) (lim : Nat) : ∀ f, RecCongr (applyRecLim Γ lim f) := by
  intro f
  induction f with
  | zero => intro a b s t h; exact ⟨h, rfl⟩
  | succ f ih => exact applyStepLim_congr Γ lim _ ih

end B.AlgoDL
