import BddVerif.Lemmas.AlgoEq2Ren
import BddVerif.Lemmas.AlgoEqApply
import BddVerif.Lemmas.AlgoEqNestedOuter
import BddVerif.Props.C07
/-!
# `Bdd::substitute` (src/_impl_bdd/_impl_util.rs:572) as translated = `Ren.Subst.substitute`

Composition of the equivalences already proved for the pieces:
`Bdd_support_set` (AlgoEqUtilSupport), `Bdd_set_num_vars` / `Bdd_rename_variables` (AlgoEq2Ren, this family),
`apply_with_flip` (AlgoEqApply: `Bdd::iff`), `nested_apply` (AlgoEqNestedOuter: `binary_op_with_exists`), plus the three
hash maps of the clash path seen through `get` (`clash_maps`: the shift `var..n ↦ +1`, the same without `var`, and
its inverse built by `into_iter().map(swap).collect()`).

Domain: `self`, `function` well formed over the same `n < 65535` variables (the domain of `Props/C07.lean:
substitute_spec`, where the model never panics). The engines' equivalence theorems need every pointer to fit `u32` and
enough fuel; both are conditions on the operands/results of the MODEL's run (`StepOK`), as for `nested_apply`.
-/
namespace B.AlgoEq2Ren
open B B.Gen B.AlgoEqUtil Std
attribute [local instance 10000] Rust.monadOutcomeInline

/-! ### building blocks: the engines as `substitute` calls them -/

/-- `Bdd::iff` through the proved equivalence of `apply_with_flip` -/
theorem Bdd_iff_eq (fuel : Nat) (L R : Arr) (n : Nat) (hL : WFo L n) (hR : WFo R n)
    (hsz : L.size * R.size + 2 ≤ 2 ^ 32) (hfuel : 3 * (L.size * R.size) ≤ fuel) :
    Algo2.Bdd_iff fuel L R = .ok (applyWithFlip L R Gen.iff_ none none none) := by
  unfold Algo2.Bdd_iff Algo.apply
  rw [apply_with_flip_eq_model L R n Gen.iff_ _ none none none hL hR Ren.Subst.iff_consistent (by simp) (by simp) (by simp)
    hsz fuel hfuel]

theorem and_c : Consistent Gen.and_ (fun a b => a && b) := by constructor <;> decide
theorem or_c : Consistent Gen.or_ (fun a b => a || b) := by constructor <;> decide

theorem trigger_single (x : Nat) : (fun var => (Rust.hashSetFromArr #[x]).contains var) = trigOfList [x] := by
  funext v
  unfold Rust.hashSetFromArr trigOfList
  simp only [List.contains_cons, List.contains_nil, Bool.or_false]
  rw [← Array.foldl_toList]
  simp only [List.foldl_cons, List.foldl_nil, HashSet.contains_insert,
    HashSet.contains_emptyWithCapacity, Bool.or_false]
  by_cases h : x = v
  · subst h; simp
  · have h1 : (x == v) = false := by simpa using h
    have h2 : (v == x) = false := by simpa using fun e => h e.symm
    rw [h1, h2]

/-- `Bdd::binary_op_with_exists(L, R, and, &[x])` through the proved equivalence of `nested_apply` -/
theorem Bdd_exists_and_eq (fuel : Nat) (L R : Arr) (n x : Nat) (hL : WFo L n) (hR : WFo R n)
    (hL32 : L.size ≤ 4294967296) (hR32 : R.size ≤ 4294967296)
    (h32 : (nestedRun L R (trigOfList [x]) Gen.and_ Gen.or_).1.res.size ≤ 4294967296)
    (hfuel : AlgoEq.nestedFuel L R (trigOfList [x]) Gen.and_ Gen.or_ ≤ fuel) :
    Algo2.Bdd_binary_op_with_exists fuel L R Gen.and_ #[x] = .ok (binaryOpWithExists L R Gen.and_ [x]) := by
  unfold Algo2.Bdd_binary_op_with_exists
  have ht := trigger_single x
  simp only [] at ht ⊢
  rw [ht]
  rw [AlgoEq.binary_op_nested_eq_model L R n (trigOfList [x]) Gen.and_ Gen.or_ _ _ hL hR
    and_c or_c (by intro a; cases a <;> rfl) hL32 hR32 h32 fuel hfuel]
  rfl

/-! ### the permutation maps -/

theorem from_index_ok (i : Nat) (h : i < 65536) : Algo2.BddVariable_from_index i = .ok i := by
  unfold Algo2.BddVariable_from_index Rust.u16TryFrom
  simp [h, Rust.unwrapR]

/-- the loop `for input in var..num_vars { permutation.insert(input, input + 1) }` -/
theorem perm_loop (k : Nat) : ∀ (s : Nat) (m : HashMap Nat Nat), s + k < 65536 →
    ∃ pm : HashMap Nat Nat,
      iterL (fun input (m : HashMap Nat Nat) => Algo2.BddVariable_from_index (input + 1) >>= fun a =>
        Algo2.BddVariable_from_index input >>= fun b => (pure (ForInStep.yield (m.insert b a)) : Outcome _))
        (List.range' s k) m = .ok pm ∧
      ∀ y, pm[y]? = if s ≤ y ∧ y < s + k then some (y + 1) else m[y]? := by
  induction k with
  | zero => intro s m _; exact ⟨m, rfl, fun y => by rw [if_neg (by omega)]⟩
  | succ k ih =>
    intro s m h
    rw [List.range'_succ, iterL_cons, from_index_ok (s + 1) (by omega), bind_ok, from_index_ok s (by omega), bind_ok]
    simp only [pure_eq]
    obtain ⟨pm, h1, h2⟩ := ih (s + 1) (m.insert s (s + 1)) (by omega)
    refine ⟨pm, h1, ?_⟩
    intro y
    rw [h2, HashMap.getElem?_insert]
    by_cases e : s = y
    · subst e
      simp
    · have : (s == y) = false := by simpa using e
      rw [this]
      simp only [Bool.false_eq_true, if_false]
      by_cases c : s + 1 ≤ y ∧ y < s + 1 + k
      · rw [if_pos c, if_pos (by omega)]
      · rw [if_neg c, if_neg (by omega)]

theorem lookup_iff_mem_of_nodup (k v : Nat) : ∀ (l : List (Nat × Nat)), (l.map (·.1)).Nodup →
    (l.lookup k = some v ↔ (k, v) ∈ l) := by
  intro l
  induction l with
  | nil => intro _; simp
  | cons ab t ih =>
    intro hnd
    obtain ⟨a, b⟩ := ab
    rw [List.map_cons, List.nodup_cons] at hnd
    rw [List.lookup_cons]
    by_cases e : k = a
    · subst e
      simp only [beq_self_eq_true, Option.some.injEq, List.mem_cons, Prod.mk.injEq, true_and]
      constructor
      · intro h; exact Or.inl h.symm
      · rintro (h | h)
        · exact h.symm
        · exact absurd (List.mem_map.mpr ⟨(k, v), h, rfl⟩) hnd.1
    · have : (k == a) = false := by simpa using e
      rw [this]
      simp only [List.mem_cons, Prod.mk.injEq, e, false_and, false_or]
      exact ih hnd.2

/-- `permutation.into_iter().map(|(a, b)| (b, a)).collect()` for an injective map, seen through `get` -/
theorem reverse_map_getElem? (M : HashMap Nat Nat) (hinj : ∀ (a a' z : Nat), M[a]? = some z → M[a']? = some z → a = a') (z a : Nat) :
    (Rust.hashMapFromArr (M.toArray.map fun x => (x.2, x.1)))[z]? = some a ↔ M[a]? = some z := by
  rw [hashMapFromArr_getElem?]
  simp only [Array.toList_map, HashMap.toList_toArray]
  have hnd : ((M.toList.map fun x => (x.2, x.1)).map (·.1)).Nodup := by
    rw [List.map_map]
    have hd := HashMap.distinct_keys_toList (m := M)
    rw [List.Nodup, List.pairwise_map]
    refine List.Pairwise.imp_of_mem ?_ hd
    intro p q hp hq hpq
    simp only [Function.comp]
    intro e
    obtain ⟨a1, z1⟩ := p
    obtain ⟨a2, z2⟩ := q
    simp only [] at e hpq
    subst e
    rw [HashMap.mem_toList_iff_getElem?_eq_some] at hp hq
    have := hinj a1 a2 z1 hp hq
    simp [this] at hpq
  have hnd' : (((M.toList.map fun x => (x.2, x.1)).reverse).map (·.1)).Nodup := by
    rw [List.map_reverse, List.Nodup, List.pairwise_reverse]
    exact hnd.imp (fun h e => h e.symm)
  rw [lookup_iff_mem_of_nodup z a _ hnd', List.mem_reverse, List.mem_map]
  constructor
  · rintro ⟨⟨a', z'⟩, hm, he⟩
    simp only [Prod.mk.injEq] at he
    obtain ⟨rfl, rfl⟩ := he
    exact HashMap.mem_toList_iff_getElem?_eq_some.mp hm
  · intro h
    exact ⟨(a, z), HashMap.mem_toList_iff_getElem?_eq_some.mpr h, rfl⟩

/-! ### the three paths of `substitute` -/

open B.Ren B.Ren.Subst B.Props.C17 B.Props.C07

/-- size and fuel side conditions of one `iff` + one `and`-`exists` step (the engines' equivalence theorems need
    every pointer to fit `u32` and enough fuel); `I` is the intermediate `var ⇔ function` diagram of the MODEL -/
structure StepOK (fuel : Nat) (F G : Arr) (n x : Nat) : Prop where
  iffSize : 3 * G.size + 2 ≤ 2 ^ 32
  iffFuel : 9 * G.size ≤ fuel
  left32 : F.size ≤ 4294967296
  mid32 : (applyWithFlip (Subst.mkVar n x) G Gen.iff_ none none none).size ≤ 4294967296
  res32 : (nestedRun F (applyWithFlip (Subst.mkVar n x) G Gen.iff_ none none none) (trigOfList [x]) Gen.and_ Gen.or_).1.res.size
    ≤ 4294967296
  nestFuel : AlgoEq.nestedFuel F (applyWithFlip (Subst.mkVar n x) G Gen.iff_ none none none) (trigOfList [x]) Gen.and_ Gen.or_
    ≤ fuel

/-- the two engine calls of a step, translated = model -/
theorem step_eq (fuel : Nat) (F G : Arr) (n x : Nat) (hF : WFo F n) (hG : WFo G n) (hx : x < n)
    (ok : StepOK fuel F G n x) :
    Algo2.Bdd_iff fuel (Algo.Bdd_mk_literal n x true) G =
      .ok (applyWithFlip (Subst.mkVar n x) G Gen.iff_ none none none) ∧
    Algo2.Bdd_binary_op_with_exists fuel F (applyWithFlip (Subst.mkVar n x) G Gen.iff_ none none none) Gen.and_ #[x] =
      .ok (binaryOpWithExists F (applyWithFlip (Subst.mkVar n x) G Gen.iff_ none none none) Gen.and_ [x]) := by
  have hlit : Algo.Bdd_mk_literal n x true = Subst.mkVar n x := rfl
  have h3 : (Subst.mkVar n x).size = 3 := rfl
  obtain ⟨hiw, _⟩ := iff_var_spec G n x hG hx
  refine ⟨?_, ?_⟩
  · rw [hlit]
    exact Bdd_iff_eq fuel _ G n (wfo_mkVar n x hx) hG (by rw [h3]; exact ok.iffSize) (by rw [h3]; have := ok.iffFuel; omega)
  · exact Bdd_exists_and_eq fuel F _ n x hF hiw ok.left32 ok.mid32 ok.res32 ok.nestFuel

/-- `var` does not occur in `self`: `self.clone()`, for ALL arrays and every fuel -/
theorem substitute_absent (fuel : Nat) (f g : Arr) (x : Nat) (hx : x ∉ Ren.supportSet f) :
    Algo2.Bdd_substitute fuel f x g = .ok f ∧ substitute f x g = .ok f := by
  have hc : (Ren.supportSet f).contains x = false := by simpa using hx
  constructor
  · unfold Algo2.Bdd_substitute
    simp only [support_set_desugar, bind_ok, contains_supportFold, hc, Bool.not_false, if_true, pure_eq]
  · simp only [substitute, hc, Bool.not_false, if_true]

/-- the safe path: `var` occurs in `self` but not in `function` -/
theorem substitute_safe (fuel : Nat) (f g : Arr) (n x : Nat) (hf : WFo f n) (hg : WFo g n)
    (hxf : x ∈ Ren.supportSet f) (hxg : x ∉ Ren.supportSet g) (ok : StepOK fuel f g n x) :
    Algo2.Bdd_substitute fuel f x g = substitute f x g := by
  have hnf : numVars f = n := numVars_of_wf hf
  have hx : x < n := Ren.supportSet_lt hf x hxf
  have hcf : (Ren.supportSet f).contains x = true := by simpa using hxf
  have hcg : (Ren.supportSet g).contains x = false := by simpa using hxg
  obtain ⟨hiw, _⟩ := iff_var_spec g n x hg hx
  obtain ⟨e1, e2⟩ := step_eq fuel f g n x hf hg hx ok
  unfold Algo2.Bdd_substitute
  simp only [support_set_desugar, bind_ok, contains_supportFold, hcf, hcg, Bool.not_true, Bool.not_false,
    Bool.false_eq_true, if_false, if_true, num_vars_eq f hf.size_pos, hnf, e1, e2, pure_eq]
  simp only [substitute, hcf, hcg, Bool.not_true, Bool.not_false, Bool.false_eq_true, if_false, if_true,
    binaryOpWithExistsO, hnf, numVars_of_wf hiw, ne_eq, not_true_eq_false]

theorem renameVariables_congr (A : Arr) (π π' : VarMap) (h : ∀ y, π y = π' y) :
    renameVariables A π = renameVariables A π' := by
  have : π = π' := funext h
  rw [this]

/-- the intermediate diagrams of the clash path of the MODEL and the facts about them (from `Props/C07.lean`) -/
structure ClashFacts (f g : Arr) (n x : Nat) (F2 G2 I S S1 : Arr) : Prop where
  ef1 : setNumVars f (n + 1) = .ok (setTerm (n + 1) f)
  ef2 : renameVariables (setTerm (n + 1) f) (shiftUp x n) = .ok F2
  eg1 : setNumVars g (n + 1) = .ok (setTerm (n + 1) g)
  eg2 : renameVariables (setTerm (n + 1) g) (shiftUp (x + 1) n) = .ok G2
  hf2 : WFo F2 (n + 1)
  hg2 : WFo G2 (n + 1)
  hI : applyWithFlip (Subst.mkVar (n + 1) (x + 1)) G2 Gen.iff_ none none none = I
  hiw : WFo I (n + 1)
  hS : binaryOpWithExists F2 I Gen.and_ [x + 1] = S
  er : renameVariables S (shiftDown x n) = .ok S1
  hS1 : WFo S1 (n + 1)
  e9 : setNumVars S1 n = .ok (setTerm n S1)

theorem clash_facts (f g : Arr) (n x : Nat) (hf : WFo f n) (hg : WFo g n) (hx : x < n) :
    ∃ I S S1, ClashFacts f g n x (mapVars (applyMap (shiftUp x n)) (setTerm (n + 1) f))
      (mapVars (applyMap (shiftUp (x + 1) n)) (setTerm (n + 1) g)) I S S1 := by
  obtain ⟨ef1, ef2, hf2, _⟩ := shift_operand f n x hf
  obtain ⟨eg1, eg2, hg2, _⟩ := shift_operand g n (x + 1) hg
  obtain ⟨hiw, _⟩ := iff_var_spec _ (n + 1) (x + 1) hg2 (by omega)
  obtain ⟨hsw, hsno, _, _⟩ := exists_and_spec _ _ (n + 1) (x + 1) hf2 hiw (by omega)
  generalize hF2 : mapVars (applyMap (shiftUp x n)) (setTerm (n + 1) f) = F2 at ef2 hf2 hiw hsw hsno
  generalize hG2 : mapVars (applyMap (shiftUp (x + 1) n)) (setTerm (n + 1) g) = G2 at eg2 hg2 hiw hsw hsno
  generalize hI : applyWithFlip (Subst.mkVar (n + 1) (x + 1)) G2 Gen.iff_ none none none = I at hiw hsw hsno
  generalize hS : binaryOpWithExists F2 I Gen.and_ [x + 1] = S at hsw hsno
  have hnS : numVars S = n + 1 := numVars_of_wf hsw
  have hsS := supportSet_lt hsw
  have hadm : Admissible S (applyMap (shiftDown x n)) := by
    rw [Admissible, hnS]
    constructor
    · intro y hy; have := hsS y hy; rw [applyMap_shiftDown]; split <;> omega
    · intro y hy z hz hyz
      have := hsS y hy; have := hsS z hz
      have : y ≠ x + 1 := fun h => hsno (h ▸ hy)
      have : z ≠ x + 1 := fun h => hsno (h ▸ hz)
      rw [applyMap_shiftDown, applyMap_shiftDown]; split <;> split <;> omega
  have hS' : WFo S (numVars S) := by rw [hnS]; exact hsw
  obtain ⟨er, kr⟩ := (rename_variables_safe S (shiftDown x n) hS').1 hadm
  rw [hnS] at kr
  generalize hS1 : mapVars (applyMap (shiftDown x n)) S = S1 at er kr
  have hnS1 : numVars S1 = n + 1 := kr.count
  have hS1' : WFo S1 (numVars S1) := by rw [hnS1]; exact kr.valid
  have hlt1 : ∀ y ∈ Ren.supportSet S1, y < n := by
    intro y hy
    rw [← hS1] at hy
    obtain ⟨z, hz, rfl⟩ := (supportSet_mapVars_mem _ S y).mp hy
    have := hsS z hz
    have : z ≠ x + 1 := fun h => hsno (h ▸ hz)
    rw [applyMap_shiftDown]; split <;> omega
  obtain ⟨e9, _⟩ := (set_num_vars_safe S1 n hS1').1 hlt1
  exact ⟨I, S, S1, ef1, ef2, eg1, eg2, hf2, hg2, hI, hiw, hS, er, kr.valid, e9⟩

theorem clash_model {f g : Arr} {n x : Nat} {F2 G2 I S S1 : Arr} (c : ClashFacts f g n x F2 G2 I S S1)
    (hf : WFo f n) (hg : WFo g n) (hn : n + 1 < 65536) (hx : x < n)
    (hcf : (Ren.supportSet f).contains x = true) (hcg : (Ren.supportSet g).contains x = true) :
    substitute f x g = .ok (setTerm n S1) := by
  have hnf : numVars f = n := numVars_of_wf hf
  have hng : numVars g = n := numVars_of_wf hg
  have hnF2 : numVars F2 = n + 1 := numVars_of_wf c.hf2
  have hnI : numVars I = n + 1 := numVars_of_wf c.hiw
  have hnS1 : numVars S1 = n + 1 := numVars_of_wf c.hS1
  have h1 : ¬ 65536 ≤ n + 1 := by omega
  have h3 : ¬ n + 1 = 0 := by omega
  simp only [substitute, hcf, hcg, Bool.not_true, Bool.false_eq_true, if_false, hnf, hng, h1, c.ef1, ok_bind,
    c.ef2, hx, not_true_eq_false, c.eg1, c.eg2, hnF2, c.hI, binaryOpWithExistsO, hnI, ne_eq, c.hS, c.er, hnS1, h3,
    Nat.add_sub_cancel, c.e9]

/-- the three hash maps of the clash path, seen through `get` -/
theorem clash_maps (n x : Nat) (hn : n + 1 < 65536) (hx : x < n) :
    ∃ pm : HashMap Nat Nat,
      iterL (fun input (m : HashMap Nat Nat) => Algo2.BddVariable_from_index (input + 1) >>= fun a =>
        Algo2.BddVariable_from_index input >>= fun b => (pure (ForInStep.yield (m.insert b a)) : Outcome _))
        (List.range' x (n - x)) (Rust.hashMapWithCapacity 8) = .ok pm ∧
      (∀ y, pm[y]? = shiftUp x n y) ∧ (∀ y, (pm.erase x)[y]? = shiftUp (x + 1) n y) ∧
      (∀ z, (Rust.hashMapFromArr (Array.map (fun p => (p.2, p.1)) (pm.erase x).toArray))[z]? = shiftDown x n z) := by
  obtain ⟨pm, hpm, hget⟩ := perm_loop (n - x) x (Rust.hashMapWithCapacity 8) (by omega)
  have hpmf : ∀ y, pm[y]? = shiftUp x n y := by
    intro y
    rw [hget]
    unfold shiftUp Rust.hashMapWithCapacity
    by_cases c : x ≤ y ∧ y < n
    · rw [if_pos c, if_pos (by omega)]
    · rw [if_neg c, if_neg (by omega)]; exact HashMap.getElem?_emptyWithCapacity
  have hpme : ∀ y, (pm.erase x)[y]? = shiftUp (x + 1) n y := by
    intro y
    rw [HashMap.getElem?_erase, hpmf]
    unfold shiftUp
    by_cases e : x = y
    · subst e; simp; omega
    · have : (x == y) = false := by simpa using e
      simp only [this, Bool.false_eq_true, if_false]
      by_cases c : x ≤ y ∧ y < n
      · rw [if_pos c, if_pos (by omega)]
      · rw [if_neg c, if_neg (by omega)]
  refine ⟨pm, hpm, hpmf, hpme, ?_⟩
  intro z
  apply Option.ext
  intro a
  rw [reverse_map_getElem? (pm.erase x) (by
    intro a a' z h1 h2
    rw [hpme] at h1 h2
    unfold shiftUp at h1 h2
    split at h1 <;> split at h2 <;> simp at h1 h2 <;> omega) z a, hpme]
  unfold shiftUp shiftDown
  by_cases c : x + 1 ≤ a ∧ a < n
  · rw [if_pos c]
    by_cases d : x + 2 ≤ z ∧ z ≤ n
    · rw [if_pos d]; simp; omega
    · rw [if_neg d]; simp; omega
  · rw [if_neg c]
    by_cases d : x + 2 ≤ z ∧ z ≤ n
    · rw [if_pos d]; simp; omega
    · rw [if_neg d]; simp

theorem clash_gen {f g : Arr} {n x : Nat} {F2 G2 I S S1 : Arr} (c : ClashFacts f g n x F2 G2 I S S1)
    (hf : WFo f n) (hg : WFo g n) (hn : n + 1 < 65536) (hx : x < n)
    (hcf : (Ren.supportSet f).contains x = true) (hcg : (Ren.supportSet g).contains x = true)
    (fuel : Nat) (ok : StepOK fuel F2 G2 (n + 1) (x + 1)) :
    Algo2.Bdd_substitute fuel f x g = .ok (setTerm n S1) := by
  have hnf : numVars f = n := numVars_of_wf hf
  have hng : numVars g = n := numVars_of_wf hg
  have hnF2 : numVars F2 = n + 1 := numVars_of_wf c.hf2
  have hnS1 : numVars S1 = n + 1 := numVars_of_wf c.hS1
  obtain ⟨e1, e2⟩ := step_eq fuel F2 G2 (n + 1) (x + 1) c.hf2 c.hg2 (by omega) ok
  rw [c.hI] at e1 e2
  rw [c.hS] at e2
  obtain ⟨pm, hpm, hpmf, hpme, hrm⟩ := clash_maps n x hn hx
  have hchk : Rust.checkedAddU16 n 1 = some (n + 1) := by unfold Rust.checkedAddU16; rw [if_pos hn]
  have hpx : pm[x]? = some (x + 1) := by rw [hpmf]; unfold shiftUp; rw [if_pos ⟨Nat.le_refl _, hx⟩]
  generalize hPE : pm.erase x = pe at hpme hrm
  generalize hRM : Rust.hashMapFromArr (Array.map (fun p => (p.2, p.1)) pe.toArray) = RM at hrm
  have f1 : (fun y => pm[y]?) = shiftUp x n := funext hpmf
  have f2 : (fun y => pe[y]?) = shiftUp (x + 1) n := funext hpme
  have f3 : (fun y => RM[y]?) = shiftDown x n := funext hrm
  have g1 := (set_num_vars_rel f (n + 1)).of_ok c.ef1
  have g2 : Algo2.Bdd_rename_variables (setTerm (n + 1) f) pm = .ok F2 := by
    apply (rename_variables_rel _ pm).of_ok; rw [f1]; exact c.ef2
  have g3 := (set_num_vars_rel g (n + 1)).of_ok c.eg1
  have g4 : Algo2.Bdd_rename_variables (setTerm (n + 1) g) pe = .ok G2 := by
    apply (rename_variables_rel _ pe).of_ok; rw [f2]; exact c.eg2
  have g5 : Algo2.Bdd_rename_variables S RM = .ok S1 := by
    apply (rename_variables_rel _ RM).of_ok; rw [f3]; exact c.er
  have g6 := (set_num_vars_rel S1 n).of_ok c.e9
  unfold Algo2.Bdd_substitute
  simp only [support_set_desugar, bind_ok, contains_supportFold, hcf, hcg, Bool.not_true, Bool.false_eq_true, if_false,
    num_vars_eq f hf.size_pos, num_vars_eq g hg.size_pos, hnf, hng, Algo2.BddVariable_to_index, forIn_range_eq_iterL]
  rw [hpm]
  simp only [bind_ok, hchk, Rust.unwrap, g1, g2, hpx, hPE, hRM, g3, g4, num_vars_eq F2 c.hf2.size_pos, hnF2, e1, e2, g5,
    num_vars_eq S1 c.hS1.size_pos, hnS1, sub_of_le (n + 1) 1 (by omega), Nat.add_sub_cancel, g6, pure_eq]

/-- the clash path: `var` occurs in both; a proxy variable `var + 1` is created, eliminated, and the shift undone.
    `StepOK` is about the shifted operands of the model -/
theorem substitute_clash (fuel : Nat) (f g : Arr) (n x : Nat) (hf : WFo f n) (hg : WFo g n) (hn : n + 1 < 65536)
    (hxf : x ∈ Ren.supportSet f) (hxg : x ∈ Ren.supportSet g)
    (ok : StepOK fuel (mapVars (applyMap (shiftUp x n)) (setTerm (n + 1) f))
      (mapVars (applyMap (shiftUp (x + 1) n)) (setTerm (n + 1) g)) (n + 1) (x + 1)) :
    Algo2.Bdd_substitute fuel f x g = substitute f x g := by
  have hx : x < n := supportSet_lt hf x hxf
  have hcf : (Ren.supportSet f).contains x = true := by simpa using hxf
  have hcg : (Ren.supportSet g).contains x = true := by simpa using hxg
  obtain ⟨I, S, S1, c⟩ := clash_facts f g n x hf hg hx
  rw [clash_model c hf hg hn hx hcf hcg, clash_gen c hf hg hn hx hcf hcg fuel ok]

/-- the side conditions of whichever path the call takes -/
def SubstOK (fuel : Nat) (f g : Arr) (n x : Nat) : Prop :=
  x ∈ Ren.supportSet f →
    (x ∉ Ren.supportSet g → StepOK fuel f g n x) ∧
    (x ∈ Ren.supportSet g → StepOK fuel (mapVars (applyMap (shiftUp x n)) (setTerm (n + 1) f))
      (mapVars (applyMap (shiftUp (x + 1) n)) (setTerm (n + 1) g)) (n + 1) (x + 1))

/-- **`Bdd::substitute` as translated = `Ren.Subst.substitute`**, all three paths -/
theorem Bdd_substitute_eq_model (fuel : Nat) (f g : Arr) (n x : Nat) (hf : WFo f n) (hg : WFo g n)
    (hn : n + 1 < 65536) (ok : SubstOK fuel f g n x) :
    Algo2.Bdd_substitute fuel f x g = substitute f x g := by
  by_cases hxf : x ∈ Ren.supportSet f
  · by_cases hxg : x ∈ Ren.supportSet g
    · exact substitute_clash fuel f g n x hf hg hn hxf hxg ((ok hxf).2 hxg)
    · exact substitute_safe fuel f g n x hf hg hxf hxg ((ok hxf).1 hxg)
  · obtain ⟨h1, h2⟩ := substitute_absent fuel f g x hxf
    rw [h1, h2]

/-- chained with `Props/C07.lean: substitute_spec`: the TRANSLATED `substitute` never panics on its domain, returns a
    valid diagram over the same variables, and that diagram denotes `f[x := g]` -/
theorem Bdd_substitute_spec (fuel : Nat) (f g : Arr) (n x : Nat) (hf : WFo f n) (hg : WFo g n)
    (hn : n + 1 < 65536) (ok : SubstOK fuel f g n x) :
    ∃ r, Algo2.Bdd_substitute fuel f x g = .ok r ∧ WFo r n ∧
      (∀ v, Drive.evalArr r v = Drive.evalArr f (upd v x (Drive.evalArr g v))) ∧
      (x ∈ Ren.supportSet f → 2 ≤ r.size → Red r n) := by
  obtain ⟨r, h1, h2, h3, h4⟩ := substitute_spec f g n x hf hg hn
  exact ⟨r, by rw [Bdd_substitute_eq_model fuel f g n x hf hg hn ok, h1], h2, h3, h4⟩

/-! ### non-vacuity: a concrete run of the GENERATED `substitute` (safe path), pinned through the theorems

`Std.HashMap` does not reduce in the kernel: the `iff` step is evaluated through `applyWithFlip_eq_canon` + `decide`,
the nested run of the model by `simp` with the map lemmas. -/

/-- `x0 ⇔ x1` over three variables, the intermediate diagram of `substitute(¬x0 ∧ ¬x2, x0, x1)` -/
theorem exI : applyWithFlip (Subst.mkVar 3 0) exG1 Gen.iff_ none none none =
    #[⟨3, 0, 0⟩, ⟨3, 1, 1⟩, ⟨1, 0, 1⟩, ⟨1, 1, 0⟩, ⟨0, 3, 2⟩] := by
  rw [applyWithFlip_eq_canon (Subst.mkVar 3 0) exG1 3 Gen.iff_ (fun a b => a == b) none none none
    (wfo_mkVar 3 0 (by decide)) exG1_wf rfl iff_consistent (by simp) (by simp) (by simp)]
  decide

theorem ex_run :
    (nestedRun exF #[⟨3, 0, 0⟩, ⟨3, 1, 1⟩, ⟨1, 0, 1⟩, ⟨1, 1, 0⟩, ⟨0, 3, 2⟩] (trigOfList [0]) Gen.and_ Gen.or_).1.res.size = 4 ∧
    (nestedRun exF #[⟨3, 0, 0⟩, ⟨3, 1, 1⟩, ⟨1, 0, 1⟩, ⟨1, 1, 0⟩, ⟨0, 3, 2⟩] (trigOfList [0]) Gen.and_ Gen.or_).1.outer.size ≤ 10 ∧
    (nestedRun exF #[⟨3, 0, 0⟩, ⟨3, 1, 1⟩, ⟨1, 0, 1⟩, ⟨1, 1, 0⟩, ⟨0, 3, 2⟩] (trigOfList [0]) Gen.and_ Gen.or_).1.inner.size ≤ 10 := by
  simp [nestedRun, nestedRec, nestedStep, nestedFinish, nSolve, innerApply, innerRec, innerStep, innerFinish,
    nFindOrPush, nestedInit, exF, numVars, root, nodeAt, kids, asBool, ofBool, and_, or_, mkTrue, zeroN, oneN,
    trigOfList, HashMap.getElem_insert, HashMap.size_insert]

/-- all side conditions hold with fuel 31 -/
theorem ex_stepOK : StepOK 31 exF exG1 3 0 := by
  refine ⟨by decide, by decide, by decide, ?_, ?_, ?_⟩
  · rw [exI]; decide
  · rw [exI, ex_run.1]; decide
  · rw [exI]
    unfold AlgoEq.nestedFuel
    have := ex_run
    omega

/-- the generated `substitute`, fuel 31, replaces `x0` by `x1` in `¬x0 ∧ ¬x2`: the canonical array of `¬x1 ∧ ¬x2` -/
example : Algo2.Bdd_substitute 31 exF 0 exG1 = .ok #[⟨3, 0, 0⟩, ⟨3, 1, 1⟩, ⟨2, 1, 0⟩, ⟨1, 2, 0⟩] := by
  rw [substitute_safe 31 exF exG1 3 0 exF_wf exG1_wf (by decide) (by decide) ex_stepOK,
    substitute_safe_canonical exF exG1 3 0 exF_wf exG1_wf (by decide) (by decide)]
  exact congrArg Outcome.ok (by decide)

/-- a variable that does not occur: the operand itself, whatever the fuel and the second operand -/
example : Algo2.Bdd_substitute 0 exF 1 exG = .ok exF := (substitute_absent 0 exF exG 1 (by decide)).1

/-! the clash path: the shifted operands of `substitute(¬x0 ∧ ¬x2, x0, ¬x0 ∧ ¬x1 ∧ ¬x2)` -/

def exF2 : Arr := #[⟨4, 0, 0⟩, ⟨4, 1, 1⟩, ⟨3, 1, 0⟩, ⟨1, 2, 0⟩]
def exG2 : Arr := #[⟨4, 0, 0⟩, ⟨4, 1, 1⟩, ⟨3, 1, 0⟩, ⟨2, 2, 0⟩, ⟨0, 3, 0⟩]
theorem exF2_eq : mapVars (applyMap (shiftUp 0 3)) (setTerm 4 exF) = exF2 := by decide
theorem exG2_eq : mapVars (applyMap (shiftUp 1 3)) (setTerm 4 exG) = exG2 := by decide
theorem exG2_wf : WFo exG2 4 := wfoB_sound (by decide)

def exI2v : Arr := #[⟨4, 0, 0⟩, ⟨4, 1, 1⟩, ⟨1, 1, 0⟩, ⟨3, 1, 0⟩, ⟨2, 3, 0⟩, ⟨3, 0, 1⟩, ⟨2, 5, 1⟩, ⟨1, 6, 4⟩, ⟨0, 7, 2⟩]
theorem exI2 : applyWithFlip (Subst.mkVar 4 1) exG2 Gen.iff_ none none none = exI2v := by
  rw [applyWithFlip_eq_canon (Subst.mkVar 4 1) exG2 4 Gen.iff_ (fun a b => a == b) none none none
    (wfo_mkVar 4 1 (by decide)) exG2_wf rfl iff_consistent (by simp) (by simp) (by simp)]
  decide

theorem ex_run2 :
    (nestedRun exF2 exI2v (trigOfList [1]) Gen.and_ Gen.or_).1.res.size ≤ 20 ∧
    (nestedRun exF2 exI2v (trigOfList [1]) Gen.and_ Gen.or_).1.outer.size ≤ 20 ∧
    (nestedRun exF2 exI2v (trigOfList [1]) Gen.and_ Gen.or_).1.inner.size ≤ 20 := by
  simp [nestedRun, nestedRec, nestedStep, nestedFinish, nSolve, innerApply, innerRec, innerStep, innerFinish,
    nFindOrPush, nestedInit, exF2, exI2v, numVars, root, nodeAt, kids, asBool, ofBool, and_, or_, mkTrue, zeroN, oneN,
    trigOfList, HashMap.getElem_insert, HashMap.size_insert]

theorem ex_stepOK2 : StepOK 61 (mapVars (applyMap (shiftUp 0 3)) (setTerm 4 exF))
    (mapVars (applyMap (shiftUp 1 3)) (setTerm 4 exG)) 4 1 := by
  rw [exF2_eq, exG2_eq]
  refine ⟨by decide, by decide, by decide, ?_, ?_, ?_⟩
  · rw [exI2]; decide
  · rw [exI2]; have := ex_run2; omega
  · rw [exI2]
    unfold AlgoEq.nestedFuel
    have := ex_run2
    omega

/-- the operands of the fixed defect (clash path), fuel 61: the generated code returns the canonical array of
    `(x0 ∨ x1) ∧ ¬x2` -/
example : ∃ r, Algo2.Bdd_substitute 61 exF 0 exG = .ok r ∧ WFo r 3 ∧
    (List.range 8).map (fun i => Drive.evalArr r (Drive.valOfIndex 3 i)) =
      [false, false, true, false, true, false, true, false] := by
  obtain ⟨r, h1, h2, h3, _⟩ := Bdd_substitute_spec 61 exF exG 3 0 exF_wf exG_wf (by omega)
    (fun _ => ⟨fun h => absurd (by decide) h, fun _ => ex_stepOK2⟩)
  refine ⟨r, h1, h2, ?_⟩
  simp only [h3]
  decide

end B.AlgoEq2Ren
