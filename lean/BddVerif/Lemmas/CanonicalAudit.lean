import BddVerif.Lemmas.CanonicalComplete
/-! Axiom audit of the canonical-form theory: only `propext`, `Classical.choice`, `Quot.sound` may appear. -/
#print axioms B.canonical_unique
#print axioms B.canon_canonical
#print axioms B.canon_canonical'
#print axioms B.applyWithFlip_is_canonical
#print axioms B.applyWithFlip_unique
#print axioms B.isReduced_eq
#print axioms B.isReduced_sound
#print axioms B.postOrder_sim
#print axioms B.isCanon_sound
#print axioms B.canon_eq_mkFalse_iff
#print axioms B.canon_eq_mkTrue_iff
#print axioms B.canon_size_one_iff
#print axioms B.canon_size_two_iff
#print axioms B.canon_restrict
#print axioms B.Canonical.depBelow
#print axioms B.Canonical.cases
#print axioms B.Canonical.size_one_iff
#print axioms B.Canonical.size_two_iff
#print axioms B.ins_reach
#print axioms B.canon_nonconst
#print axioms B.Canonical.reach
#print axioms B.isReduced_complete
#print axioms B.ins_postOrder
#print axioms B.isCanon_complete
#print axioms B.isCanon_iff
